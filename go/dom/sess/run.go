package sess

import (
	"bufio"
	"encoding/json"
	"fmt"
	"io"
	"math/rand/v2"
	"os"
	"os/exec"
	"path/filepath"
	"runtime"
	"sort"
	"strconv"
	"strings"
	"sync"

	"verifharness/corr"
)

const prop = "C02"

// Case is a replayable conversation: the server configuration and the op lines after `init`.
type Case struct {
	Cfg Cfg      `json:"cfg"`
	Ops []string `json:"ops"`
	// timing cases: a timeline on the injected clock, or the name of a real-timer scenario
	Clock    *ClockScenario `json:"clock,omitempty"`
	Timeline []clockEvent   `json:"timeline,omitempty"`
	Timing   string         `json:"timing,omitempty"`
}

type caseResult struct {
	countOnly  bool // a property-oracle-only case (timing): nothing to compare with the model
	notes      []string
	envTrouble bool
	envNotes   []string
	name       string
	ops, impl  []string
	viol       []corr.Violation
	dist       map[string]int
	nontrivial bool
	skipped    bool
	resumed    bool // skipped because it ran before the server process was restarted
	err        error
}

type worker struct {
	progress  func(kind string, v any) // streams what the worker is doing to the parent process
	skipLeft  int                      // cases of the current job that were already run before a restart
	model     *model
	broken    bool // a hang was observed: what follows on these instances would be unreliable
	id        int
	rng       *rand.Rand
	ctx       *corr.Ctx
	instances map[Cfg]*instance
}

func (w *worker) instance(cfg Cfg) (*instance, error) {
	if in, ok := w.instances[cfg]; ok {
		return in, nil
	}
	in, err := newInstance(cfg, nil)
	if err != nil {
		return nil, err
	}
	w.instances[cfg] = in
	return in, nil
}

func (w *worker) closeAll() {
	for _, in := range w.instances {
		in.reset()
		in.close()
	}
}

func (w *worker) anyStuck() bool {
	for _, in := range w.instances {
		if in.stuck {
			return true
		}
	}
	return false
}

// linkedSession is ServerConn.Session() of client connection idx, as a session index (-1: none).
func (in *instance) linkedSession(idx int) int {
	cl, ok := in.clients[idx]
	if !ok {
		return -1
	}
	in.core.mu.Lock()
	rec := cl.rec
	closed := rec == nil || rec.closed
	in.core.mu.Unlock()
	if closed {
		return -1
	}
	ss := rec.sc.Session()
	if ss == nil {
		return -1
	}
	in.core.mu.Lock()
	defer in.core.mu.Unlock()
	if r, ok := in.core.bySess[ss]; ok && r.idx >= in.sessBase {
		return r.idx - in.sessBase
	}
	return -1
}

// runCase drives one conversation; next yields the following op line given the current view.
func (w *worker) runCase(cfg Cfg, name string, next func(*view) (string, bool)) (res caseResult) {
	res = caseResult{name: name, dist: map[string]int{}}
	if w.broken {
		res.skipped = true
		res.dist["skipped-after-hang"]++
		return res
	}
	defer func() {
		for _, v := range res.viol {
			if v.Key == "hang" || v.Key == "no-response" || v.Key == "dead-after-case" {
				w.broken = true
			}
		}
		if w.anyStuck() {
			w.broken = true
		}
	}()
	in, err := w.instance(cfg)
	if err != nil {
		res.err = err
		return res
	}
	in.reset()
	from := in.sessBase
	cs := &Case{Cfg: cfg}
	orc := &caseOracle{ctx: w.ctx, cs: cs, name: name, dist: res.dist}
	if w.progress != nil {
		w.progress("begin", wireBegin{Name: name, Cfg: cfg})
		orc.onViol = func(v corr.Violation) { w.progress("viol", v) }
	}
	res.ops = append(res.ops, cfg.initOp())
	res.impl = append(res.impl, "ok")
	v := &view{}
	orc.prev = in.snapshot()
	v.snap = orc.prev
	lastCloseErr, noConnDiag := "", ""
	var batch []Req
	var batchOps []string
	defer func() {
		res.name += noConnDiag
		// diagnostics: should this case disagree with the model, the report shows why the server
		// closed a connection last
		if lastCloseErr != "" {
			res.name += " [last close: " + lastCloseErr + "]"
		}
	}()
	flush := func() error {
		if len(batch) == 0 {
			return nil
		}
		b, err := in.doBatch(batch)
		if err != nil {
			return err
		}
		if b.Diag != "" && !strings.Contains(noConnDiag, b.Diag) {
			noConnDiag += fmt.Sprintf(" [conn %d %s]", batch[0].Conn, b.Diag)
		}
		post := in.snapshot()
		orc.afterBatch(b, post, in)
		v.snap = post
		res.ops = append(res.ops, batchOps...)
		res.impl = append(res.impl, b.Lines...)
		batch, batchOps = nil, nil
		return nil
	}
	for {
		op, ok := next(v)
		if !ok {
			if op == "skip" {
				res.skipped = true
			}
			break
		}
		f := strings.Fields(op)
		if len(f) < 2 || f[0] != "sess" {
			res.err = fmt.Errorf("bad op %q", op)
			break
		}
		cs.Ops = append(cs.Ops, op)
		if w.progress != nil {
			w.progress("op", op)
		}
		if f[1] == "preq" {
			r, err := parseReq(f[2:])
			if err != nil {
				res.err = err
				return res
			}
			if len(batch) > 0 && batch[0].Conn != r.Conn {
				if err := flush(); err != nil {
					res.err = err
					return res
				}
			}
			batch = append(batch, r)
			batchOps = append(batchOps, op)
			v.nSteps++
			if r.Method == "teardown" {
				// A torn-down session stays registered until its routine has finished; a request that
				// names it in that window is answered 400 "terminated" instead of 454.  The model has
				// no such window: the harness lets the session finish before it goes on.
				if err := flush(); err != nil {
					res.err = err
					return res
				}
			}
			continue
		}
		if err := flush(); err != nil {
			res.err = err
			return res
		}
		var line string
		switch f[1] {
		case "sync":
			post := in.snapshot()
			line = post.String()
			orc.prev = post
			v.snap = post
		case "open":
			c, _ := strconv.Atoi(f[2])
			ip := 0
			if len(f) > 3 {
				ip, _ = strconv.Atoi(f[3])
			}
			if _, dup := in.clients[c]; !dup {
				v.open = append(v.open, c)
				if c >= v.nextC {
					v.nextC = c + 1
				}
			}
			line = in.doOpen(c, ip)
			if in.hang != "" {
				orc.violate("no sequence hangs the server", "hang", in.hang)
				in.hang = ""
			}
			orc.prev = in.snapshot()
			v.snap = orc.prev
		case "close":
			c, _ := strconv.Atoi(f[2])
			line = in.doClose(c)
			post := in.snapshot()
			orc.afterClose(c, post, in)
			v.snap = post
		case "silence":
			l, ok := in.doSilence()
			if !ok {
				res.err = fmt.Errorf("`sess silence` needs an instance with short timeouts")
				return res
			}
			line = l
			post := in.snapshot()
			orc.afterSilence(post, in)
			v.snap = post
		case "chanmedia":
			k, _ := strconv.Atoi(f[2])
			line = in.doChanMedia(k)
			res.dist["chanmedia:probed"]++
			if strings.Contains(line, "x") {
				orc.violate("interleaved frames reach the media their channel was set up for", "sess-channel-media-mismatch",
					fmt.Sprintf("session %d: %s (x = the packet of that media did not arrive / was not counted)", k, line))
			}
			post := in.snapshot()
			orc.afterQuiet("channel probe", post, in)
			v.snap = post
		case "media":
			k, _ := strconv.Atoi(f[2])
			line = in.doMedia(k)
			if line == "flow ?" {
				res.envTrouble = in.envErr != ""
				res.skipped = true
				res.dist["media:not-probed"]++
				return res
			}
			res.dist["media:"+line]++
			orc.afterMedia(k, line)
			post := in.snapshot()
			orc.afterQuiet("media probe", post, in)
			v.snap = post
		case "frame", "response":
			c, _ := strconv.Atoi(f[2])
			closed, delivered := in.doNonRequest(c, f[1] == "frame")
			post := in.snapshot()
			line = post.String()
			if delivered {
				res.dist["non-request:"+f[1]+":closed="+b01(closed)]++
			}
			if closed {
				orc.afterClose(c, post, in)
			} else {
				orc.afterQuiet(f[1], post, in)
			}
			v.snap = post
		case "req":
			r, err := parseReq(f[2:])
			if err != nil {
				res.err = err
				return res
			}
			linked := in.linkedSession(r.Conn)
			var usedChans []int // interleaved RTP channels of the addressed session before the request
			if k := linked; r.Method == "setup" {
				if k < 0 {
					// not linked: the addressed session is the one named by a numeric Session field; a
					// request without a Session header ("n") or with an unknown id ("w") creates a NEW
					// session, whose channels are all free (Atoi("n") == 0 made this oracle look at
					// session 0: false alarm corrected, see DESIGN 10.5)
					var err error
					if k, err = strconv.Atoi(r.Sid); err != nil {
						k = -1
					}
				}
				// … and only a session that is still alive: an id that names a session which has ended
				// meanwhile (its connection was closed) is an unknown id, the SETUP creates a new session
				// (second false alarm of this oracle, thorough tier `rand-67064`, see DESIGN 10.5)
				alive := false
				if k >= 0 {
					for _, sx := range in.snapshot().sess {
						alive = alive || sx.idx == k
					}
				}
				if mp := in.sessMedia[k]; alive && mp != nil && mp.tcp {
					usedChans = append(usedChans, mp.chans...)
				}
			}
			out, err := in.doReq(r)
			if err != nil {
				res.err = err
				return res
			}
			post := in.snapshot()
			line = out.line(post)
			if out.NoConn && out.CloseErr != "" {
				if !strings.Contains(noConnDiag, out.CloseErr) {
					noConnDiag += fmt.Sprintf(" [conn %d %s]", r.Conn, out.CloseErr)
				}
			} else if out.CloseErr != "" {
				lastCloseErr = fmt.Sprintf("%s -> %d: %s", r.Method, out.Status, out.CloseErr)
			}
			if e := out.CloseErr; e != "" {
				// environment trouble (sockets, multicast memberships) would show up here
				for _, w := range []string{"listen ", "bind:", "setsockopt", "no buffer space", "too many open files",
					"address already in use", "permission denied", "cannot assign", "no such device", "network is unreachable"} {
					if strings.Contains(e, w) {
						res.envNotes = append(res.envNotes, fmt.Sprintf("%s: %s answered %d, connection closed with: %s", name, r.Method, out.Status, e))
						res.envTrouble = true
						break
					}
				}
			}
			orc.afterSetupChannels(r, out, usedChans)
			orc.afterReq(r, out, linked, post, in)
			v.snap = post
		default:
			res.err = fmt.Errorf("bad op %q", op)
			return res
		}
		res.ops = append(res.ops, op)
		res.impl = append(res.impl, line)
		v.nSteps++
	}
	if err := flush(); err != nil {
		res.err = err
		return res
	}
	to := from + v.snap.opened
	res.nontrivial = v.snap.opened > 0
	in.reset()
	if in.hang != "" {
		orc.violate("no sequence hangs the server", "hang", "while cleaning up: "+in.hang)
		in.hang = ""
	}
	orc.finish(in, from, to)
	in.nCases++
	if in.nCases%16 == 0 || len(orc.viol) > 0 {
		if err := in.freshProbe(); err != nil {
			orc.violate("the server keeps answering a fresh connection afterwards", "dead-after-case", err.Error())
		}
	}
	res.viol = orc.viol
	return res
}

// model is a private oracle process of the worker: it lets the worker see at once whether a case
// agrees with the model, and run it a second time if it does not.  A difference between model and
// implementation is deterministic and shows again; trouble with the environment (sockets, multicast
// memberships, an overloaded machine) does not.  The authoritative comparison remains corr's.
type model struct {
	cmd *exec.Cmd
	in  io.WriteCloser
	out *bufio.Reader
}

func startModel(path string) *model {
	if path == "" {
		return nil
	}
	cmd := exec.Command(path)
	in, err1 := cmd.StdinPipe()
	out, err2 := cmd.StdoutPipe()
	if err1 != nil || err2 != nil || cmd.Start() != nil {
		return nil
	}
	return &model{cmd: cmd, in: in, out: bufio.NewReaderSize(out, 1<<16)}
}

func (m *model) lines(ops []string) []string {
	if m == nil {
		return nil
	}
	var sb strings.Builder
	for _, op := range ops {
		sb.WriteString(op)
		sb.WriteByte('\n')
	}
	if _, err := io.WriteString(m.in, sb.String()); err != nil {
		return nil
	}
	out := make([]string, 0, len(ops))
	for range ops {
		l, err := m.out.ReadString('\n')
		if err != nil {
			return nil
		}
		out = append(out, strings.TrimRight(l, "\n"))
	}
	return out
}

func (m *model) stop() {
	if m != nil {
		m.in.Close()
		m.cmd.Wait() //nolint:errcheck
	}
}

func sameLines(a, b []string) bool {
	if len(a) != len(b) {
		return false
	}
	for i := range a {
		if a[i] != b[i] {
			return false
		}
	}
	return true
}

// runChecked runs a case; if the implementation's answers differ from the model's it replays the
// same operations once and keeps the replay when that one agrees.
func (w *worker) runChecked(cfg Cfg, name string, next func(*view) (string, bool)) caseResult {
	if w.skipLeft > 0 {
		w.skipLeft--
		return caseResult{name: name, dist: map[string]int{}, skipped: true, resumed: true}
	}
	r := w.runCase(cfg, name, next)
	if r.err != nil || r.skipped || w.broken || w.model == nil {
		return r
	}
	want := w.model.lines(r.ops)
	if want == nil || sameLines(want, r.impl) {
		return r
	}
	r2 := w.runCase(cfg, name, scripted(r.ops[1:]))
	if r2.err == nil && sameLines(r2.ops, r.ops) && sameLines(want, r2.impl) && len(r2.viol) == 0 {
		for k, n := range r.dist {
			if _, ok := r2.dist[k]; !ok && strings.HasPrefix(k, "exhaustive:") || k == "random" || k == "corpus" {
				r2.dist[k] = n
			}
		}
		r2.dist["transient-difference-not-reproduced"]++
		r2.envNotes = append(r2.envNotes, fmt.Sprintf("%s differed from the model once and agreed when replayed", r.name))
		return r2
	}
	return r
}

func scripted(ops []string) func(*view) (string, bool) {
	i := 0
	return func(*view) (string, bool) {
		if i >= len(ops) {
			return "", false
		}
		i++
		return ops[i-1], true
	}
}

func corpusDir() string {
	if d := os.Getenv("VERIF_ROOT"); d != "" {
		return filepath.Join(d, "corpus", prop)
	}
	return "/verif/corpus/" + prop
}

func emit(c *corr.Ctx, r caseResult) {
	if r.err != nil {
		c.Note(fmt.Sprintf("case %s: harness error: %v", r.name, r.err))
		c.Violate(corr.Violation{Property: prop, Clause: "harness", Key: "harness-error", Where: r.name, Detail: r.err.Error()})
		return
	}
	for k, n := range r.dist {
		c.DistN(k, n)
	}
	for _, n := range r.notes {
		c.Note(n)
	}
	for _, n := range r.envNotes {
		if envNoteCount < 20 {
			c.Note("environment? " + n)
		}
		envNoteCount++
	}
	if r.envTrouble {
		// the operating system refused a socket operation (e.g. a multicast port taken by another
		// process on this machine): nothing to learn about the server from this case
		c.Dist("skipped:operating-system-refused-a-socket-operation")
		return
	}
	if r.resumed {
		return
	}
	if r.skipped {
		if r.dist["skipped-after-hang"] == 0 {
			c.Dist("exhaustive:skipped(no session to name yet)")
		}
		return
	}
	for _, v := range r.viol {
		c.Violate(v)
	}
	if r.countOnly || len(r.ops) == 0 {
		c.CountOnly(r.name, r.nontrivial)
		return
	}
	c.Add(corr.Case{Name: r.name, Ops: r.ops, Impl: r.impl, Nontrivial: r.nontrivial})
}

var envNoteCount int

var fullCfg = Cfg{Mask: 255, UDP: true, Mcast: false, NMedias: 2}

func configs(c *corr.Ctx, rng *rand.Rand) []Cfg {
	cfgs := []Cfg{
		fullCfg,
		{Mask: 255, UDP: false, Mcast: false, NMedias: 2},
		{Mask: 255, UDP: true, Mcast: true, NMedias: 2},
		{Mask: 0, UDP: true, NMedias: 1},
		{Mask: 1 | 4 | 8, UDP: true, NMedias: 2},       // read-only server: describe, setup, play
		{Mask: 2 | 4 | 16, UDP: true, NMedias: 1},      // publish-only server: announce, setup, record
		{Mask: 255 &^ 4, UDP: true, NMedias: 2},        // no OnSetup
		{Mask: 255 &^ 32 &^ 64, UDP: true, NMedias: 3}, // no OnPause, no OnGetParameter
		{Mask: 255, UDP: true, NMedias: 2, IdleMs: 30000},
		{Mask: 255, UDP: true, NMedias: 2, IdleMs: 45500},
		{Mask: 255, UDP: true, NMedias: 2, IdleMs: 12999}, // Session header: timeout=7
		{Mask: 255, UDP: true, NMedias: 2, IdleMs: 8000},  // Session header: timeout=3; nothing in a case takes seconds
	}
	n := c.N(2, 12)
	for i := 0; i < n; i++ {
		cfgs = append(cfgs, Cfg{Mask: rng.IntN(256), UDP: rng.IntN(4) != 0, Mcast: rng.IntN(4) == 0, NMedias: 1 + rng.IntN(3),
			IdleMs: []int{0, 0, 20000, 61500, 3600000}[rng.IntN(5)]})
	}
	return cfgs
}

// job is a unit of work for a worker: it produces case results in a deterministic order.
type job func(w *worker, out func(caseResult))

// ---------------------------------------------------------------------------------------------
// The real server runs in child processes (re-exec of this binary with VERIF_SESS_CHILD set), one
// per worker.  A child streams what it does — every case it begins, every operation before it is
// executed, every violation as soon as the oracle sees it, every finished case — so that a panic
// of the server is attributed to the exact request sequence (violation `sess-server-panic`, the
// sequence is the replay) and the run goes on in a fresh child.

const childEnv = "VERIF_SESS_CHILD"

type wireBegin struct {
	Name string `json:"name"`
	Cfg  Cfg    `json:"cfg"`
	Case *Case  `json:"case,omitempty"` // timing cases: the whole replay input
}

type wireResult struct {
	Name       string           `json:"name"`
	Ops        []string         `json:"ops,omitempty"`
	Impl       []string         `json:"impl,omitempty"`
	Viol       []corr.Violation `json:"viol,omitempty"`
	Dist       map[string]int   `json:"dist,omitempty"`
	Notes      []string         `json:"notes,omitempty"`
	EnvNotes   []string         `json:"env_notes,omitempty"`
	Err        string           `json:"err,omitempty"`
	Nontrivial bool             `json:"nontrivial,omitempty"`
	Skipped    bool             `json:"skipped,omitempty"`
	Resumed    bool             `json:"resumed,omitempty"`
	CountOnly  bool             `json:"count_only,omitempty"`
	EnvTrouble bool             `json:"env_trouble,omitempty"`
}

type wireLine struct {
	T string          `json:"t"`
	V json.RawMessage `json:"v,omitempty"`
}

func toWire(r caseResult) wireResult {
	w := wireResult{Name: r.name, Ops: r.ops, Impl: r.impl, Viol: r.viol, Dist: r.dist, Notes: r.notes, EnvNotes: r.envNotes,
		Nontrivial: r.nontrivial, Skipped: r.skipped, Resumed: r.resumed, CountOnly: r.countOnly, EnvTrouble: r.envTrouble}
	if r.err != nil {
		w.Err = r.err.Error()
	}
	return w
}

func fromWire(w wireResult) caseResult {
	r := caseResult{name: w.Name, ops: w.Ops, impl: w.Impl, viol: w.Viol, dist: w.Dist, notes: w.Notes, envNotes: w.EnvNotes,
		nontrivial: w.Nontrivial, skipped: w.Skipped, resumed: w.Resumed, countOnly: w.CountOnly, envTrouble: w.EnvTrouble}
	if r.dist == nil {
		r.dist = map[string]int{}
	}
	if w.Err != "" {
		r.err = fmt.Errorf("%s", w.Err)
	}
	return r
}

func workerCount() int {
	n := runtime.NumCPU() / 2
	if n < 2 {
		n = 2
	}
	if n > 8 {
		n = 8
	}
	return n
}

// runChild: worker `i` of `n`, starting at job `startJob` (skipping its first `skip` cases).
func runChild(c *corr.Ctx, spec string) {
	var i, n, startJob, skip int
	if _, err := fmt.Sscanf(spec, "%d/%d/%d/%d", &i, &n, &startJob, &skip); err != nil || n <= 0 {
		fmt.Fprintln(os.Stderr, "bad "+childEnv+": "+spec)
		os.Exit(2)
	}
	setPortSlice(i)
	jobs := buildJobs(c)
	seeds := make([]uint64, n)
	for k := range seeds {
		seeds[k] = c.Rng.Uint64()
	}
	out := bufio.NewWriterSize(os.Stdout, 1<<16)
	var mu sync.Mutex
	send := func(kind string, v any) {
		b, err := json.Marshal(v)
		if err != nil {
			b = []byte(`"unencodable"`)
		}
		l, _ := json.Marshal(wireLine{T: kind, V: b})
		mu.Lock()
		out.Write(l)
		out.WriteByte('\n')
		out.Flush()
		mu.Unlock()
	}
	w := &worker{id: i, ctx: c, instances: map[Cfg]*instance{}, model: startModel(c.Oracle), progress: send}
	for j := i; j < len(jobs); j += n {
		if j < startJob {
			continue
		}
		w.rng = rand.New(rand.NewPCG(seeds[i], uint64(j)))
		w.skipLeft = 0
		if j == startJob {
			w.skipLeft = skip
		}
		send("job", j)
		jobs[j](w, func(r caseResult) { send("end", toWire(r)) })
	}
	w.closeAll()
	w.model.stop()
	send("done", nil)
}

// resultQueue is unbounded: a child must never be held up by the parent (its server has real idle
// timeouts running), whatever the merge order and however long the parent takes to compare a batch.
type resultQueue struct {
	mu     sync.Mutex
	cond   *sync.Cond
	items  []caseResult
	closed bool
}

func newResultQueue() *resultQueue {
	q := &resultQueue{}
	q.cond = sync.NewCond(&q.mu)
	return q
}

func (q *resultQueue) push(r caseResult) {
	q.mu.Lock()
	q.items = append(q.items, r)
	q.mu.Unlock()
	q.cond.Signal()
}

func (q *resultQueue) close() {
	q.mu.Lock()
	q.closed = true
	q.mu.Unlock()
	q.cond.Broadcast()
}

func (q *resultQueue) pop() (caseResult, bool) {
	q.mu.Lock()
	defer q.mu.Unlock()
	for len(q.items) == 0 && !q.closed {
		q.cond.Wait()
	}
	if len(q.items) == 0 {
		return caseResult{}, false
	}
	r := q.items[0]
	q.items[0] = caseResult{}
	q.items = q.items[1:]
	return r, true
}

// tailBuffer keeps the end of what a child wrote to stderr (the panic message is there).
type tailBuffer struct {
	mu  sync.Mutex
	buf []byte
}

func (t *tailBuffer) Write(p []byte) (int, error) {
	t.mu.Lock()
	t.buf = append(t.buf, p...)
	if len(t.buf) > 1<<16 {
		t.buf = t.buf[len(t.buf)-(1<<16):]
	}
	t.mu.Unlock()
	return len(p), nil
}

func (t *tailBuffer) panicText() string {
	t.mu.Lock()
	s := string(t.buf)
	t.mu.Unlock()
	for _, marker := range []string{"panic:", "fatal error:"} {
		if k := strings.Index(s, marker); k >= 0 {
			s = s[k:]
			break
		}
	}
	if len(s) > 1800 {
		s = s[:1800] + " …"
	}
	return strings.TrimSpace(s)
}

// runParent starts the children, merges their results deterministically (round-robin over the
// workers) and turns the death of a child into a violation with the sequence it was executing.
func runParent(c *corr.Ctx) {
	n := workerCount()
	replayFile := ""
	if c.Replay != nil {
		n = 1
		dir := c.WorkDir
		if dir == "" {
			dir = os.TempDir()
		}
		replayFile = filepath.Join(dir, fmt.Sprintf("sess-replay-%d.json", os.Getpid()))
		if err := os.WriteFile(replayFile, c.Replay, 0o644); err != nil {
			c.Note("replay: " + err.Error())
			return
		}
		defer os.Remove(replayFile)
	}
	self, err := os.Executable()
	if err != nil {
		self = os.Args[0]
	}
	chans := make([]*resultQueue, n)
	var wg sync.WaitGroup
	var noteMu sync.Mutex
	var notes []string
	for i := 0; i < n; i++ {
		chans[i] = newResultQueue()
		wg.Add(1)
		go func(i int) {
			defer wg.Done()
			defer chans[i].close()
			startJob, skip, crashes := 0, 0, 0
			for {
				args := []string{"-seed", strconv.FormatUint(c.Seed, 10), "-tier", c.Tier, "-oracle", c.Oracle, "-out", os.DevNull}
				if c.WorkDir != "" {
					args = append(args, "-work", c.WorkDir)
				}
				if replayFile != "" {
					args = append(args, "-replay", replayFile)
				}
				cmd := exec.Command(self, args...)
				cmd.Env = append(os.Environ(), fmt.Sprintf("%s=%d/%d/%d/%d", childEnv, i, n, startJob, skip))
				stderr := &tailBuffer{}
				cmd.Stderr = stderr
				pipe, err := cmd.StdoutPipe()
				if err == nil {
					err = cmd.Start()
				}
				if err != nil {
					noteMu.Lock()
					notes = append(notes, fmt.Sprintf("worker %d: cannot start the server process: %v", i, err))
					noteMu.Unlock()
					return
				}
				sc := bufio.NewScanner(pipe)
				sc.Buffer(make([]byte, 1<<20), 1<<28)
				done := false
				curJob, endsInJob := startJob, 0
				var cur *Case
				curName, lastName := "", ""
				var lastCase *Case
				var streamed []corr.Violation
				for sc.Scan() {
					var l wireLine
					if json.Unmarshal(sc.Bytes(), &l) != nil {
						continue
					}
					switch l.T {
					case "job":
						json.Unmarshal(l.V, &curJob) //nolint:errcheck
						endsInJob = 0
					case "begin":
						var b wireBegin
						json.Unmarshal(l.V, &b) //nolint:errcheck
						cur, curName, streamed = &Case{Cfg: b.Cfg}, b.Name, nil
						if b.Case != nil {
							cur = b.Case
						}
					case "op":
						var op string
						json.Unmarshal(l.V, &op) //nolint:errcheck
						if cur != nil {
							cur.Ops = append(cur.Ops, op)
						}
					case "viol":
						var v corr.Violation
						if json.Unmarshal(l.V, &v) == nil {
							streamed = append(streamed, v)
						}
					case "end":
						var wr wireResult
						if json.Unmarshal(l.V, &wr) == nil {
							chans[i].push(fromWire(wr))
						}
						endsInJob++
						if cur != nil {
							lastCase, lastName = cur, curName
						}
						cur, streamed = nil, nil
					case "done":
						done = true
					}
				}
				werr := cmd.Wait()
				if done {
					return
				}
				// the server process died
				crashes++
				where, cs, during := curName, cur, "while handling the last operation of this sequence"
				if cs == nil {
					where, cs, during = lastName, lastCase, "after this sequence (while the harness was cleaning up or starting the next case)"
				}
				r := caseResult{name: where + " [server process died]", dist: map[string]int{"server-process-died": 1}, countOnly: true, nontrivial: true}
				r.viol = append(r.viol, streamed...)
				r.viol = append(r.viol, corr.Violation{Property: prop, Clause: "no sequence crashes or hangs the server",
					Key: "sess-server-panic", Where: where, Input: cs,
					Detail: fmt.Sprintf("the process running the server died (%v) %s: %s", werr, during, stderr.panicText())})
				chans[i].push(r)
				if crashes > 5 {
					noteMu.Lock()
					notes = append(notes, fmt.Sprintf("worker %d: the server process died %d times; its remaining jobs were not run", i, crashes))
					noteMu.Unlock()
					return
				}
				startJob, skip = curJob, endsInJob+1
			}
		}(i)
	}
	open := n
	finished := make([]bool, n)
	for open > 0 {
		for i := 0; i < n; i++ {
			if finished[i] {
				continue
			}
			r, ok := chans[i].pop()
			if !ok {
				finished[i] = true
				open--
				continue
			}
			emit(c, r)
		}
	}
	wg.Wait()
	for _, nt := range notes {
		c.Note(nt)
	}
}

// Run is the domain driver.
func Run(c *corr.Ctx) {
	if spec := os.Getenv(childEnv); spec != "" {
		runChild(c, spec)
		return
	}
	c.Rule("real gortsplib.Server on loopback TCP in child processes (UDP / multicast offered per configuration), handlers scripted per request; " +
		"after every request: status, CSeq, Session header, interleaved channel, connection closed?, open connections, " +
		"ServerSession.State()/Medias()/Transport() of every live session, OnSessionOpen/OnSessionClose counts == Lean model; " +
		"property oracle: one response per request with the same CSeq, State() == RFC 2326 table after every request, illegal => error + unchanged, " +
		"unknown Session header => refused, session closed exactly once and only for a listed reason, liveness watchdog, a dying server process " +
		"is attributed to its request sequence; timing on an injected clock (both tiers) and on real scaled-down timers (thorough)")

	// the RFC table of the Go oracle == Spec/Rfc2326.lean
	ops, impl := rfcOps()
	c.Add(corr.Case{Name: "rfc-table", Ops: ops, Impl: impl, Nontrivial: true})
	if c.Replay == nil {
		c.Exhaustive()
	}
	runParent(c)
}

// buildJobs lists the work, identically in the parent's and in every child's view (it draws from
// c.Rng in a fixed order).
func buildJobs(c *corr.Ctx) []job {
	if c.Replay != nil {
		var cs Case
		if err := json.Unmarshal(c.Replay, &cs); err != nil {
			return []job{func(_ *worker, out func(caseResult)) {
				out(caseResult{name: "replay", dist: map[string]int{}, err: fmt.Errorf("replay input not understood: %v", err)})
			}}
		}
		return []job{func(w *worker, out func(caseResult)) {
			switch {
			case cs.Clock != nil:
				out(w.attributed("clock:"+cs.Clock.Name, &Case{Clock: cs.Clock}, func() caseResult { return runClockScenario(*cs.Clock) }))
			case cs.Timing != "":
				if sc, ok := timingScenarioByName(c, cs.Timing); ok {
					out(w.attributed("timing:"+sc.name, &Case{Timing: sc.name}, func() caseResult { return timingCase(sc) }))
				}
			default:
				out(w.runCase(cs.Cfg, "replay", scripted(cs.Ops)))
			}
		}}
	}
	var jobs []job

	// corpus first
	files, _ := filepath.Glob(filepath.Join(corpusDir(), "*.json"))
	sort.Strings(files)
	for _, f := range files {
		b, err := os.ReadFile(f)
		if err != nil {
			continue
		}
		var cs Case
		if json.Unmarshal(b, &cs) != nil {
			c.Note("corpus file not understood: " + f)
			continue
		}
		name := "corpus/" + filepath.Base(f)
		jobs = append(jobs, func(w *worker, out func(caseResult)) {
			r := w.runChecked(cs.Cfg, name, scripted(cs.Ops))
			r.dist["corpus"]++
			out(r)
		})
	}

	// exhaustive: every sequence over the reduced alphabet up to length 3 (quick) / 4 (thorough)
	depth := c.N(3, 4)
	alpha := alphabet(true, false)
	alphaWide := alphabet(true, true)
	// pipelined: SETUP / ANNOUNCE first (so that there is a session to name), then every pair or triple
	// of symbols written to the socket in one segment, then a sync
	addPipelined := func(cfg Cfg, alpha []symbol, depth int, tag string) {
		starts := []symbol{alpha[4], alpha[6], alpha[3], alpha[0]} // setup0-udp, setup0-tcp, announce, options
		for si := range starts {
			for first := range alpha {
				si, first := si, first
				jobs = append(jobs, func(w *worker, out func(caseResult)) {
					for l := 2; l <= depth; l++ {
						total := 1
						for i := 1; i < l; i++ {
							total *= len(alpha)
						}
						if l == depth && !c.Quick() {
							// keep the full product in the thorough tier only
						} else if l == depth {
							total = len(alpha) * 4
						}
						for k := 0; k < total; k++ {
							idx := make([]int, l)
							idx[0] = first
							x := k
							if l == depth && c.Quick() {
								x = k * 7919 // a spread sample of the product
							}
							for i := 1; i < l; i++ {
								idx[i] = x % len(alpha)
								x /= len(alpha)
							}
							names := []string{starts[si].name + ";"}
							for i := 0; i < l; i++ {
								names = append(names, alpha[idx[i]].name)
							}
							pos := -2
							r := w.runChecked(cfg, tag+":"+strings.Join(names, ","), func(v *view) (string, bool) {
								switch {
								case pos == -2:
									pos++
									return "sess open 0 0", true
								case pos == -1:
									pos++
									op, _ := starts[si].op(v)
									return op, true
								case pos < l:
									op, ok := alpha[idx[pos]].op(v)
									if !ok {
										return "skip", false
									}
									pos++
									return strings.Replace(op, "sess req ", "sess preq ", 1), true
								case pos == l:
									pos++
									return "sess sync", true
								}
								return "", false
							})
							r.dist[fmt.Sprintf("exhaustive:%s:len%d", tag, l)]++
							out(r)
						}
					}
				})
			}
		}
	}
	addExhaustive := func(cfg Cfg, alpha []symbol, depth int, tag string) {
		for first := range alpha {
			first := first
			jobs = append(jobs, func(w *worker, out func(caseResult)) {
				idx := make([]int, depth)
				for l := 1; l <= depth; l++ {
					total := 1
					for i := 1; i < l; i++ {
						total *= len(alpha)
					}
					for k := 0; k < total; k++ {
						idx[0] = first
						x := k
						for i := 1; i < l; i++ {
							idx[i] = x % len(alpha)
							x /= len(alpha)
						}
						names := make([]string, l)
						for i := 0; i < l; i++ {
							names[i] = alpha[idx[i]].name
						}
						nConns := 1
						for i := 0; i < l; i++ {
							if alpha[idx[i]].conn+1 > nConns {
								nConns = alpha[idx[i]].conn + 1
							}
						}
						pos := -nConns
						r := w.runChecked(cfg, tag+":"+strings.Join(names, ","), func(v *view) (string, bool) {
							if pos < 0 {
								pos++
								c := nConns + pos - 1
								return fmt.Sprintf("sess open %d %d", c, c/2), true
							}
							if pos >= l {
								return "", false
							}
							op, ok := alpha[idx[pos]].op(v)
							if !ok {
								return "skip", false
							}
							pos++
							return op, true
						})
						r.dist[fmt.Sprintf("exhaustive:%s:len%d", tag, l)]++
						out(r)
					}
				}
			})
		}
	}
	addExhaustive(fullCfg, alpha, depth, "exh")
	addPipelined(fullCfg, alpha, 3, "exh-pipelined")
	addExhaustive(fullCfg, alphaWide, depth-1, "exh-multiconn")
	addExhaustive(Cfg{Mask: 255, UDP: false, NMedias: 2}, alpha, 2, "exh-noudp")
	addExhaustive(Cfg{Mask: 255, UDP: true, Mcast: true, NMedias: 2}, alphabetMcast(), 3, "exh-mcast")
	addExhaustive(fullCfg, alphabetTCP(), 4, "exh-tcp")
	// random conversations up to 12 requests, over several configurations
	cfgs := configs(c, c.Rng)
	nRandom := c.N(1000, 100000)
	chunk := 50
	for start := 0; start < nRandom; start += chunk {
		start := start
		jobs = append(jobs, func(w *worker, out func(caseResult)) {
			if only := os.Getenv("VERIF_SESS_RANDSTART"); only != "" && only != strconv.Itoa(start) {
				return // debugging aid: run a single chunk of the random conversations
			}
			for i := start; i < start+chunk && i < nRandom; i++ {
				cfg := cfgs[0]
				if w.rng.IntN(100) >= 40 {
					cfg = cfgs[w.rng.IntN(len(cfgs))]
				}
				g := &randGen{rng: w.rng, cfg: cfg, max: 3 + w.rng.IntN(12)}
				r := w.runChecked(cfg, fmt.Sprintf("rand-%d", i), g.next)
				r.dist["random"]++
				r.dist[fmt.Sprintf("cfg:mask=%d,udp=%v,mcast=%v,idle=%dms", cfg.Mask, cfg.UDP, cfg.Mcast, cfg.idleMs())]++
				out(r)
			}
		})
	}
	// every method refused by the application in every state: the session keeps working
	{
		names, cases := refusalSweep(c.Quick())
		const per = 24
		for start := 0; start < len(cases); start += per {
			start := start
			jobs = append(jobs, func(w *worker, out func(caseResult)) {
				for i := start; i < start+per && i < len(cases); i++ {
					r := w.runChecked(fullCfg, names[i], scripted(cases[i]))
					r.dist["sweep:refused-by-the-application"]++
					out(r)
				}
			})
		}
	}
	// explicit interleaved channel pairs; `*` request URLs with a Session header
	for _, sw := range []struct {
		tag string
		cfg Cfg
		gen func() ([]string, [][]string)
	}{{"sweep:explicit-interleaved-channels", chanCfg, channelSweep}, {"sweep:star-url", fullCfg, starSweep}} {
		sw := sw
		names, cases := sw.gen()
		const per = 32
		for start := 0; start < len(cases); start += per {
			start := start
			jobs = append(jobs, func(w *worker, out func(caseResult)) {
				for i := start; i < start+per && i < len(cases); i++ {
					r := w.runChecked(sw.cfg, names[i], scripted(cases[i]))
					r.dist[sw.tag]++
					out(r)
				}
			})
		}
	}
	// a second attached connection, then silence (real, short timeouts)
	{
		names, cases := attachSweep()
		const per = 6
		for start := 0; start < len(cases); start += per {
			start := start
			jobs = append(jobs, func(w *worker, out func(caseResult)) {
				for i := start; i < start+per && i < len(cases); i++ {
					r := w.runChecked(silenceCfg, names[i], scripted(cases[i]))
					r.dist["sweep:attached-connection-then-silence"]++
					out(r)
				}
			})
		}
	}

	// timing clauses on an injected clock: no real waiting, both tiers
	for _, sc := range clockScenarios() {
		sc := sc
		jobs = append(jobs, func(w *worker, out func(caseResult)) {
			out(w.attributed("clock:"+sc.Name, &Case{Clock: &sc}, func() caseResult { return runClockScenario(sc) }))
		})
	}

	// … and on real (scaled-down) timers: thorough tier only
	if !c.Quick() || os.Getenv("VERIF_SESS_TIMING") != "" {
		for _, sc := range timingScenarios(c) {
			sc := sc
			jobs = append(jobs, func(w *worker, out func(caseResult)) {
				out(w.attributed("timing:"+sc.name, &Case{Timing: sc.name}, func() caseResult { return timingCase(sc) }))
			})
		}
	}
	return jobs
}

// attributed runs a property-oracle-only case; the parent is told what is running, so that a dying
// server is attributed to it.
func (w *worker) attributed(name string, cs *Case, run func() caseResult) caseResult {
	if w.skipLeft > 0 {
		w.skipLeft--
		return caseResult{name: name, dist: map[string]int{}, skipped: true, resumed: true}
	}
	if w.progress != nil {
		w.progress("begin", wireBegin{Name: name, Case: cs})
	}
	return run()
}
