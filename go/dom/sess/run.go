package sess

import (
	"bufio"
	"encoding/json"
	"fmt"
	"io"
	"math/rand/v2"
	"os"
	"os/exec"
	"path/filepath"
	"runtime"
	"sort"
	"strconv"
	"strings"
	"sync"

	"verifharness/corr"
)

const prop = "C02"

// Case is a replayable conversation: the server configuration and the op lines after `init`.
type Case struct {
	Cfg Cfg      `json:"cfg"`
	Ops []string `json:"ops"`
}

type caseResult struct {
	envTrouble bool
	envNotes   []string
	name       string
	ops, impl  []string
	viol       []corr.Violation
	dist       map[string]int
	nontrivial bool
	skipped    bool
	err        error
}

type worker struct {
	model     *model
	broken    bool // a hang was observed: what follows on these instances would be unreliable
	id        int
	rng       *rand.Rand
	ctx       *corr.Ctx
	instances map[Cfg]*instance
}

func (w *worker) instance(cfg Cfg) (*instance, error) {
	if in, ok := w.instances[cfg]; ok {
		return in, nil
	}
	in, err := newInstance(cfg, nil)
	if err != nil {
		return nil, err
	}
	w.instances[cfg] = in
	return in, nil
}

func (w *worker) closeAll() {
	for _, in := range w.instances {
		in.reset()
		in.close()
	}
}

func (w *worker) anyStuck() bool {
	for _, in := range w.instances {
		if in.stuck {
			return true
		}
	}
	return false
}

// linkedSession is ServerConn.Session() of client connection idx, as a session index (-1: none).
func (in *instance) linkedSession(idx int) int {
	cl, ok := in.clients[idx]
	if !ok {
		return -1
	}
	in.core.mu.Lock()
	rec := cl.rec
	closed := rec == nil || rec.closed
	in.core.mu.Unlock()
	if closed {
		return -1
	}
	ss := rec.sc.Session()
	if ss == nil {
		return -1
	}
	in.core.mu.Lock()
	defer in.core.mu.Unlock()
	if r, ok := in.core.bySess[ss]; ok && r.idx >= in.sessBase {
		return r.idx - in.sessBase
	}
	return -1
}

// runCase drives one conversation; next yields the following op line given the current view.
func (w *worker) runCase(cfg Cfg, name string, next func(*view) (string, bool)) (res caseResult) {
	res = caseResult{name: name, dist: map[string]int{}}
	if w.broken {
		res.skipped = true
		res.dist["skipped-after-hang"]++
		return res
	}
	defer func() {
		for _, v := range res.viol {
			if v.Key == "hang" || v.Key == "no-response" || v.Key == "dead-after-case" {
				w.broken = true
			}
		}
		if w.anyStuck() {
			w.broken = true
		}
	}()
	in, err := w.instance(cfg)
	if err != nil {
		res.err = err
		return res
	}
	in.reset()
	from := in.sessBase
	cs := &Case{Cfg: cfg}
	orc := &caseOracle{ctx: w.ctx, cs: cs, name: name, dist: res.dist}
	res.ops = append(res.ops, cfg.initOp())
	res.impl = append(res.impl, "ok")
	v := &view{}
	orc.prev = in.snapshot()
	v.snap = orc.prev
	var batch []Req
	var batchOps []string
	lastCloseErr := ""
	defer func() {
		// diagnostics: should this case disagree with the model, the report shows why the server
		// closed a connection last
		if lastCloseErr != "" {
			res.name += " [last close: " + lastCloseErr + "]"
		}
	}()
	flush := func() error {
		if len(batch) == 0 {
			return nil
		}
		b, err := in.doBatch(batch)
		if err != nil {
			return err
		}
		post := in.snapshot()
		orc.afterBatch(b, post, in)
		v.snap = post
		res.ops = append(res.ops, batchOps...)
		res.impl = append(res.impl, b.Lines...)
		batch, batchOps = nil, nil
		return nil
	}
	for {
		op, ok := next(v)
		if !ok {
			if op == "skip" {
				res.skipped = true
			}
			break
		}
		f := strings.Fields(op)
		if len(f) < 2 || f[0] != "sess" {
			res.err = fmt.Errorf("bad op %q", op)
			break
		}
		cs.Ops = append(cs.Ops, op)
		if f[1] == "preq" {
			r, err := parseReq(f[2:])
			if err != nil {
				res.err = err
				return res
			}
			if len(batch) > 0 && batch[0].Conn != r.Conn {
				if err := flush(); err != nil {
					res.err = err
					return res
				}
			}
			batch = append(batch, r)
			batchOps = append(batchOps, op)
			v.nSteps++
			if r.Method == "teardown" {
				// A torn-down session stays registered until its routine has finished; a request that
				// names it in that window is answered 400 "terminated" instead of 454.  The model has
				// no such window: the harness lets the session finish before it goes on.
				if err := flush(); err != nil {
					res.err = err
					return res
				}
			}
			continue
		}
		if err := flush(); err != nil {
			res.err = err
			return res
		}
		var line string
		switch f[1] {
		case "sync":
			post := in.snapshot()
			line = post.String()
			orc.prev = post
			v.snap = post
		case "open":
			c, _ := strconv.Atoi(f[2])
			ip := 0
			if len(f) > 3 {
				ip, _ = strconv.Atoi(f[3])
			}
			if _, dup := in.clients[c]; !dup {
				v.open = append(v.open, c)
				if c >= v.nextC {
					v.nextC = c + 1
				}
			}
			line = in.doOpen(c, ip)
			if in.hang != "" {
				orc.violate("no sequence hangs the server", "hang", in.hang)
				in.hang = ""
			}
			orc.prev = in.snapshot()
			v.snap = orc.prev
		case "close":
			c, _ := strconv.Atoi(f[2])
			line = in.doClose(c)
			post := in.snapshot()
			orc.afterClose(c, post, in)
			v.snap = post
		case "frame", "response":
			c, _ := strconv.Atoi(f[2])
			closed, delivered := in.doNonRequest(c, f[1] == "frame")
			post := in.snapshot()
			line = post.String()
			if delivered {
				res.dist["non-request:"+f[1]+":closed="+b01(closed)]++
			}
			if closed {
				orc.afterClose(c, post, in)
			} else {
				orc.afterQuiet(f[1], post, in)
			}
			v.snap = post
		case "req":
			r, err := parseReq(f[2:])
			if err != nil {
				res.err = err
				return res
			}
			linked := in.linkedSession(r.Conn)
			out, err := in.doReq(r)
			if err != nil {
				res.err = err
				return res
			}
			post := in.snapshot()
			line = out.line(post)
			if out.CloseErr != "" {
				lastCloseErr = fmt.Sprintf("%s -> %d: %s", r.Method, out.Status, out.CloseErr)
			}
			if e := out.CloseErr; e != "" {
				// environment trouble (sockets, multicast memberships) would show up here
				for _, w := range []string{"listen ", "bind:", "setsockopt", "no buffer space", "too many open files",
					"address already in use", "permission denied", "cannot assign", "no such device", "network is unreachable"} {
					if strings.Contains(e, w) {
						res.envNotes = append(res.envNotes, fmt.Sprintf("%s: %s answered %d, connection closed with: %s", name, r.Method, out.Status, e))
						res.envTrouble = true
						break
					}
				}
			}
			orc.afterReq(r, out, linked, post, in)
			v.snap = post
		default:
			res.err = fmt.Errorf("bad op %q", op)
			return res
		}
		res.ops = append(res.ops, op)
		res.impl = append(res.impl, line)
		v.nSteps++
	}
	if err := flush(); err != nil {
		res.err = err
		return res
	}
	to := from + v.snap.opened
	res.nontrivial = v.snap.opened > 0
	in.reset()
	if in.hang != "" {
		orc.violate("no sequence hangs the server", "hang", "while cleaning up: "+in.hang)
		in.hang = ""
	}
	orc.finish(in, from, to)
	in.nCases++
	if in.nCases%16 == 0 || len(orc.viol) > 0 {
		if err := in.freshProbe(); err != nil {
			orc.violate("the server keeps answering a fresh connection afterwards", "dead-after-case", err.Error())
		}
	}
	res.viol = orc.viol
	return res
}

// model is a private oracle process of the worker: it lets the worker see at once whether a case
// agrees with the model, and run it a second time if it does not.  A difference between model and
// implementation is deterministic and shows again; trouble with the environment (sockets, multicast
// memberships, an overloaded machine) does not.  The authoritative comparison remains corr's.
type model struct {
	cmd *exec.Cmd
	in  io.WriteCloser
	out *bufio.Reader
}

func startModel(path string) *model {
	if path == "" {
		return nil
	}
	cmd := exec.Command(path)
	in, err1 := cmd.StdinPipe()
	out, err2 := cmd.StdoutPipe()
	if err1 != nil || err2 != nil || cmd.Start() != nil {
		return nil
	}
	return &model{cmd: cmd, in: in, out: bufio.NewReaderSize(out, 1<<16)}
}

func (m *model) lines(ops []string) []string {
	if m == nil {
		return nil
	}
	var sb strings.Builder
	for _, op := range ops {
		sb.WriteString(op)
		sb.WriteByte('\n')
	}
	if _, err := io.WriteString(m.in, sb.String()); err != nil {
		return nil
	}
	out := make([]string, 0, len(ops))
	for range ops {
		l, err := m.out.ReadString('\n')
		if err != nil {
			return nil
		}
		out = append(out, strings.TrimRight(l, "\n"))
	}
	return out
}

func (m *model) stop() {
	if m != nil {
		m.in.Close()
		m.cmd.Wait() //nolint:errcheck
	}
}

func sameLines(a, b []string) bool {
	if len(a) != len(b) {
		return false
	}
	for i := range a {
		if a[i] != b[i] {
			return false
		}
	}
	return true
}

// runChecked runs a case; if the implementation's answers differ from the model's it replays the
// same operations once and keeps the replay when that one agrees.
func (w *worker) runChecked(cfg Cfg, name string, next func(*view) (string, bool)) caseResult {
	r := w.runCase(cfg, name, next)
	if r.err != nil || r.skipped || w.broken || w.model == nil {
		return r
	}
	want := w.model.lines(r.ops)
	if want == nil || sameLines(want, r.impl) {
		return r
	}
	r2 := w.runCase(cfg, name, scripted(r.ops[1:]))
	if r2.err == nil && sameLines(r2.ops, r.ops) && sameLines(want, r2.impl) && len(r2.viol) == 0 {
		for k, n := range r.dist {
			if _, ok := r2.dist[k]; !ok && strings.HasPrefix(k, "exhaustive:") || k == "random" || k == "corpus" {
				r2.dist[k] = n
			}
		}
		r2.dist["transient-difference-not-reproduced"]++
		r2.envNotes = append(r2.envNotes, fmt.Sprintf("%s differed from the model once and agreed when replayed", r.name))
		return r2
	}
	return r
}

func scripted(ops []string) func(*view) (string, bool) {
	i := 0
	return func(*view) (string, bool) {
		if i >= len(ops) {
			return "", false
		}
		i++
		return ops[i-1], true
	}
}

func corpusDir() string {
	if d := os.Getenv("VERIF_ROOT"); d != "" {
		return filepath.Join(d, "corpus", prop)
	}
	return "/verif/corpus/" + prop
}

func emit(c *corr.Ctx, r caseResult) {
	if r.err != nil {
		c.Note(fmt.Sprintf("case %s: harness error: %v", r.name, r.err))
		c.Violate(corr.Violation{Property: prop, Clause: "harness", Key: "harness-error", Where: r.name, Detail: r.err.Error()})
		return
	}
	for k, n := range r.dist {
		c.DistN(k, n)
	}
	for _, n := range r.envNotes {
		if envNoteCount < 20 {
			c.Note("environment? " + n)
		}
		envNoteCount++
	}
	if r.envTrouble {
		// the operating system refused a socket operation (e.g. a multicast port taken by another
		// process on this machine): nothing to learn about the server from this case
		c.Dist("skipped:operating-system-refused-a-socket-operation")
		return
	}
	if r.skipped {
		if r.dist["skipped-after-hang"] == 0 {
			c.Dist("exhaustive:skipped(no session to name yet)")
		}
		return
	}
	for _, v := range r.viol {
		c.Violate(v)
	}
	c.Add(corr.Case{Name: r.name, Ops: r.ops, Impl: r.impl, Nontrivial: r.nontrivial})
}

var envNoteCount int

var fullCfg = Cfg{Mask: 255, UDP: true, Mcast: false, NMedias: 2}

func configs(c *corr.Ctx, rng *rand.Rand) []Cfg {
	cfgs := []Cfg{
		fullCfg,
		{Mask: 255, UDP: false, Mcast: false, NMedias: 2},
		{Mask: 255, UDP: true, Mcast: true, NMedias: 2},
		{Mask: 0, UDP: true, NMedias: 1},
		{Mask: 1 | 4 | 8, UDP: true, NMedias: 2},       // read-only server: describe, setup, play
		{Mask: 2 | 4 | 16, UDP: true, NMedias: 1},      // publish-only server: announce, setup, record
		{Mask: 255 &^ 4, UDP: true, NMedias: 2},        // no OnSetup
		{Mask: 255 &^ 32 &^ 64, UDP: true, NMedias: 3}, // no OnPause, no OnGetParameter
		{Mask: 255, UDP: true, NMedias: 2, IdleMs: 30000},
		{Mask: 255, UDP: true, NMedias: 2, IdleMs: 45500},
		{Mask: 255, UDP: true, NMedias: 2, IdleMs: 12999}, // Session header: timeout=7
		{Mask: 255, UDP: true, NMedias: 2, IdleMs: 8000},  // Session header: timeout=3; nothing in a case takes seconds
	}
	n := c.N(2, 12)
	for i := 0; i < n; i++ {
		cfgs = append(cfgs, Cfg{Mask: rng.IntN(256), UDP: rng.IntN(4) != 0, Mcast: rng.IntN(4) == 0, NMedias: 1 + rng.IntN(3),
			IdleMs: []int{0, 0, 20000, 61500, 3600000}[rng.IntN(5)]})
	}
	return cfgs
}

// job is a unit of work for a worker: it produces case results in a deterministic order.
type job func(w *worker, out func(caseResult))

func runJobs(c *corr.Ctx, nWorkers int, jobs []job) {
	chans := make([]chan caseResult, nWorkers)
	var wg sync.WaitGroup
	seeds := make([]uint64, nWorkers)
	for i := range seeds {
		seeds[i] = c.Rng.Uint64()
	}
	for i := 0; i < nWorkers; i++ {
		chans[i] = make(chan caseResult, 256)
		wg.Add(1)
		go func(i int) {
			defer wg.Done()
			defer close(chans[i])
			w := &worker{id: i, rng: rand.New(rand.NewPCG(seeds[i], uint64(i))), ctx: c, instances: map[Cfg]*instance{},
				model: startModel(c.Oracle)}
			defer w.model.stop()
			defer w.closeAll()
			for j := i; j < len(jobs); j += nWorkers {
				jobs[j](w, func(r caseResult) { chans[i] <- r })
			}
		}(i)
	}
	// deterministic merge: round-robin over the workers
	open := nWorkers
	done := make([]bool, nWorkers)
	for open > 0 {
		for i := 0; i < nWorkers; i++ {
			if done[i] {
				continue
			}
			r, ok := <-chans[i]
			if !ok {
				done[i] = true
				open--
				continue
			}
			emit(c, r)
		}
	}
	wg.Wait()
}

// Run is the domain driver.
func Run(c *corr.Ctx) {
	c.Rule("real gortsplib.Server on loopback TCP (UDP / multicast offered per configuration), handlers scripted per request; " +
		"after every request: status, CSeq, Session header, interleaved channel, connection closed?, open connections, " +
		"ServerSession.State()/Medias()/Transport() of every live session, OnSessionOpen/OnSessionClose counts == Lean model; " +
		"property oracle: one response per request with the same CSeq, state == RFC 2326 table, illegal => error + unchanged, " +
		"session closed exactly once and only for a listed reason, liveness watchdog")

	// the RFC table of the Go oracle == Spec/Rfc2326.lean
	ops, impl := rfcOps()
	c.Add(corr.Case{Name: "rfc-table", Ops: ops, Impl: impl, Nontrivial: true})

	if c.Replay != nil {
		var cs Case
		if err := json.Unmarshal(c.Replay, &cs); err != nil {
			c.Note("replay: " + err.Error())
			return
		}
		w := &worker{rng: c.Rng, ctx: c, instances: map[Cfg]*instance{}}
		emit(c, w.runCase(cs.Cfg, "replay", scripted(cs.Ops)))
		w.closeAll()
		return
	}

	nWorkers := runtime.NumCPU() / 2
	if nWorkers < 2 {
		nWorkers = 2
	}
	if nWorkers > 8 {
		nWorkers = 8
	}
	var jobs []job

	// corpus first
	files, _ := filepath.Glob(filepath.Join(corpusDir(), "*.json"))
	sort.Strings(files)
	for _, f := range files {
		b, err := os.ReadFile(f)
		if err != nil {
			continue
		}
		var cs Case
		if json.Unmarshal(b, &cs) != nil {
			c.Note("corpus file not understood: " + f)
			continue
		}
		name := "corpus/" + filepath.Base(f)
		jobs = append(jobs, func(w *worker, out func(caseResult)) {
			r := w.runChecked(cs.Cfg, name, scripted(cs.Ops))
			r.dist["corpus"]++
			out(r)
		})
	}

	// exhaustive: every sequence over the reduced alphabet up to length 3 (quick) / 4 (thorough)
	depth := c.N(3, 4)
	alpha := alphabet(true, false)
	alphaWide := alphabet(true, true)
	// pipelined: SETUP / ANNOUNCE first (so that there is a session to name), then every pair or triple
	// of symbols written to the socket in one segment, then a sync
	addPipelined := func(cfg Cfg, alpha []symbol, depth int, tag string) {
		starts := []symbol{alpha[4], alpha[6], alpha[3], alpha[0]} // setup0-udp, setup0-tcp, announce, options
		for si := range starts {
			for first := range alpha {
				si, first := si, first
				jobs = append(jobs, func(w *worker, out func(caseResult)) {
					for l := 2; l <= depth; l++ {
						total := 1
						for i := 1; i < l; i++ {
							total *= len(alpha)
						}
						if l == depth && !c.Quick() {
							// keep the full product in the thorough tier only
						} else if l == depth {
							total = len(alpha) * 4
						}
						for k := 0; k < total; k++ {
							idx := make([]int, l)
							idx[0] = first
							x := k
							if l == depth && c.Quick() {
								x = k * 7919 // a spread sample of the product
							}
							for i := 1; i < l; i++ {
								idx[i] = x % len(alpha)
								x /= len(alpha)
							}
							names := []string{starts[si].name + ";"}
							for i := 0; i < l; i++ {
								names = append(names, alpha[idx[i]].name)
							}
							pos := -2
							r := w.runChecked(cfg, tag+":"+strings.Join(names, ","), func(v *view) (string, bool) {
								switch {
								case pos == -2:
									pos++
									return "sess open 0 0", true
								case pos == -1:
									pos++
									op, _ := starts[si].op(v)
									return op, true
								case pos < l:
									op, ok := alpha[idx[pos]].op(v)
									if !ok {
										return "skip", false
									}
									pos++
									return strings.Replace(op, "sess req ", "sess preq ", 1), true
								case pos == l:
									pos++
									return "sess sync", true
								}
								return "", false
							})
							r.dist[fmt.Sprintf("exhaustive:%s:len%d", tag, l)]++
							out(r)
						}
					}
				})
			}
		}
	}
	addExhaustive := func(cfg Cfg, alpha []symbol, depth int, tag string) {
		for first := range alpha {
			first := first
			jobs = append(jobs, func(w *worker, out func(caseResult)) {
				idx := make([]int, depth)
				for l := 1; l <= depth; l++ {
					total := 1
					for i := 1; i < l; i++ {
						total *= len(alpha)
					}
					for k := 0; k < total; k++ {
						idx[0] = first
						x := k
						for i := 1; i < l; i++ {
							idx[i] = x % len(alpha)
							x /= len(alpha)
						}
						names := make([]string, l)
						for i := 0; i < l; i++ {
							names[i] = alpha[idx[i]].name
						}
						nConns := 1
						for i := 0; i < l; i++ {
							if alpha[idx[i]].conn+1 > nConns {
								nConns = alpha[idx[i]].conn + 1
							}
						}
						pos := -nConns
						r := w.runChecked(cfg, tag+":"+strings.Join(names, ","), func(v *view) (string, bool) {
							if pos < 0 {
								pos++
								c := nConns + pos - 1
								return fmt.Sprintf("sess open %d %d", c, c/2), true
							}
							if pos >= l {
								return "", false
							}
							op, ok := alpha[idx[pos]].op(v)
							if !ok {
								return "skip", false
							}
							pos++
							return op, true
						})
						r.dist[fmt.Sprintf("exhaustive:%s:len%d", tag, l)]++
						out(r)
					}
				}
			})
		}
	}
	addExhaustive(fullCfg, alpha, depth, "exh")
	addPipelined(fullCfg, alpha, 3, "exh-pipelined")
	addExhaustive(fullCfg, alphaWide, depth-1, "exh-multiconn")
	addExhaustive(Cfg{Mask: 255, UDP: false, NMedias: 2}, alpha, 2, "exh-noudp")
	addExhaustive(Cfg{Mask: 255, UDP: true, Mcast: true, NMedias: 2}, alphabetMcast(), 3, "exh-mcast")
	addExhaustive(fullCfg, alphabetTCP(), 4, "exh-tcp")
	c.Exhaustive()

	// random conversations up to 12 requests, over several configurations
	cfgs := configs(c, c.Rng)
	nRandom := c.N(1000, 100000)
	chunk := 50
	for start := 0; start < nRandom; start += chunk {
		start := start
		jobs = append(jobs, func(w *worker, out func(caseResult)) {
			for i := start; i < start+chunk && i < nRandom; i++ {
				cfg := cfgs[0]
				if w.rng.IntN(100) >= 40 {
					cfg = cfgs[w.rng.IntN(len(cfgs))]
				}
				g := &randGen{rng: w.rng, cfg: cfg, max: 3 + w.rng.IntN(12)}
				r := w.runChecked(cfg, fmt.Sprintf("rand-%d", i), g.next)
				r.dist["random"]++
				r.dist[fmt.Sprintf("cfg:mask=%d,udp=%v,mcast=%v,idle=%dms", cfg.Mask, cfg.UDP, cfg.Mcast, cfg.idleMs())]++
				out(r)
			}
		})
	}
	runJobs(c, nWorkers, jobs)

	// timing clauses on real (scaled-down) timers: thorough tier only
	if !c.Quick() || os.Getenv("VERIF_SESS_TIMING") != "" {
		runTiming(c)
	}
}
