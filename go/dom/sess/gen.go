package sess

import (
	"fmt"
	"math/rand/v2"
	"strconv"
	"strings"
)

// view is what a generator may look at: the public API's picture after the previous operation.
type view struct {
	snap   snapshot
	open   []int // client connection indices that exist (open or not)
	nextC  int
	cseq   int
	nSteps int
}

func (v *view) lastSession() (sessSnap, bool) {
	if len(v.snap.sess) == 0 {
		return sessSnap{}, false
	}
	return v.snap.sess[len(v.snap.sess)-1], true
}

// ---------------------------------------------------------------------------------------------
// reduced alphabet for the exhaustive enumeration: every symbol is a request on connection 0;
// "right" is the identifier of the most recently opened session (the sequence is skipped when
// there is none yet).

type symbol struct {
	name   string
	conn   int
	close  bool   // client closes the connection instead of sending a request
	raw    string // "frame" / "response": the client sends something that is not a request
	method string
	sid    string // n | w | r
	track  string
	trs    string
	ann    string
	hs     int
	he     bool
}

func sym(name, method, sid string) symbol {
	return symbol{name: name, method: method, sid: sid, track: "0", trs: "-", ann: "1.1.1", hs: 200}
}

func alphabet(full, multi bool) []symbol {
	setup := func(name, sid, track, trs string) symbol {
		s := sym(name, "setup", sid)
		s.track, s.trs = track, trs
		return s
	}
	a := []symbol{
		sym("options", "options", "n"),
		sym("options+s", "options", "r"),
		sym("describe", "describe", "n"),
		sym("announce", "announce", "n"),
		setup("setup0-udp", "n", "0", "u.0.1.1.0.0"),
		setup("setup1-udp+s", "r", "1", "u.0.0.1.0.0"),
		setup("setup0-tcp", "n", "0", "t.0.1.1.0.0"),
		setup("setup0-udp-rec", "n", "0", "u.0.2.1.0.0"),
		setup("setup0-tcp-rec", "n", "0", "t.0.2.1.1.0"),
		sym("play+s", "play", "r"),
		sym("record+s", "record", "r"),
		sym("pause+s", "pause", "r"),
		sym("teardown+s", "teardown", "r"),
		sym("getparameter+s", "getparameter", "r"),
	}
	on := func(c int, s symbol) symbol {
		s.conn = c
		s.name = fmt.Sprintf("c%d:%s", c, s.name)
		return s
	}
	if multi {
		// connection 1 comes from the same address as connection 0, connection 2 from another one
		a = append(a,
			symbol{name: "close0", close: true},
			symbol{name: "frame0", raw: "frame"},
			symbol{name: "response0", raw: "response"},
			on(1, sym("teardown+s", "teardown", "r")),
			on(1, sym("getparameter+s", "getparameter", "r")),
			on(1, sym("play+s", "play", "r")),
			on(1, sym("pause+s", "pause", "r")),
			on(1, setup("setup1-udp+s", "r", "1", "u.0.0.1.0.0")),
			on(1, setup("setup0-udp(same-ports)", "n", "0", "u.0.1.1.0.0")),
			on(1, setup("setup0-udp(other-ports)", "n", "0", "u.0.1.2.0.0")),
			symbol{name: "c1:close", conn: 1, close: true},
			on(2, sym("getparameter+s", "getparameter", "r")),
		)
	}
	if full {
		refused := sym("play+s-404", "play", "r")
		refused.hs = 404
		a = append(a,
			sym("play", "play", "n"),
			sym("play+w", "play", "w"),
			sym("teardown+w", "teardown", "w"),
			sym("getparameter", "getparameter", "n"),
			sym("setparameter+s", "setparameter", "r"),
			setup("setup0-udp+w", "w", "0", "u.0.1.1.0.0"),
			setup("setup1-tcp+s", "r", "1", "t.0.0.1.0.0"),
			refused,
		)
	}
	return a
}

// alphabetTCP: the interleaved transport, where the connection's read loop switches with the state.
func alphabetTCP() []symbol {
	setup := func(name, sid, track, trs string) symbol {
		s := sym(name, "setup", sid)
		s.track, s.trs = track, trs
		return s
	}
	c1 := sym("c1:getparameter+s", "getparameter", "r")
	c1.conn = 1
	return []symbol{
		setup("setup0-tcp", "n", "0", "t.0.1.1.0.0"),
		sym("announce", "announce", "n"),
		setup("setup0-tcp-rec", "n", "0", "t.0.2.1.1.0"),
		sym("play+s", "play", "r"),
		sym("record+s", "record", "r"),
		sym("pause+s", "pause", "r"),
		sym("teardown+s", "teardown", "r"),
		symbol{name: "frame0", raw: "frame"},
		c1,
	}
}

// alphabetMcast: the multicast transport next to UDP on a server that offers both.
func alphabetMcast() []symbol {
	setup := func(name, sid, track, trs string) symbol {
		s := sym(name, "setup", sid)
		s.track, s.trs = track, trs
		return s
	}
	return []symbol{
		setup("setup0-mcast", "n", "0", "m.0.1.1.0.0"),
		setup("setup1-mcast+s", "r", "1", "m.0.0.1.0.0"),
		setup("setup1-udp+s", "r", "1", "u.0.0.1.0.0"),
		setup("setup0-mcast-then-tcp", "n", "0", "m.1.0.1.0.0,t.0.1.1.0.0"),
		sym("announce", "announce", "n"),
		setup("setup0-mcast-rec", "n", "0", "m.0.2.1.0.0"),
		sym("play+s", "play", "r"),
		sym("pause+s", "pause", "r"),
		sym("teardown+s", "teardown", "r"),
		symbol{name: "close0", close: true},
	}
}

func (s symbol) op(v *view) (string, bool) {
	if s.close {
		return fmt.Sprintf("sess close %d", s.conn), true
	}
	if s.raw != "" {
		return fmt.Sprintf("sess %s %d", s.raw, s.conn), true
	}
	sid := s.sid
	if sid == "r" {
		if v.snap.opened == 0 {
			return "", false
		}
		sid = strconv.Itoa(v.snap.opened - 1)
	}
	v.cseq++
	return Req{Conn: s.conn, Method: s.method, CSeq: strconv.Itoa(v.cseq), Sid: sid, Path: 0, Track: s.track, Trs: s.trs,
		Ct: int(s.ann[0] - '0'), SdpOk: s.ann[2] == '1', NAnn: int(s.ann[4] - '0'), HStatus: s.hs, HErr: s.he}.String(), true
}

// ---------------------------------------------------------------------------------------------
// random sequences: mostly protocol-following, with arbitrary requests mixed in

type randGen struct {
	nPorts int
	rng    *rand.Rand
	cfg    Cfg
	max    int
	queue  []string // ops already decided (a pipelined batch)
}

func (g *randGen) pick(xs ...string) string { return xs[g.rng.IntN(len(xs))] }

func (g *randGen) chance(pct int) bool { return g.rng.IntN(100) < pct }

func (g *randGen) offered() []string {
	out := []string{"t"}
	if g.cfg.UDP {
		out = append(out, "u", "u")
	}
	if g.cfg.Mcast {
		out = append(out, "m")
	}
	return out
}

func (g *randGen) alt(proto string, mode int) string {
	il, ilA := 0, 0
	// a fresh client port pair most of the time, sometimes one that was used before
	g.nPorts++
	ports := g.nPorts
	if g.nPorts > 1 && g.chance(12) {
		ports = 1 + g.rng.IntN(g.nPorts-1)
	}
	if g.chance(4) {
		ports = 0
	}
	if proto == "t" && g.chance(50) {
		il = 1
		ilA = 2 * g.rng.IntN(3)
		if g.chance(10) {
			ilA = g.rng.IntN(6)
		}
		if g.chance(5) {
			il = 2
		}
	}
	sec := 0
	if g.chance(3) {
		sec = 1
	}
	return fmt.Sprintf("%s.%d.%d.%d.%d.%d", proto, sec, mode, ports, il, ilA)
}

func (g *randGen) randomTransports() string {
	if g.chance(5) {
		return "-"
	}
	n := 1
	if g.chance(25) {
		n = 2
	}
	var alts []string
	for i := 0; i < n; i++ {
		alts = append(alts, g.alt(g.pick("u", "m", "t"), g.rng.IntN(3)))
	}
	return strings.Join(alts, ",")
}

func (g *randGen) handler() (int, bool) {
	st := 200
	if g.chance(12) {
		st = []int{404, 400, 500, 461, 403}[g.rng.IntN(5)]
	}
	return st, g.chance(6)
}

func (g *randGen) next(v *view) (string, bool) {
	if len(g.queue) > 0 {
		op := g.queue[0]
		g.queue = g.queue[1:]
		return op, true
	}
	if v.nSteps >= g.max {
		return "", false
	}
	var openNow []int
	openNow = append(openNow, v.snap.conns...)
	if len(openNow) == 0 || (len(v.open) < 3 && g.chance(7)) {
		ip := 0
		if g.chance(15) {
			ip = 1
		}
		c := v.nextC
		return fmt.Sprintf("sess open %d %d", c, ip), true
	}
	if g.chance(5) {
		return fmt.Sprintf("sess close %d", openNow[g.rng.IntN(len(openNow))]), true
	}
	if g.chance(4) {
		return fmt.Sprintf("sess %s %d", g.pick("frame", "frame", "response"), openNow[g.rng.IntN(len(openNow))]), true
	}
	c := openNow[0]
	if g.chance(30) {
		c = openNow[g.rng.IntN(len(openNow))]
	}
	v.cseq++
	r := Req{Conn: c, CSeq: strconv.Itoa(v.cseq), Sid: "n", Track: "0", Trs: "-", Ct: 1, SdpOk: true, NAnn: 1, HStatus: 200}
	if g.chance(65) {
		if g.chance(6) {
			r.HStatus, r.HErr = g.handler()
		}
		g.follow(v, &r)
		if g.chance(2) {
			r.Star = true // `*` with the Session header of a live session
		}
	} else {
		r.HStatus, r.HErr = g.handler()
		if g.chance(3) {
			r.CSeq = "-"
		}
		if g.chance(3) {
			r.Star = true
		}
		g.arbitrary(v, &r)
	}
	if g.chance(8) {
		// a pipelined batch: this request and one to three more on the same connection, written at once
		n := 1 + g.rng.IntN(3)
		ops := []string{strings.Replace(r.String(), "sess req ", "sess preq ", 1)}
		for i := 0; i < n; i++ {
			v.cseq++
			q := Req{Conn: c, CSeq: strconv.Itoa(v.cseq), Sid: "n", Track: "0", Trs: "-", Ct: 1, SdpOk: true, NAnn: 1, HStatus: 200}
			if g.chance(70) {
				g.follow(v, &q)
			} else {
				q.HStatus, q.HErr = g.handler()
				g.arbitrary(v, &q)
			}
			// a client cannot name a session that only comes into being inside the batch
			if k, err := strconv.Atoi(q.Sid); err == nil && k >= v.snap.opened {
				q.Sid = "w"
			}
			ops = append(ops, strings.Replace(q.String(), "sess req ", "sess preq ", 1))
		}
		ops = append(ops, "sess sync")
		g.queue = ops[1:]
		return ops[0], true
	}
	return r.String(), true
}

// follow picks a request a well-behaved client could send next.
func (g *randGen) follow(v *view, r *Req) {
	s, ok := v.lastSession()
	if ok && g.chance(15) && len(v.snap.sess) > 1 {
		s = v.snap.sess[g.rng.IntN(len(v.snap.sess))]
	}
	state := "none"
	if ok {
		state = s.state
		r.Sid = strconv.Itoa(s.idx)
		switch {
		case g.chance(8):
			r.Sid = "n"
		case g.chance(3):
			r.Sid = "w"
		}
	}
	proto := g.pick(g.offered()...)
	if ok && s.proto != "-" && g.chance(92) {
		proto = s.proto
	}
	switch state {
	case "none", "initial":
		if g.chance(35) {
			r.Method = "announce"
			r.NAnn = 1
			if g.chance(30) {
				r.NAnn = 2
			}
			if state == "none" {
				r.Sid = "n"
			}
		} else {
			r.Method = "setup"
			r.Trs = g.alt(proto, g.rng.IntN(2))
			if state == "none" {
				r.Sid = g.pick("n", "n", "n", "w")
			}
		}
	case "prePlay":
		switch g.rng.IntN(8) {
		case 0, 1:
			r.Method = "setup"
			r.Track = strconv.Itoa(s.nMedias)
			r.Trs = g.alt(proto, g.rng.IntN(2))
		case 2, 3, 4:
			r.Method = "play"
		case 5:
			r.Method = "teardown"
		case 6:
			r.Method = g.pick("options", "getparameter", "setparameter", "describe")
		default:
			r.Method = "pause"
		}
	case "play":
		r.Method = g.pick("pause", "pause", "teardown", "getparameter", "options", "play", "setparameter")
	case "preRecord":
		if g.chance(40) {
			r.Sid = "n" // ANNOUNCE responses carry no Session header
		}
		k := g.rng.IntN(8)
		if s.nMedias == 0 && k < 6 {
			k = 0
		} else if s.nMedias > 0 && k < 6 {
			k = 1 + g.rng.IntN(5)
		}
		switch k {
		case 0, 1:
			r.Method = "setup"
			r.Track = strconv.Itoa(s.nMedias)
			r.Trs = g.alt(proto, 2)
		case 2, 3, 4, 5:
			r.Method = "record"
		case 6:
			r.Method = "teardown"
		default:
			r.Method = g.pick("pause", "options", "getparameter")
		}
	case "record":
		r.Method = g.pick("pause", "pause", "teardown", "getparameter", "options", "record")
	}
	if g.chance(4) {
		r.Path = 1
	}
}

func (g *randGen) arbitrary(v *view, r *Req) {
	r.Method = rfcMethods[g.rng.IntN(len(rfcMethods))]
	switch g.rng.IntN(4) {
	case 0:
		r.Sid = "n"
	case 1:
		r.Sid = "w"
	default:
		if v.snap.opened > 0 {
			r.Sid = strconv.Itoa(g.rng.IntN(v.snap.opened + 1))
			if g.chance(60) {
				if s, ok := v.lastSession(); ok {
					r.Sid = strconv.Itoa(s.idx)
				}
			}
		}
	}
	r.Path = 0
	if g.chance(15) {
		r.Path = 1
	}
	r.Track = strconv.Itoa(g.rng.IntN(g.cfg.NMedias + 1))
	if g.chance(5) {
		r.Track = "x"
	}
	r.Trs = g.randomTransports()
	r.Ct = 1
	if g.chance(10) {
		r.Ct = g.rng.IntN(3)
	}
	r.SdpOk = !g.chance(8)
	r.NAnn = g.rng.IntN(4)
}
