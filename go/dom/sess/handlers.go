// Package sess is the correspondence driver and property oracle of C02 (server sessions follow
// the RTSP state machine; one response per request).  A real gortsplib.Server listens on loopback
// TCP; its application handlers are scripted from the op line; a raw TCP client writes well-formed
// requests built with pkg/base and reads the responses.
//
// handlers_gen.go was generated with the python snippet kept in /verif/.work notes: one struct type
// per subset of {Describe, Announce, Setup, Play, Record, Pause, GetParameter, SetParameter},
// embedding hBase and the matching h<Name> components below.
package sess

import (
	"errors"
	"net"
	"sync"
	"time"

	"github.com/bluenviron/gortsplib/v5"
	"github.com/bluenviron/gortsplib/v5/pkg/base"
)

var errScripted = errors.New("scripted handler error")

// outcome is what the application handler answers to the request being processed.
type outcome struct {
	status int
	err    bool
}

type sessRec struct {
	ss         *gortsplib.ServerSession
	id         string
	idx        int // creation order since the last reset
	closeCount int
	closeErr   string
	closedAt   time.Time
}

type connRec struct {
	sc       *gortsplib.ServerConn
	port     int
	closed   bool
	openedAt time.Time
	closedAt time.Time
	closeErr string
	claimed  bool // a client connection of the harness was matched with it
}

// core is the state shared by the handler callbacks of one server instance.
type core struct {
	mu       sync.Mutex
	changed  chan struct{}
	outs     map[string]outcome // by CSeq of the request the handler is called for; default 200
	stream   *gortsplib.ServerStream
	sessions []*sessRec
	bySess   map[*gortsplib.ServerSession]*sessRec
	conns    map[string]*connRec                // by remote address (ip:port) until a client claims it
	byConn   map[*gortsplib.ServerConn]*connRec // every connection that is open or not yet collected
	calls    map[string]int
}

func newCore() *core {
	return &core{
		changed: make(chan struct{}),
		bySess:  map[*gortsplib.ServerSession]*sessRec{},
		conns:   map[string]*connRec{},
		byConn:  map[*gortsplib.ServerConn]*connRec{},
		calls:   map[string]int{},
		outs:    map[string]outcome{},
	}
}

// notify must be called with mu held.
func (c *core) notify() {
	close(c.changed)
	c.changed = make(chan struct{})
}

// waitFor blocks until pred (evaluated under mu) holds or the timeout elapses.
func (c *core) waitFor(timeout time.Duration, pred func() bool) bool {
	deadline := time.Now().Add(timeout)
	for {
		c.mu.Lock()
		if pred() {
			c.mu.Unlock()
			return true
		}
		ch := c.changed
		c.mu.Unlock()
		rem := time.Until(deadline)
		if rem <= 0 {
			return false
		}
		t := time.NewTimer(rem)
		select {
		case <-ch:
			t.Stop()
		case <-t.C:
		}
	}
}

func (c *core) outcomeNow(name string, req *base.Request) outcome {
	c.mu.Lock()
	defer c.mu.Unlock()
	c.calls[name]++
	if v, ok := req.Header["CSeq"]; ok && len(v) == 1 {
		if o, ok := c.outs[v[0]]; ok {
			return o
		}
	}
	return outcome{status: 200}
}

// setOutcome scripts the handler's answer to the request with this CSeq.
func (c *core) setOutcome(cseq string, o outcome) {
	c.mu.Lock()
	c.outs[cseq] = o
	c.mu.Unlock()
}

func (o outcome) res() *base.Response {
	return &base.Response{StatusCode: base.StatusCode(o.status)}
}

func (o outcome) error() error {
	if o.err {
		return errScripted
	}
	return nil
}

// hBase: the callbacks every instance implements.
type hBase struct{ c *core }

func (h hBase) OnConnOpen(ctx *gortsplib.ServerHandlerOnConnOpenCtx) {
	addr := ctx.Conn.NetConn().RemoteAddr().(*net.TCPAddr)
	h.c.mu.Lock()
	r := &connRec{sc: ctx.Conn, port: addr.Port, openedAt: time.Now()}
	h.c.conns[addr.String()] = r
	h.c.byConn[ctx.Conn] = r
	h.c.notify()
	h.c.mu.Unlock()
}

func (h hBase) OnConnClose(ctx *gortsplib.ServerHandlerOnConnCloseCtx) {
	h.c.mu.Lock()
	if r, ok := h.c.byConn[ctx.Conn]; ok {
		r.closed = true
		r.closedAt = time.Now()
		if ctx.Error != nil {
			r.closeErr = ctx.Error.Error()
		}
		delete(h.c.byConn, ctx.Conn)
	}
	h.c.notify()
	h.c.mu.Unlock()
}

func (h hBase) OnSessionOpen(ctx *gortsplib.ServerHandlerOnSessionOpenCtx) {
	h.c.mu.Lock()
	r := &sessRec{ss: ctx.Session, id: ctx.Session.VerifSecretID(), idx: len(h.c.sessions)}
	h.c.sessions = append(h.c.sessions, r)
	h.c.bySess[ctx.Session] = r
	h.c.notify()
	h.c.mu.Unlock()
}

func (h hBase) OnSessionClose(ctx *gortsplib.ServerHandlerOnSessionCloseCtx) {
	h.c.mu.Lock()
	if r, ok := h.c.bySess[ctx.Session]; ok {
		r.closeCount++
		r.closedAt = time.Now()
		if ctx.Error != nil {
			r.closeErr = ctx.Error.Error()
		}
	}
	h.c.notify()
	h.c.mu.Unlock()
}

// the library logs decode errors and lost packets to stderr unless these are implemented
func (h hBase) OnDecodeError(_ *gortsplib.ServerHandlerOnDecodeErrorCtx)           {}
func (h hBase) OnPacketsLost(_ *gortsplib.ServerHandlerOnPacketsLostCtx)           {}
func (h hBase) OnStreamWriteError(_ *gortsplib.ServerHandlerOnStreamWriteErrorCtx) {}

type hDescribe struct{ c *core }

func (h hDescribe) OnDescribe(ctx *gortsplib.ServerHandlerOnDescribeCtx) (*base.Response, *gortsplib.ServerStream, error) {
	o := h.c.outcomeNow("describe", ctx.Request)
	if o.status == 200 {
		return o.res(), h.c.stream, o.error()
	}
	return o.res(), nil, o.error()
}

type hAnnounce struct{ c *core }

func (h hAnnounce) OnAnnounce(ctx *gortsplib.ServerHandlerOnAnnounceCtx) (*base.Response, error) {
	o := h.c.outcomeNow("announce", ctx.Request)
	return o.res(), o.error()
}

type hSetup struct{ c *core }

func (h hSetup) OnSetup(ctx *gortsplib.ServerHandlerOnSetupCtx) (*base.Response, *gortsplib.ServerStream, error) {
	o := h.c.outcomeNow("setup", ctx.Request)
	// the library requires a stream for readers (when answering 200) and none for publishers
	if o.status == 200 && ctx.Session.State() != gortsplib.ServerSessionStatePreRecord {
		return o.res(), h.c.stream, o.error()
	}
	return o.res(), nil, o.error()
}

type hPlay struct{ c *core }

func (h hPlay) OnPlay(ctx *gortsplib.ServerHandlerOnPlayCtx) (*base.Response, error) {
	o := h.c.outcomeNow("play", ctx.Request)
	return o.res(), o.error()
}

type hRecord struct{ c *core }

func (h hRecord) OnRecord(ctx *gortsplib.ServerHandlerOnRecordCtx) (*base.Response, error) {
	o := h.c.outcomeNow("record", ctx.Request)
	return o.res(), o.error()
}

type hPause struct{ c *core }

func (h hPause) OnPause(ctx *gortsplib.ServerHandlerOnPauseCtx) (*base.Response, error) {
	o := h.c.outcomeNow("pause", ctx.Request)
	return o.res(), o.error()
}

type hGetParameter struct{ c *core }

func (h hGetParameter) OnGetParameter(ctx *gortsplib.ServerHandlerOnGetParameterCtx) (*base.Response, error) {
	o := h.c.outcomeNow("getparameter", ctx.Request)
	return o.res(), o.error()
}

type hSetParameter struct{ c *core }

func (h hSetParameter) OnSetParameter(ctx *gortsplib.ServerHandlerOnSetParameterCtx) (*base.Response, error) {
	o := h.c.outcomeNow("setparameter", ctx.Request)
	return o.res(), o.error()
}
