package timedom

import (
	"fmt"
	"math/big"
	"strconv"
	"time"

	"github.com/bluenviron/gortsplib/v5/pkg/ntp"

	"verifharness/corr"
)

// ---------------------------------------------------------------------------------------------
// ntp.Encode / ntp.Decode

// NtpBatch is the replayable input of one NTP case: instants (Unix ns) to encode and NTP values to decode.
type NtpBatch struct {
	Kind     string   `json:"kind"` // "ntp"
	Instants []int64  `json:"instants"`
	Values   []uint64 `json:"values"`
}

var (
	bigE9       = big.NewInt(1000000000)
	bigOffsetNs = new(big.Int).Mul(big.NewInt(2208988800), big.NewInt(1000000000))
)

const (
	ntpMinNs = -2208988800 * 1000000000 // 1900-01-01: NTP era 0 starts
	ntpMaxNs = 2085978496 * 1000000000  // 2036-02-07 06:28:16: NTP era 0 ends
)

var floatProbe int

func ntpRun(c *corr.Ctx, b *NtpBatch, name string) {
	cs := corr.Case{Name: name, Nontrivial: len(b.Instants)+len(b.Values) > 0}
	viol := func(clause, key, detail string, in any) {
		c.Violate(corr.Violation{Property: "C15", Clause: clause, Key: key, Where: "pkg/ntp", Input: in, Detail: detail})
	}
	for _, ns := range b.Instants {
		t := time.Unix(0, ns)
		v := ntp.Encode(t)
		cs.Ops = append(cs.Ops, "time ntpenc "+strconv.FormatInt(ns, 10))
		cs.Impl = append(cs.Impl, strconv.FormatUint(v, 10))
		back := ntp.Decode(v)
		cs.Ops = append(cs.Ops, "time ntpdec "+strconv.FormatUint(v, 10))
		cs.Impl = append(cs.Impl, strconv.FormatInt(back.UnixNano(), 10))
		// ---- property oracle: Decode(Encode(t)) within 1 ns of t for instants of NTP era 0 ----
		if ns >= ntpMinNs && ns < ntpMaxNs {
			diff := back.Sub(t)
			if diff > 1 || diff < -1 {
				viol("NTP encoding and decoding are mutually inverse to within a nanosecond (Decode∘Encode)",
					"ntp-decode-encode", fmt.Sprintf("t=%d ns: Decode(Encode(t)) - t = %d ns", ns, int64(diff)),
					&NtpBatch{Kind: "ntp", Instants: []int64{ns}})
			}
			// the encoded value is the RFC 3550 fixed point of t to within half a unit of 2^-32 s:
			// |v - (ns + offset)·2^32/10^9| ≤ 1/2   (exact rational arithmetic)
			// 2·|v·10^9 − (ns + offset)·2^32| ≤ 10^9
			lhs := new(big.Int).Mul(new(big.Int).SetUint64(v), bigE9)
			lhs.Sub(lhs, new(big.Int).Lsh(new(big.Int).Add(big.NewInt(ns), bigOffsetNs), 32))
			lhs.Lsh(lhs.Abs(lhs), 1)
			if lhs.Cmp(bigE9) > 0 {
				viol("Encode is the nearest 32.32 fixed-point value", "ntp-encode-nearest", fmt.Sprintf("t=%d ns: v=%d", ns, v),
					&NtpBatch{Kind: "ntp", Instants: []int64{ns}})
			}
			if floatProbe%4 == 0 {
				// the float path itself, on the binary64 model (Ntp.encFracFloat)
				n := (uint64(ns) + 2208988800*1000000000) % 1000000000
				cs.Ops = append(cs.Ops, "time fracfloat "+strconv.FormatUint(n, 10))
				cs.Impl = append(cs.Impl, strconv.FormatUint(v&0xFFFFFFFF, 10))
				c.Dist("ntp:float-path-compared-with-binary64-model")
			}
			floatProbe++
			if ns >= 0 {
				c.Dist("ntp:instant-1970-2036")
			} else {
				c.Dist("ntp:instant-1900-1970")
			}
			if diff == -1 {
				c.Dist("ntp:roundtrip-off-by-1ns")
			}
		} else {
			c.Dist("ntp:instant-outside-era0")
		}
	}
	for _, v := range b.Values {
		t := ntp.Decode(v)
		cs.Ops = append(cs.Ops, "time ntpdec "+strconv.FormatUint(v, 10))
		cs.Impl = append(cs.Impl, strconv.FormatInt(t.UnixNano(), 10))
		v2 := ntp.Encode(t)
		cs.Ops = append(cs.Ops, "time ntpenc "+strconv.FormatInt(t.UnixNano(), 10))
		cs.Impl = append(cs.Impl, strconv.FormatUint(v2, 10))
		// ---- property oracle: Encode(Decode(v)) within 1 ns of v: |v2 - v|·10^9/2^32 < 1, i.e. at most 4 units ----
		var d uint64
		if v2 > v {
			d = v2 - v
		} else {
			d = v - v2
		}
		if d > 4 {
			viol("NTP encoding and decoding are mutually inverse to within a nanosecond (Encode∘Decode)",
				"ntp-encode-decode", fmt.Sprintf("v=%d: Encode(Decode(v))=%d", v, v2), &NtpBatch{Kind: "ntp", Values: []uint64{v}})
		}
		// Decode is the floor of the exact value in ns
		// 0 ≤ v·10^9 − (Decode(v) + offset)·2^32 < 2^32
		rem := new(big.Int).Mul(new(big.Int).SetUint64(v), bigE9)
		rem.Sub(rem, new(big.Int).Lsh(new(big.Int).Add(big.NewInt(t.UnixNano()), bigOffsetNs), 32))
		if rem.Sign() < 0 || rem.Cmp(two32) >= 0 {
			viol("Decode is within 1 ns of the fixed-point value", "ntp-decode-floor", fmt.Sprintf("v=%d: %d ns", v, t.UnixNano()),
				&NtpBatch{Kind: "ntp", Values: []uint64{v}})
		}
		c.Dist(deltaKeys[min(d, 5)])
	}
	c.Add(cs)
}

func genNtpBatch(c *corr.Ctx, n int) *NtpBatch {
	r := c.Rng
	b := &NtpBatch{Kind: "ntp"}
	for i := 0; i < n; i++ {
		var ns int64
		switch r.IntN(16) {
		case 0: // second boundaries
			ns = r.Int64N(2085978496)*1000000000 + []int64{0, 1, 2, 499999999, 500000000, 500000001, 999999998, 999999999}[r.IntN(8)]
		case 1: // 1970 edge
			ns = int64(r.IntN(2000)) - 1000
		case 2: // 2036 edge
			ns = ntpMaxNs - 1000 + int64(r.IntN(2000))
		case 3: // 1900 edge
			ns = ntpMinNs - 1000 + int64(r.IntN(2000))
		case 4: // before 1900 / after 2036 (outside the property; the model must still agree)
			if r.IntN(2) == 0 {
				ns = ntpMaxNs + r.Int64N(7000000000*1000000000)
			} else {
				ns = ntpMinNs - r.Int64N(6000000000*1000000000)
			}
		case 5: // 1900..1970
			ns = -r.Int64N(2208988800 * 1000000000)
		case 6: // a fraction whose exact quotient is closest to a half-integer (multiples of 5^-9 near .5)
			ns = r.Int64N(2085978496)*1000000000 + nearHalfFractions[r.IntN(len(nearHalfFractions))]
		default:
			ns = r.Int64N(ntpMaxNs)
		}
		b.Instants = append(b.Instants, ns)
	}
	for i := 0; i < n/2; i++ {
		var v uint64
		switch r.IntN(8) {
		case 0:
			v = uint64(r.Uint32())<<32 | []uint64{0, 1, 2, 3, 4, 5, 1 << 31, 1<<32 - 1, 1<<32 - 2, 1<<32 - 5}[r.IntN(10)]
		case 1:
			v = []uint64{0, 1<<64 - 1, 2208988800 << 32, 2208988800<<32 - 1, 2208988800<<32 + 1}[r.IntN(5)]
		default:
			v = r.Uint64()
		}
		b.Values = append(b.Values, v)
	}
	return b
}

var deltaKeys = [6]string{"ntp:value-roundtrip-delta=0", "ntp:value-roundtrip-delta=1", "ntp:value-roundtrip-delta=2", "ntp:value-roundtrip-delta=3", "ntp:value-roundtrip-delta=4", "ntp:value-roundtrip-delta>4"}

// nearHalfFractions: nanosecond fractions n for which frac(n·2^32/10^9) is as close to 1/2 as the
// arithmetic permits (|frac − 1/2| = 1/(2·5^9)); found by solving n·2^23 ≡ (5^9 ± 1)/2 (mod 5^9).
var nearHalfFractions = computeNearHalf()

func computeNearHalf() []int64 {
	const m = 1953125 // 5^9
	// n·2^23 mod 5^9 = (5^9±1)/2  ⇒ frac(n·2^23/5^9) = 1/2 ± 1/(2·5^9)
	inv := new(big.Int).ModInverse(big.NewInt(1<<23), big.NewInt(m)).Int64()
	var out []int64
	for _, target := range []int64{(m - 1) / 2, (m + 1) / 2} {
		n0 := (target * inv) % m
		for k := int64(0); n0+k*m < 1000000000; k += 37 {
			out = append(out, n0+k*m)
		}
		out = append(out, n0+((1000000000-1-n0)/m)*m) // the largest such n: largest quotient, coarsest ulp
	}
	return out
}

// fracSweep compares Encode's fractional field with the model on a whole range of ntp%10^9 values
// through a checksum: acc' = (acc*1021 + fraction) mod (2^40 - 87), starting from 0.
func fracSweep(c *corr.Ctx, start, count int, name string) {
	var acc uint64
	base := int64(1700000000)
	for n := start; n < start+count; n++ {
		v := ntp.Encode(time.Unix(base, int64(n)))
		acc = (acc*1021 + (v & 0xFFFFFFFF)) % 1099511627689
		if v>>32 != uint64(base)+2208988800 {
			c.Violate(corr.Violation{Property: "C15", Clause: "Encode's fraction never carries into the seconds", Key: "ntp-fraction-carry",
				Where: "pkg/ntp", Input: &NtpBatch{Kind: "ntp", Instants: []int64{base*1000000000 + int64(n)}}, Detail: fmt.Sprintf("n=%d v=%d", n, v)})
		}
	}
	c.Add(corr.Case{Name: name, Nontrivial: true,
		Ops:  []string{fmt.Sprintf("time fracsweep %d %d", start, count)},
		Impl: []string{fmt.Sprintf("%d", acc)}})
	c.DistN("ntp:fractions-swept", count)
}
