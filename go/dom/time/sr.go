package timedom

import (
	"fmt"
	"math/big"
	"runtime"
	"sync/atomic"
	"time"

	"github.com/pion/rtcp"
	"github.com/pion/rtp"

	"github.com/bluenviron/gortsplib/v5/pkg/rtpreceiver"
	"github.com/bluenviron/gortsplib/v5/pkg/rtpsender"

	"verifharness/corr"
)

// ---------------------------------------------------------------------------------------------
// sender report → receiver PacketNTP

// SREvent is one step of a sender/receiver history.
type SREvent struct {
	Op string `json:"op"` // "pkt" | "report" | "deliver" | "query"
	// pkt: the writer sends a packet with RTP timestamp TS and associates the absolute time NTP with it
	TS  uint32 `json:"ts,omitempty"`
	NTP int64  `json:"ntp,omitempty"` // Unix ns
	Eq  bool   `json:"eq,omitempty"`
	Len int    `json:"len,omitempty"`
	// pkt, report: the sender's system clock (TimeNow)
	Now int64 `json:"now,omitempty"`
	// K: position of TS on the writer's 64-bit media clock (ticks since the writer's origin); the
	// implementation never sees it.
	K int64 `json:"k,omitempty"`
	// deliver: which report (index among the reports produced so far) reaches the receiver
	Report int `json:"report,omitempty"`
}

// SRHistory is the replayable input of one sender/receiver case.  The writer's clock is linear:
// the packet at media position K carries TS = TS0 + K (mod 2^32) and NTP = NTP0 + round(K·10^9/Rate).
type SRHistory struct {
	Kind   string    `json:"kind"` // "sr"
	Rate   int       `json:"rate"`
	TS0    uint32    `json:"ts0"`
	NTP0   int64     `json:"ntp0"`
	Events []SREvent `json:"events"`
	// Unreliable: the receiver is configured as for UDP / multicast (UnrealiableTransport); the
	// sender-report path must not depend on it
	Unreliable bool `json:"unreliable,omitempty"`
}

var slackNotes int

var firstReportWait = 2 * time.Second

func srRun(c *corr.Ctx, h *SRHistory, name string) {
	var now atomic.Int64
	// reports the Sender releases by itself (run(): the first one as soon as a reference packet exists)
	spont := make(chan rtcp.Packet, 64)
	snd := &rtpsender.Sender{
		ClockRate: h.Rate,
		Period:    time.Hour,
		TimeNow:   func() time.Time { return time.Unix(0, now.Load()) },
		WritePacketRTCP: func(p rtcp.Packet) {
			select {
			case spont <- p:
			default:
			}
		},
	}
	snd.Initialize()
	defer snd.Close()
	rcv := &rtpreceiver.Receiver{
		ClockRate:            h.Rate,
		Period:               time.Hour,
		UnrealiableTransport: h.Unreliable,
		TimeNow:              func() time.Time { return time.Unix(0, now.Load()) },
		WritePacketRTCP:      func(rtcp.Packet) {},
	}
	if err := rcv.Initialize(); err != nil {
		panic(err)
	}
	defer rcv.Close()

	cs := corr.Case{Name: name, Nontrivial: len(h.Events) > 1}
	add := func(op, impl string) {
		cs.Ops = append(cs.Ops, op)
		cs.Impl = append(cs.Impl, impl)
	}
	add(fmt.Sprintf("time sinit %d", h.Rate), "ok")
	add(fmt.Sprintf("time rinit %d", h.Rate), "ok")
	viol := func(clause, key, detail string) {
		c.Violate(corr.Violation{Property: "C15", Clause: clause, Key: key, Where: "pkg/rtpsender, pkg/rtpreceiver", Input: h, Detail: detail})
	}

	// property-oracle state
	type anchor struct { // what the sender knew when it produced a report
		lastRTP          uint32
		lastNTP, lastSys int64
		lastK            int64
		now              int64
		e                int64 // ticks the report extrapolated (RTPTime - lastRTP, as the signed/unsigned 32-bit value)
	}
	var reports []*rtcp.SenderReport
	var anchors []anchor
	var cur anchor
	havePkt := false
	var active *anchor
	var sent uint64
	var octets uint32
	rate := big.NewInt(int64(h.Rate))
	e9 := big.NewInt(1000000000)

	// clause (a): no sender report before the first reference (PTS == DTS) packet.  Anything the Sender has
	// released by itself so far is inspected here; `wait` gives its goroutine time to act.
	firstReleased := false
	spuriousSeen := false
	inspect := func(i int, p rtcp.Packet) {
		sr, _ := p.(*rtcp.SenderReport)
		if sr == nil {
			return
		}
		if !havePkt {
			spuriousSeen = true
			viol("no sender report before the first reference (PTS == DTS) packet", "sr-report-before-reference",
				fmt.Sprintf("event %d: the sender released a report (SSRC %d, NTP %d, RTP %d) although no packet with PTS == DTS was sent yet",
					i, sr.SSRC, sr.NTPTime, sr.RTPTime))
		} else if firstReleased {
			viol("the sender releases one report when the first reference packet appears, then one per period", "sr-unexpected-report",
				fmt.Sprintf("event %d: an extra report (SSRC %d, NTP %d, RTP %d)", i, sr.SSRC, sr.NTPTime, sr.RTPTime))
		}
	}
	noSpurious := func(i int, wait time.Duration) {
		var deadline <-chan time.Time
		if wait > 0 {
			deadline = time.After(wait)
		}
		for {
			select {
			case p := <-spont:
				inspect(i, p)
				continue
			default:
			}
			if deadline == nil {
				return
			}
			select {
			case p := <-spont:
				inspect(i, p)
			case <-deadline:
				return
			}
		}
	}
	npkt := 0
	for i, ev := range h.Events {
		switch ev.Op {
		case "pkt":
			noSpurious(i, 0)
			now.Store(ev.Now)
			isFirstRef := ev.Eq && !havePkt
			snd.ProcessPacket(&rtp.Packet{Header: rtp.Header{Timestamp: ev.TS, SSRC: 0x1234567}, Payload: make([]byte, ev.Len)}, time.Unix(0, ev.NTP), ev.Eq)
			add(fmt.Sprintf("time spkt %d %d %s %d %d %d", ev.TS, ev.NTP, corr.B(ev.Eq), ev.Now, 0x1234567, ev.Len), "ok")
			sent++
			octets += uint32(ev.Len)
			npkt++
			if !ev.Eq && !havePkt && npkt == 1 {
				c.Dist("sr:first-packet-not-a-reference")
				noSpurious(i, 300*time.Microsecond)
			}
			if ev.Eq {
				havePkt = true
				cur = anchor{lastRTP: ev.TS, lastNTP: ev.NTP, lastSys: ev.Now, lastK: ev.K}
			}
			if isFirstRef && !spuriousSeen {
				// the Sender now releases its first report by itself; the clock stands still at ev.Now until
				// it has, so the report must be the model's report for this instant
				select {
				case p := <-spont:
					firstReleased = true
					sr, ok := p.(*rtcp.SenderReport)
					if !ok {
						viol("the first sender report is released once a reference packet exists", "sr-first-report", fmt.Sprintf("event %d: %T", i, p))
						break
					}
					add(fmt.Sprintf("time srep %d", ev.Now), fmt.Sprintf("sr %d %d %d %d %d", sr.SSRC, sr.NTPTime, sr.RTPTime, sr.PacketCount, sr.OctetCount))
					if sr.SSRC != 0x1234567 {
						viol("sender report SSRC is the packets' SSRC", "sr-ssrc", fmt.Sprintf("event %d: SSRC %d", i, sr.SSRC))
					}
					if sr.RTPTime != ev.TS {
						viol("a report made at the instant of the reference packet carries its RTP timestamp", "sr-first-report", fmt.Sprintf("event %d: RTP %d vs %d", i, sr.RTPTime, ev.TS))
					}
					if back := ntpDecodeNs(sr.NTPTime); (back-ev.NTP > 0 || back-ev.NTP < -1) && ev.NTP >= ntpMinNs && ev.NTP < ntpMaxNs {
						viol("a report made at the instant of the reference packet carries its NTP time", "sr-first-report", fmt.Sprintf("event %d: NTP off by %d ns", i, back-ev.NTP))
					}
					c.Dist("sr:first-report-released-by-sender")
				case <-time.After(firstReportWait):
					firstReportWait = 2 * time.Millisecond // a sender that does not release it: do not stall the whole run
					viol("the first sender report is released once a reference packet exists", "sr-first-report", fmt.Sprintf("event %d: nothing released", i))
				}
			}
		case "report":
			if !havePkt {
				// run() never calls report() before the first PTS==DTS packet
				reports = append(reports, nil)
				anchors = append(anchors, anchor{})
				continue
			}
			now.Store(ev.Now)
			sr := snd.VerifReport().(*rtcp.SenderReport)
			add(fmt.Sprintf("time srep %d", ev.Now), fmt.Sprintf("sr %d %d %d %d %d", sr.SSRC, sr.NTPTime, sr.RTPTime, sr.PacketCount, sr.OctetCount))
			// the report travels as bytes
			buf, err := sr.Marshal()
			if err != nil {
				panic(err)
			}
			pkts, err := rtcp.Unmarshal(buf)
			if err != nil || len(pkts) != 1 {
				panic(fmt.Sprint("rtcp round trip: ", err))
			}
			reports = append(reports, pkts[0].(*rtcp.SenderReport))
			a := cur
			a.now = ev.Now
			d := ev.Now - cur.lastSys
			a.e = int64(sr.RTPTime - cur.lastRTP)
			if d < 0 {
				a.e = int64(int32(sr.RTPTime - cur.lastRTP))
			}
			// ---- the float hypothesis of packet_ntp_within_tick, checked on the real value ----
			// q = d·rate − e·10^9 must lie in [−10^9, 10^9 + rate]: the truncated float product is within one
			// tick of the exact tick count d·rate/10^9 (plus 1 ns of time on the side where truncation already
			// costs up to a tick).  The design's form |q| ≤ 10^9 and the ideal 0 ≤ q < 10^9 (e = floor) are counted.
			q := new(big.Int).Sub(new(big.Int).Mul(big.NewInt(d), rate), new(big.Int).Mul(big.NewInt(a.e), e9))
			inRange := d >= 0 && new(big.Int).Mul(big.NewInt(d), rate).Cmp(new(big.Int).Mul(big.NewInt(1<<32-2), e9)) < 0
			if inRange {
				lo := new(big.Int).Neg(e9)
				hi := new(big.Int).Add(e9, rate)
				if q.Cmp(lo) < 0 || q.Cmp(hi) > 0 {
					viol("sender report extrapolates RTP time by elapsed·rate to within one tick", "sr-float-hypothesis",
						fmt.Sprintf("event %d: elapsed %d ns, rate %d, extrapolated %d ticks (q=%s)", i, d, h.Rate, a.e, q))
				}
				if q.CmpAbs(e9) <= 0 {
					c.Dist("sr:float-hypothesis-|q|<=1tick")
				} else {
					c.Dist("sr:float-hypothesis-only-with-1ns-slack")
				}
				if q.Sign() >= 0 && q.Cmp(e9) < 0 {
					c.Dist("sr:float-product-is-floor")
				} else if slackNotes < 3 {
					slackNotes++
					c.Note(fmt.Sprintf("float product differs from floor(elapsed*rate/10^9): elapsed %d ns, rate %d, extrapolated %d ticks, d*rate-e*10^9=%s", d, h.Rate, a.e, q))
				}
			} else {
				c.Dist("sr:report-outside-uint32-range")
			}
			if sr.SSRC != 0x1234567 {
				viol("sender report SSRC is the packets' SSRC", "sr-ssrc", fmt.Sprintf("event %d: SSRC %d", i, sr.SSRC))
			}
			// report counters
			if sr.PacketCount != uint32(sent) || sr.OctetCount != octets {
				viol("sender report counters", "sr-counters", fmt.Sprintf("event %d: %d/%d vs %d/%d", i, sr.PacketCount, sr.OctetCount, sent, octets))
			}
			// NTP time of the report = writer's NTP of the last packet + elapsed system time (to NTP rounding)
			back := ntpDecodeNs(sr.NTPTime)
			if df := back - (cur.lastNTP + d); df > 0 || df < -1 {
				if cur.lastNTP+d >= ntpMinNs && cur.lastNTP+d < ntpMaxNs {
					viol("sender report NTP time = last NTP + elapsed", "sr-ntp-time", fmt.Sprintf("event %d: off by %d ns", i, df))
				}
			}
			if !inRange || cur.lastNTP+d < ntpMinNs || cur.lastNTP+d >= ntpMaxNs {
				a.e = -1 << 62 // outside the property's range: PacketNTP is compared with the model only
			}
			anchors = append(anchors, a)
		case "deliver":
			if ev.Report < 0 || ev.Report >= len(reports) || reports[ev.Report] == nil {
				continue
			}
			// the caller owns the report: the receiver must have copied what it needs (the library hands the same
			// pointer to the application's OnPacketRTCP right afterwards) - scribble over it after the call
			passed := *reports[ev.Report]
			rcv.ProcessSenderReport(&passed, time.Unix(0, ev.Now))
			passed.NTPTime = ^passed.NTPTime
			passed.RTPTime += 0x5a5a5a5a
			passed.SSRC = 0xdeadbeef
			passed.PacketCount, passed.OctetCount = 0, 0
			add(fmt.Sprintf("time rsr %d %d", reports[ev.Report].NTPTime, reports[ev.Report].RTPTime), "ok")
			active = &anchors[ev.Report]
		case "query":
			t, ok := rcv.PacketNTP(ev.TS)
			if !ok {
				add(fmt.Sprintf("time rntp %d", ev.TS), "none")
				if active != nil && h.Rate != 0 {
					viol("once a sender report has been processed PacketNTP is available", "sr-ntp-unavailable", fmt.Sprintf("event %d", i))
				}
				continue
			}
			add(fmt.Sprintf("time rntp %d", ev.TS), fmt.Sprintf("ntp %d", t.UnixNano()))
			if active == nil || h.Rate == 0 {
				viol("no absolute time before a sender report", "sr-ntp-unexpected", fmt.Sprintf("event %d", i))
				continue
			}
			a := active
			if a.e == -1<<62 {
				continue
			}
			// ---- property oracle: PacketNTP(ts) vs the time the writer associates with ts ----
			// The writer's clock at the moment of the report: position lastK ↔ lastNTP; ts at position K lies
			// k = K − lastK ticks from it; the clause applies while |k − e| < 2^31 (32-bit disambiguation).
			k := ev.K - a.lastK
			if km := k - a.e; km >= 1<<31 || km < -(1<<31) {
				c.Dist("sr:query-beyond-2^31-ticks-of-report")
				continue
			}
			// rate·(P − lastNTP) − k·10^9 must lie within ±(10^9 + 2·rate): one tick plus 2 ns (Encode/Decode
			// rounding ≤ 1 ns, tick→ns truncation < 1 ns)
			lhs := new(big.Int).Sub(new(big.Int).Mul(rate, big.NewInt(t.UnixNano()-a.lastNTP)), new(big.Int).Mul(big.NewInt(k), e9))
			bound := new(big.Int).Add(e9, new(big.Int).Mul(big.NewInt(2), rate))
			if lhs.CmpAbs(bound) >= 0 {
				viol("after a sender report PacketNTP equals the writer's time for that RTP timestamp within one clock tick plus NTP rounding",
					"sr-packet-ntp", fmt.Sprintf("event %d: ts %d (k=%d ticks after the reported packet): PacketNTP−lastNTP=%d ns; rate·Δ−k·10^9=%s, bound %s",
						i, ev.TS, k, t.UnixNano()-a.lastNTP, lhs, bound))
			}
			// against the writer's own NTP for that packet (linear clock, rounded to ns by the writer): one more ns
			wr := h.NTP0 + roundDivInt(ev.K, int64(h.Rate))
			lhs2 := new(big.Int).Mul(rate, big.NewInt(t.UnixNano()-wr))
			bound2 := new(big.Int).Add(e9, new(big.Int).Mul(big.NewInt(4), rate))
			if lhs2.CmpAbs(bound2) >= 0 {
				viol("after a sender report PacketNTP equals the writer's time for that RTP timestamp within one clock tick plus NTP rounding",
					"sr-packet-ntp-writer", fmt.Sprintf("event %d: ts %d: PacketNTP %d, writer %d", i, ev.TS, t.UnixNano(), wr))
			}
			c.Dist("sr:query-checked")
			if new(big.Int).Abs(lhs).Cmp(e9) > 0 {
				c.Dist("sr:query-error-above-one-tick(rounding)")
			}
		}
	}
	if !havePkt {
		noSpurious(len(h.Events), 300*time.Microsecond)
	} else {
		noSpurious(len(h.Events), 0)
	}
	c.Add(cs)
}

// ntpDecodeNs: the value of an NTP timestamp in Unix ns, rounded down (exact rational arithmetic; not the code under test).
func ntpDecodeNs(v uint64) int64 {
	x := new(big.Int).Mul(new(big.Int).SetUint64(v), big.NewInt(1000000000))
	x.Rsh(x, 32)
	x.Sub(x, new(big.Int).Mul(big.NewInt(2208988800), big.NewInt(1000000000)))
	return x.Int64()
}

// roundDivInt: round(k·10^9/rate) to the nearest integer (writer's ns rounding).
func roundDivInt(k, rate int64) int64 {
	num := new(big.Int).Mul(big.NewInt(k), big.NewInt(2000000000))
	num.Add(num, big.NewInt(rate))
	den := big.NewInt(2 * rate)
	q := new(big.Int).Div(num, den) // Euclidean: floor for positive den
	return q.Int64()
}

func genSRHistory(c *corr.Ctx) *SRHistory {
	r := c.Rng
	h := &SRHistory{Kind: "sr", Rate: genRate(c), TS0: r.Uint32(), Unreliable: r.IntN(2) == 0}
	c.Dist(fmt.Sprintf("sr:unreliable=%v", h.Unreliable))
	switch r.IntN(4) {
	case 0:
		h.TS0 = uint32(1<<32 - 1 - r.IntN(100000))
	case 1:
		h.TS0 = uint32(1<<31 - 1 - r.IntN(100000))
	}
	h.NTP0 = r.Int64N(ntpMaxNs - 5*365*86400*1000000000) // the whole history stays inside NTP era 0
	if r.IntN(8) == 0 {
		h.NTP0 = int64(r.IntN(1000))
	}
	mode := r.IntN(6)
	c.Dist(fmt.Sprintf("sr:mode=%d", mode))
	// the PTS == DTS pattern of the packets: 0 by step model, 1 all true, 2 all false, 3 false prefix then mixed, 4 sparse true
	eqPat := r.IntN(5)
	falsePrefix := 1 + r.IntN(6)
	c.Dist(fmt.Sprintf("sr:eq-pattern=%d", eqPat))
	npk := 0
	var repTicks int64 // ticks the last report lies after the current packet position
	n := 4 + r.IntN(40)
	sys := int64(1600000000)*1000000000 + r.Int64N(1000000000000)
	var K int64
	nrep := 0
	frame := int64(h.Rate/(1+r.IntN(60))) + 1
	for i := 0; i < n; i++ {
		x := r.IntN(10)
		switch {
		case x < 4 || i == 0:
			// next packet: media clock advances, system clock advances by about the same real time
			var step int64
			switch mode {
			case 0, 1:
				step = frame
			case 2:
				step = frame * int64(r.IntN(5)-1) // B-frames: backwards in timestamp
			case 3:
				step = r.Int64N(min(1<<31, int64(h.Rate)*86400)) // huge forward steps (at most a day): wraps
			default:
				step = int64(r.IntN(100000))
			}
			if i == 0 {
				step = 0
			}
			K += step
			adv := roundDivInt(step, int64(h.Rate))
			if adv < 0 {
				adv = 0
			}
			sys += adv + int64(r.IntN(2000000))
			eq := step >= 0 || mode != 2
			if mode == 2 && r.IntN(4) == 0 {
				eq = false
			}
			if i == 0 {
				eq = r.IntN(8) != 0
			}
			switch eqPat {
			case 1:
				eq = true
			case 2:
				eq = false
			case 3:
				eq = npk >= falsePrefix && r.IntN(3) != 0
			case 4:
				eq = r.IntN(6) == 0
			}
			npk++
			h.Events = append(h.Events, SREvent{Op: "pkt", TS: h.TS0 + uint32(K), NTP: h.NTP0 + roundDivInt(K, int64(h.Rate)), Eq: eq, Len: r.IntN(1500), Now: sys, K: K})
		case x < 6:
			// a report after some system time (the report period): up to the uint32 range of ticks
			var d int64
			switch r.IntN(7) {
			case 0:
				d = 0
			case 6:
				// long idle: between 2^31 and 2^32 ticks since the reference packet (6.6 h .. 13.2 h at 90 kHz):
				// the extrapolated RTP time must still wrap modulo 2^32 correctly
				tk := int64(1<<31) + r.Int64N(1<<31-10)
				d = new(big.Int).Div(new(big.Int).Mul(big.NewInt(tk), big.NewInt(1000000000)), big.NewInt(int64(h.Rate))).Int64()
				if d > 30*86400*1000000000 || d < 0 {
					d = r.Int64N(20 * 1000000000)
				} else {
					c.Dist("sr:report-after-more-than-2^31-ticks")
				}
			case 1:
				d = int64(r.IntN(10)) * 1000000000 // whole seconds: product exactly an integer
			case 2:
				// long silence, still below 2^32 ticks
				maxNs := new(big.Int).Div(new(big.Int).Mul(big.NewInt(1<<32-10), big.NewInt(1000000000)), big.NewInt(int64(h.Rate)))
				d = r.Int64N(min(maxNs.Int64(), 30*86400*1000000000))
			case 3:
				// elapsed time whose tick count is an integer or a hair off (float rounding boundary)
				tk := int64(r.IntN(1 << 24))
				d = (tk*1000000000+int64(h.Rate)-1)/int64(h.Rate) + int64(r.IntN(3)) - 1
				if d < 0 {
					d = 0
				}
			default:
				d = r.Int64N(20 * 1000000000)
			}
			if mode == 5 && r.IntN(10) == 0 && runtime.GOARCH == "amd64" && h.Rate >= 1000 {
				// outside what the property covers (clock stepping backwards, or ≥ 2^32 ticks of silence):
				// float→uint32 is implementation-defined there; the model follows amd64
				if r.IntN(2) == 0 {
					d = -r.Int64N(5 * 1000000000)
				} else {
					d = (int64(1<<32)+r.Int64N(1<<33))*1000000000/int64(h.Rate) + 1
				}
			}
			h.Events = append(h.Events, SREvent{Op: "report", Now: sys + d})
			if d > 0 {
				repTicks = new(big.Int).Div(new(big.Int).Mul(big.NewInt(d), big.NewInt(int64(h.Rate))), big.NewInt(1000000000)).Int64()
			}
			if r.IntN(3) != 0 {
				sys += max(d, 0)
			}
			nrep++
			if r.IntN(4) != 0 {
				h.Events = append(h.Events, SREvent{Op: "deliver", Report: nrep - 1, Now: sys})
			}
		case x < 7:
			if nrep > 0 {
				h.Events = append(h.Events, SREvent{Op: "deliver", Report: r.IntN(nrep), Now: sys}) // late / repeated / reordered report
			}
		default:
			// query a timestamp of the writer's clock around the current position
			var off int64
			switch r.IntN(6) {
			case 0:
				off = 0
			case 5:
				off = repTicks + int64(r.IntN(200000)) - 100000 // around the last report's own position
			case 1:
				off = r.Int64N(1<<31) - 1<<30
			case 2:
				off = r.Int64N(1<<32) - 1<<31 // may exceed the 32-bit window of the report
			default:
				off = int64(r.IntN(200000)) - 100000
			}
			kq := K + off
			h.Events = append(h.Events, SREvent{Op: "query", TS: h.TS0 + uint32(kq), K: kq})
		}
	}
	// always end with a delivered report and a few queries
	h.Events = append(h.Events, SREvent{Op: "report", Now: sys + int64(r.IntN(5000000000))})
	h.Events = append(h.Events, SREvent{Op: "deliver", Report: nrep, Now: sys})
	for j := 0; j < 3; j++ {
		kq := K + int64(r.IntN(2000000)) - 1000000
		h.Events = append(h.Events, SREvent{Op: "query", TS: h.TS0 + uint32(kq), K: kq})
	}
	return h
}

// srBoundary: elapsed times whose tick count is an integer or one ns off it, for common and awkward
// rates; queries at the edges of the report's 32-bit window.
func srBoundary(c *corr.Ctx) {
	rates := []int{1, 7, 8000, 11025, 44100, 48000, 90000, 999983, 1000000}
	ticks := []int64{0, 1, 2, 3, 89999, 90000, 1 << 24, 1<<31 - 1, 1 << 31, 1<<32 - 3}
	n := 0
	for _, rate := range rates {
		for _, tk := range ticks {
			for off := int64(-1); off <= 1; off++ {
				d := (tk*1000000000+int64(rate)-1)/int64(rate) + off
				if d < 0 || d > 40*86400*1000000000 {
					continue
				}
				h := &SRHistory{Kind: "sr", Rate: rate, TS0: 4294967000, NTP0: 1234567890123456789}
				h.Events = append(h.Events, SREvent{Op: "pkt", TS: h.TS0, NTP: h.NTP0, Eq: true, Len: 1, Now: 1000, K: 0})
				h.Events = append(h.Events, SREvent{Op: "report", Now: 1000 + d})
				h.Events = append(h.Events, SREvent{Op: "deliver", Report: 0, Now: 1000 + d})
				for _, kq := range []int64{tk - 1<<31, tk - 1<<31 + 2, tk - 1, tk, tk + 1, tk + 1<<31 - 2, tk + 1<<31, 0, 1, -1} {
					h.Events = append(h.Events, SREvent{Op: "query", TS: h.TS0 + uint32(kq), K: kq})
				}
				srRun(c, h, fmt.Sprintf("sr-boundary-%d", n))
				n++
			}
		}
	}
	c.Dist("sr:boundary-sweep")
	// long runs: a report every `period` ticks from shortly before the 32-bit wrap of the RTP timestamp
	// to well beyond it, delivered at once, the packet at the report position and its neighbours
	// queried after every delivery; both receiver configurations (added after seeded change C15-r6-2:
	// a report filter that compared RTP times without wrap-around froze the reference at the wrap)
	m := 0
	for _, rate := range []int{8000, 48000, 90000} {
		for _, period := range []int64{0x10000000, 0x30000000, 0x7fffffff} {
			for _, unrel := range []bool{false, true} {
				h := &SRHistory{Kind: "sr", Rate: rate, TS0: 0xE0000000, NTP0: 1500000000000000000, Unreliable: unrel}
				sys := int64(1600000000) * 1000000000
				for i := int64(0); i < 12; i++ {
					K := i * period
					adv := roundDivInt(period, int64(rate))
					sys += adv
					h.Events = append(h.Events, SREvent{Op: "pkt", TS: h.TS0 + uint32(K), NTP: h.NTP0 + roundDivInt(K, int64(rate)), Eq: true, Len: 100, Now: sys, K: K})
					h.Events = append(h.Events, SREvent{Op: "report", Now: sys})
					h.Events = append(h.Events, SREvent{Op: "deliver", Report: int(i), Now: sys})
					for _, dk := range []int64{-1000, 0, 1000} {
						if K+dk >= 0 {
							h.Events = append(h.Events, SREvent{Op: "query", TS: h.TS0 + uint32(K+dk), K: K + dk})
						}
					}
				}
				srRun(c, h, fmt.Sprintf("sr-longrun-%d", m))
				m++
			}
		}
	}
	c.Dist("sr:longrun-across-wrap")
}
