// Package timedom is the correspondence domain `time` (property C15): pkg/rtptime.GlobalDecoder,
// pkg/ntp, pkg/rtpsender.report and the NTP part of pkg/rtpreceiver against Model/TimeDec.lean,
// Model/Ntp.lean and Model/SenderReport.lean, plus the C15 property oracle.
package timedom

import (
	"fmt"
	"math/big"
	"sync/atomic"
	"time"

	"github.com/pion/rtp"

	"github.com/bluenviron/gortsplib/v5/pkg/rtptime"

	"verifharness/corr"
)

// ---------------------------------------------------------------------------------------------
// GlobalDecoder.Decode histories

// DecOp is one Decode call and everything it reads from its environment.
type DecOp struct {
	Track int    `json:"track"`
	Rate  int    `json:"rate"` // what track.ClockRate() returns during this call
	Eq    bool   `json:"eq"`   // what track.PTSEqualsDTS(pkt) returns during this call
	TS    uint32 `json:"ts"`
	Now   int64  `json:"now"` // what timeNow() returns during this call (Unix ns)
	// Step is the generator's intention: the signed number of ticks this packet lies after the
	// previous packet of the same track (TS = previous TS + Step mod 2^32); 0 and unused for the
	// first packet of a track.  The property oracle uses it, the implementation never sees it.
	Step int64 `json:"step"`
}

// DecHistory is the replayable input of one Decode case.
type DecHistory struct {
	Kind string  `json:"kind"` // "dec"
	Ops  []DecOp `json:"ops"`
}

type vtrack struct {
	rate int
	eq   bool
}

func (t *vtrack) ClockRate() int                { return t.rate }
func (t *vtrack) PTSEqualsDTS(*rtp.Packet) bool { return t.eq }

// the package clock of rtptime, injected through the verif hook
var decNow atomic.Int64

func init() {
	rtptime.VerifSetTimeNow(func() time.Time { return time.Unix(0, decNow.Load()) })
}

var (
	two32 = new(big.Int).Lsh(big.NewInt(1), 32)
	two31 = new(big.Int).Lsh(big.NewInt(1), 31)
)

// signedDelta32 is the property's "signed 32-bit difference" of two RTP timestamps, computed with
// big integers: the representative of (a-b) mod 2^32 in [-2^31, 2^31).
func signedDelta32(a, b uint32) *big.Int {
	d := new(big.Int).Sub(new(big.Int).SetUint64(uint64(a)), new(big.Int).SetUint64(uint64(b)))
	d.Mod(d, two32) // Euclidean: 0 ≤ d < 2^32
	if d.Cmp(two31) >= 0 {
		d.Sub(d, two32)
	}
	return d
}

type decTrackOracle struct {
	started  bool
	firstPTS *big.Int
	lastPTS  *big.Int
	firstTS  uint32
	lastTS   uint32
	acc      *big.Int // Σ signed 32-bit differences since the first packet
	accStep  *big.Int // Σ generator steps since the first packet
	pending  int64    // steps of refused packets since the last decoded one
	stepsOK  bool     // every step between consecutively decoded packets so far had |step| < 2^31
}

func decRun(c *corr.Ctx, h *DecHistory, name string) {
	d := &rtptime.GlobalDecoder{}
	d.Initialize()
	cs := corr.Case{Name: name, Nontrivial: len(h.Ops) > 1}
	cs.Ops = append(cs.Ops, "time dinit")
	cs.Impl = append(cs.Impl, "ok")

	tracks := map[int]*vtrack{}
	orc := map[int]*decTrackOracle{}
	viol := func(clause, key, detail string) {
		c.Violate(corr.Violation{Property: "C15", Clause: clause, Key: key, Where: "pkg/rtptime", Input: h, Detail: detail})
	}
	// leader bookkeeping of the property oracle
	leader := -1
	var leaderRate int64
	var refPTS *big.Int // PTS of the leader's last packet with PTS == DTS (0 at election)
	var refNow int64
	wraps := 0

	for i, op := range h.Ops {
		tr := tracks[op.Track]
		if tr == nil {
			tr = &vtrack{}
			tracks[op.Track] = tr
		}
		tr.rate, tr.eq = op.Rate, op.Eq
		decNow.Store(op.Now)
		pts, ok := d.Decode(tr, &rtp.Packet{Header: rtp.Header{Timestamp: op.TS}})
		cs.Ops = append(cs.Ops, fmt.Sprintf("time dec %d %d %s %d %d", op.Track, op.Rate, corr.B(op.Eq), op.TS, op.Now))
		if ok {
			cs.Impl = append(cs.Impl, fmt.Sprintf("pts %d", pts))
		} else {
			cs.Impl = append(cs.Impl, "none")
			if pts != 0 {
				viol("a refused packet has no PTS", "dec-refused-nonzero", fmt.Sprintf("op %d returned (%d,false)", i, pts))
			}
		}

		// ---- property oracle (C15, PTS clauses), evaluated on the implementation's outputs ----
		o := orc[op.Track]
		if o == nil {
			o = &decTrackOracle{}
			orc[op.Track] = o
		}
		if !ok {
			if o.started {
				o.pending += op.Step
			}
			// the only legitimate refusals: clock rate 0, or a never-seen track whose first packet is not PTS==DTS
			if op.Rate != 0 && (o.started || op.Eq) {
				viol("every packet of a started track gets a PTS", "dec-unexpected-refusal", fmt.Sprintf("op %d refused", i))
			}
			continue
		}
		if op.Rate == 0 || (!o.started && !op.Eq) {
			viol("no PTS without a clock rate / before the first PTS==DTS packet", "dec-unexpected-accept", fmt.Sprintf("op %d accepted", i))
		}
		P := big.NewInt(pts)
		if !o.started {
			// a track that starts: the first one leads (PTS 0), a later one is placed on the leader's timeline
			o.started, o.firstPTS, o.lastPTS, o.firstTS, o.lastTS = true, P, P, op.TS, op.TS
			o.acc, o.accStep, o.stepsOK = new(big.Int), new(big.Int), true
			if leader < 0 {
				leader, leaderRate, refPTS, refNow = op.Track, int64(op.Rate), new(big.Int), op.Now
				if pts != 0 {
					viol("the leading track starts at PTS 0", "dec-leader-start", fmt.Sprintf("op %d: first PTS %d", i, pts))
				}
				c.Dist("dec:leader-elected")
			} else {
				// expected = refPTS*rate/leaderRate + (now-refNow)*rate/1e9, each term truncated: off by < 1 tick each
				x := new(big.Rat).SetFrac(new(big.Int).Mul(refPTS, big.NewInt(int64(op.Rate))), big.NewInt(leaderRate))
				y := new(big.Rat).SetFrac(new(big.Int).Mul(big.NewInt(op.Now-refNow), big.NewInt(int64(op.Rate))), big.NewInt(1000000000))
				want := new(big.Rat).Add(x, y)
				diff := new(big.Rat).Sub(new(big.Rat).SetInt(P), want)
				if diff.Abs(diff).Cmp(big.NewRat(2, 1)) >= 0 {
					viol("a track that starts later is placed on the leading track's timeline (within one tick per rescaling)",
						"dec-late-track", fmt.Sprintf("op %d: start PTS %d, leader timeline gives %s", i, pts, want.FloatString(3)))
				}
				if op.Track == leader {
					viol("internal: oracle bookkeeping", "dec-oracle-bug", "leader restarted")
				}
				c.Dist("dec:late-track-joined")
			}
		} else {
			delta := signedDelta32(op.TS, o.lastTS)
			o.acc.Add(o.acc, delta)
			total := o.pending + op.Step
			o.pending = 0
			o.accStep.Add(o.accStep, big.NewInt(total))
			if total >= 1<<31 || total <= -(1<<31) {
				o.stepsOK = false
			}
			// clause: PTS difference between two packets = accumulated signed 32-bit differences
			got := new(big.Int).Sub(P, o.firstPTS)
			if got.Cmp(o.acc) != 0 {
				viol("the PTS difference between two packets equals the signed 32-bit differences accumulated along the way",
					"dec-pts-accumulation", fmt.Sprintf("op %d: PTS-firstPTS=%s, accumulated=%s", i, got, o.acc))
			}
			// clause: with |step| < 2^31 the PTS follows the writer's 64-bit clock exactly, across any number of wraps
			if o.stepsOK && got.Cmp(o.accStep) != 0 {
				viol("with |step| < 2^31 the PTS advances by exactly the step, across wrap-arounds",
					"dec-pts-step", fmt.Sprintf("op %d: PTS-firstPTS=%s, writer's 64-bit clock advanced %s", i, got, o.accStep))
			}
			// clause: 64-bit continuation of the 32-bit timestamps
			m := new(big.Int).Sub(got, new(big.Int).SetUint64(uint64(op.TS-o.firstTS)))
			if m.Mod(m, two32).Sign() != 0 {
				viol("PTS is a continuation of the 32-bit RTP timestamp (congruent modulo 2^32)", "dec-pts-congruence", fmt.Sprintf("op %d", i))
			}
			if (delta.Sign() > 0 && op.TS < o.lastTS) || (delta.Sign() < 0 && op.TS > o.lastTS) {
				wraps++
			}
			o.lastPTS, o.lastTS = P, op.TS
		}
		if op.Track == leader && op.Eq {
			refPTS, refNow = P, op.Now
		}
	}
	if wraps > 0 {
		c.Dist("dec:case-with-wrap")
	}
	if wraps > 3 {
		c.Dist("dec:case-with->3-wraps")
	}
	c.Add(cs)
}

var commonRates = []int{8000, 16000, 22050, 44100, 48000, 90000}

func genRate(c *corr.Ctx) int {
	r := c.Rng
	switch r.IntN(10) {
	case 0, 1, 2, 3, 4:
		return commonRates[r.IntN(len(commonRates))]
	case 5:
		return 1 + r.IntN(10)
	case 6:
		return 1000000 - r.IntN(10)
	default:
		return 1 + r.IntN(1000000)
	}
}

func genDecHistory(c *corr.Ctx) *DecHistory {
	r := c.Rng
	h := &DecHistory{Kind: "dec"}
	nTracks := 1 + r.IntN(4)
	type tstate struct {
		rate    int
		ts      uint32
		joined  bool
		joinAt  int
		mode    int
		fps     int
		started bool
	}
	n := 5 + r.IntN(80)
	ts := make([]tstate, nTracks)
	for k := range ts {
		ts[k].rate = genRate(c)
		ts[k].ts = r.Uint32()
		switch r.IntN(4) {
		case 0:
			ts[k].ts = uint32(1<<32 - 1 - r.IntN(200000)) // wraps soon
		case 1:
			ts[k].ts = uint32(1<<31 - 1 - r.IntN(200000))
		}
		ts[k].joinAt = 0
		if k > 0 {
			ts[k].joinAt = r.IntN(n)
		}
		ts[k].mode = r.IntN(7)
		ts[k].fps = 1 + r.IntN(60)
	}
	mode := r.IntN(8)
	now := int64(1500000000+r.IntN(500000000))*1000000000 + int64(r.IntN(1000000000))
	if mode == 7 {
		now = int64(r.IntN(3)) // clock near the epoch
	}
	c.Dist(fmt.Sprintf("dec:mode=%d", mode))
	for i := 0; i < n; i++ {
		k := r.IntN(nTracks)
		t := &ts[k]
		if i < t.joinAt {
			k = 0
			t = &ts[0]
		}
		op := DecOp{Track: k + 1, Rate: t.rate, Eq: true}
		// per-track step model
		var step int64
		switch t.mode {
		case 0: // constant frame duration
			step = int64(t.rate / t.fps)
		case 1: // frame duration with B-frame reordering (backward steps, PTS != DTS)
			step = int64(t.rate/t.fps) * int64(r.IntN(5)-1)
			if step < 0 || r.IntN(3) == 0 {
				op.Eq = false
			}
		case 2: // large forward jumps: many wraps
			step = int64(1<<29) + r.Int64N(1<<30)
		case 3: // extreme steps of both signs
			switch r.IntN(4) {
			case 0:
				step = 1<<31 - 1
			case 1:
				step = -(1<<31 - 1)
			case 2:
				step = r.Int64N(1<<32-1) - (1<<31 - 1)
			default:
				step = int64(r.IntN(3)) - 1
			}
		case 4: // random signed 32-bit
			step = r.Int64N(1<<32-1) - (1<<31 - 1)
		case 5: // small jitter around zero
			step = int64(r.IntN(2001)) - 1000
		default: // large backward jumps: wraps downwards
			step = -(int64(1<<29) + r.Int64N(1<<30))
		}
		if mode == 6 && r.IntN(6) == 0 {
			// malformed: a step outside the property's range (aliased by the 32-bit field)
			switch r.IntN(3) {
			case 0:
				step = 1 << 31
			case 1:
				step = -(1 << 31)
			default:
				step = r.Int64N(1<<34) - 1<<33
			}
			c.Dist("dec:out-of-range-step")
		}
		if t.started {
			t.ts += uint32(step) // two's complement: adds step mod 2^32
			op.Step = step
		}
		op.TS = t.ts
		// wall clock: advances roughly with the media clock, sometimes not at all, rarely backwards
		switch r.IntN(12) {
		case 0:
		case 1:
			now -= int64(r.IntN(50000000))
		case 2:
			now += int64(r.IntN(3600)) * 1000000000
		default:
			now += int64(r.IntN(40000000))
		}
		op.Now = now
		if mode == 5 && r.IntN(15) == 0 {
			op.Rate = 0 // a format without a clock rate
		} else if mode == 5 && r.IntN(40) == 0 {
			op.Rate = genRate(c) // ClockRate() changing under the decoder's feet (model must follow)
			t.rate = op.Rate
		}
		if !t.started && r.IntN(4) == 0 {
			op.Eq = false // a track whose first packets are not PTS==DTS: refused until one is
		}
		if op.Rate != 0 && op.Eq {
			t.started = true
		}
		h.Ops = append(h.Ops, op)
	}
	return h
}

// decBoundary: one track, every interesting (start, step) pair around the wrap and sign boundaries.
func decBoundary(c *corr.Ctx) {
	starts := []uint32{0, 1, 2, 1<<31 - 2, 1<<31 - 1, 1 << 31, 1<<31 + 1, 1<<32 - 2, 1<<32 - 1}
	steps := []int64{0, 1, -1, 2, -2, 1<<31 - 1, -(1<<31 - 1), 1<<31 - 2, -(1<<31 - 2), 1 << 30, -(1 << 30), 1 << 31, -(1 << 31), 1<<31 + 1, 1<<32 - 1, 1 << 32}
	n := 0
	for _, s := range starts {
		for _, a := range steps {
			for _, b := range steps {
				h := &DecHistory{Kind: "dec"}
				ts := s
				h.Ops = append(h.Ops, DecOp{Track: 1, Rate: 90000, Eq: true, TS: ts, Now: 1000})
				for _, st := range []int64{a, b, a} {
					ts += uint32(st)
					h.Ops = append(h.Ops, DecOp{Track: 1, Rate: 90000, Eq: true, TS: ts, Now: 1000, Step: st})
				}
				decRun(c, h, fmt.Sprintf("dec-boundary-%d", n))
				n++
			}
		}
	}
	c.Dist("dec:boundary-sweep")
}

// decLateSweep: a leader at rate r1 that has advanced to a chosen PTS, a second track of rate r2
// joining after a chosen elapsed time — rescaling boundaries (exact multiples, one below, one above).
func decLateSweep(c *corr.Ctx) {
	rates := []int{1, 3, 8000, 44100, 48000, 90000, 999983, 1000000}
	ptss := []int64{0, 1, 89999, 90000, 90001, 1<<31 - 1, 4000000000, 12345678901}
	els := []int64{0, 1, 999999999, 1000000000, 1000000001, 11111, 3600000000000, -5, -1000000001}
	n := 0
	for _, r1 := range rates {
		for _, r2 := range rates {
			for _, p := range ptss {
				for _, el := range els {
					if c.Quick() && (n%7 != int(c.Seed%7)) {
						n++
						continue
					}
					h := &DecHistory{Kind: "dec"}
					var ts uint32 = 4294960000
					now := int64(1700000000000000000)
					h.Ops = append(h.Ops, DecOp{Track: 1, Rate: r1, Eq: true, TS: ts, Now: now})
					rem := p
					for rem > 0 {
						st := min(rem, 1<<31-1)
						ts += uint32(st)
						rem -= st
						now += 1000
						h.Ops = append(h.Ops, DecOp{Track: 1, Rate: r1, Eq: true, TS: ts, Now: now, Step: st})
					}
					h.Ops = append(h.Ops, DecOp{Track: 2, Rate: r2, Eq: true, TS: 7, Now: now + el})
					h.Ops = append(h.Ops, DecOp{Track: 2, Rate: r2, Eq: true, TS: 7 + 3000, Now: now + el, Step: 3000})
					decRun(c, h, fmt.Sprintf("dec-late-%d", n))
					n++
				}
			}
		}
	}
	c.Dist("dec:late-join-sweep")
}

// decEnum: small-scope enumeration — every sequence of `length` packets over two tracks and the
// timestamps at the wrap / sign boundaries (all interleavings, all step signs, refusals included).
func decEnum(c *corr.Ctx) {
	decEnumWith(c, []uint32{0, 1<<31 - 1, 1 << 31, 1<<32 - 1}, c.N(4, 5))
	if !c.Quick() {
		decEnumWith(c, []uint32{0, 1, 1<<31 - 1, 1 << 31, 1<<31 + 1, 1<<32 - 1}, 4)
	}
	c.Dist("dec:enumerated-small-scope")
}

func decEnumWith(c *corr.Ctx, tss []uint32, length int) {
	type choice struct {
		track int
		ts    uint32
		eq    bool
	}
	var choices []choice
	for tr := 1; tr <= 2; tr++ {
		for _, t := range tss {
			choices = append(choices, choice{tr, t, true})
		}
	}
	choices = append(choices, choice{1, 77, false}, choice{2, 1<<32 - 77, false})
	total := 1
	for i := 0; i < length; i++ {
		total *= len(choices)
	}
	rates := [3]int{0, 90000, 8000}
	for code := 0; code < total; code++ {
		h := &DecHistory{Kind: "dec"}
		x := code
		last := map[int]uint32{}
		started := map[int]bool{}
		for i := 0; i < length; i++ {
			ch := choices[x%len(choices)]
			x /= len(choices)
			op := DecOp{Track: ch.track, Rate: rates[ch.track], Eq: ch.eq, TS: ch.ts, Now: 1700000000000000000 + int64(i)*500000000}
			if started[ch.track] {
				// the intended step: the representative of the difference in (−2^31, 2^31]; 2^31 itself is
				// outside the property's range (the oracle then only checks the accumulation clause)
				dlt := int64(ch.ts - last[ch.track])
				if dlt > 1<<31 {
					dlt -= 1 << 32
				}
				op.Step = dlt
				last[ch.track] = ch.ts
			} else if ch.eq {
				started[ch.track] = true
				last[ch.track] = ch.ts
			}
			h.Ops = append(h.Ops, op)
		}
		decRun(c, h, fmt.Sprintf("dec-enum-%d-%d-%d", len(tss), length, code))
	}
}
