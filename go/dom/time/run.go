package timedom

import (
	"encoding/json"
	"fmt"
	"os"
	"path/filepath"
	"sort"
	"strings"
	"time"

	"verifharness/corr"
)

// Run is the domain entry point.
func Run(c *corr.Ctx) {
	c.Rule("(a) GlobalDecoder.Decode histories: 1-4 tracks with rates from {8000..90000} and 1..10^6, starts near 0/2^31/2^32, " +
		"per-track step models (constant, B-frame reordering, ±2^29..2^31 jumps, extremes ±(2^31-1), random int32, jitter), late joins with injected timeNow, " +
		"rate 0 / PTS!=DTS refusals, out-of-range steps as malformed input; boundary sweeps over (start, step, step) and (leader rate, joiner rate, leader PTS, elapsed). " +
		"(b) ntp.Encode/Decode on batches of instants (uniform 1970-2036, second boundaries, era edges, near-half fractions, outside era 0) and uint64 values, " +
		"plus checksum sweeps over whole ranges of the nanosecond fraction (all 10^9 in the thorough tier). " +
		"(c) sender->receiver histories on a linear writer clock: packets, reports after random/boundary elapsed times, late/reordered delivery, PacketNTP queries up to ±2^31 ticks away. " +
		"A case is non-trivial when it has more than one operation; distinct = distinct op-line sequences")
	if c.Replay != nil {
		if !runInput(c, c.Replay, "replay") {
			panic("replay input not understood")
		}
		return
	}
	t0 := time.Now()
	lap := func(what string) {
		if os.Getenv("VERIF_TIMING") != "" {
			fmt.Fprintf(os.Stderr, "[time] %s: %.1fs\n", what, time.Since(t0).Seconds())
		}
		t0 = time.Now()
	}
	corpus(c)

	// (a) Decode
	for i, n := 0, c.N(8000, 200000); i < n; i++ {
		decRun(c, genDecHistory(c), fmt.Sprintf("dec-%d", i))
	}
	lap("dec random")
	decBoundary(c)
	decLateSweep(c)
	decEnum(c)
	lap("dec sweeps+enum")

	// (b) NTP
	per := 100
	for i, n := 0, c.N(7000, 40000); i < n; i++ { // 1.5 * per * n encode/decode pairs: ≥ 10^6 in the quick tier
		ntpRun(c, genNtpBatch(c, per), fmt.Sprintf("ntp-%d", i))
	}
	lap("ntp batches")
	if c.Quick() {
		// 20 windows of 10^6 consecutive fractions, always including both ends of the range
		fracSweep(c, 0, 1000000, "frac-0")
		fracSweep(c, 999000000, 1000000, "frac-end")
		for i := 0; i < 18; i++ {
			st := c.Rng.IntN(999000000)
			fracSweep(c, st, 1000000, fmt.Sprintf("frac-%d", st))
		}
	} else {
		for st := 0; st < 1000000000; st += 10000000 {
			fracSweep(c, st, 10000000, fmt.Sprintf("frac-%d", st))
		}
		c.Dist("ntp:all-10^9-fractions-swept")
		c.Exhaustive()
	}

	lap("ntp fraction sweeps")
	// (c) sender report → PacketNTP
	for i, n := 0, c.N(8000, 150000); i < n; i++ {
		srRun(c, genSRHistory(c), fmt.Sprintf("sr-%d", i))
	}
	srBoundary(c)
	lap("sr")
	c.Flush()
	lap("final flush")
}

// runInput executes one recorded input (the `input` of a violation / a corpus file).
func runInput(c *corr.Ctx, raw []byte, name string) bool {
	var k struct {
		Kind string `json:"kind"`
	}
	if err := json.Unmarshal(raw, &k); err != nil {
		return false
	}
	switch k.Kind {
	case "dec":
		var h DecHistory
		if err := json.Unmarshal(raw, &h); err != nil {
			return false
		}
		decRun(c, &h, name)
	case "ntp":
		var b NtpBatch
		if err := json.Unmarshal(raw, &b); err != nil {
			return false
		}
		ntpRun(c, &b, name)
	case "sr":
		var h SRHistory
		if err := json.Unmarshal(raw, &h); err != nil {
			return false
		}
		srRun(c, &h, name)
	default:
		return false
	}
	return true
}

func corpusDir(prop string) string {
	if d := os.Getenv("VERIF_ROOT"); d != "" {
		return filepath.Join(d, "corpus", prop)
	}
	if exe, err := os.Executable(); err == nil {
		d := filepath.Join(filepath.Dir(exe), "..", "..", "corpus", prop)
		if st, err2 := os.Stat(d); err2 == nil && st.IsDir() {
			return d
		}
	}
	return "/verif/corpus/" + prop
}

// corpus: recorded inputs (corpus/C15/*.json) and hand-made cases, always run first.
func corpus(c *corr.Ctx) {
	files, _ := filepath.Glob(filepath.Join(corpusDir("C15"), "*.json"))
	sort.Strings(files)
	for _, f := range files {
		raw, err := os.ReadFile(f)
		if err != nil {
			continue
		}
		if !runInput(c, raw, "corpus-"+strings.TrimSuffix(filepath.Base(f), ".json")) {
			c.Note("corpus file not understood: " + f)
		}
		c.Dist("corpus-files")
	}
	// the package's own unit-test scenario shape: one wrap forwards, then backwards
	decRun(c, &DecHistory{Kind: "dec", Ops: []DecOp{
		{Track: 1, Rate: 90000, Eq: true, TS: 4294877296, Now: 1000000000},
		{Track: 1, Rate: 90000, Eq: true, TS: 4294967295, Now: 2000000000, Step: 89999},
		{Track: 1, Rate: 90000, Eq: true, TS: 0, Now: 2000000000, Step: 1},
		{Track: 1, Rate: 90000, Eq: true, TS: 4294967295, Now: 2000000000, Step: -1},
		{Track: 2, Rate: 48000, Eq: true, TS: 123, Now: 7000000000},
		{Track: 2, Rate: 48000, Eq: false, TS: 4294966459, Now: 7000000000, Step: -960},
	}}, "corpus-dec-wrap")
	// Encode's largest fraction (no carry into the seconds) and the era edges
	ntpRun(c, &NtpBatch{Kind: "ntp", Instants: []int64{0, 999999999, 1000000000, ntpMaxNs - 1, ntpMinNs, 1700000000499999999},
		Values: []uint64{0, 1<<64 - 1, 2208988800 << 32, 1<<32 - 1}}, "corpus-ntp-edges")
	// one report after exactly 1 s at 90 kHz, packet queried 10 ticks later and across the 32-bit wrap
	srRun(c, &SRHistory{Kind: "sr", Rate: 90000, TS0: 4294967290, NTP0: 1700000000000000000, Events: []SREvent{
		{Op: "pkt", TS: 4294967290, NTP: 1700000000000000000, Eq: true, Len: 100, Now: 5000000000, K: 0},
		{Op: "report", Now: 6000000000},
		{Op: "deliver", Report: 0, Now: 6000000000},
		{Op: "query", TS: 4, K: 10},
		{Op: "query", TS: 89994, K: 90000},
	}}, "corpus-sr-basic")
}
