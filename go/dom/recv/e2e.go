package recv

import (
	"bufio"
	"bytes"
	"fmt"
	"io"
	"net"
	"os"
	"strconv"
	"strings"
	"sync"
	"time"

	"github.com/pion/rtp"

	"github.com/bluenviron/gortsplib/v5"
	"github.com/bluenviron/gortsplib/v5/pkg/base"
	"github.com/bluenviron/gortsplib/v5/pkg/description"
	"github.com/bluenviron/gortsplib/v5/pkg/format"
	"github.com/bluenviron/gortsplib/v5/pkg/liberrors"

	"verifharness/corr"
)

// End-to-end layer of C14: the receiver as the library uses it (client_format.go /
// server_session_format.go behind the UDP listeners and the TCP readers).
//
//   client-udp : library Client, UDP, reading from a scripted raw server that answers
//                DESCRIBE/SETUP/PLAY and then sends crafted RTP datagrams from the negotiated port
//   client-tcp : the same with interleaved frames
//   server-udp : library Server, a raw publisher (ANNOUNCE/SETUP/RECORD by hand) sending datagrams
//   server-tcp : the same with interleaved frames
//
// The arrival histories come from the generator of the receiver-level check (BufferSize is the
// library's default, 64).  Every packet carries a payload / timestamp / marker derived from its
// sequence number.  Oracle: (a) what the application is handed — sequence numbers in order, the sum
// of the reported losses, the receiver statistics — equals what the real rtpreceiver.Receiver yields
// for the same arrival history (that run is checked by the full receiver-level oracle and against
// the Lean model in the same check run); (b) every delivered packet has the payload, timestamp,
// marker, payload type and SSRC that were SENT for its sequence number — "a displaced packet is
// delivered" means that packet, not its number; (c) the content is still the same at the end of
// the history (a delivered packet may be retained by the application).
//
// Synchronisation without sleeps: a datagram / frame with an unknown payload type is answered by the
// library with a synchronous OnDecodeError callback in the goroutine that reads the transport, so
// when the callback of such a barrier packet fires every earlier packet has been processed completely.

const (
	e2ePT        = 96
	e2eBarrierPT = 111
	e2eSSRC      = 7
	e2eBufSize   = 64 // rtpreceiver default, used by client_format.go / server_session_format.go
)

const e2eSDP = "v=0\r\no=- 0 0 IN IP4 127.0.0.1\r\ns=Stream\r\nc=IN IP4 0.0.0.0\r\nt=0 0\r\n" +
	"m=video 0 RTP/AVP 96\r\na=control:trackID=0\r\na=rtpmap:96 private/90000\r\n"

// e2eContent is what the sender puts into the packet with sequence number seq.
func e2eContent(seq uint16) (ts uint32, marker bool, payload []byte) {
	x := uint32(seq)*2654435761 + 12345
	ts = uint32(seq)*3000 + 90000
	marker = x&0x10000 != 0
	n := 6 + int(x>>20)%48
	payload = make([]byte, n)
	payload[0] = byte(seq >> 8)
	payload[1] = byte(seq)
	for i := 2; i < n; i++ {
		x = x*1664525 + 1013904223
		payload[i] = byte(x >> 24)
	}
	return
}

func e2eMarshal(seq uint16, pt uint8) []byte {
	ts, marker, payload := e2eContent(seq)
	pkt := &rtp.Packet{Header: rtp.Header{Version: 2, PayloadType: pt, SequenceNumber: seq, Timestamp: ts, SSRC: e2eSSRC, Marker: marker}, Payload: payload}
	b, err := pkt.Marshal()
	if err != nil {
		panic(err)
	}
	return b
}

func e2eFrame(ch byte, b []byte) []byte {
	return append([]byte{'$', ch, byte(len(b) >> 8), byte(len(b))}, b...)
}

// e2eCollector gathers what the application callbacks see.
type e2eCollector struct {
	mu       sync.Mutex
	pkts     []*rtp.Packet // as delivered (retained)
	copies   []rtp.Packet  // deep copies taken inside the callback
	lost     uint64
	barriers chan struct{}
	other    []string // unexpected decode errors
}

func newCollector() *e2eCollector { return &e2eCollector{barriers: make(chan struct{}, 64)} }

func (g *e2eCollector) onPacket(p *rtp.Packet) {
	cp := rtp.Packet{Header: p.Header, Payload: append([]byte(nil), p.Payload...)}
	g.mu.Lock()
	g.pkts = append(g.pkts, p)
	g.copies = append(g.copies, cp)
	g.mu.Unlock()
}

func (g *e2eCollector) onLost(n uint64) {
	g.mu.Lock()
	g.lost += n
	g.mu.Unlock()
}

func (g *e2eCollector) onDecodeError(err error) {
	switch e := err.(type) {
	case liberrors.ErrClientRTPPacketUnknownPayloadType:
		if e.PayloadType == e2eBarrierPT {
			g.barriers <- struct{}{}
			return
		}
	}
	g.mu.Lock()
	g.other = append(g.other, err.Error())
	g.mu.Unlock()
}

func (g *e2eCollector) waitBarrier() bool {
	select {
	case <-g.barriers:
		return true
	case <-time.After(3 * time.Second):
		return false
	}
}

// e2eExpect: the real receiver on the same arrival history (receiver level).
type e2eExpect struct {
	seqs []uint16
	lost uint64
	recv uint64
	last uint16
}

// e2eStats is what the library reports for the single format of the session.
type e2eStats struct {
	ok   bool
	recv uint64
	lost uint64
	last uint16
}

// e2eSender pushes the arrival history into the transport and then a barrier.
type e2eSender interface {
	send(b []byte) error // one RTP packet (datagram or interleaved frame)
}

func e2ePush(h *RecvHistory, s e2eSender, g *e2eCollector) error {
	var bseq uint16 = 40000
	for i, sq := range h.Seqs {
		if err := s.send(e2eMarshal(sq, e2ePT)); err != nil {
			return err
		}
		// flow control on long histories: an exact barrier, so that the socket buffer cannot overflow
		if (i+1)%96 == 0 && i+1 < len(h.Seqs) {
			bseq++
			if err := s.send(e2eMarshal(bseq, e2eBarrierPT)); err != nil {
				return err
			}
			if !g.waitBarrier() {
				return fmt.Errorf("barrier after arrival %d not seen", i)
			}
		}
	}
	if err := s.send(e2eMarshal(bseq+1, e2eBarrierPT)); err != nil {
		return err
	}
	if !g.waitBarrier() {
		return fmt.Errorf("final barrier not seen")
	}
	return nil
}

// ---------------------------------------------------------------------------------------------
// scripted raw server (for the library Client)
// ---------------------------------------------------------------------------------------------

// e2eScript: the scripted raw server.  mode says how it treats the client's SETUP:
//   "plain"          – whatever the client asks for (UDP unicast, TCP, multicast) is granted
//   "auto-461"       – a UDP SETUP is refused with 461 Unsupported Transport (the client on automatic
//                      transport selection then starts again with TCP)
//   "auto-tcpanswer" – a UDP SETUP is answered with a TCP Transport header (same consequence)
type e2eScript struct {
	ln       net.Listener
	mode     string
	ip       net.IP // address the server lives on (127.0.0.1, or the multicast-capable interface's)
	group    net.IP // multicast group handed out, mport its port pair
	mport    int
	tcp      bool // negotiated: interleaved
	mcast    bool // negotiated: multicast
	rtp, rtc net.PacketConn
	mu       sync.Mutex
	wmu      sync.Mutex
	conns    []net.Conn
	conn     net.Conn // the connection PLAY arrived on
	cliPort  int
	channel  byte
	wg       sync.WaitGroup
}

var e2eGroupCounter int

// e2eMulticastIP: IPv4 address of an interface that is up and multicast-capable (nil: none).
func e2eMulticastIP() net.IP {
	ifs, err := net.Interfaces()
	if err != nil {
		return nil
	}
	for _, i := range ifs {
		if i.Flags&net.FlagUp == 0 || i.Flags&net.FlagMulticast == 0 || i.Flags&net.FlagLoopback != 0 {
			continue
		}
		addrs, _ := i.Addrs()
		for _, a := range addrs {
			if n, ok := a.(*net.IPNet); ok && n.IP.To4() != nil {
				return n.IP.To4()
			}
		}
	}
	return nil
}

func startE2EScript(mode string, mcast bool) (*e2eScript, error) {
	s := &e2eScript{mode: mode, ip: net.IPv4(127, 0, 0, 1)}
	var err error
	if mcast {
		if s.ip = e2eMulticastIP(); s.ip == nil {
			return nil, errNoMulticast
		}
		if s.mport, err = freeUDPPairE2E(); err != nil {
			return nil, err
		}
		e2eGroupCounter++
		s.group = net.IPv4(239, 77, byte(1+os.Getpid()%250), byte(1+e2eGroupCounter%250))
		// the client accepts multicast datagrams only from the server's address AND from the port pair
		if s.rtp, err = net.ListenPacket("udp", fmt.Sprintf("%s:%d", s.ip, s.mport)); err != nil {
			return nil, err
		}
		if s.rtc, err = net.ListenPacket("udp", fmt.Sprintf("%s:%d", s.ip, s.mport+1)); err != nil {
			s.rtp.Close()
			return nil, err
		}
	} else {
		if s.rtp, err = net.ListenPacket("udp", "127.0.0.1:0"); err != nil {
			return nil, err
		}
		if s.rtc, err = net.ListenPacket("udp", "127.0.0.1:0"); err != nil {
			s.rtp.Close()
			return nil, err
		}
	}
	if s.ln, err = net.Listen("tcp", s.ip.String()+":0"); err != nil {
		s.rtp.Close()
		s.rtc.Close()
		return nil, err
	}
	s.wg.Add(1)
	go func() {
		defer s.wg.Done()
		for { // a client that switches transport starts again on a new connection
			c, err := s.ln.Accept()
			if err != nil {
				return
			}
			s.mu.Lock()
			s.conns = append(s.conns, c)
			s.mu.Unlock()
			s.wg.Add(1)
			go func() {
				defer s.wg.Done()
				s.serve(c)
			}()
		}
	}()
	return s, nil
}

var errNoMulticast = fmt.Errorf("no multicast-capable interface")

func readRTSPRequest(br *bufio.Reader) (method, url string, hd map[string]string, body []byte, err error) {
	for {
		var b []byte
		if b, err = br.Peek(1); err != nil {
			return
		}
		if b[0] == '$' {
			hdr := make([]byte, 4)
			if _, err = io.ReadFull(br, hdr); err != nil {
				return
			}
			if _, err = io.CopyN(io.Discard, br, int64(hdr[2])<<8|int64(hdr[3])); err != nil {
				return
			}
			continue
		}
		break
	}
	var first string
	if first, err = br.ReadString('\n'); err != nil {
		return
	}
	hd = map[string]string{}
	for {
		var l string
		if l, err = br.ReadString('\n'); err != nil {
			return
		}
		l = strings.TrimSpace(l)
		if l == "" {
			break
		}
		if i := strings.Index(l, ":"); i > 0 {
			hd[strings.ToLower(l[:i])] = strings.TrimSpace(l[i+1:])
		}
	}
	if n, _ := strconv.Atoi(hd["content-length"]); n > 0 {
		body = make([]byte, n)
		if _, err = io.ReadFull(br, body); err != nil {
			return
		}
	}
	f := strings.Fields(first)
	if len(f) >= 2 {
		method, url = f[0], f[1]
	}
	return
}

func (s *e2eScript) serve(c net.Conn) {
	br := bufio.NewReader(c)
	for {
		method, url, hd, _, err := readRTSPRequest(br)
		if err != nil {
			return
		}
		if strings.HasPrefix(method, "RTSP/") || method == "" {
			continue
		}
		var res bytes.Buffer
		fmt.Fprintf(&res, "RTSP/1.0 200 OK\r\nCSeq: %s\r\n", hd["cseq"])
		var body []byte
		switch method {
		case "OPTIONS":
			res.WriteString("Public: DESCRIBE, SETUP, PLAY, PAUSE, GET_PARAMETER, TEARDOWN\r\n")
		case "DESCRIBE":
			fmt.Fprintf(&res, "Content-Base: %s/\r\nContent-Type: application/sdp\r\n", url)
			body = []byte(e2eSDP)
		case "SETUP":
			tr := hd["transport"]
			wantsTCP := strings.Contains(tr, "/TCP")
			switch {
			case !wantsTCP && s.mode == "auto-461":
				res.Reset()
				fmt.Fprintf(&res, "RTSP/1.0 461 Unsupported Transport\r\nCSeq: %s\r\n", hd["cseq"])
			case wantsTCP || s.mode == "auto-tcpanswer":
				il := "0-1"
				for _, p := range strings.Split(tr, ";") {
					if strings.HasPrefix(p, "interleaved=") {
						il = strings.TrimPrefix(p, "interleaved=")
					}
				}
				ch, _ := strconv.Atoi(strings.Split(il, "-")[0])
				s.mu.Lock()
				s.channel = byte(ch)
				s.tcp = wantsTCP
				s.mu.Unlock()
				fmt.Fprintf(&res, "Transport: RTP/AVP/TCP;unicast;interleaved=%s\r\nSession: 12345678\r\n", il)
			case strings.Contains(tr, "multicast"):
				if s.group == nil {
					res.Reset()
					fmt.Fprintf(&res, "RTSP/1.0 461 Unsupported Transport\r\nCSeq: %s\r\n", hd["cseq"])
					break
				}
				s.mu.Lock()
				s.mcast = true
				s.mu.Unlock()
				fmt.Fprintf(&res, "Transport: RTP/AVP;multicast;destination=%s;port=%d-%d;ttl=1\r\nSession: 12345678\r\n", s.group, s.mport, s.mport+1)
			default:
				cport := ""
				for _, p := range strings.Split(tr, ";") {
					if strings.HasPrefix(p, "client_port=") {
						cport = strings.TrimPrefix(p, "client_port=")
					}
				}
				cp, _ := strconv.Atoi(strings.Split(cport, "-")[0])
				s.mu.Lock()
				s.cliPort = cp
				s.mu.Unlock()
				fmt.Fprintf(&res, "Transport: RTP/AVP;unicast;client_port=%s;server_port=%d-%d\r\nSession: 12345678\r\n", cport,
					s.rtp.LocalAddr().(*net.UDPAddr).Port, s.rtc.LocalAddr().(*net.UDPAddr).Port)
			}
		case "PLAY":
			s.mu.Lock()
			s.conn = c
			s.mu.Unlock()
			res.WriteString("Session: 12345678\r\n")
		default:
			res.WriteString("Session: 12345678\r\n")
		}
		fmt.Fprintf(&res, "Content-Length: %d\r\n\r\n", len(body))
		res.Write(body)
		s.wmu.Lock()
		c.SetWriteDeadline(time.Now().Add(3 * time.Second))
		_, err = c.Write(res.Bytes())
		s.wmu.Unlock()
		if err != nil {
			return
		}
	}
}

func (s *e2eScript) negotiated() string {
	s.mu.Lock()
	defer s.mu.Unlock()
	switch {
	case s.tcp:
		return "tcp"
	case s.mcast:
		return "multicast"
	}
	return "udp"
}

func (s *e2eScript) send(b []byte) error {
	s.mu.Lock()
	c, cp, ch, tcp, mcast := s.conn, s.cliPort, s.channel, s.tcp, s.mcast
	s.mu.Unlock()
	switch {
	case tcp:
		if c == nil {
			return fmt.Errorf("no connection has asked for PLAY")
		}
		s.wmu.Lock()
		defer s.wmu.Unlock()
		c.SetWriteDeadline(time.Now().Add(3 * time.Second))
		_, err := c.Write(e2eFrame(ch, b))
		return err
	case mcast:
		_, err := s.rtp.WriteTo(b, &net.UDPAddr{IP: s.group, Port: s.mport})
		return err
	}
	_, err := s.rtp.WriteTo(b, &net.UDPAddr{IP: net.IPv4(127, 0, 0, 1), Port: cp})
	return err
}

func (s *e2eScript) close() {
	s.ln.Close()
	s.mu.Lock()
	for _, c := range s.conns {
		c.Close()
	}
	s.mu.Unlock()
	s.rtp.Close()
	s.rtc.Close()
	s.wg.Wait()
}

// e2eClientPath describes how the transport of a client path is chosen and what must come out.
type e2eClientPath struct {
	proto      *gortsplib.Protocol // Client.Protocol (nil: automatic selection)
	mode       string              // behaviour of the scripted server
	mcast      bool
	negotiated string // what the session must end up with
}

func protoPtr(p gortsplib.Protocol) *gortsplib.Protocol { return &p }

var e2eClientPaths = map[string]e2eClientPath{
	"client-udp":            {protoPtr(gortsplib.ProtocolUDP), "plain", false, "udp"},
	"client-tcp":            {protoPtr(gortsplib.ProtocolTCP), "plain", false, "tcp"},
	"client-auto-udp":       {nil, "plain", false, "udp"},             // automatic selection, the server grants UDP
	"client-auto-461":       {nil, "auto-461", false, "tcp"},          // automatic selection, UDP refused with 461
	"client-auto-tcpanswer": {nil, "auto-tcpanswer", false, "tcp"},    // automatic selection, UDP answered with TCP
	"client-multicast":      {protoPtr(gortsplib.ProtocolUDPMulticast), "plain", true, "multicast"},
}

// e2eUnreliable: the receiver mode the NEGOTIATED transport of a path demands.
func e2eUnreliable(path string) bool {
	if cp, ok := e2eClientPaths[path]; ok {
		return cp.negotiated != "tcp"
	}
	return path == "server-udp"
}

// e2eClientOnce: one history through a library Client.
func e2eClientOnce(h *RecvHistory) (*e2eCollector, e2eStats, error) {
	g := newCollector()
	cp := e2eClientPaths[h.E2E]
	s, err := startE2EScript(cp.mode, cp.mcast)
	if err != nil {
		return g, e2eStats{}, err
	}
	defer s.close()
	addr := s.ln.Addr().String()
	c := &gortsplib.Client{
		Scheme:        "rtsp",
		Host:          addr,
		Protocol:      cp.proto,
		ReadTimeout:   5 * time.Second,
		WriteTimeout:  5 * time.Second,
		OnPacketsLost: g.onLost,
		OnDecodeError: g.onDecodeError,
	}
	if err = c.Start(); err != nil {
		return g, e2eStats{}, err
	}
	defer c.Close()
	u, _ := base.ParseURL("rtsp://" + addr + "/stream")
	desc, _, err := c.Describe(u)
	if err != nil {
		return g, e2eStats{}, err
	}
	if err = c.SetupAll(desc.BaseURL, desc.Medias); err != nil {
		return g, e2eStats{}, err
	}
	c.OnPacketRTPAny(func(_ *description.Media, _ format.Format, p *rtp.Packet) { g.onPacket(p) })
	if _, err = c.Play(nil); err != nil {
		return g, e2eStats{}, err
	}
	if got := s.negotiated(); got != cp.negotiated {
		return g, e2eStats{}, fmt.Errorf("negotiated transport %s, the path expects %s", got, cp.negotiated)
	}
	if err = e2ePush(h, s, g); err != nil {
		return g, e2eStats{}, err
	}
	var st e2eStats
	if cs := c.Stats(); cs != nil {
		for _, m := range cs.Session.Medias {
			for _, f := range m.Formats {
				st = e2eStats{true, f.InboundRTPPackets, f.InboundRTPPacketsLost, f.InboundRTPPacketsLastSequenceNumber}
			}
		}
	}
	return g, st, nil
}

// ---------------------------------------------------------------------------------------------
// library Server in record mode + raw publisher
// ---------------------------------------------------------------------------------------------

type e2eServer struct {
	srv  *gortsplib.Server
	addr string
	mu   sync.Mutex
	cur  *e2eCollector
	sess *gortsplib.ServerSession
}

func (f *e2eServer) collector() *e2eCollector {
	f.mu.Lock()
	defer f.mu.Unlock()
	return f.cur
}

func (f *e2eServer) OnAnnounce(*gortsplib.ServerHandlerOnAnnounceCtx) (*base.Response, error) {
	return &base.Response{StatusCode: base.StatusOK}, nil
}

func (f *e2eServer) OnSetup(*gortsplib.ServerHandlerOnSetupCtx) (*base.Response, *gortsplib.ServerStream, error) {
	return &base.Response{StatusCode: base.StatusOK}, nil, nil
}

func (f *e2eServer) OnRecord(ctx *gortsplib.ServerHandlerOnRecordCtx) (*base.Response, error) {
	g := f.collector()
	f.mu.Lock()
	f.sess = ctx.Session
	f.mu.Unlock()
	ctx.Session.OnPacketRTPAny(func(_ *description.Media, _ format.Format, p *rtp.Packet) { g.onPacket(p) })
	return &base.Response{StatusCode: base.StatusOK}, nil
}

func (f *e2eServer) OnPacketsLost(ctx *gortsplib.ServerHandlerOnPacketsLostCtx) {
	f.collector().onLost(ctx.Lost)
}

func (f *e2eServer) OnDecodeError(ctx *gortsplib.ServerHandlerOnDecodeErrorCtx) {
	f.collector().onDecodeError(ctx.Error)
}

func freeUDPPairE2E() (int, error) {
	for i := 0; i < 200; i++ {
		a, err := net.ListenPacket("udp", "127.0.0.1:0")
		if err != nil {
			return 0, err
		}
		p := a.LocalAddr().(*net.UDPAddr).Port
		a.Close()
		p &^= 1
		b1, err := net.ListenPacket("udp", fmt.Sprintf("127.0.0.1:%d", p))
		if err != nil {
			continue
		}
		b2, err := net.ListenPacket("udp", fmt.Sprintf("127.0.0.1:%d", p+1))
		b1.Close()
		if err != nil {
			continue
		}
		b2.Close()
		return p, nil
	}
	return 0, fmt.Errorf("no free UDP port pair")
}

func startE2EServer() (*e2eServer, error) {
	var lastErr error
	for try := 0; try < 20; try++ {
		p, err := freeUDPPairE2E()
		if err != nil {
			return nil, err
		}
		f := &e2eServer{}
		f.srv = &gortsplib.Server{
			Handler:        f,
			RTSPAddress:    "127.0.0.1:0",
			UDPRTPAddress:  fmt.Sprintf("127.0.0.1:%d", p),
			UDPRTCPAddress: fmt.Sprintf("127.0.0.1:%d", p+1),
			ReadTimeout:    5 * time.Second,
			WriteTimeout:   5 * time.Second,
		}
		if err = f.srv.Start(); err != nil {
			lastErr = err
			continue
		}
		f.addr = f.srv.NetListener().Addr().String()
		return f, nil
	}
	return nil, lastErr
}

// e2ePublisher is a raw RTSP publisher.
type e2ePublisher struct {
	c       net.Conn
	br      *bufio.Reader
	cseq    int
	session string
	tcp     bool
	rtp     net.PacketConn
	rtc     net.PacketConn
	srvPort int
}

func (p *e2ePublisher) do(method, url, extra string, body string) (map[string]string, error) {
	p.cseq++
	var req bytes.Buffer
	fmt.Fprintf(&req, "%s %s RTSP/1.0\r\nCSeq: %d\r\n", method, url, p.cseq)
	if p.session != "" {
		fmt.Fprintf(&req, "Session: %s\r\n", p.session)
	}
	req.WriteString(extra)
	if body != "" {
		fmt.Fprintf(&req, "Content-Length: %d\r\n", len(body))
	}
	req.WriteString("\r\n")
	req.WriteString(body)
	p.c.SetDeadline(time.Now().Add(5 * time.Second))
	defer p.c.SetDeadline(time.Time{})
	if _, err := p.c.Write(req.Bytes()); err != nil {
		return nil, err
	}
	first, err := p.br.ReadString('\n')
	if err != nil {
		return nil, err
	}
	hd := map[string]string{}
	for {
		l, err := p.br.ReadString('\n')
		if err != nil {
			return nil, err
		}
		l = strings.TrimSpace(l)
		if l == "" {
			break
		}
		if i := strings.Index(l, ":"); i > 0 {
			hd[strings.ToLower(l[:i])] = strings.TrimSpace(l[i+1:])
		}
	}
	if n, _ := strconv.Atoi(hd["content-length"]); n > 0 {
		if _, err = io.CopyN(io.Discard, p.br, int64(n)); err != nil {
			return nil, err
		}
	}
	if f := strings.Fields(first); len(f) < 2 || f[1] != "200" {
		return hd, fmt.Errorf("%s: %s", method, strings.TrimSpace(first))
	}
	if v := hd["session"]; v != "" && p.session == "" {
		p.session = strings.Split(v, ";")[0]
	}
	return hd, nil
}

func (p *e2ePublisher) send(b []byte) error {
	if p.tcp {
		p.c.SetWriteDeadline(time.Now().Add(3 * time.Second))
		_, err := p.c.Write(e2eFrame(0, b))
		return err
	}
	_, err := p.rtp.WriteTo(b, &net.UDPAddr{IP: net.IPv4(127, 0, 0, 1), Port: p.srvPort})
	return err
}

func (p *e2ePublisher) close() {
	if p.c != nil {
		p.c.Close()
	}
	if p.rtp != nil {
		p.rtp.Close()
	}
	if p.rtc != nil {
		p.rtc.Close()
	}
}

var e2ePathCounter int

// e2eServerOnce: one history through the library Server (record).
func e2eServerOnce(f *e2eServer, h *RecvHistory, tcp bool) (*e2eCollector, e2eStats, error) {
	g := newCollector()
	f.mu.Lock()
	f.cur = g
	f.sess = nil
	f.mu.Unlock()
	e2ePathCounter++
	url := fmt.Sprintf("rtsp://%s/e2e%d", f.addr, e2ePathCounter)
	p := &e2ePublisher{tcp: tcp}
	defer p.close()
	var err error
	if p.c, err = net.DialTimeout("tcp", f.addr, 3*time.Second); err != nil {
		return g, e2eStats{}, err
	}
	p.br = bufio.NewReader(p.c)
	if _, err = p.do("ANNOUNCE", url, "Content-Type: application/sdp\r\n", e2eSDP); err != nil {
		return g, e2eStats{}, err
	}
	if tcp {
		_, err = p.do("SETUP", url+"/trackID=0", "Transport: RTP/AVP/TCP;unicast;interleaved=0-1;mode=record\r\n", "")
	} else {
		var port int
		if port, err = freeUDPPairE2E(); err != nil {
			return g, e2eStats{}, err
		}
		if p.rtp, err = net.ListenPacket("udp", fmt.Sprintf("127.0.0.1:%d", port)); err != nil {
			return g, e2eStats{}, err
		}
		if p.rtc, err = net.ListenPacket("udp", fmt.Sprintf("127.0.0.1:%d", port+1)); err != nil {
			return g, e2eStats{}, err
		}
		var hd map[string]string
		hd, err = p.do("SETUP", url+"/trackID=0", fmt.Sprintf("Transport: RTP/AVP;unicast;client_port=%d-%d;mode=record\r\n", port, port+1), "")
		if err == nil {
			for _, part := range strings.Split(hd["transport"], ";") {
				if strings.HasPrefix(part, "server_port=") {
					p.srvPort, _ = strconv.Atoi(strings.Split(strings.TrimPrefix(part, "server_port="), "-")[0])
				}
			}
			if p.srvPort == 0 {
				err = fmt.Errorf("SETUP answer without server_port: %q", hd["transport"])
			}
		}
	}
	if err != nil {
		return g, e2eStats{}, err
	}
	if _, err = p.do("RECORD", url, "", ""); err != nil {
		return g, e2eStats{}, err
	}
	if err = e2ePush(h, p, g); err != nil {
		return g, e2eStats{}, err
	}
	var st e2eStats
	f.mu.Lock()
	ss := f.sess
	f.mu.Unlock()
	if ss != nil {
		if s := ss.Stats(); s != nil {
			for _, m := range s.Medias {
				for _, fo := range m.Formats {
					st = e2eStats{true, fo.InboundRTPPackets, fo.InboundRTPPacketsLost, fo.InboundRTPPacketsLastSequenceNumber}
				}
			}
		}
	}
	return g, st, nil
}

// ---------------------------------------------------------------------------------------------
// oracle
// ---------------------------------------------------------------------------------------------

type e2eEnv struct {
	srv *e2eServer
}

func (e *e2eEnv) close() {
	if e.srv != nil {
		e.srv.srv.Close()
	}
}

func (e *e2eEnv) once(h *RecvHistory) (*e2eCollector, e2eStats, error) {
	switch h.E2E {
	case "server-udp", "server-tcp":
		if e.srv == nil {
			s, err := startE2EServer()
			if err != nil {
				return newCollector(), e2eStats{}, err
			}
			e.srv = s
		}
		return e2eServerOnce(e.srv, h, h.E2E == "server-tcp")
	}
	if _, ok := e2eClientPaths[h.E2E]; ok {
		return e2eClientOnce(h)
	}
	return newCollector(), e2eStats{}, fmt.Errorf("unknown e2e path %q", h.E2E)
}

func e2eSamePacket(p *rtp.Packet) string {
	ts, marker, payload := e2eContent(p.SequenceNumber)
	switch {
	case !bytes.Equal(p.Payload, payload):
		return fmt.Sprintf("payload %x, sent %x", p.Payload, payload)
	case p.Timestamp != ts:
		return fmt.Sprintf("timestamp %d, sent %d", p.Timestamp, ts)
	case p.Marker != marker:
		return fmt.Sprintf("marker %v, sent %v", p.Marker, marker)
	case p.PayloadType != e2ePT || p.SSRC != e2eSSRC:
		return fmt.Sprintf("payload type %d ssrc %d", p.PayloadType, p.SSRC)
	}
	return ""
}

// e2eRun runs one history end to end and evaluates the oracle.  h.E2E selects the path; h.Unreliable
// must be true for the UDP paths and false for the TCP paths (that is how the library configures the
// receiver); h.Size must be the library's buffer size.
func e2eRun(c *corr.Ctx, env *e2eEnv, h *RecvHistory, name string) {
	viol := func(clause, key, detail string) {
		c.Violate(corr.Violation{Property: "C14", Clause: clause, Key: key, Where: "client_format.go / server_session_format.go (" + h.E2E + ")", Input: h, Detail: detail})
	}
	exp := recvUnit(h)
	udp := e2eUnreliable(h.E2E) // datagram transport
	attempts := 1
	if udp {
		attempts = 3 // a datagram dropped by the kernel is not a finding: a delivery mismatch must repeat
	}
	var mismatch, infra string
	for a := 0; a < attempts; a++ {
		g, st, err := env.once(h)
		g.mu.Lock()
		pkts, copies, lost, other := g.pkts, g.copies, g.lost, g.other
		g.mu.Unlock()
		// (b) content at the moment of delivery, (c) content of the retained packets afterwards
		for i := range copies {
			if d := e2eSamePacket(&copies[i]); d != "" {
				viol("a delivered packet carries the payload, timestamp and marker that were sent for its sequence number",
					"recv-e2e-content", fmt.Sprintf("%s: delivery %d, seq %d: %s", name, i, copies[i].SequenceNumber, d))
				return
			}
		}
		for i, p := range pkts {
			if d := e2eSamePacket(p); d != "" {
				viol("a delivered packet keeps its content after delivery (the application may retain it)",
					"recv-e2e-retained", fmt.Sprintf("%s: delivery %d, seq %d changed after delivery: %s", name, i, p.SequenceNumber, d))
				return
			}
		}
		if err != nil {
			infra = err.Error()
			mismatch = ""
			continue
		}
		infra = ""
		// (a) the application sees what the receiver yields for this arrival history
		var got []uint16
		for i := range copies {
			got = append(got, copies[i].SequenceNumber)
		}
		mismatch = ""
		switch {
		case len(other) != 0:
			mismatch = fmt.Sprintf("unexpected decode errors: %v", other)
		case !equalU16(got, exp.seqs):
			mismatch = fmt.Sprintf("delivered sequence numbers %v, receiver-level run of the same history %v", got, exp.seqs)
		case lost != exp.lost:
			mismatch = fmt.Sprintf("reported lost %d, receiver-level run %d", lost, exp.lost)
		case st.ok && (st.recv != exp.recv || st.lost != exp.lost || st.last != exp.last):
			mismatch = fmt.Sprintf("session statistics %d/%d/%d, receiver-level run %d/%d/%d", st.recv, st.lost, st.last, exp.recv, exp.lost, exp.last)
		}
		if mismatch == "" {
			break
		}
	}
	c.CountOnly("e2e "+h.E2E+" "+fmt.Sprint(h.Seqs), len(h.Seqs) > 1)
	c.Dist("e2e=" + h.E2E)
	if mismatch != "" {
		viol("what the application is handed end to end (order, reported losses, statistics) is what the receiver yields for the arrival history",
			"recv-e2e-delivery", name+": "+mismatch)
	} else if infra != "" {
		c.Note("e2e " + name + " (" + h.E2E + "): could not be run: " + infra)
		c.Dist("e2e-not-run")
	}
}

func equalU16(a, b []uint16) bool {
	if len(a) != len(b) {
		return false
	}
	for i := range a {
		if a[i] != b[i] {
			return false
		}
	}
	return true
}

// every way a transport can come about: client {explicit UDP, explicit TCP, automatic → UDP granted,
// automatic → UDP refused (461) → TCP, automatic → UDP answered with TCP → TCP, explicit multicast},
// server record {UDP, TCP}.  The receiver must run in the mode of the NEGOTIATED transport.
var e2ePaths = []string{"client-udp", "server-udp", "client-tcp", "server-tcp",
	"client-auto-udp", "client-auto-461", "client-auto-tcpanswer", "client-multicast"}

// e2eAll: the end-to-end part of the domain run.
func e2eAll(c *corr.Ctx) {
	env := &e2eEnv{}
	defer env.close()
	run := func(h *RecvHistory, name string) {
		c.Guard("C14", "recv-e2e", h, 60*time.Second, func() { e2eRun(c, env, h, name) })
	}
	paths := e2ePaths
	if e2eMulticastIP() == nil { // no multicast-capable interface in this sandbox
		paths = nil
		for _, p := range e2ePaths {
			if p != "client-multicast" {
				paths = append(paths, p)
			}
		}
		c.Dist("e2e-multicast-skipped")
	}
	// corpus: a packet parked behind a missing one, then a different (shorter / longer) datagram, then
	// the missing packet: the parked packet is delivered after its read buffer could have been reused
	for _, path := range paths {
		h := &RecvHistory{Unreliable: e2eUnreliable(path), Size: e2eBufSize, E2E: path,
			Seqs: []uint16{65533, 65535, 0, 1, 65534, 2, 4, 5, 3, 6}, IDs: []int{0, 2, 3, 4, 1, 5, 7, 8, 6, 9}, Orig: []int{0, 2, 3, 4, 1, 5, 7, 8, 6, 9}}
		recvRun(c, cloneForUnit(h), "e2e-corpus-unit-"+path)
		run(h, "e2e-corpus-"+path)
	}
	n := c.N(40, 300)
	for i := 0; i < n; i++ {
		for _, path := range paths {
			h := genRecvHistoryWith(c, e2eBufSize)
			if len(h.Seqs) == 0 {
				continue
			}
			h.E2E = path
			h.Unreliable = e2eUnreliable(path)
			h.ReportAt = nil
			// the receiver-level oracle and the model correspondence on exactly this history
			recvRun(c, cloneForUnit(h), fmt.Sprintf("e2e-unit-%s-%d", path, i))
			run(h, fmt.Sprintf("e2e-%s-%d", path, i))
		}
	}
}

func cloneForUnit(h *RecvHistory) *RecvHistory {
	u := *h
	u.E2E = ""
	if len(u.Seqs) > 0 {
		u.ReportAt = []int{len(u.Seqs) - 1}
	}
	return &u
}
