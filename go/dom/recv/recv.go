package recv

import (
	"encoding/json"
	"fmt"
	"time"

	"github.com/pion/rtcp"
	"github.com/pion/rtp"

	"github.com/bluenviron/gortsplib/v5/pkg/rtpreceiver"

	"verifharness/corr"
)

// Domain recv: pkg/rtpreceiver against Model/Receiver.lean, and the C14 property oracle.



// RecvHistory is the replayable input of one receiver case.
type RecvHistory struct {
	Unreliable bool     `json:"unreliable"`
	Size       int      `json:"size"`
	Seqs       []uint16 `json:"seqs"` // arrival order
	IDs        []int    `json:"ids"`  // identity of each arrival (duplicates share an id)
	Orig       []int    `json:"orig"` // position in the sender's stream, -1 after a restart marker
	ReportAt   []int    `json:"report_at,omitempty"`
	Conc       string   `json:"conc,omitempty"`      // concurrency case (conc.go): probe | stress-hook | stress-ticker
	ConcSeed   uint64   `json:"conc_seed,omitempty"` // its own random stream (gaps, start)
	ConcN      int      `json:"conc_n,omitempty"`    // probe: rounds; stress: packets
	E2E        string   `json:"e2e,omitempty"` // end-to-end path (e2e.go): client-udp | client-tcp | server-udp | server-tcp
}

type recvStepOut struct {
	ids    []int
	seqs   []uint16
	lost   uint64
	stRecv uint64
	stLost uint64
	stLast uint16
}

// recvRun runs one history under the watchdog: the receiver must answer every packet promptly
// (its `for {}` scan in reorder() terminates only while the window invariant holds).
func recvRun(c *corr.Ctx, h *RecvHistory, name string) {
	c.Guard("C14", "recv", h, 20*time.Second, func() { recvRunInner(c, h, name) })
}

func recvRunInner(c *corr.Ctx, h *RecvHistory, name string) {
	rr := &rtpreceiver.Receiver{
		ClockRate:            90000,
		UnrealiableTransport: h.Unreliable,
		BufferSize:           h.Size,
		Period:               time.Hour,
		TimeNow:              func() time.Time { return time.Unix(1000, 0) },
		WritePacketRTCP:      func(rtcp.Packet) {},
	}
	if err := rr.Initialize(); err != nil {
		panic(err)
	}
	defer rr.Close()

	cs := corr.Case{Name: name, Nontrivial: len(h.Seqs) > 1}
	cs.Ops = append(cs.Ops, fmt.Sprintf("recv init %s %d", corr.B(h.Unreliable), h.Size))
	cs.Impl = append(cs.Impl, "ok")

	ptrID := map[*rtp.Packet]int{}
	reportAt := map[int]bool{}
	for _, r := range h.ReportAt {
		reportAt[r] = true
	}
	sys := time.Unix(1000, 0)

	// property-oracle state
	deliveredIDs := map[int]bool{}
	everDelivered := map[int]bool{}
	var totalDelivered, totalLost uint64
	haveLast := false
	var last uint16
	negRun := 0
	var ext uint64
	extKnown := false
	type pend struct {
		id  int
		seq uint16
	}
	var pending []pend // accepted into the window, not yet delivered
	// loss-free, boundedly displaced history (hypothesis of Lean displacement_without_loss_from_init,
	// decided on the input alone): everything must be delivered, once, in stream order, lost = 0
	lfb := lossFreeBounded(h)
	if lfb {
		c.Dist("lossfree-bounded-displacement=1")
	}
	var allOrig []int // stream positions of everything delivered, in delivery order
	origOfID := map[int]int{}
	for i, id := range h.IDs {
		if _, ok := origOfID[id]; !ok {
			origOfID[id] = h.Orig[i]
		}
	}
	// since the previous report (for the fraction-lost clause)
	var sinceLost, sinceDelivered uint64
	viol := func(clause, key, detail string) {
		c.Violate(corr.Violation{Property: "C14", Clause: clause, Key: key, Where: "pkg/rtpreceiver", Input: h, Detail: detail})
	}

	for i, sq := range h.Seqs {
		pkt := &rtp.Packet{Header: rtp.Header{Version: 2, SequenceNumber: sq, SSRC: 7, Timestamp: uint32(i)}, Payload: []byte{1}}
		ptrID[pkt] = h.IDs[i]
		pkts, lost := rr.ProcessPacket2(pkt, sys, true)
		st := rr.Stats()
		var ids []int
		var seqs []uint16
		for _, p := range pkts {
			id, ok := ptrID[p]
			if !ok {
				viol("delivered packets were written by the sender", "recv-foreign-packet", fmt.Sprintf("step %d returned a packet that was never passed in", i))
				id = -1
			}
			ids = append(ids, id)
			seqs = append(seqs, p.SequenceNumber)
		}
		cs.Ops = append(cs.Ops, fmt.Sprintf("recv pkt %d %d", sq, h.IDs[i]))
		cs.Impl = append(cs.Impl, fmt.Sprintf("out %s lost %d st %d %d %d", corr.Ints(ids), lost, st.Received, st.Lost, st.LastSequenceNumber))

		// ---- property oracle (C14), evaluated on the implementation's outputs only ----
		restart := false
		flushArrival := false
		rel := 0
		if haveLast && h.Unreliable {
			rel = int(int16(sq - last - 1))
			if rel < 0 {
				negRun++
				if negRun > h.Size {
					restart = true
					negRun = 0
				}
			} else {
				negRun = 0
				flushArrival = rel >= h.Size
			}
		}
		// accounting of accepted-into-window packets
		if haveLast && h.Unreliable && rel > 0 && rel < h.Size && len(pkts) == 0 {
			dup := false
			for _, p := range pending {
				if p.seq == sq {
					dup = true
				}
			}
			if !dup {
				pending = append(pending, pend{h.IDs[i], sq})
			}
		}
		prev := last
		if restart && len(seqs) > 0 {
			deliveredIDs = map[int]bool{} // new epoch: "except across a detected sender restart"
		}
		for k, s := range seqs {
			// extended highest sequence number, kept independently as long as every delivery is a
			// forward step of 1..2^15 (backward jumps of the reliable mode / restarts end the tracking)
			if !haveLast {
				ext, extKnown = uint64(s), true
			} else if extKnown {
				if d := uint16(s - prev); d >= 1 && d <= 32768 && !(restart && k == 0) {
					ext += uint64(d)
				} else {
					extKnown = false
				}
			}
			if haveLast && h.Unreliable && !(restart && k == 0) {
				// "ahead" in the receiver's own sense: 1..2^15 positions after prev (Lean: Fwd)
				if int16(s-prev-1) < 0 {
					viol("delivered sequence numbers strictly increase modulo 2^16 (except across a detected restart)",
						"recv-order", fmt.Sprintf("step %d delivered seq %d after %d", i, s, prev))
				}
			}
			if deliveredIDs[ids[k]] && h.Unreliable {
				viol("never a duplicate", "recv-duplicate", fmt.Sprintf("step %d delivered packet id %d twice", i, ids[k]))
			}
			deliveredIDs[ids[k]] = true
			everDelivered[ids[k]] = true
			prev = s
		}
		if haveLast && len(seqs) > 0 && !restart {
			var skipped uint64
			p := last
			for _, s := range seqs {
				skipped += uint64(uint16(s - p - 1))
				p = s
			}
			if skipped != lost {
				viol("reported lost = sequence numbers skipped between consecutively delivered packets",
					"recv-lost-count", fmt.Sprintf("step %d: lost=%d skipped=%d (last=%d delivered=%v)", i, lost, skipped, last, seqs))
			}
		} else if len(seqs) == 0 && lost != 0 {
			viol("reported lost = skipped", "recv-lost-count", fmt.Sprintf("step %d: lost=%d with nothing delivered", i, lost))
		}
		if len(seqs) > 0 {
			newLast := seqs[len(seqs)-1]
			// every pending packet the origin moved past must be in this step's output
			var keep []pend
			for _, p := range pending {
				passed := restart || int16(p.seq-newLast) <= 0
				if !passed {
					keep = append(keep, p)
					continue
				}
				if restart {
					continue // a detected restart discards the buffer (stated exception)
				}
				found := false
				for _, id := range ids {
					if id == p.id {
						found = true
					}
				}
				if !found {
					viol("a packet that arrives inside the reorder window is delivered, not dropped",
						"recv-window-drop", fmt.Sprintf("step %d moved past buffered seq %d (id %d) without delivering it", i, p.seq, p.id))
				}
			}
			pending = keep
			last = newLast
			haveLast = true
		}
		totalDelivered += uint64(len(seqs))
		totalLost += lost
		sinceDelivered += uint64(len(seqs))
		sinceLost += lost
		if lfb {
			for _, id := range ids {
				allOrig = append(allOrig, origOfID[id])
			}
			if lost != 0 {
				viol("a packet displaced by fewer positions than the buffer size is delivered (loss-free history: nothing is reported lost)",
					"recv-displaced-not-delivered", fmt.Sprintf("step %d reported lost=%d in a loss-free history with displacement < %d", i, lost, h.Size))
			}
		}
		if st.Received != totalDelivered || st.Lost != totalLost || (haveLast && st.LastSequenceNumber != last) {
			viol("statistics agree with the delivery history", "recv-stats",
				fmt.Sprintf("step %d: stats %d/%d/%d, history %d/%d/%d", i, st.Received, st.Lost, st.LastSequenceNumber, totalDelivered, totalLost, last))
		}
		// displacement clause in the property's own (original stream) sense
		if h.Unreliable && len(pkts) == 0 && haveLast && rel < 0 && h.Orig[i] >= 0 && !everDelivered[h.IDs[i]] {
			maxBefore := -1
			for j := 0; j < i; j++ {
				if h.Orig[j] > maxBefore && h.Orig[j] >= 0 {
					maxBefore = h.Orig[j]
				}
			}
			d := maxBefore - h.Orig[i]
			// packets sent before the first packet the receiver ever saw are outside the clause: the
			// first arrival defines the origin of the stream (DESIGN.md §5 C14, interpretation)
			if d > 0 && d < h.Size && !restartedBetween(h, i) && h.Orig[i] > h.Orig[0] {
				// dropped although displaced by fewer than Size positions
				if recvPassedByFlush(h, i) {
					viol("a packet displaced by fewer positions than the buffer size is delivered",
						"recv-late-after-loss-flush", fmt.Sprintf("arrival %d (seq %d, %d late) was skipped by a whole-buffer flush", i, sq, d))
				} else {
					viol("a packet displaced by fewer positions than the buffer size is delivered",
						"recv-late-drop", fmt.Sprintf("arrival %d (seq %d, %d late) dropped without a flush", i, sq, d))
				}
			}
		}
		_ = flushArrival

		if reportAt[i] {
			rep := rr.VerifReport()
			cs.Ops = append(cs.Ops, "recv report")
			if rep == nil {
				cs.Impl = append(cs.Impl, "none")
			} else {
				r := rep.(*rtcp.ReceiverReport).Reports[0]
				cs.Impl = append(cs.Impl, fmt.Sprintf("report %d %d %d", r.LastSequenceNumber, r.FractionLost, r.TotalLost))
				if uint64(r.TotalLost) != min(totalLost, 0xFFFFFF) {
					viol("receiver reports agree with the history", "recv-report", fmt.Sprintf("report total lost %d vs %d", r.TotalLost, totalLost))
				}
				if extKnown && r.LastSequenceNumber != uint32(ext) {
					viol("receiver reports agree with the history (extended highest sequence number)", "recv-report-extseq",
						fmt.Sprintf("report extended seq %d, history %d", r.LastSequenceNumber, uint32(ext)))
				}
				if uint16(r.LastSequenceNumber) != last {
					viol("receiver reports agree with the history", "recv-report", fmt.Sprintf("report last seq %d vs %d", r.LastSequenceNumber, last))
				}
				// fraction lost = floor(256 * lost / (delivered + lost)) over the steps since the previous
				// report, as the floor characterisation f*rl <= 256*ls < (f+1)*rl (Lean: report_fields_history)
				rl := sinceDelivered + sinceLost
				f := uint64(r.FractionLost)
				if sinceLost <= 0xFFFFFF {
					if (rl == 0 && f != 0) || (rl != 0 && !(f*rl <= 256*sinceLost && 256*sinceLost < (f+1)*rl)) {
						viol("receiver reports agree with the history (fraction lost since the previous report)", "recv-report-fraction",
							fmt.Sprintf("report fraction lost %d with %d lost / %d delivered since the previous report", f, sinceLost, sinceDelivered))
					}
				}
				sinceLost, sinceDelivered = 0, 0
			}
		}
	}
	if lfb {
		ok := len(allOrig) == len(h.Seqs)
		for k := 0; ok && k < len(allOrig); k++ {
			ok = allOrig[k] == k
		}
		st := rr.Stats()
		if !ok || st.Lost != 0 || st.Received != uint64(len(h.Seqs)) {
			viol("a packet displaced by fewer positions than the buffer size is delivered (loss-free history: every packet delivered exactly once, in order, buffer empty at the end)",
				"recv-displaced-not-delivered", fmt.Sprintf("delivered stream positions %v of %d arrivals, stats received=%d lost=%d", allOrig, len(h.Seqs), st.Received, st.Lost))
		}
	}
	c.Add(cs)
}

// lossFreeBounded decides, on the input alone, the hypothesis of the Lean theorem
// displacement_without_loss_from_init: unreliable mode, the first arrival is the first packet of the
// stream, the arrivals are a permutation of the consecutive stream (no loss, no duplicate, no restart)
// and no packet arrives before a packet Size or more positions behind it
// (earlier arrival a, later arrival c: a < c + Size).
func lossFreeBounded(h *RecvHistory) bool {
	n := len(h.Seqs)
	if !h.Unreliable || n < 2 || len(h.Orig) != n || len(h.IDs) != n || h.Orig[0] != 0 {
		return false
	}
	if h.Size <= 0 || h.Size&(h.Size-1) != 0 || h.Size > 16384 {
		return false
	}
	seen := make([]bool, n)
	idSeen := make(map[int]bool, n)
	for i := range h.Seqs {
		o := h.Orig[i]
		if o < 0 || o >= n || seen[o] || idSeen[h.IDs[i]] || h.Seqs[i] != h.Seqs[0]+uint16(o) {
			return false
		}
		seen[o] = true
		idSeen[h.IDs[i]] = true
	}
	minLater := n + h.Size // minimum stream position among the later arrivals
	for k := n - 1; k >= 0; k-- {
		if h.Orig[k] >= minLater+h.Size {
			return false
		}
		if h.Orig[k] < minLater {
			minLater = h.Orig[k]
		}
	}
	return true
}

// restartedBetween: a restart marker occurs before arrival i (displacement is then meaningless).
func restartedBetween(h *RecvHistory, i int) bool {
	for j := 0; j <= i; j++ {
		if h.Orig[j] < 0 {
			return true
		}
	}
	return false
}

// recvPassedByFlush re-runs the arrival prefix on a tiny reference of the *window arithmetic only*
// to decide whether the origin moved past arrival i in a step whose own packet was ≥ Size ahead
// (the whole-buffer flush).  It does not re-implement delivery.
func recvPassedByFlush(h *RecvHistory, i int) bool {
	// Replay on a fresh real receiver and look at the step in which LastSequenceNumber passed seq i.
	rr := &rtpreceiver.Receiver{ClockRate: 90000, UnrealiableTransport: true, BufferSize: h.Size, Period: time.Hour,
		TimeNow: func() time.Time { return time.Unix(1000, 0) }, WritePacketRTCP: func(rtcp.Packet) {}}
	if err := rr.Initialize(); err != nil {
		return false
	}
	defer rr.Close()
	target := h.Seqs[i]
	for j := 0; j < i; j++ {
		var before uint16
		have := false
		if st := rr.Stats(); st != nil {
			before, have = st.LastSequenceNumber, true
		}
		rr.ProcessPacket2(&rtp.Packet{Header: rtp.Header{SequenceNumber: h.Seqs[j]}}, time.Unix(1000, 0), true)
		st := rr.Stats()
		if have && int16(target-before) > 0 && int16(target-st.LastSequenceNumber) <= 0 {
			return int(int16(h.Seqs[j]-before-1)) >= h.Size
		}
	}
	return false
}

func genRecvHistory(c *corr.Ctx) *RecvHistory { return genRecvHistoryWith(c, 0) }

// recvUnit runs the real receiver on the arrival history and returns what it delivers in total
// (the reference of the end-to-end layer; the run itself is checked by recvRun on the same history).
func recvUnit(h *RecvHistory) e2eExpect {
	rr := &rtpreceiver.Receiver{ClockRate: 90000, UnrealiableTransport: h.Unreliable, BufferSize: h.Size, Period: time.Hour,
		TimeNow: func() time.Time { return time.Unix(1000, 0) }, WritePacketRTCP: func(rtcp.Packet) {}}
	if err := rr.Initialize(); err != nil {
		panic(err)
	}
	defer rr.Close()
	var e e2eExpect
	for _, sq := range h.Seqs {
		pkts, lost := rr.ProcessPacket2(&rtp.Packet{Header: rtp.Header{Version: 2, SequenceNumber: sq, SSRC: 7}, Payload: []byte{1}}, time.Unix(1000, 0), true)
		for _, p := range pkts {
			e.seqs = append(e.seqs, p.SequenceNumber)
		}
		e.lost += lost
	}
	if st := rr.Stats(); st != nil {
		e.recv, e.last = st.Received, st.LastSequenceNumber
	}
	return e
}

// genRecvHistoryWith: forceSize != 0 fixes the buffer size (and unreliable mode) — the end-to-end
// layer can only use the library's own buffer size.
func genRecvHistoryWith(c *corr.Ctx, forceSize int) *RecvHistory {
	r := c.Rng
	sizes := []int{1, 2, 4, 8, 16, 32, 64, 128, 256, 512}
	h := &RecvHistory{Unreliable: r.IntN(5) != 0, Size: sizes[r.IntN(len(sizes))]}
	if r.IntN(3) == 0 {
		h.Size = sizes[r.IntN(5)]
	}
	if forceSize != 0 {
		h.Size, h.Unreliable = forceSize, true
	}
	n := 5 + r.IntN(120)
	start := uint16(r.IntN(65536))
	switch r.IntN(4) {
	case 0:
		start = uint16(65536 - r.IntN(40)) // wrap inside the run
	case 1:
		start = uint16(32768 - r.IntN(40))
	}
	// sender's stream
	type ev struct {
		seq  uint16
		id   int
		orig int
	}
	var stream []ev
	seq := start
	id := 0
	for i := 0; i < n; i++ {
		stream = append(stream, ev{seq, id, i})
		seq++
		id++
	}
	mode := r.IntN(7)
	c.Dist(fmt.Sprintf("mode=%d", mode))
	var arr []ev
	if mode == 6 {
		// loss-free permutation with bounded displacement: the first packet first, then always one of
		// the not yet sent packets less than Size positions after the oldest not yet sent one (exactly
		// the histories with: earlier arrival a, later arrival c => a < c + Size)
		h.Unreliable = true
		sent := make([]bool, n)
		arr = append(arr, stream[0])
		sent[0] = true
		oldest := 1
		inOrderP := r.IntN(4) // 0: as scrambled as the bound allows … 3: mostly in order
		for len(arr) < n {
			for oldest < n && sent[oldest] {
				oldest++
			}
			k := oldest
			if r.IntN(4) >= inOrderP {
				hi := min(oldest+h.Size, n)
				k = oldest + r.IntN(hi-oldest)
				for sent[k] { // next free one at or after the draw, wrapping to the oldest
					k++
					if k >= hi {
						k = oldest
					}
				}
			}
			sent[k] = true
			arr = append(arr, stream[k])
		}
		for _, e := range arr {
			h.Seqs = append(h.Seqs, e.seq)
			h.IDs = append(h.IDs, e.id)
			h.Orig = append(h.Orig, e.orig)
		}
		for i := range h.Seqs {
			if r.IntN(25) == 0 {
				h.ReportAt = append(h.ReportAt, i)
			}
		}
		h.ReportAt = append(h.ReportAt, len(h.Seqs)-1)
		return h
	}
	// loss
	for _, e := range stream {
		lossP := 0
		if mode >= 2 {
			lossP = 8
		}
		if r.IntN(100) < lossP {
			burst := 1 + r.IntN(3)
			if r.IntN(10) == 0 {
				burst = h.Size + r.IntN(4)
			}
			_ = burst
			continue
		}
		arr = append(arr, e)
	}
	// bounded displacement: move an element later by < Size (mode 1: strictly < Size; others up to 2*Size)
	if mode >= 1 && h.Unreliable {
		maxD := h.Size - 1
		if mode >= 4 {
			maxD = 2*h.Size + 1
		}
		for k := 0; k < len(arr)/4+1 && maxD > 0; k++ {
			i := r.IntN(len(arr))
			d := 1 + r.IntN(maxD)
			j := min(i+d, len(arr)-1)
			e := arr[i]
			copy(arr[i:j], arr[i+1:j+1])
			arr[j] = e
			i = j + 1 // keep displaced elements apart so displacement stays bounded
		}
	}
	// duplicates
	if mode >= 3 {
		for k := 0; k < len(arr)/8+1; k++ {
			i := r.IntN(len(arr))
			j := min(i+r.IntN(h.Size+2), len(arr))
			e := arr[i]
			arr = append(arr[:j], append([]ev{e}, arr[j:]...)...)
		}
	}
	// restart: the sender starts again from a far-away sequence number
	if mode == 5 {
		cut := len(arr) / 2
		jump := uint16(20000 + r.IntN(40000))
		base := arr[cut].seq + jump
		var tail []ev
		for k := 0; k < h.Size+2+r.IntN(20); k++ {
			tail = append(tail, ev{base + uint16(k), id, -1})
			id++
		}
		arr = append(arr[:cut:cut], tail...)
	}
	if !h.Unreliable && r.IntN(3) == 0 {
		// reliable mode accepts arbitrary sequence numbers
		for i := range arr {
			if r.IntN(6) == 0 {
				arr[i].seq = uint16(r.IntN(65536))
			}
		}
	}
	for _, e := range arr {
		h.Seqs = append(h.Seqs, e.seq)
		h.IDs = append(h.IDs, e.id)
		h.Orig = append(h.Orig, e.orig)
	}
	for i := range h.Seqs {
		if r.IntN(25) == 0 {
			h.ReportAt = append(h.ReportAt, i)
		}
	}
	if len(h.Seqs) > 0 {
		h.ReportAt = append(h.ReportAt, len(h.Seqs)-1)
	}
	return h
}

// Run is the domain entry point.
func Run(c *corr.Ctx) {
	c.Rule("arrival histories derived from an ordered sender stream (random start incl. wrap positions) by loss, bounded displacement, duplication, restart, plus loss-free permutations in which no packet arrives before a packet BufferSize or more positions behind it (mode 6; the displacement clause must hold on these); sizes 1..512 (powers of two); reliable and unreliable; a case is non-trivial when it has more than one arrival; distinct = distinct op-line sequences; plus an end-to-end layer (library Client from a scripted raw server with every way the transport can be chosen — explicit UDP / TCP / multicast, automatic selection with UDP granted, refused by 461, answered with TCP —, library Server in record mode from a raw publisher over UDP and TCP, BufferSize 64; the receiver must run in the mode of the NEGOTIATED transport): same generator, every delivered packet must carry the content sent for its sequence number and the application must see what the receiver yields for the history; plus a concurrency layer (report() against ProcessPacket2 from another goroutine: deterministic probe through TimeNow, and 10^5-packet stress with forced / ticker reports) with the conservation law over all emitted reports")
	if c.Replay != nil {
		var h RecvHistory
		if err := json.Unmarshal(c.Replay, &h); err != nil {
			panic(err)
		}
		if h.Conc != "" {
			concRun(c, &h, "replay")
			return
		}
		if h.E2E != "" {
			env := &e2eEnv{}
			defer env.close()
			recvRun(c, cloneForUnit(&h), "replay-unit")
			c.Guard("C14", "recv-e2e", &h, 60*time.Second, func() { e2eRun(c, env, &h, "replay") })
			return
		}
		recvRun(c, &h, "replay")
		return
	}
	// corpus: the design-time witness for the displacement clause
	recvRun(c, &RecvHistory{Unreliable: true, Size: 4, Seqs: []uint16{1, 2, 4, 5, 7, 6, 8}, IDs: []int{1, 2, 4, 5, 7, 6, 8},
		Orig: []int{0, 1, 3, 4, 6, 5, 7}, ReportAt: []int{6}}, "corpus-late-after-flush")
	// corpus: the non-vacuity example of Lean displacement_without_loss_from_init (N = 4, across the wrap)
	recvRun(c, &RecvHistory{Unreliable: true, Size: 4, Seqs: []uint16{65533, 0, 65534, 65535, 1, 4, 2, 3, 5},
		IDs: []int{100, 2, 0, 1, 3, 6, 4, 5, 7}, Orig: []int{0, 3, 1, 2, 4, 7, 5, 6, 8}, ReportAt: []int{4, 8}}, "corpus-displaced-no-loss")
	n := c.N(3000, 300000)
	for i := 0; i < n; i++ {
		h := genRecvHistory(c)
		if len(h.Seqs) == 0 {
			continue
		}
		c.Dist(fmt.Sprintf("size=%d", h.Size))
		c.Dist("unreliable=" + corr.B(h.Unreliable))
		recvRun(c, h, fmt.Sprintf("gen-%d", i))
	}
	// every wrap position: a set of history shapes replayed from EVERY starting sequence number
	// (thorough: all 65536; quick: 2048 spread over the range plus the neighbourhood of 0 / 2^15)
	nShapes := c.N(6, 40)
	var shapes []*RecvHistory
	for len(shapes) < nShapes {
		h := genRecvHistory(c)
		if len(h.Seqs) < 4 || !h.Unreliable {
			continue
		}
		if len(h.Seqs) > 24 {
			h.Seqs, h.IDs, h.Orig = h.Seqs[:24], h.IDs[:24], h.Orig[:24]
		}
		h.ReportAt = []int{len(h.Seqs) - 1}
		shapes = append(shapes, h)
	}
	var starts []uint16
	if c.Quick() {
		for i := 0; i < 2048; i++ {
			starts = append(starts, uint16(i*32))
		}
		for d := -24; d <= 24; d++ {
			starts = append(starts, uint16(65536+d), uint16(32768+d))
		}
	} else {
		for i := 0; i < 65536; i++ {
			starts = append(starts, uint16(i))
		}
	}
	for si, sh := range shapes {
		base := sh.Seqs[0]
		for _, st := range starts {
			h := &RecvHistory{Unreliable: true, Size: sh.Size, IDs: sh.IDs, Orig: sh.Orig, ReportAt: sh.ReportAt}
			h.Seqs = make([]uint16, len(sh.Seqs))
			for i, q := range sh.Seqs {
				h.Seqs[i] = st + (q - base)
			}
			recvRun(c, h, fmt.Sprintf("allstarts-%d-%d", si, st))
		}
	}
	c.DistN("all-starts-cases", len(shapes)*len(starts))
	// exhaustive small scope: all histories of length ≤ L over a window of W sequence numbers
	// around chosen wrap positions
	L, W := 5, 6
	starts = []uint16{0, 65533, 32765, 1000}
	if !c.Quick() {
		L, W = 6, 7
		starts = []uint16{0, 65530, 65533, 65535, 32765, 32767, 1000, 4095, 61440}
	}
	for _, size := range []int{1, 2, 4} {
		for _, st := range starts {
			cnt := 1
			for k := 0; k < L; k++ {
				cnt *= W
			}
			for code := 0; code < cnt; code++ {
				h := &RecvHistory{Unreliable: true, Size: size}
				x := code
				for k := 0; k < L; k++ {
					o := x % W
					x /= W
					h.Seqs = append(h.Seqs, st+uint16(o))
					h.IDs = append(h.IDs, k)
					h.Orig = append(h.Orig, -1)
				}
				h.ReportAt = []int{L - 1}
				recvRun(c, h, fmt.Sprintf("enum-%d-%d-%d", size, st, code))
			}
		}
	}
	c.Dist("enumerated-small-scope")
	// end to end: the receiver behind the library's UDP listeners / TCP readers (e2e.go)
	e2eAll(c)
	// report generation atomic w.r.t. packet processing: interleaving probe + stress (conc.go)
	concAll(c)
}
