package recv

import (
	"fmt"
	"math/rand/v2"
	"runtime"
	"sync"
	"sync/atomic"
	"time"

	"github.com/pion/rtcp"
	"github.com/pion/rtp"

	"github.com/bluenviron/gortsplib/v5/pkg/rtpreceiver"

	"verifharness/corr"
)

// Concurrency layer of C14: report generation must be atomic with respect to packet processing.
//
// The line protocol drives the receiver from one goroutine, and the Lean model (exec) treats every
// ProcessPacket2 / report() as one indivisible step.  In the library they run in different goroutines
// (the transport reader and the receiver's own ticker), serialised by the receiver's mutex; facts/recv.json
// + theorem report_is_one_exclusive_section tie the step semantics to the shape of the code, and this
// file checks the observable consequence on the real code:
//
//	conservation law over ALL emitted reports: for every report k
//	    FractionLost_k = uint8(256 * (TotalLost_k - TotalLost_{k-1}) / (ExtSeq_k - ExtSeq_{k-1}))
//	(the interval loss is the growth of the cumulative loss, the interval expected count is the growth
//	of the extended highest sequence number: Lean report_fields_history + ext_seq_history + loss_counters_history),
//	TotalLost never decreases, the last report's TotalLost = Stats().Lost = Σ of the losses returned by
//	ProcessPacket2, and Σ (expected − lost) = Stats().Received = number of delivered packets.
//	A loss accounted between a report's snapshot and its reset appears in TotalLost but in no interval.
//
// (1) probe — deterministic interleaving through the receiver's own injection point: TimeNow is called
// by report(); from inside it another goroutine is told to call ProcessPacket2 with a packet after a gap,
// and TimeNow waits for it for a short bounded time.  While report() holds the lock exclusively the
// packet blocks until report() is over (the wait times out, nothing is lost); if the lock is not held
// the packet lands inside the window.
// (2) stress — one goroutine processes 10^5 packets with random gaps while another forces reports (and
// sender reports) as fast as it can (direct hook), or while the receiver's own ticker emits them with a
// tiny Period; same oracle.

type concReport struct {
	ext   uint32
	frac  uint8
	total uint32
}

type concOutcome struct {
	first     uint16
	reports   []concReport
	sumLost   uint64 // Σ lost returned by ProcessPacket2
	delivered uint64 // Σ len(pkts) returned by ProcessPacket2
	stRecv    uint64
	stLost    uint64
	inWindow  int // probe: packets that completed while report() was inside TimeNow
}

func concCollect(p rtcp.Packet) (concReport, bool) {
	rr, ok := p.(*rtcp.ReceiverReport)
	if !ok || len(rr.Reports) != 1 {
		return concReport{}, false
	}
	r := rr.Reports[0]
	return concReport{r.LastSequenceNumber, r.FractionLost, r.TotalLost}, true
}

func concPacket(seq uint16) *rtp.Packet {
	return &rtp.Packet{Header: rtp.Header{Version: 2, PayloadType: 96, SequenceNumber: seq, SSRC: 7, Timestamp: uint32(seq) * 90}, Payload: []byte{1}}
}

var concSys = time.Unix(1000, 0)

// concGap: 0 = next packet; otherwise that many sequence numbers are skipped.  In unreliable mode a
// skip below the buffer size parks the packet; at or above it the buffer is flushed and the loss counted.
func concGap(r *rand.Rand, size int) uint16 {
	switch r.IntN(10) {
	case 0, 1:
		return uint16(1 + r.IntN(3))
	case 2:
		return uint16(size + r.IntN(12))
	}
	return 0
}

// concProbe: the deterministic interleaving probe.
func concProbe(h *RecvHistory) concOutcome {
	r := rand.New(rand.NewPCG(h.ConcSeed, 0xC14))
	var out concOutcome
	var armed atomic.Bool
	goCh := make(chan *rtp.Packet)
	type res struct {
		n    int
		lost uint64
	}
	doneCh := make(chan res, 1)
	var pending *rtp.Packet
	var inside *res
	rr := &rtpreceiver.Receiver{
		ClockRate:            90000,
		UnrealiableTransport: h.Unreliable,
		BufferSize:           h.Size,
		Period:               time.Hour,
		WritePacketRTCP:      func(rtcp.Packet) {},
	}
	rr.TimeNow = func() time.Time {
		if armed.CompareAndSwap(true, false) {
			goCh <- pending
			select {
			case x := <-doneCh: // the packet was processed while report() was in here
				inside = &x
			case <-time.After(25 * time.Millisecond):
			}
		}
		return concSys
	}
	if err := rr.Initialize(); err != nil {
		panic(err)
	}
	defer rr.Close()
	var wg sync.WaitGroup
	wg.Add(1)
	go func() {
		defer wg.Done()
		for p := range goCh {
			pkts, lost := rr.ProcessPacket2(p, concSys, true)
			doneCh <- res{len(pkts), lost}
		}
	}()
	defer func() { close(goCh); wg.Wait() }()

	seq := uint16(r.IntN(65536))
	if r.IntN(3) == 0 {
		seq = uint16(65536 - r.IntN(30))
	}
	out.first = seq
	feed := func(p *rtp.Packet) {
		pkts, lost := rr.ProcessPacket2(p, concSys, true)
		out.delivered += uint64(len(pkts))
		out.sumLost += lost
	}
	report := func() {
		if rep := rr.VerifReport(); rep != nil {
			if cr, ok := concCollect(rep); ok {
				out.reports = append(out.reports, cr)
			}
		}
	}
	feed(concPacket(seq))
	// "only reached once a sender report has been received"
	rr.ProcessSenderReport(&rtcp.SenderReport{SSRC: 7, NTPTime: 1 << 40, RTPTime: 1000}, concSys)
	for round := 0; round < h.ConcN; round++ {
		for k := r.IntN(6); k > 0; k-- {
			seq += 1 + concGap(r, h.Size)
			feed(concPacket(seq))
		}
		// the packet of the other goroutine: after a gap that is counted lost at once
		gap := uint16(2 + r.IntN(20))
		if h.Unreliable {
			gap = uint16(h.Size + 1 + r.IntN(20))
		}
		seq += 1 + gap
		pending = concPacket(seq)
		inside = nil
		armed.Store(true)
		report()
		var x res
		if inside != nil {
			x = *inside
			out.inWindow++
		} else if armed.Load() {
			// TimeNow was not called by this report (nothing to interleave with): process it here
			armed.Store(false)
			pkts, lost := rr.ProcessPacket2(pending, concSys, true)
			x = res{len(pkts), lost}
		} else {
			x = <-doneCh
		}
		out.delivered += uint64(x.n)
		out.sumLost += x.lost
		if r.IntN(3) == 0 {
			report()
		}
	}
	for k := 1 + r.IntN(4); k > 0; k-- {
		seq++
		feed(concPacket(seq))
	}
	report()
	if st := rr.Stats(); st != nil {
		out.stRecv, out.stLost = st.Received, st.Lost
	}
	return out
}

// concStress: packets and reports from different goroutines at full speed.
func concStress(h *RecvHistory) concOutcome {
	r := rand.New(rand.NewPCG(h.ConcSeed, 0x57E55))
	var out concOutcome
	ticker := h.Conc == "stress-ticker"
	var mu sync.Mutex // protects out.reports in the ticker variant
	rr := &rtpreceiver.Receiver{
		ClockRate:            90000,
		UnrealiableTransport: h.Unreliable,
		BufferSize:           h.Size,
		Period:               time.Hour,
		TimeNow:              func() time.Time { runtime.Gosched(); return concSys },
		WritePacketRTCP:      func(rtcp.Packet) {},
	}
	if ticker {
		rr.Period = 50 * time.Microsecond
		rr.WritePacketRTCP = func(p rtcp.Packet) {
			if cr, ok := concCollect(p); ok {
				mu.Lock()
				out.reports = append(out.reports, cr)
				mu.Unlock()
			}
		}
	}
	if err := rr.Initialize(); err != nil {
		panic(err)
	}
	closed := false
	defer func() {
		if !closed {
			rr.Close()
		}
	}()
	seq := uint16(r.IntN(65536))
	out.first = seq
	sr := &rtcp.SenderReport{SSRC: 7, NTPTime: 1 << 40, RTPTime: 1000}
	pkts, lost := rr.ProcessPacket2(concPacket(seq), concSys, true)
	out.delivered, out.sumLost = uint64(len(pkts)), lost
	rr.ProcessSenderReport(sr, concSys)

	var stop atomic.Bool
	var wg sync.WaitGroup
	if !ticker {
		wg.Add(1)
		go func() {
			defer wg.Done()
			for i := 0; !stop.Load(); i++ {
				if i%64 == 0 {
					rr.ProcessSenderReport(sr, concSys)
				}
				if rep := rr.VerifReport(); rep != nil {
					if cr, ok := concCollect(rep); ok {
						out.reports = append(out.reports, cr) // only this goroutine until wg.Wait()
					}
				}
			}
		}()
	}
	for i := 0; i < h.ConcN; i++ {
		seq += 1 + concGap(r, h.Size)
		pkts, lost = rr.ProcessPacket2(concPacket(seq), concSys, true)
		out.delivered += uint64(len(pkts))
		out.sumLost += lost
		if ticker && i%1000 == 0 {
			rr.ProcessSenderReport(sr, concSys)
		}
	}
	stop.Store(true)
	wg.Wait()
	if ticker {
		rr.Close() // the ticker goroutine is gone: the final report below is the last one
		closed = true
	}
	if rep := rr.VerifReport(); rep != nil {
		if cr, ok := concCollect(rep); ok {
			mu.Lock()
			out.reports = append(out.reports, cr)
			mu.Unlock()
		}
	}
	if st := rr.Stats(); st != nil {
		out.stRecv, out.stLost = st.Received, st.Lost
	}
	return out
}

// concOracle evaluates the conservation law on everything the receiver emitted.
func concOracle(c *corr.Ctx, h *RecvHistory, name string, o concOutcome) {
	viol := func(clause, key, detail string) {
		c.Violate(corr.Violation{Property: "C14", Clause: clause, Key: key, Where: "pkg/rtpreceiver report() / ProcessPacket2 from different goroutines (" + h.Conc + ")", Input: h, Detail: name + ": " + detail})
	}
	if len(o.reports) == 0 {
		viol("receiver reports agree with the history", "recv-conc-no-report", "no report was produced")
		return
	}
	prevExt := int64(o.first) - 1
	var prevTL int64
	var sumRecv int64
	for k, r := range o.reports {
		dExt := int64(r.ext) - prevExt
		dTL := int64(r.total) - prevTL
		switch {
		case dTL < 0 || dExt < 0:
			viol("cumulative loss and extended highest sequence number never decrease from one report to the next",
				"recv-conc-total-decreasing", fmt.Sprintf("report %d: total lost %d after %d, extended seq %d after %d", k, r.total, prevTL, r.ext, prevExt))
			return
		case dExt == 0 && (dTL != 0 || r.frac != 0):
			viol("the sum over the reports of the interval losses equals the cumulative loss (every loss is in exactly one report's interval)",
				"recv-report-interval", fmt.Sprintf("report %d: nothing expected in the interval, but cumulative loss grew by %d, fraction %d", k, dTL, r.frac))
			return
		case dExt > 0 && uint8(256*dTL/dExt) != r.frac:
			viol("the sum over the reports of the interval losses equals the cumulative loss (every loss is in exactly one report's interval)",
				"recv-report-interval", fmt.Sprintf("report %d of %d: fraction lost %d, but since the previous report the cumulative loss grew by %d and the extended highest sequence number by %d (fraction %d)",
					k, len(o.reports), r.frac, dTL, dExt, uint8(256*dTL/dExt)))
			return
		}
		sumRecv += dExt - dTL
		prevExt, prevTL = int64(r.ext), int64(r.total)
	}
	last := o.reports[len(o.reports)-1]
	if uint64(last.total) != o.stLost || o.stLost != o.sumLost {
		viol("cumulative loss of the last report = Stats().Lost = sum of the losses returned by ProcessPacket2",
			"recv-conc-totals", fmt.Sprintf("last report %d, stats %d, returned %d", last.total, o.stLost, o.sumLost))
	}
	if uint64(sumRecv) != o.stRecv || o.stRecv != o.delivered {
		viol("expected minus lost over all report intervals = Stats().Received = number of delivered packets",
			"recv-conc-totals", fmt.Sprintf("intervals %d, stats %d, delivered %d", sumRecv, o.stRecv, o.delivered))
	}
}

func concRun(c *corr.Ctx, h *RecvHistory, name string) {
	c.Guard("C14", "recv-conc", h, 120*time.Second, func() {
		var o concOutcome
		if h.Conc == "probe" {
			o = concProbe(h)
			c.DistN("conc-probe-packets-inside-report", o.inWindow)
		} else {
			o = concStress(h)
		}
		c.CountOnly(fmt.Sprintf("conc %s %v %d %d %d", h.Conc, h.Unreliable, h.Size, h.ConcSeed, h.ConcN), true)
		c.Dist("conc=" + h.Conc)
		c.DistN("conc-reports", len(o.reports))
		concOracle(c, h, name, o)
	})
}

// concAll: the concurrency part of the domain run.
func concAll(c *corr.Ctx) {
	sizes := []int{1, 4, 16, 64}
	nProbe := c.N(6, 60)
	for i := 0; i < nProbe; i++ {
		for _, unrel := range []bool{true, false} {
			h := &RecvHistory{Conc: "probe", Unreliable: unrel, Size: sizes[c.Rng.IntN(len(sizes))], ConcSeed: c.Rng.Uint64(), ConcN: 6 + c.Rng.IntN(6)}
			concRun(c, h, fmt.Sprintf("conc-probe-%d", i))
		}
	}
	nStress := c.N(1, 6)
	for i := 0; i < nStress; i++ {
		for _, kind := range []string{"stress-hook", "stress-ticker"} {
			for _, unrel := range []bool{true, false} {
				h := &RecvHistory{Conc: kind, Unreliable: unrel, Size: sizes[c.Rng.IntN(len(sizes))], ConcSeed: c.Rng.Uint64(), ConcN: 100000}
				concRun(c, h, fmt.Sprintf("conc-%s-%d", kind, i))
			}
		}
	}
}
