// Package hclient is the correspondence driver and property oracle of C12 (the client survives
// hostile servers): a scripted RTSP server on loopback, derived from a correct one by mutating its
// reactions, is run against the real gortsplib Client; result classes, final states and the request
// log are compared with the Lean model (Model/ClientSm.lean), and the property itself (every call
// returns in time, no panic, Close leaves nothing behind, failures are reported afterwards) is
// evaluated on what the implementation did.
package hclient

import (
	"encoding/json"
	"fmt"
	"sort"
	"strings"
)

// Cfg is the client configuration of a conversation.
type Cfg struct {
	Proto   int  `json:"proto"`             // 0 automatic, 1 UDP, 2 multicast, 3 TCP
	Creds   bool `json:"creds,omitempty"`   // URL carries credentials
	BackCh  bool `json:"backch,omitempty"`  // RequestBackChannels
	AnyPort bool `json:"anyport,omitempty"` // AnyPortEnable
	Secure  bool `json:"secure,omitempty"`  // rtsps
	Tunnel  int  `json:"tunnel,omitempty"`  // 0 none, 1 HTTP, 2 WebSocket
	RTms    int  `json:"rt_ms"`             // ReadTimeout = WriteTimeout (ms)
	UDPms   int  `json:"udp_ms,omitempty"`  // InitialUDPReadTimeout (ms); 0 = one hour
	WTms    int  `json:"wt_ms,omitempty"`   // WriteTimeout when it differs from ReadTimeout
	NoSR    bool `json:"no_sr,omitempty"`   // DisableRTCPSenderReports
}

// MediaSpec is one media of the stream the correct server offers / the client announces.
type MediaSpec struct {
	Control string `json:"control"`
	Back    bool   `json:"back,omitempty"`
	Codec   string `json:"codec"` // h264 pcmu opus
	CtlBad  bool   `json:"ctl_bad,omitempty"` // abstract label: Media.URL must fail on this control
	Secure  bool   `json:"secure,omitempty"`  // RTP/SAVP with a key-mgmt attribute
	KeyMgmt string `json:"key_mgmt,omitempty"` // value of the key-mgmt attribute ("" = a valid one is generated)
}

// Call is one API call of the client program.
type Call struct {
	Api   string `json:"api"` // options describe announce setup play record pause | sleep (not a call: let time pass) | flood (write media until the queue is full, then wait until Pct % of WriteTimeout have passed)
	Pct   int    `json:"pct,omitempty"`
	Media int    `json:"media,omitempty"`
	Ms    int    `json:"ms,omitempty"` // sleep
	Silent bool  `json:"silent,omitempty"` // sleep: the scripted server sends nothing at all meanwhile
	Got   bool   `json:"got,omitempty"` // sleep, abstract label: a UDP packet will have arrived when the liveness timer fires
}

// Mut is one mutation of the correct response.
type Mut struct {
	Op string `json:"op"` // status del set add body clen sub proto rawhdr
	K  string `json:"k,omitempty"`
	V  string `json:"v,omitempty"`
}

// Action is one thing the scripted server does in reaction to a request.
type Action struct {
	Kind    string `json:"kind"` // resp req frame raw close rst sleep half udp drip
	Muts    []Mut  `json:"muts,omitempty"`
	Method  string `json:"method,omitempty"`  // req
	Ch      int    `json:"ch,omitempty"`      // frame: channel; udp: 0 = RTP port, 1 = RTCP port of the first set-up media
	Payload []byte `json:"payload,omitempty"` // frame payload / raw bytes
	Ms      int    `json:"ms,omitempty"`      // sleep
	NoParse bool   `json:"noparse,omitempty"` // what is written cannot be parsed by the client (its reader dies)
	Every   int    `json:"every,omitempty"`   // drip: one message every so many ms …
	For     int    `json:"for,omitempty"`     // … for so many ms; Method = stale | options | frame (what is dripped)
}

// Reaction is what the server does when it has read its N-th request with method M (1-based,
// counted over all connections of the conversation; N 0 = every request with that method;
// M "*" = N-th request of any method).  The first matching Reaction wins.
// Requests without a Reaction get the correct response.
type Reaction struct {
	M    string   `json:"m"`
	N    int      `json:"n"`
	Acts []Action `json:"acts"`
	Abs  string   `json:"abs,omitempty"` // the same reaction in the model's event language ("" = not expressible)
}

// Script is one conversation: the replayable input.
type Script struct {
	Name       string      `json:"name"`
	Cfg        Cfg         `json:"cfg"`
	ServerAuth string      `json:"server_auth,omitempty"` // "", basic, digest
	Medias     []MediaSpec `json:"medias"`
	Prog       []Call      `json:"prog"`
	React      []Reaction  `json:"react,omitempty"`
	Accept     []Reaction  `json:"accept,omitempty"` // N-th accepted connection: what the server writes at once (M unused)
	Model      bool        `json:"model,omitempty"`  // every reaction has an abstract label: compare with the model
	Frames     bool        `json:"frames,omitempty"` // after a successful Play/Record exchange media data
	StallConn  int         `json:"stall_conn,omitempty"`  // the N-th accepted connection stalls …
	StallStage string      `json:"stall_stage,omitempty"` // … tcp (accepted only) | tlsmid (TLS handshake begun) | nohttp (request read, no answer) | partial (half the answer's headers)
	SmallBuf   bool        `json:"small_buf,omitempty"`   // tiny receive buffer on the server's sockets (a server that stops reading stalls the peer soon)
	Tun        string      `json:"tun,omitempty"`    // behaviour of the server during the tunnel handshake ("" = correct)
	ConcClose  int         `json:"conc_close,omitempty"` // >0: Close() concurrently, that many ms after the call with this index+1 started … see runner
	ConcAt     int         `json:"conc_at,omitempty"`
}

func (s *Script) reaction(method string, occ, total int) *Reaction {
	for i := range s.React {
		r := &s.React[i]
		if (r.M == method && (r.N == occ || r.N == 0)) || (r.M == "*" && r.N == total) {
			return r
		}
	}
	return nil
}

func (s *Script) key() string {
	b, _ := json.Marshal(s)
	return string(b)
}

// shape is a short description of what is special about a script (used in violation keys).
func (s *Script) shape() string {
	var parts []string
	for _, r := range s.React {
		for _, a := range r.Acts {
			k := a.Kind
			for _, m := range a.Muts {
				k += "." + m.Op
				if m.Op == "del" || m.Op == "set" || m.Op == "add" {
					k += "(" + m.K + ")"
				}
			}
			parts = append(parts, k)
		}
	}
	sort.Strings(parts)
	return strings.Join(parts, "+")
}

func protoName(p int) string {
	switch p {
	case 1:
		return "udp"
	case 2:
		return "mcast"
	case 3:
		return "tcp"
	}
	return "auto"
}

func (c Cfg) String() string {
	return fmt.Sprintf("%s creds=%v back=%v any=%v tls=%v tun=%d", protoName(c.Proto), c.Creds, c.BackCh, c.AnyPort, c.Secure, c.Tunnel)
}
