package hclient

import (
	"encoding/base64"
	"fmt"
	"math/rand/v2"
	"strings"
)

// ---------------------------------------------------------------------------------------------
// Generators.  A script is a correct conversation (client program + correct scripted server) with
// one or more reactions of the server replaced.  Every catalogue entry gives the concrete actions
// and, when the mutation is at grammar level, the same reaction in the model's event language.
// ---------------------------------------------------------------------------------------------

type gen struct {
	rng *rand.Rand
	rt  int
}

func (g *gen) pick(n int) int    { return g.rng.IntN(n) }
func (g *gen) chance(p float64) bool { return g.rng.Float64() < p }

func pickOf[T any](g *gen, xs ...T) T { return xs[g.pick(len(xs))] }

// piece is one element of a reaction with its abstract label ("?" = not expressible).
type piece struct {
	acts []Action
	abs  string
}

func respPiece(abs string, muts ...Mut) piece {
	return piece{acts: []Action{{Kind: "resp", Muts: muts}}, abs: abs}
}

func join(ps ...piece) (acts []Action, abs string, model bool) {
	model = true
	var labels []string
	for _, p := range ps {
		acts = append(acts, p.acts...)
		if p.abs == "?" {
			model = false
		}
		if p.abs != "" && p.abs != "?" {
			labels = append(labels, p.abs)
		}
	}
	abs = strings.Join(labels, "|")
	if abs == "" {
		abs = "-"
	}
	return
}

var controls = []struct {
	c   string
	bad bool
}{
	{"trackID=%d", false}, {"$SCHEME://$HOST/stream/trackID=%d", false}, {"?ctype=video&n=%d", false},
	{"/stream/trackID=%d", false}, {"trackID=%d?x=1", false}, {"track%%20ID=%d", false},
	{"track%%zzID=%d", true}, {"$SCHEME://$HOST/str%%zz/%d", true}, {"trackID=%d\x7f", true},
}

func (g *gen) medias(n int, back bool, badCtl bool) []MediaSpec {
	var ms []MediaSpec
	codecs := []string{"h264", "pcmu", "opus"}
	for i := range n {
		ct := controls[0]
		if g.chance(0.4) {
			ct = controls[g.pick(6)]
		}
		if badCtl && i == n-1 {
			ct = controls[6+g.pick(3)]
		}
		ms = append(ms, MediaSpec{Control: fmt.Sprintf(ct.c, i), Codec: codecs[i%3], CtlBad: ct.bad})
	}
	if back && n > 1 {
		ms[n-1].Back = true
	}
	return ms
}

// baseScript makes a correct conversation.
func (g *gen) baseScript(record bool) *Script {
	sc := &Script{Model: true}
	sc.Cfg = Cfg{Proto: pickOf(g, 0, 0, 1, 3, 3), Creds: g.chance(0.4), AnyPort: g.chance(0.15), RTms: g.rt}
	if sc.Cfg.Creds && g.chance(0.7) {
		sc.ServerAuth = pickOf(g, "basic", "digest")
	}
	n := 1 + g.pick(3)
	if record {
		sc.Medias = g.medias(n, false, false)
		for i := range sc.Medias { // prepareForAnnounce overwrites the controls
			sc.Medias[i].Control = fmt.Sprintf("trackID=%d", i)
			sc.Medias[i].CtlBad = false
		}
		sc.Prog = append(sc.Prog, Call{Api: "announce"})
		for i := range n {
			sc.Prog = append(sc.Prog, Call{Api: "setup", Media: i})
		}
		sc.Prog = append(sc.Prog, Call{Api: "record"})
		if g.chance(0.3) {
			sc.Prog = append(sc.Prog, Call{Api: "pause"})
			if g.chance(0.5) {
				sc.Prog = append(sc.Prog, Call{Api: "record"})
			}
		}
		return sc
	}
	sc.Cfg.BackCh = g.chance(0.2)
	sc.Medias = g.medias(n, sc.Cfg.BackCh || g.chance(0.05), g.chance(0.08))
	if g.chance(0.25) {
		sc.Prog = append(sc.Prog, Call{Api: "options"})
	}
	sc.Prog = append(sc.Prog, Call{Api: "describe"})
	for i := range n {
		sc.Prog = append(sc.Prog, Call{Api: "setup", Media: i})
	}
	sc.Prog = append(sc.Prog, Call{Api: "play"})
	if g.chance(0.3) {
		sc.Prog = append(sc.Prog, Call{Api: "pause"})
		if g.chance(0.5) {
			sc.Prog = append(sc.Prog, Call{Api: "play"})
		}
	}
	return sc
}

// methods that occur in the conversation of a script, with how often at least
func progMethods(sc *Script) []struct {
	m string
	n int
} {
	cnt := map[string]int{"OPTIONS": 1}
	for _, c := range sc.Prog {
		switch c.Api {
		case "options":
			cnt["OPTIONS"]++
		default:
			cnt[strings.ToUpper(c.Api)]++
		}
	}
	var out []struct {
		m string
		n int
	}
	for _, m := range []string{"OPTIONS", "DESCRIBE", "ANNOUNCE", "SETUP", "PLAY", "RECORD", "PAUSE"} {
		if cnt[m] > 0 {
			out = append(out, struct {
				m string
				n int
			}{m, cnt[m]})
		}
	}
	return out
}

var statusCodes = []int{100, 201, 204, 250, 300, 301, 302, 305, 306, 400, 401, 403, 404, 405, 451, 454, 455, 459, 461, 463, 500, 501, 503, 551, 999}

// ---- catalogue of response mutations -------------------------------------------------------

func (g *gen) mutStatus(method string) piece {
	code := statusCodes[g.pick(len(statusCodes))]
	if g.chance(0.25) {
		code = pickOf(g, 404, 401, 461, 302)
	}
	muts := []Mut{{Op: "status", V: fmt.Sprintf("%d Status", code)}}
	abs := fmt.Sprintf("r,st=%d", code)
	if code == 401 {
		switch g.pick(4) {
		case 0:
			muts = append(muts, Mut{Op: "set", K: "WWW-Authenticate", V: `Basic realm="x"`})
			abs += ",au=v"
		case 1:
			muts = append(muts, Mut{Op: "set", K: "WWW-Authenticate", V: `Digest realm="x", nonce="0123456789abcdef", algorithm="SHA-256"`})
			abs += ",au=v"
		case 2:
			muts = append(muts, Mut{Op: "set", K: "WWW-Authenticate", V: `Bearer zzz`})
			abs += ",au=i"
		default:
			muts = append(muts, Mut{Op: "del", K: "WWW-Authenticate"})
			abs += ",au=n"
		}
	}
	if code >= 300 && code < 400 && (method == "DESCRIBE" || g.chance(0.3)) {
		switch g.pick(6) {
		case 0, 1:
			muts = append(muts, Mut{Op: "set", K: "Location", V: "$SCHEME://$HOST/other"})
			abs += ",lo=g"
		case 2:
			muts = append(muts, Mut{Op: "set", K: "Location", V: pickOf(g, "http://$HOST/other", "rtsp://[::1/x", "%zz", "")})
			abs += ",lo=u"
		case 3:
			muts = append(muts, Mut{Op: "set", K: "Location", V: "rtsp://127.0.0.1:1/other"})
			abs += ",lo=x"
		case 4:
			muts = append(muts, Mut{Op: "add", K: "Location", V: "$SCHEME://$HOST/a"}, Mut{Op: "add", K: "Location", V: "$SCHEME://$HOST/b"})
			abs += ",lo=m"
		}
	}
	return respPiece(abs, muts...)
}

func (g *gen) mutCSeq() piece {
	switch g.pick(8) {
	case 0:
		return respPiece("r,cs=w", Mut{Op: "set", K: "CSeq", V: "999"})
	case 1:
		return respPiece("r,cs=w", Mut{Op: "set", K: "CSeq", V: pickOf(g, "0", "abc", "-1", "1 1")})
	case 2:
		return respPiece("r,cs=m", Mut{Op: "del", K: "CSeq"})
	case 3:
		return respPiece("r,cs=d", Mut{Op: "add", K: "CSeq", V: "999"})
	case 4:
		return respPiece("r,cs=d", Mut{Op: "add", K: "CSeq", V: "1"})
	case 5: // wrong, then the right one
		p := respPiece("r,cs=w", Mut{Op: "set", K: "CSeq", V: "424242"})
		q := respPiece("r")
		return piece{acts: append(p.acts, q.acts...), abs: "r,cs=w|r"}
	case 6: // empty value
		return respPiece("r,cs=w", Mut{Op: "set", K: "CSeq", V: ""})
	}
	return respPiece("r,cs=w", Mut{Op: "set", K: "CSeq", V: "0001"})
}

func (g *gen) mutSession() piece {
	switch g.pick(7) {
	case 0:
		return respPiece("r,se=g7", Mut{Op: "set", K: "Session", V: "S7"})
	case 1:
		return respPiece("r,se=g8", Mut{Op: "set", K: "Session", V: "S8;timeout=90"})
	case 2:
		return respPiece("r,se=b", Mut{Op: "set", K: "Session", V: "S7;timeout=abc"})
	case 3:
		return respPiece("r,se=b", Mut{Op: "add", K: "Session", V: "S2"}, Mut{Op: "add", K: "Session", V: "S3"})
	case 4:
		return respPiece("r,se=n", Mut{Op: "del", K: "Session"})
	case 5:
		return respPiece("r,se=g9", Mut{Op: "set", K: "Session", V: "S9;timeout=0"})
	}
	return respPiece("r,se=b", Mut{Op: "set", K: "Session", V: "S7;timeout=99999999999"})
}

func (g *gen) mutDescribe() piece {
	switch g.pick(12) {
	case 0:
		return respPiece("r,ct=m", Mut{Op: "del", K: "Content-Type"})
	case 1:
		return respPiece("r,ct=d", Mut{Op: "add", K: "Content-Type", V: "application/sdp"})
	case 2:
		return respPiece("r,ct=u", Mut{Op: "set", K: "Content-Type", V: pickOf(g, "text/plain", "application/sdpx", "")})
	case 3:
		return respPiece("r", Mut{Op: "set", K: "Content-Type", V: "application/sdp; charset=utf-8"})
	case 4:
		return respPiece("r,sdp=0", Mut{Op: "body", V: pickOf(g, "garbage", "v=0\r\n", "m=video 0 RTP/AVP 96\r\n")})
	case 5:
		return respPiece("r", Mut{Op: "del", K: "Content-Base"})
	case 6:
		return respPiece("r,base=0", Mut{Op: "set", K: "Content-Base", V: pickOf(g, "::", "http://x/", "rtsp://[::1/")})
	case 7:
		return respPiece("r,base=0", Mut{Op: "add", K: "Content-Base", V: "$SCHEME://$HOST/stream/"})
	case 8:
		return respPiece("r", Mut{Op: "set", K: "Content-Base", V: "/stream/"})
	case 9:
		return respPiece("r,base=0", Mut{Op: "sub", K: "t=0 0\r\n", V: "t=0 0\r\na=control:" + pickOf(g, "%zz", "http://x/y", "rtsp://[::1/") + "\r\n"})
	case 10:
		return respPiece("r", Mut{Op: "sub", K: "t=0 0\r\n", V: "t=0 0\r\na=control:*\r\n"})
	}
	return respPiece("r", Mut{Op: "sub", K: "t=0 0\r\n", V: "t=0 0\r\na=control:$SCHEME://$HOST/stream/\r\n"})
}

// mutations of the SDP whose effect on the parsed description is not predicted (property only)
func (g *gen) mutSDPWild() piece {
	var m Mut
	switch g.pick(14) {
	case 0:
		m = Mut{Op: "suball", K: "a=rtpmap:96 H264/90000\r\n", V: ""}
	case 1:
		m = Mut{Op: "suball", K: "RTP/AVP 96", V: pickOf(g, "RTP/AVP 128", "RTP/AVP 96 97 98", "RTP/AVP", "RTP/SAVP 96", "UDP/TLS/RTP/SAVPF 96", "RTP/AVP -1")}
	case 2:
		m = Mut{Op: "suball", K: "m=video 0", V: pickOf(g, "m=video 99999", "m=application 0", "m=", "m=video")}
	case 3:
		m = Mut{Op: "sub", K: "t=0 0\r\n", V: "t=0 0\r\na=mid:0\r\na=mid:0\r\n"}
	case 4:
		m = Mut{Op: "suball", K: "a=control:", V: "a=mid:1\r\na=control:"}
	case 5:
		m = Mut{Op: "suball", K: "H264/90000", V: pickOf(g, "H264/0", "H264/abc", "H264", "/90000", "H265/90000", "MPEG4-GENERIC/0/0", "opus/48000/9999")}
	case 6:
		m = Mut{Op: "suball", K: "packetization-mode=1", V: pickOf(g, "packetization-mode=0", "packetization-mode=9", "sprop-parameter-sets=AAAA,BBBB", "sprop-parameter-sets=,", "=;=;;")}
	case 7:
		m = Mut{Op: "sub", K: "v=0\r\n", V: pickOf(g, "v=1\r\n", "", "v=0\n", "v=0\r\nv=0\r\n")}
	case 8:
		m = Mut{Op: "suball", K: "\r\n", V: "\n"}
	case 9:
		m = Mut{Op: "sub", K: "s=Stream\r\n", V: "s=\r\n"}
	case 10:
		m = Mut{Op: "suball", K: "a=control:", V: "a=control:" + strings.Repeat("A", 3000)}
	case 11:
		m = Mut{Op: "sub", K: "t=0 0\r\n", V: "t=0 0\r\na=key-mgmt:mikey AQAFAP\r\n"}
	case 12:
		m = Mut{Op: "body", V: strings.Repeat("m=video 0 RTP/AVP 96\r\na=rtpmap:96 H264/90000\r\na=control:t\r\n", 300)}
	default:
		m = Mut{Op: "suball", K: "a=sendonly", V: pickOf(g, "a=recvonly", "a=inactive", "a=sendrecv")}
	}
	return respPiece("?", m)
}

func (g *gen) mutTransport(sc *Script) piece {
	switch g.pick(16) {
	case 0:
		return respPiece("r,tr=0", Mut{Op: "del", K: "Transport"})
	case 1:
		return respPiece("r,tr=0", Mut{Op: "set", K: "Transport", V: pickOf(g, "foo", "", "RTP/AVP/XXX;unicast", "RTP/AVP;unicast;client_port=a-b")})
	case 2:
		return respPiece("r,tr=0", Mut{Op: "add", K: "Transport", V: "RTP/AVP/TCP;unicast;interleaved=0-1"})
	case 3:
		return respPiece("r,tt=1,il=0-1,sp=n", Mut{Op: "set", K: "Transport", V: "RTP/AVP/TCP;unicast;interleaved=0-1"})
	case 4:
		return respPiece("r,tt=0,il=-,sp=v", Mut{Op: "set", K: "Transport", V: "RTP/AVP;unicast;client_port=5000-5001;server_port=6000-6001"})
	case 5:
		return respPiece("r,tt=0,il=-,sp=n", Mut{Op: "set", K: "Transport", V: "RTP/AVP;unicast;client_port=5000-5001"})
	case 6:
		return respPiece("r,tt=0,il=-,sp=a", Mut{Op: "set", K: "Transport", V: "RTP/AVP;unicast;client_port=5000-5001;server_port=" + pickOf(g, "0-1", "0-0", "1-1", "6000-0")})
	case 7:
		return respPiece("r,tt=0,il=-,sp=v,dl=m", Mut{Op: "set", K: "Transport", V: "RTP/AVP;multicast;client_port=5000-5001;server_port=6000-6001"})
	case 8:
		return respPiece("r,tt=0,il=-,sp=v,dl=n", Mut{Op: "set", K: "Transport", V: "RTP/AVP;client_port=5000-5001;server_port=6000-6001"})
	case 9:
		return respPiece("r,tt=1,il=-,sp=n", Mut{Op: "set", K: "Transport", V: "RTP/AVP/TCP;unicast"})
	case 10:
		a := pickOf(g, 5, 0, 2, 7)
		b := a + pickOf(g, 0, 2, 3)
		return respPiece(fmt.Sprintf("r,tt=1,il=%d-%d,sp=n", a, b), Mut{Op: "set", K: "Transport", V: fmt.Sprintf("RTP/AVP/TCP;unicast;interleaved=%d-%d", a, b)})
	case 11:
		a := pickOf(g, 0, 1, 2, 3, 4, 6, 20, 254)
		return respPiece(fmt.Sprintf("r,tt=1,il=%d-%d,sp=n", a, a+1), Mut{Op: "set", K: "Transport", V: fmt.Sprintf("RTP/AVP/TCP;unicast;interleaved=%d-%d", a, a+1)})
	case 12:
		return respPiece("r,tt=1,il=0-1,sp=n,dl=m", Mut{Op: "set", K: "Transport", V: "RTP/AVP/TCP;multicast;interleaved=0-1"})
	case 13:
		return respPiece("r,tt=1,il=0-1,sp=n,pf=1", Mut{Op: "set", K: "Transport", V: "RTP/SAVP/TCP;unicast;interleaved=0-1"})
	case 14:
		return respPiece("r,tt=0,il=-,sp=v,pf=1", Mut{Op: "set", K: "Transport", V: "RTP/SAVP;unicast;client_port=5000-5001;server_port=6000-6001"})
	}
	return respPiece("r,tt=0,il=-,sp=v", Mut{Op: "set", K: "Transport", V: "RTP/AVP;unicast;client_port=5000-5001;server_port=6000-6001;ssrc=ABCD1234;mode=play"})
}

// transport mutations without a predicted effect (property only)
func (g *gen) mutTransportWild() piece {
	v := pickOf(g,
		"RTP/AVP;unicast;client_port=5000-5001;server_port=70000-70001",
		"RTP/AVP;unicast;client_port=5000-5001;server_port=6000-6001;source=nonexistent.invalid",
		"RTP/AVP;unicast;client_port=5000-5001;server_port=6000-6001;source=256.1.1.1",
		"RTP/AVP;unicast;client_port=5000-5001;server_port=6000-6001;source=::1",
		"RTP/AVP;multicast;destination=239.64.0.9;port=15000-15001;ttl=1",
		"RTP/AVP;multicast;destination=nonexistent.invalid;port=15000-15001",
		"RTP/AVP;multicast;destination=127.0.0.1;port=0-1",
		"RTP/AVP;multicast;port=15000-15001",
		"RTP/AVP;multicast;destination=239.64.0.9",
		"RTP/AVP/TCP;unicast;interleaved=-1-0",
		"RTP/AVP/TCP;unicast;interleaved=255-256",
		"RTP/AVP/TCP;unicast;interleaved=99999999999-100000000000",
		"RTP/AVP/TCP;unicast;interleaved=0-1;ssrc=FFFFFFFFFF",
		"RTP/AVP;unicast;client_port=5000-5001;server_port=6000-6001;ttl=999;mode=record",
		strings.Repeat("RTP/AVP;unicast;", 200),
	)
	return respPiece("?", Mut{Op: "set", K: "Transport", V: v})
}

func (g *gen) mutWire() piece {
	switch g.pick(13) {
	case 0:
		return respPiece("?", Mut{Op: "clen", V: pickOf(g, "+5", "+100000", "-3", "abc", "-1", "99999999999999999999")})
	case 1:
		return respPiece("?", Mut{Op: "rawhdr", V: pickOf(g, "NoColonHere", ": novalue", "X:" + strings.Repeat("y", 5000), "A\x00B: c", " leading: space")})
	case 2:
		return respPiece("?", Mut{Op: "proto", V: pickOf(g, "RTSP/2.0", "HTTP/1.1", "RTSP/1.0x", "rtsp/1.0", "RTSP")})
	case 3:
		return respPiece("?", Mut{Op: "status", V: pickOf(g, "200", "abc OK", "-5 X", "99999999999 X", "2 00 OK")})
	case 4:
		var muts []Mut
		for i := range 300 {
			muts = append(muts, Mut{Op: "add", K: fmt.Sprintf("X-H%d", i), V: "v"})
		}
		return respPiece("?", muts...)
	case 5:
		return piece{acts: []Action{{Kind: "half"}}, abs: ""}
	case 6:
		return piece{acts: []Action{{Kind: "raw", Payload: []byte(pickOf(g, "\r\n\r\n", "xyz", "\x00\x01\x02", "RT", "$", "RTSP/1.0 200 OK\r\n", "SETUP", "OPTIONS * RTSP/1.0\r\n\r\n")), NoParse: true}, {Kind: "resp"}}, abs: "?"}
	case 7:
		return piece{acts: []Action{{Kind: "raw", Payload: []byte("FOO rtsp://x/y RTSP/1.0\r\nCSeq: 1\r\n\r\n"), NoParse: true}}, abs: "?"}
	case 8: // frame header that promises more than is sent
		return piece{acts: []Action{{Kind: "raw", Payload: []byte{'$', 0, 0xff, 0xff, 1, 2, 3}, NoParse: true}}, abs: "?"}
	case 9: // oversized frame, complete
		return piece{acts: []Action{{Kind: "frame", Ch: g.pick(4), Payload: make([]byte, 65535)}, {Kind: "resp"}}, abs: "?"}
	case 10:
		return respPiece("?", Mut{Op: "set", K: "CSeq", V: strings.Repeat("9", 400)})
	case 11:
		return piece{acts: []Action{{Kind: "drip", Method: pickOf(g, "stale", "options", "frame"), Ch: g.pick(3), Every: g.rt / pickOf(g, 2, 3, 5), For: pickOf(g, 4, 8) * g.rt}}, abs: "?"}
	}
	return respPiece("?", Mut{Op: "body", V: strings.Repeat("x", 200000)})
}

func (g *gen) framePayload() []byte {
	switch g.pick(8) {
	case 0: // valid RTP, pt 96
		return []byte{0x80, 96, 0, byte(g.pick(256)), 0, 0, 0, 1, 1, 2, 3, 4, 0x65, 1, 2, 3}
	case 1: // padding bit set, bad padding size
		return []byte{0xa0, 96, 0, 1, 0, 0, 0, 1, 1, 2, 3, 4, 0xff}
	case 2: // extension bit with truncated extension
		return []byte{0x90, 96, 0, 1, 0, 0, 0, 1, 1, 2, 3, 4, 0xbe, 0xde, 0xff, 0xff}
	case 3: // csrc count beyond the packet
		return []byte{0x8f, 96, 0, 1, 0, 0, 0, 1, 1, 2, 3, 4}
	case 4:
		return []byte{}
	case 5: // RTCP sender report
		return []byte{0x80, 200, 0, 6, 1, 2, 3, 4, 0, 0, 0, 1, 0, 0, 0, 2, 0, 0, 0, 3, 0, 0, 0, 4, 0, 0, 0, 5}
	case 6: // RTCP with bad length
		return []byte{0x80, 200, 0xff, 0xff, 1, 2, 3, 4}
	}
	b := make([]byte, 1+g.pick(60))
	for i := range b {
		b[i] = byte(g.pick(256))
	}
	return b
}

// extra events around a response
func (g *gen) around(inner piece, tcpPlay bool) []piece {
	switch g.pick(12) {
	case 0:
		return []piece{{acts: []Action{{Kind: "req", Method: "OPTIONS"}}, abs: "q1"}, inner}
	case 1:
		return []piece{inner, {acts: []Action{{Kind: "req", Method: "OPTIONS"}}, abs: "q1"}}
	case 2:
		m := pickOf(g, "GET_PARAMETER", "SET_PARAMETER", "TEARDOWN", "PLAY", "ANNOUNCE", "REDIRECT", "DESCRIBE")
		return []piece{{acts: []Action{{Kind: "req", Method: m}}, abs: "q0"}, inner}
	case 3:
		m := pickOf(g, "GET_PARAMETER", "SET_PARAMETER", "TEARDOWN", "PAUSE", "RECORD")
		return []piece{inner, {acts: []Action{{Kind: "req", Method: m}}, abs: "q0"}}
	case 4:
		ch := pickOf(g, 0, 1, 2, 3, 9, 200)
		return []piece{{acts: []Action{{Kind: "frame", Ch: ch, Payload: g.framePayload()}}, abs: fmt.Sprintf("f%d", ch)}, inner}
	case 5:
		ch := pickOf(g, 0, 1, 2, 3, 9, 200)
		lbl := fmt.Sprintf("f%d", ch)
		if tcpPlay {
			lbl = "?" // the reader races with the run loop that flips allowInterleavedFrames
		}
		return []piece{inner, {acts: []Action{{Kind: "frame", Ch: ch, Payload: g.framePayload()}}, abs: lbl}}
	case 6:
		return []piece{inner, {acts: []Action{{Kind: pickOf(g, "close", "rst")}}, abs: "x"}}
	case 7:
		return []piece{{acts: []Action{{Kind: pickOf(g, "close", "rst")}}, abs: "x"}}
	case 8:
		return []piece{inner, inner}
	case 9:
		return []piece{{acts: []Action{{Kind: "sleep", Ms: g.rt / 8}}, abs: ""}, inner}
	case 10:
		return []piece{{acts: []Action{{Kind: "sleep", Ms: g.rt*2 + 100}}, abs: "-stop"}, inner}
	}
	return []piece{} // dropped: silence
}

// mutateOne replaces the reaction to one request of the conversation.
func (g *gen) mutateOne(sc *Script, wild bool) {
	ms := progMethods(sc)
	t := ms[g.pick(len(ms))]
	occ := 1 + g.pick(t.n)
	if g.chance(0.1) {
		occ++
	}
	for _, r := range sc.React {
		if r.M == t.m && r.N == occ {
			return
		}
	}
	tcp := sc.Cfg.Proto == 3
	var inner piece
	roll := g.pick(100)
	switch {
	case wild && roll < 35:
		inner = g.mutWire()
	case wild && roll < 55 && t.m == "DESCRIBE":
		inner = g.mutSDPWild()
	case wild && roll < 55 && t.m == "SETUP":
		inner = g.mutTransportWild()
	case roll < 25:
		inner = g.mutStatus(t.m)
	case roll < 40:
		inner = g.mutCSeq()
	case roll < 52:
		inner = g.mutSession()
	case roll < 75 && t.m == "DESCRIBE":
		inner = g.mutDescribe()
	case roll < 80 && t.m == "SETUP":
		inner = g.mutTransport(sc)
	default:
		inner = respPiece("r")
	}
	var ps []piece
	if g.chance(0.45) || len(inner.acts[0].Muts) == 0 && inner.acts[0].Kind == "resp" {
		ps = g.around(inner, tcp && (t.m == "PLAY" || t.m == "PAUSE" || t.m == "RECORD"))
	} else {
		ps = []piece{inner}
	}
	// a long sleep ends the reaction as far as the client is concerned
	for i, p := range ps {
		if p.abs == "-stop" {
			ps[i].abs = ""
			for j := i + 1; j < len(ps); j++ {
				ps[j].abs = ""
			}
		}
	}
	acts, abs, model := join(ps...)
	for _, a := range acts {
		if a.Kind == "half" && len(acts) > 1 {
			model = false // whatever follows half a message is read as part of it
		}
	}
	sc.React = append(sc.React, Reaction{M: t.m, N: occ, Acts: acts, Abs: abs})
	if !model {
		sc.Model = false
	}
}

// onAccept adds something the server writes as soon as a connection is accepted.
func (g *gen) onAccept(sc *Script) {
	var p piece
	switch g.pick(7) {
	case 0:
		p = piece{acts: []Action{{Kind: "req", Method: "OPTIONS"}}, abs: "q1"}
	case 1:
		p = piece{acts: []Action{{Kind: "req", Method: pickOf(g, "GET_PARAMETER", "TEARDOWN", "PLAY")}}, abs: "q0"}
	case 2:
		ch := pickOf(g, 0, 1, 7)
		p = piece{acts: []Action{{Kind: "frame", Ch: ch, Payload: g.framePayload()}}, abs: fmt.Sprintf("f%d", ch)}
	case 3: // a response nobody asked for, without CSeq: taken as the answer to the first request
		p = respPiece("r,cs=m,st=200", Mut{Op: "del", K: "CSeq"}, Mut{Op: "del", K: "Public"})
	case 4: // with a CSeq that matches nothing
		p = respPiece("r,cs=w", Mut{Op: "set", K: "CSeq", V: "4711"})
	case 5:
		p = piece{acts: []Action{{Kind: "close"}}, abs: "x"}
		if g.chance(0.5) { // a reset right after the handshake may already fail the dial: two legitimate outcomes
			p = piece{acts: []Action{{Kind: "rst"}}, abs: "?"}
		}
	default:
		p = piece{acts: []Action{{Kind: "raw", Payload: []byte(pickOf(g, "\x00\x00", "hello\r\n", "$$$$", "RTSP/1.0")), NoParse: true}}, abs: "?"}
	}
	acts, abs, model := join(p)
	sc.Accept = append(sc.Accept, Reaction{N: 1 + g.pick(2), Acts: acts, Abs: abs})
	if !model {
		sc.Model = false
	}
}

// lingering conversations: timers of the play state (liveness checks, keep-alives, UDP→TCP switch)
func (g *gen) lingering(i int) *Script {
	sc := g.baseScript(false)
	sc.Model = false
	sc.Name = fmt.Sprintf("linger-%d", i)
	sc.Cfg.BackCh = false
	for j := range sc.Medias {
		sc.Medias[j].Back = false
	}
	var prog []Call
	for _, c := range sc.Prog {
		prog = append(prog, c)
		if c.Api == "play" {
			prog = append(prog, Call{Api: "sleep", Ms: pickOf(g, 350, 700, 1300)})
		}
	}
	sc.Prog = prog
	switch g.pick(4) {
	case 0: // automatic protocol, nothing arrives over UDP: the client switches to TCP on its own
		sc.Cfg.Proto = 0
		sc.Cfg.UDPms = 250
	case 1: // UDP data arrives
		sc.Cfg.Proto = pickOf(g, 0, 1)
		sc.Cfg.UDPms = 250
		var acts []Action
		acts = append(acts, Action{Kind: "resp"})
		for range 1 + g.pick(6) {
			acts = append(acts, Action{Kind: "udp", Ch: g.pick(2), Payload: g.framePayload()})
		}
		sc.React = append(sc.React, Reaction{M: "PLAY", N: 1, Acts: acts, Abs: "?"})
	case 2: // TCP with data flowing for a while
		sc.Cfg.Proto = 3
		var acts []Action
		acts = append(acts, Action{Kind: "resp"})
		for range 1 + g.pick(8) {
			acts = append(acts, Action{Kind: "frame", Ch: g.pick(6), Payload: g.framePayload()}, Action{Kind: "sleep", Ms: 20 + g.pick(150)})
		}
		sc.React = append(sc.React, Reaction{M: "PLAY", N: 1, Acts: acts, Abs: "?"})
	default: // a session timeout that makes the client send keep-alives every second
		sc.React = append(sc.React, Reaction{M: "SETUP", N: 1, Acts: []Action{{Kind: "resp", Muts: []Mut{{Op: "set", K: "Session", V: "S1;timeout=6"}}}}, Abs: "?"})
	}
	for range g.pick(3) {
		g.mutateOne(sc, g.chance(0.3))
	}
	sc.Model = false
	return sc
}

// udpSwitch: automatic protocol over UDP, the liveness timer fires once while the caller sleeps: with no
// UDP packet the client switches to TCP by itself (TEARDOWN, new connection, DESCRIBE, SETUPs, PLAY);
// the reactions to those requests are mutated.  Compared with the model (`tick`).
func (g *gen) udpSwitch(i int) *Script {
	sc := &Script{Model: true, Name: fmt.Sprintf("switch-%d", i)}
	sc.Cfg = Cfg{Proto: 0, Creds: g.chance(0.3), RTms: g.rt, UDPms: 200}
	if sc.Cfg.Creds && g.chance(0.7) {
		sc.ServerAuth = pickOf(g, "basic", "digest")
	}
	n := 1 + g.pick(2)
	sc.Medias = g.medias(n, false, false)
	sc.Prog = append(sc.Prog, Call{Api: "describe"})
	for j := range n {
		sc.Prog = append(sc.Prog, Call{Api: "setup", Media: j})
	}
	got := g.chance(0.25)
	sc.Prog = append(sc.Prog, Call{Api: "play"}, Call{Api: "sleep", Ms: 200 + g.rt + 200, Got: got})
	if g.chance(0.5) {
		sc.Prog = append(sc.Prog, Call{Api: "pause"})
	}
	if got {
		acts := []Action{{Kind: "resp"}}
		for range 1 + g.pick(3) {
			acts = append(acts, Action{Kind: "udp", Ch: g.pick(2), Payload: g.framePayload()})
		}
		sc.React = append(sc.React, Reaction{M: "PLAY", N: 1, Acts: acts, Abs: "r"})
		return sc
	}
	// mutate what the server answers during the switch
	for range 1 + g.pick(2) {
		m := pickOf(g, "OPTIONS", "DESCRIBE", "SETUP", "SETUP", "PLAY", "TEARDOWN")
		occ := 2
		switch m {
		case "SETUP":
			occ = n + 1 + g.pick(n)
		case "TEARDOWN":
			occ = 1
		}
		dup := false
		for _, r := range sc.React {
			if r.M == m && r.N == occ {
				dup = true
			}
		}
		if dup {
			continue
		}
		var inner piece
		switch g.pick(6) {
		case 0:
			inner = g.mutStatus(m)
		case 1:
			inner = g.mutCSeq()
		case 2:
			inner = g.mutSession()
		case 3:
			if m == "SETUP" {
				inner = g.mutTransport(sc)
			} else if m == "DESCRIBE" {
				inner = g.mutDescribe()
			} else {
				inner = respPiece("r")
			}
		default:
			inner = respPiece("r")
		}
		ps := []piece{inner}
		if g.chance(0.4) {
			// during the switch SETUP is followed at once by PLAY, which flips allowInterleavedFrames: a
			// frame written after the response races with it
			ps = g.around(inner, m == "PLAY" || m == "SETUP")
		}
		for k, p := range ps {
			if p.abs == "-stop" {
				ps[k].abs = ""
				for j := k + 1; j < len(ps); j++ {
					ps[j].abs = ""
				}
			}
		}
		acts, abs, model := join(ps...)
		for _, a := range acts {
			if a.Kind == "sleep" && a.Ms > g.rt/2 {
				model = false // would push the switch past the caller's sleep
			}
		}
		sc.React = append(sc.React, Reaction{M: m, N: occ, Acts: acts, Abs: abs})
		if !model {
			sc.Model = false
		}
	}
	return sc
}

// tunnelled: RTSP over HTTP (the handshake misbehaves, or it is correct and the conversation is
// mutated as usual) and RTSP over WebSocket (hostile handshakes only); not modelled
func (g *gen) tunnelled(i int) *Script {
	sc := g.baseScript(g.chance(0.25))
	sc.Name = fmt.Sprintf("tunnel-%d", i)
	sc.Model = false
	sc.Cfg.Proto = pickOf(g, 0, 3)
	sc.Cfg.BackCh = false
	for j := range sc.Medias {
		sc.Medias[j].Back = false
	}
	if g.chance(0.2) {
		sc.Cfg.Tunnel = 2
		sc.Tun = pickOf(g, "status404", "garbage", "silence", "close", "half", "status500keep")
		return sc
	}
	sc.Cfg.Tunnel = 1
	if g.chance(0.55) {
		sc.Tun = pickOf(g, "status404", "status500keep", "garbage", "silence", "close", "biglen", "chunked", "continue", "slow", "half", "hugeheader", "postclose", "postsilence", "postanswer")
	}
	for range g.pick(3) {
		g.mutateOne(sc, g.chance(0.3))
	}
	sc.Model = false
	return sc
}

// multicast: Client.Protocol = UDP multicast (listeners on the group the server names); not modelled
func (g *gen) multicast(i int) *Script {
	sc := g.baseScript(false)
	sc.Name = fmt.Sprintf("mcast-%d", i)
	sc.Model = false
	sc.Cfg.Proto = 2
	sc.Cfg.BackCh = false
	for j := range sc.Medias {
		sc.Medias[j].Back = false
	}
	if g.chance(0.6) {
		v := pickOf(g,
			"RTP/AVP;multicast;destination=239.64.0.9;port=15000-15001;ttl=1",
			"RTP/AVP;multicast;destination=239.64.0.9;port=15000-15001;source=127.0.0.1",
			"RTP/AVP;multicast;destination=nonexistent.invalid;port=15000-15001",
			"RTP/AVP;multicast;destination=127.0.0.1;port=0-1",
			"RTP/AVP;multicast;destination=224.0.0.1;port=65535-65536",
			"RTP/AVP;multicast;destination=ff02::1;port=15000-15001",
			"RTP/AVP;multicast;port=15000-15001",
			"RTP/AVP;multicast;destination=239.64.0.9",
			"RTP/AVP;unicast;client_port=5000-5001;server_port=6000-6001",
			"RTP/AVP/TCP;unicast;interleaved=0-1",
			"RTP/AVP;multicast;destination=239.64.0.9;port=15000-15001;source=nonexistent.invalid",
		)
		sc.React = append(sc.React, Reaction{M: "SETUP", N: 1 + g.pick(2), Acts: []Action{{Kind: "resp", Muts: []Mut{{Op: "set", K: "Transport", V: v}}}}, Abs: "?"})
	}
	for range g.pick(2) {
		g.mutateOne(sc, g.chance(0.3))
	}
	sc.Model = false
	return sc
}

// features: rarely combined client options and session shapes, then a server that goes silent (or
// closes) once the session runs; not modelled
func (g *gen) features(i int) *Script {
	sc := &Script{Name: fmt.Sprintf("feat-%d", i)}
	rt := pickOf(g, 300, g.rt, 700)
	sc.Cfg = Cfg{Proto: pickOf(g, 0, 1, 3), BackCh: g.chance(0.5), AnyPort: g.chance(0.3), NoSR: g.chance(0.3),
		Creds: g.chance(0.2), RTms: rt, UDPms: pickOf(g, 150, 250, 600)}
	if g.chance(0.3) {
		sc.Cfg.WTms = pickOf(g, 100, 1000)
	}
	if g.chance(0.15) {
		sc.Cfg.Tunnel = 1
		sc.Cfg.Proto = pickOf(g, 0, 3)
	}
	if sc.Cfg.Creds {
		sc.ServerAuth = pickOf(g, "basic", "digest")
	}
	rec := g.chance(0.25)
	n := 1 + g.pick(3)
	codecs := []string{"h264", "pcmu", "opus"}
	for j := range n {
		m := MediaSpec{Control: fmt.Sprintf("trackID=%d", j), Codec: codecs[j%3]}
		if !rec && g.chance(0.45) {
			m.Back = true
		}
		sc.Medias = append(sc.Medias, m)
	}
	if rec {
		sc.Prog = append(sc.Prog, Call{Api: "announce"})
	} else {
		sc.Prog = append(sc.Prog, Call{Api: "describe"})
	}
	for j := range n {
		if g.chance(0.8) {
			sc.Prog = append(sc.Prog, Call{Api: "setup", Media: j})
		}
	}
	run := "play"
	if rec {
		run = "record"
	}
	sc.Prog = append(sc.Prog, Call{Api: run})
	sc.Frames = g.chance(0.5)
	switch g.pick(4) {
	case 0, 1: // silence
		sc.Prog = append(sc.Prog, Call{Api: "sleep", Ms: 1300 + rt + sc.Cfg.UDPms + 300, Silent: true})
	case 2: // the server closes a little later
		sc.React = append(sc.React, Reaction{M: strings.ToUpper(run), N: 1, Acts: []Action{{Kind: "resp"}, {Kind: "sleep", Ms: 30 + g.pick(200)}, {Kind: pickOf(g, "close", "rst")}}, Abs: "?"})
		sc.Prog = append(sc.Prog, Call{Api: "sleep", Ms: 400})
	default: // the session is paused and resumed, then silence
		sc.Prog = append(sc.Prog, Call{Api: "pause"}, Call{Api: run}, Call{Api: "sleep", Ms: 1300 + rt + sc.Cfg.UDPms + 300, Silent: true})
	}
	sc.Prog = append(sc.Prog, Call{Api: "pause"}, Call{Api: "options"})
	return sc
}

// concurrent: Close() is called from another goroutine while a call is being served
func (g *gen) concurrent(i int) *Script {
	sc := g.baseScript(g.chance(0.3))
	sc.Name = fmt.Sprintf("conc-%d", i)
	sc.Model = false
	sc.ConcAt = 1 + g.pick(len(sc.Prog))
	sc.ConcClose = pickOf(g, 0, 1, 5, 40, g.rt/2)
	ms := progMethods(sc)
	t := ms[g.pick(len(ms))]
	var acts []Action
	switch g.pick(3) {
	case 0:
	case 1:
		acts = []Action{{Kind: "sleep", Ms: g.rt / 2}, {Kind: "resp"}}
	default:
		acts = []Action{{Kind: "sleep", Ms: 20}, {Kind: "resp"}}
	}
	sc.React = append(sc.React, Reaction{M: t.m, N: 1 + g.pick(t.n), Acts: acts, Abs: "?"})
	return sc
}

func (g *gen) badMikey() string {
	b := mikeyBytes(0x1000)
	switch g.pick(9) {
	case 0:
		return "mikey "
	case 1:
		return "mikey !!!notbase64"
	case 2:
		return "foo bar"
	case 3:
		if len(b) > 4 {
			b = b[:1+g.pick(len(b)-1)]
		}
	case 4:
		b = append(b, b...)
	case 5:
		b = nil
	default:
		for range 1 + g.pick(4) {
			if len(b) > 0 {
				b[g.pick(len(b))] ^= byte(1 << g.pick(8))
			}
		}
	}
	return "mikey " + base64.StdEncoding.EncodeToString(b)
}

// secure: rtsps conversations (TLS, SRTP keys in MIKEY messages); not modelled
func (g *gen) secure(i int) *Script {
	sc := g.baseScript(g.chance(0.3))
	sc.Name = fmt.Sprintf("tls-%d", i)
	sc.Model = false
	sc.Cfg.Secure = true
	rec := sc.Prog[0].Api == "announce"
	for j := range sc.Medias {
		sc.Medias[j].Back = false
		if g.chance(0.7) {
			sc.Medias[j].Secure = true
			if !rec && g.chance(0.35) {
				sc.Medias[j].KeyMgmt = g.badMikey()
			}
		}
	}
	sc.Cfg.BackCh = false
	if g.chance(0.4) { // KeyMgmt header in a SETUP response
		v := `prot=mikey;uri="";data="` + strings.TrimPrefix(pickOf(g, "mikey "+mikeyB64(0x2000), g.badMikey()), "mikey ") + `"`
		if g.chance(0.2) {
			v = pickOf(g, "", "prot=mikey", `prot=foo;uri="";data="AAAA"`, `data=""`)
		}
		sc.React = append(sc.React, Reaction{M: "SETUP", N: 1 + g.pick(2), Acts: []Action{{Kind: "resp", Muts: []Mut{{Op: "set", K: "KeyMgmt", V: v}}}}, Abs: "?"})
	}
	if g.chance(0.15) { // Axis cameras: "key management failure"
		sc.React = append(sc.React, Reaction{M: "SETUP", N: 1, Acts: []Action{{Kind: "resp", Muts: []Mut{{Op: "status", V: "463 Key management failure"}}}}, Abs: "?"})
	}
	for range g.pick(3) {
		g.mutateOne(sc, g.chance(0.3))
	}
	if g.chance(0.3) && !rec { // SRTP-looking datagrams / frames after PLAY
		var acts []Action
		acts = append(acts, Action{Kind: "resp"})
		for range 1 + g.pick(5) {
			if sc.Cfg.Proto == 3 {
				acts = append(acts, Action{Kind: "frame", Ch: g.pick(4), Payload: g.framePayload()})
			} else {
				acts = append(acts, Action{Kind: "udp", Ch: g.pick(2), Payload: g.framePayload()})
			}
		}
		sc.React = append(sc.React, Reaction{M: "PLAY", N: 1, Acts: acts, Abs: "?"})
	}
	sc.Model = false
	sc.Frames = g.chance(0.5)
	return sc
}

// script makes one mutated conversation.
func (g *gen) script(i int, wild bool) *Script {
	sc := g.baseScript(g.chance(0.3))
	if g.chance(0.08) {
		g.onAccept(sc)
	}
	n := 1
	if g.chance(0.3) {
		n = 2
	}
	if g.chance(0.05) {
		n = 0
	}
	for range n {
		g.mutateOne(sc, wild)
	}
	kind := "gram"
	if wild {
		kind = "wild"
	}
	sc.Name = fmt.Sprintf("%s-%d", kind, i)
	// what the model does not cover
	if sc.Cfg.Proto == 2 || sc.Cfg.Secure || sc.Cfg.Tunnel != 0 {
		sc.Model = false
	}
	// a server that sleeps past the timeout also delays its later reactions on that connection: only
	// predictable when nothing else (a response without usable CSeq) can complete the waiting call early
	long, loose := false, len(sc.Accept) > 0
	for _, r := range sc.React {
		for _, a := range r.Acts {
			if a.Kind == "sleep" && a.Ms > sc.Cfg.RTms/2 {
				long = true
			}
		}
		if strings.Contains(r.Abs, "cs=m") || strings.Contains(r.Abs, "cs=d") {
			loose = true
		}
	}
	if long && loose {
		sc.Model = false
	}
	return sc
}
