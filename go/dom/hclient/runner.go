package hclient

import (
	"context"
	"crypto/tls"
	"errors"
	"fmt"
	"net"
	"runtime"
	"sort"
	"strings"
	"sync"
	"sync/atomic"
	"time"

	"github.com/pion/rtcp"
	"github.com/pion/rtp"

	"github.com/bluenviron/gortsplib/v5"
	"github.com/bluenviron/gortsplib/v5/pkg/base"
	"github.com/bluenviron/gortsplib/v5/pkg/description"
	"github.com/bluenviron/gortsplib/v5/pkg/format"
	"github.com/bluenviron/gortsplib/v5/pkg/headers"
	"github.com/bluenviron/gortsplib/v5/pkg/liberrors"
)

// CallRes is what one API call of the real client did.
type CallRes struct {
	Api      string `json:"api"`
	Media    int    `json:"media"`
	Class    string `json:"class"`
	Ms       int    `json:"ms"`
	State    string `json:"state"`
	Closed   bool   `json:"closed"`
	CloseCls string `json:"close_cls"`
	Quiesced bool   `json:"quiesced"`
	Skipped  bool   `json:"skipped,omitempty"`
}

// Viol is a violation of the property observed by the runner.
type Viol struct {
	Clause string `json:"clause"`
	Key    string `json:"key"`
	Detail string `json:"detail"`
}

// Outcome is the result of one conversation.
type Outcome struct {
	Idx        int       `json:"idx"`
	Calls      []CallRes `json:"calls"`
	CloseMs    int       `json:"close_ms"`
	FinalState string    `json:"final_state"`
	FinalClose string    `json:"final_close"`
	Log        []string  `json:"log"`
	Viol       []Viol    `json:"viol,omitempty"`
	Ms         int       `json:"ms"`
	Err        string    `json:"err,omitempty"` // harness problem (not a verdict)
}

// classify maps an error of the client to its result class (the liberrors type, or "other").
func classify(err error) string {
	if err == nil {
		return "ok"
	}
	switch {
	case as[liberrors.ErrClientRequestTimedOut](err):
		return "timeout"
	case as[liberrors.ErrClientBadStatusCode](err):
		return "badStatus"
	case as[liberrors.ErrClientInvalidState](err):
		return "invalidState"
	case as[liberrors.ErrClientTerminated](err):
		return "terminated"
	case as[liberrors.ErrClientSessionHeaderInvalid](err):
		return "sessionInvalid"
	case as[liberrors.ErrClientAuthSetup](err):
		return "authSetup"
	case as[liberrors.ErrClientUnhandledMethod](err):
		return "unhandledMethod"
	case as[liberrors.ErrClientUnexpectedFrame](err):
		return "unexpectedFrame"
	case as[liberrors.ErrClientContentTypeMissing](err):
		return "contentTypeMissing"
	case as[liberrors.ErrClientContentTypeUnsupported](err):
		return "contentTypeUnsupported"
	case as[liberrors.ErrClientSDPInvalid](err):
		return "sdpInvalid"
	case as[liberrors.ErrClientTransportHeaderInvalid](err):
		return "transportInvalid"
	case as[liberrors.ErrClientServerRequestedTCP](err):
		return "serverRequestedTCP"
	case as[liberrors.ErrClientServerRequestedUDP](err):
		return "serverRequestedUDP"
	case as[liberrors.ErrClientTransportHeaderInvalidDelivery](err):
		return "invalidDelivery"
	case as[liberrors.ErrClientServerPortsNotProvided](err):
		return "serverPortsNotProvided"
	case as[liberrors.ErrClientTransportHeaderNoInterleavedIDs](err):
		return "noInterleavedIDs"
	case as[liberrors.ErrClientTransportHeaderInvalidInterleavedIDs](err):
		return "invalidInterleavedIDs"
	case as[liberrors.ErrClientTransportHeaderInterleavedIDsInUse](err):
		return "interleavedIDsInUse"
	case as[liberrors.ErrClientTCPTimeout](err):
		return "tcpTimeout"
	case as[liberrors.ErrClientUDPTimeout](err):
		return "udpTimeout"
	}
	return "other"
}

func as[T error](err error) bool {
	var t T
	return errors.As(err, &t)
}

func formatsOf(m MediaSpec) []format.Format {
	switch m.Codec {
	case "pcmu":
		return []format.Format{&format.G711{PayloadTyp: 0, MULaw: true, SampleRate: 8000, ChannelCount: 1}}
	case "opus":
		return []format.Format{&format.Opus{PayloadTyp: 97, ChannelCount: 2}}
	}
	return []format.Format{&format.H264{PayloadTyp: 96, PacketizationMode: 1}}
}

func localDesc(ms []MediaSpec) *description.Session {
	d := &description.Session{}
	for _, m := range ms {
		typ := description.MediaTypeVideo
		if m.Codec != "h264" && m.Codec != "" {
			typ = description.MediaTypeAudio
		}
		md := &description.Media{Type: typ, Control: m.Control, IsBackChannel: m.Back, Formats: formatsOf(m)}
		if m.Secure {
			md.Profile = headers.TransportProfileSAVP
		}
		d.Medias = append(d.Medias, md)
	}
	return d
}

type runner struct {
	sc  *Script
	srv *server
	c   *gortsplib.Client
	u   *base.URL
	out *Outcome

	dials             atomic.Int32 // successful dials to the scripted server
	seenResp, seenReq atomic.Int32
	baseResp, baseReq atomic.Int32
	waited            chan struct{}
	waitErr           error

	setUp   map[int]bool
	desc    *description.Session // from Describe
	recDesc *description.Session // announced
	rt      time.Duration
}

func (r *runner) viol(clause, key, detail string) {
	r.out.Viol = append(r.out.Viol, Viol{Clause: clause, Key: key, Detail: detail})
}

type callOut struct {
	err  error
	desc *description.Session
}

// invoke performs one API call (blocking).
func (r *runner) invoke(call Call) (callOut, bool) {
	switch call.Api {
	case "options":
		_, err := r.c.Options(r.u)
		return callOut{err: err}, true
	case "describe":
		d, _, err := r.c.Describe(r.u)
		return callOut{err: err, desc: d}, true
	case "announce":
		d := localDesc(r.sc.Medias)
		_, err := r.c.Announce(r.u, d)
		if err == nil {
			r.recDesc = d
		}
		return callOut{err: err}, true
	case "setup":
		switch {
		case r.desc != nil:
			if call.Media >= len(r.desc.Medias) {
				return callOut{}, false
			}
			_, err := r.c.Setup(r.desc.BaseURL, r.desc.Medias[call.Media], 0, 0)
			return callOut{err: err}, true
		case r.recDesc != nil:
			if call.Media >= len(r.recDesc.Medias) {
				return callOut{}, false
			}
			_, err := r.c.Setup(r.u, r.recDesc.Medias[call.Media], 0, 0)
			return callOut{err: err}, true
		default:
			d := localDesc(r.sc.Medias)
			if call.Media >= len(d.Medias) {
				return callOut{}, false
			}
			_, err := r.c.Setup(r.u, d.Medias[call.Media], 0, 0)
			return callOut{err: err}, true
		}
	case "play":
		_, err := r.c.Play(nil)
		return callOut{err: err}, true
	case "record":
		_, err := r.c.Record()
		return callOut{err: err}, true
	case "pause":
		_, err := r.c.Pause()
		return callOut{err: err}, true
	}
	return callOut{}, false
}

// watchdog bound of one API call: several times the per-request timeouts
func (r *runner) bound() time.Duration { return 10*r.rt + 2*time.Second }

func stacks() string {
	buf := make([]byte, 1<<20)
	n := runtime.Stack(buf, true)
	return string(buf[:n])
}

// libGoroutines returns the stacks of goroutines that are inside gortsplib code.
func libGoroutines() []string {
	var out []string
	for _, g := range strings.Split(stacks(), "\n\n") {
		if strings.Contains(g, "github.com/bluenviron/gortsplib/v5") && !strings.Contains(g, "verifharness/dom/hclient.(*server)") {
			out = append(out, g)
		}
	}
	return out
}

func (r *runner) isClosed() bool {
	select {
	case <-r.waited:
		return true
	default:
		return gortsplib.VerifClientSnapshot(r.c).Closed
	}
}

// quiesce waits until the server has finished reacting and the client has consumed what it wrote.
func (r *runner) quiesce() bool {
	deadline := time.Now().Add(400 * time.Millisecond)
	ok := false
	for time.Now().Before(deadline) {
		if r.isClosed() {
			ok = true
			break
		}
		if r.srv.busy.Load() == 0 &&
			r.seenResp.Load()-r.baseResp.Load() >= r.srv.wroteResp.Load() &&
			r.seenReq.Load()-r.baseReq.Load() >= r.srv.wroteReq.Load() {
			ok = true
			break
		}
		time.Sleep(500 * time.Microsecond)
	}
	if ok && !r.isClosed() && gortsplib.VerifClientSnapshot(r.c).MustClose {
		// the run loop is on its way out (doClose): wait until it is done
		select {
		case <-r.waited:
		case <-time.After(2 * time.Second):
		}
	}
	if ok && r.srv.killer.Swap(false) && !r.isClosed() {
		// something was written that may kill the client: give the reader time to find it
		end := time.Now().Add(120 * time.Millisecond)
		for time.Now().Before(end) && !r.isClosed() {
			time.Sleep(300 * time.Microsecond)
		}
	}
	return ok
}

func (r *runner) snapshot(cr *CallRes) {
	st := gortsplib.VerifClientSnapshot(r.c)
	cr.State = st.State
	cr.Closed = st.Closed
	cr.CloseCls = "-"
	if st.Closed {
		<-r.waited
		cr.CloseCls = classify(r.waitErr)
	}
}

func (r *runner) timedCall(call Call) (co callOut, ran bool, ms int, hung bool) {
	type res struct {
		co  callOut
		ran bool
	}
	ch := make(chan res, 1)
	t0 := time.Now()
	go func() {
		co, ran := r.invoke(call)
		ch <- res{co, ran}
	}()
	select {
	case x := <-ch:
		return x.co, x.ran, int(time.Since(t0).Milliseconds()), false
	case <-time.After(r.bound()):
		return callOut{}, true, int(time.Since(t0).Milliseconds()), true
	}
}

func (r *runner) closeWithWatchdog() (ms int, hung bool) {
	ch := make(chan struct{})
	t0 := time.Now()
	go func() {
		r.c.Close()
		close(ch)
	}()
	select {
	case <-ch:
		return int(time.Since(t0).Milliseconds()), false
	case <-time.After(r.bound()):
		return int(time.Since(t0).Milliseconds()), true
	}
}

func runScript(sc *Script) *Outcome {
	out := &Outcome{}
	t0 := time.Now()
	defer func() { out.Ms = int(time.Since(t0).Milliseconds()) }()
	srv, err := newServer(sc)
	if err != nil {
		out.Err = "listen: " + err.Error()
		return out
	}
	defer srv.close()

	rt := time.Duration(sc.Cfg.RTms) * time.Millisecond
	if rt == 0 {
		rt = 400 * time.Millisecond
	}
	r := &runner{sc: sc, srv: srv, out: out, rt: rt, waited: make(chan struct{}), setUp: map[int]bool{}}
	srv.onAccept = func() {
		r.baseResp.Store(r.seenResp.Load())
		r.baseReq.Store(r.seenReq.Load())
	}
	scheme := "rtsp"
	if sc.Cfg.Secure {
		scheme = "rtsps"
	}
	us := scheme + "://"
	if sc.Cfg.Creds {
		us += "user:pass@"
	}
	us += srv.host + "/stream"
	r.u, err = base.ParseURL(us)
	if err != nil {
		out.Err = err.Error()
		return out
	}
	wt := rt
	if sc.Cfg.WTms > 0 {
		wt = time.Duration(sc.Cfg.WTms) * time.Millisecond
	}
	udpT := time.Hour
	if sc.Cfg.UDPms > 0 {
		udpT = time.Duration(sc.Cfg.UDPms) * time.Millisecond
	}
	c := &gortsplib.Client{
		Scheme: scheme, Host: srv.host, TLSConfig: &tls.Config{InsecureSkipVerify: true}, //nolint:gosec
		ReadTimeout: rt, WriteTimeout: wt, InitialUDPReadTimeout: udpT, DisableRTCPSenderReports: sc.Cfg.NoSR,
		AnyPortEnable: sc.Cfg.AnyPort, RequestBackChannels: sc.Cfg.BackCh,
		OnResponse:        func(*base.Response) { r.seenResp.Add(1) },
		OnServerRequest:   func(*base.Request) { r.seenReq.Add(1) },
		OnTransportSwitch: func(error) {},
		OnPacketsLost:     func(uint64) {},
		OnDecodeError:     func(error) {},
		DialContext: func(ctx context.Context, network, address string) (net.Conn, error) {
			nc, err := (&net.Dialer{}).DialContext(ctx, network, address)
			if err == nil && address == srv.host {
				r.dials.Add(1)
			}
			return nc, err
		},
		ResolveIPAddr: func(string, string) (*net.IPAddr, error) {
			return nil, fmt.Errorf("no name resolution in the harness")
		},
	}
	switch sc.Cfg.Tunnel {
	case 1:
		c.Tunnel = gortsplib.TunnelHTTP
	case 2:
		c.Tunnel = gortsplib.TunnelWebSocket
	}
	switch sc.Cfg.Proto {
	case 1:
		p := gortsplib.ProtocolUDP
		c.Protocol = &p
	case 2:
		p := gortsplib.ProtocolUDPMulticast
		c.Protocol = &p
	case 3:
		p := gortsplib.ProtocolTCP
		c.Protocol = &p
	}
	r.c = c
	if err = c.Start(); err != nil {
		out.Err = "start: " + err.Error()
		return out
	}
	go func() {
		r.waitErr = c.Wait()
		close(r.waited)
	}()

	var concOnce sync.Once
	aborted := false
	for i, call := range sc.Prog {
		if call.Api == "flood" {
			// the server has stopped reading: write media until the queue is full (the writer is then stuck
			// in a write that will hit WriteTimeout), wait until Pct % of WriteTimeout have passed
			var md *description.Media
			switch {
			case r.recDesc != nil && call.Media < len(r.recDesc.Medias):
				md = r.recDesc.Medias[call.Media]
			case r.desc != nil && call.Media < len(r.desc.Medias):
				md = r.desc.Medias[call.Media]
			}
			if md != nil && r.setUp[call.Media] && !r.isClosed() {
				t0 := time.Now()
				stall := time.Time{}
				for sq := 0; time.Since(t0) < 1500*time.Millisecond; sq++ {
					err := c.WritePacketRTP(md, &rtp.Packet{
						Header:  rtp.Header{Version: 2, PayloadType: md.Formats[0].PayloadType(), SequenceNumber: uint16(sq), Timestamp: uint32(sq * 90)},
						Payload: make([]byte, 1300),
					})
					if err != nil {
						stall = time.Now()
						break
					}
				}
				if !stall.IsZero() {
					if d := time.Duration(call.Pct)*wt/100 - time.Since(stall); d > 0 {
						time.Sleep(d)
					}
				}
			}
			continue
		}
		if call.Api == "sleep" {
			// a playing session with at least one media the client READS from must notice a server that
			// went silent: the inbound-silence check (every second; UDP: first after InitialUDPReadTimeout)
			// ends the client with an error after ReadTimeout without anything arriving
			before := gortsplib.VerifClientSnapshot(r.c)
			reads := false
			for mi, ok := range r.setUp {
				if ok && mi < len(sc.Medias) && !sc.Medias[mi].Back {
					reads = true
				}
			}
			time.Sleep(time.Duration(call.Ms) * time.Millisecond)
			cr := CallRes{Api: "sleep", Ms: call.Ms, Class: b01(call.Got)}
			cr.Quiesced = r.quiesce()
			if call.Silent && call.Ms >= 2000 && before.State == "play" && !before.Closed && reads && sc.ConcAt == 0 {
				select {
				case <-r.waited:
					if r.waitErr == nil {
						r.viol("failure-reported", "silence-nil-error", "the server went silent while playing; Wait() returned nil")
					}
				case <-time.After(500 * time.Millisecond):
					r.viol("failure-reported", "silence-not-detected:"+before.Protocol,
						fmt.Sprintf("playing over %s with %d medias set up (at least one the client reads from), server silent for %d ms (ReadTimeout %v): the client is still running, Wait() blocks for ever",
							before.Protocol, before.Medias, call.Ms, rt))
				}
			}
			r.snapshot(&cr)
			out.Calls = append(out.Calls, cr)
			continue
		}
		closedBefore := r.isClosed()
		srv.mu.Lock()
		nreqBefore := srv.nreq
		srv.mu.Unlock()
		if sc.ConcAt == i+1 {
			d := time.Duration(sc.ConcClose) * time.Millisecond
			go func() {
				time.Sleep(d)
				concOnce.Do(func() { c.Close() })
			}()
		}
		co, ran, ms, hung := r.timedCall(call)
		cr := CallRes{Api: call.Api, Media: call.Media, Ms: ms}
		if hung {
			cr.Class = "HUNG"
			out.Calls = append(out.Calls, cr)
			srv.mu.Lock()
			if n := srv.nreq - nreqBefore; n > 100 {
				r.viol("call-returns", "retry-storm:"+call.Api, fmt.Sprintf("%s put %d requests on the wire and still had not returned after %v", call.Api, n, r.bound()))
			}
			srv.mu.Unlock()
			r.viol("call-returns", "call-hang:"+call.Api,
				fmt.Sprintf("%s did not return within %v (ReadTimeout=WriteTimeout=%v); goroutines:\n%s", call.Api, r.bound(), rt, strings.Join(libGoroutines(), "\n\n")))
			aborted = true
			break
		}
		if !ran {
			cr.Skipped = true
			out.Calls = append(out.Calls, cr)
			continue
		}
		cr.Class = classify(co.err)
		// "within its timeouts": every request of the call may take WriteTimeout + ReadTimeout, a dial ReadTimeout
		srv.mu.Lock()
		nreqCall := srv.nreq - nreqBefore
		srv.mu.Unlock()
		if lim := (nreqCall+2)*int(rt.Milliseconds()) + 1000; ms > lim && sc.ConcAt == 0 {
			r.viol("call-returns", "call-blocked:"+call.Api,
				fmt.Sprintf("%s took %d ms with %d requests on the wire (ReadTimeout=WriteTimeout=%v, allowed %d ms)", call.Api, ms, nreqCall, rt, lim))
		}
		// no call needs more than a handful of requests per connection and at most eleven connections
		if nreqCall > 100 {
			r.viol("call-returns", "retry-storm:"+call.Api,
				fmt.Sprintf("%s put %d requests on the wire before it returned (%s)", call.Api, nreqCall, cr.Class))
		}
		if co.desc != nil {
			r.desc = co.desc
		}
		if call.Api == "setup" && co.err == nil && !r.isClosed() && r.desc != nil {
			c.OnPacketRTPAny(func(*description.Media, format.Format, *rtp.Packet) {})
			c.OnPacketRTCPAny(func(*description.Media, rtcp.Packet) {})
		}
		if call.Api == "setup" && co.err == nil {
			r.setUp[call.Media] = true
		}
		if sc.Frames && call.Api == "record" && co.err == nil && r.recDesc != nil && !r.isClosed() {
			for sq := range 5 {
				for mi, m := range r.recDesc.Medias {
					if !r.setUp[mi] {
						continue // writing to a media that is not set up is the caller's error
					}
					c.WritePacketRTP(m, &rtp.Packet{ //nolint:errcheck
						Header:  rtp.Header{Version: 2, PayloadType: m.Formats[0].PayloadType(), SequenceNumber: uint16(sq), Timestamp: uint32(sq * 3000)},
						Payload: []byte{1, 2, 3, 4},
					})
				}
			}
		}
		cr.Quiesced = r.quiesce()
		// a failure of the wait itself (request timeout, a request of the server that is not handled, a
		// frame that is not expected) and a connection the server hung up terminate the client: Wait()
		// must return that failure promptly, so that the next call reports it at once
		fatalCls := cr.Class == "timeout" || cr.Class == "unhandledMethod" || cr.Class == "unexpectedFrame" ||
			cr.Class == "tcpTimeout" || cr.Class == "udpTimeout"
		// (b) only counts for the connection that is the client's CURRENT one: the k-th successful dial of
		// the client is the k-th connection the server accepted; a close of a connection the client has
		// already replaced, or has itself given up (reset after a redirect / protocol switch without a new
		// connection), is not a failure of the client
		st0 := gortsplib.VerifClientSnapshot(r.c)
		hu := srv.hungUp.Load()
		lostConn := hu > 0 && hu == r.dials.Load() && (st0.HasConn || st0.Closed || st0.MustClose)
		if (fatalCls || lostConn) && sc.ConcAt == 0 {
			select {
			case <-r.waited:
				if fatalCls && classify(r.waitErr) != cr.Class {
					r.viol("failure-reported", "failure-not-latched:"+cr.Class,
						fmt.Sprintf("%s failed with %s but Wait() returned %s", call.Api, cr.Class, classify(r.waitErr)))
				}
			case <-time.After(rt + 1500*time.Millisecond):
				what := cr.Class
				if !fatalCls {
					what = "connection-closed"
				}
				r.viol("failure-reported", "failure-not-latched:"+what,
					fmt.Sprintf("%s returned %s (server closed the connection: %v) but the client did not terminate: Wait() still blocks after %v; the next call would wait again instead of reporting the failure",
						call.Api, cr.Class, lostConn, rt+1500*time.Millisecond))
			}
		}
		r.snapshot(&cr)
		if closedBefore {
			// the failure must be reported, at once
			switch {
			case co.err == nil:
				r.viol("failure-reported", "nil-after-failure:"+call.Api,
					fmt.Sprintf("client had terminated (%s) but %s returned a nil error", cr.CloseCls, call.Api))
			case cr.Class != cr.CloseCls:
				r.viol("failure-reported", "other-error-after-failure:"+call.Api,
					fmt.Sprintf("client had terminated with %s but %s returned %s (%v)", cr.CloseCls, call.Api, cr.Class, co.err))
			case ms > 250:
				r.viol("failure-reported", "slow-after-failure:"+call.Api,
					fmt.Sprintf("client had terminated but %s took %d ms", call.Api, ms))
			}
		}
		out.Calls = append(out.Calls, cr)
	}

	// Close
	var cms int
	var chung bool
	if sc.ConcAt > 0 {
		concOnce.Do(func() {})
	}
	cms, chung = r.closeWithWatchdog()
	out.CloseMs = cms
	if chung {
		r.viol("close-returns", "close-hang", fmt.Sprintf("Close did not return within %v; goroutines:\n%s", r.bound(), strings.Join(libGoroutines(), "\n\n")))
		aborted = true
	} else {
		if !gortsplib.VerifClientSnapshot(c).Closed {
			r.viol("close-complete", "close-returned-early", "Close() returned before the run loop had finished (done is not closed)")
		}
		select {
		case <-r.waited:
		case <-time.After(time.Second):
			r.viol("close-returns", "wait-after-close", "Wait() did not return after Close() returned")
		}
		st := gortsplib.VerifClientSnapshot(c)
		out.FinalState = st.State
		out.FinalClose = classify(r.waitErr)
		if st.HasConn || st.HasReader || st.HasWriter {
			r.viol("close-complete", "close-left-resources", fmt.Sprintf("after Close: conn=%v reader=%v writer=%v", st.HasConn, st.HasReader, st.HasWriter))
		}
		if r.waitErr == nil {
			r.viol("failure-reported", "nil-close-error", "Wait() returned nil after the client terminated")
		}
		// every API call now reports the failure at once
		if !aborted {
			for _, call := range []Call{{Api: "options"}, {Api: "describe"}, {Api: "announce"}, {Api: "setup"}, {Api: "play"}, {Api: "record"}, {Api: "pause"}} {
				co, ran, ms, hung := r.timedCall(call)
				switch {
				case hung:
					r.viol("failure-reported", "hang-after-close:"+call.Api, call.Api+" blocked after Close")
				case !ran:
				case co.err == nil:
					r.viol("failure-reported", "nil-after-close:"+call.Api, call.Api+" returned a nil error after Close")
				case classify(co.err) != out.FinalClose:
					r.viol("failure-reported", "other-error-after-close:"+call.Api,
						fmt.Sprintf("%s returned %s after the client terminated with %s", call.Api, classify(co.err), out.FinalClose))
				case ms > 250:
					r.viol("failure-reported", "slow-after-close:"+call.Api, fmt.Sprintf("%s took %d ms after Close", call.Api, ms))
				}
			}
		}
	}
	// let the server read what the client wrote while closing (TEARDOWN), then collect its log
	srv.drain(300 * time.Millisecond)
	lg := srv.snapshotLog()
	sort.SliceStable(lg, func(i, j int) bool { return lg[i].Conn < lg[j].Conn }) // connections are handled concurrently
	for _, l := range lg {
		se := "-"
		if l.Session != "" {
			se = strings.TrimPrefix(l.Session, "S")
		}
		out.Log = append(out.Log, fmt.Sprintf("%s:%s:%s:%s:%d", l.Method, l.CSeq, se, b01(l.Auth), l.TP))
	}
	return out
}

func b01(b bool) string {
	if b {
		return "1"
	}
	return "0"
}
