package hclient

import (
	"crypto/ecdsa"
	"crypto/elliptic"
	"crypto/rand"
	"crypto/tls"
	"crypto/x509"
	"crypto/x509/pkix"
	"encoding/base64"
	"math/big"
	"sync"
	"time"

	"github.com/bluenviron/gortsplib/v5"
)

// TLS for rtsps conversations: one self-signed certificate per process.
var (
	tlsOnce sync.Once
	tlsCfg  *tls.Config
)

func serverTLS() *tls.Config {
	tlsOnce.Do(func() {
		key, err := ecdsa.GenerateKey(elliptic.P256(), rand.Reader)
		if err != nil {
			panic(err)
		}
		tmpl := &x509.Certificate{
			SerialNumber: big.NewInt(1), Subject: pkix.Name{CommonName: "scripted"},
			NotBefore: time.Now().Add(-time.Hour), NotAfter: time.Now().Add(24 * time.Hour),
			KeyUsage: x509.KeyUsageDigitalSignature, ExtKeyUsage: []x509.ExtKeyUsage{x509.ExtKeyUsageServerAuth},
			DNSNames: []string{"localhost"},
		}
		der, err := x509.CreateCertificate(rand.Reader, tmpl, tmpl, &key.PublicKey, key)
		if err != nil {
			panic(err)
		}
		tlsCfg = &tls.Config{Certificates: []tls.Certificate{{Certificate: [][]byte{der}, PrivateKey: key}}}
	})
	return tlsCfg
}

// mikeyBytes returns a valid MIKEY message (as the library itself would write it) for one SSRC.
func mikeyBytes(ssrc uint32) []byte {
	key := make([]byte, 30)
	rand.Read(key) //nolint:errcheck
	ctx, err := gortsplib.VerifNewSRTPContext(key, nil, []uint32{ssrc}, nil)
	if err != nil {
		return nil
	}
	msg, err := ctx.ToMikey()
	if err != nil {
		return nil
	}
	b, err := msg.Marshal()
	if err != nil {
		return nil
	}
	return b
}

func mikeyB64(ssrc uint32) string {
	return base64.StdEncoding.EncodeToString(mikeyBytes(ssrc))
}
