package hclient

import (
	"bytes"
	"encoding/json"
	"fmt"
	"math/rand/v2"
	"os"
	"os/exec"
	"path/filepath"
	"regexp"
	"sort"
	"strings"
	"time"

	"verifharness/corr"
)

const prop = "C12"

type harness struct {
	ctx  *corr.Ctx
	exe  string
	dir  string
	par   int
	nrun  int
	nviol int
	ndis  int
	ncrashLoop int
	end   time.Time // no new work is started after this
}

func corpusDir() string {
	if d := os.Getenv("VERIF_ROOT"); d != "" {
		return filepath.Join(d, "corpus", prop)
	}
	return "/verif/corpus/" + prop
}

type crash struct {
	inflight []int
	stderr   string
}

// runBatch runs the scripts in a child process.
func (h *harness) runBatch(scripts []*Script, par int) (*BatchResult, *crash, error) {
	h.nrun++
	base := filepath.Join(h.dir, fmt.Sprintf("b%d", h.nrun))
	in, out, prog := base+".in.json", base+".out.json", base+".progress"
	b, _ := json.Marshal(scripts)
	if err := os.WriteFile(in, b, 0o644); err != nil {
		return nil, nil, err
	}
	defer func() {
		os.Remove(in)
		os.Remove(out)
		os.Remove(prog)
	}()
	cmd := exec.Command(h.exe, "-in", in, "-out", out, "-progress", prog, "-par", fmt.Sprint(par))
	cmd.Env = append(os.Environ(), "HCLIENT_CHILD=1", "GOTRACEBACK=all")
	var stderr bytes.Buffer
	cmd.Stderr = &stderr
	cmd.Stdout = &stderr
	done := make(chan error, 1)
	if err := cmd.Start(); err != nil {
		return nil, nil, err
	}
	go func() { done <- cmd.Wait() }()
	var werr error
	select {
	case werr = <-done:
	case <-time.After(time.Duration(60+len(scripts)*2) * time.Second):
		cmd.Process.Kill() //nolint:errcheck
		werr = fmt.Errorf("child timed out")
		<-done
	}
	if werr == nil {
		ob, err := os.ReadFile(out)
		if err != nil {
			return nil, nil, err
		}
		var res BatchResult
		if err = json.Unmarshal(ob, &res); err != nil {
			return nil, nil, err
		}
		return &res, nil, nil
	}
	// the child died: which conversations were in flight?
	started, ended := map[int]bool{}, map[int]bool{}
	pb, _ := os.ReadFile(prog)
	for _, l := range strings.Split(string(pb), "\n") {
		var k string
		var i int
		if n, _ := fmt.Sscanf(l, "%s %d", &k, &i); n == 2 {
			if k == "S" {
				started[i] = true
			} else {
				ended[i] = true
			}
		}
	}
	cr := &crash{stderr: stderr.String()}
	for i := range scripts {
		if started[i] && !ended[i] {
			cr.inflight = append(cr.inflight, i)
		}
	}
	if len(cr.stderr) > 6000 {
		cr.stderr = cr.stderr[:6000]
	}
	_ = ended
	return nil, cr, nil
}

var panicFn = regexp.MustCompile(`(?m)^github\.com/bluenviron/gortsplib/v5[^\s(]*\.([A-Za-z0-9_.()*]+)\(`)

func panicKey(stderr string) string {
	if m := panicFn.FindStringSubmatch(stderr); m != nil {
		return "panic:" + m[1]
	}
	return "panic"
}

// solo runs one script alone in a child; returns outcome, leak report, crash
func (h *harness) solo(sc *Script) (*Outcome, *BatchResult, *crash) {
	res, cr, err := h.runBatch([]*Script{sc}, 1)
	if err != nil {
		return &Outcome{Err: err.Error()}, nil, nil
	}
	if cr != nil {
		return nil, nil, cr
	}
	return res.Outcomes[0], res, nil
}

func logComparable(sc *Script) bool {
	for _, r := range append(append([]Reaction{}, sc.React...), sc.Accept...) {
		for _, a := range r.Acts {
			switch a.Kind {
			case "close", "rst", "raw", "half":
				return false
			case "sleep":
				if a.Ms > sc.Cfg.RTms/2 {
					return false
				}
			}
			if a.NoParse {
				return false
			}
		}
	}
	return true
}

// buildCase renders the conversation in the line protocol of the oracle.
func buildCase(sc *Script, o *Outcome) (ops, impl []string, ok bool) {
	if !sc.Model || o == nil || o.Err != "" || sc.ConcAt > 0 {
		return nil, nil, false
	}
	add := func(op, im string) {
		ops = append(ops, "hclient "+op)
		impl = append(impl, im)
	}
	add(fmt.Sprintf("init %d %s %s %s %s %s", sc.Cfg.Proto, b01(sc.Cfg.Creds), b01(sc.Cfg.BackCh), b01(sc.Cfg.AnyPort), b01(sc.Cfg.Secure), b01(sc.ServerAuth != "")), "ok")
	for _, r := range sc.React {
		add(fmt.Sprintf("react %s %d %s", r.M, r.N, r.Abs), "ok")
	}
	for _, r := range sc.Accept {
		add(fmt.Sprintf("accept %d %s", r.N, r.Abs), "ok")
	}
	for _, c := range o.Calls {
		if c.Skipped {
			continue
		}
		if c.Class == "HUNG" || !c.Quiesced {
			return nil, nil, false
		}
		if c.Api == "sleep" {
			// no packet ever means the last one is older than ReadTimeout
			add("tick "+c.Class+" "+b01(c.Class != "1"), fmt.Sprintf("%s %s %s", c.State, b01(c.Closed), c.CloseCls))
			continue
		}
		op := "call " + c.Api
		if c.Api == "setup" {
			m := MediaSpec{}
			if c.Media < len(sc.Medias) {
				m = sc.Medias[c.Media]
			}
			op += fmt.Sprintf(" %d %s %s", c.Media, b01(m.Back), b01(!m.CtlBad))
		}
		add(op, fmt.Sprintf("%s %s %s %s", c.Class, c.State, b01(c.Closed), c.CloseCls))
	}
	if o.FinalState == "" {
		return nil, nil, false
	}
	add("close", fmt.Sprintf("%s 1 %s", o.FinalState, o.FinalClose))
	if logComparable(sc) {
		l := strings.Join(o.Log, " ")
		if l == "" {
			l = "-"
		}
		add("log", l)
	}
	return ops, impl, true
}

// oracle runs the model on the op lists and returns its output lines per list.
func (h *harness) oracle(opsList [][]string) [][]string {
	var in bytes.Buffer
	for _, ops := range opsList {
		for _, op := range ops {
			in.WriteString(op)
			in.WriteByte('\n')
		}
	}
	cmd := exec.Command(h.ctx.Oracle)
	cmd.Stdin = &in
	var out bytes.Buffer
	cmd.Stdout = &out
	cmd.Stderr = os.Stderr
	cmd.Run() //nolint:errcheck
	lines := strings.Split(strings.TrimRight(out.String(), "\n"), "\n")
	res := make([][]string, len(opsList))
	k := 0
	for i, ops := range opsList {
		for range ops {
			if k < len(lines) {
				res[i] = append(res[i], lines[k])
			} else {
				res[i] = append(res[i], "<no output>")
			}
			k++
		}
	}
	return res
}

func equalLines(a, b []string) bool {
	if len(a) != len(b) {
		return false
	}
	for i := range a {
		if a[i] != b[i] {
			return false
		}
	}
	return true
}

func (h *harness) violate(sc *Script, clause, key, detail string) {
	h.nviol++
	h.ctx.Violate(corr.Violation{Property: prop, Clause: clause, Key: key + "/" + sc.shape(), Where: "client.go", Input: sc, Detail: sc.Name + " [" + sc.Cfg.String() + "]: " + detail})
}

// report records the final outcome of a script: violations, the model comparison, distribution.
func (h *harness) report(sc *Script, o *Outcome) {
	c := h.ctx
	for _, v := range o.Viol {
		h.violate(sc, v.Clause, v.Key, v.Detail)
	}
	for _, cr := range o.Calls {
		if !cr.Skipped && cr.Api != "sleep" {
			c.Dist("call:" + cr.Api + ":" + cr.Class)
		}
	}
	c.Dist("final:" + o.FinalState + ":" + o.FinalClose)
	c.Dist("cfg:" + protoName(sc.Cfg.Proto))
	for _, r := range sc.React {
		for _, a := range r.Acts {
			c.Dist("act:" + a.Kind)
			for _, m := range a.Muts {
				c.Dist("mut:" + m.Op)
			}
		}
	}
	ops, impl, ok := buildCase(sc, o)
	if ok {
		c.Dist("model-compared")
		c.Add(corr.Case{Name: sc.Name, Ops: ops, Impl: impl, Nontrivial: len(sc.React) > 0})
	} else {
		c.Dist("property-only")
		c.CountOnly(sc.key(), true)
	}
	if len(o.Viol) == 0 {
		c.Sample(map[string]any{"script": sc.Name, "cfg": sc.Cfg.String(), "react": sc.React, "calls": o.Calls, "final": o.FinalState + "/" + o.FinalClose})
	}
}

// process runs a set of scripts (batched, in children), re-runs alone whatever looks wrong, reports.
func (h *harness) process(scripts []*Script) {
	const batch = 160
	for len(scripts) > 0 {
		if time.Now().After(h.end) {
			h.ctx.Note(fmt.Sprintf("time budget used up; %d conversations not run", len(scripts)))
			return
		}
		if h.nviol+h.ndis >= 6 {
			h.ctx.Note(fmt.Sprintf("stopped early after %d confirmed violations and %d persistent disagreements; %d conversations not run", h.nviol, h.ndis, len(scripts)))
			return
		}
		n := min(batch, len(scripts))
		cur := scripts[:n]
		scripts = scripts[n:]
		res, cr, err := h.runBatch(cur, h.par)
		if err != nil {
			h.ctx.Note("batch failed: " + err.Error())
			continue
		}
		if cr != nil {
			// a crash: the conversations in flight are suspects; everything not finished is re-queued
			h.ctx.Dist("child-crash")
			if len(cr.inflight) == 0 {
				h.ctx.Note("child died without a conversation in flight: " + cr.stderr)
				continue
			}
			// the conversations in flight are suspects: run them again one after the other in one child;
			// the one in flight when that child dies is the culprit (confirmed alone once more)
			culprit := map[int]bool{}
			rest := append([]int{}, cr.inflight...)
			for len(rest) > 0 && h.nviol < 6 && !time.Now().After(h.end) {
				var again []*Script
				for _, i := range rest {
					again = append(again, cur[i])
				}
				_, c1, err1 := h.runBatch(again, 1)
				if err1 != nil || c1 == nil || len(c1.inflight) == 0 {
					break // no crash any more (or the machinery failed): the others are innocent
				}
				k := c1.inflight[0]
				i := rest[k]
				if _, _, c2 := h.solo(cur[i]); c2 != nil {
					h.violate(cur[i], "no-panic", panicKey(c2.stderr), "the client crashed the process:\n"+c2.stderr)
				} else {
					h.violate(cur[i], "no-panic", panicKey(c1.stderr)+":not-alone", "the client crashed the process (not reproduced when run alone):\n"+c1.stderr)
				}
				h.ctx.CountOnly(cur[i].key(), true)
				culprit[i] = true
				rest = rest[k+1:]
			}
			// everything that did not finish is run again, without the culprits
			var requeue []*Script
			for i, sc := range cur {
				if !culprit[i] {
					requeue = append(requeue, sc)
				}
			}
			if h.nviol >= 6 {
				h.ctx.Note("stopped after repeated crashes of the client")
				return
			}
			if len(culprit) == 0 {
				h.ctx.Note("a batch crashed but no conversation crashed when run again: " + cr.stderr)
				h.ncrashLoop++
				if h.ncrashLoop >= 3 {
					h.violate(cur[cr.inflight[0]], "no-panic", panicKey(cr.stderr)+":unattributed", "the client crashed the process in a parallel batch three times; no single conversation reproduces it:\n"+cr.stderr)
					return
				}
			}
			scripts = append(requeue, scripts...)
			continue
		}
		if len(res.LeakedGo) > 0 || res.LeakedFDs != 0 {
			h.ctx.Dist("batch-leak")
			hung := false
			for _, o := range res.Outcomes {
				for _, v := range o.Viol {
					if strings.HasPrefix(v.Key, "call-hang") || strings.HasPrefix(v.Key, "close-hang") {
						hung = true // what a hung call leaves behind is not a leak of Close
					}
				}
			}
			if !hung {
				h.bisectLeak(cur)
			}
		}
		// model comparison for the whole batch, then confirm what looks wrong
		var opsList, implList [][]string
		var idx []int
		for i, sc := range cur {
			if ops, impl, ok := buildCase(sc, res.Outcomes[i]); ok {
				opsList = append(opsList, ops)
				implList = append(implList, impl)
				idx = append(idx, i)
			}
		}
		bad := map[int]bool{}
		if len(opsList) > 0 {
			model := h.oracle(opsList)
			for k, i := range idx {
				if !equalLines(model[k], implList[k]) {
					bad[i] = true
				}
			}
		}
		// whatever looks wrong is run again, first a few at a time, then one by one
		var sus []int
		for i := range cur {
			o := res.Outcomes[i]
			if o != nil && (len(o.Viol) > 0 || bad[i] || o.Err != "") {
				sus = append(sus, i)
			}
		}
		if len(sus) > 8 { // enough to decide; the rest would only repeat the same findings
			h.ctx.Note(fmt.Sprintf("%d suspicious conversations in one batch, confirming 8 of them", len(sus)))
			for _, i := range sus[8:] {
				res.Outcomes[i] = nil
			}
			sus = sus[:8]
		}
		final := map[int]*Outcome{}
		for _, par := range []int{4, 1} {
			if len(sus) == 0 {
				break
			}
			var again []*Script
			for _, i := range sus {
				again = append(again, cur[i])
				h.ctx.Dist("rerun")
			}
			r2, cr2, err2 := h.runBatch(again, par)
			if err2 != nil || cr2 != nil || (len(r2.LeakedGo) > 0 || r2.LeakedFDs != 0) {
				break // let confirm() sort it out one by one
			}
			var still []int
			for k, i := range sus {
				if h.clean(cur[i], r2.Outcomes[k]) {
					final[i] = r2.Outcomes[k]
					h.ctx.Dist("rerun-clean")
				} else {
					still = append(still, i)
				}
			}
			sus = still
		}
		susSet := map[int]bool{}
		for _, i := range sus {
			susSet[i] = true
		}
		for i, sc := range cur {
			o := res.Outcomes[i]
			if o == nil {
				continue
			}
			if f, ok := final[i]; ok {
				o = f
			} else if susSet[i] {
				h.ctx.Dist("rerun-alone")
				o = h.confirm(sc, o)
				if o == nil {
					continue
				}
			}
			h.report(sc, o)
		}
	}
}

// clean: no violation, no harness error, and the model agrees
func (h *harness) clean(sc *Script, o *Outcome) bool {
	if o == nil || o.Err != "" || len(o.Viol) > 0 {
		return false
	}
	if ops, impl, ok := buildCase(sc, o); ok {
		return equalLines(h.oracle([][]string{ops})[0], impl)
	}
	return true
}

// confirm re-runs a script alone: timing noise of a loaded machine must not become a verdict.
// A violation or disagreement is kept only when it shows again alone.
func (h *harness) confirm(sc *Script, first *Outcome) *Outcome {
	for range 2 {
		o, br, cr := h.solo(sc)
		if cr != nil {
			h.violate(sc, "no-panic", panicKey(cr.stderr), "the client crashed the process:\n"+cr.stderr)
			h.ctx.CountOnly(sc.key(), true)
			return nil
		}
		if br != nil && (len(br.LeakedGo) > 0 || br.LeakedFDs != 0) {
			o.Viol = append(o.Viol, Viol{Clause: "close-complete", Key: "leak", Detail: fmt.Sprintf("after Close: %d descriptors more than before, goroutines inside the library:\n%s", br.LeakedFDs, strings.Join(br.LeakedGo, "\n\n"))})
		}
		if o.Err != "" {
			continue
		}
		clean := len(o.Viol) == 0
		if clean {
			if ops, impl, ok := buildCase(sc, o); ok {
				clean = equalLines(h.oracle([][]string{ops})[0], impl)
			}
		}
		if clean {
			h.ctx.Dist("rerun-clean")
			return o
		}
		first = o
	}
	if len(first.Viol) == 0 {
		h.ndis++
		b, _ := json.Marshal(sc)
		if len(b) > 3000 {
			b = b[:3000]
		}
		h.ctx.Note("model/implementation disagreement that persists alone: " + string(b))
	}
	return first
}

// bisectLeak finds the conversations after which goroutines or descriptors stay behind.
func (h *harness) bisectLeak(scripts []*Script) {
	if len(scripts) == 0 || h.nviol >= 6 || time.Now().After(h.end) {
		return
	}
	if len(scripts) > 8 {
		// a widespread leak shows on any conversation: try a few alone before bisecting
		before := h.nviol
		for _, i := range []int{0, len(scripts) / 3, 2 * len(scripts) / 3, len(scripts) - 1} {
			h.bisectLeak(scripts[i : i+1])
		}
		if h.nviol > before {
			return
		}
	}
	if len(scripts) == 1 {
		_, br, cr := h.solo(scripts[0])
		if cr == nil && br != nil && (len(br.LeakedGo) > 0 || br.LeakedFDs != 0) {
			h.violate(scripts[0], "close-complete", "leak", fmt.Sprintf("after Close: %d descriptors more than before, goroutines inside the library:\n%s", br.LeakedFDs, strings.Join(br.LeakedGo, "\n\n")))
		}
		return
	}
	for _, half := range [][]*Script{scripts[:len(scripts)/2], scripts[len(scripts)/2:]} {
		res, cr, err := h.runBatch(half, h.par)
		if err != nil || cr != nil {
			continue
		}
		if len(res.LeakedGo) > 0 || res.LeakedFDs != 0 {
			h.bisectLeak(half)
		}
	}
}

func loadCorpus() []*Script {
	files, _ := filepath.Glob(filepath.Join(corpusDir(), "*.json"))
	sort.Strings(files)
	var out []*Script
	for _, f := range files {
		b, err := os.ReadFile(f)
		if err != nil {
			continue
		}
		var sc Script
		if json.Unmarshal(b, &sc) == nil && len(sc.Prog) > 0 {
			sc.Name = "corpus/" + filepath.Base(f)
			out = append(out, &sc)
		}
	}
	return out
}

// Run is the domain entry point.
func Run(ctx *corr.Ctx) {
	ctx.Rule("scripted RTSP server (correct conversation with mutated reactions: status, CSeq, Session, Location, Content-Type/Base, SDP, Transport, " +
		"wire-level damage, unsolicited requests, interleaved frames, close, silence) x client configuration; each conversation runs against the real Client in a child process; " +
		"oracle: every call returns within its timeouts, no panic, Close returns and leaves no goroutine/descriptor, failures are reported by later calls; " +
		"result class per call, state after each call and the request log are compared with Model/ClientSm.lean for grammar-level mutations")
	exe, err := os.Executable()
	if err != nil {
		ctx.Note("no executable path: " + err.Error())
		return
	}
	dir := ctx.WorkDir
	if dir == "" {
		dir, _ = os.MkdirTemp("", "hclient")
		defer os.RemoveAll(dir)
	}
	h := &harness{ctx: ctx, exe: exe, dir: dir, par: 24, end: time.Now().Add(time.Duration(ctx.N(300, 2400)) * time.Second)}

	if ctx.Replay != nil {
		var sc Script
		if err := json.Unmarshal(ctx.Replay, &sc); err != nil || len(sc.Prog) == 0 {
			ctx.Note("replay input is not a script")
			return
		}
		o := h.confirm(&sc, &Outcome{})
		if o != nil {
			h.report(&sc, o)
		}
		return
	}

	var scripts []*Script
	scripts = append(scripts, loadCorpus()...)
	for range scripts {
		ctx.Dist("corpus")
	}
	rt := 400
	g := &gen{rng: rand.New(rand.NewPCG(ctx.Rng.Uint64(), 12)), rt: rt}
	scripts = append(scripts, sweep(g)...)
	nGram := ctx.N(1500, 20000)
	nWild := ctx.N(700, 10000)
	for i := range nGram {
		scripts = append(scripts, g.script(i, false))
	}
	for i := range nWild {
		scripts = append(scripts, g.script(i, true))
	}
	for i := range ctx.N(120, 1500) {
		scripts = append(scripts, g.lingering(i))
	}
	for i := range ctx.N(150, 2000) {
		scripts = append(scripts, g.concurrent(i))
	}
	for i := range ctx.N(250, 4000) {
		scripts = append(scripts, g.secure(i))
	}
	for i := range ctx.N(150, 2500) {
		scripts = append(scripts, g.udpSwitch(i))
	}
	for i := range ctx.N(120, 2000) {
		scripts = append(scripts, g.tunnelled(i))
	}
	for i := range ctx.N(80, 1500) {
		scripts = append(scripts, g.multicast(i))
	}
	for i := range ctx.N(120, 2500) {
		scripts = append(scripts, g.features(i))
	}
	h.process(scripts)
}
