package hclient

import (
	"bufio"
	"bytes"
	"crypto/tls"
	"fmt"
	"io"
	"net"
	"strconv"
	"strings"
	"sync"
	"sync/atomic"
	"time"

	"github.com/bluenviron/gortsplib/v5"
	"github.com/bluenviron/gortsplib/v5/pkg/base"
	"github.com/bluenviron/gortsplib/v5/pkg/headers"
)

// reqLog is what the scripted server saw of one request.
type reqLog struct {
	Method  string
	CSeq    string
	Session string
	Auth    bool
	TP      int // 0 none, 1 UDP unicast, 2 multicast, 10+ch TCP
	Conn    int
}

// wireResp is a response about to be serialised (header order and duplicates preserved).
type wireResp struct {
	proto  string
	code   int
	reason string
	hdr    [][2]string
	body   []byte
	clen   *string // nil: computed from the body when there is one
}

func (r *wireResp) del(k string) {
	out := r.hdr[:0]
	for _, h := range r.hdr {
		if !strings.EqualFold(h[0], k) {
			out = append(out, h)
		}
	}
	r.hdr = out
}

func (r *wireResp) set(k, v string) {
	for i, h := range r.hdr {
		if strings.EqualFold(h[0], k) {
			r.hdr[i][1] = v
			return
		}
	}
	r.hdr = append(r.hdr, [2]string{k, v})
}

func (r *wireResp) bytes() []byte {
	var b bytes.Buffer
	fmt.Fprintf(&b, "%s %d %s\r\n", r.proto, r.code, r.reason)
	for _, h := range r.hdr {
		if h[0] == "" { // raw line
			b.WriteString(h[1] + "\r\n")
		} else {
			fmt.Fprintf(&b, "%s: %s\r\n", h[0], h[1])
		}
	}
	if r.clen != nil {
		fmt.Fprintf(&b, "Content-Length: %s\r\n", *r.clen)
	} else if len(r.body) > 0 {
		fmt.Fprintf(&b, "Content-Length: %d\r\n", len(r.body))
	}
	b.WriteString("\r\n")
	b.Write(r.body)
	return b.Bytes()
}

func applyMuts(r *wireResp, muts []Mut, scheme, host string, n int) {
	for _, m := range muts {
		v := strings.ReplaceAll(strings.ReplaceAll(m.V, "$SCHEME", scheme), "$HOST", host)
		v = strings.ReplaceAll(v, "$N", strconv.Itoa(n)) // changes with every request the server reads
		switch m.Op {
		case "status":
			parts := strings.SplitN(v, " ", 2)
			r.code, _ = strconv.Atoi(parts[0])
			if len(parts) == 2 {
				r.reason = parts[1]
			} else {
				r.reason = "Status"
			}
		case "del":
			r.del(m.K)
		case "set":
			r.set(m.K, v)
		case "add":
			r.hdr = append(r.hdr, [2]string{m.K, v})
		case "rawhdr":
			r.hdr = append(r.hdr, [2]string{"", v})
		case "body":
			r.body = []byte(v)
		case "sub":
			r.body = []byte(strings.Replace(string(r.body), m.K, v, 1))
		case "suball":
			r.body = []byte(strings.ReplaceAll(string(r.body), m.K, v))
		case "clen":
			vv := v
			if strings.HasPrefix(v, "+") || (strings.HasPrefix(v, "-") && len(v) > 1) {
				d, _ := strconv.Atoi(v)
				vv = strconv.Itoa(len(r.body) + d)
			}
			r.clen = &vv
		case "proto":
			r.proto = v
		}
	}
}

type server struct {
	sc     *Script
	ln     net.Listener
	host   string
	scheme string

	mu     sync.Mutex
	nreq   int
	nmeth  map[string]int
	nconn  int
	log    []reqLog
	conns  map[net.Conn]struct{}
	closed bool
	wg     sync.WaitGroup

	busy      atomic.Int32
	wroteResp atomic.Int32 // parseable responses written on the newest connection
	wroteReq  atomic.Int32
	killer    atomic.Bool // something was written that may kill the client (frame, garbage, close)
	hungUp    atomic.Int32 // index of the connection the server closed last (0 = none)
	onAccept  func()      // called when a new connection is accepted

	tunMu   sync.Mutex
	tunnels map[string]net.Conn // GET connections of HTTP tunnels by session cookie

	udpMu       sync.Mutex
	udp         [2]*net.UDPConn
	clientPorts [][2]int
}

func newServer(sc *Script) (*server, error) {
	ln, err := net.Listen("tcp", "127.0.0.1:0")
	if err != nil {
		return nil, err
	}
	s := &server{sc: sc, ln: ln, host: ln.Addr().String(), conns: map[net.Conn]struct{}{}}
	s.scheme = "rtsp"
	if sc.Cfg.Secure {
		s.scheme = "rtsps" // connections are wrapped one by one in acceptLoop (a scripted one may stall before / in the handshake)
	}
	s.wg.Add(1)
	go s.acceptLoop()
	return s, nil
}

func (s *server) acceptLoop() {
	defer s.wg.Done()
	for {
		c, err := s.ln.Accept()
		if err != nil {
			return
		}
		s.mu.Lock()
		if s.closed {
			s.mu.Unlock()
			c.Close()
			return
		}
		s.nconn++
		idx := s.nconn
		if s.sc.SmallBuf {
			if tc, ok := c.(*net.TCPConn); ok {
				tc.SetReadBuffer(2048) //nolint:errcheck
			}
		}
		raw := c
		stalled := s.sc.StallConn == idx
		if s.sc.Cfg.Secure && !stalled {
			c = tls.Server(c, serverTLS())
		}
		s.conns[c] = struct{}{}
		s.wroteResp.Store(0)
		s.wroteReq.Store(0)
		if s.onAccept != nil {
			s.onAccept()
		}
		s.wg.Add(1)
		s.mu.Unlock()
		if stalled {
			go s.stall(raw)
			continue
		}
		for _, a := range s.sc.Accept {
			if a.N == idx {
				s.busy.Add(1)
				closed := s.perform(c, idx, nil, a.Acts)
				s.busy.Add(-1)
				if closed {
					break
				}
			}
		}
		go s.handle(c, idx)
	}
}

// stall: this connection gets as far as the script says and then nothing more happens on it
func (s *server) stall(raw net.Conn) {
	defer s.wg.Done()
	defer raw.Close()
	var c net.Conn = raw
	park := func() {
		buf := make([]byte, 512)
		for {
			if _, err := c.Read(buf); err != nil {
				return
			}
		}
	}
	switch s.sc.StallStage {
	case "tlsmid":
		buf := make([]byte, 2048)
		raw.SetReadDeadline(time.Now().Add(2 * time.Second))
		raw.Read(buf) //nolint:errcheck
		raw.SetReadDeadline(time.Time{})
		raw.Write([]byte{0x16, 0x03, 0x03, 0x00, 0x7a, 0x02, 0x00, 0x00}) //nolint:errcheck
	case "nohttp", "partial":
		if s.sc.Cfg.Secure {
			tc := tls.Server(raw, serverTLS())
			raw.SetDeadline(time.Now().Add(2 * time.Second))
			if tc.Handshake() != nil {
				return
			}
			raw.SetDeadline(time.Time{})
			c = tc
		}
		br := bufio.NewReader(c)
		c.SetReadDeadline(time.Now().Add(2 * time.Second))
		for {
			l, err := br.ReadString('\n')
			if err != nil || strings.TrimRight(l, "\r\n") == "" {
				break
			}
		}
		c.SetReadDeadline(time.Time{})
		if s.sc.StallStage == "partial" {
			c.Write([]byte("HTTP/1.1 200 OK\r\nConte")) //nolint:errcheck
		}
	}
	park()
}

func (s *server) close() {
	s.mu.Lock()
	s.closed = true
	s.ln.Close()
	for c := range s.conns {
		c.Close()
	}
	s.mu.Unlock()
	s.wg.Wait() // a handler may still be sleeping in a reaction; it may open the UDP sockets afterwards
	s.udpMu.Lock()
	for i, u := range s.udp {
		if u != nil {
			u.Close()
			s.udp[i] = nil
		}
	}
	s.udpMu.Unlock()
}

// drain waits until every connection handler has finished (the client closed its connections).
func (s *server) drain(d time.Duration) {
	end := time.Now().Add(d)
	for time.Now().Before(end) {
		s.mu.Lock()
		n := len(s.conns)
		s.mu.Unlock()
		if n == 0 {
			return
		}
		time.Sleep(200 * time.Microsecond)
	}
}

func (s *server) snapshotLog() []reqLog {
	s.mu.Lock()
	defer s.mu.Unlock()
	return append([]reqLog(nil), s.log...)
}

func (s *server) serverPorts() [2]int {
	s.udpMu.Lock()
	defer s.udpMu.Unlock()
	if s.udp[0] == nil {
		for range 50 {
			a, err := net.ListenUDP("udp", &net.UDPAddr{IP: net.IPv4(127, 0, 0, 1), Port: 0})
			if err != nil {
				continue
			}
			p := a.LocalAddr().(*net.UDPAddr).Port
			b, err := net.ListenUDP("udp", &net.UDPAddr{IP: net.IPv4(127, 0, 0, 1), Port: p + 1})
			if err != nil || p < 2 {
				a.Close()
				continue
			}
			s.udp[0], s.udp[1] = a, b
			break
		}
	}
	if s.udp[0] == nil {
		return [2]int{34710, 34711}
	}
	p := s.udp[0].LocalAddr().(*net.UDPAddr).Port
	return [2]int{p, p + 1}
}

func (s *server) handle(c net.Conn, idx int) {
	defer s.wg.Done()
	defer func() {
		c.Close()
		s.mu.Lock()
		delete(s.conns, c)
		s.mu.Unlock()
	}()
	br := bufio.NewReaderSize(c, 4096)
	w := c // where responses are written
	if s.sc.Cfg.Tunnel != 0 {
		var stop bool
		br, w, stop = s.tunnelHandshake(c, br)
		if stop {
			return
		}
	}
	for {
		b, err := br.Peek(1)
		if err != nil {
			return
		}
		if b[0] == '$' {
			hdr := make([]byte, 4)
			if _, err = io.ReadFull(br, hdr); err != nil {
				return
			}
			if _, err = br.Discard(int(hdr[2])<<8 | int(hdr[3])); err != nil {
				return
			}
			continue
		}
		if p, _ := br.Peek(5); string(p) == "RTSP/" {
			var res base.Response
			if err = res.Unmarshal(br); err != nil {
				return
			}
			continue
		}
		var req base.Request
		if err = req.Unmarshal(br); err != nil {
			return
		}
		s.busy.Add(1)
		stop := s.react(w, idx, &req)
		s.busy.Add(-1)
		if stop {
			return
		}
	}
}

// tunnelHandshake plays the server side of RTSP-over-HTTP (or misbehaves as scripted).  For the GET
// connection it answers and parks the connection (stop = true after the peer is gone); for the POST
// connection it returns a reader of the decoded requests and the GET connection to answer on.
func (s *server) tunnelHandshake(c net.Conn, br *bufio.Reader) (*bufio.Reader, net.Conn, bool) {
	c.SetReadDeadline(time.Now().Add(3 * time.Second))
	first, err := br.ReadString('\n')
	if err != nil {
		return nil, nil, true
	}
	cookie := ""
	for {
		l, err := br.ReadString('\n')
		if err != nil {
			return nil, nil, true
		}
		l = strings.TrimRight(l, "\r\n")
		if l == "" {
			break
		}
		if k, v, ok := strings.Cut(l, ":"); ok && strings.EqualFold(strings.TrimSpace(k), "X-Sessioncookie") {
			cookie = strings.TrimSpace(v)
		}
	}
	c.SetReadDeadline(time.Time{})
	write := func(b string) {
		c.SetWriteDeadline(time.Now().Add(2 * time.Second))
		c.Write([]byte(b)) //nolint:errcheck
	}
	park := func() { // keep the connection until the peer or the server closes it
		buf := make([]byte, 256)
		for {
			if _, err := c.Read(buf); err != nil {
				return
			}
		}
	}
	okResp := "HTTP/1.0 200 OK\r\nConnection: close\r\nCache-Control: no-store\r\nContent-Type: application/x-rtsp-tunnelled\r\n\r\n"
	if strings.HasPrefix(first, "GET ") {
		switch s.sc.Tun {
		case "status404":
			write("HTTP/1.0 404 Not Found\r\nConnection: close\r\n\r\n")
			return nil, nil, true
		case "status500keep":
			write("HTTP/1.1 500 Oops\r\nContent-Length: 100000\r\n\r\nshort")
			park()
			return nil, nil, true
		case "garbage":
			write("\x00\x01\x02 not http at all\r\n\r\n")
			park()
			return nil, nil, true
		case "silence":
			park()
			return nil, nil, true
		case "close":
			return nil, nil, true
		case "biglen":
			write("HTTP/1.1 200 OK\r\nContent-Type: application/x-rtsp-tunnelled\r\nContent-Length: 1000000\r\n\r\n")
		case "chunked":
			write("HTTP/1.1 200 OK\r\nContent-Type: application/x-rtsp-tunnelled\r\nTransfer-Encoding: chunked\r\n\r\n")
		case "continue":
			write("HTTP/1.1 100 Continue\r\n\r\n" + okResp)
		case "slow":
			time.Sleep(time.Duration(s.sc.Cfg.RTms/2) * time.Millisecond)
			write(okResp)
		case "half":
			write(okResp[:20])
			park()
			return nil, nil, true
		case "hugeheader":
			write("HTTP/1.0 200 OK\r\nX-Pad: " + strings.Repeat("a", 2<<20) + "\r\n\r\n")
		default:
			write(okResp)
		}
		s.tunMu.Lock()
		if s.tunnels == nil {
			s.tunnels = map[string]net.Conn{}
		}
		s.tunnels[cookie] = c
		s.tunMu.Unlock()
		park()
		return nil, nil, true
	}
	// POST
	switch s.sc.Tun {
	case "postclose":
		return nil, nil, true
	case "postsilence":
		park()
		return nil, nil, true
	case "postanswer": // some servers answer the POST as well
		write("HTTP/1.0 200 OK\r\n\r\n")
	}
	var get net.Conn
	for range 400 {
		s.tunMu.Lock()
		get = s.tunnels[cookie]
		s.tunMu.Unlock()
		if get != nil {
			break
		}
		time.Sleep(5 * time.Millisecond)
	}
	if get == nil {
		return nil, nil, true
	}
	return bufio.NewReaderSize(gortsplib.VerifBase64StreamReader(br), 4096), get, false
}

func hdr1r(r *wireResp, k string) string {
	for _, h := range r.hdr {
		if h[0] == k {
			return h[1]
		}
	}
	return ""
}

func hdr1(h base.Header, k string) string {
	if v, ok := h[k]; ok && len(v) > 0 {
		return v[0]
	}
	return ""
}

func (s *server) correct(req *base.Request) *wireResp {
	r := &wireResp{proto: "RTSP/1.0", code: 200, reason: "OK"}
	if v, ok := req.Header["CSeq"]; ok && len(v) == 1 {
		r.hdr = append(r.hdr, [2]string{"CSeq", v[0]})
	}
	r.hdr = append(r.hdr, [2]string{"Server", "scripted"})
	_, authed := req.Header["Authorization"]
	if s.sc.ServerAuth != "" && req.Method != base.Options && !authed {
		r.code, r.reason = 401, "Unauthorized"
		if s.sc.ServerAuth == "basic" {
			r.hdr = append(r.hdr, [2]string{"WWW-Authenticate", `Basic realm="v"`})
		} else {
			r.hdr = append(r.hdr, [2]string{"WWW-Authenticate", `Digest realm="v", nonce="8b84a3b789283a8bea8da7fa7d41f08b"`})
		}
		return r
	}
	switch req.Method {
	case base.Options:
		r.hdr = append(r.hdr, [2]string{"Public", "DESCRIBE, ANNOUNCE, SETUP, PLAY, RECORD, PAUSE, TEARDOWN"})
	case base.Describe:
		r.hdr = append(r.hdr, [2]string{"Content-Base", s.scheme + "://" + s.host + "/stream/"})
		r.hdr = append(r.hdr, [2]string{"Content-Type", "application/sdp"})
		r.body = []byte(strings.ReplaceAll(strings.ReplaceAll(sdpFor(s.sc.Medias), "$SCHEME", s.scheme), "$HOST", s.host))
	case base.Setup:
		var th headers.Transport
		tr := "RTP/AVP;unicast;client_port=5000-5001;server_port=6000-6001"
		if err := th.Unmarshal(req.Header["Transport"]); err == nil {
			prof := "RTP/AVP"
			if th.Profile == headers.TransportProfileSAVP {
				prof = "RTP/SAVP"
			}
			defer func() { r.set("Transport", strings.Replace(hdr1r(r, "Transport"), "RTP/AVP", prof, 1)) }()
			switch {
			case th.Protocol == headers.TransportProtocolTCP:
				ids := [2]int{0, 1}
				if th.InterleavedIDs != nil {
					ids = *th.InterleavedIDs
				}
				tr = fmt.Sprintf("RTP/AVP/TCP;unicast;interleaved=%d-%d", ids[0], ids[1])
			case th.Delivery != nil && *th.Delivery == headers.TransportDeliveryMulticast:
				tr = "RTP/AVP;multicast;destination=239.64.0.1;port=15000-15001;ttl=1"
			default:
				cp := [2]int{5000, 5001}
				if th.ClientPorts != nil {
					cp = *th.ClientPorts
					s.udpMu.Lock()
					s.clientPorts = append(s.clientPorts, cp)
					s.udpMu.Unlock()
				}
				sp := s.serverPorts()
				tr = fmt.Sprintf("RTP/AVP;unicast;client_port=%d-%d;server_port=%d-%d", cp[0], cp[1], sp[0], sp[1])
			}
		}
		r.hdr = append(r.hdr, [2]string{"Transport", tr})
		r.hdr = append(r.hdr, [2]string{"Session", "S1;timeout=60"})
	case base.Play, base.Record, base.Pause, base.Teardown:
		r.hdr = append(r.hdr, [2]string{"Session", "S1"})
	}
	return r
}

func tpOf(req *base.Request) int {
	if req.Method != base.Setup {
		return 0
	}
	var th headers.Transport
	if err := th.Unmarshal(req.Header["Transport"]); err != nil {
		return 0
	}
	switch {
	case th.Protocol == headers.TransportProtocolTCP:
		if th.InterleavedIDs != nil {
			return 10 + th.InterleavedIDs[0]
		}
		return 10
	case th.Delivery != nil && *th.Delivery == headers.TransportDeliveryMulticast:
		return 2
	}
	return 1
}

// react executes the scripted reaction to one request; true = the connection was closed.
func (s *server) react(c net.Conn, idx int, req *base.Request) bool {
	s.mu.Lock()
	s.nreq++
	n := s.nreq
	if s.nmeth == nil {
		s.nmeth = map[string]int{}
	}
	s.nmeth[string(req.Method)]++
	occ := s.nmeth[string(req.Method)]
	_, authed := req.Header["Authorization"]
	s.log = append(s.log, reqLog{
		Method: string(req.Method), CSeq: hdr1(req.Header, "CSeq"), Session: hdr1(req.Header, "Session"),
		Auth: authed, TP: tpOf(req), Conn: idx,
	})
	newest := idx == s.nconn
	s.mu.Unlock()

	acts := []Action{{Kind: "resp"}}
	if r := s.sc.reaction(string(req.Method), occ, n); r != nil {
		acts = r.Acts
	}
	_ = newest
	return s.perform(c, idx, req, acts)
}

// perform executes actions on a connection (req == nil: not in reaction to a request).
func (s *server) perform(c net.Conn, idx int, req *base.Request, acts []Action) bool {
	s.mu.Lock()
	newest := idx == s.nconn
	s.mu.Unlock()
	if req == nil {
		req = &base.Request{Method: base.Options, Header: base.Header{}}
	}
	parseable := true
	write := func(b []byte) {
		c.SetWriteDeadline(time.Now().Add(2 * time.Second))
		c.Write(b) //nolint:errcheck
	}
	for _, a := range acts {
		switch a.Kind {
		case "resp", "half":
			r := s.correct(req)
			s.mu.Lock()
			nn := s.nreq
			s.mu.Unlock()
			applyMuts(r, a.Muts, s.scheme, s.host, nn)
			b := r.bytes()
			if a.Kind == "half" {
				write(b[:len(b)/2])
				parseable = false
				continue
			}
			if a.NoParse {
				s.killer.Store(true)
			}
			write(b)
			if a.NoParse {
				parseable = false
			} else if parseable && newest {
				s.wroteResp.Add(1)
			}
		case "req":
			s.killerIf(a.Method != "OPTIONS")
			write([]byte(a.Method + " rtsp://" + s.host + "/stream RTSP/1.0\r\nCSeq: 77\r\n\r\n"))
			if parseable && newest {
				s.wroteReq.Add(1)
			}
		case "frame":
			s.killer.Store(true)
			b := []byte{'$', byte(a.Ch), byte(len(a.Payload) >> 8), byte(len(a.Payload))}
			write(append(b, a.Payload...))
		case "raw":
			s.killer.Store(true)
			write(a.Payload)
			if a.NoParse {
				parseable = false
			}
		case "sleep":
			time.Sleep(time.Duration(a.Ms) * time.Millisecond)
		case "udp":
			s.sendUDP(a.Ch, a.Payload)
		case "drip":
			// the request stays unanswered while unrelated messages keep coming
			end := time.Now().Add(time.Duration(a.For) * time.Millisecond)
			for i := 0; time.Now().Before(end); i++ {
				var b []byte
				switch a.Method {
				case "options":
					b = []byte(fmt.Sprintf("OPTIONS rtsp://%s/stream RTSP/1.0\r\nCSeq: %d\r\n\r\n", s.host, 9000+i))
				case "frame":
					p := []byte{0x80, 96, 0, byte(i), 0, 0, 0, 1, 1, 2, 3, 4, 0x65, 1, 2, 3}
					b = append([]byte{'$', byte(a.Ch), 0, byte(len(p))}, p...)
				default: // a response to something that was never asked
					b = []byte(fmt.Sprintf("RTSP/1.0 200 OK\r\nCSeq: %d\r\nServer: scripted\r\n\r\n", 700000+i))
				}
				c.SetWriteDeadline(time.Now().Add(time.Second))
				if _, err := c.Write(b); err != nil {
					break
				}
				time.Sleep(time.Duration(a.Every) * time.Millisecond)
			}
		case "close":
			s.killer.Store(true)
			s.hungUp.Store(int32(idx))
			c.Close()
			return true
		case "rst":
			s.killer.Store(true)
			s.hungUp.Store(int32(idx))
			nc := c
			if t, ok := c.(*tls.Conn); ok {
				nc = t.NetConn()
			}
			if tc, ok := nc.(*net.TCPConn); ok {
				tc.SetLinger(0)
			}
			c.Close()
			return true
		}
	}
	return false
}

// sendUDP sends a datagram from the announced server port to the client port of the first media.
func (s *server) sendUDP(which int, payload []byte) {
	s.udpMu.Lock()
	defer s.udpMu.Unlock()
	if len(s.clientPorts) == 0 || s.udp[0] == nil || which < 0 || which > 1 {
		return
	}
	s.udp[which].WriteToUDP(payload, &net.UDPAddr{IP: net.IPv4(127, 0, 0, 1), Port: s.clientPorts[0][which]}) //nolint:errcheck
}

func (s *server) killerIf(b bool) {
	if b {
		s.killer.Store(true)
	}
}

func sdpFor(ms []MediaSpec) string {
	var b strings.Builder
	b.WriteString("v=0\r\no=- 0 0 IN IP4 127.0.0.1\r\ns=Stream\r\nc=IN IP4 0.0.0.0\r\nt=0 0\r\n")
	for i, m := range ms {
		prof := "RTP/AVP"
		if m.Secure {
			prof = "RTP/SAVP"
		}
		switch m.Codec {
		case "pcmu":
			b.WriteString("m=audio 0 " + prof + " 0\r\n")
		case "opus":
			b.WriteString("m=audio 0 " + prof + " 97\r\na=rtpmap:97 opus/48000/2\r\na=fmtp:97 sprop-stereo=1\r\n")
		default:
			b.WriteString("m=video 0 " + prof + " 96\r\na=rtpmap:96 H264/90000\r\na=fmtp:96 packetization-mode=1\r\n")
		}
		if m.Secure {
			km := m.KeyMgmt
			if km == "" {
				km = "mikey " + mikeyB64(0x1000+uint32(i))
			}
			b.WriteString("a=key-mgmt:" + km + "\r\n")
		}
		if m.Back {
			b.WriteString("a=sendonly\r\n")
		}
		if m.Control != "" {
			b.WriteString("a=control:" + m.Control + "\r\n")
		}
	}
	return b.String()
}
