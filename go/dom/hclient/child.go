package hclient

import (
	"encoding/json"
	"flag"
	"fmt"
	"os"
	"runtime/debug"
	"sync"
	"time"
)

// Child process mode: the conversations of a batch are run by a child (the same binary with
// HCLIENT_CHILD=1) so that a crash inside a library goroutine can be attributed to the scripted
// behaviour that caused it, and so that goroutines / file descriptors can be counted in a process
// that does nothing else.

// BatchResult is what a child writes.
type BatchResult struct {
	Outcomes   []*Outcome `json:"outcomes"`
	LeakedGo   []string   `json:"leaked_goroutines,omitempty"`
	LeakedFDs  int        `json:"leaked_fds"`
	BaselineFD int        `json:"baseline_fd"`
}

func countFDs() int {
	es, err := os.ReadDir("/proc/self/fd")
	if err != nil {
		return -1
	}
	return len(es)
}

func fdTargets() []string {
	es, _ := os.ReadDir("/proc/self/fd")
	var out []string
	for _, e := range es {
		t, _ := os.Readlink("/proc/self/fd/" + e.Name())
		out = append(out, e.Name()+"->"+t)
	}
	return out
}

// ChildMain runs a batch: -in scripts.json -out result.json -progress file -par N
func ChildMain() {
	fs := flag.NewFlagSet("child", flag.ExitOnError)
	in := fs.String("in", "", "")
	outp := fs.String("out", "", "")
	prog := fs.String("progress", "", "")
	par := fs.Int("par", 8, "")
	fs.Parse(os.Args[1:]) //nolint:errcheck
	b, err := os.ReadFile(*in)
	if err != nil {
		fmt.Fprintln(os.Stderr, err)
		os.Exit(3)
	}
	var scripts []*Script
	if err = json.Unmarshal(b, &scripts); err != nil {
		fmt.Fprintln(os.Stderr, err)
		os.Exit(3)
	}
	pf, _ := os.OpenFile(*prog, os.O_CREATE|os.O_WRONLY|os.O_APPEND, 0o644)
	var pmu sync.Mutex
	mark := func(s string, i int) {
		pmu.Lock()
		fmt.Fprintf(pf, "%s %d\n", s, i)
		pmu.Unlock()
	}

	// no garbage collection while the batch runs: a socket that is only closed by a finalizer is a leak
	debug.SetGCPercent(-1)

	// warm-up: a correct conversation, so that lazily created runtime descriptors exist
	warm := &Script{Cfg: Cfg{Proto: 3, RTms: 1000}, Medias: []MediaSpec{{Control: "trackID=0", Codec: "h264"}},
		Prog: []Call{{Api: "describe"}, {Api: "setup"}, {Api: "play"}}}
	runScript(warm)
	warm.Cfg.Proto = 1
	runScript(warm)
	settle(2 * time.Second, -1)
	baseFD := countFDs()

	res := &BatchResult{Outcomes: make([]*Outcome, len(scripts)), BaselineFD: baseFD}
	var wg sync.WaitGroup
	ch := make(chan int)
	for range *par {
		wg.Add(1)
		go func() {
			defer wg.Done()
			for i := range ch {
				mark("S", i)
				o := runScript(scripts[i])
				o.Idx = i
				res.Outcomes[i] = o
				mark("E", i)
			}
		}()
	}
	for i := range scripts {
		ch <- i
	}
	close(ch)
	wg.Wait()

	leaked, fds := settle(3*time.Second, baseFD)
	res.LeakedGo = leaked
	res.LeakedFDs = fds - baseFD
	if res.LeakedFDs < 0 {
		res.LeakedFDs = 0
	}
	if res.LeakedFDs != 0 {
		res.LeakedGo = append(res.LeakedGo, fmt.Sprintf("fds: %v", fdTargets()))
	}
	ob, _ := json.Marshal(res)
	if err = os.WriteFile(*outp, ob, 0o644); err != nil {
		fmt.Fprintln(os.Stderr, err)
		os.Exit(3)
	}
}

// settle waits until no goroutine is inside the library and the descriptor count is back to base.
func settle(d time.Duration, baseFD int) ([]string, int) {
	end := time.Now().Add(d)
	for {
		g := libGoroutines()
		n := countFDs()
		if len(g) == 0 && (baseFD < 0 || n <= baseFD) {
			return nil, n
		}
		if time.Now().After(end) {
			if len(g) > 6 {
				g = g[:6]
			}
			return g, n
		}
		time.Sleep(5 * time.Millisecond)
	}
}
