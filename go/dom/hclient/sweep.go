package hclient

// Deterministic sweeps: the same small set on every run (boundary cases of the property).

func sweep(g *gen) []*Script {
	var out []*Script
	medias := []MediaSpec{{Control: "trackID=0", Codec: "h264"}, {Control: "trackID=1", Codec: "pcmu"}}
	play := []Call{{Api: "describe"}, {Api: "setup", Media: 0}, {Api: "setup", Media: 1}, {Api: "play"}, {Api: "pause"}}
	rec := []Call{{Api: "announce"}, {Api: "setup", Media: 0}, {Api: "setup", Media: 1}, {Api: "record"}, {Api: "pause"}}
	// correct conversations in every configuration
	for _, proto := range []int{0, 1, 3} {
		for _, creds := range []bool{false, true} {
			for _, r := range []bool{false, true} {
				sc := &Script{Name: "sweep-correct", Model: true, Cfg: Cfg{Proto: proto, Creds: creds, RTms: g.rt}, Medias: medias, Prog: play}
				if r {
					sc.Prog = rec
				}
				if creds {
					sc.ServerAuth = "digest"
				}
				out = append(out, sc)
			}
		}
	}
	// abrupt close / silence / close after the response at every step
	methods := []struct {
		m string
		n int
	}{{"OPTIONS", 1}, {"DESCRIBE", 1}, {"SETUP", 1}, {"SETUP", 2}, {"PLAY", 1}, {"PAUSE", 1}, {"ANNOUNCE", 1}, {"RECORD", 1}}
	for _, proto := range []int{0, 3} {
		for _, mt := range methods {
			for k, acts := range [][]Action{{{Kind: "close"}}, {}, {{Kind: "resp"}, {Kind: "close"}}, {{Kind: "rst"}}, {{Kind: "half"}}} {
				abs := []string{"x", "-", "r|x", "x", "-"}[k]
				sc := &Script{Name: "sweep-step", Model: true, Cfg: Cfg{Proto: proto, RTms: g.rt}, Medias: medias, Prog: play}
				if mt.m == "ANNOUNCE" || mt.m == "RECORD" {
					sc.Prog = rec
				}
				sc.React = []Reaction{{M: mt.m, N: mt.n, Acts: acts, Abs: abs}}
				out = append(out, sc)
			}
		}
	}
	// a request left unanswered while unrelated messages keep arriving more often than ReadTimeout:
	// the call must still return after ReadTimeout (the timer belongs to the wait, not to the silence)
	for _, mt := range methods {
		for _, what := range []string{"stale", "options", "frame"} {
			if what == "frame" && mt.m != "PLAY" && mt.m != "PAUSE" && mt.m != "RECORD" {
				continue // elsewhere a frame ends the client at once
			}
			sc := &Script{Name: "sweep-drip", Cfg: Cfg{Proto: 3, RTms: g.rt}, Medias: medias, Prog: append(append([]Call{}, play...), Call{Api: "options"})}
			if mt.m == "ANNOUNCE" || mt.m == "RECORD" {
				sc.Prog = append(append([]Call{}, rec...), Call{Api: "options"})
			}
			sc.React = []Reaction{{M: mt.m, N: mt.n, Acts: []Action{{Kind: "drip", Method: what, Every: g.rt / 3, For: 8 * g.rt}}, Abs: "?"}}
			out = append(out, sc)
		}
	}
	// failure in one call, then the next call and Wait(): every kind of failure of the wait
	for _, mt := range methods {
		for k, acts := range [][]Action{
			{{Kind: "req", Method: "SET_PARAMETER"}},
			{{Kind: "req", Method: "GET_PARAMETER"}, {Kind: "resp"}},
			{{Kind: "frame", Ch: 0, Payload: []byte{0x80, 96, 0, 1, 0, 0, 0, 1, 1, 2, 3, 4}}},
			{{Kind: "resp", Muts: []Mut{{Op: "set", K: "CSeq", V: "31337"}}}},
		} {
			abs := []string{"q0", "q0|r", "f0", "r,cs=w"}[k]
			if k == 2 && (mt.m == "PLAY" || mt.m == "PAUSE" || mt.m == "RECORD") {
				continue // frames are legal there over TCP
			}
			sc := &Script{Name: "sweep-twostep", Model: true, Cfg: Cfg{Proto: 3, RTms: g.rt}, Medias: medias, Prog: append(append([]Call{}, play...), Call{Api: "options"})}
			if mt.m == "ANNOUNCE" || mt.m == "RECORD" {
				sc.Prog = append(append([]Call{}, rec...), Call{Api: "options"})
			}
			sc.React = []Reaction{{M: mt.m, N: mt.n, Acts: acts, Abs: abs}}
			out = append(out, sc)
		}
	}
	// (a) exactly ONE state-changing request fails (in every state it can be sent in), then the same
	// kind of call again, other calls, Close
	playAgain := []Call{{Api: "describe"}, {Api: "setup", Media: 0}, {Api: "setup", Media: 1}, {Api: "play"}, {Api: "play"},
		{Api: "pause"}, {Api: "pause"}, {Api: "play"}, {Api: "pause"}, {Api: "options"}}
	recAgain := []Call{{Api: "announce"}, {Api: "announce"}, {Api: "setup", Media: 0}, {Api: "setup", Media: 1}, {Api: "record"}, {Api: "record"},
		{Api: "pause"}, {Api: "pause"}, {Api: "record"}, {Api: "pause"}, {Api: "options"}}
	type fail struct {
		acts []Action
		abs  string
	}
	fails := []fail{
		{[]Action{{Kind: "close"}}, "x"},
		{[]Action{{Kind: "rst"}}, "x"},
		{[]Action{}, "-"},
		{[]Action{{Kind: "half"}}, "-"},
		{[]Action{{Kind: "resp", Muts: []Mut{{Op: "set", K: "Session", V: "ABCDE;timeout=abc"}}}}, "r,se=b"},
		{[]Action{{Kind: "resp", Muts: []Mut{{Op: "add", K: "Session", V: "S2"}, {Op: "add", K: "Session", V: "S3"}}}}, "r,se=b"},
		{[]Action{{Kind: "resp", Muts: []Mut{{Op: "set", K: "CSeq", V: "abc"}}}}, "r,cs=w"},
		{[]Action{{Kind: "resp", Muts: []Mut{{Op: "clen", V: "+50"}}}}, "?"},
		{[]Action{{Kind: "resp", Muts: []Mut{{Op: "clen", V: "abc"}}, NoParse: true}}, "?"},
		{[]Action{{Kind: "resp", Muts: []Mut{{Op: "status", V: "500 Oops"}}}}, "r,st=500"},
		{[]Action{{Kind: "req", Method: "SET_PARAMETER"}}, "q0"},
	}
	for _, proto := range []int{3, 0} {
		for _, flow := range []struct {
			prog []Call
			ms   []struct {
				m string
				n int
			}
		}{
			{playAgain, []struct {
				m string
				n int
			}{{"SETUP", 1}, {"SETUP", 2}, {"PLAY", 1}, {"PLAY", 2}, {"PAUSE", 1}, {"PAUSE", 2}}},
			{recAgain, []struct {
				m string
				n int
			}{{"ANNOUNCE", 1}, {"SETUP", 1}, {"SETUP", 2}, {"RECORD", 1}, {"RECORD", 2}, {"PAUSE", 1}, {"PAUSE", 2}}},
		} {
			for _, mt := range flow.ms {
				fl := append([]fail{}, fails...)
				if mt.m == "SETUP" {
					fl = append(fl, fail{[]Action{{Kind: "resp", Muts: []Mut{{Op: "set", K: "Transport", V: "RTP/AVP;unicast;client_port=a-b"}}}}, "r,tr=0"},
						fail{[]Action{{Kind: "resp", Muts: []Mut{{Op: "del", K: "Transport"}}}}, "r,tr=0"})
				}
				for _, f := range fl {
					sc := &Script{Name: "sweep-fail-again", Model: f.abs != "?", Cfg: Cfg{Proto: proto, RTms: g.rt}, Medias: medias, Prog: flow.prog, Frames: true}
					sc.React = []Reaction{{M: mt.m, N: mt.n, Acts: f.acts, Abs: f.abs}}
					out = append(out, sc)
				}
			}
		}
	}
	// (b) a 401 whose challenge changes with every answer (nonce, realm, stale): the retry happens once
	for _, creds := range []bool{true, false} {
		for _, m := range []string{"OPTIONS", "DESCRIBE", "ANNOUNCE", "SETUP", "PLAY"} {
			for _, ch := range []string{
				`Digest realm="v", nonce="n$N", stale=true`,
				`Digest realm="r$N", nonce="8b84a3b789283a8bea8da7fa7d41f08b"`,
				`Digest realm="v", nonce="n$N", algorithm="SHA-256"`,
				`Basic realm="r$N"`,
			} {
				sc := &Script{Name: "sweep-401-changing", Model: true, Cfg: Cfg{Proto: 3, Creds: creds, RTms: g.rt}, Medias: medias, Prog: play}
				if m == "ANNOUNCE" {
					sc.Prog = rec
				}
				sc.React = []Reaction{{M: m, N: 0, Acts: []Action{{Kind: "resp", Muts: []Mut{{Op: "status", V: "401 Unauthorized"}, {Op: "set", K: "WWW-Authenticate", V: ch}}}}, Abs: "r,st=401,au=v"}}
				out = append(out, sc)
			}
		}
	}
	// feature axis: RequestBackChannels x what the SDP offers x which medias are set up x transport,
	// then the server goes silent after PLAY (or closes): the session must end with an error whenever
	// the client reads at least one media
	std := MediaSpec{Control: "trackID=0", Codec: "h264"}
	std2 := MediaSpec{Control: "trackID=1", Codec: "opus"}
	back := MediaSpec{Control: "trackID=9", Codec: "pcmu", Back: true}
	shapes := []struct {
		ms    []MediaSpec
		setup []int
	}{
		{[]MediaSpec{std, std2}, []int{0, 1}},
		{[]MediaSpec{back}, []int{0}},
		{[]MediaSpec{std, back}, []int{0, 1}},
		{[]MediaSpec{std, back}, []int{0}},
		{[]MediaSpec{std, back}, []int{1}},
		{[]MediaSpec{back, std}, []int{0, 1}},
	}
	for _, bc := range []bool{false, true} {
		for _, sh := range shapes {
			for _, proto := range []int{0, 1, 3} {
				for _, fk := range []string{"silent", "close"} {
					sc := &Script{Name: "sweep-features-" + fk, Cfg: Cfg{Proto: proto, BackCh: bc, RTms: g.rt, UDPms: 250}, Medias: sh.ms}
					sc.Prog = []Call{{Api: "describe"}}
					for _, mi := range sh.setup {
						sc.Prog = append(sc.Prog, Call{Api: "setup", Media: mi})
					}
					sc.Prog = append(sc.Prog, Call{Api: "play"})
					if fk == "silent" {
						sc.Prog = append(sc.Prog, Call{Api: "sleep", Ms: 2200, Silent: true}, Call{Api: "pause"})
					} else {
						sc.React = []Reaction{{M: "PLAY", N: 1, Acts: []Action{{Kind: "resp"}, {Kind: "sleep", Ms: 50}, {Kind: "close"}}, Abs: "?"}}
						sc.Prog = append(sc.Prog, Call{Api: "sleep", Ms: 300}, Call{Api: "pause"})
					}
					out = append(out, sc)
				}
			}
		}
	}
	// the server stops reading while the client publishes (RECORD) or feeds a back channel (PLAY): the
	// write queue fills, a write is about to time out, and Pause / Record / Close come at that moment
	for _, wtms := range []int{300, 500} {
		for _, pct := range []int{50, 90, 100, 110} {
			for _, then := range []string{"pause", "again", "close"} {
				for _, mode := range []string{"record", "back"} {
					sc := &Script{Name: "sweep-stopread-" + mode, SmallBuf: true, Cfg: Cfg{Proto: 3, RTms: 400, WTms: wtms}}
					stallFor := []Action{{Kind: "resp"}, {Kind: "sleep", Ms: 3 * wtms}}
					if mode == "record" {
						sc.Medias = []MediaSpec{{Control: "trackID=0", Codec: "h264"}}
						sc.Prog = []Call{{Api: "announce"}, {Api: "setup", Media: 0}, {Api: "record"}, {Api: "flood", Media: 0, Pct: pct}}
						sc.React = []Reaction{{M: "RECORD", N: 1, Acts: stallFor, Abs: "?"}}
					} else {
						sc.Cfg.BackCh = true
						sc.Medias = []MediaSpec{{Control: "trackID=0", Codec: "h264"}, {Control: "trackID=1", Codec: "pcmu", Back: true}}
						sc.Prog = []Call{{Api: "describe"}, {Api: "setup", Media: 0}, {Api: "setup", Media: 1}, {Api: "play"}, {Api: "flood", Media: 1, Pct: pct}}
						sc.React = []Reaction{{M: "PLAY", N: 1, Acts: stallFor, Abs: "?"}}
					}
					switch then {
					case "pause":
						sc.Prog = append(sc.Prog, Call{Api: "pause"}, Call{Api: "options"})
					case "again":
						sc.Prog = append(sc.Prog, Call{Api: mode2api(mode)}, Call{Api: "pause"})
					}
					out = append(out, sc)
				}
			}
		}
	}
	// one connection of the (tunnel) handshake stalls at a given stage
	for _, m := range []struct {
		tunnel int
		secure bool
		conns  []int
	}{{1, false, []int{1, 2}}, {1, true, []int{1, 2}}, {2, false, []int{1}}, {2, true, []int{1}}, {0, true, []int{1}}, {0, false, []int{1}}} {
		for _, cn := range m.conns {
			for _, st := range []string{"tcp", "tlsmid", "nohttp", "partial"} {
				if st == "tlsmid" && !m.secure {
					continue
				}
				sc := &Script{Name: "sweep-stall-" + st, StallConn: cn, StallStage: st,
					Cfg: Cfg{Proto: 3, Tunnel: m.tunnel, Secure: m.secure, RTms: g.rt}, Medias: []MediaSpec{{Control: "trackID=0", Codec: "h264"}},
					Prog: []Call{{Api: "options"}, {Api: "describe"}, {Api: "setup", Media: 0}, {Api: "play"}}}
				out = append(out, sc)
			}
		}
	}
	return out
}

func mode2api(mode string) string {
	if mode == "record" {
		return "record"
	}
	return "play"
}
