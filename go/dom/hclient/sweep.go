package hclient

// Deterministic sweeps: the same small set on every run (boundary cases of the property).

func sweep(g *gen) []*Script {
	var out []*Script
	medias := []MediaSpec{{Control: "trackID=0", Codec: "h264"}, {Control: "trackID=1", Codec: "pcmu"}}
	play := []Call{{Api: "describe"}, {Api: "setup", Media: 0}, {Api: "setup", Media: 1}, {Api: "play"}, {Api: "pause"}}
	rec := []Call{{Api: "announce"}, {Api: "setup", Media: 0}, {Api: "setup", Media: 1}, {Api: "record"}, {Api: "pause"}}
	// correct conversations in every configuration
	for _, proto := range []int{0, 1, 3} {
		for _, creds := range []bool{false, true} {
			for _, r := range []bool{false, true} {
				sc := &Script{Name: "sweep-correct", Model: true, Cfg: Cfg{Proto: proto, Creds: creds, RTms: g.rt}, Medias: medias, Prog: play}
				if r {
					sc.Prog = rec
				}
				if creds {
					sc.ServerAuth = "digest"
				}
				out = append(out, sc)
			}
		}
	}
	// abrupt close / silence / close after the response at every step
	methods := []struct {
		m string
		n int
	}{{"OPTIONS", 1}, {"DESCRIBE", 1}, {"SETUP", 1}, {"SETUP", 2}, {"PLAY", 1}, {"PAUSE", 1}, {"ANNOUNCE", 1}, {"RECORD", 1}}
	for _, proto := range []int{0, 3} {
		for _, mt := range methods {
			for k, acts := range [][]Action{{{Kind: "close"}}, {}, {{Kind: "resp"}, {Kind: "close"}}, {{Kind: "rst"}}, {{Kind: "half"}}} {
				abs := []string{"x", "-", "r|x", "x", "-"}[k]
				sc := &Script{Name: "sweep-step", Model: true, Cfg: Cfg{Proto: proto, RTms: g.rt}, Medias: medias, Prog: play}
				if mt.m == "ANNOUNCE" || mt.m == "RECORD" {
					sc.Prog = rec
				}
				sc.React = []Reaction{{M: mt.m, N: mt.n, Acts: acts, Abs: abs}}
				out = append(out, sc)
			}
		}
	}
	// a request left unanswered while unrelated messages keep arriving more often than ReadTimeout:
	// the call must still return after ReadTimeout (the timer belongs to the wait, not to the silence)
	for _, mt := range methods {
		for _, what := range []string{"stale", "options", "frame"} {
			if what == "frame" && mt.m != "PLAY" && mt.m != "PAUSE" && mt.m != "RECORD" {
				continue // elsewhere a frame ends the client at once
			}
			sc := &Script{Name: "sweep-drip", Cfg: Cfg{Proto: 3, RTms: g.rt}, Medias: medias, Prog: append(append([]Call{}, play...), Call{Api: "options"})}
			if mt.m == "ANNOUNCE" || mt.m == "RECORD" {
				sc.Prog = append(append([]Call{}, rec...), Call{Api: "options"})
			}
			sc.React = []Reaction{{M: mt.m, N: mt.n, Acts: []Action{{Kind: "drip", Method: what, Every: g.rt / 3, For: 8 * g.rt}}, Abs: "?"}}
			out = append(out, sc)
		}
	}
	// failure in one call, then the next call and Wait(): every kind of failure of the wait
	for _, mt := range methods {
		for k, acts := range [][]Action{
			{{Kind: "req", Method: "SET_PARAMETER"}},
			{{Kind: "req", Method: "GET_PARAMETER"}, {Kind: "resp"}},
			{{Kind: "frame", Ch: 0, Payload: []byte{0x80, 96, 0, 1, 0, 0, 0, 1, 1, 2, 3, 4}}},
			{{Kind: "resp", Muts: []Mut{{Op: "set", K: "CSeq", V: "31337"}}}},
		} {
			abs := []string{"q0", "q0|r", "f0", "r,cs=w"}[k]
			if k == 2 && (mt.m == "PLAY" || mt.m == "PAUSE" || mt.m == "RECORD") {
				continue // frames are legal there over TCP
			}
			sc := &Script{Name: "sweep-twostep", Model: true, Cfg: Cfg{Proto: 3, RTms: g.rt}, Medias: medias, Prog: append(append([]Call{}, play...), Call{Api: "options"})}
			if mt.m == "ANNOUNCE" || mt.m == "RECORD" {
				sc.Prog = append(append([]Call{}, rec...), Call{Api: "options"})
			}
			sc.React = []Reaction{{M: mt.m, N: mt.n, Acts: acts, Abs: abs}}
			out = append(out, sc)
		}
	}
	return out
}
