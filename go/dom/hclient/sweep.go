package hclient

// Deterministic sweeps: the same small set on every run (boundary cases of the property).

func sweep(g *gen) []*Script {
	var out []*Script
	medias := []MediaSpec{{Control: "trackID=0", Codec: "h264"}, {Control: "trackID=1", Codec: "pcmu"}}
	play := []Call{{Api: "describe"}, {Api: "setup", Media: 0}, {Api: "setup", Media: 1}, {Api: "play"}, {Api: "pause"}}
	rec := []Call{{Api: "announce"}, {Api: "setup", Media: 0}, {Api: "setup", Media: 1}, {Api: "record"}, {Api: "pause"}}
	// correct conversations in every configuration
	for _, proto := range []int{0, 1, 3} {
		for _, creds := range []bool{false, true} {
			for _, r := range []bool{false, true} {
				sc := &Script{Name: "sweep-correct", Model: true, Cfg: Cfg{Proto: proto, Creds: creds, RTms: g.rt}, Medias: medias, Prog: play}
				if r {
					sc.Prog = rec
				}
				if creds {
					sc.ServerAuth = "digest"
				}
				out = append(out, sc)
			}
		}
	}
	// abrupt close / silence / close after the response at every step
	methods := []struct {
		m string
		n int
	}{{"OPTIONS", 1}, {"DESCRIBE", 1}, {"SETUP", 1}, {"SETUP", 2}, {"PLAY", 1}, {"PAUSE", 1}, {"ANNOUNCE", 1}, {"RECORD", 1}}
	for _, proto := range []int{0, 3} {
		for _, mt := range methods {
			for k, acts := range [][]Action{{{Kind: "close"}}, {}, {{Kind: "resp"}, {Kind: "close"}}, {{Kind: "rst"}}, {{Kind: "half"}}} {
				abs := []string{"x", "-", "r|x", "x", "-"}[k]
				sc := &Script{Name: "sweep-step", Model: true, Cfg: Cfg{Proto: proto, RTms: g.rt}, Medias: medias, Prog: play}
				if mt.m == "ANNOUNCE" || mt.m == "RECORD" {
					sc.Prog = rec
				}
				sc.React = []Reaction{{M: mt.m, N: mt.n, Acts: acts, Abs: abs}}
				out = append(out, sc)
			}
		}
	}
	return out
}
