// Package codecbasic: correspondence specs of the simple codecs (rtpfragmented, …).
package codecbasic

import (
	"errors"
	"fmt"
	"math/rand/v2"

	"github.com/pion/rtp"

	"github.com/bluenviron/gortsplib/v5/pkg/format/rtpfragmented"

	"verifharness/corr"
	cu "verifharness/dom/codecutil"
)

type fragEnc struct{ e *rtpfragmented.Encoder }

func (x fragEnc) Encode(f cu.Frame) ([]*rtp.Packet, error) { return x.e.Encode(f[0]) }

type fragDec struct{ d *rtpfragmented.Decoder }

func (x fragDec) Decode(p *rtp.Packet) (cu.Frame, error) {
	f, err := x.d.Decode(p)
	if err != nil {
		return nil, err
	}
	return cu.Frame{f}, nil
}
func (x fragDec) State() any { return x.d }

// SizesAround draws a byte length concentrated around multiples of max.
func SizesAround(r *rand.Rand, max int) int {
	switch r.IntN(4) {
	case 0:
		return 1 + r.IntN(max)
	case 1:
		k := 1 + r.IntN(3)
		n := k*max - 8 + r.IntN(17)
		if n < 1 {
			n = 1
		}
		return n
	case 2:
		return 1 + r.IntN(3*max+1)
	default:
		return 1 + r.IntN(8)
	}
}

func RandBytes(r *rand.Rand, n int) []byte {
	b := make([]byte, n)
	for i := range b {
		b[i] = byte(r.IntN(256))
	}
	return b
}

// Fragmented is the spec of pkg/format/rtpfragmented.
var Fragmented = &cu.Spec{
	Name:           "fragmented",
	Fragmenting:    true,
	MarkerLast:     true,
	MarkerOnlyLast: true,
	Stateful:       true,
	MaxFrameBytes:  1 << 20,
	FrameOfSize: func(n int) cu.Frame {
		b := make([]byte, n)
		for i := range b {
			b[i] = byte(i*13 + 1)
		}
		copy(b, []byte{0x00})
		return cu.Frame{b}
	},
	RetainBound:    1<<20 + 65536,
	PickMax: func(r *rand.Rand) int {
		if r.IntN(8) == 0 {
			return 1450
		}
		return 1 + r.IntN(40)
	},
	Classify: func(err error) string {
		if errors.Is(err, rtpfragmented.ErrMorePacketsNeeded) {
			return "more"
		}
		return "err"
	},
	New: func(r *rand.Rand, p cu.EncParams) (*cu.Instance, error) {
		e := &rtpfragmented.Encoder{PayloadType: p.PT, SSRC: &p.SSRC, InitialSequenceNumber: &p.Seq0, PayloadMaxSize: p.Max}
		if err := e.Init(); err != nil {
			return nil, err
		}
		return &cu.Instance{
			PT:  p.PT,
			Enc: fragEnc{e},
			NewDec: func() cu.Decoder {
				d := &rtpfragmented.Decoder{}
				d.Init()
				return fragDec{d}
			},
			GenFrame: func(r *rand.Rand) cu.Frame { return cu.Frame{RandBytes(r, SizesAround(r, p.Max))} },
		}, nil
	},
}

// Run is the domain entry point.
func Run(c *corr.Ctx) {
	c.Rule("per codec: round trips of 1..3 consecutive valid frames (sizes concentrated within ±8 of k·max, payload limits from the smallest workable value, initial sequence numbers incl. wrap inside the run), fault streams (drop / duplicate / swap on 3..8 frame streams), hostile streams (random, mutated, shuffled, endless fragments); non-trivial = multi-packet or multi-frame or faulted; distinct = distinct op-line sequences")
	specs := []*cu.Spec{Fragmented}
	if c.Replay != nil {
		for _, s := range specs {
			if cu.Replay(c, s, c.Replay) {
				return
			}
		}
		return
	}
	for _, s := range specs {
		cu.RunAll(c, s)
	}
	// long runs: one Encode call that yields more than 256 (and, in the thorough tier, more than
	// 65536) packets, followed by further calls: counters narrower than the sequence number must not
	// leak into the numbering (found necessary by a seeded change in another encoder)
	if c.Want("C06") || c.Want("C03") {
		for i := 0; i < c.N(6, 40); i++ {
			max := 1 + c.Rng.IntN(3)
			n := 257 + c.Rng.IntN(600)
			if !c.Quick() && i%10 == 0 {
				n = 65537 + c.Rng.IntN(300)
				max = 1
			}
			p := cu.EncParams{PT: 96, SSRC: c.Rng.Uint32(), Seq0: uint16(c.Rng.IntN(65536)), Max: max}
			cu.RoundTrip(c, Fragmented, p, func(*cu.Instance) []cu.Frame {
				return []cu.Frame{{RandBytes(c.Rng, n*max-c.Rng.IntN(max))}, {RandBytes(c.Rng, 1+c.Rng.IntN(3*max))}, {RandBytes(c.Rng, 300*max)}}
			}, fmt.Sprintf("fragmented-longrun-%d", i))
		}
	}
}
