// Package auth is the correspondence driver and property oracle of C10 (authentication complete
// and sound): pkg/auth + pkg/headers/{authorization,authenticate} + the server's 401-vs-close
// decision + the client's retry, against lean/Rtsp/Model/Auth.lean.
package auth

import (
	"bytes"
	"crypto/md5"
	"crypto/sha256"
	"encoding/base64"
	"encoding/hex"
	"encoding/json"
	"fmt"
	"os"
	"path/filepath"
	"regexp"
	"sort"
	"strings"

	gauth "github.com/bluenviron/gortsplib/v5/pkg/auth"
	"github.com/bluenviron/gortsplib/v5/pkg/base"
	"github.com/bluenviron/gortsplib/v5/pkg/headers"

	"verifharness/corr"
)

const prop = "C10"

// S is a Go string that is transported as hex in replay files (it may hold any bytes).
type S string

func (s S) MarshalJSON() ([]byte, error) {
	return json.Marshal(map[string]string{"hex": hex.EncodeToString([]byte(s)), "text": strings.ToValidUTF8(string(s), "?")})
}

func (s *S) UnmarshalJSON(b []byte) error {
	var m map[string]string
	if err := json.Unmarshal(b, &m); err != nil {
		var t string
		if err2 := json.Unmarshal(b, &t); err2 != nil {
			return err
		}
		*s = S(t)
		return nil
	}
	if h, ok := m["hex"]; ok {
		d, err := hex.DecodeString(h)
		if err != nil {
			return err
		}
		*s = S(d)
		return nil
	}
	*s = S(m["text"])
	return nil
}

// Input is the replayable input of one case (tagged union).
type Input struct {
	Kind   string  `json:"kind"` // direct | raw | hash | b64 | server | client | flow
	Direct *Direct `json:"direct,omitempty"`
	Raw    *Raw    `json:"raw,omitempty"`
	Bytes  S       `json:"bytes,omitempty"`
	Server *Server `json:"server,omitempty"`
	Client *Client `json:"client,omitempty"`
	Flow   *Flow   `json:"flow,omitempty"`
	Conc   *Conc   `json:"conc,omitempty"`
}

// Direct: real auth.Sender -> real auth.Verify.  The server side is (Methods, User, Pass, Realm,
// Nonce, ReqMethod, URL); the credentials are computed by the sender for the same values except
// for the single perturbed field.
type Direct struct {
	Methods   []int  `json:"methods"` // nil = Go nil (defaults)
	User      S      `json:"user"`
	Pass      S      `json:"pass"`
	Realm     S      `json:"realm"`
	Nonce     S      `json:"nonce"`
	ReqMethod string `json:"req_method"`
	URL       string `json:"url"`        // URL held by the sender (may contain credentials)
	KeepCreds bool   `json:"keep_creds"` // the verifier's request URL keeps the credentials (not what the wire does)
	Perturb   string `json:"perturb"`    // "" | user | pass | realm | nonce | method | algorithm | url-header | url-response | scheme | setup-base | setup-base-noslash | requri
	Alt       S      `json:"alt"`        // the differing value (user, pass, realm, nonce, method, url)
}

// Raw: an arbitrary Authorization header value list verified against fixed expectations, and an
// arbitrary WWW-Authenticate value list given to the sender.
type Raw struct {
	Authz     []S    `json:"authz"`
	WWW       []S    `json:"www"`
	Methods   []int  `json:"methods"`
	User      S      `json:"user"`
	Pass      S      `json:"pass"`
	Realm     S      `json:"realm"`
	Nonce     S      `json:"nonce"`
	ReqMethod string `json:"req_method"`
	URL       string `json:"url"`
}

func hx(s S) string { return corr.Hex([]byte(s)) }

func hxs(s string) string { return corr.Hex([]byte(s)) }

func listTok(v []string) string {
	if len(v) == 0 {
		return "~"
	}
	out := make([]string, len(v))
	for i, x := range v {
		out[i] = hxs(x)
	}
	return strings.Join(out, ",")
}

func methodsTok(ms []int) string {
	if ms == nil {
		return "nil"
	}
	if len(ms) == 0 {
		return "~"
	}
	return corr.Ints(ms)
}

func toVM(ms []int) []gauth.VerifyMethod {
	if ms == nil {
		return nil
	}
	out := make([]gauth.VerifyMethod, len(ms))
	for i, m := range ms {
		out[i] = gauth.VerifyMethod(m)
	}
	return out
}

func okErr(err error) string {
	if err == nil {
		return "ok"
	}
	return "err"
}

func algTok(a *headers.AuthAlgorithm) string {
	switch {
	case a == nil:
		return "nil"
	case *a == headers.AuthAlgorithmMD5:
		return "md5"
	default:
		return "sha256"
	}
}

type runner struct {
	c *corr.Ctx
}

func (r *runner) viol(clause, key string, in any, detail string) {
	r.c.Violate(corr.Violation{Property: prop, Clause: clause, Key: key, Where: "pkg/auth, pkg/headers, server_conn.go", Input: in, Detail: detail})
}

// guard converts a panic of the code under test into a violation (no input may crash it).
func (r *runner) guard(in any, f func()) {
	defer func() {
		if e := recover(); e != nil {
			r.viol("no input crashes the authentication code", "auth-panic", in, fmt.Sprint(e))
		}
	}()
	f()
}

var reTrack = regexp.MustCompile(`^(.+/)trackID=[0-9]+$`)

// schemeOf classifies an Authorization header value produced by the sender.
func schemeOf(hv base.HeaderValue) string {
	if len(hv) != 1 {
		return "?"
	}
	switch {
	case strings.HasPrefix(hv[0], "Basic "):
		return "basic"
	case strings.HasPrefix(hv[0], "Digest ") && strings.HasSuffix(hv[0], `algorithm="SHA-256"`):
		return "sha256"
	case strings.HasPrefix(hv[0], "Digest "):
		return "md5"
	}
	return "?"
}

func validMethods(ms []int) bool {
	if ms == nil {
		return true
	}
	if len(ms) == 0 {
		return false
	}
	for _, m := range ms {
		if m < 0 || m > 2 {
			return false
		}
	}
	return true
}

// wellFormed is the hypothesis of the completeness clause (Props/C10 `WF`).
func wellFormed(d *Direct, urlStr string) bool {
	return validMethods(d.Methods) &&
		!strings.ContainsAny(string(d.User), "\":") &&
		!strings.Contains(string(d.Realm), "\"") &&
		!strings.Contains(string(d.Nonce), "\"") &&
		!strings.Contains(urlStr, "\"")
}

func stripCreds(u *base.URL) *base.URL {
	// what the wire does: the request line carries CloneWithoutCredentials().String(), the server parses it
	s := u.CloneWithoutCredentials().String()
	v, err := base.ParseURL(s)
	if err != nil {
		return nil
	}
	return v
}

// direct runs one Direct case.
func (r *runner) direct(d *Direct, name string) {
	in := &Input{Kind: "direct", Direct: d}
	r.guard(in, func() { r.direct1(d, in, name) })
}

// directOut: what the real code answered on one Direct case (no harness bookkeeping: directExec is
// also run from many goroutines at once by the concurrent workload).
type directOut struct {
	skip          string // non-empty: the case could not be built (counter name)
	su, vu, curl  *base.URL
	cu, cp        S
	crealm        S
	cnonce        S
	cmethod       string
	verifyMethods []int
	www           base.HeaderValue
	sendNone      bool
	sendErr       error
	hvSent        base.HeaderValue // what Sender.AddAuthorization produced
	hv            base.HeaderValue // what was verified (after a header-level perturbation)
	scheme        string
	verr          error
}

// directExec runs the real GenerateWWWAuthenticate -> Sender -> Verify path of one Direct case.
func directExec(d *Direct) (o *directOut) {
	o = &directOut{}
	su, err := base.ParseURL(d.URL)
	if err != nil {
		o.skip = "direct:url-unparsable"
		return
	}
	vu := su
	if !d.KeepCreds {
		vu = stripCreds(su)
		if vu == nil {
			o.skip = "direct:url-unparsable-after-strip"
			return
		}
	}

	// what the credentials are computed for
	cu, cp, crealm, cnonce, cmethod, curl := d.User, d.Pass, d.Realm, d.Nonce, d.ReqMethod, su
	verifyMethods := d.Methods
	switch d.Perturb {
	case "user":
		cu = d.Alt
	case "pass":
		cp = d.Alt
	case "realm":
		crealm = d.Alt
	case "nonce":
		cnonce = d.Alt
	case "method":
		cmethod = string(d.Alt)
	case "url-header", "url-response", "setup-base", "setup-base-noslash":
		var e error
		curl, e = base.ParseURL(string(d.Alt))
		if e != nil {
			o.skip = "direct:alt-url-unparsable"
			return
		}
	}
	o.su, o.vu, o.curl, o.cu, o.cp, o.crealm, o.cnonce, o.cmethod = su, vu, curl, cu, cp, crealm, cnonce, cmethod

	www := gauth.GenerateWWWAuthenticate(toVM(d.Methods), string(crealm), string(cnonce))
	o.www = www
	se := &gauth.Sender{WWWAuth: www, User: string(cu), Pass: string(cp)}
	if err = se.Initialize(); err != nil {
		o.sendNone, o.sendErr = true, err
		return
	}
	sreq := &base.Request{Method: base.Method(cmethod), URL: curl}
	se.AddAuthorization(sreq)
	hv := sreq.Header["Authorization"]
	o.hvSent = hv
	scheme := schemeOf(hv)
	o.scheme = scheme

	// header-level perturbations
	switch d.Perturb {
	case "algorithm":
		if len(hv) == 1 {
			switch {
			case strings.HasSuffix(hv[0], `algorithm="MD5"`):
				hv = base.HeaderValue{strings.TrimSuffix(hv[0], `algorithm="MD5"`) + `algorithm="SHA-256"`}
			case strings.HasSuffix(hv[0], `algorithm="SHA-256"`):
				hv = base.HeaderValue{strings.TrimSuffix(hv[0], `algorithm="SHA-256"`) + `algorithm="MD5"`}
			}
		}
	case "url-response":
		// the header names the request's URL, the response was computed for another one
		if len(hv) == 1 {
			hv = base.HeaderValue{strings.Replace(hv[0], `uri="`+curl.CloneWithoutCredentials().String()+`"`, `uri="`+vu.String()+`"`, 1)}
		}
	case "requri":
		// RFC 2617 relative form (abs_path), as sent by e.g. Bosch BVMS: hand-made foreign client
		if scheme == "md5" || scheme == "sha256" {
			hv = foreignDigest(scheme, string(cu), string(crealm), string(cnonce), string(cp), cmethod, vu.RequestURI())
		}
	case "scheme":
		// the verifier enables everything except the scheme the credentials use
		verifyMethods = nil
		for _, m := range []int{0, 1, 2} {
			if (m == 0 && scheme == "basic") || (m == 1 && scheme == "md5") || (m == 2 && scheme == "sha256") {
				continue
			}
			verifyMethods = append(verifyMethods, m)
		}
		if len(d.Alt) > 0 && d.Alt[0]&1 == 1 {
			verifyMethods = verifyMethods[:1]
		}
	}
	o.hv, o.verifyMethods = hv, verifyMethods

	vreq := &base.Request{Method: base.Method(d.ReqMethod), URL: vu, Header: base.Header{"Authorization": hv}}
	o.verr = gauth.Verify(vreq, string(d.User), string(d.Pass), toVM(verifyMethods), string(d.Realm), string(d.Nonce))
	return
}

func (r *runner) direct1(d *Direct, in *Input, name string) {
	r.directReport(d, directExec(d), in, name, true)
}

// directReport: correspondence lines (when addCase) and the property oracle for one executed case.
func (r *runner) directReport(d *Direct, o *directOut, in *Input, name string, addCase bool) {
	c := r.c
	if o.skip != "" {
		c.Dist(o.skip)
		return
	}
	su, vu, curl, cu, cp, crealm, cnonce, cmethod := o.su, o.vu, o.curl, o.cu, o.cp, o.crealm, o.cnonce, o.cmethod
	_ = cp
	cs := corr.Case{Name: name, Nontrivial: true}
	add := func(op, impl string) {
		cs.Ops = append(cs.Ops, op)
		cs.Impl = append(cs.Impl, impl)
	}
	add(fmt.Sprintf("auth www %s %s %s", methodsTok(d.Methods), hx(crealm), hx(cnonce)), listTok(o.www))
	sendOp := fmt.Sprintf("auth send %s %s %s %s %s", listTok(o.www), hx(cu), hx(o.cp), hxs(cmethod), hxs(curl.CloneWithoutCredentials().String()))
	if o.sendNone {
		add(sendOp, "none")
		c.Dist("direct:sender-none")
		if d.Perturb == "" && wellFormed(d, vu.String()) {
			r.viol("a challenge the server can issue is usable by the sender", "auth-complete-sender", in, "Sender.Initialize: "+o.sendErr.Error())
		}
		if addCase {
			c.Add(cs)
		}
		return
	}
	add(sendOp, "hdr "+listTok(o.hvSent))
	scheme, verr, verifyMethods, hv := o.scheme, o.verr, o.verifyMethods, o.hv
	c.Dist("direct:scheme=" + scheme)
	add(fmt.Sprintf("auth verify %s %s %s %s %s %s %s %s %s", hxs(d.ReqMethod), hxs(vu.String()), hxs(vu.RequestURI()),
		listTok(hv), hx(d.User), hx(d.Pass), methodsTok(verifyMethods), hx(d.Realm), hx(d.Nonce)), okErr(verr))
	if addCase {
		c.Add(cs)
	}

	// ---------------- property oracle, evaluated on the implementation's answers only ----------------
	accepted := verr == nil
	wf := wellFormed(d, vu.String())
	if d.KeepCreds && su.User != nil {
		c.Dist("direct:verifier-url-with-credentials")
		return // not a wire situation; correspondence only
	}
	switch d.Perturb {
	case "":
		if !wf {
			c.Dist("direct:not-wellformed")
			return
		}
		c.Dist("direct:complete-checked")
		if !accepted {
			key := "auth-complete-" + scheme
			if scheme == "basic" && strings.Contains(string(d.Pass), ":") {
				key = "auth-basic-colon-password"
			}
			r.viol("credentials produced by the client side from the correct user and password are accepted", key, in,
				fmt.Sprintf("scheme %s: Verify: %v", scheme, verr))
		}
	case "requri":
		if !wf || scheme == "basic" {
			return
		}
		c.Dist("direct:requri-checked")
		if !accepted {
			r.viol("the digest URI may be the request's abs_path (RFC 2617 3.2.2)", "auth-complete-requri", in, fmt.Sprintf("Verify: %v", verr))
		}
	case "setup-base", "setup-base-noslash":
		if !wf || scheme == "basic" {
			return
		}
		m := reTrack.FindStringSubmatch(vu.String())
		isBase := m != nil && (curl.String() == m[1] || curl.String()+"/" == m[1])
		if d.ReqMethod == "SETUP" && isBase {
			c.Dist("direct:setup-rule-accept-checked")
			if !accepted {
				r.viol("SETUP base-URL compatibility rule", "auth-setup-rule", in, fmt.Sprintf("Verify: %v", verr))
			}
		} else if curl.CloneWithoutCredentials().String() == vu.String() {
			c.Dist("direct:setup-rule-n/a")
		} else {
			c.Dist("direct:setup-rule-reject-checked")
			if accepted {
				r.viol("the only URL relaxation is the SETUP base-URL rule", "auth-sound-url", in,
					fmt.Sprintf("credentials computed for %q accepted on %s %q", curl.String(), d.ReqMethod, vu.String()))
			}
		}
	default:
		// single-field deviation: must be rejected
		applicable := true
		differs := true
		switch d.Perturb {
		case "user":
			differs = cu != d.User
			// Basic: `user:pass` is one text; the property quantifies over user names without ':'
			applicable = !strings.ContainsAny(string(cu), ":") && !strings.ContainsAny(string(d.User), ":")
		case "pass":
			differs = cp != d.Pass
			applicable = !strings.ContainsAny(string(d.User), ":")
		case "realm":
			differs = crealm != d.Realm
			applicable = scheme != "basic" // Basic credentials are not computed from the realm
		case "nonce":
			differs = cnonce != d.Nonce
			applicable = scheme != "basic"
		case "method":
			differs = cmethod != d.ReqMethod
			applicable = scheme != "basic"
		case "algorithm":
			applicable = scheme != "basic"
		case "url-header", "url-response":
			differs = curl.CloneWithoutCredentials().String() != vu.String()
			applicable = scheme != "basic"
			if d.Perturb == "url-header" && d.ReqMethod == "SETUP" {
				if m := reTrack.FindStringSubmatch(vu.String()); m != nil && (curl.String() == m[1] || curl.String()+"/" == m[1]) {
					applicable = false // that is the documented rule, covered by setup-base
				}
			}
		case "scheme":
		default:
			return
		}
		if !differs || !applicable {
			c.Dist("direct:perturb-" + d.Perturb + "-n/a")
			return
		}
		c.Dist("direct:perturb-" + d.Perturb + "-checked")
		if accepted {
			r.viol("a request is rejected whenever the "+d.Perturb+" it was computed for differs from what the server expects",
				"auth-sound-"+d.Perturb, in, "scheme "+scheme+": accepted")
		}
	}
}

// foreignDigest builds the Authorization header of a foreign client that uses `uri` verbatim.
func foreignDigest(scheme, user, realm, nonce, pass, method, uri string) base.HeaderValue {
	h := func(s string) string {
		if scheme == "sha256" {
			x := sha256.Sum256([]byte(s))
			return hex.EncodeToString(x[:])
		}
		x := md5.Sum([]byte(s))
		return hex.EncodeToString(x[:])
	}
	a := headers.Authorization{Method: headers.AuthMethodDigest, Username: user, Realm: realm, Nonce: nonce, URI: uri,
		Response: h(h(user+":"+realm+":"+pass) + ":" + nonce + ":" + h(method+":"+uri))}
	if scheme == "sha256" {
		al := headers.AuthAlgorithmSHA256
		a.Algorithm = &al
	}
	return a.Marshal()
}

// raw runs one Raw case: parsers, sender and verifier on arbitrary header text.
func (r *runner) raw(w *Raw, name string) {
	in := &Input{Kind: "raw", Raw: w}
	r.guard(in, func() {
		c := r.c
		u, err := base.ParseURL(w.URL)
		if err != nil {
			return
		}
		cs := corr.Case{Name: name, Nontrivial: true}
		add := func(op, impl string) {
			cs.Ops = append(cs.Ops, op)
			cs.Impl = append(cs.Impl, impl)
		}
		strs := func(xs []S) []string {
			out := make([]string, len(xs))
			for i, x := range xs {
				out[i] = string(x)
			}
			return out
		}
		authz := strs(w.Authz)
		www := strs(w.WWW)

		if w.Authz != nil {
			var a headers.Authorization
			perr := a.Unmarshal(base.HeaderValue(authz))
			impl := "err"
			if perr == nil {
				if a.Method == headers.AuthMethodBasic {
					impl = fmt.Sprintf("basic %s %s", hxs(a.Username), hxs(a.BasicPass))
				} else {
					impl = fmt.Sprintf("digest %s %s %s %s %s %s", hxs(a.Username), hxs(a.Realm), hxs(a.Nonce), hxs(a.URI), hxs(a.Response), algTok(a.Algorithm))
				}
			}
			c.Dist("raw:authz-parse=" + strings.SplitN(impl, " ", 2)[0])
			add("auth pauthz "+listTok(authz), impl)

			vreq := &base.Request{Method: base.Method(w.ReqMethod), URL: u, Header: base.Header{}}
			if len(authz) > 0 {
				vreq.Header["Authorization"] = base.HeaderValue(authz)
			}
			verr := gauth.Verify(vreq, string(w.User), string(w.Pass), toVM(w.Methods), string(w.Realm), string(w.Nonce))
			c.Dist("raw:verify=" + okErr(verr))
			add(fmt.Sprintf("auth verify %s %s %s %s %s %s %s %s %s", hxs(w.ReqMethod), hxs(u.String()), hxs(u.RequestURI()),
				listTok(authz), hx(w.User), hx(w.Pass), methodsTok(w.Methods), hx(w.Realm), hx(w.Nonce)), okErr(verr))
		}
		if w.WWW != nil {
			if len(www) == 1 || len(www) == 0 || len(www) == 2 {
				var a headers.Authenticate
				perr := a.Unmarshal(base.HeaderValue(www))
				impl := "err"
				if perr == nil {
					if a.Method == headers.AuthMethodBasic {
						impl = "basic " + hxs(a.Realm)
					} else {
						impl = fmt.Sprintf("digest %s %s %s", hxs(a.Realm), hxs(a.Nonce), algTok(a.Algorithm))
					}
				}
				c.Dist("raw:www-parse=" + strings.SplitN(impl, " ", 2)[0])
				add("auth pwww "+listTok(www), impl)
			}
			se := &gauth.Sender{WWWAuth: base.HeaderValue(www), User: string(w.User), Pass: string(w.Pass)}
			op := fmt.Sprintf("auth send %s %s %s %s %s", listTok(www), hx(w.User), hx(w.Pass), hxs(w.ReqMethod), hxs(u.CloneWithoutCredentials().String()))
			if err = se.Initialize(); err != nil {
				add(op, "none")
				c.Dist("raw:sender=none")
			} else {
				rq := &base.Request{Method: base.Method(w.ReqMethod), URL: u}
				se.AddAuthorization(rq)
				add(op, "hdr "+listTok(rq.Header["Authorization"]))
				c.Dist("raw:sender=" + schemeOf(rq.Header["Authorization"]))
			}
		}
		c.Add(cs)
	})
}

// hashCase: Lean MD5 / SHA-256 against crypto/md5, crypto/sha256.
func (r *runner) hashCase(b []byte, name string) {
	m := md5.Sum(b)
	s := sha256.Sum256(b)
	r.c.Add(corr.Case{Name: name, Nontrivial: true,
		Ops:  []string{"auth md5 " + corr.Hex(b), "auth sha256 " + corr.Hex(b)},
		Impl: []string{hxs(hex.EncodeToString(m[:])), hxs(hex.EncodeToString(s[:]))}})
}

// b64Case: Lean base64 against encoding/base64.StdEncoding (encode of b; decode of b taken as text).
func (r *runner) b64Case(b []byte, name string) {
	enc := base64.StdEncoding.EncodeToString(b)
	dec, err := base64.StdEncoding.DecodeString(string(b))
	impl := "err"
	if err == nil {
		impl = "ok " + corr.Hex(dec)
		r.c.Dist("b64:decode-ok")
	} else {
		r.c.Dist("b64:decode-err")
	}
	r.c.Add(corr.Case{Name: name, Nontrivial: true,
		Ops:  []string{"auth b64e " + corr.Hex(b), "auth b64d " + corr.Hex(b), "auth b64d " + hxs(enc)},
		Impl: []string{hxs(enc), impl, "ok " + corr.Hex(b)}})
	if rt, e := base64.StdEncoding.DecodeString(enc); e != nil || !bytes.Equal(rt, b) {
		r.viol("base64 round trip", "auth-b64", &Input{Kind: "b64", Bytes: S(b)}, "decode(encode(x)) != x")
	}
}

func (r *runner) replay(in *Input, name string) {
	switch in.Kind {
	case "direct":
		r.direct(in.Direct, name)
	case "raw":
		r.raw(in.Raw, name)
	case "hash":
		r.hashCase([]byte(in.Bytes), name)
	case "b64":
		r.b64Case([]byte(in.Bytes), name)
	case "server":
		r.serverCase(in.Server, name)
	case "client":
		r.clientCase(in.Client, name)
	case "flow":
		r.flowCase(in.Flow, name)
	case "conc":
		r.concCase(in.Conc, name)
	}
}

func corpusDir() string {
	if d := os.Getenv("VERIF_ROOT"); d != "" {
		return filepath.Join(d, "corpus", prop)
	}
	if exe, err := os.Executable(); err == nil {
		d := filepath.Join(filepath.Dir(exe), "..", "..", "corpus", prop)
		if st, err2 := os.Stat(d); err2 == nil && st.IsDir() {
			return d
		}
	}
	return "/verif/corpus/" + prop
}

// Run is the domain entry point.
func Run(c *corr.Ctx) {
	c.Rule("direct: real auth.Sender -> real auth.Verify for generated user/password (incl. ':', '\"', non-ASCII, long)/realm/nonce/method list (nil, subsets, orders, duplicates)/request method/URL (ports, IPv6, paths, queries, trackID suffixes, credentials) with no perturbation (completeness) or exactly one perturbed field (user, pass, realm, nonce, method, algorithm, URL named in the header, URL in the response, scheme not enabled, SETUP base URL with/without slash, abs_path URI); raw: mutated / random Authorization and WWW-Authenticate texts through the parsers, Sender and Verify; hash and base64 sweeps over all lengths around block boundaries; server: real gortsplib.Server on loopback, scripted request sequences per connection (no credentials, right, wrong user/password/nonce, unparsable, empty user name) observing status, challenge and connection fate; client: real gortsplib.Client with URL credentials against it; flow: real gortsplib.Client (URL credentials, automatic protocol) playing from a scripted server that uses the library's GenerateNonce / GenerateWWWAuthenticate / Verify and challenges every new connection with a fresh nonce, for each of Basic / Digest-MD5 / Digest-SHA-256: plain TCP, forced UDP->TCP switch after the initial UDP timeout, TCP transport in the SETUP answer, redirect to a second challenging server (before / after authentication), PAUSE + PLAY again, keepalive, nonce changed mid-session (recorded only), with the first challenge at OPTIONS / DESCRIBE / ANNOUNCE / SETUP / PLAY / RECORD / PAUSE x base URL from absolute / relative / absent Content-Base or session-level control x media control relative / absolute / absent, play and record; conc: 8..16 goroutines started together, each thousands of Sender -> Verify round trips with its own credentials (MD5, SHA-256, Basic; right and singly perturbed), compared with the same cases run alone and with the model; non-trivial = every case; distinct = distinct op-line sequences")
	r := &runner{c: c}
	defer r.stopServers()

	if c.Replay != nil {
		var in Input
		if err := json.Unmarshal(c.Replay, &in); err != nil {
			panic(err)
		}
		r.replay(&in, "replay")
		return
	}

	// published test vectors of the two digests (RFC 1321 A.5, FIPS 180-4) -- short cases first
	for i, v := range []string{"", "a", "abc", "message digest", "abcdefghijklmnopqrstuvwxyz",
		"abcdbcdecdefdefgefghfghighijhijkijkljklmklmnlmnomnopnopq",
		"12345678901234567890123456789012345678901234567890123456789012345678901234567890"} {
		r.hashCase([]byte(v), fmt.Sprintf("hash-vector-%d", i))
	}
	// corpus
	if files, err := filepath.Glob(filepath.Join(corpusDir(), "*.json")); err == nil {
		sort.Strings(files)
		for _, f := range files {
			b, e := os.ReadFile(f)
			if e != nil {
				continue
			}
			var in Input
			if e = json.Unmarshal(b, &in); e != nil {
				c.Note("corpus file " + filepath.Base(f) + ": " + e.Error())
				continue
			}
			r.replay(&in, "corpus-"+strings.TrimSuffix(filepath.Base(f), ".json"))
			c.Dist("corpus")
		}
	}

	r.sweeps()
	g := &gen{r: c.Rng}
	n := c.N(8000, 150000)
	for i := 0; i < n; i++ {
		d := g.direct()
		r.direct(d, fmt.Sprintf("direct-%d", i))
	}
	r.perturbAll(g, c.N(200, 2500))
	n = c.N(6000, 150000)
	for i := 0; i < n; i++ {
		r.raw(g.raw(), fmt.Sprintf("raw-%d", i))
	}
	// replays of an accepted Authorization header in another context, every method set x request method
	k := 0
	for _, ms := range [][]int{nil, {0}, {1}, {2}, {0, 1, 2}} {
		for _, rm := range []string{"DESCRIBE", "GET_PARAMETER"} {
			for _, kind := range []string{"replay-newpass", "replay-newpath"} {
				r.serverCase(&Server{Methods: ms, User: "guest", Pass: "guestpass", ReqMethod: rm, Path: "/public/cam?x=1",
					Steps: []Step{{Kind: "nocred"}, {Kind: "right"}, {Kind: "right"}, {Kind: kind, Alt: "secret"}}}, fmt.Sprintf("server-replay-%d", k))
				k++
			}
		}
	}
	n = c.N(300, 3000)
	for i := 0; i < n; i++ {
		r.serverCase(g.server(), fmt.Sprintf("server-%d", i))
	}
	n = c.N(60, 800)
	for i := 0; i < n; i++ {
		r.clientCase(g.client(), fmt.Sprintf("client-%d", i))
	}
	r.flows(g)
	r.concs()
}
