package auth

import (
	"fmt"
	"math/rand/v2"
	"strings"

	"github.com/bluenviron/gortsplib/v5/pkg/base"
)

type gen struct {
	r *rand.Rand
}

func (g *gen) pick(xs ...string) string { return xs[g.r.IntN(len(xs))] }

const alnum = "abcdefghijklmnopqrstuvwxyzABCDEFGHIJKLMNOPQRSTUVWXYZ0123456789"

func (g *gen) word(alpha string, lo, hi int) string {
	n := lo + g.r.IntN(hi-lo+1)
	var sb strings.Builder
	rs := []rune(alpha)
	for i := 0; i < n; i++ {
		sb.WriteRune(rs[g.r.IntN(len(rs))])
	}
	return sb.String()
}

// text produces a string of the requested flavour; `forbid` characters are removed.
func (g *gen) text(forbid string) string {
	var s string
	switch g.r.IntN(12) {
	case 0:
		s = ""
	case 1, 2, 3:
		s = g.word(alnum, 1, 12)
	case 4:
		s = g.word(alnum+" !#$%&'()*+,-./:;<=>?@[\\]^_`{|}~\"", 1, 24) // printable ASCII incl. separators
	case 5:
		s = g.word(alnum+":,=\" ", 1, 10)
	case 6:
		s = g.word("äöüßéèλжя日本語🙂ø", 1, 8) + g.word(alnum+":", 0, 4)
	case 7:
		s = g.word(alnum+":", 200, 1500) // long
	case 8:
		b := make([]byte, 1+g.r.IntN(12)) // arbitrary bytes (may be invalid UTF-8, control characters)
		for i := range b {
			b[i] = byte(g.r.IntN(256))
		}
		s = string(b)
	case 9:
		s = g.pick(":", "::", ":a", "a:", "a:b:c", " ", " a", "a ", "=", ",", ", ", "a, b=c", "a\\", "\\\"", "%3A", "a=b", "\t", "a\r\nb", "a\nb")
	case 10:
		s = g.word(alnum, 1, 6) + g.pick(":", ",", "=", " ", ", realm=", "\"") + g.word(alnum, 0, 6)
	default:
		s = g.word("0123456789abcdef", 32, 32)
	}
	if forbid != "" {
		s = strings.Map(func(r rune) rune {
			if strings.ContainsRune(forbid, r) {
				return -1
			}
			return r
		}, s)
	}
	return s
}

func (g *gen) methods() []int {
	switch g.r.IntN(10) {
	case 0:
		return nil
	case 1:
		return []int{g.r.IntN(3)}
	case 2:
		p := g.r.Perm(3)
		return p[:2]
	case 3:
		return g.r.Perm(3)
	case 4:
		// duplicates
		n := 2 + g.r.IntN(4)
		out := make([]int, n)
		for i := range out {
			out[i] = g.r.IntN(3)
		}
		return out
	default:
		p := g.r.Perm(3)
		return p[:1+g.r.IntN(3)]
	}
}

var reqMethods = []string{"DESCRIBE", "ANNOUNCE", "SETUP", "PLAY", "RECORD", "PAUSE", "TEARDOWN", "GET_PARAMETER", "SET_PARAMETER", "OPTIONS"}

func (g *gen) reqMethod() string {
	if g.r.IntN(3) == 0 {
		return "SETUP"
	}
	return reqMethods[g.r.IntN(len(reqMethods))]
}

func (g *gen) host() string {
	h := g.pick("myhost", "localhost", "127.0.0.1", "192.168.1.10", "example.com", "cam-01.local", "[::1]", "[fe80::1%25eth0]", "[2001:db8::2]")
	if g.r.IntN(2) == 0 {
		h += fmt.Sprintf(":%d", g.pick2(554, 8554, 1+g.r.IntN(65535)))
	}
	return h
}

func (g *gen) pick2(xs ...int) int { return xs[g.r.IntN(len(xs))] }

func (g *gen) pathSeg() string {
	switch g.r.IntN(8) {
	case 0:
		return g.word(alnum+"-_.~", 1, 8)
	case 1:
		return g.word(alnum+"-_.~!$&'()*+,;=:@", 1, 8)
	case 2:
		return g.word(alnum, 1, 3) + g.pick("%20", "%2F", "%3A", "%22", " ", "ä", "日本") + g.word(alnum, 0, 3)
	case 3:
		return "trackID=" + g.word("0123456789", 1, 3)
	case 4:
		return g.pick("trackID=", "trackID=1a", "TrackID=1", "trackID=-1", "xtrackID=3", "trackID=3x", "streamid=0")
	default:
		return g.word(alnum, 1, 10)
	}
}

// urlNoCred builds a URL text without credentials and whether it carries a track suffix.
func (g *gen) urlText(withCreds bool, user, pass string) string {
	var sb strings.Builder
	sb.WriteString(g.pick("rtsp://", "rtsp://", "rtsp://", "rtsps://"))
	if withCreds {
		sb.WriteString(user)
		if pass != "" || g.r.IntN(2) == 0 {
			sb.WriteString(":" + pass)
		}
		sb.WriteString("@")
	}
	sb.WriteString(g.host())
	nseg := g.r.IntN(4)
	for i := 0; i < nseg; i++ {
		sb.WriteString("/" + g.pathSeg())
	}
	if nseg > 0 && g.r.IntN(8) == 0 {
		sb.WriteString("/")
	}
	if g.r.IntN(3) == 0 {
		sb.WriteString("?")
		nq := g.r.IntN(3)
		for i := 0; i <= nq; i++ {
			if i > 0 {
				sb.WriteString("&")
			}
			sb.WriteString(g.word(alnum, 1, 5))
			if g.r.IntN(4) != 0 {
				sb.WriteString("=" + g.word(alnum+"-_.~/:+%20", 0, 8))
			}
		}
		if g.r.IntN(12) == 0 {
			sb.WriteString(g.pick("\"", "a\"b", "%22"))
		}
	}
	if g.r.IntN(3) == 0 {
		sb.WriteString("/trackID=" + g.word("0123456789", 1, 2))
	}
	return sb.String()
}

func (g *gen) url(withCreds bool) string {
	for k := 0; k < 20; k++ {
		s := g.urlText(withCreds, g.word(alnum, 1, 6), g.word(alnum+"%3A", 0, 6))
		if _, err := base.ParseURL(s); err == nil {
			return s
		}
	}
	return "rtsp://myhost/mypath"
}

// direct generates an unperturbed or singly perturbed Direct case (mostly well-formed).
func (g *gen) direct() *Direct {
	d := g.base(g.r.IntN(10) == 0)
	if g.r.IntN(3) != 0 {
		return d
	}
	ps := []string{"user", "pass", "realm", "nonce", "method", "algorithm", "url-header", "url-response", "scheme", "setup-base", "setup-base-noslash", "requri"}
	g.perturb(d, ps[g.r.IntN(len(ps))])
	return d
}

// base: the server-side expectations; `wild` lifts the well-formedness restrictions.
func (g *gen) base(wild bool) *Direct {
	d := &Direct{Methods: g.methods(), ReqMethod: g.reqMethod()}
	if wild {
		d.User, d.Pass, d.Realm, d.Nonce = S(g.text("")), S(g.text("")), S(g.text("")), S(g.text(""))
		if g.r.IntN(6) == 0 {
			d.Methods = []int{g.r.IntN(5), g.r.IntN(4)}
		}
		if g.r.IntN(6) == 0 {
			d.Methods = []int{}
		}
	} else {
		d.User, d.Pass, d.Realm, d.Nonce = S(g.text(":\"")), S(g.text("")), S(g.text("\"")), S(g.text("\""))
		if g.r.IntN(2) == 0 {
			d.Realm = S(g.pick("ipcam", "myrealm", "IP Camera(12345)", "Login to 4K, please"))
		}
		if g.r.IntN(2) == 0 {
			d.Nonce = S(g.word("0123456789abcdef", 32, 32))
		}
	}
	d.URL = g.url(g.r.IntN(4) == 0)
	if g.r.IntN(25) == 0 {
		d.KeepCreds = true
	}
	return d
}

func (g *gen) differ(orig S, forbid string) S {
	for k := 0; k < 50; k++ {
		var v S
		switch g.r.IntN(5) {
		case 0: // one character changed / appended / dropped
			b := []byte(orig)
			if len(b) > 0 && g.r.IntN(2) == 0 {
				i := g.r.IntN(len(b))
				b[i] = alnum[g.r.IntN(len(alnum))]
				v = S(b)
			} else if len(b) > 0 && g.r.IntN(2) == 0 {
				v = S(b[:len(b)-1])
			} else {
				v = orig + S(alnum[g.r.IntN(len(alnum))])
			}
		case 1: // case change
			if g.r.IntN(2) == 0 {
				v = S(strings.ToUpper(string(orig)))
			} else {
				v = S(strings.ToLower(string(orig)))
			}
		case 2:
			v = orig + S(g.pick(" ", ":", ",", "\x00", "/"))
		default:
			v = S(g.text(forbid))
		}
		if forbid != "" && strings.ContainsAny(string(v), forbid) {
			continue
		}
		if v != orig {
			return v
		}
	}
	return orig + "x"
}

func (g *gen) altURL(u string) string {
	for k := 0; k < 50; k++ {
		var v string
		switch g.r.IntN(8) {
		case 0:
			v = u + "/"
		case 1:
			v = strings.TrimSuffix(u, "/")
		case 2:
			v = u + g.word(alnum, 1, 2)
		case 3: // another track
			if i := strings.LastIndex(u, "trackID="); i >= 0 {
				v = u[:i] + "trackID=" + g.word("0123456789", 1, 3)
			}
		case 4: // another host
			v = strings.Replace(u, "://", "://x", 1)
		case 5: // query dropped / added
			if i := strings.Index(u, "?"); i >= 0 {
				v = u[:i]
			} else {
				v = u + "?a=b"
			}
		case 6: // parent
			if i := strings.LastIndex(u, "/"); i > 8 {
				v = u[:i]
			}
		default:
			v = g.url(false)
		}
		if v == "" || v == u {
			continue
		}
		if _, err := base.ParseURL(v); err == nil {
			return v
		}
	}
	return "rtsp://otherhost/otherpath"
}

// perturb fills Perturb / Alt of d for the given field.
func (g *gen) perturb(d *Direct, p string) {
	d.Perturb = p
	d.KeepCreds = false
	switch p {
	case "user":
		d.Alt = g.differ(d.User, ":\"")
	case "pass":
		d.Alt = g.differ(d.Pass, "")
	case "realm":
		d.Alt = g.differ(d.Realm, "\"")
	case "nonce":
		d.Alt = g.differ(d.Nonce, "\"")
	case "method":
		for {
			m := reqMethods[g.r.IntN(len(reqMethods))]
			if g.r.IntN(4) == 0 {
				m = strings.ToLower(d.ReqMethod)
			}
			if m != d.ReqMethod {
				d.Alt = S(m)
				break
			}
		}
	case "url-header", "url-response":
		u, err := base.ParseURL(d.URL)
		if err != nil {
			d.Alt = "rtsp://otherhost/otherpath"
			return
		}
		d.Alt = S(g.altURL(u.CloneWithoutCredentials().String()))
	case "setup-base", "setup-base-noslash":
		// make sure there is a track suffix most of the time
		if !strings.Contains(d.URL, "/trackID=") || g.r.IntN(10) == 0 {
			if g.r.IntN(6) != 0 {
				d.URL = strings.TrimSuffix(d.URL, "/") + "/trackID=" + g.word("0123456789", 1, 2)
			}
		}
		if g.r.IntN(3) != 0 {
			d.ReqMethod = "SETUP"
		}
		u, err := base.ParseURL(d.URL)
		if err != nil {
			d.URL = "rtsp://myhost/mypath/trackID=0"
			u, _ = base.ParseURL(d.URL)
		}
		s := u.CloneWithoutCredentials().String()
		if i := strings.LastIndex(s, "/"); i >= 0 {
			s = s[:i+1]
		}
		if p == "setup-base-noslash" {
			s = strings.TrimSuffix(s, "/")
		}
		if _, err = base.ParseURL(s); err != nil {
			s = "rtsp://myhost/"
		}
		d.Alt = S(s)
	case "scheme":
		d.Alt = S([]byte{byte(g.r.IntN(2))})
	}
}

var allPerturbs = []string{"", "user", "pass", "realm", "nonce", "method", "algorithm", "url-header", "url-response", "scheme", "setup-base", "setup-base-noslash", "requri"}

// perturbAll: for n well-formed bases, each single-method list and each perturbation.
func (r *runner) perturbAll(g *gen, n int) {
	lists := [][]int{nil, {0}, {1}, {2}, {0, 1, 2}, {2, 1, 0}, {1, 2}}
	for i := 0; i < n; i++ {
		b := g.base(false)
		for li, ms := range lists {
			for _, p := range allPerturbs {
				d := *b
				d.Methods = ms
				g.perturb(&d, p)
				r.direct(&d, fmt.Sprintf("matrix-%d-%d-%s", i, li, p))
			}
		}
	}
}

// raw generates a mutated or random header text case.
func (g *gen) raw() *Raw {
	b := g.base(g.r.IntN(4) == 0)
	w := &Raw{Methods: b.Methods, User: b.User, Pass: b.Pass, Realm: b.Realm, Nonce: b.Nonce, ReqMethod: b.ReqMethod, URL: b.URL}
	u, err := base.ParseURL(w.URL)
	if err != nil {
		w.URL = "rtsp://myhost/mypath"
		u, _ = base.ParseURL(w.URL)
	}
	// a valid header to start from
	scheme := g.pick("basic", "md5", "sha256", "md5nil")
	var hv string
	uri := u.CloneWithoutCredentials().String()
	switch g.r.IntN(5) {
	case 0:
		uri = u.RequestURI()
	case 1:
		if i := strings.LastIndex(uri, "/"); i > 8 {
			uri = uri[:i+g.r.IntN(2)]
		}
	}
	switch scheme {
	case "basic":
		hv = "Basic " + b64(string(w.User)+":"+string(w.Pass))
	case "md5nil":
		hv = foreignDigest("md5", string(w.User), string(w.Realm), string(w.Nonce), string(w.Pass), w.ReqMethod, uri)[0]
	default:
		hv = foreignDigest(scheme, string(w.User), string(w.Realm), string(w.Nonce), string(w.Pass), w.ReqMethod, uri)[0]
		if scheme == "md5" {
			hv += g.pick(`, algorithm="MD5"`, `, algorithm=MD5`, `, algorithm="md5"`, `,algorithm=Md5`, `, algorithm="MD5-sess"`, `, algorithm=`, `, algorithm="ＭＤ５"`, `, algorithm="MD5", algorithm="SHA-256"`, `, algorithm="SHA-256", algorithm="MD5"`)
		}
	}
	w.Authz = []S{S(g.mutate(hv))}
	switch g.r.IntN(12) {
	case 0:
		w.Authz = []S{}
	case 1:
		w.Authz = append(w.Authz, S(hv))
	}
	// WWW-Authenticate side
	var www []S
	nw := g.r.IntN(4)
	for i := 0; i < nw; i++ {
		var v string
		switch g.r.IntN(6) {
		case 0:
			v = `Basic realm="` + string(w.Realm) + `"`
		case 1:
			v = `Digest realm="` + string(w.Realm) + `", nonce="` + string(w.Nonce) + `"`
		case 2:
			v = `Digest realm="` + string(w.Realm) + `", nonce="` + string(w.Nonce) + `", algorithm="` + g.pick("MD5", "SHA-256", "sha-256", "md5", "SHA-512", "SHA256", "") + `"`
		case 3:
			v = `Digest realm="` + string(w.Realm) + `", nonce="` + string(w.Nonce) + `", opaque="x", stale="FALSE", algorithm=` + g.pick("MD5", "SHA-256")
		case 4:
			v = g.pick("Digest", "Basic", "Negotiate", "Bearer realm=\"x\"", "digest realm=\"a\", nonce=\"b\"", "Basic  realm=\"x\"", "Digest nonce=\"b\"", "Digest realm=a,nonce=b", "Basic realm=x", "Digest realm=\"a\",nonce=\"b\",realm=\"c\"")
		default:
			v = g.text("")
		}
		if g.r.IntN(3) == 0 {
			v = g.mutate(v)
		}
		www = append(www, S(v))
	}
	if www == nil {
		www = []S{}
	}
	w.WWW = www
	return w
}

func (g *gen) mutate(s string) string {
	b := []byte(s)
	n := g.r.IntN(4)
	if g.r.IntN(3) == 0 {
		n = 0
	}
	for k := 0; k < n; k++ {
		switch g.r.IntN(9) {
		case 0: // flip a byte
			if len(b) > 0 {
				b[g.r.IntN(len(b))] = byte(g.r.IntN(256))
			}
		case 1: // delete a byte
			if len(b) > 0 {
				i := g.r.IntN(len(b))
				b = append(b[:i], b[i+1:]...)
			}
		case 2: // insert a structural byte
			i := g.r.IntN(len(b) + 1)
			chs := []byte("\",= :\r\n")
			ch := chs[g.r.IntN(len(chs))]
			b = append(b[:i], append([]byte{ch}, b[i:]...)...)
		case 3: // truncate
			if len(b) > 0 {
				b = b[:g.r.IntN(len(b))]
			}
		case 4: // duplicate a key with another value
			b = append(b, []byte(g.pick(`, username="x"`, `, realm="x"`, `, nonce="x"`, `, uri="x"`, `, response="x"`, `, opaque="o"`, `,username=`, `, , `, `,`, ` `))...)
		case 5: // remove all quotes
			b = []byte(strings.ReplaceAll(string(b), `"`, ""))
		case 6: // change scheme word
			s2 := string(b)
			if i := strings.IndexByte(s2, ' '); i >= 0 {
				b = []byte(g.pick("Basic", "Digest", "basic", "DIGEST", "", "Bearer") + s2[i:])
			}
		case 7: // remove a whole key
			s2 := string(b)
			if i := strings.Index(s2, ", "); i >= 0 {
				j := strings.Index(s2[i+2:], ", ")
				if j >= 0 {
					b = []byte(s2[:i] + s2[i+2+j:])
				}
			}
		case 8: // base64 noise
			b = append(b, []byte(g.pick("=", "==", "\n", "\r\n", "A", " ", "===="))...)
		}
	}
	return string(b)
}
