package auth

import (
	"fmt"
	"strings"
)

// sweeps: boundary enumerations (support for the theorems, not a substitute).
func (r *runner) sweeps() {
	c := r.c
	// hash: every length across the padding boundaries (55/56/63/64/119/120…)
	maxLen := c.N(200, 700)
	for n := 0; n <= maxLen; n++ {
		b := make([]byte, n)
		for i := range b {
			b[i] = byte(c.Rng.IntN(256))
		}
		r.hashCase(b, fmt.Sprintf("hash-len-%d", n))
		if n < 70 {
			r.hashCase([]byte(strings.Repeat("a", n)), fmt.Sprintf("hash-a-%d", n))
		}
	}
	c.Dist("sweep:hash-lengths")
	// base64: every length 0..40 of random bytes; decode of near-valid texts
	for n := 0; n <= c.N(40, 300); n++ {
		b := make([]byte, n)
		for i := range b {
			b[i] = byte(c.Rng.IntN(256))
		}
		r.b64Case(b, fmt.Sprintf("b64-len-%d", n))
	}
	for _, t := range []string{"", "=", "==", "A", "AA", "AAA", "AAAA", "AA==", "AAA=", "A===", "AA=A", "AA==AAAA", "AAAA=", "AAAAA", "AA\n==", "AA=\r\n=", "AA==\n", "\nAA==", "A\nA\r=\n=\n", "QUJD", "QUI=", "QUI", "QR==", "QUJ=", "Q  UJD", "QUJD QUJD", "QUJDQUI=", "QUI=QUJD", "-_-_", "+/+/", "QUJD\x00", "\xff\xff\xff\xff", "YTpi", "YTpiOmM=", "Og==", "YTo=", "OmI="} {
		r.b64Case([]byte(t), "b64-text-"+hxs(t))
	}
	c.Dist("sweep:b64")
	// the control-attribute pattern of the SETUP rule: exhaustive over a small alphabet
	alpha := []string{"/", "trackID=", "1", "a", "?", "=", "\n"}
	L := c.N(4, 5)
	var rec func(prefix string, depth int)
	cnt := 0
	rec = func(prefix string, depth int) {
		if depth > 0 {
			r.trackCase("rtsp://h/" + prefix)
			cnt++
		}
		if depth == L {
			return
		}
		for _, a := range alpha {
			rec(prefix+a, depth+1)
		}
	}
	rec("", 0)
	c.DistN("sweep:track-pattern", cnt)
}

// trackCase: the SETUP rule on a given request URL: digest computed for every candidate base.
func (r *runner) trackCase(u string) {
	if strings.Contains(u, "\n") {
		return // url.Parse rejects control characters; the model's line-feed clause is unreachable through base.URL
	}
	cands := []string{u}
	if i := strings.LastIndex(u, "/"); i >= 0 {
		cands = append(cands, u[:i+1], u[:i])
	}
	if i := strings.LastIndex(u, "trackID="); i >= 0 {
		cands = append(cands, u[:i], strings.TrimSuffix(u[:i], "/"))
	}
	seen := map[string]bool{}
	for _, cand := range cands {
		if seen[cand] {
			continue
		}
		seen[cand] = true
		for _, m := range []string{"SETUP", "PLAY"} {
			d := &Direct{Methods: []int{1}, User: "u", Pass: "p", Realm: "r", Nonce: "n", ReqMethod: m, URL: u}
			if cand != u {
				d.Perturb, d.Alt = "setup-base", S(cand)
			}
			r.direct(d, "track-"+hxs(u)+"-"+hxs(cand)+"-"+m)
		}
	}
}
