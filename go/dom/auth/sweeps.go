package auth

import (
	"encoding/base64"
	"fmt"
	"strings"

	"github.com/bluenviron/gortsplib/v5/pkg/base"
	"github.com/bluenviron/gortsplib/v5/pkg/headers"

	"verifharness/corr"
)

// sweeps: boundary enumerations (support for the theorems, not a substitute).
func (r *runner) sweeps() {
	c := r.c
	// hash: every length across the padding boundaries (55/56/63/64/119/120…)
	maxLen := c.N(200, 700)
	for n := 0; n <= maxLen; n++ {
		b := make([]byte, n)
		for i := range b {
			b[i] = byte(c.Rng.IntN(256))
		}
		r.hashCase(b, fmt.Sprintf("hash-len-%d", n))
		if n < 70 {
			r.hashCase([]byte(strings.Repeat("a", n)), fmt.Sprintf("hash-a-%d", n))
		}
	}
	c.Dist("sweep:hash-lengths")
	// base64: every length 0..40 of random bytes; decode of near-valid texts
	for n := 0; n <= c.N(40, 300); n++ {
		b := make([]byte, n)
		for i := range b {
			b[i] = byte(c.Rng.IntN(256))
		}
		r.b64Case(b, fmt.Sprintf("b64-len-%d", n))
	}
	for _, t := range []string{"", "=", "==", "A", "AA", "AAA", "AAAA", "AA==", "AAA=", "A===", "AA=A", "AA==AAAA", "AAAA=", "AAAAA", "AA\n==", "AA=\r\n=", "AA==\n", "\nAA==", "A\nA\r=\n=\n", "QUJD", "QUI=", "QUI", "QR==", "QUJ=", "Q  UJD", "QUJD QUJD", "QUJDQUI=", "QUI=QUJD", "-_-_", "+/+/", "QUJD\x00", "\xff\xff\xff\xff", "YTpi", "YTpiOmM=", "Og==", "YTo=", "OmI="} {
		r.b64Case([]byte(t), "b64-text-"+hxs(t))
	}
	c.Dist("sweep:b64")
	// the control-attribute pattern of the SETUP rule: exhaustive over a small alphabet
	alpha := []string{"/", "trackID=", "1", "a", "?", "=", "\n"}
	L := c.N(4, 5)
	var rec func(prefix string, depth int)
	cnt := 0
	rec = func(prefix string, depth int) {
		if depth > 0 {
			r.trackCase("rtsp://h/" + prefix)
			cnt++
		}
		if depth == L {
			return
		}
		for _, a := range alpha {
			rec(prefix+a, depth+1)
		}
	}
	rec("", 0)
	c.DistN("sweep:track-pattern", cnt)
	r.enumSweeps()
}

// enumSweeps: exhaustive small scopes for the three text parsers.
func (r *runner) enumSweeps() {
	c := r.c
	// key/value syntax of WWW-Authenticate: all token strings up to length L
	toks := []string{"realm", "nonce", "algorithm", "=", "\"", ",", " ", "x", "MD5"}
	L := c.N(4, 6)
	var words []string
	var rec func(prefix string, depth int)
	rec = func(prefix string, depth int) {
		words = append(words, prefix)
		if depth == L {
			return
		}
		for _, t := range toks {
			rec(prefix+t, depth+1)
		}
	}
	rec("", 0)
	cs := corr.Case{Name: "enum-www", Nontrivial: true}
	flush := func() {
		if len(cs.Ops) > 0 {
			c.Add(cs)
		}
		cs = corr.Case{Name: "enum-www", Nontrivial: true}
	}
	for i, w := range words {
		for _, scheme := range []string{"Basic ", "Digest "} {
			v := scheme + w
			var a headers.Authenticate
			impl := "err"
			if err := a.Unmarshal(base.HeaderValue{v}); err == nil {
				if a.Method == headers.AuthMethodBasic {
					impl = "basic " + hxs(a.Realm)
				} else {
					impl = fmt.Sprintf("digest %s %s %s", hxs(a.Realm), hxs(a.Nonce), algTok(a.Algorithm))
				}
			}
			cs.Ops = append(cs.Ops, "auth pwww "+hxs(v))
			cs.Impl = append(cs.Impl, impl)
		}
		if i%500 == 499 {
			flush()
		}
	}
	flush()
	c.DistN("sweep:enum-www", 2*len(words))

	// base64 decoder: all strings over a small alphabet up to length B
	alpha := []byte{'A', 'Q', '=', '\n', '-', '/'}
	B := c.N(5, 7)
	var b64s [][]byte
	var rec2 func(prefix []byte, depth int)
	rec2 = func(prefix []byte, depth int) {
		b64s = append(b64s, append([]byte{}, prefix...))
		if depth == B {
			return
		}
		for _, a := range alpha {
			rec2(append(prefix, a), depth+1)
		}
	}
	rec2(nil, 0)
	cs = corr.Case{Name: "enum-b64", Nontrivial: true}
	for i, w := range b64s {
		dec, err := base64.StdEncoding.DecodeString(string(w))
		impl := "err"
		if err == nil {
			impl = "ok " + corr.Hex(dec)
		}
		cs.Ops = append(cs.Ops, "auth b64d "+corr.Hex(w))
		cs.Impl = append(cs.Impl, impl)
		if i%500 == 499 {
			c.Add(cs)
			cs = corr.Case{Name: "enum-b64", Nontrivial: true}
		}
	}
	if len(cs.Ops) > 0 {
		c.Add(cs)
	}
	c.DistN("sweep:enum-b64", len(b64s))

	// Basic credentials: every text over {a, b, :} up to length 5 as the decoded user:pass
	cs = corr.Case{Name: "enum-basic", Nontrivial: true}
	var texts []string
	var rec3 func(prefix string, depth int)
	rec3 = func(prefix string, depth int) {
		texts = append(texts, prefix)
		if depth == 5 {
			return
		}
		for _, a := range []string{"a", "b", ":"} {
			rec3(prefix+a, depth+1)
		}
	}
	rec3("", 0)
	for _, t := range texts {
		v := "Basic " + base64.StdEncoding.EncodeToString([]byte(t))
		var a headers.Authorization
		impl := "err"
		if err := a.Unmarshal(base.HeaderValue{v}); err == nil {
			impl = fmt.Sprintf("basic %s %s", hxs(a.Username), hxs(a.BasicPass))
			// property: user = text before the first colon, password = the rest
			if i := strings.Index(t, ":"); i < 0 || a.Username != t[:i] || a.BasicPass != t[i+1:] {
				r.viol("Basic credentials are user ':' password with the password free to contain ':'", "auth-basic-split", &Input{Kind: "raw", Raw: &Raw{Authz: []S{S(v)}, URL: "rtsp://h/p"}}, t)
			}
		} else if strings.Contains(t, ":") {
			r.viol("Basic credentials are user ':' password with the password free to contain ':'", "auth-basic-colon-password", &Input{Kind: "raw", Raw: &Raw{Authz: []S{S(v)}, URL: "rtsp://h/p", User: S(strings.SplitN(t, ":", 2)[0]), Pass: S(strings.SplitN(t, ":", 2)[1]), Methods: []int{0}}}, t)
		}
		cs.Ops = append(cs.Ops, "auth pauthz "+hxs(v))
		cs.Impl = append(cs.Impl, impl)
	}
	c.Add(cs)
	c.DistN("sweep:enum-basic", len(texts))
}

// trackCase: the SETUP rule on a given request URL: digest computed for every candidate base.
func (r *runner) trackCase(u string) {
	if strings.Contains(u, "\n") {
		return // url.Parse rejects control characters; the model's line-feed clause is unreachable through base.URL
	}
	cands := []string{u}
	if i := strings.LastIndex(u, "/"); i >= 0 {
		cands = append(cands, u[:i+1], u[:i])
	}
	if i := strings.LastIndex(u, "trackID="); i >= 0 {
		cands = append(cands, u[:i], strings.TrimSuffix(u[:i], "/"))
	}
	seen := map[string]bool{}
	for _, cand := range cands {
		if seen[cand] {
			continue
		}
		seen[cand] = true
		for _, m := range []string{"SETUP", "PLAY"} {
			d := &Direct{Methods: []int{1}, User: "u", Pass: "p", Realm: "r", Nonce: "n", ReqMethod: m, URL: u}
			if cand != u {
				d.Perturb, d.Alt = "setup-base", S(cand)
			}
			r.direct(d, "track-"+hxs(u)+"-"+hxs(cand)+"-"+m)
		}
	}
}
