package auth

import (
	"fmt"
	"math/rand/v2"
	"runtime"
	"sync"
)

// Conc: G goroutines, started together, each running N (Sender.AddAuthorization -> Verify) round
// trips with its own user / password / realm / nonce / method / URL — several connections
// authenticating at the same instant, the normal situation of a server.  The cases of goroutine g are
// a function of (Seed, g) only, so (Seed, G, N) replays the workload.
type Conc struct {
	Seed uint64 `json:"seed"`
	G    int    `json:"g"`
	N    int    `json:"n"`
}

func concCases(cc *Conc, g int) []*Direct {
	gn := &gen{r: rand.New(rand.NewPCG(cc.Seed, 0xC0C0+uint64(g)))}
	lists := [][]int{{1}, {2}, {0}, {1, 2}, {2, 1, 0}, {2}, {1}}
	perturbs := []string{"user", "pass", "realm", "nonce", "method", "algorithm", "url-header", "url-response", "scheme"}
	out := make([]*Direct, 0, cc.N)
	for i := 0; i < cc.N; i++ {
		d := gn.base(false)
		d.KeepCreds = false
		d.Methods = lists[gn.r.IntN(len(lists))]
		if gn.r.IntN(2) == 0 {
			gn.perturb(d, perturbs[gn.r.IntN(len(perturbs))])
		}
		out = append(out, d)
	}
	return out
}

func safeExec(d *Direct) (o *directOut, pan any) {
	defer func() {
		if e := recover(); e != nil {
			pan = e
		}
	}()
	return directExec(d), nil
}

func sameOut(a, b *directOut) bool {
	if a == nil || b == nil {
		return a == b
	}
	if a.skip != b.skip || a.sendNone != b.sendNone || (a.verr == nil) != (b.verr == nil) {
		return false
	}
	return listTok(a.hvSent) == listTok(b.hvSent) && listTok(a.hv) == listTok(b.hv) && listTok(a.www) == listTok(b.www)
}

func (r *runner) concCase(cc *Conc, name string) {
	c := r.c
	in := &Input{Kind: "conc", Conc: cc}
	cases := make([][]*Direct, cc.G)
	for g := range cases {
		cases[g] = concCases(cc, g)
	}
	outs := make([][]*directOut, cc.G)
	pans := make([][]any, cc.G)
	start := make(chan struct{})
	var wg sync.WaitGroup
	for g := 0; g < cc.G; g++ {
		outs[g] = make([]*directOut, len(cases[g]))
		pans[g] = make([]any, len(cases[g]))
		wg.Add(1)
		go func(g int) {
			defer wg.Done()
			<-start
			for i, d := range cases[g] {
				outs[g][i], pans[g][i] = safeExec(d)
			}
		}(g)
	}
	close(start)
	wg.Wait()
	c.Dist(fmt.Sprintf("conc:G=%d,procs=%d", cc.G, runtime.GOMAXPROCS(0)))

	// the same cases one at a time, and the comparison
	mismatches, panics := 0, 0
	for g := range cases {
		for i, d := range cases[g] {
			cname := fmt.Sprintf("%s-g%d-%d", name, g, i)
			if pans[g][i] != nil {
				panics++
				if panics <= 3 {
					r.viol("no input crashes the authentication code, also when several goroutines authenticate at once", "auth-concurrent-panic", in,
						fmt.Sprintf("goroutine %d case %d (perturb %q, methods %v): panic: %v", g, i, d.Perturb, d.Methods, pans[g][i]))
				}
				continue
			}
			seq, span := safeExec(d)
			if span != nil {
				r.viol("no input crashes the authentication code", "auth-panic", &Input{Kind: "direct", Direct: d}, fmt.Sprint(span))
				continue
			}
			con := outs[g][i]
			same := sameOut(seq, con)
			if !same {
				mismatches++
				if mismatches <= 3 {
					r.viol("authentication of one connection does not depend on what other connections do at the same instant", "auth-concurrent-interference", in,
						fmt.Sprintf("goroutine %d case %d (scheme %s, perturb %q): alone Verify=%s header=%s; among %d goroutines Verify=%s header=%s",
							g, i, seq.scheme, d.Perturb, okErr(seq.verr), listTok(seq.hvSent), cc.G, okErr(con.verr), listTok(con.hvSent)))
				}
			}
			// the concurrent answers against the Lean model (a sample, and every mismatch) and against the
			// property oracle (all)
			r.directReport(d, con, &Input{Kind: "conc", Conc: cc}, cname, !same || i%16 == 0)
		}
	}
	c.DistN("conc:round-trips", cc.G*cc.N)
	c.DistN("conc:interference", mismatches)
	c.DistN("conc:panics", panics)
}

func (r *runner) concs() {
	c := r.c
	reps := c.N(2, 6)
	for k := 0; k < reps; k++ {
		cc := &Conc{Seed: c.Seed*1000 + uint64(k), G: 8 + 4*(k%3), N: c.N(1200, 12000)}
		r.concCase(cc, fmt.Sprintf("conc-%d", k))
	}
}
