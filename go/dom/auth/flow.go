package auth

import (
	"bufio"
	"errors"
	"fmt"
	"net"
	"net/url"
	"strings"
	"sync"
	"time"

	"github.com/pion/rtp"

	"github.com/bluenviron/gortsplib/v5"
	gauth "github.com/bluenviron/gortsplib/v5/pkg/auth"
	"github.com/bluenviron/gortsplib/v5/pkg/base"
	"github.com/bluenviron/gortsplib/v5/pkg/conn"
	"github.com/bluenviron/gortsplib/v5/pkg/description"
	"github.com/bluenviron/gortsplib/v5/pkg/format"
	"github.com/bluenviron/gortsplib/v5/pkg/headers"
	"github.com/bluenviron/gortsplib/v5/pkg/liberrors"

	"verifharness/corr"
)

// Flow: a real gortsplib.Client (credentials in the URL, protocol left automatic unless stated)
// plays from a scripted RTSP server that uses the library's server-side auth functions
// (auth.GenerateNonce, auth.GenerateWWWAuthenticate, auth.Verify) and challenges EVERY new
// connection with a fresh nonce.  Scenarios force the client onto a new connection (UDP->TCP switch
// after the initial UDP timeout, TCP transport in the SETUP answer, redirect to a second server) or
// keep using the credentials later in the session (PAUSE / PLAY again, keepalives).
type Flow struct {
	Methods  []int  `json:"methods"`
	User     S      `json:"user"`
	Pass     S      `json:"pass"`
	Scenario string `json:"scenario"` // tcp | udp-timeout-switch | tcp-in-setup-answer | redirect | redirect-after-auth | pause-replay | keepalive | stale-nonce | record
	Path     string `json:"path"`
	// FirstAuth: the first method the server authenticates (earlier ones are answered without asking):
	// "" (everything but a session-less OPTIONS) | OPTIONS | DESCRIBE | ANNOUNCE | SETUP | PLAY | RECORD | PAUSE
	FirstAuth string `json:"first_auth,omitempty"`
	// Base: how the DESCRIBE answer lets the client derive the base URL of SETUP:
	// "" = cb-abs-slash | cb-abs-noslash | cb-rel | cb-none | sess-abs | sess-star
	Base string `json:"base,omitempty"`
	// MediaControl: the media-level a=control: "" = rel | abs | none
	MediaControl string `json:"media_control,omitempty"`
}

var flowRank = map[string]int{"OPTIONS": 0, "DESCRIBE": 1, "ANNOUNCE": 1, "SETUP": 2, "PLAY": 3, "RECORD": 3, "GET_PARAMETER": 3, "PAUSE": 4}

// flowSDP: the session description of the DESCRIBE answer with the requested control attributes.
func flowSDP(fl *Flow, reqURL string) []byte {
	var sb strings.Builder
	sb.WriteString("v=0\r\no=- 0 0 IN IP4 127.0.0.1\r\ns=Stream\r\nc=IN IP4 0.0.0.0\r\nt=0 0\r\n")
	switch fl.Base {
	case "sess-abs":
		sb.WriteString("a=control:" + reqURL + "/\r\n")
	case "sess-star":
		sb.WriteString("a=control:*\r\n")
	}
	sb.WriteString("m=video 0 RTP/AVP 96\r\na=rtpmap:96 H264/90000\r\na=fmtp:96 packetization-mode=1\r\n")
	switch fl.MediaControl {
	case "", "rel":
		sb.WriteString("a=control:trackID=0\r\n")
	case "abs":
		sb.WriteString("a=control:" + strings.TrimSuffix(reqURL, "/") + "/trackID=0\r\n")
	}
	return []byte(sb.String())
}

type flowReq struct {
	conn    int
	method  string
	urlStr  string
	urlReq  string
	authz   base.HeaderValue
	nonce   string
	needed  bool // the request had to be authenticated
	ok      bool // auth.Verify accepted it
	status  int
	www     base.HeaderValue
	session bool
}

type flowServer struct {
	ln       net.Listener
	methods  []int
	user     string
	pass     string
	scenario string
	redirect string // Location for DESCRIBE
	noAuth   bool   // this server does not ask who is there
	fl       *Flow
	framesIn int // interleaved RTP frames received from a recording client
	sdp      []byte
	udp      [2]*net.UDPConn

	mu      sync.Mutex
	reqs    []flowReq
	nconn   int
	wg      sync.WaitGroup
	closing bool
}

const flowRealm = "ipcam"

func newFlowServer(fl *Flow, scenario string) (*flowServer, error) {
	ln, err := net.Listen("tcp", "127.0.0.1:0")
	if err != nil {
		return nil, err
	}
	fs := &flowServer{ln: ln, methods: fl.Methods, user: string(fl.User), pass: string(fl.Pass), scenario: scenario, fl: fl}
	d := description.Session{Medias: []*description.Media{{
		Type:    description.MediaTypeVideo,
		Formats: []format.Format{&format.H264{PayloadTyp: 96, PacketizationMode: 1}},
	}}}
	fs.sdp, err = d.Marshal()
	if err != nil {
		return nil, err
	}
	for i := range fs.udp {
		fs.udp[i], err = net.ListenUDP("udp", &net.UDPAddr{IP: net.ParseIP("127.0.0.1")})
		if err != nil {
			return nil, err
		}
	}
	fs.wg.Add(1)
	go fs.accept()
	return fs, nil
}

func (fs *flowServer) addr() string { return fs.ln.Addr().String() }

func (fs *flowServer) close() {
	fs.mu.Lock()
	fs.closing = true
	fs.mu.Unlock()
	fs.ln.Close()
	for _, u := range fs.udp {
		if u != nil {
			u.Close()
		}
	}
	fs.wg.Wait()
}

func (fs *flowServer) accept() {
	defer fs.wg.Done()
	for {
		nc, err := fs.ln.Accept()
		if err != nil {
			return
		}
		fs.mu.Lock()
		idx := fs.nconn
		fs.nconn++
		fs.mu.Unlock()
		fs.wg.Add(1)
		go fs.serve(nc, idx)
	}
}

func (fs *flowServer) serve(nc net.Conn, idx int) {
	defer fs.wg.Done()
	defer nc.Close()
	co := conn.NewConn(bufio.NewReader(nc), nc)
	nonce, err := gauth.GenerateNonce()
	if err != nil {
		return
	}
	tcpReady := false // an interleaved transport was set up on this connection
	tcpPlay := false
	var seq uint16
	sendMedia := func() {
		if !tcpPlay {
			return
		}
		for k := 0; k < 2; k++ {
			seq++
			pkt := &rtp.Packet{Header: rtp.Header{Version: 2, PayloadType: 96, SequenceNumber: seq, Timestamp: uint32(seq) * 3000, SSRC: 0x1234},
				Payload: []byte{5, 1, 2, 3}}
			b, e := pkt.Marshal()
			if e != nil {
				return
			}
			nc.SetWriteDeadline(time.Now().Add(3 * time.Second))
			if e = co.WriteInterleavedFrame(&base.InterleavedFrame{Channel: 0, Payload: b}, make([]byte, 2048)); e != nil {
				return
			}
		}
	}
	for {
		nc.SetReadDeadline(time.Now().Add(200 * time.Millisecond))
		what, rerr := co.Read()
		if rerr != nil {
			var ne net.Error
			if errors.As(rerr, &ne) && ne.Timeout() {
				fs.mu.Lock()
				closing := fs.closing
				fs.mu.Unlock()
				if closing {
					return
				}
				sendMedia()
				continue
			}
			return
		}
		req, isReq := what.(*base.Request)
		if !isReq {
			if fr, isFr := what.(*base.InterleavedFrame); isFr && fr.Channel == 0 {
				fs.mu.Lock()
				fs.framesIn++
				fs.mu.Unlock()
			}
			continue // RTP / RTCP from the client
		}
		res := &base.Response{StatusCode: base.StatusOK, Header: base.Header{"CSeq": req.Header["CSeq"]}}
		rec := flowReq{conn: idx, method: string(req.Method), authz: req.Header["Authorization"], nonce: nonce}
		if req.URL != nil {
			rec.urlStr, rec.urlReq = req.URL.String(), req.URL.RequestURI()
		}
		_, rec.session = req.Header["Session"]
		rec.needed = !fs.noAuth && !(req.Method == base.Options && !rec.session)
		if fs.fl.FirstAuth != "" && !fs.noAuth {
			rk, known := flowRank[string(req.Method)]
			rec.needed = known && rk >= flowRank[fs.fl.FirstAuth]
		}
		authOK := true
		if rec.needed {
			// mid-session nonce change (scenario stale-nonce): after PLAY was accepted the server moves on
			verr := gauth.Verify(req, fs.user, fs.pass, toVM(fs.methods), flowRealm, nonce)
			rec.ok = verr == nil
			authOK = rec.ok
			if !authOK {
				res.StatusCode = base.StatusUnauthorized
				rec.www = gauth.GenerateWWWAuthenticate(toVM(fs.methods), flowRealm, nonce)
				res.Header["WWW-Authenticate"] = rec.www
			}
		}
		closeAfter := false
		if authOK {
			switch req.Method {
			case base.Options:
				res.Header["Public"] = base.HeaderValue{"DESCRIBE, ANNOUNCE, SETUP, PLAY, RECORD, PAUSE, GET_PARAMETER, TEARDOWN"}
			case base.Describe:
				if fs.redirect != "" {
					res.StatusCode = base.StatusFound
					res.Header["Location"] = base.HeaderValue{fs.redirect}
				} else {
					res.Header["Content-Type"] = base.HeaderValue{"application/sdp"}
					switch fs.fl.Base {
					case "", "cb-abs-slash", "sess-star":
						res.Header["Content-Base"] = base.HeaderValue{req.URL.String() + "/"}
					case "cb-abs-noslash":
						res.Header["Content-Base"] = base.HeaderValue{req.URL.String()}
					case "cb-rel":
						res.Header["Content-Base"] = base.HeaderValue{req.URL.RequestURI() + "/"}
					}
					res.Body = flowSDP(fs.fl, req.URL.String())
				}
			case base.Setup:
				var th headers.Transport
				if e := th.Unmarshal(req.Header["Transport"]); e != nil {
					res.StatusCode = base.StatusBadRequest
					break
				}
				timeout := uint(60)
				if fs.scenario == "keepalive" {
					timeout = 6 // the client keeps alive every max(timeout-5, 1) seconds
				}
				res.Header["Session"] = headers.Session{Session: fmt.Sprintf("s%d", idx), Timeout: &timeout}.Marshal()
				uni := headers.TransportDeliveryUnicast
				out := headers.Transport{Profile: th.Profile, Delivery: &uni}
				switch {
				case th.Protocol == headers.TransportProtocolTCP,
					fs.scenario == "tcp-in-setup-answer":
					// TCP asked for, or a server that answers a UDP request with a TCP transport
					out.Protocol = headers.TransportProtocolTCP
					out.InterleavedIDs = &[2]int{0, 1}
				default:
					// UDP granted; no packet will ever be sent (scenario udp-timeout-switch)
					out.Protocol = headers.TransportProtocolUDP
					out.ClientPorts = th.ClientPorts
					out.ServerPorts = &[2]int{fs.udp[0].LocalAddr().(*net.UDPAddr).Port, fs.udp[1].LocalAddr().(*net.UDPAddr).Port}
				}
				res.Header["Transport"] = out.Marshal()
				tcpReady = out.Protocol == headers.TransportProtocolTCP
			case base.Announce:
			case base.Record:
				res.Header["Session"] = base.HeaderValue{fmt.Sprintf("s%d", idx)}
			case base.Play:
				res.Header["Session"] = base.HeaderValue{fmt.Sprintf("s%d", idx)}
				tcpPlay = tcpReady
				if fs.scenario == "stale-nonce" {
					// the server moves on to a new nonce: later requests computed for the old one are stale
					if n2, e := gauth.GenerateNonce(); e == nil {
						nonce = n2
					}
				}
			case base.Pause:
				res.Header["Session"] = base.HeaderValue{fmt.Sprintf("s%d", idx)}
				tcpPlay = false
			case base.Teardown:
				closeAfter = true
			case base.GetParameter:
			default:
				res.StatusCode = base.StatusNotImplemented
			}
		}
		rec.status = int(res.StatusCode)
		fs.mu.Lock()
		fs.reqs = append(fs.reqs, rec)
		fs.mu.Unlock()
		nc.SetWriteDeadline(time.Now().Add(3 * time.Second))
		if e := co.WriteResponse(res); e != nil {
			return
		}
		if closeAfter {
			return
		}
		sendMedia()
	}
}

func (r *runner) flowCase(fl *Flow, name string) {
	r.flowReport(fl, flowExec(fl), name)
}

type flowStep struct {
	name string
	err  error
}

// flowResult: what one executed flow produced (no harness bookkeeping in here: flows run concurrently).
type flowResult struct {
	note     string
	steps    []flowStep
	servers  []*flowServer
	switched int
	panicked any
}

func flowExec(fl *Flow) (out *flowResult) {
	out = &flowResult{}
	defer func() {
		if e := recover(); e != nil {
			out.panicked = e
		}
	}()
	fs, err := newFlowServer(fl, fl.Scenario)
	if err != nil {
		out.note = "flow server: " + err.Error()
		return
	}
	servers := []*flowServer{fs}
	defer func() {
		for _, s := range servers {
			s.close()
		}
		out.servers = servers
	}()
	if fl.Scenario == "redirect" || fl.Scenario == "redirect-after-auth" {
		fs2, e := newFlowServer(fl, "tcp")
		if e != nil {
			out.note = "flow server 2: " + e.Error()
			return
		}
		servers = append(servers, fs2)
		fs.redirect = "rtsp://" + fs2.addr() + fl.Path + "-moved"
		if fl.Scenario == "redirect" {
			// the first server redirects without asking who is there
			fs.noAuth = true
		}
	}
	u, err := base.ParseURL("rtsp://" + fs.addr() + fl.Path)
	if err != nil {
		out.note = "flow url: " + err.Error()
		return
	}
	u.User = url.UserPassword(string(fl.User), string(fl.Pass))

	gotPkt := make(chan struct{}, 64)
	var swMu sync.Mutex
	switched := 0
	cl := gortsplib.Client{Scheme: u.Scheme, Host: u.Host,
		ReadTimeout: 3 * time.Second, WriteTimeout: 3 * time.Second, InitialUDPReadTimeout: 250 * time.Millisecond,
		OnTransportSwitch: func(error) { swMu.Lock(); switched++; swMu.Unlock() }}
	if fl.Scenario == "tcp" || fl.Scenario == "pause-replay" || fl.Scenario == "keepalive" || fl.Scenario == "stale-nonce" ||
		fl.Scenario == "redirect" || fl.Scenario == "redirect-after-auth" || fl.Scenario == "record" {
		p := gortsplib.ProtocolTCP
		cl.Protocol = &p
	}
	var steps []flowStep
	step := func(n string, e error) bool {
		steps = append(steps, flowStep{n, e})
		return e == nil
	}
	waitMedia := func(n string) bool {
		select {
		case <-gotPkt:
			return step(n, nil)
		case <-time.After(4 * time.Second):
			return step(n, fmt.Errorf("no media within 4s"))
		}
	}
	drain := func() {
		for {
			select {
			case <-gotPkt:
			default:
				return
			}
		}
	}
	func() {
		if !step("start", cl.Start()) {
			return
		}
		defer cl.Close()
		if fl.Scenario == "record" {
			medi := &description.Media{Type: description.MediaTypeVideo,
				Formats: []format.Format{&format.H264{PayloadTyp: 96, PacketizationMode: 1}}}
			rdesc := &description.Session{Medias: []*description.Media{medi}}
			_, e := cl.Announce(u, rdesc)
			if !step("announce", e) {
				return
			}
			if !step("setup", cl.SetupAll(u, rdesc.Medias)) {
				return
			}
			_, e = cl.Record()
			if !step("record", e) {
				return
			}
			deadline := time.Now().Add(4 * time.Second)
			var seq uint16
			for {
				seq++
				e = cl.WritePacketRTP(medi, &rtp.Packet{Header: rtp.Header{Version: 2, PayloadType: 96, SequenceNumber: seq, Timestamp: uint32(seq) * 3000},
					Payload: []byte{5, 1, 2, 3}})
				if e != nil {
					step("write", e)
					return
				}
				fs.mu.Lock()
				n := fs.framesIn
				fs.mu.Unlock()
				if n > 0 {
					step("media", nil)
					return
				}
				if time.Now().After(deadline) {
					step("media", fmt.Errorf("the server received no media within 4s"))
					return
				}
				time.Sleep(20 * time.Millisecond)
			}
		}
		desc, _, e := cl.Describe(u)
		if !step("describe", e) {
			return
		}
		if !step("setup", cl.SetupAll(desc.BaseURL, desc.Medias)) {
			return
		}
		cl.OnPacketRTPAny(func(*description.Media, format.Format, *rtp.Packet) {
			select {
			case gotPkt <- struct{}{}:
			default:
			}
		})
		_, e = cl.Play(nil)
		if !step("play", e) {
			return
		}
		if !waitMedia("media") {
			return
		}
		switch fl.Scenario {
		case "pause-replay", "stale-nonce":
			_, e = cl.Pause()
			if !step("pause", e) {
				return
			}
			drain()
			_, e = cl.Play(nil)
			if !step("play-again", e) {
				return
			}
			waitMedia("media-again")
		case "keepalive":
			time.Sleep(1300 * time.Millisecond)
			drain()
			waitMedia("media-after-keepalive")
		}
	}()

	swMu.Lock()
	out.switched = switched
	swMu.Unlock()
	out.steps = steps
	return
}

func (r *runner) flowReport(fl *Flow, res *flowResult, name string) {
	c := r.c
	in := &Input{Kind: "flow", Flow: fl}
	if res.panicked != nil {
		r.viol("no input crashes the authentication code", "auth-panic", in, fmt.Sprint(res.panicked))
		return
	}
	if res.note != "" {
		c.Note(name + ": " + res.note)
		return
	}
	steps, servers, switched := res.steps, res.servers, res.switched
	// ---------------- correspondence: every server-side decision against the model ----------------
	cs := corr.Case{Name: name, Nontrivial: true}
	var all []flowReq
	per401 := map[string]int{}
	perOK := map[string]int{}
	keepalives := 0
	for si, s := range servers {
		s.mu.Lock()
		reqs := append([]flowReq{}, s.reqs...)
		s.mu.Unlock()
		for _, rq := range reqs {
			all = append(all, rq)
			key := fmt.Sprintf("%d/%d", si, rq.conn)
			if rq.status == 401 {
				per401[key]++
				cs.Ops = append(cs.Ops, fmt.Sprintf("auth www %s %s %s", methodsTok(s.methods), hxs(flowRealm), hxs(rq.nonce)))
				cs.Impl = append(cs.Impl, listTok(rq.www))
			}
			if rq.needed {
				if rq.ok {
					perOK[key]++
				}
				if rq.method == "GET_PARAMETER" || (rq.method == "OPTIONS" && rq.session) {
					keepalives++
				}
				cs.Ops = append(cs.Ops, fmt.Sprintf("auth verify %s %s %s %s %s %s %s %s %s", hxs(rq.method), hxs(rq.urlStr), hxs(rq.urlReq),
					listTok(rq.authz), hxs(s.user), hxs(s.pass), methodsTok(s.methods), hxs(flowRealm), hxs(rq.nonce)))
				cs.Impl = append(cs.Impl, okErr(map[bool]error{true: nil, false: errors.New("x")}[rq.ok]))
			}
		}
	}
	if len(cs.Ops) > 0 {
		c.Add(cs)
	}

	// ---------------- property oracle ----------------
	c.Dist("flow:" + fl.Scenario)
	if fl.FirstAuth != "" {
		c.Dist("flow:first-challenge-at=" + fl.FirstAuth)
	}
	if fl.Base != "" || fl.MediaControl != "" {
		c.Dist("flow:base=" + fl.Base + ",control=" + fl.MediaControl)
	}
	var trace []string
	for _, st := range steps {
		if st.err != nil {
			trace = append(trace, st.name+": "+st.err.Error())
		} else {
			trace = append(trace, st.name+": ok")
		}
	}
	for _, rq := range all {
		trace = append(trace, fmt.Sprintf("conn %d %s -> %d", rq.conn, rq.method, rq.status))
	}
	detail := strings.Join(trace, "; ")
	wf := fl.User != "" && !strings.ContainsAny(string(fl.User), ":\"") && validMethods(fl.Methods)
	if !wf {
		c.Dist("flow:not-wellformed")
		return
	}
	var failed *flowStep
	for i := range steps {
		if steps[i].err != nil {
			failed = &steps[i]
			break
		}
	}
	if fl.Scenario == "stale-nonce" {
		// The server moved to a new nonce after PLAY.  The statement of C10 does not require the client to
		// answer a second challenge on the same connection (gortsplib's own server never changes the nonce of
		// a connection); what the client does is recorded, not judged.
		if failed != nil {
			var bad liberrors.ErrClientBadStatusCode
			if errors.As(failed.err, &bad) && bad.Code == base.StatusUnauthorized {
				c.Dist("flow:stale-nonce:client-gives-up-with-401")
			} else {
				c.Dist("flow:stale-nonce:other-failure")
			}
		} else {
			c.Dist("flow:stale-nonce:client-reauthenticates")
		}
		return
	}
	if failed != nil {
		key := "auth-flow-" + fl.Scenario
		var bad liberrors.ErrClientBadStatusCode
		if errors.As(failed.err, &bad) && bad.Code == base.StatusUnauthorized {
			key = "auth-flow-credentials-lost-" + fl.Scenario
			if fl.FirstAuth != "" {
				key += "-challenge-at-" + strings.ToLower(fl.FirstAuth)
			}
		}
		r.viol("right credentials in the URL: every step of the session succeeds, also on a connection the client opened by itself (protocol switch, redirect)",
			key, in, detail)
		return
	}
	// every connection that was challenged answered the challenge: at most one 401 per connection,
	// and at least one authenticated request after it
	if fl.FirstAuth != "" && len(per401) == 0 {
		r.viol("the scenario makes the server challenge at "+fl.FirstAuth, "auth-flow-harness-"+fl.Scenario, in, "no challenge was issued; "+detail)
		return
	}
	for key, n := range per401 {
		if n > 1 || perOK[key] == 0 {
			r.viol("each new connection is challenged once and the client answers with the right credentials",
				"auth-flow-rechallenge-"+fl.Scenario, in, fmt.Sprintf("connection %s: %d x 401, %d accepted; %s", key, n, perOK[key], detail))
			return
		}
	}
	switch fl.Scenario {
	case "udp-timeout-switch", "tcp-in-setup-answer":
		want := 2
		if fl.Scenario == "tcp-in-setup-answer" && fl.FirstAuth == "PLAY" {
			want = 1 // the first connection ends before PLAY
		}
		if switched == 0 || len(per401) < want {
			r.viol("the scenario forces a second connection that is challenged again", "auth-flow-harness-"+fl.Scenario, in,
				fmt.Sprintf("switches %d, challenged connections %d; %s", switched, len(per401), detail))
		} else {
			c.Dist("flow:second-connection-challenged-and-answered")
		}
	case "redirect", "redirect-after-auth":
		if len(servers[1].reqs) == 0 {
			r.viol("the redirect is followed", "auth-flow-harness-"+fl.Scenario, in, detail)
		} else {
			c.Dist("flow:second-connection-challenged-and-answered")
		}
	case "keepalive":
		if keepalives == 0 {
			c.Dist("flow:keepalive-not-observed")
		} else {
			c.Dist("flow:keepalive-authenticated")
		}
	}
}

var flowScenarios = []string{"tcp", "udp-timeout-switch", "tcp-in-setup-answer", "redirect", "redirect-after-auth", "pause-replay", "keepalive", "stale-nonce"}

func (g *gen) flow(scenario string, methods []int) *Flow {
	fl := &Flow{Methods: methods, Scenario: scenario, Path: g.wirePath(),
		User: S(g.wireText(":\"", 12)), Pass: S(g.wireText("", 16))}
	if fl.User == "" {
		fl.User = "admin"
	}
	return fl
}

// flows: every scenario with each single scheme (and, beyond the quick tier, mixed lists),
// run concurrently because most of their time is spent waiting for timers.
func (r *runner) flows(g *gen) {
	c := r.c
	var cases []*Flow
	lists := [][]int{{0}, {1}, {2}}
	if !c.Quick() {
		lists = append(lists, nil, []int{0, 1, 2}, []int{2, 1}, []int{1, 0})
	}
	// where the first challenge happens x how the base URL of SETUP is derived x media control
	bases := []string{"cb-abs-slash", "cb-abs-noslash", "cb-rel", "cb-none", "sess-abs", "sess-star"}
	controls := []string{"rel", "abs", "none"}
	k := int(c.Seed)
	for _, fa := range []string{"OPTIONS", "DESCRIBE", "SETUP", "PLAY", "PAUSE"} {
		for _, b := range bases {
			for _, mc := range controls {
				for si, ms := range lists {
					if c.Quick() && si != k%len(lists) {
						continue // quick: the scheme rotates over the combinations
					}
					sc := "tcp"
					if fa == "PAUSE" {
						sc = "pause-replay"
					}
					fl := g.flow(sc, ms)
					fl.FirstAuth, fl.Base, fl.MediaControl = fa, b, mc
					cases = append(cases, fl)
				}
				k++
			}
		}
	}
	// a new connection made by the client itself, challenged only from SETUP / PLAY on
	for _, sc := range []string{"udp-timeout-switch", "tcp-in-setup-answer"} {
		for _, fa := range []string{"SETUP", "PLAY"} {
			for _, b := range []string{"cb-rel", "cb-none", "sess-abs"} {
				if c.Quick() && (k+len(cases))%3 != 0 {
					k++
					continue
				}
				fl := g.flow(sc, lists[k%len(lists)])
				fl.FirstAuth, fl.Base = fa, b
				cases = append(cases, fl)
				k++
			}
		}
	}
	// record
	for _, fa := range []string{"", "OPTIONS", "ANNOUNCE", "SETUP", "RECORD"} {
		for _, ms := range lists {
			fl := g.flow("record", ms)
			fl.FirstAuth = fa
			cases = append(cases, fl)
		}
	}
	reps := c.N(1, 4)
	for rep := 0; rep < reps; rep++ {
		for _, sc := range flowScenarios {
			for _, ms := range lists {
				if c.Quick() && (sc == "keepalive" || sc == "stale-nonce") && ms[0] != int(c.Seed%3) {
					continue // the two slow scenarios: one scheme per quick run, chosen by the seed
				}
				cases = append(cases, g.flow(sc, ms))
			}
		}
	}
	results := make([]*flowResult, len(cases))
	sem := make(chan struct{}, 8)
	var wg sync.WaitGroup
	for i, fl := range cases {
		wg.Add(1)
		sem <- struct{}{}
		go func(i int, fl *Flow) {
			defer wg.Done()
			defer func() { <-sem }()
			results[i] = flowExec(fl)
		}(i, fl)
	}
	wg.Wait()
	for i, fl := range cases {
		r.flowReport(fl, results[i], fmt.Sprintf("flow-%d-%s", i, fl.Scenario))
	}
}
