package auth

import (
	"bufio"
	"encoding/base64"
	"errors"
	"fmt"
	"net"
	"net/url"
	"strings"
	"sync"
	"time"

	"github.com/bluenviron/gortsplib/v5"
	gauth "github.com/bluenviron/gortsplib/v5/pkg/auth"
	"github.com/bluenviron/gortsplib/v5/pkg/base"
	"github.com/bluenviron/gortsplib/v5/pkg/conn"
	"github.com/bluenviron/gortsplib/v5/pkg/description"
	"github.com/bluenviron/gortsplib/v5/pkg/format"
	"github.com/bluenviron/gortsplib/v5/pkg/headers"
	"github.com/bluenviron/gortsplib/v5/pkg/liberrors"

	"verifharness/corr"
)

func b64(s string) string { return base64.StdEncoding.EncodeToString([]byte(s)) }

// Server: a scripted sequence of requests on one connection to a real gortsplib.Server whose
// handlers call VerifyCredentials(expected user, expected password) and answer
// (401, liberrors.ErrServerAuth{}) when it fails, like examples/server-auth.
type Server struct {
	Methods   []int  `json:"methods"` // Server.AuthMethods (nil / empty = library default)
	User      S      `json:"user"`
	Pass      S      `json:"pass"`
	ReqMethod string `json:"req_method"` // DESCRIBE | ANNOUNCE | GET_PARAMETER
	Path      string `json:"path"`       // path?query of the request URL
	Steps     []Step `json:"steps"`
}

// Step kinds: nocred | right | wrongpass | wronguser | wrongnonce | basic-right | basic-wrong | raw
type Step struct {
	Kind string `json:"kind"`
	Alt  S      `json:"alt,omitempty"`
	Raw  []S    `json:"raw,omitempty"` // kind raw: Authorization header values verbatim
}

// Client: a real gortsplib.Client (credentials in the URL, or none) describing against the server.
type Client struct {
	Methods []int  `json:"methods"`
	User    S      `json:"user"`
	Pass    S      `json:"pass"`
	HasCred bool   `json:"has_cred"`
	CUser   S      `json:"cuser"`
	CPass   S      `json:"cpass"`
	Path    string `json:"path"`
}

type handler struct {
	mu        sync.Mutex
	user      string
	pass      string
	describes int
	lastWWW   base.HeaderValue
	closed    chan struct{}
	sdp       []byte
}

func (h *handler) creds() (string, string) {
	h.mu.Lock()
	defer h.mu.Unlock()
	return h.user, h.pass
}

func (h *handler) OnConnClose(*gortsplib.ServerHandlerOnConnCloseCtx) {
	h.mu.Lock()
	defer h.mu.Unlock()
	if h.closed != nil {
		select {
		case h.closed <- struct{}{}:
		default:
		}
	}
}

func (h *handler) OnRequest(_ *gortsplib.ServerConn, req *base.Request) {
	h.mu.Lock()
	defer h.mu.Unlock()
	if req.Method == base.Describe {
		h.describes++
	}
}

func (h *handler) OnResponse(_ *gortsplib.ServerConn, res *base.Response) {
	h.mu.Lock()
	defer h.mu.Unlock()
	if v, ok := res.Header["WWW-Authenticate"]; ok {
		h.lastWWW = append(base.HeaderValue{}, v...)
	}
}

func (h *handler) OnDescribe(ctx *gortsplib.ServerHandlerOnDescribeCtx) (*base.Response, *gortsplib.ServerStream, error) {
	u, p := h.creds()
	if !ctx.Conn.VerifyCredentials(ctx.Request, u, p) {
		return &base.Response{StatusCode: base.StatusUnauthorized}, nil, liberrors.ErrServerAuth{}
	}
	return &base.Response{StatusCode: base.StatusOK, Body: h.sdp}, nil, nil
}

func (h *handler) OnAnnounce(ctx *gortsplib.ServerHandlerOnAnnounceCtx) (*base.Response, error) {
	u, p := h.creds()
	if !ctx.Conn.VerifyCredentials(ctx.Request, u, p) {
		return &base.Response{StatusCode: base.StatusUnauthorized}, liberrors.ErrServerAuth{}
	}
	return &base.Response{StatusCode: base.StatusOK}, nil
}

func (h *handler) OnGetParameter(ctx *gortsplib.ServerHandlerOnGetParameterCtx) (*base.Response, error) {
	u, p := h.creds()
	if !ctx.Conn.VerifyCredentials(ctx.Request, u, p) {
		return &base.Response{StatusCode: base.StatusUnauthorized}, liberrors.ErrServerAuth{}
	}
	return &base.Response{StatusCode: base.StatusOK}, nil
}

type liveServer struct {
	s    *gortsplib.Server
	h    *handler
	addr string
}

var (
	servers   = map[string]*liveServer{}
	serversMu sync.Mutex
)

func (r *runner) stopServers() {
	serversMu.Lock()
	defer serversMu.Unlock()
	for k, ls := range servers {
		ls.s.Close()
		delete(servers, k)
	}
}

func sdpBody() []byte {
	d := description.Session{Medias: []*description.Media{{
		Type:    description.MediaTypeVideo,
		Formats: []format.Format{&format.H264{PayloadTyp: 96, PacketizationMode: 1}},
	}}}
	b, err := d.Marshal()
	if err != nil {
		panic(err)
	}
	return b
}

func getServer(ms []int) (*liveServer, error) {
	serversMu.Lock()
	defer serversMu.Unlock()
	key := methodsTok(ms)
	if ls, ok := servers[key]; ok {
		return ls, nil
	}
	var lastErr error
	for try := 0; try < 20; try++ {
		l, err := net.Listen("tcp", "127.0.0.1:0")
		if err != nil {
			return nil, err
		}
		addr := l.Addr().String()
		l.Close()
		h := &handler{sdp: sdpBody()}
		s := &gortsplib.Server{Handler: h, RTSPAddress: addr, AuthMethods: toVM(ms),
			ReadTimeout: 5 * time.Second, WriteTimeout: 5 * time.Second}
		if err = s.Start(); err != nil {
			lastErr = err
			continue
		}
		ls := &liveServer{s: s, h: h, addr: addr}
		servers[key] = ls
		return ls, nil
	}
	return nil, lastErr
}

func effMethods(ms []int) []int {
	if len(ms) == 0 {
		return []int{0, 1}
	}
	return ms
}

func nonceOf(www base.HeaderValue) (string, bool) {
	for _, v := range www {
		var a headers.Authenticate
		if err := a.Unmarshal(base.HeaderValue{v}); err == nil && a.Method == headers.AuthMethodDigest {
			return a.Nonce, true
		}
	}
	return "", false
}

func (r *runner) serverCase(sc *Server, name string) {
	in := &Input{Kind: "server", Server: sc}
	r.guard(in, func() { r.serverCase1(sc, in, name) })
}

func (r *runner) serverCase1(sc *Server, in *Input, name string) {
	c := r.c
	ls, err := getServer(sc.Methods)
	if err != nil {
		c.Note("server start failed: " + err.Error())
		return
	}
	ls.h.mu.Lock()
	ls.h.user, ls.h.pass = string(sc.User), string(sc.Pass)
	ls.h.mu.Unlock()

	u, err := base.ParseURL("rtsp://" + ls.addr + sc.Path)
	if err != nil {
		c.Dist("server:url-unparsable")
		return
	}
	// the server's view of the URL
	su, err := base.ParseURL(u.CloneWithoutCredentials().String())
	if err != nil {
		return
	}
	nc, err := net.DialTimeout("tcp", ls.addr, 5*time.Second)
	if err != nil {
		c.Note("dial failed: " + err.Error())
		return
	}
	defer nc.Close()
	co := conn.NewConn(bufio.NewReader(nc), nc)
	cseq := 0
	do := func(req *base.Request) (*base.Response, error) {
		cseq++
		if req.Header == nil {
			req.Header = base.Header{}
		}
		req.Header["CSeq"] = base.HeaderValue{fmt.Sprint(cseq)}
		nc.SetDeadline(time.Now().Add(5 * time.Second))
		if e := co.WriteRequest(req); e != nil {
			return nil, e
		}
		return co.ReadResponse()
	}

	type rec struct {
		step   Step
		authz  base.HeaderValue
		status int
		www    base.HeaderValue
		hasWWW bool
		closed bool
		// what the server expected / was asked when this request was made (replay steps change them)
		expPass S
		url     *base.URL // the server's view of the request URL
		oldPass S
	}
	var recs []rec
	var lastGood base.HeaderValue // Authorization header of the last request answered 200 on this connection
	curPass := sc.Pass
	defer func() {
		ls.h.mu.Lock()
		ls.h.pass = string(sc.Pass)
		ls.h.mu.Unlock()
	}()
	var www base.HeaderValue // last challenge seen on this connection
	method := base.Method(sc.ReqMethod)
	for _, st := range sc.Steps {
		req := &base.Request{Method: method, URL: u, Header: base.Header{}}
		if method == base.Announce {
			req.Header["Content-Type"] = base.HeaderValue{"application/sdp"}
			req.Body = ls.h.sdp
		}
		mk := func(user, pass string, w base.HeaderValue) base.HeaderValue {
			se := &gauth.Sender{WWWAuth: w, User: user, Pass: pass}
			if se.Initialize() != nil {
				return nil
			}
			rq := &base.Request{Method: method, URL: u}
			se.AddAuthorization(rq)
			return rq.Header["Authorization"]
		}
		var authz base.HeaderValue
		reqSU := su
		oldPass := curPass
		switch st.Kind {
		case "replay-newpass", "replay-newpath":
			// the Authorization header that was accepted before, verbatim, in a context it was not computed
			// for: the application now expects another password / the request is for another URL
			// (added after seeded change C10-r6-2: a per-connection cache of accepted headers)
			if lastGood == nil {
				continue
			}
			authz = lastGood
			if st.Kind == "replay-newpass" {
				curPass = st.Alt
				ls.h.mu.Lock()
				ls.h.pass = string(curPass)
				ls.h.mu.Unlock()
			} else {
				u2, e2 := base.ParseURL("rtsp://" + ls.addr + "/zz" + sc.Path)
				if e2 != nil {
					continue
				}
				su2, e2 := base.ParseURL(u2.CloneWithoutCredentials().String())
				if e2 != nil {
					continue
				}
				req.URL, reqSU = u2, su2
			}
		case "nocred":
		case "right":
			authz = mk(string(sc.User), string(sc.Pass), www)
		case "wrongpass":
			authz = mk(string(sc.User), string(st.Alt), www)
		case "wronguser":
			authz = mk(string(st.Alt), string(sc.Pass), www)
		case "wrongnonce":
			var w2 base.HeaderValue
			if n, ok := nonceOf(www); ok {
				for _, v := range www {
					w2 = append(w2, strings.Replace(v, `nonce="`+n+`"`, `nonce="`+string(st.Alt)+`"`, 1))
				}
			}
			authz = mk(string(sc.User), string(sc.Pass), w2)
		case "basic-right":
			authz = base.HeaderValue{"Basic " + b64(string(sc.User)+":"+string(sc.Pass))}
		case "basic-wrong":
			authz = base.HeaderValue{"Basic " + b64(string(sc.User)+":"+string(st.Alt))}
		case "raw":
			for _, x := range st.Raw {
				authz = append(authz, string(x))
			}
		}
		if authz != nil {
			req.Header["Authorization"] = authz
		}
		res, e := do(req)
		if e != nil {
			// the previous response was the last one: the server closed the connection
			if len(recs) > 0 {
				recs[len(recs)-1].closed = true
			} else {
				c.Note(name + ": first request failed: " + e.Error())
			}
			break
		}
		rc := rec{step: st, authz: authz, status: int(res.StatusCode), expPass: curPass, url: reqSU, oldPass: oldPass}
		if res.StatusCode == base.StatusOK && authz != nil {
			lastGood = authz
		}
		if v, ok := res.Header["WWW-Authenticate"]; ok {
			rc.www, rc.hasWWW = v, true
			www = v
		}
		recs = append(recs, rc)
		if method == base.Announce && res.StatusCode == base.StatusOK {
			break // a second ANNOUNCE on the same session is a state error, not an auth matter
		}
	}
	// probe: is the connection still served?
	if len(recs) > 0 && !recs[len(recs)-1].closed {
		if _, e := do(&base.Request{Method: base.Options, URL: u}); e != nil {
			recs[len(recs)-1].closed = true
		}
	}

	fresh := "ff"
	for _, rc := range recs {
		if n, ok := nonceOf(rc.www); ok {
			fresh = hxs(n)
			break
		}
	}
	cs := corr.Case{Name: name, Nontrivial: true}
	cs.Ops = append(cs.Ops, "auth cinit")
	cs.Impl = append(cs.Impl, "ok")
	eff := effMethods(sc.Methods)
	for i, rc := range recs {
		w := "none"
		if rc.hasWWW {
			w = listTok(rc.www)
		}
		cs.Ops = append(cs.Ops, fmt.Sprintf("auth creq %s %s %s %s %s %s %s %s", methodsTok(sc.Methods), fresh, hxs(sc.ReqMethod),
			hxs(rc.url.String()), hxs(rc.url.RequestURI()), listTok(rc.authz), hx(sc.User), hx(rc.expPass)))
		cs.Impl = append(cs.Impl, fmt.Sprintf("st %d www %s closed %s", rc.status, w, corr.B(rc.closed)))

		// ---------------- property oracle ----------------
		kind := rc.step.Kind
		if rc.authz == nil && kind != "nocred" {
			kind = "nocred" // no challenge was available to compute credentials from
		}
		c.Dist("server:step=" + kind)
		fail := func(clause, key, detail string) {
			r.viol(clause, key, in, fmt.Sprintf("step %d (%s): %s", i, kind, detail))
		}
		wfUser := sc.User != "" && !strings.ContainsAny(string(sc.User), ":\"")
		switch kind {
		case "nocred":
			if rc.status != 401 || !rc.hasWWW || rc.closed {
				fail("a request without credentials is challenged with 401 and the connection is kept", "auth-server-challenge",
					fmt.Sprintf("status %d, challenge %v, closed %v", rc.status, rc.hasWWW, rc.closed))
			} else if len(rc.www) != len(eff) {
				fail("one challenge per enabled method", "auth-server-challenge-count", fmt.Sprintf("%d challenges for methods %v", len(rc.www), eff))
			}
		case "right":
			if wfUser && (rc.status != 200 || rc.closed || rc.hasWWW) {
				fail("right credentials are accepted on the wire", "auth-server-complete", fmt.Sprintf("status %d closed %v", rc.status, rc.closed))
			}
		case "wrongpass", "wronguser", "wrongnonce", "basic-wrong":
			differs := true
			switch kind {
			case "wrongpass", "basic-wrong":
				differs = rc.step.Alt != sc.Pass
			case "wronguser":
				differs = rc.step.Alt != sc.User && rc.step.Alt != "" && !strings.ContainsAny(string(rc.step.Alt), ":\"")
			case "wrongnonce":
				differs = hxs(string(rc.step.Alt)) != fresh && schemeOf(rc.authz) != "basic"
			}
			if differs && wfUser && (rc.status != 401 || !rc.closed || rc.hasWWW) {
				fail("wrong credentials end the connection", "auth-server-close", fmt.Sprintf("status %d challenge %v closed %v", rc.status, rc.hasWWW, rc.closed))
			}
		case "replay-newpass":
			if rc.step.Alt != rc.oldPass && wfUser && (rc.status != 401 || !rc.closed) {
				fail("credentials computed for another password are rejected (also when they were accepted before on this connection)", "auth-server-replay-newpass",
					fmt.Sprintf("status %d closed %v", rc.status, rc.closed))
			}
		case "replay-newpath":
			if schemeOf(rc.authz) != "basic" && wfUser && (rc.status != 401 || !rc.closed) {
				fail("Digest credentials computed for another URL are rejected (also when they were accepted before on this connection)", "auth-server-replay-newpath",
					fmt.Sprintf("status %d closed %v", rc.status, rc.closed))
			}
		case "basic-right":
			enabled := false
			for _, m := range eff {
				if m == 0 {
					enabled = true
				}
			}
			if wfUser && enabled && (rc.status != 200 || rc.closed) {
				key := "auth-server-complete"
				if strings.Contains(string(sc.Pass), ":") {
					key = "auth-basic-colon-password"
				}
				fail("right Basic credentials are accepted on the wire", key, fmt.Sprintf("status %d closed %v", rc.status, rc.closed))
			}
			if wfUser && !enabled && (rc.status != 401 || !rc.closed) {
				fail("a scheme that is not enabled is rejected and the connection ends", "auth-server-scheme-gate", fmt.Sprintf("status %d closed %v", rc.status, rc.closed))
			}
		}
	}
	c.Add(cs)
}

func (r *runner) clientCase(cc *Client, name string) {
	in := &Input{Kind: "client", Client: cc}
	r.guard(in, func() { r.clientCase1(cc, in, name) })
}

func (r *runner) clientCase1(cc *Client, in *Input, name string) {
	c := r.c
	ls, err := getServer(cc.Methods)
	if err != nil {
		c.Note("server start failed: " + err.Error())
		return
	}
	u, err := base.ParseURL("rtsp://" + ls.addr + cc.Path)
	if err != nil {
		c.Dist("client:url-unparsable")
		return
	}
	if cc.HasCred {
		u.User = url.UserPassword(string(cc.CUser), string(cc.CPass))
	}
	su, err := base.ParseURL(u.CloneWithoutCredentials().String())
	if err != nil {
		return
	}
	ls.h.mu.Lock()
	ls.h.user, ls.h.pass = string(cc.User), string(cc.Pass)
	ls.h.describes = 0
	ls.h.lastWWW = nil
	ls.h.mu.Unlock()

	cl := gortsplib.Client{Scheme: u.Scheme, Host: u.Host, ReadTimeout: 5 * time.Second, WriteTimeout: 5 * time.Second}
	if err = cl.Start(); err != nil {
		c.Note("client start failed: " + err.Error())
		return
	}
	_, _, derr := cl.Describe(u)
	status := "200"
	if derr != nil {
		var bad liberrors.ErrClientBadStatusCode
		var setup liberrors.ErrClientAuthSetup
		switch {
		case errors.As(derr, &bad):
			status = fmt.Sprint(int(bad.Code))
		case errors.As(derr, &setup):
			status = "setuperr"
		default:
			status = "err"
			c.Note(name + ": describe: " + derr.Error())
		}
	}
	_, oerr := cl.Options(u)
	closed := oerr != nil
	cl.Close()

	ls.h.mu.Lock()
	n := ls.h.describes
	www := ls.h.lastWWW
	ls.h.mu.Unlock()
	fresh := "ff"
	if nn, ok := nonceOf(www); ok {
		fresh = hxs(nn)
	}
	cred := "none"
	if cc.HasCred {
		cred = hx(cc.CUser) + "," + hx(cc.CPass)
	}
	c.Add(corr.Case{Name: name, Nontrivial: true,
		Ops: []string{fmt.Sprintf("auth client %s %s %s %s %s %s %s %s", methodsTok(cc.Methods), hx(cc.User), hx(cc.Pass), fresh, hxs("DESCRIBE"),
			hxs(su.String()), hxs(su.RequestURI()), cred)},
		Impl: []string{fmt.Sprintf("n %d %s closed %s", n, status, corr.B(closed))}})

	// ---------------- property oracle ----------------
	wfUser := cc.User != "" && !strings.ContainsAny(string(cc.User), ":\"")
	switch {
	case !cc.HasCred:
		c.Dist("client:nocred")
		if n != 1 || status != "401" || closed {
			r.viol("a client without credentials gets 401 once and the connection is kept", "auth-client-nocred", in, fmt.Sprintf("%d requests, status %s, closed %v", n, status, closed))
		}
	case cc.CUser == cc.User && cc.CPass == cc.Pass && wfUser:
		c.Dist("client:right")
		if n != 2 || status != "200" || closed {
			key := "auth-client-complete"
			r.viol("the client retries once with credentials and is accepted", key, in, fmt.Sprintf("%d requests, status %s, closed %v", n, status, closed))
		}
	case wfUser && cc.CUser != "" && !strings.ContainsAny(string(cc.CUser), ":\""):
		c.Dist("client:wrong")
		if n != 2 || status != "401" || !closed {
			r.viol("wrong credentials: one retry, 401, connection ended", "auth-client-wrong", in, fmt.Sprintf("%d requests, status %s, closed %v", n, status, closed))
		}
	default:
		c.Dist("client:other")
	}
}

// wire-safe text: printable, no CR/LF, no leading/trailing space
func (g *gen) wireText(forbid string, max int) string {
	for {
		var s string
		switch g.r.IntN(6) {
		case 0:
			s = g.word(alnum+" !#$%&'()*+,-./:;<=>?@[\\]^_`{|}~\"", 1, max)
		case 1:
			s = g.word("äöüßéλж日本🙂", 1, 6) + g.word(alnum+":", 0, 4)
		case 2:
			s = g.word(alnum, 1, 5) + g.pick(":", "::", ":x:", ",", "=", ", realm=") + g.word(alnum, 0, 5)
		default:
			s = g.word(alnum, 1, max)
		}
		s = strings.Map(func(r rune) rune {
			if strings.ContainsRune(forbid, r) {
				return -1
			}
			return r
		}, s)
		s = strings.TrimSpace(s)
		if len(s) <= 300 {
			return s
		}
	}
}

func (g *gen) wirePath() string {
	p := "/" + g.word(alnum, 1, 8)
	if g.r.IntN(2) == 0 {
		p += "/" + g.word(alnum+"-_.", 1, 8)
	}
	if g.r.IntN(3) == 0 {
		p += "?" + g.word(alnum, 1, 4) + "=" + g.word(alnum, 0, 6)
	}
	return p
}

func (g *gen) server() *Server {
	sc := &Server{Methods: g.methods(), User: S(g.wireText(":\"", 12)), Pass: S(g.wireText("", 16)),
		ReqMethod: g.pick("DESCRIBE", "DESCRIBE", "GET_PARAMETER", "ANNOUNCE"), Path: g.wirePath()}
	if g.r.IntN(5) == 0 {
		sc.Methods = nil
	}
	if g.r.IntN(25) == 0 {
		sc.User = ""
	}
	n := 1 + g.r.IntN(5)
	for i := 0; i < n; i++ {
		var st Step
		switch k := g.r.IntN(16); {
		case i == 0 && k < 10:
			st.Kind = "nocred"
		case k < 2:
			st.Kind = "nocred"
		case k < 7:
			st.Kind = "right"
		case k == 7:
			st.Kind, st.Alt = "wrongpass", g.differ(sc.Pass, "\r\n")
			st.Alt = S(strings.TrimSpace(string(st.Alt)))
		case k == 8:
			st.Kind, st.Alt = "wronguser", S(g.wireText(":\"", 12))
		case k == 9:
			st.Kind, st.Alt = "wrongnonce", S(g.word("0123456789abcdef", 32, 32))
		case k == 10:
			st.Kind = "basic-right"
		case k == 11:
			st.Kind, st.Alt = "basic-wrong", S(g.wireText("", 16))
		case k == 12 && i > 0:
			st.Kind, st.Alt = "replay-newpass", S(strings.TrimSpace(string(g.differ(sc.Pass, "\r\n"))))
		case k == 13 && i > 0:
			st.Kind = "replay-newpath"
		default:
			st.Kind = "raw"
			switch g.r.IntN(8) {
			case 0:
				st.Raw = []S{S("Bearer " + g.word(alnum, 1, 20))}
			case 1:
				st.Raw = []S{S("Basic " + b64(":"+string(sc.Pass)))} // empty user name
			case 2:
				st.Raw = []S{S(`Digest username="", realm="ipcam", nonce="x", uri="y", response="z"`)}
			case 3:
				st.Raw = []S{S("Basic " + g.word(alnum+"=", 1, 12))}
			case 4:
				st.Raw = []S{S("Basic " + b64(string(sc.User)+":"+string(sc.Pass))), S("Basic " + b64(string(sc.User)+":"+string(sc.Pass)))}
			case 5:
				st.Raw = []S{S(`Digest username="` + string(sc.User) + `", realm="ipcam", nonce="abc", uri="rtsp://x/", response="0"`)}
			case 6:
				st.Raw = []S{S(`Digest username="` + string(sc.User) + `"`)}
			default:
				st.Raw = []S{S(strings.TrimSpace(strings.Map(func(r rune) rune {
					if r == '\r' || r == '\n' {
						return -1
					}
					return r
				}, g.mutate(`Digest username="u", realm="ipcam", nonce="n", uri="rtsp://h/p", response="r"`))))}
			}
		}
		sc.Steps = append(sc.Steps, st)
	}
	return sc
}

func (g *gen) client() *Client {
	cc := &Client{Methods: g.methods(), User: S(g.wireText(":\"", 12)), Pass: S(g.wireText("", 16)), Path: g.wirePath()}
	switch g.r.IntN(6) {
	case 0:
		cc.HasCred = false
	case 1:
		cc.HasCred, cc.CUser, cc.CPass = true, cc.User, g.differ(cc.Pass, "\r\n")
		cc.CPass = S(strings.TrimSpace(string(cc.CPass)))
	case 2:
		cc.HasCred, cc.CUser, cc.CPass = true, S(g.wireText(":\"", 12)), cc.Pass
	default:
		cc.HasCred, cc.CUser, cc.CPass = true, cc.User, cc.Pass
	}
	return cc
}
