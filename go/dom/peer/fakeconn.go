package peer

import (
	"errors"
	"net"
	"os"
	"sync"
	"syscall"
	"time"
)

// fakePC is an in-memory net.PacketConn that satisfies gortsplib's packetConn interface
// (net.PacketConn + SyscallConn + SetReadBuffer).  The harness injects it through the
// ListenPacket function of the library; datagrams pushed with Deliver may claim ANY source
// address, which the kernel would never let us do on a loopback interface.
type fakePC struct {
	local *net.UDPAddr

	mu       sync.Mutex
	cond     *sync.Cond
	queue    []fakeDgram
	closed   bool
	deadline time.Time // zero = none
	waiting  bool      // a reader is blocked in ReadFrom with an empty queue
	reads    int       // datagrams handed to a reader

	// OnWrite, when set, receives every datagram written by the library.
	OnWrite func(p []byte, to *net.UDPAddr)
	writes  int
}

type fakeDgram struct {
	from    *net.UDPAddr
	payload []byte
}

func newFakePC(local *net.UDPAddr) *fakePC {
	f := &fakePC{local: local}
	f.cond = sync.NewCond(&f.mu)
	return f
}

type timeoutErr struct{}

func (timeoutErr) Error() string   { return "i/o timeout" }
func (timeoutErr) Timeout() bool   { return true }
func (timeoutErr) Temporary() bool { return true }
func (timeoutErr) Unwrap() error   { return os.ErrDeadlineExceeded }

func (f *fakePC) ReadFrom(p []byte) (int, net.Addr, error) {
	f.mu.Lock()
	defer f.mu.Unlock()
	for {
		if f.closed {
			return 0, nil, net.ErrClosed
		}
		if !f.deadline.IsZero() && !time.Now().Before(f.deadline) {
			return 0, nil, timeoutErr{}
		}
		if len(f.queue) > 0 {
			d := f.queue[0]
			f.queue = f.queue[1:]
			f.reads++
			n := copy(p, d.payload)
			return n, d.from, nil
		}
		f.waiting = true
		f.cond.Broadcast()
		f.cond.Wait()
		f.waiting = false
	}
}

// Deliver hands one datagram to the reader and returns when the reader has finished with it,
// i.e. is blocked in ReadFrom again (or the conn was closed / nobody reads).  It reports whether
// a reader consumed the datagram.
func (f *fakePC) Deliver(from *net.UDPAddr, payload []byte) bool {
	f.mu.Lock()
	defer f.mu.Unlock()
	if f.closed {
		return false
	}
	target := f.reads + len(f.queue) + 1
	f.queue = append(f.queue, fakeDgram{from: from, payload: append([]byte(nil), payload...)})
	f.cond.Broadcast()
	for !f.closed && !(f.reads >= target && f.waiting && len(f.queue) == 0) {
		f.cond.Wait()
	}
	return f.reads >= target
}

// Push queues a datagram without waiting (used when no reader is running).
func (f *fakePC) Push(from *net.UDPAddr, payload []byte) {
	f.mu.Lock()
	defer f.mu.Unlock()
	f.queue = append(f.queue, fakeDgram{from: from, payload: append([]byte(nil), payload...)})
	f.cond.Broadcast()
}

// Pending is the number of queued, unread datagrams.
func (f *fakePC) Pending() int {
	f.mu.Lock()
	defer f.mu.Unlock()
	return len(f.queue)
}

// Drop empties the queue.
func (f *fakePC) Drop() {
	f.mu.Lock()
	defer f.mu.Unlock()
	f.queue = nil
}

// WaitIdle returns when a reader is blocked in ReadFrom with an empty queue (or the conn is closed).
func (f *fakePC) WaitIdle() {
	f.mu.Lock()
	defer f.mu.Unlock()
	for !f.closed && !(f.waiting && len(f.queue) == 0) {
		f.cond.Wait()
	}
}

func (f *fakePC) WriteTo(p []byte, addr net.Addr) (int, error) {
	f.mu.Lock()
	if f.closed {
		f.mu.Unlock()
		return 0, net.ErrClosed
	}
	f.writes++
	cb := f.OnWrite
	f.mu.Unlock()
	if cb != nil {
		ua, _ := addr.(*net.UDPAddr)
		cb(append([]byte(nil), p...), ua)
	}
	return len(p), nil
}

func (f *fakePC) Close() error {
	f.mu.Lock()
	defer f.mu.Unlock()
	f.closed = true
	f.cond.Broadcast()
	return nil
}

func (f *fakePC) LocalAddr() net.Addr { return f.local }

func (f *fakePC) SetDeadline(t time.Time) error { return f.SetReadDeadline(t) }

func (f *fakePC) SetReadDeadline(t time.Time) error {
	f.mu.Lock()
	defer f.mu.Unlock()
	f.deadline = t
	f.cond.Broadcast()
	if !t.IsZero() {
		if d := time.Until(t); d > 0 {
			time.AfterFunc(d+time.Millisecond, func() {
				f.mu.Lock()
				f.cond.Broadcast()
				f.mu.Unlock()
			})
		}
	}
	return nil
}

func (f *fakePC) SetWriteDeadline(time.Time) error { return nil }

func (f *fakePC) SetReadBuffer(int) error { return nil }

func (f *fakePC) SyscallConn() (syscall.RawConn, error) {
	return nil, errors.New("fake packet conn has no file descriptor")
}
