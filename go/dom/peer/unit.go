package peer

import (
	"encoding/hex"
	"fmt"
	"net"
	"time"

	"github.com/bluenviron/gortsplib/v5"

	"verifharness/corr"
)

// Op is one step of a scenario (replayable).
type Op struct {
	K    string `json:"k"`              // fill eq | sadd srem spkt sstat | cinit cpkt | session-level ops (session.go)
	IP   string `json:"ip,omitempty"`   // hex, "-" = nil
	IP2  string `json:"ip2,omitempty"`  // second address (eq)
	Port int    `json:"port,omitempty"` // Go int
	Cb   int    `json:"cb,omitempty"`
	Len  int    `json:"len,omitempty"`
	Now  int64  `json:"now,omitempty"`
	Any  bool   `json:"any,omitempty"`
	// session-level
	Conn   int    `json:"conn,omitempty"`
	Method string `json:"method,omitempty"`
	Sess   int    `json:"sess,omitempty"` // index of the session whose id is sent (-1 = no Session header, -2 = unknown id)
	Proto  string `json:"proto,omitempty"`
	Media  int    `json:"media,omitempty"`
	Zone   string `json:"zone,omitempty"`
	Chan   string `json:"chan,omitempty"` // rtp | rtcp
}

// Scenario is the replay input of the peer domain.
type Scenario struct {
	Kind string `json:"kind"` // unit | srv | cl | sess | kernel
	Name string `json:"name,omitempty"`
	Cfg  string `json:"cfg,omitempty"`
	Ops  []Op   `json:"ops"`
}

func unhexIP(s string) net.IP {
	if s == "-" || s == "" {
		return nil
	}
	b, err := hex.DecodeString(s)
	if err != nil {
		panic(err)
	}
	return net.IP(b)
}

func hexIP(ip net.IP) string { return corr.Hex([]byte(ip)) }

// zs renders a zone for the line protocol ("-" = none)
func zs(z string) string {
	if z == "" {
		return "-"
	}
	return z
}

func validIP(ip net.IP) bool { return len(ip) == 4 || len(ip) == 16 }

func viol(c *rctx, sc *Scenario, clause, key, detail string) {
	c.Violate(corr.Violation{Property: "C19", Clause: clause, Key: key, Where: "gortsplib (root package)", Input: sc, Detail: detail})
}

// ---------------------------------------------------------------------------------------------
// fill / Equal
// ---------------------------------------------------------------------------------------------

func runUnit(c *rctx, sc *Scenario) {
	cs := corr.Case{Name: sc.Name, Nontrivial: true}
	for _, op := range sc.Ops {
		switch op.K {
		case "fill":
			ip := unhexIP(op.IP)
			k, z, p := gortsplib.VerifPeerFill(ip, op.Zone, op.Port)
			cs.Ops = append(cs.Ops, fmt.Sprintf("peer fill %s %s %d", op.IP, zs(op.Zone), op.Port))
			cs.Impl = append(cs.Impl, fmt.Sprintf("%s %s %d", corr.Hex(k[:]), zs(z), p))
		case "eq":
			a, b := unhexIP(op.IP), unhexIP(op.IP2)
			cs.Ops = append(cs.Ops, fmt.Sprintf("peer eq %s %s", op.IP, op.IP2))
			cs.Impl = append(cs.Impl, corr.B(a.Equal(b)))
			// property: two map keys coincide exactly when port and address agree in Go's sense
			if validIP(a) && validIP(b) {
				ka, _, _ := gortsplib.VerifPeerFill(a, op.Zone, op.Port)
				kb, _, _ := gortsplib.VerifPeerFill(b, op.Zone, op.Port)
				if (ka == kb) != a.Equal(b) {
					viol(c, sc, "datagrams are delivered only if they come from the negotiated IP address",
						"fill-not-injective", fmt.Sprintf("fill(%s)==fill(%s) is %v but Equal is %v", op.IP, op.IP2, ka == kb, a.Equal(b)))
				}
			}
		default:
			panic("unit: unknown op " + op.K)
		}
	}
	c.Add(cs)
}

// ---------------------------------------------------------------------------------------------
// server listener: the real serverUDPListener.run on a fake packet conn
// ---------------------------------------------------------------------------------------------

type cbStat struct {
	bytes, pkts int
	last        int64
}

func runSrv(c *rctx, sc *Scenario) {
	pc := newFakePC(&net.UDPAddr{IP: net.IPv4(127, 0, 0, 1).To4(), Port: 8000})
	l, err := gortsplib.VerifPeerNewServerListener(pc, "127.0.0.1:8000")
	if err != nil {
		panic(err)
	}
	defer l.Close()

	cs := corr.Case{Name: sc.Name, Nontrivial: len(sc.Ops) > 2}
	cs.Ops = append(cs.Ops, "peer sinit")
	cs.Impl = append(cs.Impl, "ok")

	stats := map[int]*cbStat{}
	calls := 0
	var now int64
	mkcb := func(id int) func([]byte) bool {
		return func(p []byte) bool {
			st := stats[id]
			if st == nil {
				st = &cbStat{}
				stats[id] = st
			}
			st.bytes += len(p)
			st.pkts++
			st.last = now
			calls++
			lastCb = id
			return false
		}
	}
	// property oracle state: the history of registrations
	type reg struct {
		ip   net.IP
		zone string
		port int
		cb   int // -1 = removed
	}
	var hist []reg
	expected := func(ip net.IP, zone string, port int) (int, bool) {
		for i := len(hist) - 1; i >= 0; i-- {
			if hist[i].port == port && hist[i].zone == zone && hist[i].ip.Equal(ip) {
				return hist[i].cb, hist[i].cb >= 0
			}
		}
		return -1, false
	}
	snapshot := func() string {
		s := fmt.Sprintf("calls=%d", calls)
		for id := 0; id < 64; id++ {
			if st := stats[id]; st != nil {
				s += fmt.Sprintf(" %d:%d/%d/%d", id, st.bytes, st.pkts, st.last)
			}
		}
		return s
	}
	statLine := func(id int) string {
		st := stats[id]
		if st == nil {
			st = &cbStat{}
		}
		return fmt.Sprintf("bytes %d pkts %d last %d", st.bytes, st.pkts, st.last)
	}

	for i, op := range sc.Ops {
		ip := unhexIP(op.IP)
		switch op.K {
		case "sadd":
			l.AddClient(ip, op.Zone, op.Port, mkcb(op.Cb))
			hist = append(hist, reg{ip, op.Zone, op.Port, op.Cb})
			cs.Ops = append(cs.Ops, fmt.Sprintf("peer sadd %s %s %d %d", op.IP, zs(op.Zone), op.Port, op.Cb))
			cs.Impl = append(cs.Impl, fmt.Sprintf("n %d", l.NumClients()))
		case "srem":
			l.RemoveClient(ip, op.Zone, op.Port)
			hist = append(hist, reg{ip, op.Zone, op.Port, -1})
			cs.Ops = append(cs.Ops, fmt.Sprintf("peer srem %s %s %d", op.IP, zs(op.Zone), op.Port))
			cs.Impl = append(cs.Impl, fmt.Sprintf("n %d", l.NumClients()))
		case "spkt":
			before := snapshot()
			now = op.Now
			lastCb = -1
			pc.Deliver(&net.UDPAddr{IP: ip, Port: op.Port, Zone: op.Zone}, make([]byte, op.Len))
			got := lastCb
			cs.Ops = append(cs.Ops, fmt.Sprintf("peer spkt %s %s %d %d %d", op.IP, zs(op.Zone), op.Port, op.Len, op.Now))
			if got >= 0 {
				cs.Impl = append(cs.Impl, fmt.Sprintf("cb %d %s", got, statLine(got)))
				c.Dist("srv-delivered")
			} else {
				cs.Impl = append(cs.Impl, "drop")
				c.Dist("srv-dropped")
			}
			// ---- property oracle ----
			if validIP(ip) {
				allValid := true
				for _, h := range hist {
					if !validIP(h.ip) {
						allValid = false
					}
				}
				if allValid {
					want, ok := expected(ip, op.Zone, op.Port)
					switch {
					case got >= 0 && !ok:
						viol(c, sc, "UDP datagrams are delivered to a session only if they come from the negotiated IP address and port",
							"srv-foreign-delivered", fmt.Sprintf("op %d: datagram from %s%%%s:%d reached callback %d although no registration matches it", i, ip, op.Zone, op.Port, got))
					case got >= 0 && got != want:
						viol(c, sc, "UDP datagrams are delivered to the session that negotiated the source",
							"srv-wrong-session", fmt.Sprintf("op %d: datagram from %s:%d reached callback %d, registered is %d", i, ip, op.Port, got, want))
					case got < 0 && ok:
						viol(c, sc, "datagrams from the negotiated source are delivered",
							"srv-registered-dropped", fmt.Sprintf("op %d: datagram from %s:%d was dropped although callback %d is registered for it", i, ip, op.Port, want))
					}
				}
			}
			if got < 0 && snapshot() != before {
				viol(c, sc, "datagrams from any other source do not affect callbacks, statistics or timeouts",
					"srv-drop-side-effect", fmt.Sprintf("op %d: counters changed from %q to %q", i, before, snapshot()))
			}
		case "sstat":
			cs.Ops = append(cs.Ops, fmt.Sprintf("peer sstat %d", op.Cb))
			cs.Impl = append(cs.Impl, fmt.Sprintf("%s calls %d", statLine(op.Cb), calls))
		default:
			panic("srv: unknown op " + op.K)
		}
	}
	c.Add(cs)
}

var lastCb int

// ---------------------------------------------------------------------------------------------
// client listener: the real clientUDPListener.run on a fake packet conn
// ---------------------------------------------------------------------------------------------

func runCl(c *rctx, sc *Scenario) {
	cs := corr.Case{Name: sc.Name, Nontrivial: len(sc.Ops) > 2}
	var l *gortsplib.VerifPeerClientListener
	var pc *fakePC
	var now int64
	delivered := 0
	var readIP net.IP
	readZone := ""
	anyPort, mcast := false, false
	stopped := false
	defer func() {
		if l != nil {
			l.Close()
		}
	}()
	for i, op := range sc.Ops {
		ip := unhexIP(op.IP)
		switch op.K {
		case "cinit":
			if l != nil {
				l.Close()
			}
			pc = newFakePC(&net.UDPAddr{IP: net.IPv6zero, Port: 34000})
			stopped = false
			delivered = 0
			now = 0
			readIP, readZone, anyPort, mcast = ip, op.Zone, op.Any, op.Proto == "multicast"
			var err error
			l, err = gortsplib.VerifPeerNewClientListener(pc, op.Any, mcast, ip, op.Zone, op.Port,
				func() time.Time { return time.Unix(now, 0) },
				func([]byte) bool { delivered++; return false })
			if err != nil {
				panic(err)
			}
			l.Start()
			cs.Ops = append(cs.Ops, fmt.Sprintf("peer cinit %s %s %s %s %d", corr.B(op.Any), corr.B(mcast), op.IP, zs(op.Zone), op.Port))
			cs.Impl = append(cs.Impl, "ok")
		case "cstop":
			if !stopped {
				pc.WaitIdle()
				l.Stop()
			}
			stopped = true
			cs.Ops = append(cs.Ops, "peer cstop")
			cs.Impl = append(cs.Impl, "ok")
		case "cstart":
			now = op.Now
			if stopped {
				l.Start()
				stopped = false
			}
			pc.WaitIdle()
			cs.Ops = append(cs.Ops, fmt.Sprintf("peer cstart %d", op.Now))
			cs.Impl = append(cs.Impl, fmt.Sprintf("started rp %d last %d n %d", l.ReadPort(), l.LastPacketTime(), delivered))
		case "cpkt":
			if stopped {
				// the read loop is not running (PAUSE / TEARDOWN): the datagram waits in the socket
				rp0, last0, n0 := l.ReadPort(), l.LastPacketTime(), delivered
				pc.Push(&net.UDPAddr{IP: ip, Port: op.Port, Zone: op.Zone}, make([]byte, op.Len))
				time.Sleep(200 * time.Microsecond)
				cs.Ops = append(cs.Ops, fmt.Sprintf("peer cpkt %s %s %d %d %d", op.IP, zs(op.Zone), op.Port, op.Len, op.Now))
				cs.Impl = append(cs.Impl, fmt.Sprintf("queued rp %d last %d n %d", l.ReadPort(), l.LastPacketTime(), delivered))
				c.Dist("cl-while-stopped")
				if l.ReadPort() != rp0 || l.LastPacketTime() != last0 || delivered != n0 {
					viol(c, sc, "after PAUSE / TEARDOWN traffic no longer reaches the callbacks, statistics or timeouts",
						"cl-stopped-side-effect", fmt.Sprintf("op %d: a stopped listener changed (readPort,last,n) (%d,%d,%d) -> (%d,%d,%d)", i, rp0, last0, n0, l.ReadPort(), l.LastPacketTime(), delivered))
				}
				continue
			}
			pc.WaitIdle()
			rpBefore, lastBefore, nBefore := l.ReadPort(), l.LastPacketTime(), delivered
			now = op.Now
			pc.Deliver(&net.UDPAddr{IP: ip, Port: op.Port, Zone: op.Zone}, make([]byte, op.Len))
			acc := delivered > nBefore
			rp, last := l.ReadPort(), l.LastPacketTime()
			cs.Ops = append(cs.Ops, fmt.Sprintf("peer cpkt %s %s %d %d %d", op.IP, zs(op.Zone), op.Port, op.Len, op.Now))
			w := "drop"
			if acc {
				w = "acc"
			}
			c.Dist("cl-" + w)
			cs.Impl = append(cs.Impl, fmt.Sprintf("%s rp %d last %d n %d", w, rp, last, delivered))
			// ---- property oracle ----
			if acc {
				if validIP(ip) && validIP(readIP) && !readIP.Equal(ip) {
					viol(c, sc, "datagrams are delivered only if they come from the negotiated IP address",
						"cl-foreign-ip-delivered", fmt.Sprintf("op %d: datagram from %s accepted, negotiated %s", i, ip, readIP))
				}
				if !mcast && op.Zone != readZone {
					viol(c, sc, "datagrams are delivered only if they come from the negotiated IP address (a scoped IPv6 address includes its zone)",
						"cl-foreign-zone-delivered", fmt.Sprintf("op %d: datagram from %s%%%s accepted, negotiated %s%%%s", i, ip, op.Zone, readIP, readZone))
				}
				if !(op.Port == rpBefore || (anyPort && rpBefore == 0)) {
					viol(c, sc, "and, unless explicitly relaxed, the port negotiated for that session",
						"cl-foreign-port-delivered", fmt.Sprintf("op %d: datagram from port %d accepted, read port %d, anyPort %v", i, op.Port, rpBefore, anyPort))
				}
				if anyPort && rpBefore == 0 && rp != op.Port {
					viol(c, sc, "any-port relaxation adopts the first source port", "cl-latch", fmt.Sprintf("op %d: read port %d after first packet from %d", i, rp, op.Port))
				}
			} else {
				if rp != rpBefore || last != lastBefore || delivered != nBefore {
					viol(c, sc, "datagrams from any other source do not affect callbacks, statistics or timeouts",
						"cl-drop-side-effect", fmt.Sprintf("op %d: (readPort,last,n) (%d,%d,%d) -> (%d,%d,%d)", i, rpBefore, lastBefore, nBefore, rp, last, delivered))
				}
				if validIP(ip) && validIP(readIP) && readIP.Equal(ip) && (mcast || op.Zone == readZone) && (op.Port == rpBefore || (anyPort && rpBefore == 0)) {
					viol(c, sc, "datagrams from the negotiated source are delivered",
						"cl-negotiated-dropped", fmt.Sprintf("op %d: datagram from %s:%d dropped", i, ip, op.Port))
				}
			}
		default:
			panic("cl: unknown op " + op.K)
		}
	}
	c.Add(cs)
}
