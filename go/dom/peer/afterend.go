package peer

import (
	"fmt"
	"net"

	"verifharness/corr"
)

// Scenario class "traffic from a peer right after its registration ended": packets flow, the
// registration ends (removeClient / PAUSE / TEARDOWN / session close / listener stop), the SAME
// source keeps sending; nothing may reach the ended registration (callbacks, statistics, last-packet
// time), nothing may crash; after a new registration delivery resumes.

// afterEndSrv: unit level, serverUDPListener.  `mid` selects what happens between the removal and
// the next datagrams of the removed peer.
func afterEndSrv(ip net.IP, zone string, port int, mid int, viaOtherForm bool) *Scenario {
	sc := &Scenario{Kind: "srv", Name: fmt.Sprintf("afterend-srv-%d-%s-%d-%d-%v", len(ip), zs(zone), port, mid, viaOtherForm)}
	other := ip
	if viaOtherForm {
		if len(ip) == 4 {
			other = mapped(ip)
		} else if ip.To4() != nil {
			other = ip.To4()
		}
	}
	now := int64(2000)
	pkt := func(a net.IP, z string, p int) {
		now++
		sc.Ops = append(sc.Ops, Op{K: "spkt", IP: hexIP(a), Zone: z, Port: p, Len: 100, Now: now})
	}
	sc.Ops = append(sc.Ops, Op{K: "sadd", IP: hexIP(ip), Zone: zone, Port: port, Cb: 1})
	pkt(ip, zone, port)
	pkt(other, zone, port) // the last datagram before the end comes from the peer itself
	sc.Ops = append(sc.Ops, Op{K: "srem", IP: hexIP(other), Zone: zone, Port: port})
	for k := 0; k < 3; k++ {
		pkt(ip, zone, port)
	}
	switch mid {
	case 1: // another peer registers (other port), the ended one keeps sending
		sc.Ops = append(sc.Ops, Op{K: "sadd", IP: hexIP(ip), Zone: zone, Port: port + 2, Cb: 2})
		pkt(ip, zone, port)
		pkt(ip, zone, port+2)
		pkt(ip, zone, port)
	case 2: // another peer is resolved in between
		sc.Ops = append(sc.Ops, Op{K: "sadd", IP: hexIP(net.IPv4(10, 0, 0, 9).To4()), Port: port, Cb: 3})
		pkt(net.IPv4(10, 0, 0, 9).To4(), "", port)
		pkt(ip, zone, port)
	case 3: // removed twice, then a datagram
		sc.Ops = append(sc.Ops, Op{K: "srem", IP: hexIP(ip), Zone: zone, Port: port})
		pkt(other, zone, port)
	}
	sc.Ops = append(sc.Ops, Op{K: "sstat", Cb: 1})
	// a new registration of the same source: delivery resumes, to the new callback
	sc.Ops = append(sc.Ops, Op{K: "sadd", IP: hexIP(other), Zone: zone, Port: port, Cb: 4})
	pkt(ip, zone, port)
	sc.Ops = append(sc.Ops, Op{K: "srem", IP: hexIP(ip), Zone: zone, Port: port})
	pkt(ip, zone, port)
	pkt(other, zone, port)
	sc.Ops = append(sc.Ops, Op{K: "sstat", Cb: 1}, Op{K: "sstat", Cb: 4})
	return sc
}

// afterEndCl: unit level, clientUDPListener: stop() / start() around traffic from the negotiated source.
func afterEndCl(ip net.IP, zone string, anyPort bool) *Scenario {
	sc := &Scenario{Kind: "cl", Name: fmt.Sprintf("afterend-cl-%d-%s-%v", len(ip), zs(zone), anyPort)}
	rp := 8000
	if anyPort {
		rp = 0
	}
	now := int64(3000)
	pkt := func(a net.IP, z string, p int) {
		now += 2
		sc.Ops = append(sc.Ops, Op{K: "cpkt", IP: hexIP(a), Zone: z, Port: p, Len: 64, Now: now})
	}
	sc.Ops = append(sc.Ops, Op{K: "cinit", Any: anyPort, IP: hexIP(ip), Zone: zone, Port: rp})
	pkt(ip, zone, 8000)
	pkt(ip, zone, 8000)
	sc.Ops = append(sc.Ops, Op{K: "cstop"})
	pkt(ip, zone, 8000) // the same source keeps sending while the listener is stopped
	pkt(ip, zone, 8001)
	pkt(net.IPv4(10, 0, 0, 9).To4(), "", 8000)
	pkt(ip, zone, 8000)
	now += 5
	sc.Ops = append(sc.Ops, Op{K: "cstart", Now: now})
	pkt(ip, zone, 8000) // PLAY again: delivery resumes
	pkt(ip, zone, 8001)
	sc.Ops = append(sc.Ops, Op{K: "cstop"}, Op{K: "cstop"})
	pkt(ip, zone, 8000)
	now += 5
	sc.Ops = append(sc.Ops, Op{K: "cstart", Now: now})
	return sc
}

// genAfterEndSess: a real Server; a UDP victim streams, datagrams from its exact source are
// delivered, then its registration ends in one of several ways and the same source keeps sending.
func genAfterEndSess(c *corr.Ctx, i int) *Scenario {
	r := c.Rng
	sc := &Scenario{Kind: "sess", Name: fmt.Sprintf("afterend-sess-%d", i)}
	var a net.IP
	zone := ""
	switch r.IntN(3) {
	case 0:
		a = net.IPv4(10, 0, 0, 5).To4()
	case 1:
		a = mapped(net.IPv4(10, 0, 0, 5))
	default:
		a, zone = net.ParseIP("fe80::1"), "eth0"
	}
	base := []int{5000, 5002, 65524}[r.IntN(3)]
	record := r.IntN(2) == 0
	req := func(cid int, m string, sess int, rec bool, media, port int) {
		sc.Ops = append(sc.Ops, Op{K: "xreq", Conn: cid, Method: m, Sess: sess, Proto: "udp", Any: rec, Media: media, Port: port})
	}
	nextCid := 0
	open := func(ip net.IP, z string) int {
		sc.Ops = append(sc.Ops, Op{K: "xconn", Conn: nextCid, IP: hexIP(ip), Zone: z})
		nextCid++
		return nextCid - 1
	}
	owner := open(a, zone)
	if record {
		req(owner, "ANNOUNCE", -1, false, 0, 0)
		req(owner, "SETUP", 0, true, 0, base)
		req(owner, "SETUP", 0, true, 1, base+2)
		req(owner, "RECORD", 0, false, 0, 0)
	} else {
		req(owner, "SETUP", -1, false, 0, base)
		req(owner, "SETUP", 0, false, 1, base+2)
		req(owner, "PLAY", 0, false, 0, 0)
	}
	// the peer's traffic: every port of the victim, RTP and RTCP, the last one on a random port
	flow := func(n int) {
		for k := 0; k < n; k++ {
			ch := []string{"rtp", "rtcp"}[r.IntN(2)]
			port := base + r.IntN(4)
			sc.Ops = append(sc.Ops, Op{K: "xdgram", Chan: ch, IP: hexIP(a), Zone: zone, Port: port, Media: (port - base) / 2 & 1})
		}
	}
	all := func() {
		for port := base; port < base+4; port++ {
			for _, ch := range []string{"rtp", "rtcp"} {
				sc.Ops = append(sc.Ops, Op{K: "xdgram", Chan: ch, IP: hexIP(a), Zone: zone, Port: port, Media: (port - base) / 2 & 1})
			}
		}
	}
	all()
	flow(1 + r.IntN(3))
	// the end
	end := r.IntN(5)
	paused := false
	switch end {
	case 0:
		req(owner, "PAUSE", 0, false, 0, 0)
		paused = true
	case 1:
		req(owner, "TEARDOWN", 0, false, 0, 0)
	case 2: // torn down from another connection of the same address (UDP sessions are bound to the address)
		c2 := open(a, zone)
		req(c2, "TEARDOWN", 0, false, 0, 0)
	case 3: // paused, then the owner goes away: the session is collected
		req(owner, "PAUSE", 0, false, 0, 0)
		sc.Ops = append(sc.Ops, Op{K: "xclose", Conn: owner})
	default: // an erroneous request closes the owner's connection after a PAUSE
		req(owner, "PAUSE", 0, false, 0, 0)
		req(owner, "ANNOUNCE", 0, false, 0, 0)
	}
	// the same source keeps sending
	flow(2 + r.IntN(4))
	all()
	// optionally somebody else sets up afterwards (same address; same or different ports)
	if r.IntN(2) == 0 {
		c3 := open(a, zone)
		b2 := base
		if r.IntN(2) == 0 {
			b2 = base + 4
		}
		sid := 1
		if record {
			req(c3, "ANNOUNCE", -1, false, 0, 0)
			req(c3, "SETUP", sid, true, 0, b2)
			req(c3, "SETUP", sid, true, 1, b2+2)
			flow(2)
			req(c3, "RECORD", sid, false, 0, 0)
		} else {
			req(c3, "SETUP", -1, false, 0, b2)
			flow(2)
			req(c3, "PLAY", sid, false, 0, 0)
		}
		all()
		if r.IntN(2) == 0 {
			req(c3, "TEARDOWN", sid, false, 0, 0)
			all()
		}
	}
	if paused {
		// PLAY / RECORD again: delivery resumes
		if record {
			req(owner, "RECORD", 0, false, 0, 0)
		} else {
			req(owner, "PLAY", 0, false, 0, 0)
		}
		all()
		req(owner, "TEARDOWN", 0, false, 0, 0)
		all()
	}
	return sc
}

func runAfterEnd(c *corr.Ctx) {
	for _, ip := range []net.IP{net.IPv4(127, 0, 0, 1).To4(), mapped(net.IPv4(127, 0, 0, 1)), net.ParseIP("fe80::1")} {
		for _, zone := range []string{"", "eth0"} {
			for _, port := range []int{5000, 65535} {
				for mid := 0; mid < 4; mid++ {
					for _, via := range []bool{false, true} {
						c.Dist("afterend-srv")
						runScenario(c, afterEndSrv(ip, zone, port, mid, via))
					}
				}
			}
			for _, anyPort := range []bool{false, true} {
				c.Dist("afterend-cl")
				runScenario(c, afterEndCl(ip, zone, anyPort))
			}
		}
	}
	for i, n := 0, c.N(150, 6000); i < n; i++ {
		c.Dist("afterend-sess")
		runScenario(c, genAfterEndSess(c, i))
	}
}
