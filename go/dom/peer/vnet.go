package peer

import (
	"bufio"
	"errors"
	"net"
	"sync"

	"github.com/bluenviron/gortsplib/v5/pkg/base"
	"github.com/bluenviron/gortsplib/v5/pkg/conn"
)

// Virtual TCP network: the Server's Listen function returns a vListener; the harness creates
// connections whose RemoteAddr (as seen by the server) is ANY address it likes, including
// addresses and zones the sandbox has no route for.  The byte carrier is net.Pipe.

type vListener struct {
	addr   *net.TCPAddr
	ch     chan net.Conn
	once   sync.Once
	closed chan struct{}
}

func newVListener(addr *net.TCPAddr) *vListener {
	return &vListener{addr: addr, ch: make(chan net.Conn), closed: make(chan struct{})}
}

func (l *vListener) Accept() (net.Conn, error) {
	select {
	case c := <-l.ch:
		return c, nil
	case <-l.closed:
		return nil, net.ErrClosed
	}
}

func (l *vListener) Close() error {
	l.once.Do(func() { close(l.closed) })
	return nil
}

func (l *vListener) Addr() net.Addr { return l.addr }

type vConn struct {
	net.Conn
	local, remote net.Addr
}

func (c *vConn) LocalAddr() net.Addr  { return c.local }
func (c *vConn) RemoteAddr() net.Addr { return c.remote }

// dial creates a connection that the server sees as coming from `from`.
func (l *vListener) dial(from *net.TCPAddr) (net.Conn, error) {
	a, b := net.Pipe()
	srv := &vConn{Conn: a, local: l.addr, remote: from}
	cli := &vConn{Conn: b, local: from, remote: l.addr}
	select {
	case l.ch <- srv:
		return cli, nil
	case <-l.closed:
		a.Close()
		b.Close()
		return nil, errors.New("listener closed")
	}
}

// rawClient is a hand-driven RTSP connection (no gortsplib.Client involved): it sends the
// requests the harness builds and collects responses; interleaved frames are counted.
type rawClient struct {
	nc     net.Conn
	c      *conn.Conn
	resps  chan *base.Response // closed at EOF
	cseq   int
	mu     sync.Mutex
	frames map[int]int // channel -> frames received
}

func newRawClient(nc net.Conn) *rawClient {
	rc := &rawClient{nc: nc, c: conn.NewConn(bufio.NewReader(nc), nc), resps: make(chan *base.Response, 16), frames: map[int]int{}}
	go func() {
		defer close(rc.resps)
		for {
			what, err := rc.c.Read()
			if err != nil {
				return
			}
			switch w := what.(type) {
			case *base.Response:
				rc.resps <- w
			case *base.InterleavedFrame:
				rc.mu.Lock()
				rc.frames[w.Channel]++
				rc.mu.Unlock()
			}
		}
	}()
	return rc
}

// do sends a request and waits for the response; nil response = the server closed the connection.
func (rc *rawClient) do(req *base.Request) *base.Response {
	rc.cseq++
	if req.Header == nil {
		req.Header = base.Header{}
	}
	req.Header["CSeq"] = base.HeaderValue{itoa(rc.cseq)}
	if err := rc.c.WriteRequest(req); err != nil {
		// the server may already have answered and closed; drain
		for range rc.resps {
		}
		return nil
	}
	res, ok := <-rc.resps
	if !ok {
		return nil
	}
	return res
}

func (rc *rawClient) frameCount() int {
	rc.mu.Lock()
	defer rc.mu.Unlock()
	n := 0
	for _, v := range rc.frames {
		n += v
	}
	return n
}

func (rc *rawClient) close() { rc.nc.Close() }

func itoa(n int) string {
	if n == 0 {
		return "0"
	}
	neg := n < 0
	if neg {
		n = -n
	}
	var b []byte
	for n > 0 {
		b = append([]byte{byte('0' + n%10)}, b...)
		n /= 10
	}
	if neg {
		b = append([]byte{'-'}, b...)
	}
	return string(b)
}
