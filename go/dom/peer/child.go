package peer

import (
	"bufio"
	"bytes"
	"encoding/json"
	"fmt"
	"io"
	"math/rand/v2"
	"os"
	"os/exec"
	"runtime"
	"strings"
	"sync"
	"time"

	"verifharness/corr"
)

// Every scenario is executed in a child process of the same binary (`peer -peerchild`): the real
// library runs there, so a panic in one of its goroutines kills the child, not the run.  The parent
// generates the scenarios, feeds them to a small pool of children (one JSON line in, one JSON line
// out), merges what the children observed in generation order, and when a child dies re-runs the
// scenario that was in flight alone in a fresh child: a `peer-crash` violation carries that scenario.

// rctx is what a scenario runner sees (in the child): a recorder with the method names of corr.Ctx.
type rctx struct {
	Rng  *rand.Rand
	Seed uint64
	out  childOut
}

type countRec struct {
	Key        string `json:"key"`
	Nontrivial bool   `json:"nontrivial"`
}

type childOut struct {
	Cases  []corr.Case      `json:"cases,omitempty"`
	Dist   map[string]int   `json:"dist,omitempty"`
	Viol   []corr.Violation `json:"viol,omitempty"`
	Counts []countRec       `json:"counts,omitempty"`
	Notes  []string         `json:"notes,omitempty"`
}

func (c *rctx) Add(cs corr.Case) { c.out.Cases = append(c.out.Cases, cs) }
func (c *rctx) Dist(k string) {
	if c.out.Dist == nil {
		c.out.Dist = map[string]int{}
	}
	c.out.Dist[k]++
}
func (c *rctx) Violate(v corr.Violation) { c.out.Viol = append(c.out.Viol, v) }
func (c *rctx) CountOnly(key string, nontrivial bool) {
	c.out.Counts = append(c.out.Counts, countRec{key, nontrivial})
}
func (c *rctx) Note(s string) { c.out.Notes = append(c.out.Notes, s) }

type childIn struct {
	Idx  int       `json:"idx"`
	Seed uint64    `json:"seed"`
	Sc   *Scenario `json:"sc"`
}

// ChildMain is the body of `peer -peerchild`.
func ChildMain() {
	in := bufio.NewReaderSize(os.Stdin, 1<<20)
	out := bufio.NewWriter(os.Stdout)
	for {
		line, err := in.ReadBytes('\n')
		if len(line) > 0 {
			var ci childIn
			if jerr := json.Unmarshal(line, &ci); jerr != nil {
				fmt.Fprintln(os.Stderr, "peer child: bad input:", jerr)
				os.Exit(3)
			}
			c := &rctx{Seed: ci.Seed, Rng: rand.New(rand.NewPCG(ci.Seed, 0x5bd1e995^uint64(ci.Idx)))}
			execScenario(c, ci.Sc)
			b, _ := json.Marshal(&c.out)
			out.Write(b)
			out.WriteByte('\n')
			out.Flush()
		}
		if err != nil {
			return
		}
	}
}

type childProc struct {
	cmd    *exec.Cmd
	in     io.WriteCloser
	out    *bufio.Reader
	stderr *bytes.Buffer
}

func startChild() (*childProc, error) {
	exe, err := os.Executable()
	if err != nil {
		return nil, err
	}
	cmd := exec.Command(exe, "-peerchild")
	in, err := cmd.StdinPipe()
	if err != nil {
		return nil, err
	}
	op, err := cmd.StdoutPipe()
	if err != nil {
		return nil, err
	}
	p := &childProc{cmd: cmd, in: in, out: bufio.NewReaderSize(op, 1<<20), stderr: &bytes.Buffer{}}
	cmd.Stderr = p.stderr
	cmd.Env = append(os.Environ(), "GOTRACEBACK=all")
	if err := cmd.Start(); err != nil {
		return nil, err
	}
	return p, nil
}

func (p *childProc) kill() {
	p.in.Close()
	p.cmd.Process.Kill()
	p.cmd.Wait()
}

// run1 executes one scenario; died = the process crashed, hung or answered garbage.
func (p *childProc) run1(ci *childIn) (co *childOut, died bool, why string) {
	b, _ := json.Marshal(ci)
	if _, err := p.in.Write(append(b, '\n')); err != nil {
		p.cmd.Wait()
		return nil, true, "child gone: " + panicHead(p.stderr.String())
	}
	type res struct {
		line []byte
		err  error
	}
	ch := make(chan res, 1)
	go func() {
		l, err := p.out.ReadBytes('\n')
		ch <- res{l, err}
	}()
	select {
	case r := <-ch:
		if r.err != nil {
			p.cmd.Wait()
			return nil, true, panicHead(p.stderr.String())
		}
		co = &childOut{}
		if err := json.Unmarshal(r.line, co); err != nil {
			return nil, true, "bad answer: " + err.Error()
		}
		return co, false, ""
	case <-time.After(180 * time.Second):
		return nil, true, "the scenario did not finish within 180 s\n" + panicHead(p.stderr.String())
	}
}

// panicHead extracts the panic message and the first frames of a crash dump.
func panicHead(s string) string {
	if i := strings.Index(s, "panic:"); i >= 0 {
		s = s[i:]
	} else if i := strings.Index(s, "fatal error:"); i >= 0 {
		s = s[i:]
	}
	if len(s) > 3500 {
		s = s[:3500] + "\n…"
	}
	return s
}

// pool runs queued scenarios on child processes and merges the results in queue order.
type pool struct {
	c       *corr.Ctx
	pending []*Scenario
	nextIdx int
}

var thePool *pool

func (pl *pool) enqueue(sc *Scenario) {
	pl.pending = append(pl.pending, sc)
	if len(pl.pending) >= 1500 {
		pl.flush()
	}
}

func (pl *pool) flush() {
	n := len(pl.pending)
	if n == 0 {
		return
	}
	scs := pl.pending
	pl.pending = nil
	base := pl.nextIdx
	pl.nextIdx += n
	outs := make([]*childOut, n)
	crash := make([]string, n)
	par := runtime.NumCPU()
	if par > 4 {
		par = 4
	}
	if par > n {
		par = n
	}
	var mu sync.Mutex
	next := 0
	var wg sync.WaitGroup
	for w := 0; w < par; w++ {
		wg.Add(1)
		go func() {
			defer wg.Done()
			var p *childProc
			defer func() {
				if p != nil {
					p.kill()
				}
			}()
			for {
				mu.Lock()
				i := next
				next++
				mu.Unlock()
				if i >= n {
					return
				}
				ci := &childIn{Idx: base + i, Seed: pl.c.Seed, Sc: scs[i]}
				if p == nil {
					var err error
					if p, err = startChild(); err != nil {
						crash[i] = "cannot start a child process: " + err.Error()
						continue
					}
				}
				co, died, why := p.run1(ci)
				if !died {
					outs[i] = co
					continue
				}
				p.kill()
				p = nil
				// attribute: the same scenario alone in a fresh process
				detail := "the process running this scenario died:\n" + why
				if p2, err := startChild(); err == nil {
					co2, died2, why2 := p2.run1(ci)
					p2.kill()
					if died2 {
						detail = "the process running this scenario died (also when the scenario runs alone in a fresh process):\n" + why2
					} else {
						outs[i] = co2 // what it observed when it survived
						detail = "the process running this scenario died (it survived a second run alone in a fresh process):\n" + why
					}
				}
				crash[i] = detail
			}
		}()
	}
	wg.Wait()
	for i := 0; i < n; i++ {
		if crash[i] != "" {
			pl.c.Dist("peer-crash")
			pl.c.Violate(corr.Violation{Property: "C19", Clause: "datagrams and requests from anywhere never crash the process",
				Key: "peer-crash", Where: "gortsplib (root package)", Input: scs[i], Detail: crash[i]})
		}
		co := outs[i]
		if co == nil {
			continue
		}
		for k, v := range co.Dist {
			pl.c.DistN(k, v)
		}
		for _, s := range co.Notes {
			pl.c.Note(s)
		}
		for _, v := range co.Viol {
			pl.c.Violate(v)
		}
		for _, cr := range co.Counts {
			pl.c.CountOnly(cr.Key, cr.Nontrivial)
		}
		for _, cs := range co.Cases {
			pl.c.Add(cs)
		}
	}
}
