package peer

import (
	"fmt"
	"net"
	"sort"
	"strings"
	"sync"
	"sync/atomic"
	"time"

	"github.com/pion/rtcp"
	"github.com/pion/rtp"

	"github.com/bluenviron/gortsplib/v5"
	"github.com/bluenviron/gortsplib/v5/pkg/base"
	"github.com/bluenviron/gortsplib/v5/pkg/description"
	"github.com/bluenviron/gortsplib/v5/pkg/format"

	"verifharness/corr"
)

// Session-level scenarios: a REAL gortsplib.Server on a virtual network (vListener for RTSP,
// fakePC for the two UDP listeners).  Connections come from arbitrary addresses / zones, requests
// are hand-built (any Session header may be replayed from any connection), datagrams claim any
// source.  After every operation the harness waits until the server is quiescent and prints the
// observable state; the Lean model (Model/PeerSession.lean) must print the same.

const vHost = "10.9.0.1"

type connInfo struct {
	cid    int
	ip     net.IP
	zone   string
	rc     *rawClient
	sc     *gortsplib.ServerConn
	opened chan struct{}
	closed chan struct{}
	eof    bool // the client side saw the server close the connection
	dead   bool
}

type sessInfo struct {
	idx    int
	ss     *gortsplib.ServerSession
	id     string
	closed chan struct{}
	dead   bool
	author *gortsplib.ServerConn
	ports  map[int]int // media index -> first client port (successful UDP SETUPs)
	record bool
	rtpCb  int // OnPacketRTPAny invocations
	rtcpCb int // OnPacketRTCPAny invocations
	err    error
}

type world struct {
	c   *rctx
	sc  *Scenario
	udp bool

	srv    *gortsplib.Server
	vl     *vListener
	rtpPC  *fakePC
	rtcpPC *fakePC
	stream *gortsplib.ServerStream
	desc   *description.Session

	mu       sync.Mutex
	conns    map[int]*connInfo
	sessions []*sessInfo
	clock    int64
	fake     atomic.Int64 // the server's clock: jumps by 10 s per operation, so that a datagram that is
	// wrongly accepted shows in udpLastPacketTime
}

func playDesc() *description.Session {
	return &description.Session{Medias: []*description.Media{
		{Type: description.MediaTypeVideo, Formats: []format.Format{&format.H264{PayloadTyp: 96, PacketizationMode: 1}}},
		{Type: description.MediaTypeAudio, Formats: []format.Format{&format.G711{PayloadTyp: 8, MULaw: false, SampleRate: 8000, ChannelCount: 1}}},
	}}
}

const announceSDP = "v=0\r\no=- 0 0 IN IP4 127.0.0.1\r\ns=Stream\r\nc=IN IP4 0.0.0.0\r\nt=0 0\r\n" +
	"m=video 0 RTP/AVP 96\r\na=control:trackID=0\r\na=rtpmap:96 H264/90000\r\na=fmtp:96 packetization-mode=1\r\n" +
	"m=audio 0 RTP/AVP 8\r\na=control:trackID=1\r\na=rtpmap:8 PCMA/8000\r\n"

// ---- server handler ----------------------------------------------------------------------------

func (w *world) OnConnOpen(ctx *gortsplib.ServerHandlerOnConnOpenCtx) {
	port := ctx.Conn.NetConn().RemoteAddr().(*net.TCPAddr).Port
	w.mu.Lock()
	ci := w.conns[port-40000]
	w.mu.Unlock()
	if ci != nil {
		ci.sc = ctx.Conn
		close(ci.opened)
	}
}

func (w *world) OnConnClose(ctx *gortsplib.ServerHandlerOnConnCloseCtx) {
	port := ctx.Conn.NetConn().RemoteAddr().(*net.TCPAddr).Port
	w.mu.Lock()
	ci := w.conns[port-40000]
	w.mu.Unlock()
	if ci != nil {
		close(ci.closed)
	}
}

func (w *world) OnSessionOpen(ctx *gortsplib.ServerHandlerOnSessionOpenCtx) {
	w.mu.Lock()
	defer w.mu.Unlock()
	si := &sessInfo{idx: len(w.sessions), ss: ctx.Session, id: gortsplib.VerifPeerSessionID(ctx.Session),
		closed: make(chan struct{}), author: ctx.Conn, ports: map[int]int{}}
	w.sessions = append(w.sessions, si)
}

func (w *world) sessOf(ss *gortsplib.ServerSession) *sessInfo {
	w.mu.Lock()
	defer w.mu.Unlock()
	for _, si := range w.sessions {
		if si.ss == ss {
			return si
		}
	}
	return nil
}

func (w *world) OnSessionClose(ctx *gortsplib.ServerHandlerOnSessionCloseCtx) {
	if si := w.sessOf(ctx.Session); si != nil {
		si.err = ctx.Error
		close(si.closed)
	}
}

func (w *world) OnDescribe(*gortsplib.ServerHandlerOnDescribeCtx) (*base.Response, *gortsplib.ServerStream, error) {
	return &base.Response{StatusCode: base.StatusOK}, w.stream, nil
}

func (w *world) OnAnnounce(*gortsplib.ServerHandlerOnAnnounceCtx) (*base.Response, error) {
	return &base.Response{StatusCode: base.StatusOK}, nil
}

func (w *world) OnSetup(ctx *gortsplib.ServerHandlerOnSetupCtx) (*base.Response, *gortsplib.ServerStream, error) {
	if ctx.Session.State() == gortsplib.ServerSessionStatePreRecord {
		return &base.Response{StatusCode: base.StatusOK}, nil, nil
	}
	return &base.Response{StatusCode: base.StatusOK}, w.stream, nil
}

func (w *world) OnPlay(ctx *gortsplib.ServerHandlerOnPlayCtx) (*base.Response, error) {
	if si := w.sessOf(ctx.Session); si != nil {
		ctx.Session.OnPacketRTCPAny(func(*description.Media, rtcp.Packet) { si.rtcpCb++ })
	}
	return &base.Response{StatusCode: base.StatusOK}, nil
}

func (w *world) OnRecord(ctx *gortsplib.ServerHandlerOnRecordCtx) (*base.Response, error) {
	if si := w.sessOf(ctx.Session); si != nil {
		ctx.Session.OnPacketRTPAny(func(*description.Media, format.Format, *rtp.Packet) { si.rtpCb++ })
		ctx.Session.OnPacketRTCPAny(func(*description.Media, rtcp.Packet) { si.rtcpCb++ })
	}
	return &base.Response{StatusCode: base.StatusOK}, nil
}

func (w *world) OnPause(*gortsplib.ServerHandlerOnPauseCtx) (*base.Response, error) {
	return &base.Response{StatusCode: base.StatusOK}, nil
}

func (w *world) OnGetParameter(*gortsplib.ServerHandlerOnGetParameterCtx) (*base.Response, error) {
	return &base.Response{StatusCode: base.StatusOK}, nil
}

func (w *world) OnSetParameter(*gortsplib.ServerHandlerOnSetParameterCtx) (*base.Response, error) {
	return &base.Response{StatusCode: base.StatusOK}, nil
}

func (w *world) OnDecodeError(*gortsplib.ServerHandlerOnDecodeErrorCtx)           {}
func (w *world) OnPacketsLost(*gortsplib.ServerHandlerOnPacketsLostCtx)           {}
func (w *world) OnStreamWriteError(*gortsplib.ServerHandlerOnStreamWriteErrorCtx) {}

// ---- world ------------------------------------------------------------------------------------------

func newWorld(c *rctx, sc *Scenario, udp bool) *world {
	w := &world{c: c, sc: sc, udp: udp, conns: map[int]*connInfo{}, clock: 1000}
	w.vl = newVListener(&net.TCPAddr{IP: net.ParseIP(vHost).To4(), Port: 8554})
	w.rtpPC = newFakePC(&net.UDPAddr{IP: net.ParseIP(vHost).To4(), Port: 8000})
	w.rtcpPC = newFakePC(&net.UDPAddr{IP: net.ParseIP(vHost).To4(), Port: 8001})
	w.srv = &gortsplib.Server{
		Handler:     w,
		RTSPAddress: vHost + ":8554",
		Listen:      func(string, string) (net.Listener, error) { return w.vl, nil },
		ListenPacket: func(_, address string) (net.PacketConn, error) {
			if strings.HasSuffix(address, ":8000") {
				return w.rtpPC, nil
			}
			return w.rtcpPC, nil
		},
		DisableRTCPSenderReports: true,
	}
	w.fake.Store(1_700_000_000)
	gortsplib.VerifPeerServerSetClock(w.srv, func() time.Time { return time.Unix(w.fake.Load(), 0) }, time.Hour)
	if udp {
		w.srv.UDPRTPAddress = vHost + ":8000"
		w.srv.UDPRTCPAddress = vHost + ":8001"
	}
	if err := w.srv.Start(); err != nil {
		panic(err)
	}
	w.desc = playDesc()
	w.stream = &gortsplib.ServerStream{Server: w.srv, Desc: w.desc}
	if err := w.stream.Initialize(); err != nil {
		panic(err)
	}
	return w
}

func (w *world) close() {
	w.mu.Lock()
	cs := make([]*connInfo, 0, len(w.conns))
	for _, ci := range w.conns {
		cs = append(cs, ci)
	}
	w.mu.Unlock()
	for _, ci := range cs {
		ci.rc.close()
	}
	w.stream.Close()
	w.srv.Close()
}

func (w *world) liveSessions() []*sessInfo {
	w.mu.Lock()
	defer w.mu.Unlock()
	var out []*sessInfo
	for _, si := range w.sessions {
		if !si.dead {
			out = append(out, si)
		}
	}
	return out
}

func (w *world) liveConns() []*connInfo {
	w.mu.Lock()
	defer w.mu.Unlock()
	var out []*connInfo
	for _, ci := range w.conns {
		if !ci.dead {
			out = append(out, ci)
		}
	}
	sort.Slice(out, func(i, j int) bool { return out[i].order() < out[j].order() })
	return out
}

var connSeq int

func (ci *connInfo) order() int { return ci.cid }

// settle waits until the server has digested everything the last operation caused.
func (w *world) settle() {
	for _, ci := range w.liveConns() {
		if ci.eof {
			<-ci.closed
			ci.dead = true
		}
	}
	for _, si := range w.liveSessions() {
		gortsplib.VerifPeerSessionSync(si.ss)
		if gortsplib.VerifPeerSessionClosing(si.ss) {
			<-si.closed
			si.dead = true
		}
	}
	for _, ci := range w.liveConns() {
		select {
		case <-ci.closed:
			ci.dead = true
		default:
		}
	}
}

func stateName(s gortsplib.ServerSessionState) string {
	switch s {
	case gortsplib.ServerSessionStateInitial:
		return "initial"
	case gortsplib.ServerSessionStatePrePlay:
		return "prePlay"
	case gortsplib.ServerSessionStatePlay:
		return "play"
	case gortsplib.ServerSessionStatePreRecord:
		return "preRecord"
	case gortsplib.ServerSessionStateRecord:
		return "record"
	}
	return "?"
}

func protoName(t *gortsplib.SessionTransport) string {
	if t == nil {
		return "-"
	}
	switch t.Protocol {
	case gortsplib.ProtocolUDP:
		return "udp"
	case gortsplib.ProtocolTCP:
		return "tcp"
	}
	return "?"
}

// connOrder: the model keeps connections in opening order
func (w *world) dump(order []int) string {
	var cs, ss []string
	for _, cid := range order {
		w.mu.Lock()
		ci := w.conns[cid]
		w.mu.Unlock()
		if ci == nil || ci.dead {
			continue
		}
		sid := "-"
		if s := ci.sc.Session(); s != nil {
			if si := w.sessOf(s); si != nil {
				sid = fmt.Sprint(si.idx)
			}
		}
		cs = append(cs, fmt.Sprintf("%d@%s", cid, sid))
	}
	for _, si := range w.liveSessions() {
		ss = append(ss, fmt.Sprintf("%d:%s:%s:%d", si.idx, stateName(si.ss.State()), protoName(si.ss.Transport()), len(si.ss.Medias())))
	}
	j := func(x []string) string {
		if len(x) == 0 {
			return "-"
		}
		return strings.Join(x, ",")
	}
	return "conns " + j(cs) + " sess " + j(ss)
}

// victimView is everything the harness can observe about a session (property oracle).
func (w *world) victimView(si *sessInfo) string {
	if si.dead {
		return "closed"
	}
	pinned := "-"
	if p := gortsplib.VerifPeerSessionPinned(si.ss); p != nil {
		pinned = fmt.Sprint(p.NetConn().RemoteAddr().(*net.TCPAddr).Port - 40000)
	}
	st := si.ss.Stats()
	return fmt.Sprintf("state=%s proto=%s medias=%d pinned=%s in=%d rtcpIn=%d rtpCb=%d rtcpCb=%d lastPkt=%d",
		stateName(si.ss.State()), protoName(si.ss.Transport()), len(si.ss.Medias()), pinned,
		st.InboundBytes, st.InboundRTCPPackets, si.rtpCb, si.rtcpCb, gortsplib.VerifPeerSessionUDPLastPacketTime(si.ss))
}

func (w *world) allSessions() []*sessInfo {
	w.mu.Lock()
	defer w.mu.Unlock()
	return append([]*sessInfo(nil), w.sessions...)
}

// endedView: what can still be observed of a session after its end (statistics, callbacks,
// last-packet time): traffic that arrives afterwards must not move any of it.
func (w *world) endedView(si *sessInfo) string {
	st := si.ss.Stats()
	return fmt.Sprintf("ended in=%d rtpIn=%d rtcpIn=%d rtpErr=%d rtcpErr=%d rtpCb=%d rtcpCb=%d lastPkt=%d",
		st.InboundBytes, st.InboundRTPPackets, st.InboundRTCPPackets, st.InboundRTPPacketsInError, st.InboundRTCPPacketsInError,
		si.rtpCb, si.rtcpCb, gortsplib.VerifPeerSessionUDPLastPacketTime(si.ss))
}

// mediaBytes: inbound bytes per (session, media) of every session that ever existed
func (w *world) mediaBytes() map[[2]int]uint64 {
	out := map[[2]int]uint64{}
	for _, si := range w.allSessions() {
		st := si.ss.Stats()
		var medias []*description.Media
		if ad := si.ss.AnnouncedDescription(); ad != nil {
			medias = ad.Medias
		} else {
			medias = w.desc.Medias
		}
		for i, m := range medias {
			if ms, ok := st.Medias[m]; ok {
				out[[2]int{si.idx, i}] = ms.InboundBytes
			}
		}
	}
	return out
}

var rtcpRR = func() []byte {
	b, _ := (&rtcp.ReceiverReport{SSRC: 0x01020304}).Marshal()
	return b
}()

func rtpPacket(pt uint8, seq uint16) []byte {
	b, _ := (&rtp.Packet{Header: rtp.Header{Version: 2, PayloadType: pt, SequenceNumber: seq, Timestamp: 1000, SSRC: 0x0a0b0c0d},
		Payload: []byte{5, 1, 2, 3}}).Marshal()
	return b
}

func runSess(c *rctx, sc *Scenario) {
	udp := sc.Cfg != "noudp"
	w := newWorld(c, sc, udp)
	defer w.close()

	cs := corr.Case{Name: sc.Name, Nontrivial: len(sc.Ops) > 2}
	cs.Ops = append(cs.Ops, "peer xinit "+corr.B(udp))
	cs.Impl = append(cs.Impl, "ok")
	var order []int
	seq := uint16(0)
	nextCid := 0

	for i, op := range sc.Ops {
		w.clock++
		w.fake.Add(10)
		switch op.K {
		case "xconn":
			ip := unhexIP(op.IP)
			dup := op.Conn < nextCid // connection ids are never reused
			if !dup {
				nextCid = op.Conn + 1
				ci := &connInfo{cid: op.Conn, ip: ip, zone: op.Zone, opened: make(chan struct{}), closed: make(chan struct{})}
				w.mu.Lock()
				w.conns[op.Conn] = ci
				w.mu.Unlock()
				nc, err := w.vl.dial(&net.TCPAddr{IP: ip, Port: 40000 + op.Conn, Zone: op.Zone})
				if err != nil {
					panic(err)
				}
				ci.rc = newRawClient(nc)
				<-ci.opened
				order = append(order, op.Conn)
			}
			w.settle()
			z := op.Zone
			if z == "" {
				z = "-"
			}
			cs.Ops = append(cs.Ops, fmt.Sprintf("peer xconn %d %s %s", op.Conn, op.IP, z))
			cs.Impl = append(cs.Impl, w.dump(order))

		case "xreq":
			w.mu.Lock()
			ci := w.conns[op.Conn]
			w.mu.Unlock()
			sidArg := "-"
			var target *sessInfo
			hdr := base.Header{}
			switch {
			case op.Sess >= 0 && op.Sess < len(w.sessions):
				target = w.sessions[op.Sess]
				hdr["Session"] = base.HeaderValue{target.id}
				sidArg = fmt.Sprint(op.Sess)
			case op.Sess == -2 || op.Sess >= len(w.sessions):
				hdr["Session"] = base.HeaderValue{"00000000000000000000000000000bad"}
				sidArg = "999999"
			}
			proto := op.Proto
			if proto == "" {
				proto = "udp"
			}
			rec := op.Any // mode=record
			line := fmt.Sprintf("peer xreq %d %s %s %s %s %d %d %d", op.Conn, op.Method, sidArg, proto, corr.B(rec), op.Media, op.Port, w.clock)
			if ci == nil || ci.dead {
				cs.Ops = append(cs.Ops, line)
				cs.Impl = append(cs.Impl, "0 "+w.dump(order))
				continue
			}
			u := "rtsp://" + vHost + ":8554/stream"
			req := &base.Request{Method: base.Method(op.Method), Header: hdr}
			switch op.Method {
			case "SETUP":
				u += fmt.Sprintf("/trackID=%d", op.Media)
				th := ""
				if proto == "tcp" {
					th = "RTP/AVP/TCP;unicast"
				} else {
					th = fmt.Sprintf("RTP/AVP;unicast;client_port=%d-%d", op.Port, op.Port+1)
				}
				if rec {
					th += ";mode=record"
				}
				hdr["Transport"] = base.HeaderValue{th}
			case "ANNOUNCE":
				hdr["Content-Type"] = base.HeaderValue{"application/sdp"}
				req.Body = []byte(announceSDP)
			}
			req.URL, _ = base.ParseURL(u)

			// ---- property oracle: snapshot of the victim ----
			var before string
			intruderKind := ""
			if target != nil && !target.dead {
				before = w.victimView(target)
				authorIP := target.author.NetConn().RemoteAddr().(*net.TCPAddr)
				pinned := gortsplib.VerifPeerSessionPinned(target.ss)
				switch {
				case !authorIP.IP.Equal(ci.ip) || authorIP.Zone != ci.zone:
					intruderKind = "other-ip"
				case pinned != nil && pinned != ci.sc:
					// the pin protects a connection that is still there; a session whose pinned
					// connection has gone is only waiting to be collected
					alive := false
					for _, o := range w.liveConns() {
						if o.sc == pinned && !o.eof {
							alive = true
						}
					}
					if alive {
						intruderKind = "other-conn"
					} else {
						c.Dist("pinned-conn-gone")
					}
				}
			}
			bytesBefore := w.mediaBytes()

			res := ci.rc.do(req)
			status := 0
			if res != nil {
				status = int(res.StatusCode)
				// is the connection still there?
				ping, _ := base.ParseURL("rtsp://" + vHost + ":8554/stream")
				if ci.rc.do(&base.Request{Method: base.Options, URL: ping}) == nil {
					ci.eof = true
				}
			} else {
				ci.eof = true
			}
			w.settle()
			if op.Method == "SETUP" && status == 200 && proto == "udp" {
				if s := ci.sc.Session(); s != nil {
					if si := w.sessOf(s); si != nil {
						si.ports[op.Media] = op.Port
						si.record = rec
					}
				}
			}
			cs.Ops = append(cs.Ops, line)
			cs.Impl = append(cs.Impl, fmt.Sprintf("%d %s", status, w.dump(order)))
			c.Dist(fmt.Sprintf("status=%d", status))

			if intruderKind != "" {
				c.Dist("intruder=" + intruderKind + "/" + op.Method + "/" + strings.SplitN(strings.SplitN(before, " ", 2)[0], "=", 2)[1])
				clause := "a session can be driven only from the IP address that created it"
				if intruderKind == "other-conn" {
					clause = "while it streams over an interleaved connection, only from that connection"
				}
				if status < 400 {
					viol(c, sc, clause+"; attempts from elsewhere receive an error",
						"sess-"+intruderKind+"-accepted", fmt.Sprintf("op %d: %s with the id of session %d from connection %d (%s) answered %d", i, op.Method, target.idx, op.Conn, ci.ip, status))
				}
				if after := w.victimView(target); after != before {
					viol(c, sc, clause+"; attempts from elsewhere leave the session untouched",
						"sess-"+intruderKind+"-touched", fmt.Sprintf("op %d: %s with the id of session %d from connection %d: session %q -> %q", i, op.Method, target.idx, op.Conn, before, after))
				}
				if !ci.eof {
					c.Dist("intruder-conn-kept-open")
				}
				// nobody else's media counters may move either
				for k, v := range w.mediaBytes() {
					if bytesBefore[k] != v {
						viol(c, sc, clause, "sess-"+intruderKind+"-stats", fmt.Sprintf("op %d: inbound bytes of session %d media %d changed", i, k[0], k[1]))
					}
				}
			}

		case "xclose":
			w.mu.Lock()
			ci := w.conns[op.Conn]
			w.mu.Unlock()
			if ci != nil && !ci.dead {
				ci.rc.close()
				ci.eof = true
			}
			w.settle()
			cs.Ops = append(cs.Ops, fmt.Sprintf("peer xclose %d", op.Conn))
			cs.Impl = append(cs.Impl, w.dump(order))

		case "xdgram":
			ip := unhexIP(op.IP)
			before := w.mediaBytes()
			views := map[int]string{}
			for _, si := range w.allSessions() {
				if si.dead {
					views[si.idx] = w.endedView(si)
				} else {
					views[si.idx] = w.victimView(si)
				}
			}
			seq++
			pc, payload := w.rtcpPC, rtcpRR
			if op.Chan == "rtp" {
				pc = w.rtpPC
				pt := uint8(96)
				if op.Media == 1 {
					pt = 8
				}
				payload = rtpPacket(pt, seq)
			}
			out := "drop"
			if udp {
				pc.Deliver(&net.UDPAddr{IP: ip, Port: op.Port, Zone: op.Zone}, payload)
				after := w.mediaBytes()
				var hit [][2]int
				for k, v := range after {
					if before[k] != v {
						hit = append(hit, k)
					}
				}
				if len(hit) > 1 {
					viol(c, sc, "UDP datagrams are delivered to a session only if they come from the negotiated source",
						"dgram-multi", fmt.Sprintf("op %d: one datagram changed the counters of %v", i, hit))
				}
				if len(hit) >= 1 {
					out = fmt.Sprintf("to %d %d", hit[0][0], hit[0][1])
					c.Dist("xdgram-delivered")
					// ---- property oracle: the receiver negotiated this source ----
					si := w.sessions[hit[0][0]]
					a := si.author.NetConn().RemoteAddr().(*net.TCPAddr)
					port, okp := si.ports[hit[0][1]]
					if op.Chan != "rtp" {
						port++
					}
					st := si.ss.State()
					if si.dead {
						viol(c, sc, "datagrams that arrive after the end of a session do not reach it (callbacks, statistics, timeouts)",
							"dgram-after-end-delivered", fmt.Sprintf("op %d: %s datagram from %s:%d reached session %d media %d, which had already ended (%v)",
								i, op.Chan, ip, op.Port, si.idx, hit[0][1], si.err))
					}
					if a.IP.Equal(ip) && okp && port == op.Port && a.Zone != op.Zone {
						viol(c, sc, "UDP datagrams are delivered to a session only if they come from the IP address negotiated for that session (a scoped IPv6 address includes its zone)",
							"dgram-foreign-zone-delivered", fmt.Sprintf("op %d: %s datagram from %s%%%s:%d reached session %d whose author is %s%%%s",
								i, op.Chan, ip, op.Zone, op.Port, si.idx, a.IP, a.Zone))
					}
					if !a.IP.Equal(ip) || !okp || port != op.Port ||
						(st != gortsplib.ServerSessionStatePlay && st != gortsplib.ServerSessionStateRecord) {
						viol(c, sc, "UDP datagrams are delivered to a session only if they come from the IP address and port negotiated for that session",
							"dgram-foreign-delivered", fmt.Sprintf("op %d: %s datagram from %s:%d reached session %d media %d (author %s, ports %v, state %s)",
								i, op.Chan, ip, op.Port, si.idx, hit[0][1], a.IP, si.ports, stateName(st)))
					}
				} else {
					c.Dist("xdgram-dropped")
				}
				// every session that did not receive it is untouched (callbacks, stats, last-packet time)
				for _, si := range w.allSessions() {
					if len(hit) >= 1 && hit[0][0] == si.idx {
						continue
					}
					v := ""
					if si.dead {
						v = w.endedView(si)
					} else {
						v = w.victimView(si)
					}
					if v != views[si.idx] {
						viol(c, sc, "datagrams from any other source are ignored and do not affect its callbacks, statistics or timeouts",
							"dgram-side-effect", fmt.Sprintf("op %d: %s datagram from %s:%d changed session %d: %q -> %q", i, op.Chan, ip, op.Port, si.idx, views[si.idx], v))
					}
				}
			}
			z := op.Zone
			if z == "" {
				z = "-"
			}
			cs.Ops = append(cs.Ops, fmt.Sprintf("peer xdgram %s %s %d %s", op.Chan, op.IP, op.Port, z))
			cs.Impl = append(cs.Impl, out)

		default:
			panic("sess: unknown op " + op.K)
		}
	}
	c.Add(cs)
	_ = time.Now
}
