package peer

import (
	"encoding/json"
	"fmt"
	"net"
	"os"
	"path/filepath"
	"sort"
	"strings"

	"verifharness/corr"
)

// Domain peer: UDP demultiplexing and session ownership of the root package against
// Model/UdpDemux.lean + Model/PeerSession.lean, and the C19 property oracle.

func corpusDir(prop string) string {
	if d := os.Getenv("VERIF_ROOT"); d != "" {
		return filepath.Join(d, "corpus", prop)
	}
	if exe, err := os.Executable(); err == nil {
		d := filepath.Join(filepath.Dir(exe), "..", "..", "corpus", prop)
		if st, err2 := os.Stat(d); err2 == nil && st.IsDir() {
			return d
		}
	}
	return "/verif/corpus/" + prop
}

// runScenario queues a scenario for execution in a child process (see child.go).
func runScenario(c *corr.Ctx, sc *Scenario) {
	if thePool == nil || thePool.c != c {
		thePool = &pool{c: c}
	}
	thePool.enqueue(sc)
}

// execScenario runs one scenario against the real library (in the child).
func execScenario(c *rctx, sc *Scenario) {
	c.Dist("kind=" + sc.Kind)
	switch sc.Kind {
	case "unit":
		runUnit(c, sc)
	case "srv":
		runSrv(c, sc)
	case "cl":
		runCl(c, sc)
	default:
		if !runScenarioExt(c, sc) {
			c.Note("scenario kind not understood: " + sc.Kind)
		}
	}
}

// ---- address pools ------------------------------------------------------------------------------

var v4Pool = []net.IP{
	net.IPv4(127, 0, 0, 1).To4(), net.IPv4(127, 0, 0, 2).To4(), net.IPv4(10, 0, 0, 5).To4(),
	net.IPv4(192, 168, 1, 1).To4(), net.IPv4(0, 0, 0, 0).To4(), net.IPv4(255, 255, 255, 255).To4(),
	net.IPv4(0, 0, 255, 255).To4(),
}

func mapped(ip net.IP) net.IP {
	return append(net.IP{0, 0, 0, 0, 0, 0, 0, 0, 0, 0, 0xff, 0xff}, ip.To4()...)
}

func nearMapped(ip net.IP, which int) net.IP {
	m := mapped(ip)
	switch which % 4 {
	case 0:
		m[10] = 0xfe
	case 1:
		m[11] = 0
	case 2:
		m[0] = 1
	default:
		m[9] = 0xff
	}
	return m
}

var v6Pool = []net.IP{
	net.ParseIP("::1"), net.ParseIP("::"), net.ParseIP("fe80::1"), net.ParseIP("2001:db8::1"),
	net.ParseIP("::7f00:1"), // IPv4-compatible (not mapped) form of 127.0.0.1
	net.ParseIP("64:ff9b::7f00:1"),
}

// genIP draws an address; related forms of a few base addresses are frequent so that
// collisions and near-collisions occur.
func genIP(c *corr.Ctx, odd bool) net.IP {
	r := c.Rng
	switch k := r.IntN(20); {
	case k < 6:
		return v4Pool[r.IntN(len(v4Pool))]
	case k < 11:
		return mapped(v4Pool[r.IntN(len(v4Pool))])
	case k < 13:
		return nearMapped(v4Pool[r.IntN(len(v4Pool))], r.IntN(4))
	case k < 16:
		return v6Pool[r.IntN(len(v6Pool))]
	case k < 17:
		b := make(net.IP, 4)
		for i := range b {
			b[i] = byte(r.IntN(256))
		}
		return b
	case k < 18:
		b := make(net.IP, 16)
		for i := range b {
			b[i] = byte(r.IntN(256))
		}
		return b
	default:
		if !odd {
			return v4Pool[r.IntN(2)]
		}
		lens := []int{0, 1, 3, 5, 12, 15, 17, 20, 32}
		b := make(net.IP, lens[r.IntN(len(lens))])
		for i := range b {
			if r.IntN(3) > 0 {
				b[i] = byte(r.IntN(256))
			}
		}
		if len(b) == 0 {
			return nil
		}
		return b
	}
}

var zonePool = []string{"", "", "", "eth0", "eth1", "1"}

func genZone(c *corr.Ctx) string { return zonePool[c.Rng.IntN(len(zonePool))] }

var portPool = []int{0, 1, 5000, 5001, 5002, 65535, 34000}

func genPort(c *corr.Ctx) int {
	if c.Rng.IntN(8) == 0 {
		return c.Rng.IntN(65536)
	}
	return portPool[c.Rng.IntN(len(portPool))]
}

// ---- generators ------------------------------------------------------------------------------------

func genUnit(c *corr.Ctx, i int) *Scenario {
	sc := &Scenario{Kind: "unit", Name: fmt.Sprintf("unit-%d", i)}
	n := 1 + c.Rng.IntN(6)
	for j := 0; j < n; j++ {
		a, b := genIP(c, true), genIP(c, true)
		if c.Rng.IntN(3) == 0 && len(a) == 4 {
			b = mapped(a)
		}
		if c.Rng.IntN(5) == 0 {
			a, b = b, a
		}
		port := genPort(c)
		if c.Rng.IntN(10) == 0 {
			port = -c.Rng.IntN(70000)
		}
		if c.Rng.IntN(20) == 0 {
			port = 1 << (16 + c.Rng.IntN(40))
		}
		z := genZone(c)
		sc.Ops = append(sc.Ops, Op{K: "fill", IP: hexIP(a), Zone: z, Port: port})
		sc.Ops = append(sc.Ops, Op{K: "eq", IP: hexIP(a), IP2: hexIP(b), Zone: z, Port: port})
	}
	return sc
}

// a small set of addresses per scenario, so that add / remove / datagram hit the same keys
func genAddrSet(c *corr.Ctx, odd bool) ([]net.IP, []int) {
	var ips []net.IP
	base := v4Pool[c.Rng.IntN(len(v4Pool))]
	ips = append(ips, base, mapped(base), nearMapped(base, c.Rng.IntN(4)))
	for k := c.Rng.IntN(4); k > 0; k-- {
		ips = append(ips, genIP(c, odd))
	}
	ports := []int{5000, 5001}
	for k := c.Rng.IntN(3); k > 0; k-- {
		ports = append(ports, genPort(c))
	}
	return ips, ports
}

func genSrv(c *corr.Ctx, i int, odd bool) *Scenario {
	sc := &Scenario{Kind: "srv", Name: fmt.Sprintf("srv-%d", i)}
	ips, ports := genAddrSet(c, odd)
	n := 3 + c.Rng.IntN(30)
	now := int64(1000)
	zones := []string{"", ""}
	if c.Rng.IntN(3) == 0 {
		zones = []string{"", "eth0", "eth1"}
	}
	for j := 0; j < n; j++ {
		ip := ips[c.Rng.IntN(len(ips))]
		port := ports[c.Rng.IntN(len(ports))]
		z := zones[c.Rng.IntN(len(zones))]
		now += int64(c.Rng.IntN(3))
		switch k := c.Rng.IntN(10); {
		case k < 3:
			sc.Ops = append(sc.Ops, Op{K: "sadd", IP: hexIP(ip), Zone: z, Port: port, Cb: c.Rng.IntN(6)})
		case k < 4:
			sc.Ops = append(sc.Ops, Op{K: "srem", IP: hexIP(ip), Zone: z, Port: port})
		case k < 9:
			sc.Ops = append(sc.Ops, Op{K: "spkt", IP: hexIP(ip), Zone: z, Port: port, Len: c.Rng.IntN(1473), Now: now})
		default:
			sc.Ops = append(sc.Ops, Op{K: "sstat", Cb: c.Rng.IntN(6)})
		}
	}
	return sc
}

func genCl(c *corr.Ctx, i int, odd bool) *Scenario {
	sc := &Scenario{Kind: "cl", Name: fmt.Sprintf("cl-%d", i)}
	ips, ports := genAddrSet(c, odd)
	readPort := ports[c.Rng.IntN(len(ports))]
	anyPort := c.Rng.IntN(2) == 0
	if anyPort && c.Rng.IntN(4) > 0 {
		readPort = 0
	}
	zones := []string{"", ""}
	if c.Rng.IntN(3) == 0 {
		zones = []string{"", "eth0", "eth0", "eth1"}
	}
	proto := ""
	if c.Rng.IntN(6) == 0 {
		proto = "multicast"
	}
	sc.Ops = append(sc.Ops, Op{K: "cinit", Any: anyPort, Proto: proto, IP: hexIP(ips[c.Rng.IntN(2)]), Zone: zones[c.Rng.IntN(len(zones))], Port: readPort})
	n := 2 + c.Rng.IntN(20)
	now := int64(1000)
	for j := 0; j < n; j++ {
		ip := ips[c.Rng.IntN(len(ips))]
		if c.Rng.IntN(2) == 0 {
			ip = ips[c.Rng.IntN(2)]
		}
		port := ports[c.Rng.IntN(len(ports))]
		now += int64(1 + c.Rng.IntN(3))
		if i%3 == 0 && c.Rng.IntN(8) == 0 { // PAUSE / PLAY around the traffic
			if c.Rng.IntN(2) == 0 {
				sc.Ops = append(sc.Ops, Op{K: "cstop"})
			} else {
				sc.Ops = append(sc.Ops, Op{K: "cstart", Now: now})
			}
		}
		sc.Ops = append(sc.Ops, Op{K: "cpkt", IP: hexIP(ip), Zone: zones[c.Rng.IntN(len(zones))], Port: port, Len: c.Rng.IntN(1473), Now: now})
	}
	return sc
}

// ---- Run -------------------------------------------------------------------------------------------

func Run(c *corr.Ctx) {
	c.Rule("unit: clientAddr.fill / net.IP.Equal on address pairs (4-byte, 16-byte, v4-mapped, near-mapped, odd lengths, zones); " +
		"srv / cl: add-remove-datagram histories over a small address set run through the real serverUDPListener / clientUDPListener read loops on an injected packet conn; " +
		"sess: a real Server on an injected listener + packet conns: victims brought to every session state over UDP / TCP, then stolen-id requests from other connections / addresses / zones, owner requests, datagrams from negotiated and foreign sources, connection closures (state of all sessions and connections compared with the model after every operation); " +
		"kernel (property oracle only): real Server + real Client on loopback, valid RTP/RTCP from another port, 127.0.0.2, 127.1.2.3, ::1 and a dual-stack socket against counters, callbacks and fake-clock timeouts, stolen ids over real TCP from 127.0.0.1 / 127.0.0.2 / 127.9.9.9; " +
		"a case is non-trivial when it has more than two operations; distinct = distinct op-line sequences")
	if c.Replay != nil {
		var sc Scenario
		if err := json.Unmarshal(c.Replay, &sc); err != nil {
			panic(err)
		}
		sc.Name = "replay"
		runScenario(c, &sc)
		thePool.flush()
		return
	}
	// corpus first
	files, _ := filepath.Glob(filepath.Join(corpusDir("C19"), "*.json"))
	sort.Strings(files)
	for _, f := range files {
		b, err := os.ReadFile(f)
		if err != nil {
			continue
		}
		var sc Scenario
		if err := json.Unmarshal(b, &sc); err != nil || sc.Kind == "" {
			c.Note("corpus file not understood: " + f)
			continue
		}
		sc.Name = "corpus-" + strings.TrimSuffix(filepath.Base(f), ".json")
		c.Dist("corpus-cases")
		runScenario(c, &sc)
	}
	sweepUnit(c)
	for i, n := 0, c.N(4000, 100000); i < n; i++ {
		runScenario(c, genUnit(c, i))
	}
	for i, n := 0, c.N(3000, 60000); i < n; i++ {
		runScenario(c, genSrv(c, i, i%5 == 4))
	}
	for i, n := 0, c.N(3000, 60000); i < n; i++ {
		runScenario(c, genCl(c, i, i%5 == 4))
	}
	runExt(c)
	thePool.flush()
}

// sweepUnit: boundary sweep – every pair of pool addresses (all forms) and every length 0..20.
func sweepUnit(c *corr.Ctx) {
	var all []net.IP
	for _, ip := range v4Pool {
		all = append(all, ip, mapped(ip))
		for w := 0; w < 4; w++ {
			all = append(all, nearMapped(ip, w))
		}
	}
	all = append(all, v6Pool...)
	for n := 0; n <= 20; n++ {
		b := make(net.IP, n)
		for i := range b {
			b[i] = byte(0xa0 + i)
		}
		all = append(all, b)
		all = append(all, make(net.IP, n))
	}
	sc := &Scenario{Kind: "unit", Name: "sweep-pairs"}
	for _, a := range all {
		for _, b := range all {
			sc.Ops = append(sc.Ops, Op{K: "eq", IP: hexIP(a), IP2: hexIP(b), Port: 5000})
		}
		sc.Ops = append(sc.Ops, Op{K: "fill", IP: hexIP(a), Port: 5000})
	}
	c.Dist("sweep-pairs")
	runScenario(c, sc)
}
