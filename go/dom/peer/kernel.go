package peer

import (
	"errors"
	"fmt"
	"net"
	"strings"
	"sync"
	"sync/atomic"
	"time"

	"github.com/pion/rtcp"
	"github.com/pion/rtp"

	"github.com/bluenviron/gortsplib/v5"
	"github.com/bluenviron/gortsplib/v5/pkg/base"
	"github.com/bluenviron/gortsplib/v5/pkg/description"
	"github.com/bluenviron/gortsplib/v5/pkg/format"
	"github.com/bluenviron/gortsplib/v5/pkg/liberrors"
)

// Kernel-level scenarios (property oracle only): a real Server and a real Client over the
// loopback interface.  Perfectly valid RTP / RTCP packets are sent from every wrong source the
// sandbox allows (another port on 127.0.0.1, 127.0.0.2, [::1], a dual-stack socket) and from the
// right one; callbacks, Stats() and timeouts may only be affected by the right one.

type ksess struct {
	ss     *gortsplib.ServerSession
	rtp    atomic.Int64
	rtcp   atomic.Int64
	closed chan struct{}
	err    error
}

type kserver struct {
	srv      *gortsplib.Server
	stream   *gortsplib.ServerStream
	desc     *description.Session
	host     string // bind host: "127.0.0.1" or "" (wildcard, dual stack)
	rtspPort int
	rtpPort  int
	clock    atomic.Int64 // fake Unix time

	mu       sync.Mutex
	sessions []*ksess
}

func (k *kserver) sess(ss *gortsplib.ServerSession) *ksess {
	k.mu.Lock()
	defer k.mu.Unlock()
	for _, s := range k.sessions {
		if s.ss == ss {
			return s
		}
	}
	return nil
}

func (k *kserver) session(i int) *ksess {
	k.mu.Lock()
	defer k.mu.Unlock()
	if i < len(k.sessions) {
		return k.sessions[i]
	}
	return nil
}

func (k *kserver) OnSessionOpen(ctx *gortsplib.ServerHandlerOnSessionOpenCtx) {
	k.mu.Lock()
	defer k.mu.Unlock()
	k.sessions = append(k.sessions, &ksess{ss: ctx.Session, closed: make(chan struct{})})
}

func (k *kserver) OnSessionClose(ctx *gortsplib.ServerHandlerOnSessionCloseCtx) {
	if s := k.sess(ctx.Session); s != nil {
		s.err = ctx.Error
		close(s.closed)
	}
}

func (k *kserver) OnDescribe(*gortsplib.ServerHandlerOnDescribeCtx) (*base.Response, *gortsplib.ServerStream, error) {
	return &base.Response{StatusCode: base.StatusOK}, k.stream, nil
}

func (k *kserver) OnAnnounce(*gortsplib.ServerHandlerOnAnnounceCtx) (*base.Response, error) {
	return &base.Response{StatusCode: base.StatusOK}, nil
}

func (k *kserver) OnSetup(ctx *gortsplib.ServerHandlerOnSetupCtx) (*base.Response, *gortsplib.ServerStream, error) {
	if ctx.Session.State() == gortsplib.ServerSessionStatePreRecord {
		return &base.Response{StatusCode: base.StatusOK}, nil, nil
	}
	return &base.Response{StatusCode: base.StatusOK}, k.stream, nil
}

func (k *kserver) OnPlay(ctx *gortsplib.ServerHandlerOnPlayCtx) (*base.Response, error) {
	if s := k.sess(ctx.Session); s != nil {
		ctx.Session.OnPacketRTCPAny(func(*description.Media, rtcp.Packet) { s.rtcp.Add(1) })
	}
	return &base.Response{StatusCode: base.StatusOK}, nil
}

func (k *kserver) OnRecord(ctx *gortsplib.ServerHandlerOnRecordCtx) (*base.Response, error) {
	if s := k.sess(ctx.Session); s != nil {
		ctx.Session.OnPacketRTPAny(func(*description.Media, format.Format, *rtp.Packet) { s.rtp.Add(1) })
		ctx.Session.OnPacketRTCPAny(func(*description.Media, rtcp.Packet) { s.rtcp.Add(1) })
	}
	return &base.Response{StatusCode: base.StatusOK}, nil
}

func (k *kserver) OnPause(*gortsplib.ServerHandlerOnPauseCtx) (*base.Response, error) {
	return &base.Response{StatusCode: base.StatusOK}, nil
}

func (k *kserver) OnGetParameter(*gortsplib.ServerHandlerOnGetParameterCtx) (*base.Response, error) {
	return &base.Response{StatusCode: base.StatusOK}, nil
}

func (k *kserver) OnDecodeError(*gortsplib.ServerHandlerOnDecodeErrorCtx)           {}
func (k *kserver) OnPacketsLost(*gortsplib.ServerHandlerOnPacketsLostCtx)           {}
func (k *kserver) OnStreamWriteError(*gortsplib.ServerHandlerOnStreamWriteErrorCtx) {}

// startKServer binds a server on random loopback ports (retries: other harnesses run concurrently).
func startKServer(c *rctx, wild bool, readTimeout, idleTimeout, checkPeriod time.Duration) (*kserver, error) {
	var lastErr error
	for try := 0; try < 60; try++ {
		k := &kserver{}
		if !wild {
			k.host = "127.0.0.1"
		}
		k.clock.Store(1_700_000_000)
		k.rtspPort = 20000 + c.Rng.IntN(20000)
		k.rtpPort = 40000 + 2*c.Rng.IntN(10000)
		k.srv = &gortsplib.Server{
			Handler:                  k,
			RTSPAddress:              fmt.Sprintf("%s:%d", k.host, k.rtspPort),
			UDPRTPAddress:            fmt.Sprintf("%s:%d", k.host, k.rtpPort),
			UDPRTCPAddress:           fmt.Sprintf("%s:%d", k.host, k.rtpPort+1),
			ReadTimeout:              readTimeout,
			IdleTimeout:              idleTimeout,
			DisableRTCPSenderReports: true,
		}
		gortsplib.VerifPeerServerSetClock(k.srv, func() time.Time { return time.Unix(k.clock.Load(), 0) }, checkPeriod)
		if err := k.srv.Start(); err != nil {
			lastErr = err
			continue
		}
		k.desc = playDesc()
		k.stream = &gortsplib.ServerStream{Server: k.srv, Desc: k.desc}
		if err := k.stream.Initialize(); err != nil {
			k.srv.Close()
			lastErr = err
			continue
		}
		return k, nil
	}
	return nil, lastErr
}

func (k *kserver) close() {
	k.stream.Close()
	k.srv.Close()
}

type kclient struct {
	c      *gortsplib.Client
	clock  atomic.Int64
	rtp    atomic.Int64
	rtcp   atomic.Int64
	desc   *description.Session
	waitCh chan error
}

func (k *kserver) url() string { return fmt.Sprintf("rtsp://127.0.0.1:%d/stream", k.rtspPort) }

func startKClient(k *kserver, record, anyPort bool, proto gortsplib.Protocol, initialTimeout, readTimeout time.Duration) (*kclient, error) {
	kc := &kclient{waitCh: make(chan error, 1)}
	kc.clock.Store(1_700_000_000)
	p := proto
	kc.c = &gortsplib.Client{
		Protocol:              &p,
		AnyPortEnable:         anyPort,
		InitialUDPReadTimeout: initialTimeout,
		ReadTimeout:           readTimeout,
		OnDecodeError:         func(error) {},
		OnPacketsLost:         func(uint64) {},
	}
	gortsplib.VerifPeerClientSetClock(kc.c, func() time.Time { return time.Unix(kc.clock.Load(), 0) }, 15*time.Millisecond)
	u, _ := base.ParseURL(k.url())
	if record {
		kc.desc = playDesc()
		if err := kc.c.StartRecording(k.url(), kc.desc); err != nil {
			return nil, err
		}
	} else {
		kc.c.Scheme, kc.c.Host = u.Scheme, u.Host
		if err := kc.c.Start(); err != nil {
			return nil, err
		}
		desc, _, err := kc.c.Describe(u)
		if err != nil {
			kc.c.Close()
			return nil, err
		}
		kc.desc = desc
		if err = kc.c.SetupAll(desc.BaseURL, desc.Medias); err != nil {
			kc.c.Close()
			return nil, err
		}
		kc.c.OnPacketRTPAny(func(*description.Media, format.Format, *rtp.Packet) { kc.rtp.Add(1) })
		kc.c.OnPacketRTCPAny(func(*description.Media, rtcp.Packet) { kc.rtcp.Add(1) })
		if _, err = kc.c.Play(nil); err != nil {
			kc.c.Close()
			return nil, err
		}
	}
	go func() { kc.waitCh <- kc.c.Wait() }()
	return kc, nil
}

func waitFor(cond func() bool, d time.Duration) bool {
	deadline := time.Now().Add(d)
	for !cond() {
		if time.Now().After(deadline) {
			return false
		}
		time.Sleep(500 * time.Microsecond)
	}
	return true
}

type attacker struct {
	name string
	conn *net.UDPConn
	v6   bool // reaches only [::1] destinations
}

// attackers opens every wrong source the sandbox allows.  samePort is the port of the legitimate
// sender: binding it on another address gives a datagram with the right port and the wrong address.
func attackers(c *rctx, samePort int) []attacker {
	var out []attacker
	add := func(name, network, laddr string, v6 bool) {
		a, err := net.ResolveUDPAddr(network, laddr)
		if err != nil {
			c.Dist("kernel-skip-" + name)
			return
		}
		conn, err := net.ListenUDP(network, a)
		if err != nil {
			c.Dist("kernel-skip-" + name)
			return
		}
		out = append(out, attacker{name, conn, v6})
	}
	add("port", "udp4", "127.0.0.1:0", false)
	add("ip2", "udp4", "127.0.0.2:0", false)
	add("ip2-sameport", "udp4", fmt.Sprintf("127.0.0.2:%d", samePort), false)
	add("ip3-sameport", "udp4", fmt.Sprintf("127.1.2.3:%d", samePort), false)
	add("v6", "udp6", "[::1]:0", true)
	add("v6-sameport", "udp6", fmt.Sprintf("[::1]:%d", samePort), true)
	add("dual", "udp", "[::]:0", false)
	return out
}

func closeAttackers(as []attacker) {
	for _, a := range as {
		a.conn.Close()
	}
}

func (a attacker) send(port int, payload []byte) bool {
	dst := &net.UDPAddr{IP: net.IPv4(127, 0, 0, 1), Port: port}
	if a.v6 {
		dst = &net.UDPAddr{IP: net.IPv6loopback, Port: port}
	}
	_, err := a.conn.WriteToUDP(payload, dst)
	return err == nil
}

type kcfg struct {
	Record  bool
	AnyPort bool
	Wild    bool
	Mode    string // traffic | timeout-foreign | timeout-legit | steal-udp | steal-tcp
}

func parseKcfg(s string) kcfg {
	var k kcfg
	for _, f := range strings.Split(s, ",") {
		switch f {
		case "record":
			k.Record = true
		case "anyport":
			k.AnyPort = true
		case "wild":
			k.Wild = true
		default:
			if strings.HasPrefix(f, "mode=") {
				k.Mode = f[5:]
			}
		}
	}
	return k
}

func (k kcfg) String() string {
	var f []string
	if k.Record {
		f = append(f, "record")
	}
	if k.AnyPort {
		f = append(f, "anyport")
	}
	if k.Wild {
		f = append(f, "wild")
	}
	f = append(f, "mode="+k.Mode)
	return strings.Join(f, ",")
}

type sideView struct {
	rtpCb, rtcpCb                               int64
	inBytes, rtpPkts, rtcpPkts, rtpErr, rtcpErr uint64
}

func (v sideView) String() string {
	return fmt.Sprintf("rtpCb=%d rtcpCb=%d bytes=%d rtp=%d rtcp=%d rtpErr=%d rtcpErr=%d", v.rtpCb, v.rtcpCb, v.inBytes, v.rtpPkts, v.rtcpPkts, v.rtpErr, v.rtcpErr)
}

func serverView(s *ksess) sideView {
	st := s.ss.Stats()
	return sideView{s.rtp.Load(), s.rtcp.Load(), st.InboundBytes, st.InboundRTPPackets, st.InboundRTCPPackets, st.InboundRTPPacketsInError, st.InboundRTCPPacketsInError}
}

func clientView(kc *kclient) sideView {
	st := kc.c.Stats().Session
	return sideView{kc.rtp.Load(), kc.rtcp.Load(), st.InboundBytes, st.InboundRTPPackets, st.InboundRTCPPackets, st.InboundRTPPacketsInError, st.InboundRTCPPacketsInError}
}

func runKernel(c *rctx, sc *Scenario) {
	cfg := parseKcfg(sc.Cfg)
	c.Dist("kernel-" + cfg.Mode)
	var err error
	switch cfg.Mode {
	case "traffic":
		err = kernelTraffic(c, sc, cfg)
	case "timeout-foreign", "timeout-legit":
		err = kernelTimeout(c, sc, cfg)
	case "steal-udp", "steal-tcp":
		err = kernelSteal(c, sc, cfg)
	case "after-end-teardown", "after-end-timeout":
		err = kernelAfterEnd(c, sc, cfg)
	default:
		err = errors.New("unknown mode")
	}
	if err != nil {
		// the environment did not let the scenario run (ports, routing): not a verdict
		c.Dist("kernel-env-failure")
		c.Note("kernel scenario " + sc.Cfg + " could not run: " + err.Error())
		return
	}
	c.CountOnly("kernel:"+sc.Cfg+fmt.Sprint(c.Seed), true)
}

var kseq atomic.Uint32 // foreign packets

// legitimate packets carry consecutive sequence numbers (the receivers reorder on them)
var lseq [2]atomic.Uint32

func nextLegit(media int) uint16 { return uint16(lseq[media].Add(1)) }

func validRTP(pt uint8) []byte {
	n := kseq.Add(1)
	b, _ := (&rtp.Packet{Header: rtp.Header{Version: 2, PayloadType: pt, SequenceNumber: uint16(n), Timestamp: 90 * n, SSRC: 0x11223344},
		Payload: []byte{5, 9, 9, 9}}).Marshal()
	return b
}

func validRTCP(sender bool) []byte {
	var p rtcp.Packet = &rtcp.ReceiverReport{SSRC: 0x55667788}
	if sender {
		p = &rtcp.SenderReport{SSRC: 0x11223344, NTPTime: 1 << 40, RTPTime: 1000, PacketCount: 1, OctetCount: 4}
	}
	b, _ := p.Marshal()
	return b
}

// kernelTraffic: after PLAY / RECORD, valid packets from every wrong source to every port of both
// sides; then one packet from the right source as a fence; only the fence may be visible.
func kernelTraffic(c *rctx, sc *Scenario, cfg kcfg) error {
	k, err := startKServer(c, cfg.Wild, 10*time.Second, 60*time.Second, 15*time.Millisecond)
	if err != nil {
		return err
	}
	defer k.close()
	kc, err := startKClient(k, cfg.Record, cfg.AnyPort, gortsplib.ProtocolUDP, 10*time.Second, 10*time.Second)
	if err != nil {
		return err
	}
	defer kc.c.Close()
	began := time.Now()
	s := k.session(0)
	if s == nil {
		return errors.New("no session")
	}
	ls := gortsplib.VerifPeerClientListeners(kc.c)
	if len(ls) != 2 {
		return fmt.Errorf("client has %d UDP media", len(ls))
	}
	m0 := kc.desc.Medias[0]

	// fence: one packet from the right source in the direction that is listened to, and wait for it
	fence := func() error {
		if cfg.Record {
			b0 := s.rtp.Load()
			if err := kc.c.WritePacketRTP(m0, &rtp.Packet{Header: rtp.Header{Version: 2, PayloadType: 96, SequenceNumber: nextLegit(0), Timestamp: 1}, Payload: []byte{5, 1}}); err != nil {
				return err
			}
			if !waitFor(func() bool { return s.rtp.Load() > b0 }, 3*time.Second) {
				return errors.New("legitimate RTP packet did not reach the server")
			}
			return nil
		}
		b0, b1 := kc.rtp.Load(), s.rtcp.Load()
		if err := k.stream.WritePacketRTP(k.desc.Medias[0], &rtp.Packet{Header: rtp.Header{Version: 2, PayloadType: 96, SequenceNumber: nextLegit(0), Timestamp: 1}, Payload: []byte{5, 1}}); err != nil {
			return err
		}
		if !waitFor(func() bool { return kc.rtp.Load() > b0 }, 3*time.Second) {
			return errors.New("legitimate RTP packet did not reach the client")
		}
		if err := kc.c.WritePacketRTCP(m0, &rtcp.ReceiverReport{SSRC: 1}); err != nil {
			return err
		}
		if !waitFor(func() bool { return s.rtcp.Load() > b1 }, 3*time.Second) {
			return errors.New("legitimate RTCP packet did not reach the server")
		}
		return nil
	}
	// the server speaks first on every listener so that an any-port client latches the server's ports
	if !cfg.Record {
		for i, m := range k.desc.Medias {
			pt := []uint8{96, 8}[i]
			b0, b1 := kc.rtp.Load(), kc.rtcp.Load()
			if err := k.stream.WritePacketRTP(m, &rtp.Packet{Header: rtp.Header{Version: 2, PayloadType: pt, SequenceNumber: nextLegit(i), Timestamp: 1}, Payload: []byte{5, 1}}); err != nil {
				return err
			}
			if err := k.stream.WritePacketRTCP(m, &rtcp.SenderReport{SSRC: 7, NTPTime: 1 << 40}); err != nil {
				return err
			}
			if !waitFor(func() bool { return kc.rtp.Load() > b0 && kc.rtcp.Load() > b1 }, 3*time.Second) {
				return errors.New("priming packets did not reach the client")
			}
		}
	}
	if err := fence(); err != nil {
		return err
	}
	if err := fence(); err != nil {
		return err
	}
	time.Sleep(5 * time.Millisecond)
	sv0, cv0 := serverView(s), clientView(kc)
	ls0 := gortsplib.VerifPeerClientListeners(kc.c)

	// ---- the attack ----
	type target struct {
		side string
		port int
		rtcp bool
	}
	var targets []target
	targets = append(targets, target{"server", k.rtpPort, false}, target{"server", k.rtpPort + 1, true})
	for _, l := range ls {
		targets = append(targets, target{"client", l[0].LocalPort, false}, target{"client", l[1].LocalPort, true})
	}
	sent := 0
	for _, tg := range targets {
		// the legitimate sender's port towards this target
		same := k.rtpPort
		if tg.rtcp {
			same = k.rtpPort + 1
		}
		if tg.side == "server" {
			same = ls[0][0].LocalPort
			if tg.rtcp {
				same = ls[0][1].LocalPort
			}
		}
		as := attackers(c, same)
		for _, a := range as {
			if a.v6 && tg.side == "server" && !cfg.Wild {
				continue // an IPv4-only socket cannot be reached from ::1
			}
			for rep := 0; rep < 2; rep++ {
				var p []byte
				switch {
				case tg.rtcp:
					p = validRTCP(tg.side == "client" || cfg.Record)
				default:
					p = validRTP(96)
				}
				if a.send(tg.port, p) {
					sent++
					c.Dist("kernel-sent-" + a.name + "-to-" + tg.side)
				}
			}
		}
		closeAttackers(as)
	}
	if sent == 0 {
		return errors.New("no foreign datagram could be sent")
	}
	if err := fence(); err != nil {
		return err
	}
	time.Sleep(30 * time.Millisecond) // sockets without a fence of their own (other listeners)
	sv1, cv1 := serverView(s), clientView(kc)
	ls1 := gortsplib.VerifPeerClientListeners(kc.c)
	if time.Since(began) > 3*time.Second {
		// the library's own periodic RTCP reports (5 s / 10 s) could fall into the window: no verdict
		return errors.New("too slow: periodic reports may have been counted")
	}

	// expected: exactly the fence
	expS, expC := sv0, cv0
	if cfg.Record {
		expS.rtpCb++
		expS.rtpPkts++
		expS.inBytes += 14
	} else {
		expC.rtpCb++
		expC.rtpPkts++
		expC.inBytes += 14
		expS.rtcpCb++
		expS.rtcpPkts++
		expS.inBytes += 8
	}
	if sv1 != expS {
		viol(c, sc, "datagrams from any other source are ignored and do not affect its callbacks, statistics or timeouts",
			"kernel-server-affected", fmt.Sprintf("%s: server session after %d foreign datagrams and one legitimate packet: %v, expected %v (before: %v)", cfg, sent, sv1, expS, sv0))
	}
	if cv1 != expC {
		viol(c, sc, "datagrams from any other source are ignored and do not affect its callbacks, statistics or timeouts (client)",
			"kernel-client-affected", fmt.Sprintf("%s: client after %d foreign datagrams and one legitimate packet: %v, expected %v (before: %v)", cfg, sent, cv1, expC, cv0))
	}
	for i := range ls0 {
		for j := 0; j < 2; j++ {
			if ls0[i][j].ReadPort != ls1[i][j].ReadPort {
				viol(c, sc, "the negotiated port is kept", "kernel-client-readport",
					fmt.Sprintf("%s: read port of listener %d/%d changed from %d to %d", cfg, i, j, ls0[i][j].ReadPort, ls1[i][j].ReadPort))
			}
		}
	}
	return nil
}

// foreignVolley sends one valid packet from every wrong source to every UDP port of both sides.
func foreignVolley(c *rctx, k *kserver, ls [][2]gortsplib.VerifPeerListenerInfo, cfg kcfg) int {
	sent := 0
	type tgt struct {
		server bool
		port   int
		rtcp   bool
	}
	tgs := []tgt{{true, k.rtpPort, false}, {true, k.rtpPort + 1, true}}
	for _, l := range ls {
		tgs = append(tgs, tgt{false, l[0].LocalPort, false}, tgt{false, l[1].LocalPort, true})
	}
	for _, tg := range tgs {
		same := k.rtpPort
		if tg.rtcp {
			same++
		}
		if tg.server {
			same = ls[0][0].LocalPort
			if tg.rtcp {
				same = ls[0][1].LocalPort
			}
		}
		as := attackers(c, same)
		for _, a := range as {
			if a.v6 && tg.server && !cfg.Wild {
				continue
			}
			var p []byte
			if tg.rtcp {
				p = validRTCP(!tg.server || cfg.Record)
			} else {
				p = validRTP(96)
			}
			if a.send(tg.port, p) {
				sent++
			}
		}
		closeAttackers(as)
	}
	return sent
}

// kernelTimeout: the clocks are fake.  The right source speaks at t0; the clock jumps to t0+11
// (timeouts are 10 s); then either every wrong source or the right one speaks again.  At the next
// timeout check the session / client must be timed out in the first case and alive in the second.
func kernelTimeout(c *rctx, sc *Scenario, cfg kcfg) error {
	legit := cfg.Mode == "timeout-legit"
	const check = 400 * time.Millisecond
	k, err := startKServer(c, cfg.Wild, 10*time.Second, 60*time.Second, check)
	if err != nil {
		return err
	}
	defer k.close()
	kc, err := startKClient(k, cfg.Record, cfg.AnyPort, gortsplib.ProtocolUDP, check, 10*time.Second)
	if err != nil {
		return err
	}
	defer kc.c.Close()
	started := time.Now()
	s := k.session(0)
	if s == nil {
		return errors.New("no session")
	}
	ls := gortsplib.VerifPeerClientListeners(kc.c)
	if len(ls) != 2 {
		return fmt.Errorf("client has %d UDP media", len(ls))
	}
	t0 := int64(1_700_000_000)

	if cfg.Record {
		// server side: RECORD over UDP times out when no RTP/RTCP arrives for ReadTimeout
		lpt0 := gortsplib.VerifPeerSessionUDPLastPacketTime(s.ss)
		k.clock.Store(t0 + 11)
		if legit {
			b0 := s.rtp.Load()
			if err := kc.c.WritePacketRTP(kc.desc.Medias[0], &rtp.Packet{Header: rtp.Header{Version: 2, PayloadType: 96, SequenceNumber: nextLegit(0)}, Payload: []byte{5, 1}}); err != nil {
				return err
			}
			if !waitFor(func() bool { return s.rtp.Load() > b0 }, 3*time.Second) {
				return errors.New("legitimate packet lost")
			}
		} else {
			if foreignVolley(c, k, ls, cfg) == 0 {
				return errors.New("no foreign datagram could be sent")
			}
			time.Sleep(20 * time.Millisecond)
			if lpt := gortsplib.VerifPeerSessionUDPLastPacketTime(s.ss); lpt != lpt0 {
				viol(c, sc, "datagrams from any other source do not affect its timeouts", "kernel-server-lastpacket",
					fmt.Sprintf("%s: udpLastPacketTime moved from %d to %d after foreign datagrams only", cfg, lpt0, lpt))
			}
		}
		if time.Since(started) > check*3/4 {
			return errors.New("too slow: the timeout check may have run before the datagrams were sent")
		}
		wait := 20 * time.Second // normally over after one check period
		if legit {
			wait = check + 250*time.Millisecond
		}
		select {
		case <-s.closed:
			if legit {
				viol(c, sc, "datagrams from the negotiated source keep the session alive", "kernel-server-timeout-legit",
					fmt.Sprintf("%s: session timed out right after a legitimate packet: %v", cfg, s.err))
			} else if _, ok := s.err.(liberrors.ErrServerSessionTimedOut); !ok {
				return fmt.Errorf("session closed for another reason: %v", s.err)
			} else {
				c.Dist("kernel-timeout-despite-foreign")
			}
		case <-time.After(wait):
			if !legit {
				viol(c, sc, "datagrams from any other source do not affect its timeouts", "kernel-server-timeout-foreign",
					fmt.Sprintf("%s: the session did not time out 11 s (fake clock) after RECORD although only foreign datagrams arrived", cfg))
			} else {
				c.Dist("kernel-alive-with-legit")
				k.clock.Store(t0 + 40)
				select {
				case <-s.closed:
				case <-time.After(3 * time.Second):
					return errors.New("session did not time out at all")
				}
			}
		}
		return nil
	}

	// client side (forced UDP): prime every listener from the right source at t0
	for i, m := range k.desc.Medias {
		b0, b1 := kc.rtp.Load(), kc.rtcp.Load()
		if err := k.stream.WritePacketRTP(m, &rtp.Packet{Header: rtp.Header{Version: 2, PayloadType: []uint8{96, 8}[i], SequenceNumber: nextLegit(i)}, Payload: []byte{5, 1}}); err != nil {
			return err
		}
		if err := k.stream.WritePacketRTCP(m, &rtcp.SenderReport{SSRC: 7, NTPTime: 1 << 40}); err != nil {
			return err
		}
		if !waitFor(func() bool { return kc.rtp.Load() > b0 && kc.rtcp.Load() > b1 }, 3*time.Second) {
			return errors.New("priming packets did not reach the client")
		}
	}
	ls = gortsplib.VerifPeerClientListeners(kc.c)
	kc.clock.Store(t0 + 11)
	if legit {
		b0 := kc.rtp.Load()
		if err := k.stream.WritePacketRTP(k.desc.Medias[0], &rtp.Packet{Header: rtp.Header{Version: 2, PayloadType: 96, SequenceNumber: nextLegit(0)}, Payload: []byte{5, 1}}); err != nil {
			return err
		}
		if !waitFor(func() bool { return kc.rtp.Load() > b0 }, 3*time.Second) {
			return errors.New("legitimate packet lost")
		}
	} else {
		if foreignVolley(c, k, ls, cfg) == 0 {
			return errors.New("no foreign datagram could be sent")
		}
		time.Sleep(20 * time.Millisecond)
		for i, l := range gortsplib.VerifPeerClientListeners(kc.c) {
			for j := 0; j < 2; j++ {
				if l[j].LastPacketTime != ls[i][j].LastPacketTime || l[j].ReadPort != ls[i][j].ReadPort {
					viol(c, sc, "datagrams from any other source do not affect its timeouts (client)", "kernel-client-lastpacket",
						fmt.Sprintf("%s: listener %d/%d: last packet time %d -> %d, read port %d -> %d after foreign datagrams only", cfg, i, j,
							ls[i][j].LastPacketTime, l[j].LastPacketTime, ls[i][j].ReadPort, l[j].ReadPort))
				}
			}
		}
	}
	if time.Since(started) > check*3/4 {
		return errors.New("too slow: the timeout check may have run before the datagrams were sent")
	}
	wait := 20 * time.Second // normally over after one check period
	if legit {
		wait = check + 250*time.Millisecond
	}
	select {
	case err := <-kc.waitCh:
		if legit {
			viol(c, sc, "datagrams from the negotiated source keep the client alive", "kernel-client-timeout-legit",
				fmt.Sprintf("%s: client ended although the server was sending: %v", cfg, err))
		} else if _, ok := err.(liberrors.ErrClientUDPTimeout); !ok {
			return fmt.Errorf("client ended for another reason: %v", err)
		} else {
			c.Dist("kernel-timeout-despite-foreign")
		}
	case <-time.After(wait):
		if !legit {
			viol(c, sc, "datagrams from any other source do not affect its timeouts (client)", "kernel-client-timeout-foreign",
				fmt.Sprintf("%s: the client did not report a UDP timeout 11 s (fake clock) after the last legitimate packet although only foreign datagrams arrived", cfg))
		} else {
			c.Dist("kernel-alive-with-legit")
		}
	}
	return nil
}

// kernelSteal: a real Client owns a session (UDP or interleaved TCP); raw TCP connections from the
// same address and from 127.0.0.2 replay requests with the stolen session id.
func kernelSteal(c *rctx, sc *Scenario, cfg kcfg) error {
	proto := gortsplib.ProtocolUDP
	if cfg.Mode == "steal-tcp" {
		proto = gortsplib.ProtocolTCP
	}
	k, err := startKServer(c, cfg.Wild, 10*time.Second, 60*time.Second, time.Hour)
	if err != nil {
		return err
	}
	defer k.close()
	kc, err := startKClient(k, cfg.Record, cfg.AnyPort, proto, 10*time.Second, 10*time.Second)
	if err != nil {
		return err
	}
	defer kc.c.Close()
	s := k.session(0)
	if s == nil {
		return errors.New("no session")
	}
	id := gortsplib.VerifPeerSessionID(s.ss)
	flows := func() error { // the victim still streams
		if cfg.Record {
			b0 := s.rtp.Load()
			if err := kc.c.WritePacketRTP(kc.desc.Medias[0], &rtp.Packet{Header: rtp.Header{Version: 2, PayloadType: 96, SequenceNumber: nextLegit(0)}, Payload: []byte{5, 1}}); err != nil {
				return err
			}
			if !waitFor(func() bool { return s.rtp.Load() > b0 }, 2*time.Second) {
				return errors.New("publisher's packet no longer reaches the session")
			}
			return nil
		}
		b0 := kc.rtp.Load()
		if err := k.stream.WritePacketRTP(k.desc.Medias[0], &rtp.Packet{Header: rtp.Header{Version: 2, PayloadType: 96, SequenceNumber: nextLegit(0)}, Payload: []byte{5, 1}}); err != nil {
			return err
		}
		if !waitFor(func() bool { return kc.rtp.Load() > b0 }, 2*time.Second) {
			return errors.New("stream packet no longer reaches the reader")
		}
		return nil
	}
	if err := flows(); err != nil {
		return err
	}
	view := func() string {
		gortsplib.VerifPeerSessionSync(s.ss)
		if gortsplib.VerifPeerSessionClosing(s.ss) {
			return "closed"
		}
		return fmt.Sprintf("%s/%s/%d", stateName(s.ss.State()), protoName(s.ss.Transport()), len(s.ss.Medias()))
	}
	for _, from := range []string{"127.0.0.1", "127.0.0.2", "127.9.9.9"} {
		for _, m := range []string{"OPTIONS", "GET_PARAMETER", "PAUSE", "PLAY", "RECORD", "SETUP", "ANNOUNCE", "TEARDOWN"} {
			expectReject := from != "127.0.0.1" || proto == gortsplib.ProtocolTCP
			if !expectReject {
				// same address, UDP session: allowed by the property (bound to the address only);
				// only the harmless methods are tried so that the victim stays as it is
				if m != "OPTIONS" && m != "GET_PARAMETER" {
					continue
				}
			}
			d := net.Dialer{LocalAddr: &net.TCPAddr{IP: net.ParseIP(from)}, Timeout: 2 * time.Second}
			nc, err := d.Dial("tcp", fmt.Sprintf("127.0.0.1:%d", k.rtspPort))
			if err != nil {
				c.Dist("kernel-skip-tcp-from-" + from)
				continue
			}
			rc := newRawClient(nc)
			before := view()
			u := k.url()
			hdr := base.Header{"Session": base.HeaderValue{id}}
			req := &base.Request{Method: base.Method(m), Header: hdr}
			switch m {
			case "SETUP":
				u += "/trackID=1"
				hdr["Transport"] = base.HeaderValue{"RTP/AVP/TCP;unicast"}
			case "ANNOUNCE":
				hdr["Content-Type"] = base.HeaderValue{"application/sdp"}
				req.Body = []byte(announceSDP)
			}
			req.URL, _ = base.ParseURL(u)
			res := rc.do(req)
			status := 0
			if res != nil {
				status = int(res.StatusCode)
			}
			c.Dist(fmt.Sprintf("kernel-steal-%s-%s-%d", strings.TrimPrefix(cfg.Mode, "steal-"), from, status))
			rc.close()
			after := view()
			if expectReject {
				if status != 0 && status < 400 {
					viol(c, sc, "attempts from elsewhere receive an error", "kernel-steal-accepted",
						fmt.Sprintf("%s: %s with the stolen session id from %s answered %d", cfg, m, from, status))
				}
				if after != before {
					viol(c, sc, "attempts from elsewhere leave the session untouched", "kernel-steal-touched",
						fmt.Sprintf("%s: %s with the stolen session id from %s: session %s -> %s", cfg, m, from, before, after))
				}
			} else if status != 200 || after != before {
				return fmt.Errorf("%s from the owner's address answered %d, session %s -> %s", m, status, before, after)
			}
			if err := flows(); err != nil {
				viol(c, sc, "attempts from elsewhere leave the session untouched", "kernel-steal-stream-broken",
					fmt.Sprintf("%s: after %s with the stolen session id from %s: %v", cfg, m, from, err))
				return nil
			}
		}
	}
	return nil
}

// kernelAfterEnd: a real Client streams over UDP, then its session ends (TEARDOWN or timeout) and the
// client goes away; a socket bound to the SAME ip:port keeps sending valid RTP and RTCP.  Nothing of
// the ended session may move; a session set up afterwards is not affected either.
func kernelAfterEnd(c *rctx, sc *Scenario, cfg kcfg) error {
	k, err := startKServer(c, cfg.Wild, 10*time.Second, 60*time.Second, 50*time.Millisecond)
	if err != nil {
		return err
	}
	defer k.close()
	kc, err := startKClient(k, cfg.Record, false, gortsplib.ProtocolUDP, 10*time.Second, 10*time.Second)
	if err != nil {
		return err
	}
	closed := false
	defer func() {
		if !closed {
			kc.c.Close()
		}
	}()
	s := k.session(0)
	if s == nil {
		return errors.New("no session")
	}
	ls := gortsplib.VerifPeerClientListeners(kc.c)
	if len(ls) != 2 {
		return fmt.Errorf("client has %d UDP media", len(ls))
	}
	flow := func(kc *kclient, s *ksess) error {
		if cfg.Record {
			b0 := s.rtp.Load()
			if err := kc.c.WritePacketRTP(kc.desc.Medias[0], &rtp.Packet{Header: rtp.Header{Version: 2, PayloadType: 96, SequenceNumber: nextLegit(0)}, Payload: []byte{5, 1}}); err != nil {
				return err
			}
			if !waitFor(func() bool { return s.rtp.Load() > b0 }, 3*time.Second) {
				return errors.New("legitimate RTP packet did not reach the server")
			}
		}
		b1 := s.rtcp.Load()
		var p rtcp.Packet = &rtcp.ReceiverReport{SSRC: 1}
		if cfg.Record {
			p = &rtcp.SenderReport{SSRC: 0x11223344, NTPTime: 1 << 40}
		}
		if err := kc.c.WritePacketRTCP(kc.desc.Medias[0], p); err != nil {
			return err
		}
		if !waitFor(func() bool { return s.rtcp.Load() > b1 }, 3*time.Second) {
			return errors.New("legitimate RTCP packet did not reach the server")
		}
		return nil
	}
	for i := 0; i < 3; i++ {
		if err := flow(kc, s); err != nil {
			return err
		}
	}
	// ---- the end ----
	if cfg.Mode == "after-end-timeout" {
		k.clock.Add(1000)
		select {
		case <-s.closed:
		case <-time.After(20 * time.Second):
			return errors.New("session did not time out")
		}
	}
	kc.c.Close() // sends TEARDOWN when the session still exists; releases the client's UDP ports
	closed = true
	select {
	case <-s.closed:
	case <-time.After(10 * time.Second):
		return errors.New("session did not end")
	}
	view := func(s *ksess) string {
		return fmt.Sprintf("%v lastPkt=%d", serverView(s), gortsplib.VerifPeerSessionUDPLastPacketTime(s.ss))
	}
	ended0 := view(s)
	// ---- the same source keeps sending ----
	var socks [2]*net.UDPConn
	for j := 0; j < 2; j++ {
		conn, err := net.ListenUDP("udp4", &net.UDPAddr{IP: net.IPv4(127, 0, 0, 1), Port: ls[0][j].LocalPort})
		if err != nil {
			return fmt.Errorf("cannot take over the client's port: %w", err)
		}
		defer conn.Close()
		socks[j] = conn
	}
	volley := func() {
		for rep := 0; rep < 3; rep++ {
			socks[0].WriteToUDP(validRTP(96), &net.UDPAddr{IP: net.IPv4(127, 0, 0, 1), Port: k.rtpPort})
			socks[1].WriteToUDP(validRTCP(cfg.Record), &net.UDPAddr{IP: net.IPv4(127, 0, 0, 1), Port: k.rtpPort + 1})
			socks[1].WriteToUDP(validRTP(96), &net.UDPAddr{IP: net.IPv4(127, 0, 0, 1), Port: k.rtpPort})
			c.Dist("kernel-after-end-sent")
		}
		time.Sleep(30 * time.Millisecond)
	}
	volley()
	if v := view(s); v != ended0 {
		viol(c, sc, "datagrams that arrive after the end of a session do not reach it (callbacks, statistics, timeouts)",
			"kernel-after-end-delivered", fmt.Sprintf("%s: after the session ended (%v) traffic from its old source changed it: %s -> %s", cfg, s.err, ended0, v))
	}
	// ---- somebody sets up afterwards; the old source still sends ----
	kc2, err := startKClient(k, cfg.Record, false, gortsplib.ProtocolUDP, 10*time.Second, 10*time.Second)
	if err != nil {
		return err
	}
	defer kc2.c.Close()
	s2 := k.session(1)
	if s2 == nil {
		return errors.New("no second session")
	}
	if err := flow(kc2, s2); err != nil {
		return err
	}
	time.Sleep(5 * time.Millisecond)
	new0 := view(s2)
	volley()
	if v := view(s); v != ended0 {
		viol(c, sc, "datagrams that arrive after the end of a session do not reach it (callbacks, statistics, timeouts)",
			"kernel-after-end-delivered", fmt.Sprintf("%s: with a new session in place, traffic from the old source changed the ended session: %s -> %s", cfg, ended0, v))
	}
	if v := view(s2); v != new0 {
		viol(c, sc, "datagrams from any other source are ignored", "kernel-after-end-other-session",
			fmt.Sprintf("%s: traffic from the ended session's source changed the new session: %s -> %s", cfg, new0, v))
	}
	return nil
}
