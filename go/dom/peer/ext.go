package peer

import "verifharness/corr"

// session-level and kernel-level scenarios are added here
func runScenarioExt(c *corr.Ctx, sc *Scenario) bool { return false }

func runExt(c *corr.Ctx) {}
