package peer

import (
	"fmt"
	"net"

	"verifharness/corr"
)

func runScenarioExt(c *rctx, sc *Scenario) bool {
	switch sc.Kind {
	case "sess":
		runSess(c, sc)
		return true
	case "kernel":
		runKernel(c, sc)
		return true
	}
	return false
}

// sweepSess: one UDP victim (recording or playing, two medias), then a datagram on each listener
// from every address form x every port around the negotiated ones, before and after a PAUSE.
func sweepSess(c *corr.Ctx, record bool, a net.IP, base int) *Scenario {
	sc := &Scenario{Kind: "sess", Name: fmt.Sprintf("sweep-sess-%v-%d-%d", record, len(a), base)}
	other := a
	if len(a) == 4 {
		other = mapped(a)
	} else if a.To4() != nil {
		other = a.To4()
	}
	ips := []net.IP{a, other, net.IPv4(10, 0, 0, 6).To4(), nearMapped(net.IPv4(10, 0, 0, 5), 0), nearMapped(net.IPv4(10, 0, 0, 5), 1),
		nearMapped(net.IPv4(10, 0, 0, 5), 2), net.ParseIP("::1"), net.ParseIP("::a00:5"), net.IPv4(10, 0, 0, 4).To4()}
	sc.Ops = append(sc.Ops, Op{K: "xconn", Conn: 0, IP: hexIP(a)})
	if record {
		sc.Ops = append(sc.Ops, Op{K: "xreq", Method: "ANNOUNCE", Sess: -1},
			Op{K: "xreq", Method: "SETUP", Any: true, Media: 0, Port: base},
			Op{K: "xreq", Method: "SETUP", Any: true, Media: 1, Port: base + 2},
			Op{K: "xreq", Method: "RECORD"})
	} else {
		sc.Ops = append(sc.Ops, Op{K: "xreq", Method: "SETUP", Sess: -1, Media: 0, Port: base},
			Op{K: "xreq", Method: "SETUP", Media: 1, Port: base + 2},
			Op{K: "xreq", Method: "PLAY"})
	}
	shoot := func() {
		for _, ip := range ips {
			for port := base - 1; port <= base+4; port++ {
				for _, ch := range []string{"rtp", "rtcp"} {
					sc.Ops = append(sc.Ops, Op{K: "xdgram", Chan: ch, IP: hexIP(ip), Port: port, Media: (port - base) / 2 & 1})
				}
			}
		}
	}
	shoot()
	sc.Ops = append(sc.Ops, Op{K: "xreq", Method: "PAUSE"})
	shoot()
	if record {
		sc.Ops = append(sc.Ops, Op{K: "xreq", Method: "RECORD"})
	} else {
		sc.Ops = append(sc.Ops, Op{K: "xreq", Method: "PLAY"})
	}
	shoot()
	sc.Ops = append(sc.Ops, Op{K: "xreq", Method: "TEARDOWN"})
	shoot()
	return sc
}

func kernelScenarios(c *corr.Ctx) []*Scenario {
	var out []*Scenario
	add := func(k kcfg) {
		out = append(out, &Scenario{Kind: "kernel", Name: "kernel-" + k.String(), Cfg: k.String()})
	}
	for _, rec := range []bool{false, true} {
		for _, wild := range []bool{false, true} {
			for _, any := range []bool{false, true} {
				if rec && any {
					continue // AnyPortEnable matters for readers; publishers need server ports anyway
				}
				add(kcfg{Record: rec, AnyPort: any, Wild: wild, Mode: "traffic"})
			}
		}
		add(kcfg{Record: rec, Mode: "timeout-foreign", Wild: true})
		add(kcfg{Record: rec, Mode: "timeout-legit"})
		add(kcfg{Record: rec, Mode: "after-end-teardown"})
		add(kcfg{Record: rec, Mode: "after-end-timeout", Wild: true})
		add(kcfg{Record: rec, Mode: "steal-udp"})
		add(kcfg{Record: rec, Mode: "steal-tcp", Wild: rec})
	}
	add(kcfg{AnyPort: true, Mode: "timeout-foreign"})
	return out
}

func runExt(c *corr.Ctx) {
	runAfterEnd(c)
	for _, sc := range kernelScenarios(c) {
		runScenario(c, sc)
	}
	for _, rec := range []bool{false, true} {
		for _, a := range []net.IP{net.IPv4(10, 0, 0, 5).To4(), mapped(net.IPv4(10, 0, 0, 5))} {
			for _, base := range []int{5000, 65532} {
				c.Dist("sweep-sess")
				runScenario(c, sweepSess(c, rec, a, base))
			}
		}
	}
	for i, n := 0, c.N(700, 20000); i < n; i++ {
		runScenario(c, genSess(c, i))
	}
}

// ---- session-level generator ---------------------------------------------------------------------

type sessGen struct {
	c       *corr.Ctx
	sc      *Scenario
	nextCid int
	nSess   int // sessions the generator believes exist (indices it may refer to)
	ips     []net.IP
	zones   []string
	connIP  map[int]int
	ports   []int
}

func (g *sessGen) open(ipIdx int) int {
	cid := g.nextCid
	g.nextCid++
	g.connIP[cid] = ipIdx
	g.sc.Ops = append(g.sc.Ops, Op{K: "xconn", Conn: cid, IP: hexIP(g.ips[ipIdx]), Zone: g.zones[ipIdx]})
	return cid
}

func (g *sessGen) req(cid int, method string, sess int, proto string, rec bool, media, cport int) {
	g.sc.Ops = append(g.sc.Ops, Op{K: "xreq", Conn: cid, Method: method, Sess: sess, Proto: proto, Any: rec, Media: media, Port: cport})
}

// script brings a fresh session (created on connection cid) to a target state; returns its index
func (g *sessGen) victim(cid int, target int, base int) int {
	idx := g.nSess
	g.nSess++
	proto := "udp"
	if target%2 == 1 {
		proto = "tcp"
	}
	switch target {
	case 0, 1: // prePlay
		g.req(cid, "SETUP", -1, proto, false, 0, base)
		if g.c.Rng.IntN(2) == 0 {
			g.req(cid, "SETUP", idx, proto, false, 1, base+2)
		}
	case 2, 3: // play
		g.req(cid, "SETUP", -1, proto, false, 0, base)
		if g.c.Rng.IntN(2) == 0 {
			g.req(cid, "SETUP", idx, proto, false, 1, base+2)
		}
		g.req(cid, "PLAY", idx, proto, false, 0, 0)
	case 4, 5: // preRecord, fully set up
		g.req(cid, "ANNOUNCE", -1, proto, false, 0, 0)
		g.req(cid, "SETUP", idx, proto, true, 0, base)
		g.req(cid, "SETUP", idx, proto, true, 1, base+2)
	case 6, 7: // record
		g.req(cid, "ANNOUNCE", -1, proto, false, 0, 0)
		g.req(cid, "SETUP", idx, proto, true, 0, base)
		g.req(cid, "SETUP", idx, proto, true, 1, base+2)
		g.req(cid, "RECORD", idx, proto, false, 0, 0)
	case 8, 9: // preRecord, announced only
		g.req(cid, "ANNOUNCE", -1, proto, false, 0, 0)
	case 10, 11: // paused after play
		g.req(cid, "SETUP", -1, proto, false, 0, base)
		g.req(cid, "PLAY", idx, proto, false, 0, 0)
		g.req(cid, "PAUSE", idx, proto, false, 0, 0)
	default: // whatever a first SETUP gives (initial when UDP is disabled: 461 keeps the session)
		g.req(cid, "SETUP", -1, "udp", false, 0, base)
	}
	return idx
}

var sessMethods = []string{"OPTIONS", "ANNOUNCE", "SETUP", "PLAY", "RECORD", "PAUSE", "TEARDOWN", "GET_PARAMETER"}

func genSess(c *corr.Ctx, i int) *Scenario {
	sc := &Scenario{Kind: "sess", Name: fmt.Sprintf("sess-%d", i)}
	if c.Rng.IntN(6) == 0 {
		sc.Cfg = "noudp"
	}
	g := &sessGen{c: c, sc: sc, connIP: map[int]int{}}
	// address set: 0 = the author's address, 1 = its other textual form (Equal), 2.. = foreign
	var a net.IP
	switch c.Rng.IntN(4) {
	case 0:
		a = mapped(net.IPv4(10, 0, 0, 5))
	case 1:
		a = net.ParseIP("fe80::1")
	default:
		a = net.IPv4(10, 0, 0, 5).To4()
	}
	other := a
	if len(a) == 4 {
		other = mapped(a)
	} else if a.To4() != nil {
		other = a.To4()
	}
	g.ips = []net.IP{a, other, net.IPv4(10, 0, 0, 6).To4(), nearMapped(net.IPv4(10, 0, 0, 5), c.Rng.IntN(4)), net.ParseIP("::1"), a}
	g.zones = []string{"", "", "", "", "", "eth1"}
	if len(a) == 16 && a.To4() == nil {
		g.zones[0], g.zones[1] = "eth0", "eth0"
	}
	base := []int{5000, 5002, 5004}[c.Rng.IntN(3)]
	g.ports = []int{base, base + 1, base + 2, base + 3, base + 4, 6000}

	author := g.open(0)
	target := c.Rng.IntN(13)
	if sc.Cfg == "noudp" && c.Rng.IntN(2) == 0 {
		target = 12
	}
	if c.Rng.IntN(3) == 0 {
		target = []int{2, 3, 6, 7}[c.Rng.IntN(4)] // streaming states are where the binding matters most
	}
	v := g.victim(author, target, base)
	victims := []int{v}
	if c.Rng.IntN(3) == 0 {
		// a second session, from the same address (port clashes) or from a foreign one
		ipIdx := []int{0, 1, 2}[c.Rng.IntN(3)]
		c2 := g.open(ipIdx)
		victims = append(victims, g.victim(c2, c.Rng.IntN(13), []int{base, base + 2, base + 4}[c.Rng.IntN(3)]))
	}
	n := 2 + c.Rng.IntN(10)
	for k := 0; k < n; k++ {
		vi := victims[c.Rng.IntN(len(victims))]
		switch r := c.Rng.IntN(20); {
		case r < 9: // an intruder: new connection, replays a request with the victim's id
			var cid int
			switch q := c.Rng.IntN(10); {
			case q < 3:
				cid = g.open(0) // same address, other connection
			case q < 5:
				cid = g.open(1) // same address in its other form
			default:
				cid = g.open(2 + c.Rng.IntN(len(g.ips)-2))
			}
			m := sessMethods[c.Rng.IntN(len(sessMethods))]
			proto := []string{"udp", "tcp"}[c.Rng.IntN(2)]
			g.req(cid, m, vi, proto, c.Rng.IntN(3) == 0, c.Rng.IntN(3), g.ports[c.Rng.IntN(len(g.ports))])
			if c.Rng.IntN(3) == 0 { // and once more on the same connection (normally closed by now)
				g.req(cid, sessMethods[c.Rng.IntN(len(sessMethods))], vi, proto, false, 0, base)
			}
		case r < 13: // the owner goes on
			m := sessMethods[c.Rng.IntN(len(sessMethods))]
			sess := vi
			if c.Rng.IntN(8) == 0 {
				sess = []int{-1, -2}[c.Rng.IntN(2)]
			}
			proto := []string{"udp", "tcp"}[c.Rng.IntN(2)]
			g.req(author, m, sess, proto, c.Rng.IntN(3) == 0, c.Rng.IntN(3), g.ports[c.Rng.IntN(len(g.ports))])
		case r < 18: // a datagram
			ch := []string{"rtp", "rtcp"}[c.Rng.IntN(2)]
			ipIdx := c.Rng.IntN(len(g.ips))
			if c.Rng.IntN(10) < 6 {
				ipIdx = c.Rng.IntN(2)
			}
			port := g.ports[c.Rng.IntN(len(g.ports))]
			if c.Rng.IntN(10) < 6 {
				port = base + c.Rng.IntN(4)
			}
			z := g.zones[ipIdx]
			if c.Rng.IntN(6) == 0 {
				z = []string{"", "eth0", "eth1"}[c.Rng.IntN(3)]
			}
			sc.Ops = append(sc.Ops, Op{K: "xdgram", Chan: ch, IP: hexIP(g.ips[ipIdx]), Zone: z, Port: port, Media: c.Rng.IntN(2)})
		case r < 19:
			sc.Ops = append(sc.Ops, Op{K: "xclose", Conn: c.Rng.IntN(g.nextCid)})
		default: // a request without / with an unknown session id from a fresh connection
			cid := g.open(c.Rng.IntN(len(g.ips)))
			g.req(cid, sessMethods[c.Rng.IntN(len(sessMethods))], []int{-1, -2}[c.Rng.IntN(2)], "udp", false, 0, base)
			if sessMethods != nil && c.Rng.IntN(2) == 0 {
				g.nSess++ // may have created a session; indices beyond the real count are sent as unknown ids
			}
		}
	}
	return sc
}
