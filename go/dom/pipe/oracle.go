package pipe

import (
	"bytes"
	"fmt"
	"math"
	"math/rand/v2"
	"sort"
	"strings"

	"verifharness/corr"
)

func newRng(seed, stream uint64) *rand.Rand { return rand.New(rand.NewPCG(seed, stream)) }

// ---------------------------------------------------------------------------------------------
// observations → operation lines for the model
// ---------------------------------------------------------------------------------------------

type item struct {
	key  float64
	ord  int
	op   string
	impl string
}

// cands: indices of the writes that overlap the open interval (cs, ce) of stamps.
func (h *harness) cands(cs, ce int64) []int {
	var out []int
	for j, w := range h.writes {
		if w.we > cs && w.wb < ce {
			out = append(out, j)
		}
	}
	return out
}

func recLine(r rec) string {
	mk := 0
	if r.marker {
		mk = 1
	}
	return fmt.Sprintf("%d.%d.%d.%d.%d.%d.%d.%s", r.m, r.pt, r.wid, r.seq, r.ts, mk, r.ssrc, corr.Hex(r.dg))
}

func recsLine(rs []rec) string {
	if len(rs) == 0 {
		return "-"
	}
	parts := make([]string, len(rs))
	for i, r := range rs {
		parts[i] = recLine(r)
	}
	return strings.Join(parts, ",")
}

func (h *harness) kinds() string {
	var sb strings.Builder
	for _, rd := range h.readers {
		if rd.udp {
			sb.WriteByte('u')
		} else {
			sb.WriteByte('t')
		}
	}
	return sb.String()
}

func (h *harness) mediasArg() string {
	var ms []string
	for m, pts := range h.sc.Medias {
		var fs []string
		for f, pt := range pts {
			fs = append(fs, fmt.Sprintf("%d:%d", pt, h.ssrc[m][f]))
		}
		ms = append(ms, strings.Join(fs, ","))
	}
	if h.backMedia != nil {
		ms = append(ms, fmt.Sprintf("%d:%d", backPT, h.backSSRC)) // the back channel: set up by some readers, never written by the stream
	}
	return strings.Join(ms, ";")
}

// buildCase turns the observed history into the operation lines of the model and the lines the
// implementation answered.  Control operations are placed where their effect was observed: a PLAY
// just before the first write that was fanned out to the reader (or when it returned), a PAUSE /
// close just after the last one.
func (h *harness) buildCase(name string) corr.Case {
	sc := h.sc
	var items []item
	ord := 0
	add := func(key float64, op, impl string) {
		items = append(items, item{key: key, ord: ord, op: op, impl: impl})
		ord++
	}
	add(math.Inf(-1), fmt.Sprintf("pipe init %d %s %s", sc.Cap, h.mediasArg(), h.kinds()), "ok")
	maxStamp := float64(h.clock.Load() + 10)
	// masked[j][r]: write j falls between the server's OnPause of reader r and the end of that PAUSE
	masked := make([][]bool, len(h.writes))
	for j := range masked {
		masked[j] = make([]bool, len(h.readers))
	}
	for _, rd := range h.readers {
		r := rd.idx
		firstPlay := true
		nPause := 0
		for _, ob := range rd.ctl {
			switch ob.op {
			case "play":
				cs := h.cands(ob.cs, ob.cd)
				key := float64(ob.cd)
				if len(cs) > 0 {
					key = float64(h.writes[cs[len(cs)-1]].wb) + 0.5
					for _, j := range cs {
						if h.writes[j].fan[r] != '-' {
							key = float64(h.writes[j].wb) - 0.5
							break
						}
					}
				}
				if firstPlay {
					firstPlay = false
					for k, m := range rd.spec.Medias {
						ch := 2 * k
						if k < len(rd.chans) && rd.chans[k] >= 0 {
							ch = rd.chans[k]
						}
						req := "-"
						if rd.spec.Raw && k < len(rd.spec.Chans) && rd.spec.Chans[k] >= 0 {
							req = fmt.Sprint(rd.spec.Chans[k])
						} else if !rd.spec.Raw && !rd.udp {
							req = fmt.Sprint(2 * k) // the library client asks for 0-1, 2-3, …
						}
						add(key, fmt.Sprintf("pipe setup %d %d %s", r, m, req), fmt.Sprintf("ch %d", ch))
					}
					h.backSetupOp(rd, key, add)
				}
				add(key, fmt.Sprintf("pipe play %d", r), "ok")
			case "replay":
				add(float64(ob.cd), fmt.Sprintf("pipe replay %d", r), "ok")
			case "refused":
				// a refused PLAY / PAUSE is no event at all
				if ob.first {
					for k, m := range rd.spec.Medias {
						ch := 2 * k
						if k < len(rd.chans) && rd.chans[k] >= 0 {
							ch = rd.chans[k]
						}
						req := "-"
						if !rd.udp {
							req = fmt.Sprint(2 * k)
						}
						add(float64(ob.cs), fmt.Sprintf("pipe setup %d %d %s", r, m, req), fmt.Sprintf("ch %d", ch))
					}
					h.backSetupOp(rd, float64(ob.cs), add)
					firstPlay = false
				}
			case "pause":
				cs := h.cands(ob.cs, ob.cd)
				k1 := float64(ob.cs)
				k2 := k1
				if len(cs) > 0 {
					k1 = float64(h.writes[cs[0]].wb) - 0.5
					k2 = k1
					for _, j := range cs {
						if h.writes[j].fan[r] != '-' {
							k2 = float64(h.writes[j].wb) + 0.5
						}
					}
				}
				// where the server destroyed the writer
				kc := k2
				if nPause < len(rd.pauseSeen) {
					hs := rd.pauseSeen[nPause]
					kc = float64(hs)
					for _, j := range cs {
						if h.writes[j].wb < hs && h.writes[j].we > hs {
							// the write that overlaps the handler's return: pushed before or after ring.Close()
							if h.writes[j].fan[r] == '-' {
								kc = float64(h.writes[j].wb) - 0.5 // already inactive when this write fanned out
							} else {
								kc = float64(h.writes[j].wb) + 0.5
								masked[j][r] = true
							}
						}
					}
				}
				nPause++
				if kc < k1 {
					kc = k1
				}
				if k2 < kc {
					k2 = kc
				}
				for _, j := range cs {
					if wb := float64(h.writes[j].wb); wb > kc && wb < k2 {
						masked[j][r] = true
					}
				}
				if rd.udp {
					add(k1, fmt.Sprintf("pipe pstart %d -", r), "ok")
					add(kc, fmt.Sprintf("pipe pcl %d", r), "ok")
					add(k2, fmt.Sprintf("pipe pinact %d", r), "ok")
				} else {
					add(k1, fmt.Sprintf("pipe pstart %d %d", r, ob.k), "ok")
					add(kc, fmt.Sprintf("pipe pcl %d", r), "ok")
					add(k2, fmt.Sprintf("pipe pinact %d", r), fmt.Sprintf("ok %d", ob.k))
				}
			case "leave":
				if !ob.hadSession {
					continue
				}
				if ob.graceful {
					if rd.udp {
						add(maxStamp, fmt.Sprintf("pipe drain %d", r), "ok")
						add(maxStamp, fmt.Sprintf("pipe leave %d -", r), "ok")
					} else {
						add(maxStamp, fmt.Sprintf("pipe drain %d", r), fmt.Sprintf("ok %d", ob.drainK))
						add(maxStamp, fmt.Sprintf("pipe leave %d %d", r, ob.k), fmt.Sprintf("ok %d", ob.k))
					}
					continue
				}
				end := ob.closed
				if end == 0 {
					end = ob.cd
				}
				cs := h.cands(ob.cs, end)
				key := float64(ob.cs)
				if len(cs) > 0 {
					key = float64(h.writes[cs[0]].wb) - 0.5
					for _, j := range cs {
						if h.writes[j].fan[r] != '-' {
							key = float64(h.writes[j].wb) + 0.5
						}
					}
				}
				if rd.udp {
					add(key, fmt.Sprintf("pipe leave %d -", r), "ok")
				} else {
					add(key, fmt.Sprintf("pipe leave %d %d", r, ob.k), fmt.Sprintf("ok %d", ob.k))
				}
			}
		}
		for _, a := range rd.arrivals {
			if a.wid >= 0 {
				add(float64(a.stamp), fmt.Sprintf("pipe arrive %d %d", r, a.wid), "ok")
			}
		}
	}
	for j, w := range h.writes {
		if w.err != nil {
			// a write that returned an error reaches no reader (it still is write number j)
			add(float64(w.wb), "pipe werr", "err")
			continue
		}
		p := h.pk[j]
		mk := 0
		if p.marker {
			mk = 1
		}
		if h.sc.Relay != "" {
			p.ssrcIn = w.ssrcIn
		}
		fb := append([]byte{}, w.fan...)
		for r := range fb {
			if masked[j][r] && fb[r] != '-' {
				fb[r] = '?'
			}
		}
		fan := string(fb)
		if fan == "" {
			fan = "."
		}
		add(float64(w.wb), fmt.Sprintf("pipe write %d %d %d %d %d %d %s %s", p.media, p.pt, p.seq, p.ts, mk, p.ssrcIn,
			corr.Hex(pktDigest(expectedPacket(sc, h.pwid[j], p))), fan), fan)
	}
	sort.SliceStable(items, func(i, j int) bool {
		if items[i].key != items[j].key {
			return items[i].key < items[j].key
		}
		return items[i].ord < items[j].ord
	})
	cs := corr.Case{Name: name, Nontrivial: len(h.writes) > 1}
	for _, it := range items {
		cs.Ops = append(cs.Ops, it.op)
		cs.Impl = append(cs.Impl, it.impl)
	}
	for _, rd := range h.readers {
		if rd.udp {
			for _, m := range rd.spec.Medias {
				for _, pt := range sc.Medias[m] {
					var sel []rec
					for _, rc := range rd.recs {
						if rc.m == m && int(rc.pt) == pt {
							sel = append(sel, rc)
						}
					}
					cs.Ops = append(cs.Ops, fmt.Sprintf("pipe cbsf %d %d %d", rd.idx, m, pt))
					cs.Impl = append(cs.Impl, recsLine(sel))
				}
			}
		} else {
			cs.Ops = append(cs.Ops, fmt.Sprintf("pipe cbs %d", rd.idx))
			cs.Impl = append(cs.Impl, recsLine(rd.recs))
		}
	}
	return cs
}

// checkServerDecode: whatever the clients of the harness send is well formed and sent once: the server has
// nothing to complain about (an SRTP authentication or replay failure means that what left the client is
// not what was written). Injected duplication / reordering on the publisher hop may trip replay protection.
func (h *harness) checkServerDecode(c *corr.Ctx) {
	sc := h.sc
	h.mu.Lock()
	n, errs := h.nSrvDecode, append([]string{}, h.srvDecode...)
	h.mu.Unlock()
	if n == 0 || sc.PubDup > 0 || sc.PubReorder > 0 {
		return
	}
	c.Violate(corr.Violation{Property: "C01", Clause: "every packet a client sends is decoded by the server session", Key: "c01-server-decode-error",
		Where: "client (publisher / back channel) → transport → server session", Input: sc,
		Detail: fmt.Sprintf("the server reported %d decode errors: %v", n, errs)})
}

// backSetupOp: the reader's SETUP of the back channel media (the last media of the model's description).
func (h *harness) backSetupOp(rd *reader, key float64, add func(float64, string, string)) {
	if !rd.spec.Back || h.backMedia == nil {
		return
	}
	k := len(rd.spec.Medias)
	ch := 2 * k
	if k < len(rd.chans) && rd.chans[k] >= 0 {
		ch = rd.chans[k]
	}
	req := "-"
	if !rd.udp {
		req = fmt.Sprint(2 * k)
	}
	add(key, fmt.Sprintf("pipe setup %d %d %s", rd.idx, len(h.sc.Medias), req), fmt.Sprintf("ch %d", ch))
}

// ---------------------------------------------------------------------------------------------
// the property itself, on the implementation's outputs
// ---------------------------------------------------------------------------------------------

type interval struct {
	play     cobs
	end      *cobs // pause or leave (nil: none observed)
	from, to int   // callbacks [from, to) belong to the interval
}

func (rd *reader) intervals() []interval {
	var out []interval
	cur := -1
	prevK := 0
	for i := range rd.ctl {
		ob := rd.ctl[i]
		switch ob.op {
		case "play":
			out = append(out, interval{play: ob, from: prevK, to: len(rd.recs)})
			cur = len(out) - 1
		case "pause", "leave":
			if cur >= 0 {
				out[cur].end = &rd.ctl[i]
				out[cur].to = ob.k
				cur = -1
			}
			prevK = ob.k
		}
	}
	return out
}

// checkWire: the two clauses that can be evaluated even when a scenario had to be abandoned.
func (h *harness) checkWire(c *corr.Ctx) {
	viol := func(clause, key, detail string) {
		c.Violate(corr.Violation{Property: "C01", Clause: clause, Key: key, Where: "TCP connection shared by the media writer and the response writer", Input: h.sc, Detail: detail})
	}
	if h.ns != nil {
		h.ns.mu.Lock()
		nSplit, firstSplit := h.ns.nSplit, h.ns.firstSplit
		h.ns.mu.Unlock()
		if nSplit > 0 {
			viol("every interleaved frame / response / request is handed to the connection in one Write (the media writer and the response writer share it)",
				"c01-split-write", fmt.Sprintf("%d Writes were not whole messages; first: %s", nSplit, firstSplit))
		}
	}
	for _, rd := range h.readers {
		rd.mu.Lock()
		errs := append([]string{}, rd.decodeErrs...)
		rd.mu.Unlock()
		if !rd.udp && len(errs) > 0 && !(h.sc.TLS && h.sc.ExpectDesync) {
			viol("every frame of a reliable transport is decoded", "c01-decode-error",
				fmt.Sprintf("reader %d (%s): %v", rd.idx, rd.spec.Transport, errs))
		}
	}
}

func (h *harness) checkProperty(c *corr.Ctx) {
	sc := h.sc
	desync := false // the reader under examination lost the SRTP rollover counter (known finding)
	viol := func(clause, key, detail string) {
		if desync && (key == "c01-tcp-missing" || key == "c01-tcp-missing-tail" || key == "c01-decode-error") {
			key = "c01-srtp-roc-desync"
		}
		c.Violate(corr.Violation{Property: "C01", Clause: clause, Key: key, Where: "server stream → session queue → transport → client callback", Input: sc, Detail: detail})
	}
	h.ns.mu.Lock()
	nSplit, firstSplit := h.ns.nSplit, h.ns.firstSplit
	h.ns.mu.Unlock()
	if nSplit > 0 {
		viol("every interleaved frame / response / request is handed to the connection in one Write (the media writer and the response writer share it)",
			"c01-split-write", fmt.Sprintf("%d Writes were not whole messages; first: %s", nSplit, firstSplit))
	}
	for j, w := range h.writes {
		if w.err != nil && !h.pk[j].mayErr {
			viol("a packet of 1..max payload bytes is accepted by the stream writer", "c01-write-error",
				fmt.Sprintf("write %d (payload %d bytes) returned %v", j, h.pk[j].size, w.err))
		}
	}
	for _, rd := range h.readers {
		r := rd.idx
		who := fmt.Sprintf("reader %d (%s)", r, rd.spec.Transport)
		desync = false
		if sc.TLS && sc.ExpectDesync {
			for _, e := range rd.decodeErrs {
				if strings.Contains(e, "auth tag") {
					desync = true
				}
			}
		}
		// identity
		for i, rc := range rd.recs {
			if rc.wid < 0 {
				viol("every received packet was written to that same media and format", "c01-foreign",
					fmt.Sprintf("%s callback %d (media %d format %d seq %d ts %d): %s", who, i, rc.m, rc.pt, rc.seq, rc.ts, rc.why))
				continue
			}
			if rc.why != "" {
				viol("identical payload, marker, timestamp, sequence number and payload type", "c01-fields",
					fmt.Sprintf("%s callback %d = write %d: %s", who, i, rc.wid, rc.why))
			}
			p := h.pk[rc.wid]
			if rc.ssrc != h.ssrc[p.media][p.fi] {
				viol("the SSRC announced in SETUP is the SSRC carried by the packets", "c01-ssrc",
					fmt.Sprintf("%s callback %d carries SSRC %d, the stream's local SSRC of media %d format %d is %d", who, i, rc.ssrc, p.media, p.pt, h.ssrc[p.media][p.fi]))
			}
			if j := rc.wid; j < len(h.writes) && h.writes[j].fan[r] != 'a' {
				viol("every received packet was pushed to this reader", "c01-not-pushed",
					fmt.Sprintf("%s callback %d = write %d whose push outcome for this reader was %q", who, i, j, h.writes[j].fan[r]))
			}
		}
		for k, a := range rd.announced {
			if k >= len(rd.spec.Medias) {
				break
			}
			m := rd.spec.Medias[k]
			if a != nil && (len(h.ssrc[m]) != 1 || *a != h.ssrc[m][0]) {
				viol("the SSRC announced in SETUP is the SSRC carried by the packets", "c01-ssrc-announced",
					fmt.Sprintf("%s SETUP of media %d announced ssrc=%d, stream local SSRCs %v", who, m, *a, h.ssrc[m]))
			}
			if a == nil && len(h.ssrc[m]) == 1 {
				c.Dist("setup-without-ssrc")
			}
		}
		// secure: the SETUP response announces every format of the media with its current rollover counter
		if sc.TLS {
			var setupOb *cobs
			for i := range rd.ctl {
				if rd.ctl[i].op == "setup" || (rd.ctl[i].op == "play" && rd.ctl[i].first) {
					setupOb = &rd.ctl[i]
					break
				}
			}
			for k, entries := range rd.keyMgmt {
				if k >= len(rd.spec.Medias) || setupOb == nil {
					break
				}
				m := rd.spec.Medias[k]
				for f, want := range h.ssrc[m] {
					var got *mikeyEntry
					for i := range entries {
						if entries[i].ssrc == want {
							got = &entries[i]
						}
					}
					if got == nil {
						viol("the SETUP response announces every format of the media (SSRC and rollover counter)", "c01-mikey-ssrc-missing",
							fmt.Sprintf("%s SETUP of media %d: the MIKEY CS-ID map %v does not list SSRC %d of format %d", who, m, entries, want, sc.Medias[m][f]))
						continue
					}
					// rollover counter of the format: between its value before the SETUP began and after it returned
					first, nLo, nHi := -1, 0, 0
					for j, w := range h.writes {
						if w.err != nil || h.pk[j].media != m || h.pk[j].fi != f {
							continue
						}
						if first < 0 {
							first = int(h.pk[j].seq)
						}
						if w.we < setupOb.cs {
							nLo++
						}
						if w.wb < setupOb.cd {
							nHi++
						}
					}
					if first >= 0 && !sc.ArbSeq {
						rocOf := func(n int) uint32 {
							if n == 0 {
								return 0
							}
							return uint32((first + n - 1) >> 16)
						}
						if got.roc < rocOf(nLo) || got.roc > rocOf(nHi) {
							viol("the SETUP response announces every format of the media (SSRC and rollover counter)", "c01-mikey-roc",
								fmt.Sprintf("%s SETUP of media %d: format %d announced with ROC %d, the writer's sequence number wrapped %d..%d times", who, m, sc.Medias[m][f], got.roc, rocOf(nLo), rocOf(nHi)))
						}
					}
				}
			}
		}
		if !rd.udp {
			if a, b, bad := overlap(rd.chans); bad {
				viol("the interleaved channel pairs announced in the SETUP responses of one session do not overlap", "c01-channel-overlap",
					fmt.Sprintf("%s: SETUP responses announced the pairs %d-%d and %d-%d", who, a, a+1, b, b+1))
			}
		}
		// order, at most once
		if rd.udp {
			last := map[[2]int]int{}
			for i, rc := range rd.recs {
				if rc.wid < 0 {
					continue
				}
				k := [2]int{rc.m, int(rc.pt)}
				if prev, ok := last[k]; ok && rc.wid <= prev {
					key := "c01-udp-order"
					if rc.wid == prev {
						key = "c01-duplicate"
					}
					viol("over UDP the received sequence is an in-order subsequence of what was written", key,
						fmt.Sprintf("%s callback %d is write %d after write %d (media %d format %d)", who, i, rc.wid, prev, rc.m, rc.pt))
				}
				last[k] = rc.wid
			}
		} else {
			prev := -1
			for i, rc := range rd.recs {
				if rc.wid < 0 {
					continue
				}
				if rc.wid <= prev {
					key := "c01-order"
					if rc.wid == prev {
						key = "c01-duplicate"
					}
					viol("packets arrive in the order written and at most once", key,
						fmt.Sprintf("%s callback %d is write %d after write %d", who, i, rc.wid, prev))
				}
				prev = rc.wid
			}
		}
		// reliable transports: nothing missing unless signalled
		for _, iv := range rd.intervals() {
			endStart, endDone := int64(math.MaxInt64), int64(math.MaxInt64)
			if iv.end != nil {
				endStart, endDone = iv.end.cs, iv.end.cd
				if iv.end.op == "leave" && iv.end.closed != 0 {
					endDone = iv.end.closed
				}
			}
			var acc []int
			inWindow := 0
			for j, w := range h.writes {
				if w.err != nil {
					continue
				}
				med := false
				for _, m := range rd.spec.Medias {
					if m == h.pk[j].media {
						med = true
					}
				}
				if med && w.wb > iv.play.cd && w.we < endStart && w.fan[r] == '-' {
					viol("no packet written after the reader's PLAY completed is missing", "c01-not-fanned",
						fmt.Sprintf("%s: write %d (media %d) started after PLAY returned and ended before the next PAUSE/close began, but was not handed to the reader's session", who, j, h.pk[j].media))
				}
				if w.we > iv.play.cs && w.wb < endDone {
					if w.fan[r] == 'a' {
						acc = append(acc, j)
					}
					if w.we > endStart && w.fan[r] != '-' {
						inWindow++
					}
				}
			}
			if rd.udp {
				continue
			}
			got := rd.recs[iv.from:min(iv.to, len(rd.recs))]
			for i, rc := range got {
				if i >= len(acc) {
					viol("every received packet was written while the reader was playing", "c01-extra",
						fmt.Sprintf("%s received %d packets in a play interval with %d accepted pushes", who, len(got), len(acc)))
					break
				}
				if rc.wid != acc[i] {
					viol("over TCP-based transports no packet written after PLAY completed is missing unless a write-queue-full error was reported",
						"c01-tcp-missing", fmt.Sprintf("%s: callback %d of the interval is write %d, the %d-th accepted push is write %d (skipped without an error)", who, i, rc.wid, i, acc[i]))
					break
				}
			}
			missing := len(acc) - len(got)
			if missing > 0 && iv.end != nil {
				switch {
				case iv.end.op == "pause" && missing > sc.Cap+inWindow:
					viol("over TCP-based transports no packet written after PLAY completed is missing unless a write-queue-full error was reported",
						"c01-tcp-missing-tail", fmt.Sprintf("%s: %d accepted packets before its PAUSE were never delivered (queue capacity %d, %d written during the PAUSE)", who, missing, sc.Cap, inWindow))
				case iv.end.op == "leave" && iv.end.graceful:
					viol("over TCP-based transports no packet written after PLAY completed is missing unless a write-queue-full error was reported",
						"c01-tcp-missing-tail", fmt.Sprintf("%s: %d accepted packets were never delivered although the reader kept playing until everything was written", who, missing))
				}
			}
			// a refusal needs a full queue: accepted-but-undelivered packets ≥ capacity
			nAcc := 0
			for j, w := range h.writes {
				if !(w.we > iv.play.cs && w.wb < endDone) {
					continue
				}
				if w.fan[r] == 'a' {
					nAcc++
				}
				if w.fan[r] == 'f' {
					delivered := sort.Search(len(got), func(i int) bool { return got[i].stamp >= w.wb })
					if nAcc-delivered < sc.Cap {
						viol("a write-queue-full error is reported only for a full queue", "c01-spurious-full",
							fmt.Sprintf("%s: write %d was refused with %d accepted and %d delivered packets in the interval (capacity %d)", who, j, nAcc, delivered, sc.Cap))
					}
				}
			}
		}
		if !rd.udp && len(rd.decodeErrs) > 0 {
			viol("every frame of a reliable transport is decoded", "c01-decode-error", fmt.Sprintf("%s: %v", who, rd.decodeErrs))
		}
		// back channel (client → server inside the PLAY session): identical packets, in order, at most once;
		// on reliable transports every accepted packet (the reader waits for each burst before it goes on)
		if rd.spec.Back {
			var acc []uint16
			for i, o := range rd.backOut {
				if o == 'a' {
					acc = append(acc, uint16(1000+i))
				}
			}
			prev := -1
			for i, br := range rd.backRecs {
				if !br.ok {
					viol("identical payload, marker, timestamp, sequence number and payload type", "c01-back-fields",
						fmt.Sprintf("%s back channel: packet %d (seq %d) differs from what the reader wrote", who, i, br.seq))
				}
				if int(br.seq) <= prev {
					viol("packets arrive in the order written and at most once", "c01-back-order",
						fmt.Sprintf("%s back channel: seq %d after %d", who, br.seq, prev))
				}
				prev = int(br.seq)
			}
			if !rd.udp {
				for i := range acc {
					if i >= len(rd.backRecs) || rd.backRecs[i].seq != acc[i] {
						viol("over TCP-based transports no packet is missing unless a write-queue-full error was returned to the writer", "c01-back-missing",
							fmt.Sprintf("%s back channel: %d packets accepted by WritePacketRTP, the server session received %d (first difference at %d)", who, len(acc), len(rd.backRecs), i))
						break
					}
				}
			} else if d := rd.backSet.list(); len(d) > 0 {
				viol("every accepted packet is sent once, as written", "c01-back-sent-twice",
					fmt.Sprintf("%s back channel: the client's socket sent the same datagram twice: %v", who, d))
			} else if sent := int(rd.backSent.Load()); sent < len(acc) {
				viol("a packet accepted by WritePacketRTP is sent", "c01-back-not-sent",
					fmt.Sprintf("%s back channel: %d packets accepted by WritePacketRTP, %d datagrams left the client's socket", who, len(acc), sent))
			}
		}
		// buffers handed to the callback are not reused
		for i, rc := range rd.recs {
			if rc.alias != nil && rc.wid >= 0 && rc.why == "" {
				p := h.pk[rc.wid]
				if !bytes.Equal(rc.alias, genPayload(sc.Seed, h.pwid[rc.wid], p.size)) {
					viol("a delivered payload is not overwritten by later packets", "c01-retention",
						fmt.Sprintf("%s: the payload slice of callback %d (write %d) changed after the callback returned", who, i, rc.wid))
					break
				}
			}
		}
	}
}

// ---------------------------------------------------------------------------------------------
// second direction: publisher → server session (hop 1), then the re-indexing for hop 2
// ---------------------------------------------------------------------------------------------

// checkRelay evaluates the property on what the server session's callback received from the publisher.
func (h *harness) checkRelay(c *corr.Ctx) {
	sc := h.sc
	viol := func(clause, key, detail string) {
		c.Violate(corr.Violation{Property: "C01", Clause: clause, Key: key, Where: "recording client → client queue → transport → server session callback", Input: sc, Detail: detail})
	}
	who := "publisher (" + sc.Relay + ")"
	if d := h.pubSet.list(); len(d) > 0 {
		viol("every accepted packet is sent once, as written", "c01-relay-sent-twice",
			fmt.Sprintf("%s: the client's socket sent the same datagram twice: %v", who, d))
	}
	if h.rawPub != nil {
		if a, b, bad := overlap(h.rawPub.chans); bad {
			viol("the interleaved channel pairs announced in the SETUP responses of one session do not overlap", "c01-channel-overlap",
				fmt.Sprintf("%s: SETUP responses announced the pairs %d-%d and %d-%d", who, a, a+1, b, b+1))
		}
	}
	ssrcOf := map[[2]int]uint32{}
	last := map[[2]int]int{}
	prev := -1
	var got []int
	for i, rc := range h.relayRecs {
		if rc.wid < 0 {
			viol("every packet the session receives was written by the publisher to that media and format", "c01-relay-foreign",
				fmt.Sprintf("%s: server callback %d (media %d format %d seq %d): %s", who, i, rc.m, rc.pt, rc.seq, rc.why))
			continue
		}
		if rc.why != "" {
			viol("identical payload, marker, timestamp, sequence number and payload type", "c01-relay-fields",
				fmt.Sprintf("%s: server callback %d = write %d: %s", who, i, rc.wid, rc.why))
		}
		if h.pubOut[rc.wid] != 'a' {
			viol("every received packet was accepted by the publisher's queue", "c01-relay-not-pushed",
				fmt.Sprintf("%s: server callback %d = write %d whose WritePacketRTP returned %q", who, i, rc.wid, h.pubOut[rc.wid]))
		}
		k := [2]int{rc.m, int(rc.pt)}
		if s, ok := ssrcOf[k]; ok && s != rc.ssrc {
			viol("one SSRC per format", "c01-relay-ssrc", fmt.Sprintf("%s: media %d format %d arrives with SSRC %d and %d", who, rc.m, rc.pt, s, rc.ssrc))
		}
		ssrcOf[k] = rc.ssrc
		if sc.Relay == "udp" {
			if p, ok := last[k]; ok && rc.wid <= p {
				key := "c01-relay-order"
				if rc.wid == p {
					key = "c01-relay-duplicate"
				}
				viol("over UDP the received sequence is an in-order subsequence of what was written", key,
					fmt.Sprintf("%s: server callback %d is write %d after write %d", who, i, rc.wid, p))
			}
			last[k] = rc.wid
		} else {
			if rc.wid <= prev {
				key := "c01-relay-order"
				if rc.wid == prev {
					key = "c01-relay-duplicate"
				}
				viol("packets arrive in the order written and at most once", key,
					fmt.Sprintf("%s: server callback %d is write %d after write %d", who, i, rc.wid, prev))
			}
			prev = rc.wid
		}
		got = append(got, rc.wid)
	}
	if sc.Relay == "udp" && h.rawPub == nil {
		accepted := 0
		for _, o := range h.pubOut {
			if o == 'a' {
				accepted++
			}
		}
		qs := sc.PubCap
		if qs == 0 {
			qs = 256
		}
		_ = accepted
		// between two refused PAUSEs at most one queue is forfeited (Client.Pause destroys the write queue
		// before it asks); after the last one everything accepted leaves the socket
		lo, sentLo := 0, 0
		for b := 0; b <= len(h.pubPauses); b++ {
			hi, sentHi, last := len(h.pubOut), int(h.pubSent.Load()), true
			if b < len(h.pubPauses) {
				hi, sentHi, last = h.pubPauses[b].at, h.pubPauses[b].sent, false
			}
			acc := 0
			for wid := lo; wid < hi; wid++ {
				if h.pubOut[wid] == 'a' {
					acc++
				}
			}
			if missing := acc - (sentHi - sentLo); (last && missing > 0) || missing > qs {
				viol("a packet accepted by WritePacketRTP is sent", "c01-relay-not-sent",
					fmt.Sprintf("%s: of the %d writes accepted in [%d, %d) %d datagrams left the client's sockets (client queue %d, refused PAUSE at the end of the range: %v)",
						who, acc, lo, hi, sentHi-sentLo, qs, !last))
			}
			lo, sentLo = hi, sentHi
		}
	}
	if sc.Relay == "tcp" {
		// between two (refused) PAUSEs of the publisher: what the server received is a prefix of what was
		// accepted, short by at most the queue (Client.Pause destroys the write queue before it asks);
		// after the last one: everything
		qs := sc.PubCap
		if qs == 0 {
			qs = 256
		}
		bounds := []int{0}
		for _, pp := range h.pubPauses {
			bounds = append(bounds, pp.at)
		}
		bounds = append(bounds, len(h.pubOut))
		gi := 0
		for b := 0; b+1 < len(bounds); b++ {
			var acc []int
			for wid := bounds[b]; wid < bounds[b+1]; wid++ {
				if h.pubOut[wid] == 'a' {
					acc = append(acc, wid)
				}
			}
			n := 0
			for gi < len(got) && got[gi] < bounds[b+1] {
				if n >= len(acc) || acc[n] != got[gi] {
					exp := -1
					if n < len(acc) {
						exp = acc[n]
					}
					viol("over TCP-based transports no packet is missing unless a write-queue-full error was returned to the writer", "c01-relay-missing",
						fmt.Sprintf("%s: server callback %d is write %d, the next accepted write is %d", who, gi, got[gi], exp))
					return
				}
				n++
				gi++
			}
			missing := len(acc) - n
			last := b+2 == len(bounds)
			if (last && missing > 0) || missing > qs {
				viol("over TCP-based transports no packet is missing unless a write-queue-full error was returned to the writer", "c01-relay-missing-tail",
					fmt.Sprintf("%s: of the %d writes accepted in [%d, %d) the server session received %d (client queue %d, refused PAUSE at the end of the range: %v)",
						who, len(acc), bounds[b], bounds[b+1], n, qs, !last))
			}
		}
	}
}

// buildPubCase: hop 1 on the model (second instance, domain word `pub`): one reader = the server session.
func (h *harness) buildPubCase(name string) corr.Case {
	sc := h.sc
	ssrcOf := map[[2]int]uint32{}
	for _, rc := range h.relayRecs {
		if rc.wid >= 0 {
			ssrcOf[[2]int{rc.m, int(rc.pt)}] = rc.ssrc
		}
	}
	var ms []string
	for m, pts := range sc.Medias {
		var fs []string
		for _, pt := range pts {
			fs = append(fs, fmt.Sprintf("%d:%d", pt, ssrcOf[[2]int{m, pt}]))
		}
		ms = append(ms, strings.Join(fs, ","))
	}
	kind := "t"
	if sc.Relay == "udp" {
		kind = "u"
	}
	qs := sc.PubCap
	if qs == 0 {
		qs = 256
	}
	var items []item
	ord := 0
	add := func(key float64, op, impl string) {
		items = append(items, item{key: key, ord: ord, op: op, impl: impl})
		ord++
	}
	if h.rawPub != nil {
		qs = 1 << 20 // no client queue: the frames are written straight to the connection
	}
	add(-3, fmt.Sprintf("pub init %d %s %s", qs, strings.Join(ms, ";"), kind), "ok")
	if h.rawPub != nil {
		for k, m := range h.rawPub.order {
			req := "-"
			if h.rawPub.req[k] >= 0 {
				req = fmt.Sprint(h.rawPub.req[k])
			}
			add(-2, fmt.Sprintf("pub setup 0 %d %s", m, req), fmt.Sprintf("ch %d", h.rawPub.chans[k]))
		}
	} else {
		for m := range sc.Medias {
			req := "-"
			if sc.Relay == "tcp" {
				req = fmt.Sprint(2 * m)
			}
			add(-2, fmt.Sprintf("pub setup 0 %d %s", m, req), fmt.Sprintf("ch %d", 2*m))
		}
	}
	add(-1, "pub play 0", "ok")
	for wid, o := range h.pubOut {
		if o != 'a' && o != 'f' {
			continue
		}
		p := h.pkPub[wid]
		mk := 0
		if p.marker {
			mk = 1
		}
		add(float64(h.pubStamp[wid]), fmt.Sprintf("pub write %d %d %d %d %d %d %s %c", p.media, p.pt, p.seq, p.ts, mk, p.ssrcIn,
			corr.Hex(pktDigest(expectedPacket(sc, wid, p))), o), string(o))
	}
	// a refused PAUSE of the publisher: Client.Pause destroys the write queue (what is queued is dropped),
	// asks, and on the refusal builds a new queue and starts it - for the model: the queue is discarded and
	// the hop is playing again at once
	for _, pp := range h.pubPauses {
		key := float64(pp.stamp)
		if sc.Relay == "udp" {
			add(key, "pub pstart 0 -", "ok")
			add(key, "pub pcl 0", "ok")
			add(key, "pub pinact 0", "ok")
		} else {
			k := 0
			for _, rc := range h.relayRecs {
				if rc.wid >= 0 && rc.wid < pp.at {
					k++
				}
			}
			add(key, fmt.Sprintf("pub pstart 0 %d", k), "ok")
			add(key, "pub pcl 0", "ok")
			add(key, "pub pinact 0", fmt.Sprintf("ok %d", k))
		}
		add(key, "pub play 0", "ok")
	}
	// the model numbers writes by position among the `write` operations
	pos := map[int]int{}
	n := 0
	for wid, o := range h.pubOut {
		if o == 'a' || o == 'f' {
			pos[wid] = n
			n++
		}
	}
	for _, a := range h.relayArr {
		if j, ok := pos[a.wid]; ok && h.pubOut[a.wid] == 'a' {
			add(float64(a.stamp), fmt.Sprintf("pub arrive 0 %d", j), "ok")
		}
	}
	sort.SliceStable(items, func(i, j int) bool {
		if items[i].key != items[j].key {
			return items[i].key < items[j].key
		}
		return items[i].ord < items[j].ord
	})
	cs := corr.Case{Name: name, Nontrivial: true}
	for _, it := range items {
		cs.Ops = append(cs.Ops, it.op)
		cs.Impl = append(cs.Impl, it.impl)
	}
	remap := func(rs []rec) []rec {
		out := make([]rec, len(rs))
		for i, rc := range rs {
			out[i] = rc
			if j, ok := pos[rc.wid]; ok {
				out[i].wid = j
			} else {
				out[i].wid = -1
			}
		}
		return out
	}
	if sc.Relay == "udp" {
		cs.Ops = append(cs.Ops, "pub drain 0")
		cs.Impl = append(cs.Impl, "ok")
		for m, pts := range sc.Medias {
			for _, pt := range pts {
				var sel []rec
				for _, rc := range h.relayRecs {
					if rc.m == m && int(rc.pt) == pt {
						sel = append(sel, rc)
					}
				}
				cs.Ops = append(cs.Ops, fmt.Sprintf("pub cbsf 0 %d %d", m, pt))
				cs.Impl = append(cs.Impl, recsLine(remap(sel)))
			}
		}
	} else {
		cs.Ops = append(cs.Ops, "pub drain 0")
		cs.Impl = append(cs.Impl, fmt.Sprintf("ok %d", len(h.relayRecs)))
		cs.Ops = append(cs.Ops, "pub cbs 0")
		cs.Impl = append(cs.Impl, recsLine(remap(h.relayRecs)))
	}
	return cs
}

// reindex: from here on "write j" is the j-th ServerStream.WritePacketRTP made by the relaying session.
func (h *harness) reindex() {
	h.pkPub = h.pk
	stage := map[int]int{}
	pk2 := make([]pktMeta, len(h.writes))
	for j, wid := range h.pwid {
		stage[wid] = j
		pk2[j] = h.pkPub[wid]
	}
	h.pk = pk2
	for _, rd := range h.readers {
		for i := range rd.recs {
			if rd.recs[i].wid >= 0 {
				if j, ok := stage[rd.recs[i].wid]; ok {
					rd.recs[i].wid = j
				} else {
					rd.recs[i].why = fmt.Sprintf("publisher write %d never reached the stream", rd.recs[i].wid)
					rd.recs[i].wid = -1
				}
			}
		}
		var arr []aobs
		for _, a := range rd.arrivals {
			if j, ok := stage[a.wid]; ok {
				arr = append(arr, aobs{wid: j, stamp: a.stamp})
			}
		}
		rd.arrivals = arr
	}
}
