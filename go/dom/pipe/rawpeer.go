package pipe

import (
	"bufio"
	"context"
	"crypto/tls"
	"errors"
	"fmt"
	"io"
	"net"
	"strconv"
	"strings"
	"sync"
	"sync/atomic"
	"time"

	"github.com/pion/rtp"

	"github.com/bluenviron/gortsplib/v5/pkg/base"
	"github.com/bluenviron/gortsplib/v5/pkg/conn"
	"github.com/bluenviron/gortsplib/v5/pkg/description"
	"github.com/bluenviron/gortsplib/v5/pkg/format"
	"github.com/bluenviron/gortsplib/v5/pkg/headers"
)

// Raw RTSP peers: the requests are written by hand (pkg/base on a TCP connection), so that the
// interleaved channel pairs can be anything a client may ask for - explicit, odd-based, high, or left
// to the server - in any SETUP order.  (The library client always asks for 0-1, 2-3, ….)

type rawConn struct {
	nc      net.Conn
	br      *bufio.Reader
	c       *conn.Conn
	wmu     sync.Mutex
	cseq    int
	session string
}

func dialRaw(addr string, dial func(ctx context.Context, network, address string) (net.Conn, error)) (*rawConn, error) {
	ctx, cancel := context.WithTimeout(context.Background(), 10*time.Second)
	defer cancel()
	nc, err := dial(ctx, "tcp", addr)
	if err != nil {
		return nil, err
	}
	br := bufio.NewReaderSize(nc, 1<<16)
	return &rawConn{nc: nc, br: br, c: conn.NewConn(br, nc)}, nil
}

func (p *rawConn) write(req *base.Request) error {
	_, err := p.writeSeq(req, nil)
	return err
}

// writeSeq sends a request and returns its CSeq; note (if given) is told the CSeq before the bytes leave.
func (p *rawConn) writeSeq(req *base.Request, note func(cseq int)) (int, error) {
	p.wmu.Lock()
	defer p.wmu.Unlock()
	p.cseq++
	if req.Header == nil {
		req.Header = base.Header{}
	}
	req.Header["CSeq"] = base.HeaderValue{strconv.Itoa(p.cseq)}
	if p.session != "" {
		req.Header["Session"] = base.HeaderValue{p.session}
	}
	if note != nil {
		note(p.cseq)
	}
	p.nc.SetWriteDeadline(time.Now().Add(20 * time.Second)) //nolint:errcheck
	return p.cseq, p.c.WriteRequest(req)
}

// do sends a request and reads until its response (only used while no frames flow).
func (p *rawConn) do(req *base.Request) (*base.Response, error) {
	if err := p.write(req); err != nil {
		return nil, err
	}
	p.nc.SetReadDeadline(time.Now().Add(20 * time.Second)) //nolint:errcheck
	defer p.nc.SetReadDeadline(time.Time{})                //nolint:errcheck
	for {
		what, err := p.c.Read()
		if err != nil {
			return nil, err
		}
		if res, ok := what.(*base.Response); ok {
			if res.StatusCode != base.StatusOK {
				return res, fmt.Errorf("%s: status %d %s", req.Method, res.StatusCode, res.StatusMessage)
			}
			if v, ok := res.Header["Session"]; ok && p.session == "" {
				var sh headers.Session
				if sh.Unmarshal(v) == nil {
					p.session = sh.Session
				}
			}
			return res, nil
		}
	}
}

// setup sends one SETUP; ch < 0: no interleaved field.  Returns the Transport header of the response.
func (p *rawConn) setup(u *base.URL, ch int, record bool) (*headers.Transport, error) {
	th := headers.Transport{
		Protocol: headers.TransportProtocolTCP,
		Delivery: new(headers.TransportDeliveryUnicast),
	}
	if record {
		th.Mode = new(headers.TransportModeRecord)
	} else {
		th.Mode = new(headers.TransportModePlay)
	}
	if ch >= 0 {
		th.InterleavedIDs = &[2]int{ch, ch + 1}
	}
	res, err := p.do(&base.Request{Method: base.Setup, URL: u, Header: base.Header{"Transport": th.Marshal()}})
	if err != nil {
		return nil, err
	}
	var rth headers.Transport
	if err = rth.Unmarshal(res.Header["Transport"]); err != nil {
		return nil, err
	}
	if rth.InterleavedIDs == nil {
		return nil, fmt.Errorf("SETUP response without interleaved ids")
	}
	return &rth, nil
}

// ---------------------------------------------------------------------------------------------
// raw reader (play direction)
// ---------------------------------------------------------------------------------------------

type rawReader struct {
	rd     *reader
	p      *rawConn
	byChan map[int]int // RTP channel → media index
	done   chan struct{}
	resp   chan *base.Response // responses read by the loop while frames flow
	nPlay  int

	// keepalives: OPTIONS / GET_PARAMETER fired at a high rate while the stream flows; their responses
	// share the connection with the interleaved frames of the session's writer goroutine
	kaSeq   sync.Map // CSeq of the keepalives in flight
	kaStop  chan struct{}
	kaDone  chan struct{}
	kaSent  atomic.Int64
	kaAnsw  atomic.Int64
	closing atomic.Bool
}

// request sends a request; once the read loop runs, the response comes through it (frames that
// precede the response on the connection are recorded first).
func (rr *rawReader) request(req *base.Request) (*base.Response, error) {
	if rr.done == nil {
		return rr.p.do(req)
	}
	cseq, err := rr.p.writeSeq(req, nil)
	if err != nil {
		return nil, err
	}
	deadline := time.After(20 * time.Second)
	for {
		select {
		case res := <-rr.resp:
			if v, ok := res.Header["CSeq"]; !ok || len(v) != 1 || v[0] != strconv.Itoa(cseq) {
				continue
			}
			if res.StatusCode != base.StatusOK {
				return res, fmt.Errorf("%s: status %d %s", req.Method, res.StatusCode, res.StatusMessage)
			}
			return res, nil
		case <-rr.done:
			return nil, fmt.Errorf("%s: connection closed", req.Method)
		case <-deadline:
			return nil, fmt.Errorf("%s: no response", req.Method)
		}
	}
}

// keepalive fires requests until stopped.
func (rr *rawReader) keepalive(every time.Duration) {
	defer close(rr.kaDone)
	u, err := base.ParseURL(fmt.Sprintf("rtsp://%s/s?r=%d", rr.rd.h.addr, rr.rd.idx))
	if err != nil {
		return
	}
	for i := 0; ; i++ {
		select {
		case <-rr.kaStop:
			return
		case <-rr.done:
			return
		case <-time.After(every):
		}
		m := base.Options
		if i%2 == 1 {
			m = base.GetParameter
		}
		if _, err = rr.p.writeSeq(&base.Request{Method: m, URL: u}, func(cseq int) { rr.kaSeq.Store(cseq, true) }); err != nil {
			return
		}
		rr.kaSent.Add(1)
	}
}

func (rd *reader) connectRaw() error {
	h := rd.h
	p, err := dialRaw(h.addr, dialer(h.ns, rd))
	if err != nil {
		return err
	}
	rr := &rawReader{rd: rd, p: p, byChan: map[int]int{}}
	rd.raw = rr
	for k, m := range rd.spec.Medias {
		ch := -1
		if k < len(rd.spec.Chans) {
			ch = rd.spec.Chans[k]
		}
		u, uerr := base.ParseURL(fmt.Sprintf("rtsp://%s/s?r=%d/trackID=%d", h.addr, rd.idx, m))
		if uerr != nil {
			return uerr
		}
		th, serr := p.setup(u, ch, false)
		if serr != nil {
			return fmt.Errorf("raw setup media %d (interleaved %d): %w", m, ch, serr)
		}
		rr.byChan[th.InterleavedIDs[0]] = m
		rd.mu.Lock()
		rd.announced = append(rd.announced, th.SSRC)
		rd.chans = append(rd.chans, th.InterleavedIDs[0])
		rd.mu.Unlock()
	}
	return nil
}

func (rr *rawReader) play() error {
	h := rr.rd.h
	u, err := base.ParseURL(fmt.Sprintf("rtsp://%s/s?r=%d", h.addr, rr.rd.idx))
	if err != nil {
		return err
	}
	req := &base.Request{Method: base.Play, URL: u}
	rr.nPlay++
	if rr.nPlay%2 == 0 { // every other PLAY carries a Range
		req.Header = base.Header{"Range": headers.Range{Value: &headers.RangeNPT{Start: 0}}.Marshal()}
	}
	if _, err = rr.request(req); err != nil {
		return err
	}
	if rr.done == nil {
		rr.resp = make(chan *base.Response, 64)
		rr.done = make(chan struct{})
		go rr.loop()
		if us := rr.rd.spec.KeepaliveUs; us > 0 {
			rr.kaStop = make(chan struct{})
			rr.kaDone = make(chan struct{})
			go rr.keepalive(time.Duration(us) * time.Microsecond)
		}
	}
	return nil
}

func (rr *rawReader) pause() error {
	u, err := base.ParseURL(fmt.Sprintf("rtsp://%s/s?r=%d", rr.rd.h.addr, rr.rd.idx))
	if err != nil {
		return err
	}
	_, err = rr.request(&base.Request{Method: base.Pause, URL: u})
	return err
}

// loop: what a client's reader does - interleaved channel → media, payload type → format - but strict:
// every byte on the connection must belong to a well-formed interleaved frame or a well-formed response
// (pkg/conn's Read skips bytes it does not recognise; a corrupted stream would go unnoticed).
func (rr *rawReader) loop() {
	defer close(rr.done)
	h := rr.rd.h
	br := rr.p.br
	corrupt := func(f string, a ...any) {
		if rr.closing.Load() {
			return // our own close cut a message short
		}
		rr.rd.mu.Lock()
		rr.rd.decodeErrs = append(rr.rd.decodeErrs, "byte stream corrupt: "+fmt.Sprintf(f, a...))
		rr.rd.mu.Unlock()
	}
	for n := 0; ; n++ {
		b, err := br.Peek(1)
		if err != nil {
			return
		}
		switch {
		case b[0] == base.InterleavedFrameMagicByte:
		case b[0] == 'R':
			var res base.Response
			if err = res.Unmarshal(br); err != nil {
				if !isClosed(err) {
					corrupt("after %d messages: response does not parse: %v", n, err)
				}
				return
			}
			if v, ok := res.Header["CSeq"]; ok && len(v) == 1 {
				if cs, cerr := strconv.Atoi(v[0]); cerr == nil {
					if _, ka := rr.kaSeq.LoadAndDelete(cs); ka {
						rr.kaAnsw.Add(1)
						if res.StatusCode != base.StatusOK {
							corrupt("keepalive answered with status %d", res.StatusCode)
						}
						continue
					}
				}
			}
			select {
			case rr.resp <- &res:
			default:
			}
			continue
		default:
			corrupt("after %d messages: byte 0x%02x where a frame or a response must start", n, b[0])
			return
		}
		var fr base.InterleavedFrame
		if err = fr.Unmarshal(br); err != nil {
			if !isClosed(err) {
				corrupt("after %d messages: frame does not parse: %v", n, err)
			}
			return
		}
		m, ok := rr.byChan[fr.Channel]
		if !ok {
			if _, rtcp := rr.byChan[fr.Channel-1]; !rtcp {
				corrupt("after %d messages: frame on channel %d, which no SETUP response announced", n, fr.Channel)
			}
			continue
		}
		var pkt rtp.Packet
		if pkt.Unmarshal(fr.Payload) != nil {
			corrupt("after %d messages: RTP packet of %d bytes does not parse", n, len(fr.Payload))
			continue
		}
		known := false
		for _, pt := range h.sc.Medias[m] {
			if pt == int(pkt.PayloadType) {
				known = true
			}
		}
		if !known {
			corrupt("after %d messages: payload type %d on the channel of media %d", n, pkt.PayloadType, m)
			continue
		}
		rr.rd.record(m, pkt.PayloadType, &pkt)
	}
}

func isClosed(err error) bool {
	return errors.Is(err, net.ErrClosed) || errors.Is(err, io.EOF) || errors.Is(err, io.ErrUnexpectedEOF) ||
		strings.Contains(err.Error(), "use of closed") || strings.Contains(err.Error(), "connection reset")
}

// sidePlay: a PLAY for an existing (UDP) session sent on another connection from the same address -
// how a reader that is already playing can be sent a second PLAY without touching the library client.
func (rd *reader) sidePlay() error {
	h := rd.h
	rd.mu.Lock()
	sid := rd.sessionID
	rd.mu.Unlock()
	if sid == "" {
		return fmt.Errorf("no session id seen")
	}
	dial := (&net.Dialer{}).DialContext
	scheme := "rtsp"
	if h.sc.TLS {
		scheme = "rtsps"
		dial = func(ctx context.Context, network, address string) (net.Conn, error) {
			nc, err := (&net.Dialer{}).DialContext(ctx, network, address)
			if err != nil {
				return nil, err
			}
			tc := tls.Client(nc, &tls.Config{InsecureSkipVerify: true})
			if err = tc.HandshakeContext(ctx); err != nil {
				nc.Close()
				return nil, err
			}
			return tc, nil
		}
	}
	p, err := dialRaw(h.addr, dial)
	if err != nil {
		return err
	}
	defer p.nc.Close()
	p.session = sid
	u, err := base.ParseURL(fmt.Sprintf("%s://%s/s?r=%d", scheme, h.addr, rd.idx))
	if err != nil {
		return err
	}
	_, err = p.do(&base.Request{Method: base.Play, URL: u,
		Header: base.Header{"Range": headers.Range{Value: &headers.RangeNPT{Start: 0}}.Marshal()}})
	return err
}

func (rr *rawReader) close() {
	rr.closing.Store(true)
	if rr.kaStop != nil {
		close(rr.kaStop)
		<-rr.kaDone
		rr.kaStop = nil
	}
	rr.p.nc.Close()
	if rr.done != nil {
		<-rr.done
	}
}

// ---------------------------------------------------------------------------------------------
// raw publisher (record direction, TCP)
// ---------------------------------------------------------------------------------------------

type rawPublisher struct {
	p      *rawConn
	chanOf map[int]int // media index → RTP channel
	chans  []int       // announced channels, in SETUP order
	order  []int       // medias in SETUP order
	req    []int       // requested first id per SETUP (-1: none)
}

func (h *harness) startRawPublisher() error {
	sc := h.sc
	p, err := dialRaw(h.addr, (&net.Dialer{}).DialContext)
	if err != nil {
		return err
	}
	rp := &rawPublisher{p: p, chanOf: map[int]int{}}
	h.rawPub = rp
	var ms []*description.Media
	for m, md := range h.medias {
		var fs []format.Format
		for _, pt := range sc.Medias[m] {
			f := &format.Generic{PayloadTyp: uint8(pt), RTPMa: "private/90000"}
			if err = f.Init(); err != nil {
				return err
			}
			fs = append(fs, f)
		}
		ms = append(ms, &description.Media{Type: md.Type, Formats: fs, Control: "trackID=" + strconv.Itoa(m)})
	}
	sdp, err := (&description.Session{Medias: ms}).Marshal()
	if err != nil {
		return err
	}
	u, err := base.ParseURL(fmt.Sprintf("rtsp://%s/pub", h.addr))
	if err != nil {
		return err
	}
	if _, err = p.do(&base.Request{Method: base.Announce, URL: u,
		Header: base.Header{"Content-Type": base.HeaderValue{"application/sdp"}}, Body: sdp}); err != nil {
		return fmt.Errorf("raw announce: %w", err)
	}
	order := sc.PubOrder
	if len(order) != len(sc.Medias) {
		order = nil
		for m := range sc.Medias {
			order = append(order, m)
		}
	}
	for k, m := range order {
		ch := -1
		if k < len(sc.PubChans) {
			ch = sc.PubChans[k]
		}
		mu, uerr := base.ParseURL(fmt.Sprintf("rtsp://%s/pub/trackID=%d", h.addr, m))
		if uerr != nil {
			return uerr
		}
		th, serr := p.setup(mu, ch, true)
		if serr != nil {
			return fmt.Errorf("raw record setup media %d (interleaved %d): %w", m, ch, serr)
		}
		rp.chanOf[m] = th.InterleavedIDs[0]
		rp.chans = append(rp.chans, th.InterleavedIDs[0])
		rp.order = append(rp.order, m)
		rp.req = append(rp.req, ch)
	}
	if _, err = p.do(&base.Request{Method: base.Record, URL: u}); err != nil {
		return fmt.Errorf("raw record: %w", err)
	}
	// responses / frames the server sends from now on are drained so that it never blocks
	go func() {
		for {
			if _, rerr := p.c.Read(); rerr != nil {
				return
			}
		}
	}()
	return nil
}

// write sends one packet as an interleaved frame on the channel the SETUP response announced.
func (rp *rawPublisher) write(m int, pkt *rtp.Packet) error {
	b, err := pkt.Marshal()
	if err != nil {
		return err
	}
	fr := base.InterleavedFrame{Channel: rp.chanOf[m], Payload: b}
	buf, err := fr.Marshal()
	if err != nil {
		return err
	}
	rp.p.wmu.Lock()
	defer rp.p.wmu.Unlock()
	rp.p.nc.SetWriteDeadline(time.Now().Add(20 * time.Second)) //nolint:errcheck
	_, err = rp.p.nc.Write(buf)
	return err
}

func (rp *rawPublisher) close() { rp.p.nc.Close() }

// overlap: do two announced channel pairs [c, c+1] share a channel?
func overlap(chans []int) (int, int, bool) {
	for i := range chans {
		for j := i + 1; j < len(chans); j++ {
			d := chans[i] - chans[j]
			if d >= -1 && d <= 1 {
				return chans[i], chans[j], true
			}
		}
	}
	return 0, 0, false
}
