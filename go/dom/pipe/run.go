package pipe

import (
	"bytes"
	"context"
	"crypto/tls"
	"errors"
	"fmt"
	"net"
	"runtime"
	"strings"
	"sync"
	"sync/atomic"
	"time"

	"github.com/pion/rtp"

	"github.com/bluenviron/gortsplib/v5"
	"github.com/bluenviron/gortsplib/v5/pkg/base"
	"github.com/bluenviron/gortsplib/v5/pkg/description"
	"github.com/bluenviron/gortsplib/v5/pkg/format"
	"github.com/bluenviron/gortsplib/v5/pkg/headers"
	"github.com/bluenviron/gortsplib/v5/pkg/liberrors"
)

// ---------------------------------------------------------------------------------------------
// observations
// ---------------------------------------------------------------------------------------------

// rec is one callback invocation as the reader saw it.
type rec struct {
	m      int
	pt     uint8 // the format the callback was invoked for
	hpt    uint8 // payload type in the packet header
	seq    uint16
	ts     uint32
	marker bool
	ssrc   uint32
	dg     []byte
	wid    int    // which write it is (-1: never written to this media and format)
	why    string // "" or the first field that differs from the write
	alias  []byte // the payload slice handed to the callback (retention check), sampled
	stamp  int64
}

type wobs struct {
	wb, we int64
	fan    []byte // per reader: '-', 'a', 'f'
	err    error
	ssrcIn uint32 // SSRC of the packet as handed to WritePacketRTP
}

type cobs struct {
	op         string // play | pause | leave
	cs, cd     int64
	k          int   // callbacks when the operation returned
	k0         int   // callbacks when it started
	closed     int64 // leave: stamp of OnSessionClose (0: none seen)
	graceful   bool  // leave after a drain at the end of the scenario
	drainK     int
	first      bool // play: includes connect + SETUPs
	err        error
	hadSession bool
}

const backPT = 110 // payload type of the back channel's format

// backRec: one packet the server session received on a reader's back channel.
type backRec struct {
	seq uint16
	ok  bool
}

type pubPause struct {
	at    int
	stamp int64
	sent  int // relay over UDP: datagrams the publisher's sockets had sent when the PAUSE returned (its writer is stopped by then)
}

type mikeyEntry struct {
	ssrc, roc uint32
}

type aobs struct {
	wid   int
	stamp int64
}

type fpKey struct {
	m   int
	pt  uint8
	seq uint16
	ts  uint32
}

type reader struct {
	idx    int
	spec   *ReaderSpec
	h      *harness
	udp    bool
	gate   *gate
	faults *faults

	c        *gortsplib.Client
	raw      *rawReader // hand-written TCP reader instead of the library client
	mediaIdx map[*description.Media]int
	state    string // "" | playing | paused | gone

	mu         sync.Mutex
	recs       []rec
	lastCb     time.Time
	arrivals   []aobs
	decodeErrs []string
	announced  []*uint32 // SSRC of the SETUP responses, in order
	chans      []int     // interleaved channel of the SETUP responses, in order (-1: none)
	sess       *gortsplib.ServerSession
	closedAt   atomic.Int64
	closedCh   chan struct{}
	ctl        []cobs
	closeErr   string
	pauseSeen  []int64            // stamps of the server's OnPause handler, one per PAUSE
	backMedia  *description.Media // the client's view of the back channel media
	backOut    []byte             // per back-channel write: 'a' / 'f' / 'e'
	backRecs   []backRec          // what the server session's callback received
	backSent   atomic.Int64       // UDP: back-channel datagrams the client's socket sent
	backSet    sentSet            // UDP: the same, to find one datagram sent twice
	refuseNext base.StatusCode    // (under harness.mu) answer the next PLAY / PAUSE of this reader with this status
	sessionID  string             // from the Session header of the responses (library client)
	keyMgmt    [][]mikeyEntry     // SETUP responses, in order: the (SSRC, ROC) pairs of the MIKEY CS-ID map

	prevSent [][]uint64 // writer goroutine only

	// racy mode
	steps []*planItem
	busy  atomic.Bool // a control operation of this reader is in flight
}

type planItem struct {
	step    Step
	goCh    chan struct{}
	started chan struct{}
}

type harness struct {
	sc    *Scenario
	pk    []pktMeta
	clock atomic.Int64
	ns    *netState

	srv     *gortsplib.Server
	stream  *gortsplib.ServerStream
	medias  []*description.Media
	formats [][]format.Format
	ssrc    [][]uint32
	ssrcMF  map[uint32][2]int
	addr    string
	spc     *srvPC

	readers []*reader
	mu      sync.Mutex
	sessRdr map[*gortsplib.ServerSession]*reader

	fp       map[fpKey][]int
	writes   []wobs
	curErr   []byte
	notes    []string
	progress atomic.Int64
	tWrite   time.Duration
	pwid     []int // stage-2 write j carries the payload of publisher write pwid[j] (identity without relay)

	// relay (second direction): publisher → server session → stream
	pub         *gortsplib.Client
	pubDesc     *description.Session
	pubOut      []byte // per publisher write: 'a' accepted, 'f' queue full, 'e' other error
	pubStamp    []int64
	pubMedia    map[*description.Media]int
	relayMu     sync.Mutex
	relayRecs   []rec  // what the server session's callback saw
	relayArr    []aobs // UDP: datagrams the server's RTP socket read from the publisher
	pkPub       []pktMeta
	fpNoMedia   map[[3]uint32]int
	pubSent     atomic.Int64 // relay over UDP: RTP datagrams the publisher socket sent
	pubSet      sentSet      // relay over UDP: the same, to find one datagram sent twice
	srvDecode   []string     // decode errors reported to the server's handler (first few)
	nSrvDecode  int
	backMedia   *description.Media // back channel of the stream (client → server), nil: none
	backFormat  format.Format
	backSSRC    uint32
	rawPub      *rawPublisher
	refusePub   base.StatusCode // (under mu) answer the publisher next RECORD / PAUSE with this status
	nPubRefused int
	pubPauses   []pubPause // refused PAUSEs of the publisher: before which write, and when
	pubConns    []*pubPC   // relay over UDP: the publisher's RTP sockets with fault injection (one per media)
	pubSess     *gortsplib.ServerSession
	pubClosed   chan struct{}
}

func (h *harness) note(f string, a ...any) {
	h.mu.Lock()
	if len(h.notes) < 20 {
		h.notes = append(h.notes, fmt.Sprintf(f, a...))
	}
	h.mu.Unlock()
}

// ---------------------------------------------------------------------------------------------
// server handler
// ---------------------------------------------------------------------------------------------

func (h *harness) readerOfQuery(q string) *reader {
	for _, kv := range strings.Split(q, "&") {
		if strings.HasPrefix(kv, "r=") {
			var i int
			if _, err := fmt.Sscanf(kv[2:], "%d", &i); err == nil && i >= 0 && i < len(h.readers) {
				return h.readers[i]
			}
		}
	}
	return nil
}

func (h *harness) OnDescribe(_ *gortsplib.ServerHandlerOnDescribeCtx) (*base.Response, *gortsplib.ServerStream, error) {
	return &base.Response{StatusCode: base.StatusOK}, h.stream, nil
}

func (h *harness) OnSetup(ctx *gortsplib.ServerHandlerOnSetupCtx) (*base.Response, *gortsplib.ServerStream, error) {
	rd := h.readerOfQuery(ctx.Query)
	if rd == nil {
		if h.sc.Relay != "" && strings.HasPrefix(ctx.Path, "/pub") {
			return &base.Response{StatusCode: base.StatusOK}, nil, nil
		}
		return &base.Response{StatusCode: base.StatusBadRequest}, nil, nil
	}
	h.mu.Lock()
	h.sessRdr[ctx.Session] = rd
	h.mu.Unlock()
	rd.mu.Lock()
	rd.sess = ctx.Session
	rd.mu.Unlock()
	return &base.Response{StatusCode: base.StatusOK}, h.stream, nil
}

func (h *harness) OnAnnounce(_ *gortsplib.ServerHandlerOnAnnounceCtx) (*base.Response, error) {
	if h.sc.Relay == "" {
		return &base.Response{StatusCode: base.StatusBadRequest}, nil
	}
	return &base.Response{StatusCode: base.StatusOK}, nil
}

// OnRecord: the second direction - every packet the session receives is re-written to the stream.
func (h *harness) OnRecord(ctx *gortsplib.ServerHandlerOnRecordCtx) (*base.Response, error) {
	if code := h.refusal(ctx.Session); code != 0 {
		return &base.Response{StatusCode: code}, nil
	}
	h.mu.Lock()
	h.pubSess = ctx.Session
	h.mu.Unlock()
	ad := ctx.Session.AnnouncedDescription()
	idx := map[*description.Media]int{}
	for i, m := range ad.Medias {
		idx[m] = i
	}
	ctx.Session.OnPacketRTPAny(func(medi *description.Media, forma format.Format, pkt *rtp.Packet) {
		h.onRelay(idx[medi], forma.PayloadType(), pkt)
	})
	return &base.Response{StatusCode: base.StatusOK}, nil
}

// refusal: the status the next PLAY / PAUSE / RECORD of this peer is to be answered with (0: accept).
func (h *harness) refusal(ss *gortsplib.ServerSession) base.StatusCode {
	h.mu.Lock()
	defer h.mu.Unlock()
	if rd := h.sessRdr[ss]; rd != nil {
		code := rd.refuseNext
		rd.refuseNext = 0
		return code
	}
	code := h.refusePub
	h.refusePub = 0
	return code
}

func (h *harness) OnPlay(ctx *gortsplib.ServerHandlerOnPlayCtx) (*base.Response, error) {
	if code := h.refusal(ctx.Session); code != 0 {
		return &base.Response{StatusCode: code}, nil
	}
	if h.backMedia != nil {
		h.mu.Lock()
		rd := h.sessRdr[ctx.Session]
		h.mu.Unlock()
		for _, m := range ctx.Session.Medias() {
			if m == h.backMedia && rd != nil {
				ctx.Session.OnPacketRTP(h.backMedia, h.backFormat, func(pkt *rtp.Packet) { rd.onBack(pkt) })
			}
		}
	}
	return &base.Response{StatusCode: base.StatusOK}, nil
}

// OnPause returns just before the session destroys its writer: the stamp tells where `ring.Close()` is.
func (h *harness) OnPause(ctx *gortsplib.ServerHandlerOnPauseCtx) (*base.Response, error) {
	if code := h.refusal(ctx.Session); code != 0 {
		return &base.Response{StatusCode: code}, nil
	}
	h.mu.Lock()
	rd := h.sessRdr[ctx.Session]
	h.mu.Unlock()
	if rd != nil {
		rd.mu.Lock()
		rd.pauseSeen = append(rd.pauseSeen, h.clock.Add(1))
		rd.mu.Unlock()
	}
	return &base.Response{StatusCode: base.StatusOK}, nil
}

func (h *harness) OnSessionClose(ctx *gortsplib.ServerHandlerOnSessionCloseCtx) {
	h.mu.Lock()
	rd := h.sessRdr[ctx.Session]
	isPub := h.pubSess != nil && ctx.Session == h.pubSess
	h.mu.Unlock()
	if isPub {
		close(h.pubClosed)
		return
	}
	if rd != nil && rd.closedAt.CompareAndSwap(0, h.clock.Add(1)) {
		rd.mu.Lock()
		if ctx.Error != nil {
			rd.closeErr = ctx.Error.Error()
		}
		rd.mu.Unlock()
		close(rd.closedCh)
	}
}

// OnStreamWriteError is how the server reports a refused push: it runs inside WritePacketRTP, on the
// writer's goroutine.
func (h *harness) OnStreamWriteError(ctx *gortsplib.ServerHandlerOnStreamWriteErrorCtx) {
	h.mu.Lock()
	rd := h.sessRdr[ctx.Session]
	h.mu.Unlock()
	var full liberrors.ErrServerWriteQueueFull
	if rd != nil && errors.As(ctx.Error, &full) {
		if rd.idx < len(h.curErr) {
			h.curErr[rd.idx] = 'f'
		}
		return
	}
	h.note("OnStreamWriteError: %v", ctx.Error)
}

func (h *harness) OnDecodeError(ctx *gortsplib.ServerHandlerOnDecodeErrorCtx) {
	h.mu.Lock()
	h.nSrvDecode++
	if len(h.srvDecode) < 5 {
		h.srvDecode = append(h.srvDecode, ctx.Error.Error())
	}
	h.mu.Unlock()
}

func (h *harness) OnPacketsLost(_ *gortsplib.ServerHandlerOnPacketsLostCtx) {}

// handler: the harness itself, or a view of it that lacks OnPause (and OnPlay): the server then answers
// those requests 501 Not Implemented.
func (h *harness) handler() gortsplib.ServerHandler {
	switch {
	case h.sc.NoPauseHandler && h.sc.NoPlayHandler:
		return &handlerNoPausePlay{handlerCommon{h}}
	case h.sc.NoPauseHandler:
		return &handlerNoPause{handlerCommon{h}}
	}
	return h
}

type handlerCommon struct{ h *harness }

func (x handlerCommon) OnDescribe(c *gortsplib.ServerHandlerOnDescribeCtx) (*base.Response, *gortsplib.ServerStream, error) {
	return x.h.OnDescribe(c)
}
func (x handlerCommon) OnAnnounce(c *gortsplib.ServerHandlerOnAnnounceCtx) (*base.Response, error) {
	return x.h.OnAnnounce(c)
}
func (x handlerCommon) OnSetup(c *gortsplib.ServerHandlerOnSetupCtx) (*base.Response, *gortsplib.ServerStream, error) {
	return x.h.OnSetup(c)
}
func (x handlerCommon) OnRecord(c *gortsplib.ServerHandlerOnRecordCtx) (*base.Response, error) {
	return x.h.OnRecord(c)
}
func (x handlerCommon) OnSessionClose(c *gortsplib.ServerHandlerOnSessionCloseCtx) {
	x.h.OnSessionClose(c)
}
func (x handlerCommon) OnStreamWriteError(c *gortsplib.ServerHandlerOnStreamWriteErrorCtx) {
	x.h.OnStreamWriteError(c)
}
func (x handlerCommon) OnDecodeError(c *gortsplib.ServerHandlerOnDecodeErrorCtx) {
	x.h.OnDecodeError(c)
}
func (x handlerCommon) OnPacketsLost(c *gortsplib.ServerHandlerOnPacketsLostCtx) {
	x.h.OnPacketsLost(c)
}

// handlerNoPause: everything but OnPause.
type handlerNoPause struct{ handlerCommon }

func (x *handlerNoPause) OnPlay(c *gortsplib.ServerHandlerOnPlayCtx) (*base.Response, error) {
	return x.h.OnPlay(c)
}

// handlerNoPausePlay: neither OnPause nor OnPlay (a publish-only server).
type handlerNoPausePlay struct{ handlerCommon }

// ---------------------------------------------------------------------------------------------
// set-up
// ---------------------------------------------------------------------------------------------

func (h *harness) start() error {
	sc := h.sc
	h.ns = newNetState(&h.clock)
	h.ns.tls = sc.TLS
	h.sessRdr = map[*gortsplib.ServerSession]*reader{}
	h.pubClosed = make(chan struct{})
	for m, pts := range sc.Medias {
		var fs []format.Format
		for _, pt := range pts {
			f := &format.Generic{PayloadTyp: uint8(pt), RTPMa: "private/90000"}
			if err := f.Init(); err != nil {
				return err
			}
			fs = append(fs, f)
		}
		typ := description.MediaTypeVideo
		if m%2 == 1 {
			typ = description.MediaTypeAudio
		}
		h.medias = append(h.medias, &description.Media{Type: typ, Formats: fs})
		h.formats = append(h.formats, fs)
	}
	s := &gortsplib.Server{
		Handler:                  h.handler(),
		RTSPAddress:              "127.0.0.1:0",
		WriteQueueSize:           sc.Cap,
		MaxPacketSize:            sc.MaxPkt,
		DisableRTCPSenderReports: true,
		ReadTimeout:              20 * time.Second,
		WriteTimeout:             20 * time.Second,
	}
	var amu sync.Mutex
	s.Listen = func(network, address string) (net.Listener, error) {
		l, err := net.Listen(network, address)
		if err != nil {
			return nil, err
		}
		amu.Lock()
		h.addr = l.Addr().String()
		amu.Unlock()
		return &srvListener{Listener: l, ns: h.ns}, nil
	}
	s.ListenPacket = func(network, address string) (net.PacketConn, error) {
		pc, err := net.ListenPacket(network, address)
		if err != nil {
			return nil, err
		}
		uc, ok := pc.(*net.UDPConn)
		if !ok {
			pc.Close()
			return nil, fmt.Errorf("unexpected packet conn type %T", pc)
		}
		w := &srvPC{UDPConn: uc, ns: h.ns}
		if uc.LocalAddr().(*net.UDPAddr).Port%2 == 0 {
			h.spc = w
		}
		return w, nil
	}
	if sc.TLS {
		cert, err := selfSigned()
		if err != nil {
			return err
		}
		s.TLSConfig = &tls.Config{Certificates: []tls.Certificate{cert}}
		s.TLSListen = func(network, laddr string, config *tls.Config) (net.Listener, error) {
			l, err := net.Listen(network, laddr)
			if err != nil {
				return nil, err
			}
			amu.Lock()
			h.addr = l.Addr().String()
			amu.Unlock()
			// the gate must see the plaintext frames handed to the TLS layer
			return &srvListener{Listener: tls.NewListener(l, config), ns: h.ns}, nil
		}
	}
	needUDP := sc.Relay == "udp"
	for i := range sc.Readers {
		if sc.Readers[i].Transport == "udp" {
			needUDP = true
		}
	}
	var err error
	for try := 0; try < 30; try++ {
		if needUDP {
			p, perr := freeUDPPair()
			if perr != nil {
				return perr
			}
			s.UDPRTPAddress = fmt.Sprintf("127.0.0.1:%d", p)
			s.UDPRTCPAddress = fmt.Sprintf("127.0.0.1:%d", p+1)
		}
		err = s.Start()
		if err == nil || !strings.Contains(err.Error(), "address already in use") {
			break
		}
	}
	if err != nil {
		return err
	}
	h.srv = s
	all := append([]*description.Media{}, h.medias...)
	if sc.BackChannel {
		bf := &format.Generic{PayloadTyp: backPT, RTPMa: "private/8000"}
		if err = bf.Init(); err != nil {
			return err
		}
		h.backFormat = bf
		h.backMedia = &description.Media{Type: description.MediaTypeAudio, IsBackChannel: true, Formats: []format.Format{bf}}
		all = append(all, h.backMedia)
	}
	h.stream = &gortsplib.ServerStream{Server: s, Desc: &description.Session{Medias: all}}
	if err = h.stream.Initialize(); err != nil {
		s.Close()
		return err
	}
	st := h.stream.Stats()
	h.ssrcMF = map[uint32][2]int{}
	for m, md := range h.medias {
		var row []uint32
		for f, fo := range h.formats[m] {
			v := st.Medias[md].Formats[fo].LocalSSRC
			row = append(row, v)
			h.ssrcMF[v] = [2]int{m, f}
		}
		h.ssrc = append(h.ssrc, row)
	}
	if h.backMedia != nil {
		h.backSSRC = st.Medias[h.backMedia].Formats[h.backFormat].LocalSSRC
	}
	h.fp = map[fpKey][]int{}
	h.fpNoMedia = map[[3]uint32]int{}
	for wid, p := range h.pk {
		k := fpKey{p.media, p.pt, p.seq, p.ts}
		h.fp[k] = append(h.fp[k], wid)
		h.fpNoMedia[[3]uint32{uint32(p.pt), uint32(p.seq), p.ts}] = wid
	}
	if sc.Relay == "udp" {
		h.ns.onSrvRead = func(b []byte) {
			pt, seq, ts, _ := parseHdr(b)
			if b[0]>>6 != 2 {
				return
			}
			if wid, ok := h.fpNoMedia[[3]uint32{uint32(pt), uint32(seq), ts}]; ok {
				st := h.clock.Add(1)
				h.relayMu.Lock()
				h.relayArr = append(h.relayArr, aobs{wid: wid, stamp: st})
				h.relayMu.Unlock()
			}
		}
	}
	for i := range sc.Readers {
		sp := &sc.Readers[i]
		rd := &reader{idx: i, spec: sp, h: h, udp: sp.Transport == "udp", gate: &gate{}, closedCh: make(chan struct{})}
		if rd.udp && (sp.Loss > 0 || sp.Dup > 0 || sp.Reorder > 0) {
			rd.faults = &faults{rng: newRng(sc.Seed, uint64(1000+i)), loss: sp.Loss, dup: sp.Dup, reorder: sp.Reorder}
		}
		for m := range sc.Medias {
			rd.prevSent = append(rd.prevSent, make([]uint64, len(sc.Medias[m])))
		}
		for _, st := range sp.Plan {
			rd.steps = append(rd.steps, &planItem{step: st, goCh: make(chan struct{}), started: make(chan struct{})})
		}
		h.readers = append(h.readers, rd)
	}
	return nil
}

func (h *harness) stop() {
	for _, rd := range h.readers {
		rd.gate.open()
		if rd.c != nil {
			rd.c.Close()
		}
		if rd.raw != nil {
			rd.raw.close()
		}
	}
	if h.pub != nil {
		h.pub.Close()
	}
	if h.rawPub != nil {
		h.rawPub.close()
	}
	if h.stream != nil {
		h.stream.Close()
	}
	if h.srv != nil {
		h.srv.Close()
	}
}

// ---------------------------------------------------------------------------------------------
// reader operations
// ---------------------------------------------------------------------------------------------

// identify finds the write a received packet corresponds to and the first field that differs.
func (h *harness) identify(m int, fpt uint8, pkt *rtp.Packet) (int, string) {
	cands := h.fp[fpKey{m, fpt, pkt.SequenceNumber, pkt.Timestamp}]
	if len(cands) == 0 {
		// written at all (to another media / format)?
		for mm := range h.sc.Medias {
			for _, pt := range h.sc.Medias[mm] {
				if c := h.fp[fpKey{mm, uint8(pt), pkt.SequenceNumber, pkt.Timestamp}]; len(c) > 0 {
					return -1, fmt.Sprintf("written to media %d format %d (write %d)", mm, pt, c[0])
				}
			}
		}
		return -1, "never written"
	}
	why := ""
	for _, wid := range cands {
		p := h.pk[wid]
		w := ""
		switch {
		case pkt.PayloadType != p.pt:
			w = fmt.Sprintf("payload type %d, written %d", pkt.PayloadType, p.pt)
		case pkt.Marker != p.marker:
			w = "marker differs"
		case len(pkt.Payload) < p.size:
			w = fmt.Sprintf("payload length %d, written %d", len(pkt.Payload), p.size)
		case !bytes.Equal(pkt.Payload, genPayload(h.sc.Seed, wid, p.size)):
			w = "payload bytes differ"
			if len(pkt.Payload) > p.size && bytes.Equal(pkt.Payload[:p.size], genPayload(h.sc.Seed, wid, p.size)) {
				w = fmt.Sprintf("payload has %d extra bytes at its end: % x", len(pkt.Payload)-p.size, pkt.Payload[p.size:min(len(pkt.Payload), p.size+8)])
			}
		default:
			w = hdrDiff(pkt, expectedPacket(h.sc, wid, p))
		}
		if w == "" {
			return wid, ""
		}
		if why == "" {
			why = w
		}
	}
	return cands[0], why
}

func (rd *reader) onPacket(medi *description.Media, forma format.Format, pkt *rtp.Packet) {
	m, ok := rd.mediaIdx[medi]
	if !ok {
		m = -1
	}
	rd.record(m, forma.PayloadType(), pkt)
}

// record: one callback invocation (media index, format, packet).
func (rd *reader) record(m int, fpt uint8, pkt *rtp.Packet) {
	h := rd.h
	r := rec{m: m, pt: fpt, hpt: pkt.PayloadType, seq: pkt.SequenceNumber, ts: pkt.Timestamp,
		marker: pkt.Marker, ssrc: pkt.SSRC, dg: pktDigest(pkt), stamp: h.clock.Add(1)}
	r.wid, r.why = h.identify(m, r.pt, pkt)
	rd.mu.Lock()
	n := len(rd.recs)
	if n%8 == 0 {
		r.alias = pkt.Payload
	}
	rd.recs = append(rd.recs, r)
	rd.lastCb = time.Now()
	rd.mu.Unlock()
	if rd.spec.StallEach > 0 && (n+1)%rd.spec.StallEach == 0 {
		time.Sleep(200 * time.Microsecond)
	}
}

// arrival: a datagram was read by the client's RTP listener (before the library sees it).
func (rd *reader) arrival(b []byte) {
	h := rd.h
	pt, seq, ts, ssrc := parseHdr(b)
	wid := -1
	if mf, ok := h.ssrcMF[ssrc]; ok {
		if c := h.fp[fpKey{mf[0], pt, seq, ts}]; len(c) > 0 {
			wid = c[0]
		}
	}
	st := h.clock.Add(1)
	rd.mu.Lock()
	rd.arrivals = append(rd.arrivals, aobs{wid: wid, stamp: st})
	rd.mu.Unlock()
}

func (rd *reader) count() int {
	rd.mu.Lock()
	defer rd.mu.Unlock()
	return len(rd.recs)
}

// connect: DESCRIBE + SETUPs.  Establishing an HTTP tunnel occasionally fails (the server pairs the GET
// and POST connections in a racy way: "describe: EOF"); that is outside C01, so tunnels are retried.
func (rd *reader) connect() error {
	var err error
	for try := 0; try < 4; try++ {
		if err = rd.connect1(); err == nil {
			return nil
		}
		if rd.spec.Transport != "http" && rd.spec.Transport != "ws" {
			return err
		}
		rd.h.note("reader %d: tunnel connect retry after: %v", rd.idx, err)
		if rd.c != nil {
			rd.c.Close()
			rd.c = nil
		}
		rd.mu.Lock()
		rd.announced, rd.chans, rd.sess = nil, nil, nil
		rd.mu.Unlock()
	}
	return err
}

func (rd *reader) connected() bool { return rd.c != nil || rd.raw != nil }

func (rd *reader) connect1() error {
	if rd.spec.Raw {
		return rd.connectRaw()
	}
	h := rd.h
	scheme := "rtsp"
	if h.sc.TLS {
		scheme = "rtsps"
	}
	u, err := base.ParseURL(fmt.Sprintf("%s://%s/s?r=%d", scheme, h.addr, rd.idx))
	if err != nil {
		return err
	}
	c := &gortsplib.Client{
		Scheme:                u.Scheme,
		Host:                  u.Host,
		ReadTimeout:           20 * time.Second,
		WriteTimeout:          20 * time.Second,
		InitialUDPReadTimeout: 120 * time.Second,
		TLSConfig:             &tls.Config{InsecureSkipVerify: true},
		DialContext:           dialer(h.ns, rd),
		ListenPacket:          cliListenPacket(h.ns, rd),
		RequestBackChannels:   rd.spec.Back,
		// sender reports of the back channel would share the client's write queue
		DisableRTCPSenderReports: true,
		OnPacketsLost:            func(uint64) {},
		OnTransportSwitch:        func(err error) { h.note("reader %d transport switch: %v", rd.idx, err) },
		OnDecodeError: func(err error) {
			rd.mu.Lock()
			if len(rd.decodeErrs) < 5 {
				rd.decodeErrs = append(rd.decodeErrs, err.Error())
			}
			rd.mu.Unlock()
		},
		OnResponse: func(res *base.Response) {
			if v, ok := res.Header["Session"]; ok {
				var sh headers.Session
				if sh.Unmarshal(v) == nil {
					rd.mu.Lock()
					rd.sessionID = sh.Session
					rd.mu.Unlock()
				}
			}
			if v, ok := res.Header["Transport"]; ok {
				var km headers.KeyMgmt
				var entries []mikeyEntry
				if kv, has := res.Header["KeyMgmt"]; has && km.Unmarshal(kv) == nil && km.MikeyMessage != nil {
					for _, e := range km.MikeyMessage.Header.CSIDMapInfo {
						entries = append(entries, mikeyEntry{e.SSRC, e.ROC})
					}
				}
				rd.mu.Lock()
				rd.keyMgmt = append(rd.keyMgmt, entries)
				rd.mu.Unlock()
				var th headers.Transport
				if th.Unmarshal(v) == nil {
					ch := -1
					if th.InterleavedIDs != nil {
						ch = th.InterleavedIDs[0]
					}
					rd.mu.Lock()
					rd.announced = append(rd.announced, th.SSRC)
					rd.chans = append(rd.chans, ch)
					rd.mu.Unlock()
				}
			}
		},
	}
	switch rd.spec.Transport {
	case "udp":
		c.Protocol = new(gortsplib.ProtocolUDP)
	case "tcp":
		c.Protocol = new(gortsplib.ProtocolTCP)
	case "http":
		c.Tunnel = gortsplib.TunnelHTTP
	case "ws":
		c.Tunnel = gortsplib.TunnelWebSocket
	default:
		return fmt.Errorf("unknown transport %q", rd.spec.Transport)
	}
	if err = c.Start(); err != nil {
		return err
	}
	rd.c = c
	desc, _, err := c.Describe(u)
	if err != nil {
		return fmt.Errorf("describe: %w", err)
	}
	wantMedias := len(h.medias)
	if rd.spec.Back {
		wantMedias++
	}
	if len(desc.Medias) != wantMedias {
		return fmt.Errorf("describe returned %d medias", len(desc.Medias))
	}
	rd.mediaIdx = map[*description.Media]int{}
	for i, m := range desc.Medias {
		rd.mediaIdx[m] = i
	}
	for _, m := range rd.spec.Medias {
		if _, err = c.Setup(desc.BaseURL, desc.Medias[m], 0, 0); err != nil {
			return fmt.Errorf("setup media %d: %w", m, err)
		}
	}
	if rd.spec.Back {
		rd.backMedia = desc.Medias[len(h.medias)]
		if _, err = c.Setup(desc.BaseURL, rd.backMedia, 0, 0); err != nil {
			return fmt.Errorf("setup back channel: %w", err)
		}
	}
	c.OnPacketRTPAny(rd.onPacket)
	return nil
}

// backPayload: the payload of the i-th back-channel packet of this reader.
func (rd *reader) backPayload(i int) []byte {
	return genPayload(rd.h.sc.Seed, 1000000+rd.idx*100000+i, 1+(i*37)%300)
}

// onBack runs in the server: the session's callback for the back channel.
func (rd *reader) onBack(pkt *rtp.Packet) {
	i := int(pkt.SequenceNumber) - 1000
	ok := i >= 0 && pkt.PayloadType == backPT && bytes.Equal(pkt.Payload, rd.backPayload(i)) && pkt.Timestamp == uint32(i)*160
	rd.mu.Lock()
	rd.backRecs = append(rd.backRecs, backRec{seq: pkt.SequenceNumber, ok: ok})
	rd.mu.Unlock()
}

// doBack: the reader writes a burst to its back channel, then waits until the burst has left (UDP) or
// has arrived (reliable transports), so that a following PAUSE does not catch it in the client's queue.
func (rd *reader) doBack() {
	if rd.c == nil || rd.backMedia == nil {
		return
	}
	burst := rd.spec.BackBurst
	if burst == 0 {
		burst = 25
	}
	for k := 0; k < burst; k++ {
		i := len(rd.backOut)
		pkt := &rtp.Packet{Header: rtp.Header{Version: 2, PayloadType: backPT, SequenceNumber: uint16(1000 + i), Timestamp: uint32(i) * 160,
			Marker: i%3 == 0, SSRC: 99}, Payload: rd.backPayload(i)}
		err := rd.c.WritePacketRTP(rd.backMedia, pkt)
		var full liberrors.ErrClientWriteQueueFull
		switch {
		case err == nil:
			rd.backOut = append(rd.backOut, 'a')
		case errors.As(err, &full):
			rd.backOut = append(rd.backOut, 'f')
		default:
			rd.backOut = append(rd.backOut, 'e')
			rd.h.note("reader %d back channel write %d: %v", rd.idx, i, err)
		}
	}
	want := 0
	for _, o := range rd.backOut {
		if o == 'a' {
			want++
		}
	}
	for start := time.Now(); time.Since(start) < 2*time.Second; time.Sleep(300 * time.Microsecond) {
		rd.mu.Lock()
		got := len(rd.backRecs)
		rd.mu.Unlock()
		if got >= want || (rd.udp && int(rd.backSent.Load()) >= want) {
			break
		}
	}
}

func (rd *reader) doPlay() {
	h := rd.h
	ob := cobs{op: "play", k0: rd.count(), cs: h.clock.Add(1)}
	if !rd.connected() {
		ob.first = true
		ob.err = rd.connect()
	}
	if ob.err == nil {
		if rd.raw != nil {
			ob.err = rd.raw.play()
		} else {
			_, ob.err = rd.c.Play(nil)
		}
	}
	ob.cd = h.clock.Add(1)
	ob.k = rd.count()
	if ob.err == nil {
		rd.state = "playing"
	}
	rd.mu.Lock()
	rd.ctl = append(rd.ctl, ob)
	rd.mu.Unlock()
}

func (rd *reader) doPause() {
	h := rd.h
	ob := cobs{op: "pause", cs: h.clock.Add(1)}
	if rd.raw != nil {
		ob.err = rd.raw.pause()
	} else {
		_, ob.err = rd.c.Pause()
	}
	ob.k = rd.count()
	ob.cd = h.clock.Add(1)
	if ob.err == nil {
		rd.state = "paused"
	}
	rd.mu.Lock()
	rd.ctl = append(rd.ctl, ob)
	rd.mu.Unlock()
}

// doRefused: a PLAY or PAUSE that the server refuses (a 4xx / 5xx from the handler, or 501 because the
// handler has no such method): the request must fail and must change nothing - the flow goes on.
func (rd *reader) doRefused(op string) {
	h := rd.h
	if rd.raw != nil {
		return
	}
	ob := cobs{op: "refused", cs: h.clock.Add(1)}
	if !rd.connected() {
		if ob.err = rd.connect(); ob.err != nil {
			rd.mu.Lock()
			rd.ctl = append(rd.ctl, ob)
			rd.mu.Unlock()
			return
		}
		ob.first = true
	}
	codes := []base.StatusCode{base.StatusBadRequest, base.StatusNotFound, base.StatusInternalServerError, base.StatusServiceUnavailable}
	code := codes[(rd.idx+len(rd.ctl))%len(codes)]
	if !(op == "pause" && h.sc.NoPauseHandler) {
		h.mu.Lock()
		rd.refuseNext = code
		h.mu.Unlock()
	}
	var err error
	if op == "pause" {
		_, err = rd.c.Pause()
	} else {
		_, err = rd.c.Play(nil)
	}
	if err == nil {
		ob.err = fmt.Errorf("%s was to be refused but succeeded", op)
	}
	ob.cd = h.clock.Add(1)
	ob.k = rd.count()
	rd.mu.Lock()
	rd.ctl = append(rd.ctl, ob)
	rd.mu.Unlock()
}

// doReplay: a PLAY while the reader is already playing (the server allows it: it must change nothing).
func (rd *reader) doReplay() {
	h := rd.h
	if rd.raw == nil && !rd.udp {
		return // a library client on a TCP-based transport owns its connection: no second PLAY possible
	}
	ob := cobs{op: "replay", cs: h.clock.Add(1)}
	if rd.raw != nil {
		ob.err = rd.raw.play()
	} else {
		ob.err = rd.sidePlay()
	}
	ob.cd = h.clock.Add(1)
	ob.k = rd.count()
	rd.mu.Lock()
	rd.ctl = append(rd.ctl, ob)
	rd.mu.Unlock()
}

func (rd *reader) doLeave(graceful bool, drainK int) {
	h := rd.h
	if !rd.connected() {
		rd.state = "gone"
		return
	}
	ob := cobs{op: "leave", cs: h.clock.Add(1), graceful: graceful, drainK: drainK}
	if rd.raw != nil {
		rd.raw.close()
	} else {
		rd.c.Close()
	}
	ob.k = rd.count()
	rd.mu.Lock()
	ob.hadSession = rd.sess != nil
	rd.mu.Unlock()
	if ob.hadSession {
		select {
		case <-rd.closedCh:
		case <-time.After(10 * time.Second):
			h.note("reader %d: no OnSessionClose within 10 s", rd.idx)
		}
	}
	ob.closed = rd.closedAt.Load()
	ob.cd = h.clock.Add(1)
	rd.state = "gone"
	rd.mu.Lock()
	rd.ctl = append(rd.ctl, ob)
	rd.mu.Unlock()
}

func (rd *reader) exec(st Step) {
	switch st.Op {
	case "setup":
		if !rd.connected() {
			ob := cobs{op: "setup", cs: rd.h.clock.Add(1)}
			ob.err = rd.connect()
			ob.cd = rd.h.clock.Add(1)
			rd.mu.Lock()
			rd.ctl = append(rd.ctl, ob)
			rd.mu.Unlock()
		}
	case "play":
		if rd.state == "" || rd.state == "paused" {
			rd.doPlay()
		}
	case "pause":
		if rd.state == "playing" {
			rd.doPause()
		}
	case "replay":
		if rd.state == "playing" {
			rd.doReplay()
		}
	case "pause-refused":
		if rd.state == "playing" {
			rd.doRefused("pause")
		}
	case "back":
		if rd.state == "playing" {
			rd.doBack()
		}
	case "play-refused":
		if rd.state == "" || rd.state == "paused" {
			rd.doRefused("play")
		}
	case "leave":
		if rd.state != "gone" {
			rd.doLeave(false, 0)
		}
	}
}

// ---------------------------------------------------------------------------------------------
// the writer
// ---------------------------------------------------------------------------------------------

func (h *harness) sentOf(ss *gortsplib.ServerSession, m, f int) uint64 {
	st := ss.Stats()
	if st == nil {
		return 0
	}
	ms, ok := st.Medias[h.medias[m]]
	if !ok {
		return 0
	}
	return ms.Formats[h.formats[m][f]].OutboundRTPPackets
}

// schedule runs (exact) or triggers (racy) every step planned before write number wid.
func (h *harness) schedule(wid int, final bool) {
	for _, rd := range h.readers {
		for len(rd.steps) > 0 && (rd.steps[0].step.At <= wid || final) {
			it := rd.steps[0]
			rd.steps = rd.steps[1:]
			switch it.step.Op {
			case "gate":
				// the connection is never stalled while the reader's own PAUSE / close is processed: a
				// stalled consumer keeps asyncprocessor.Close() waiting with a closed ring that still accepts
				// (and then refuses) pushes - outside what the model describes
				if !rd.busy.Load() {
					rd.gate.shut()
				}
				continue
			case "ungate":
				rd.gate.open()
				continue
			}
			if h.sc.Mode == "racy" {
				if it.step.Op == "pause" || it.step.Op == "leave" {
					rd.gate.open()
				}
				rd.busy.Store(true)
				close(it.goCh)
				<-it.started
			} else {
				if it.step.Op == "pause" || it.step.Op == "leave" {
					rd.gate.open() // never block a synchronous PAUSE behind a stalled connection
				}
				rd.exec(it.step)
			}
		}
	}
}

// streamWrite is one ServerStream.WritePacketRTP with everything observed around it.
func (h *harness) streamWrite(pubWid int, p pktMeta, pkt *rtp.Packet) {
	nR := len(h.readers)
	h.curErr = bytes.Repeat([]byte{'-'}, nR)
	w := wobs{wb: h.clock.Add(1), ssrcIn: pkt.SSRC}
	w.err = h.stream.WritePacketRTP(h.medias[p.media], pkt)
	w.we = h.clock.Add(1)
	w.fan = make([]byte, nR)
	for i, rd := range h.readers {
		w.fan[i] = '-'
		rd.mu.Lock()
		ss := rd.sess
		rd.mu.Unlock()
		if ss != nil {
			cur := h.sentOf(ss, p.media, p.fi)
			if cur != rd.prevSent[p.media][p.fi] {
				rd.prevSent[p.media][p.fi] = cur
				w.fan[i] = 'a'
				if h.curErr[i] == 'f' {
					w.fan[i] = 'f'
				}
			}
		}
		if w.fan[i] == '-' && h.curErr[i] == 'f' {
			h.note("write %d: queue-full error for reader %d without a fan-out", pubWid, i)
		}
	}
	if pkt.SSRC != h.ssrc[p.media][p.fi] {
		h.note("write %d: packet SSRC after the call is %d, local SSRC %d", pubWid, pkt.SSRC, h.ssrc[p.media][p.fi])
	}
	h.relayMu.Lock()
	h.writes = append(h.writes, w)
	h.pwid = append(h.pwid, pubWid)
	h.relayMu.Unlock()
}

func (h *harness) pace(wid int) {
	sc := h.sc
	for _, b := range sc.Bursts {
		if wid >= b[0] && wid+1 < b[0]+b[1] {
			return // inside a burst: the next write follows at once
		}
	}
	if sc.Pace > 0 && wid%sc.Pace == sc.Pace-1 {
		time.Sleep(50 * time.Microsecond)
	} else if sc.Mode == "racy" {
		runtime.Gosched()
	}
}

func (h *harness) writeAll() {
	sc := h.sc
	h.writes = make([]wobs, 0, sc.N)
	for wid := 0; wid < sc.N; wid++ {
		h.schedule(wid, false)
		p := h.pk[wid]
		pkt := buildPacket(sc, wid, p)
		h.streamWrite(wid, p, pkt)
		h.progress.Store(int64(wid + 1))
		h.pace(wid)
	}
}

// ---------------------------------------------------------------------------------------------
// second direction: a recording client publishes, the server session re-writes to the stream
// ---------------------------------------------------------------------------------------------

func (h *harness) startPublisher() error {
	sc := h.sc
	scheme := "rtsp"
	if sc.TLS {
		scheme = "rtsps"
	}
	var ms []*description.Media
	h.pubMedia = map[*description.Media]int{}
	for m, md := range h.medias {
		var fs []format.Format
		for _, pt := range sc.Medias[m] {
			f := &format.Generic{PayloadTyp: uint8(pt), RTPMa: "private/90000"}
			if err := f.Init(); err != nil {
				return err
			}
			fs = append(fs, f)
		}
		nm := &description.Media{Type: md.Type, Formats: fs}
		if sc.TLS && !sc.PubNoSAVP {
			// (over TCP the client encrypts the media only when the announced media asks for it)
			nm.Profile = headers.TransportProfileSAVP
		}
		h.pubMedia[nm] = m
		ms = append(ms, nm)
	}
	h.pubDesc = &description.Session{Medias: ms}
	qs := sc.PubCap
	if qs == 0 {
		qs = 256
	}
	c := &gortsplib.Client{
		ReadTimeout:    20 * time.Second,
		WriteTimeout:   20 * time.Second,
		WriteQueueSize: qs,
		MaxPacketSize:  sc.MaxPkt,
		// sender reports share the write queue (one goes out right after the first packet of every format)
		DisableRTCPSenderReports: true,
		TLSConfig:                &tls.Config{InsecureSkipVerify: true},
		OnDecodeError:            func(err error) { h.note("publisher decode error: %v", err) },
		OnPacketsLost:            func(uint64) {},
	}
	if !sc.TLS {
		c.DialContext = func(ctx context.Context, network, address string) (net.Conn, error) {
			nc, err := (&net.Dialer{}).DialContext(ctx, network, address)
			if err != nil {
				return nil, err
			}
			return &cliConn{Conn: nc, ns: h.ns}, nil
		}
	}
	if sc.Relay == "udp" {
		c.Protocol = new(gortsplib.ProtocolUDP)
		c.ListenPacket = func(network, address string) (net.PacketConn, error) {
			pc, err := net.ListenPacket(network, address)
			if err != nil {
				return nil, err
			}
			uc, ok := pc.(*net.UDPConn)
			if !ok {
				pc.Close()
				return nil, fmt.Errorf("unexpected packet conn type %T", pc)
			}
			port := uc.LocalAddr().(*net.UDPAddr).Port
			w := &pubPC{UDPConn: uc, sent: &h.pubSent, set: &h.pubSet, port: port}
			if port%2 == 0 && (sc.PubLoss > 0 || sc.PubDup > 0 || sc.PubReorder > 0) {
				// (one injector per socket: a held datagram must leave from the socket it was written to)
				w.faults = &faults{rng: newRng(sc.Seed, uint64(777+len(h.pubConns))), loss: sc.PubLoss, dup: sc.PubDup, reorder: sc.PubReorder}
				h.pubConns = append(h.pubConns, w)
			}
			return w, nil
		}
	} else {
		c.Protocol = new(gortsplib.ProtocolTCP)
	}
	u, err := base.ParseURL(fmt.Sprintf("%s://%s/pub", scheme, h.addr))
	if err != nil {
		return err
	}
	c.Scheme, c.Host = u.Scheme, u.Host
	if err = c.Start(); err != nil {
		return fmt.Errorf("publisher: %w", err)
	}
	if _, err = c.Announce(u, h.pubDesc); err != nil {
		c.Close()
		return fmt.Errorf("publisher announce: %w", err)
	}
	if err = c.SetupAll(u, h.pubDesc.Medias); err != nil {
		c.Close()
		return fmt.Errorf("publisher setup: %w", err)
	}
	for i := 0; i < sc.PubRecordRefused; i++ {
		// a refused RECORD must leave the client able to record
		h.mu.Lock()
		h.refusePub = []base.StatusCode{base.StatusServiceUnavailable, base.StatusBadRequest}[i%2]
		h.mu.Unlock()
		if _, err = c.Record(); err == nil {
			c.Close()
			return fmt.Errorf("publisher: RECORD was to be refused but succeeded")
		}
	}
	if _, err = c.Record(); err != nil {
		c.Close()
		return fmt.Errorf("publisher record: %w", err)
	}
	h.pub = c
	return nil
}

// onRelay runs in the server: the session's OnPacketRTP callback.
func (h *harness) onRelay(m int, fpt uint8, pkt *rtp.Packet) {
	r := rec{m: m, pt: fpt, hpt: pkt.PayloadType, seq: pkt.SequenceNumber, ts: pkt.Timestamp,
		marker: pkt.Marker, ssrc: pkt.SSRC, dg: pktDigest(pkt), stamp: h.clock.Add(1)}
	r.wid, r.why = h.identify(m, fpt, pkt)
	h.relayMu.Lock()
	h.relayRecs = append(h.relayRecs, r)
	h.relayMu.Unlock()
	if r.wid < 0 {
		return
	}
	h.streamWrite(r.wid, h.pk[r.wid], pkt)
}

// relayCount: packets the server session received; settled: every one of them has been re-written
// to the stream (the write returned).
func (h *harness) relayCount() (n int, settled bool) {
	h.relayMu.Lock()
	defer h.relayMu.Unlock()
	valid := 0
	for _, r := range h.relayRecs {
		if r.wid >= 0 {
			valid++
		}
	}
	return len(h.relayRecs), valid == len(h.writes)
}

func (h *harness) flushPub() {
	for _, w := range h.pubConns {
		w.faults.flushTo(w.UDPConn)
	}
}

func (h *harness) publishAll() {
	sc := h.sc
	h.pubOut = make([]byte, sc.N)
	h.pubStamp = make([]int64, sc.N)
	for wid := 0; wid < sc.N; wid++ {
		h.schedule(wid, false)
		for _, st := range sc.PubSteps {
			if st.At == wid && st.Op == "pause-refused" && h.pub != nil {
				// a PAUSE the server refuses: the recording goes on, the client's queue must be running again
				if !sc.NoPauseHandler {
					h.mu.Lock()
					h.refusePub = base.StatusInternalServerError
					h.mu.Unlock()
				}
				stamp := h.clock.Add(1)
				if _, perr := h.pub.Pause(); perr == nil {
					h.note("publisher: PAUSE at write %d was to be refused but succeeded", wid)
				} else {
					h.nPubRefused++
					// (Client.Pause destroys the write queue before it asks: what was still queued is forfeited)
					h.pubPauses = append(h.pubPauses, pubPause{at: wid, stamp: stamp, sent: int(h.pubSent.Load())})
				}
			}
		}
		p := h.pk[wid]
		h.pubStamp[wid] = h.clock.Add(1)
		pkt := buildPacket(sc, wid, p)
		var err error
		if h.rawPub != nil {
			pkt.SSRC = 0x51000000 + uint32(p.media)<<8 + uint32(p.fi) // one SSRC per format, as a real sender has
			err = h.rawPub.write(p.media, pkt)
		} else {
			err = h.pub.WritePacketRTP(h.pubDesc.Medias[p.media], pkt)
		}
		var full liberrors.ErrClientWriteQueueFull
		switch {
		case err == nil:
			h.pubOut[wid] = 'a'
		case errors.As(err, &full):
			h.pubOut[wid] = 'f'
		default:
			h.pubOut[wid] = 'e'
			if !p.mayErr {
				h.note("publisher write %d: %v", wid, err)
			}
		}
		h.progress.Store(int64(wid + 1))
		h.pace(wid)
	}
	h.flushPub()
	// let the publisher's queue and the server drain
	want := 0
	for _, o := range h.pubOut {
		if o == 'a' {
			want++
		}
	}
	start := time.Now()
	last, lastN := time.Now(), -1
	lastSent := -1
	for {
		n, settled := h.relayCount()
		if n != lastN {
			last, lastN = time.Now(), n
		}
		if sc.Relay == "tcp" && n >= want && settled {
			break
		}
		quiet := 1500 * time.Millisecond
		if len(h.pubPauses) > 0 {
			quiet = 400 * time.Millisecond // (a refused PAUSE dropped what was queued: `want` is not reached)
		}
		if sc.Relay == "udp" {
			// nothing may be in flight when the publisher is closed: its queue must be empty (everything
			// accepted was sent) and the server must have read what was sent (or stay quiet for a while)
			quiet = 300 * time.Millisecond
			if sent := int(h.pubSent.Load()); sent != lastSent {
				lastSent, last = sent, time.Now() // the publisher's queue is still draining
			} else {
				h.flushPub()
			}
			h.relayMu.Lock()
			arrived := len(h.relayArr)
			h.relayMu.Unlock()
			if len(h.pubConns) == 0 && int(h.pubSent.Load()) >= want && arrived >= want && settled && time.Since(last) > 20*time.Millisecond {
				break
			}
		}
		if (time.Since(last) > quiet && settled) || time.Since(start) > 20*time.Second {
			break
		}
		time.Sleep(300 * time.Microsecond)
	}
}

// waitDrained waits until the reader got `want` callbacks, or nothing arrived for a while.
func (rd *reader) waitDrained(want int, quiet time.Duration, max time.Duration) {
	start := time.Now()
	for {
		rd.mu.Lock()
		n := len(rd.recs)
		last := rd.lastCb
		rd.mu.Unlock()
		if want >= 0 && n >= want {
			return
		}
		now := time.Now()
		if now.Sub(start) > max {
			return
		}
		ref := last
		if ref.Before(start) {
			ref = start
		}
		if now.Sub(ref) > quiet {
			return
		}
		time.Sleep(300 * time.Microsecond)
	}
}

// run executes the scenario; the error is an infrastructure problem (nothing is compared then).
func (h *harness) run() error {
	if err := h.start(); err != nil {
		return err
	}
	defer h.stop()
	var wg sync.WaitGroup
	if h.sc.Mode == "racy" {
		for _, rd := range h.readers {
			items := []*planItem{}
			for _, it := range rd.steps {
				if it.step.Op != "gate" && it.step.Op != "ungate" {
					items = append(items, it)
				}
			}
			wg.Add(1)
			go func(rd *reader, items []*planItem) {
				defer wg.Done()
				for _, it := range items {
					<-it.goCh
					close(it.started)
					rd.exec(it.step)
					rd.busy.Store(false)
				}
			}(rd, items)
		}
	}
	t0 := time.Now()
	if h.sc.Relay != "" {
		var perr error
		if h.sc.PubRaw && h.sc.Relay == "tcp" {
			perr = h.startRawPublisher()
		} else {
			perr = h.startPublisher()
		}
		if perr != nil {
			return perr
		}
		h.publishAll()
	} else {
		h.writeAll()
	}
	h.schedule(h.sc.N, true)
	wg.Wait()
	h.tWrite = time.Since(t0)
	if h.pub != nil || h.rawPub != nil {
		// the publisher goes first: no relay callback may run while the readers' sessions close (see pipe.go)
		if h.pub != nil {
			h.pub.Close()
			h.pub = nil
		} else {
			h.rawPub.close()
		}
		select {
		case <-h.pubClosed:
		case <-time.After(10 * time.Second):
			h.note("publisher session: no OnSessionClose within 10 s")
		}
	}
	for _, rd := range h.readers {
		rd.gate.open()
	}
	// end of the scenario: every reader that is still playing drains, then leaves
	for _, rd := range h.readers {
		for _, ob := range rd.ctl {
			if ob.err != nil {
				return fmt.Errorf("reader %d %s: %w", rd.idx, ob.op, ob.err)
			}
		}
		if rd.state == "playing" {
			if rd.udp {
				if h.spc != nil {
					h.spc.flush(rd)
				}
				rd.waitDrained(-1, 60*time.Millisecond, 5*time.Second)
			} else {
				want := h.expectedAtEnd(rd)
				rd.waitDrained(want, 1500*time.Millisecond, 20*time.Second)
			}
			rd.doLeave(true, rd.count())
		} else if rd.state != "gone" {
			rd.doLeave(false, 0)
		}
	}
	return nil
}

// expectedAtEnd: callbacks a reliable reader must reach once everything accepted since its last PLAY
// has been delivered (a wait target only; the comparison is done by the model and the oracle).
func (h *harness) expectedAtEnd(rd *reader) int {
	var last *cobs
	for i := range rd.ctl {
		if rd.ctl[i].op == "play" {
			last = &rd.ctl[i]
		}
	}
	if last == nil {
		return -1
	}
	n := last.k0
	for _, w := range h.writes {
		if w.we > last.cs && w.fan[rd.idx] == 'a' {
			n++
		}
	}
	return n
}
