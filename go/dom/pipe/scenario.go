package pipe

import (
	"encoding/binary"
	"hash/crc32"
	"math/rand/v2"
)

// Scenario is the replayable input of one end-to-end run.
type Scenario struct {
	Seed             uint64       `json:"seed"`
	Mode             string       `json:"mode"` // exact: control operations never overlap a write; racy: they run concurrently
	TLS              bool         `json:"tls"`  // rtsps + SRTP
	Cap              int          `json:"cap"`  // Server.WriteQueueSize
	MaxPkt           int          `json:"max_pkt,omitempty"`
	Medias           [][]int      `json:"medias"` // payload types of every media
	N                int          `json:"n"`
	ArbSeq           bool         `json:"arb_seq,omitempty"`   // arbitrary sequence numbers (reliable transports only)
	Pace             int          `json:"pace,omitempty"`      // yield 50µs every Pace writes
	Relay            string       `json:"relay,omitempty"`     // "", "tcp", "udp": publisher → server session → stream
	PubCap           int          `json:"pub_cap,omitempty"`   // relay: the publishing client\'s WriteQueueSize
	PubRaw           bool         `json:"pub_raw,omitempty"`   // relay over TCP: hand-written publisher (explicit interleaved channels)
	PubChans         []int        `json:"pub_chans,omitempty"` // … first interleaved id requested per SETUP (-1: none)
	PubOrder         []int        `json:"pub_order,omitempty"` // … SETUP order of the medias
	PubLoss          int          `json:"pub_loss,omitempty"`  // relay over UDP: faults on the publisher → server hop, per mille
	PubDup           int          `json:"pub_dup,omitempty"`
	PubReorder       int          `json:"pub_reorder,omitempty"`
	Readers          []ReaderSpec `json:"readers"`
	NoModel          bool         `json:"no_model,omitempty"`           // property oracle only (very long runs)
	SizeSweep        bool         `json:"size_sweep,omitempty"`         // write number i has i+1 payload bytes
	SRTPWrap         bool         `json:"srtp_wrap,omitempty"`          // TLS: let sequence numbers wrap (see srtpMissedWrap)
	SeqStart         int          `json:"seq_start,omitempty"`          // first sequence number of every format (0: seeded)
	ExpectDesync     bool         `json:"expect_desync,omitempty"`      // reproduces the known finding c01-srtp-roc-desync
	SizeTop          bool         `json:"size_top,omitempty"`           // every other write has a total RTP size in [MaxPacketSize-16, MaxPacketSize+4]
	PlainHeaders     bool         `json:"plain_headers,omitempty"`      // no padding / extension / CSRC in the written packets
	NoPauseHandler   bool         `json:"no_pause_handler,omitempty"`   // the server's handler has no OnPause: PAUSE is answered 501
	BackChannel      bool         `json:"back_channel,omitempty"`       // the stream has one more media, a back channel (client → server inside a PLAY session)
	Bursts           [][2]int     `json:"bursts,omitempty"`             // [start, length): writes made back to back, without any pacing (several packets of a format are queued at once)
	Churn            *ChurnSpec   `json:"churn,omitempty"`              // not a scripted scenario: concurrent writers and joining / leaving readers, run in a child process (churn.go)
	PubNoSAVP        bool         `json:"pub_no_savp,omitempty"`        // rtsps record over TCP: the announced medias keep profile AVP (plain RTP inside TLS); default: SAVP, SRTP inside TLS
	NoPlayHandler    bool         `json:"no_play_handler,omitempty"`    // … and no OnPlay either (publish-only server)
	PubSteps         []Step       `json:"pub_steps,omitempty"`          // relay: what the publisher does before write At: pause-refused
	PubRecordRefused int          `json:"pub_record_refused,omitempty"` // relay: so many RECORD requests are refused before the accepted one
}

type ReaderSpec struct {
	Transport   string `json:"transport"` // udp | tcp | http | ws
	Medias      []int  `json:"medias"`    // medias to set up, in this order
	Plan        []Step `json:"plan"`
	Loss        int    `json:"loss,omitempty"` // UDP faults, per mille
	Dup         int    `json:"dup,omitempty"`
	Reorder     int    `json:"reorder,omitempty"`
	StallEach   int    `json:"stall_each,omitempty"`   // the callback sleeps 200µs every StallEach packets
	Raw         bool   `json:"raw,omitempty"`          // hand-written TCP reader (explicit interleaved channels, no PAUSE)
	Chans       []int  `json:"chans,omitempty"`        // raw: first interleaved id requested per SETUP (-1: none)
	KeepaliveUs int    `json:"keepalive_us,omitempty"` // raw: an OPTIONS / GET_PARAMETER every so many µs while the stream flows
	Back        bool   `json:"back,omitempty"`         // the reader also sets the back channel up and writes to it (plan op `back`: a burst of 25 packets)
	BackBurst   int    `json:"back_burst,omitempty"`   // packets per `back` burst (default 25), written back to back
}

// Step is one scheduled operation: before write number At.
type Step struct {
	At int    `json:"at"`
	Op string `json:"op"` // setup | play | replay (PLAY while playing) | pause | pause-refused | play-refused | back | leave | gate | ungate
}

// pktMeta is one packet the writer will write.
type pktMeta struct {
	media  int
	fi     int // format index inside the media
	pt     uint8
	seq    uint16
	ts     uint32
	marker bool
	size   int
	extras hdrExtras // padding, header extension, CSRCs
	mayErr bool      // larger than the configured maximum: the write may (must, on an intact tree) return an error
	ssrcIn uint32    // what the caller puts into the SSRC field (must be overwritten)
}

const hdrSize = 12

// plainMaxPayload: payload bytes of a packet whose plain RTP size is exactly MaxPacketSize.
func (sc *Scenario) plainMaxPayload() int {
	m := sc.MaxPkt
	if m == 0 {
		m = 1472
	}
	return m - hdrSize
}

func (sc *Scenario) maxPayload() int {
	m := sc.MaxPkt
	if m == 0 {
		m = 1472
	}
	m -= hdrSize
	if sc.TLS {
		m -= 10
	}
	return m
}

// genPackets derives the whole write sequence from the scenario seed.
func genPackets(sc *Scenario) []pktMeta {
	rng := rand.New(rand.NewPCG(sc.Seed, 0xc01))
	type key struct{ m, f int }
	next := map[key]uint16{}
	for m, fs := range sc.Medias {
		for f := range fs {
			// start near the wrap for some formats
			switch rng.IntN(3) {
			case 0:
				next[key{m, f}] = uint16(65536 - 1 - rng.IntN(sc.N+1)%65536)
			case 1:
				next[key{m, f}] = uint16(rng.IntN(65536))
			default:
				next[key{m, f}] = uint16(65535 - rng.IntN(40))
			}
			if sc.TLS && !sc.SRTPWrap && !sc.ArbSeq {
				// SRTP: a reader that joins across a wrap loses the rollover counter (known finding); random
				// TLS scenarios keep clear of the wrap
				room := 65536 - sc.N - 1
				if room < 1 {
					room = 1
				}
				next[key{m, f}] = uint16(rng.IntN(room))
			}
			if sc.SeqStart != 0 {
				next[key{m, f}] = uint16(sc.SeqStart)
			}
		}
	}
	maxp := sc.maxPayload()
	out := make([]pktMeta, sc.N)
	for i := range out {
		m := rng.IntN(len(sc.Medias))
		f := rng.IntN(len(sc.Medias[m]))
		p := pktMeta{media: m, fi: f, pt: uint8(sc.Medias[m][f]), ts: rng.Uint32(), marker: rng.IntN(2) == 0, ssrcIn: rng.Uint32()}
		if sc.ArbSeq {
			p.seq = uint16(rng.IntN(65536))
		} else {
			p.seq = next[key{m, f}]
			next[key{m, f}]++
		}
		switch x := rng.IntN(20); {
		case x == 0:
			p.size = 1
		case x == 1:
			p.size = maxp
		case x == 2:
			// the top 16 bytes below MaxPacketSize (secure: across the SRTP overhead) and a little above
			p.size = sc.plainMaxPayload() - 16 + rng.IntN(21)
		case x == 3:
			p.size = 2 + rng.IntN(14)
		case x < 12:
			p.size = 1 + rng.IntN(200)
		default:
			p.size = 1 + rng.IntN(maxp)
		}
		if sc.SizeSweep {
			p.size = 1 + i%maxp
		}
		if sc.SizeTop {
			if i%2 == 0 {
				p.size = sc.plainMaxPayload() - 16 + (i/2)%21
			} else {
				p.size = 1 + rng.IntN(120)
			}
		}
		if p.size > maxp {
			if sc.PubRaw {
				p.size = maxp // (a hand-written publisher has no size check of its own)
			} else {
				p.mayErr = true
			}
		}
		if p.size < 1 {
			p.size = 1
		}
		// RTP header features: they take their bytes from the payload, the total size stays what was drawn
		if !sc.PlainHeaders {
			p.extras = genExtras(rng, p.size-1)
			p.size -= p.extras.bytes()
		}
		out[i] = p
	}
	return out
}

// genPayload regenerates the payload of write number wid (first bytes carry the number).
func genPayload(seed uint64, wid int, size int) []byte {
	b := make([]byte, size)
	var id [8]byte
	binary.BigEndian.PutUint64(id[:], uint64(wid))
	rng := rand.New(rand.NewPCG(seed^0x9e3779b97f4a7c15, uint64(wid)))
	for i := 0; i < size; i += 8 {
		var w [8]byte
		binary.LittleEndian.PutUint64(w[:], rng.Uint64())
		copy(b[i:], w[:])
	}
	if size >= 8 {
		copy(b, id[:])
	} else {
		copy(b, id[8-size:])
	}
	return b
}

// digest is what stands for a payload in the line protocol: length, CRC-32, first eight bytes.
func digest(p []byte) []byte {
	d := make([]byte, 8, 16)
	binary.BigEndian.PutUint32(d[0:], uint32(len(p)))
	binary.BigEndian.PutUint32(d[4:], crc32.ChecksumIEEE(p))
	n := len(p)
	if n > 8 {
		n = 8
	}
	return append(d, p[:n]...)
}
