package pipe

import (
	"bytes"
	"encoding/binary"
	"fmt"
	"hash/crc32"
	"math/rand/v2"

	"github.com/pion/rtp"
)

// RTP header features a writer may use: padding (through Header.PaddingSize or the deprecated
// Packet.PaddingSize), a header extension (one-byte / two-byte RFC 8285 profiles, a generic RFC 3550
// profile, an empty one), 0..15 CSRCs.  What a callback must be handed is what pion's own
// Unmarshal(Marshal(written)) gives - the library documents no other transformation than SSRC.

type hdrExtras struct {
	padding   int  // 0: none
	padOldAPI bool // set through the deprecated Packet.PaddingSize
	ext       int  // 0 none, 1 one-byte, 2 two-byte, 3 generic profile, 4 generic profile without data
	extSeed   uint32
	nCSRC     int
}

// genExtras picks header features that fit into `room` bytes besides one payload byte.
func genExtras(rng *rand.Rand, room int) hdrExtras {
	var e hdrExtras
	if room < 2 || rng.IntN(3) == 0 {
		return e
	}
	if rng.IntN(2) == 0 {
		e.nCSRC = []int{1, 2, 3, 15, rng.IntN(16)}[rng.IntN(5)]
	}
	if rng.IntN(2) == 0 {
		e.ext = 1 + rng.IntN(4)
		e.extSeed = rng.Uint32()
	}
	if rng.IntN(2) == 0 {
		e.padding = []int{1, 2, 3, 4, 7, 255, 1 + rng.IntN(255)}[rng.IntN(7)]
		e.padOldAPI = rng.IntN(3) == 0
	}
	// shed features until they fit
	for e.bytes() > room {
		switch {
		case e.padding > 0:
			e.padding = 0
		case e.ext != 0:
			e.ext = 0
		default:
			e.nCSRC = 0
		}
	}
	return e
}

func (e hdrExtras) apply(h *rtp.Header) {
	for i := 0; i < e.nCSRC; i++ {
		h.CSRC = append(h.CSRC, 0xc5000000+uint32(i)*0x01010101+e.extSeed)
	}
	r := rand.New(rand.NewPCG(uint64(e.extSeed), 0xe7))
	data := func(n int) []byte {
		b := make([]byte, n)
		for i := range b {
			b[i] = byte(r.Uint32())
		}
		return b
	}
	switch e.ext {
	case 1:
		h.Extension, h.ExtensionProfile = true, rtp.ExtensionProfileOneByte
		h.SetExtension(1+uint8(r.IntN(14)), data(1+r.IntN(16))) //nolint:errcheck
		if r.IntN(2) == 0 {
			h.SetExtension(1+uint8(r.IntN(14)), data(1+r.IntN(4))) //nolint:errcheck
		}
	case 2:
		h.Extension, h.ExtensionProfile = true, rtp.ExtensionProfileTwoByte
		h.SetExtension(1+uint8(r.IntN(200)), data(r.IntN(40))) //nolint:errcheck
		if r.IntN(2) == 0 {
			h.SetExtension(1+uint8(r.IntN(200)), data(1+r.IntN(4))) //nolint:errcheck
		}
	case 3:
		h.Extension, h.ExtensionProfile = true, 0x9abc
		h.SetExtension(0, data(4*(1+r.IntN(5)))) //nolint:errcheck
	case 4:
		h.Extension, h.ExtensionProfile = true, 0x9abc
	}
}

// bytes the features add to the marshalled packet
func (e hdrExtras) bytes() int {
	h := rtp.Header{Version: 2}
	e.apply(&h)
	return h.MarshalSize() - hdrSize + e.padding
}

// buildPacket: write number wid as the writer hands it to WritePacketRTP.
func buildPacket(sc *Scenario, wid int, p pktMeta) *rtp.Packet {
	pkt := &rtp.Packet{
		Header:  rtp.Header{Version: 2, PayloadType: p.pt, SequenceNumber: p.seq, Timestamp: p.ts, Marker: p.marker, SSRC: p.ssrcIn},
		Payload: genPayload(sc.Seed, wid, p.size),
	}
	p.extras.apply(&pkt.Header)
	if p.extras.padding > 0 {
		pkt.Header.Padding = true
		if p.extras.padOldAPI {
			pkt.PaddingSize = byte(p.extras.padding) //nolint:staticcheck
		} else {
			pkt.Header.PaddingSize = byte(p.extras.padding)
		}
	}
	return pkt
}

// expectedPacket: what a callback must be handed for that write (SSRC apart): Unmarshal ∘ Marshal.
func expectedPacket(sc *Scenario, wid int, p pktMeta) *rtp.Packet {
	b, err := buildPacket(sc, wid, p).Marshal()
	if err != nil {
		panic(fmt.Sprintf("write %d does not marshal: %v", wid, err))
	}
	var out rtp.Packet
	if err = out.Unmarshal(b); err != nil {
		panic(fmt.Sprintf("write %d does not unmarshal: %v", wid, err))
	}
	return &out
}

// extrasBytes: canonical encoding of everything in a packet besides pt / seq / ts / marker / ssrc / payload.
func extrasBytes(pkt *rtp.Packet) []byte {
	var b bytes.Buffer
	flag := func(v bool) {
		if v {
			b.WriteByte(1)
		} else {
			b.WriteByte(0)
		}
	}
	b.WriteByte(pkt.Version)
	flag(pkt.Padding)
	b.WriteByte(pkt.Header.PaddingSize)
	b.WriteByte(pkt.PaddingSize) //nolint:staticcheck
	flag(pkt.Extension)
	if pkt.Extension {
		binary.Write(&b, binary.BigEndian, pkt.ExtensionProfile) //nolint:errcheck
		for _, id := range pkt.GetExtensionIDs() {
			pl := pkt.GetExtension(id)
			b.WriteByte(id)
			binary.Write(&b, binary.BigEndian, uint16(len(pl))) //nolint:errcheck
			b.Write(pl)
		}
	}
	b.WriteByte(byte(len(pkt.CSRC)))
	for _, c := range pkt.CSRC {
		binary.Write(&b, binary.BigEndian, c) //nolint:errcheck
	}
	return b.Bytes()
}

// hdrDiff names the first header feature in which got differs from want.
func hdrDiff(got, want *rtp.Packet) string {
	switch {
	case got.Version != want.Version:
		return fmt.Sprintf("version %d, written %d", got.Version, want.Version)
	case got.Padding != want.Padding || got.Header.PaddingSize != want.Header.PaddingSize:
		return fmt.Sprintf("padding %v/%d, written %v/%d", got.Padding, got.Header.PaddingSize, want.Padding, want.Header.PaddingSize)
	case got.PaddingSize != want.PaddingSize: //nolint:staticcheck
		return fmt.Sprintf("Packet.PaddingSize %d, pion gives %d", got.PaddingSize, want.PaddingSize) //nolint:staticcheck
	case got.Extension != want.Extension || (got.Extension && got.ExtensionProfile != want.ExtensionProfile):
		return fmt.Sprintf("extension %v/0x%04x, written %v/0x%04x", got.Extension, got.ExtensionProfile, want.Extension, want.ExtensionProfile)
	case len(got.CSRC) != len(want.CSRC):
		return fmt.Sprintf("%d CSRCs, written %d", len(got.CSRC), len(want.CSRC))
	case !bytes.Equal(extrasBytes(got), extrasBytes(want)):
		return "header extension data or CSRC values differ"
	}
	return ""
}

// pktDigest stands for payload + header features in the line protocol.
func pktDigest(pkt *rtp.Packet) []byte {
	d := digest(pkt.Payload)
	var c [4]byte
	binary.BigEndian.PutUint32(c[:], crc32.ChecksumIEEE(extrasBytes(pkt)))
	return append(d, c[:]...)
}
