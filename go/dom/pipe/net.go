// Package pipe is the correspondence driver and property oracle for C01 (end-to-end media delivery
// preserves packets, order and identity).  It runs a real gortsplib Server + ServerStream and real
// reading Clients on loopback over UDP, TCP interleaved, HTTP / WebSocket tunnels and TLS+SRTP, and
// (second direction) a recording Client whose packets a server session re-writes to a ServerStream.
// Only the public API of gortsplib is used: handler callbacks, Stats(), and the Listen / ListenPacket /
// DialContext / TLSListen hooks of Server and Client (to stall a reader's connection, to inject UDP
// loss / duplication / reordering, and to log datagram arrivals).
package pipe

import (
	"bytes"
	"context"
	"crypto/ecdsa"
	"crypto/elliptic"
	crand "crypto/rand"
	"crypto/sha1"
	"crypto/tls"
	"crypto/x509"
	"crypto/x509/pkix"
	"encoding/binary"
	"fmt"
	"math/big"
	"math/rand/v2"
	"net"
	"strings"
	"sync"
	"sync/atomic"
	"time"
)

// ---------------------------------------------------------------------------------------------
// gates: stall the server-side writes towards one reader
// ---------------------------------------------------------------------------------------------

type gate struct {
	mu     sync.Mutex
	closed bool
	ch     chan struct{}
}

func (g *gate) shut() {
	g.mu.Lock()
	if !g.closed {
		g.closed = true
		g.ch = make(chan struct{})
	}
	g.mu.Unlock()
}

func (g *gate) open() {
	g.mu.Lock()
	if g.closed {
		g.closed = false
		close(g.ch)
	}
	g.mu.Unlock()
}

// wait blocks while the gate is shut (at most 8 s: a harness bug must not hang the check).
func (g *gate) wait() {
	g.mu.Lock()
	if !g.closed {
		g.mu.Unlock()
		return
	}
	ch := g.ch
	g.mu.Unlock()
	select {
	case <-ch:
	case <-time.After(8 * time.Second):
	}
}

// netState is shared by all wrappers of one scenario.
type netState struct {
	mu       sync.Mutex
	portGate map[int]*gate // client-side local port (TCP conn or UDP RTP listener) → the reader's gate
	portRdr  map[int]*reader
	clock    *atomic.Int64
	// onSrvRead (relay over UDP): every datagram the server's RTP socket reads
	onSrvRead func(b []byte)
	// Writes on plain RTSP connections that were not exactly one message
	nSplit     int
	firstSplit string
	tls        bool
}

func newNetState(clock *atomic.Int64) *netState {
	return &netState{portGate: map[int]*gate{}, portRdr: map[int]*reader{}, clock: clock}
}

func (ns *netState) register(port int, rd *reader) {
	ns.mu.Lock()
	ns.portGate[port] = rd.gate
	ns.portRdr[port] = rd
	ns.mu.Unlock()
}

func (ns *netState) lookup(port int) (*gate, *reader) {
	ns.mu.Lock()
	defer ns.mu.Unlock()
	return ns.portGate[port], ns.portRdr[port]
}

// ---------------------------------------------------------------------------------------------
// server side: TCP
// ---------------------------------------------------------------------------------------------

type srvConn struct {
	net.Conn
	ns     *netState
	port   int
	sniff  sync.Once
	tunnel atomic.Bool // HTTP / WebSocket tunnel: what is written is not plain RTSP
}

func (c *srvConn) Read(b []byte) (int, error) {
	n, err := c.Conn.Read(b)
	if n > 0 {
		c.sniff.Do(func() {
			if bytes.HasPrefix(b[:n], []byte("GET ")) || bytes.HasPrefix(b[:n], []byte("POST ")) {
				c.tunnel.Store(true)
			}
		})
	}
	return n, err
}

// wholeMessage: is b exactly one interleaved frame, or exactly one RTSP response / request?  The
// response writer of a connection and the session's media writer share the connection with nothing
// but the atomicity of one Write call between them: a message handed over in two calls can be torn.
func wholeMessage(b []byte) bool {
	if len(b) == 0 {
		return true
	}
	if b[0] == 0x24 {
		return len(b) >= 4 && len(b) == 4+(int(b[2])<<8|int(b[3]))
	}
	i := bytes.Index(b, []byte("\r\n\r\n"))
	if i < 0 {
		return false
	}
	first := b[:bytes.IndexByte(b, '\r')]
	if !bytes.HasPrefix(first, []byte("RTSP/1.0 ")) && !bytes.HasSuffix(first, []byte(" RTSP/1.0")) {
		return false
	}
	body := 0
	for _, line := range bytes.Split(b[:i], []byte("\r\n")) {
		if k := bytes.IndexByte(line, ':'); k > 0 && strings.EqualFold(string(line[:k]), "Content-Length") {
			fmt.Sscanf(strings.TrimSpace(string(line[k+1:])), "%d", &body) //nolint:errcheck
		}
	}
	return len(b) == i+4+body
}

func (ns *netState) splitWrite(who string, b []byte) {
	ns.mu.Lock()
	ns.nSplit++
	if ns.firstSplit == "" {
		n := len(b)
		if n > 24 {
			n = 24
		}
		ns.firstSplit = fmt.Sprintf("%s: a Write of %d bytes starting % x is not one whole message", who, len(b), b[:n])
	}
	ns.mu.Unlock()
}

func (c *srvConn) Write(b []byte) (int, error) {
	if bytes.HasPrefix(b, []byte("HTTP/")) {
		c.tunnel.Store(true) // answer to the GET / POST / upgrade of a tunnel
	}
	if !c.tunnel.Load() && !wholeMessage(b) {
		c.ns.splitWrite("server connection", b)
	}
	if len(b) > 0 && b[0] == 0x24 { // interleaved frame: the session's writer goroutine
		if g, _ := c.ns.lookup(c.port); g != nil {
			g.wait()
		}
	}
	return c.Conn.Write(b)
}

type srvListener struct {
	net.Listener
	ns *netState
}

func (l *srvListener) Accept() (net.Conn, error) {
	c, err := l.Listener.Accept()
	if err != nil {
		return nil, err
	}
	port := 0
	if a, ok := c.RemoteAddr().(*net.TCPAddr); ok {
		port = a.Port
	}
	return &srvConn{Conn: c, ns: l.ns, port: port}, nil
}

// ---------------------------------------------------------------------------------------------
// server side: UDP with fault injection per destination reader
// ---------------------------------------------------------------------------------------------

type held struct {
	b    []byte
	addr net.Addr
	left int
}

type faults struct {
	mu                 sync.Mutex
	rng                *rand.Rand
	loss, dup, reorder int // per mille
	held               []held
	nLoss, nDup, nHeld int
}

type srvPC struct {
	*net.UDPConn
	ns *netState
}

func (c *srvPC) WriteTo(b []byte, addr net.Addr) (int, error) {
	ua, ok := addr.(*net.UDPAddr)
	if !ok || ua.Port%2 != 0 || len(b) < 12 {
		return c.UDPConn.WriteTo(b, addr)
	}
	g, rd := c.ns.lookup(ua.Port)
	if g != nil {
		g.wait()
	}
	if rd == nil || rd.faults == nil {
		return c.UDPConn.WriteTo(b, addr)
	}
	return rd.faults.send(c.UDPConn, b, addr)
}

// send applies loss / duplication / reordering to one datagram.
func (f *faults) send(uc *net.UDPConn, b []byte, addr net.Addr) (int, error) {
	f.mu.Lock()
	defer f.mu.Unlock()
	x := f.rng.IntN(1000)
	switch {
	case x < f.loss:
		f.nLoss++
	case x < f.loss+f.reorder:
		f.nHeld++
		f.held = append(f.held, held{b: append([]byte{}, b...), addr: addr, left: 1 + f.rng.IntN(6)})
		return len(b), nil
	default:
		uc.WriteTo(b, addr) //nolint:errcheck
		if x < f.loss+f.reorder+f.dup {
			f.nDup++
			uc.WriteTo(b, addr) //nolint:errcheck
		}
	}
	// release held datagrams whose delay expired
	keep := f.held[:0]
	for _, h := range f.held {
		h.left--
		if h.left <= 0 {
			uc.WriteTo(h.b, h.addr) //nolint:errcheck
		} else {
			keep = append(keep, h)
		}
	}
	f.held = keep
	return len(b), nil
}

// flushTo sends what is still held back.
func (f *faults) flushTo(uc *net.UDPConn) {
	f.mu.Lock()
	for _, h := range f.held {
		uc.WriteTo(h.b, h.addr) //nolint:errcheck
	}
	f.held = nil
	f.mu.Unlock()
}

func (c *srvPC) ReadFrom(b []byte) (int, net.Addr, error) {
	n, a, err := c.UDPConn.ReadFrom(b)
	if err == nil && n >= 12 && c.ns.onSrvRead != nil && c.UDPConn.LocalAddr().(*net.UDPAddr).Port%2 == 0 {
		c.ns.onSrvRead(b[:n])
	}
	return n, a, err
}

// flush sends what is still held back.
func (c *srvPC) flush(rd *reader) {
	if rd.faults != nil {
		rd.faults.flushTo(c.UDPConn)
	}
}

// ---------------------------------------------------------------------------------------------
// client side
// ---------------------------------------------------------------------------------------------

// cliPC logs every RTP datagram the client's listener reads, before the library processes it.
// sentSet remembers the datagrams a socket sent: two RTP datagrams of one sender are never identical
// (sequence numbers differ; with SRTP so do the authentication tags).
type sentSet struct {
	mu   sync.Mutex
	seen map[[20]byte]int
	dups []string
}

func (s *sentSet) add(b []byte) {
	k := sha1.Sum(b)
	s.mu.Lock()
	defer s.mu.Unlock()
	if s.seen == nil {
		s.seen = map[[20]byte]int{}
	}
	if at, ok := s.seen[k]; ok {
		if len(s.dups) < 5 {
			_, seq, _, ssrc := parseHdr(b)
			s.dups = append(s.dups, fmt.Sprintf("datagram %d = datagram %d (seq %d ssrc %d, %d bytes)", len(s.seen)+len(s.dups), at, seq, ssrc, len(b)))
		}
		return
	}
	s.seen[k] = len(s.seen)
}

func (s *sentSet) list() []string {
	s.mu.Lock()
	defer s.mu.Unlock()
	return append([]string{}, s.dups...)
}

type cliPC struct {
	*net.UDPConn
	rd   *reader
	port int
}

// WriteTo counts the back-channel RTP datagrams the client's writer goroutine really sent.
func (c *cliPC) WriteTo(b []byte, addr net.Addr) (int, error) {
	if c.port%2 == 0 && len(b) >= 12 && b[0]>>6 == 2 && b[1]&0x7f == backPT {
		c.rd.backSent.Add(1)
		c.rd.backSet.add(b)
	}
	return c.UDPConn.WriteTo(b, addr)
}

func (c *cliPC) ReadFrom(b []byte) (int, net.Addr, error) {
	n, a, err := c.UDPConn.ReadFrom(b)
	if err == nil && c.port%2 == 0 && n >= 12 {
		c.rd.arrival(b[:n])
	}
	return n, a, err
}

// pubPC counts the RTP datagrams the publishing client's writer goroutine really sent.
type pubPC struct {
	*net.UDPConn
	set    *sentSet
	sent   *atomic.Int64
	port   int
	faults *faults // loss / duplication / reordering on the publisher → server hop
}

func (c *pubPC) WriteTo(b []byte, addr net.Addr) (int, error) {
	if c.port%2 == 0 && len(b) >= 12 {
		c.sent.Add(1)
		if c.set != nil && b[0]>>6 == 2 {
			c.set.add(b)
		}
		if c.faults != nil {
			return c.faults.send(c.UDPConn, b, addr)
		}
	}
	return c.UDPConn.WriteTo(b, addr)
}

func parseHdr(b []byte) (pt uint8, seq uint16, ts uint32, ssrc uint32) {
	return b[1] & 0x7f, binary.BigEndian.Uint16(b[2:]), binary.BigEndian.Uint32(b[4:]), binary.BigEndian.Uint32(b[8:])
}

// ---------------------------------------------------------------------------------------------
// ports, certificates
// ---------------------------------------------------------------------------------------------

func freeUDPPair() (int, error) {
	for i := 0; i < 200; i++ {
		a, err := net.ListenPacket("udp", "127.0.0.1:0")
		if err != nil {
			return 0, err
		}
		p := a.LocalAddr().(*net.UDPAddr).Port
		a.Close()
		if p%2 != 0 {
			p--
		}
		b1, err := net.ListenPacket("udp", fmt.Sprintf("127.0.0.1:%d", p))
		if err != nil {
			continue
		}
		b2, err := net.ListenPacket("udp", fmt.Sprintf("127.0.0.1:%d", p+1))
		if err != nil {
			b1.Close()
			continue
		}
		b1.Close()
		b2.Close()
		return p, nil
	}
	return 0, fmt.Errorf("no free UDP port pair")
}

var (
	certOnce sync.Once
	certVal  tls.Certificate
	certErr  error
)

// selfSigned generates the server certificate at run time (once per process).
func selfSigned() (tls.Certificate, error) {
	certOnce.Do(func() {
		key, err := ecdsa.GenerateKey(elliptic.P256(), crand.Reader)
		if err != nil {
			certErr = err
			return
		}
		tpl := &x509.Certificate{
			SerialNumber: big.NewInt(1),
			Subject:      pkix.Name{CommonName: "verif"},
			NotBefore:    time.Now().Add(-time.Hour),
			NotAfter:     time.Now().Add(24 * time.Hour),
			KeyUsage:     x509.KeyUsageDigitalSignature,
			ExtKeyUsage:  []x509.ExtKeyUsage{x509.ExtKeyUsageServerAuth},
			IPAddresses:  []net.IP{net.ParseIP("127.0.0.1")},
		}
		der, err := x509.CreateCertificate(crand.Reader, tpl, tpl, &key.PublicKey, key)
		if err != nil {
			certErr = err
			return
		}
		certVal = tls.Certificate{Certificate: [][]byte{der}, PrivateKey: key}
	})
	return certVal, certErr
}

func dialer(ns *netState, rd *reader) func(ctx context.Context, network, address string) (net.Conn, error) {
	return func(ctx context.Context, network, address string) (net.Conn, error) {
		nc, err := (&net.Dialer{}).DialContext(ctx, network, address)
		if err != nil {
			return nil, err
		}
		if a, ok := nc.LocalAddr().(*net.TCPAddr); ok {
			ns.register(a.Port, rd)
		}
		if ns.tls {
			return nc, nil // the client wraps it in TLS: only ciphertext would be seen
		}
		return &cliConn{Conn: nc, ns: ns}, nil
	}
}

// cliConn checks what a library client writes on a plain connection (requests, interleaved frames).
type cliConn struct {
	net.Conn
	ns     *netState
	sniff  sync.Once
	tunnel atomic.Bool
}

func (c *cliConn) Write(b []byte) (int, error) {
	c.sniff.Do(func() {
		if bytes.HasPrefix(b, []byte("GET ")) || bytes.HasPrefix(b, []byte("POST ")) {
			c.tunnel.Store(true)
		}
	})
	if !c.tunnel.Load() && !wholeMessage(b) {
		c.ns.splitWrite("client connection", b)
	}
	return c.Conn.Write(b)
}

func cliListenPacket(ns *netState, rd *reader) func(network, address string) (net.PacketConn, error) {
	return func(network, address string) (net.PacketConn, error) {
		pc, err := net.ListenPacket(network, address)
		if err != nil {
			return nil, err
		}
		uc, ok := pc.(*net.UDPConn)
		if !ok {
			pc.Close()
			return nil, fmt.Errorf("unexpected packet conn type %T", pc)
		}
		port := uc.LocalAddr().(*net.UDPAddr).Port
		if port%2 == 0 {
			ns.register(port, rd)
		}
		return &cliPC{UDPConn: uc, rd: rd, port: port}, nil
	}
}
