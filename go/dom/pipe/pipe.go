package pipe

import (
	"bufio"
	"bytes"
	"encoding/json"
	"fmt"
	"math/rand/v2"
	"net"
	"os"
	"path/filepath"
	"sort"
	"time"

	"github.com/bluenviron/gortsplib/v5/pkg/base"
	"github.com/bluenviron/gortsplib/v5/pkg/conn"

	"verifharness/corr"
)

// Domain pipe: real Server + ServerStream + Clients against Model/Pipeline.lean, and the C01
// property oracle.

var capChoices = []int{1, 2, 4, 8, 8, 16, 16, 64, 256}

func genPlan(rng *rand.Rand, sc *Scenario, transport string) []Step {
	n := sc.N
	var plan []Step
	at := 0
	if rng.IntN(3) != 0 {
		at = rng.IntN(n/2 + 1)
	}
	if at > 0 && rng.IntN(3) == 0 {
		plan = append(plan, Step{At: rng.IntN(at + 1), Op: "setup"})
	}
	plan = append(plan, Step{At: at, Op: "play"})
	if rng.IntN(3) == 0 {
		plan = append(plan, Step{At: at + rng.IntN(n/10+1), Op: "replay"})
	}
	if rng.IntN(4) == 0 {
		plan = append(plan, Step{At: at + rng.IntN(n/10+1), Op: "pause-refused"})
	}
	gateable := transport == "tcp" || transport == "udp"
	cycles := rng.IntN(3)
	if sc.Mode == "racy" {
		cycles = rng.IntN(4)
	}
	for c := 0; c < cycles && at < n; c++ {
		// optionally stall the connection for a while so that the queue fills up
		if gateable && rng.IntN(2) == 0 {
			g1 := at + 1 + rng.IntN(n/8+1)
			g2 := g1 + 1 + rng.IntN(3*sc.Cap+4)
			plan = append(plan, Step{At: g1, Op: "gate"}, Step{At: g2, Op: "ungate"})
			at = g2
		}
		p1 := at + 1 + rng.IntN(n/4+1)
		p2 := p1 + rng.IntN(n/6+1)
		plan = append(plan, Step{At: p1, Op: "pause"}, Step{At: p2, Op: "play"})
		if rng.IntN(3) == 0 { // PAUSE → PLAY → PLAY
			plan = append(plan, Step{At: p2 + rng.IntN(3), Op: "replay"})
		}
		at = p2
	}
	if gateable && rng.IntN(2) == 0 && at < n {
		g1 := at + 1 + rng.IntN(n/4+1)
		g2 := g1 + 1 + rng.IntN(3*sc.Cap+4)
		plan = append(plan, Step{At: g1, Op: "gate"}, Step{At: g2, Op: "ungate"})
		at = g2
	}
	if rng.IntN(3) == 0 {
		plan = append(plan, Step{At: at + 1 + rng.IntN(n/3+1), Op: "leave"})
	}
	return plan
}

// genChans picks the interleaved ids a hand-written peer asks for in its SETUPs (-1: none): explicit,
// odd-based, high, or left to the server, never a pair the server would refuse (a 400 ends the session).
func genChans(rng *rand.Rand, n int) []int {
	inUse := func(assigned []int, c int) bool {
		for _, t := range assigned {
			if t+1 == c || t == c || t == c+1 {
				return true
			}
		}
		return false
	}
	cands := []int{1, 3, 5, 7, 2, 4, 6, 9, 11, 21, 100, 101, 254}
	var assigned, out []int
	for k := 0; k < n; k++ {
		c := -1
		if rng.IntN(5) < 3 {
			c = cands[rng.IntN(len(cands))]
			if k > 0 && rng.IntN(3) == 0 && assigned[k-1] >= 2 {
				c = assigned[k-1] - 2 // the pair just below the previous one
			}
			if inUse(assigned, c) {
				c = -1
			}
		}
		out = append(out, c)
		if c < 0 {
			for i := 0; ; i += 2 {
				if !inUse(assigned, i) {
					c = i
					break
				}
			}
		}
		assigned = append(assigned, c)
	}
	return out
}

func genScenario(rng *rand.Rand, n int, allTransports bool) *Scenario {
	sc := &Scenario{Seed: rng.Uint64(), N: n, Cap: capChoices[rng.IntN(len(capChoices))]}
	if rng.IntN(2) == 0 {
		sc.Mode = "exact"
	} else {
		sc.Mode = "racy"
	}
	sc.TLS = rng.IntN(5) == 0
	if rng.IntN(4) == 0 {
		sc.MaxPkt = 100 + rng.IntN(1373)
	}
	nm := 1 + rng.IntN(3)
	pool := rng.Perm(16)
	pi := 0
	for m := 0; m < nm; m++ {
		nf := 1 + rng.IntN(2)
		var pts []int
		for f := 0; f < nf; f++ {
			if m > 0 && f == 0 && rng.IntN(3) == 0 {
				pts = append(pts, sc.Medias[0][0]) // the same payload type in two medias
				continue
			}
			pts = append(pts, 96+pool[pi%16])
			pi++
		}
		sc.Medias = append(sc.Medias, pts)
	}
	nr := 1 + rng.IntN(4)
	anyUDP := false
	for r := 0; r < nr; r++ {
		var sp ReaderSpec
		x := rng.IntN(10)
		switch {
		case x < 4:
			sp.Transport = "tcp"
		case x < 8:
			sp.Transport = "udp"
		case x == 8:
			sp.Transport = "http"
		default:
			sp.Transport = "ws"
		}
		if !allTransports && (sp.Transport == "http" || sp.Transport == "ws") && rng.IntN(2) == 0 {
			sp.Transport = "tcp"
		}
		if rng.IntN(10) < 7 {
			for m := 0; m < nm; m++ {
				sp.Medias = append(sp.Medias, m)
			}
		} else {
			perm := rng.Perm(nm)
			sp.Medias = perm[:1+rng.IntN(nm)]
		}
		if sp.Transport == "udp" {
			anyUDP = true
			if rng.IntN(2) == 0 {
				sp.Loss = rng.IntN(60)
				if !sc.TLS {
					sp.Dup = rng.IntN(40)
					sp.Reorder = rng.IntN(40)
				}
			}
		}
		if rng.IntN(4) == 0 {
			sp.StallEach = 20 + rng.IntN(60)
		}
		sp.Plan = genPlan(rng, sc, sp.Transport)
		if sp.Transport == "tcp" && !sc.TLS && rng.IntN(4) == 0 {
			sp.Raw = true
			sp.Chans = genChans(rng, len(sp.Medias))
			if rng.IntN(2) == 0 {
				sp.KeepaliveUs = 100 + rng.IntN(900)
			}
		}
		sc.Readers = append(sc.Readers, sp)
	}
	if rng.IntN(5) == 0 {
		// second direction: a recording client publishes, the server session re-writes to the stream
		sc.Relay = []string{"tcp", "tcp", "udp"}[rng.IntN(3)]
		sc.PubCap = []int{8, 16, 64, 256}[rng.IntN(4)]
		if rng.IntN(3) == 0 {
			sc.PubSteps = []Step{{At: rng.IntN(n/2 + 1), Op: "pause-refused"}, {At: n/2 + rng.IntN(n/2), Op: "pause-refused"}}
			sc.PubRecordRefused = rng.IntN(2)
		}
		if sc.Relay == "udp" {
			anyUDP = true
			if rng.IntN(3) != 0 {
				sc.PubLoss = rng.IntN(40)
				if !sc.TLS {
					sc.PubDup = rng.IntN(40)
					sc.PubReorder = rng.IntN(80)
				}
			}
		} else if !sc.TLS && rng.IntN(2) == 0 {
			sc.PubRaw = true
			sc.PubOrder = rng.Perm(nm)
			sc.PubChans = genChans(rng, nm)
		}
	}
	if !anyUDP && !sc.TLS && rng.IntN(2) == 0 {
		// (with SRTP a reader that misses a packet loses the rollover counter: known finding, see srtpArbSeqScenario)
		sc.ArbSeq = true
	}
	if sc.Mode == "racy" {
		sc.Pace = 1 + rng.IntN(16)
	} else if rng.IntN(3) == 0 {
		sc.Pace = 32
	}
	if sc.Relay != "" {
		sc.Pace = 1 + rng.IntN(6)
		// back-to-back bursts: several packets of one format sit in the publisher's queue at once
		for at := rng.IntN(60); at < n-50; {
			l := 50 + rng.IntN(151)
			if at+l > n {
				l = n - at
			}
			sc.Bursts = append(sc.Bursts, [2]int{at, l})
			at += l + 20 + rng.IntN(200)
		}
		if sc.TLS || rng.IntN(2) == 0 {
			sc.PubCap = 256 // (a burst fits: nothing is refused)
		}
		sc.PubNoSAVP = sc.TLS && sc.Relay == "tcp" && rng.IntN(4) == 0
	} else if sc.TLS && sc.Pace > 0 {
		sc.Bursts = [][2]int{{rng.IntN(n / 2), 50 + rng.IntN(151)}}
	}
	if sc.TLS && !sc.ArbSeq && sc.Relay == "" && rng.IntN(2) == 0 {
		// every format wraps early, before any reader sets up (rollover counter 1 at SETUP time)
		nf := 0
		for _, fs := range sc.Medias {
			nf += len(fs)
		}
		shift := 4*nf*40 + 200
		sc.SRTPWrap = true
		sc.SeqStart = 65536 - 20 - rng.IntN(20)
		for r := range sc.Readers {
			for i := range sc.Readers[r].Plan {
				sc.Readers[r].Plan[i].At += shift
			}
		}
		sc.N += shift
	}
	if sc.Relay == "udp" {
		// A UDP reader's session must not close while the UDP publisher is active: the harness reads
		// ServerSession.Stats() inside the publisher's OnPacketRTP callback (server UDP listener goroutine,
		// clients read-lock held) and a closing UDP session holds its props lock while it waits for the
		// clients write-lock (serverSessionMedia.stop -> removeClient): lock-order inversion, outside C01.
		for r := range sc.Readers {
			if sc.Readers[r].Transport != "udp" {
				continue
			}
			var plan []Step
			for _, st := range sc.Readers[r].Plan {
				if st.Op != "leave" {
					plan = append(plan, st)
				}
			}
			sc.Readers[r].Plan = plan
		}
	}
	return sc
}

type runStats struct {
	infra int
	runs  int
}

// runScenario executes one scenario, compares with the model and evaluates the property.
func runScenario(c *corr.Ctx, sc *Scenario, name string, st *runStats) {
	if sc.Churn != nil {
		runChurn(c, sc)
		return
	}
	st.runs++
	h := &harness{sc: sc, pk: genPackets(sc)}
	tStart := time.Now()
	var err error
	finished := false
	// a scenario that does not finish (a deadlock in the code under test) is a violation with the
	// scenario as replay (key pipe-hang), a panic likewise
	c.Guard("C01", "pipe", sc, 150*time.Second, func() {
		err = h.run()
		finished = true
	})
	if !finished {
		return
	}
	if os.Getenv("PIPE_DEBUG") != "" {
		fmt.Fprintf(os.Stderr, "-- %s took %v (write phase %v)\n", name, time.Since(tStart).Round(time.Millisecond), h.tWrite.Round(time.Millisecond))
	}
	if err != nil {
		// an operation failed: if the byte stream was corrupted or a message was written in pieces, that is why
		h.checkWire(c)
		st.infra++
		c.Dist("infra-error")
		if st.infra <= 5 {
			c.Note(fmt.Sprintf("%s: %v", name, err))
		}
		return
	}
	for _, rd := range h.readers {
		sort.SliceStable(rd.recs, func(i, j int) bool { return rd.recs[i].stamp < rd.recs[j].stamp })
	}
	if sc.Relay != "" {
		h.pkPub = h.pk
		h.checkRelay(c)
		if !sc.NoModel {
			c.Add(h.buildPubCase(name + "/pub"))
		}
		h.reindex()
		c.Dist("relay:" + sc.Relay)
		c.DistN("publisher-pause-refused", h.nPubRefused)
		if h.rawPub != nil {
			c.Dist("relay:raw-publisher")
		}
		for _, w := range h.pubConns {
			c.DistN("pub-udp-injected-loss", w.faults.nLoss)
			c.DistN("pub-udp-injected-dup", w.faults.nDup)
			c.DistN("pub-udp-injected-reorder", w.faults.nHeld)
		}
		c.DistN("relay-received", len(h.relayRecs))
		for _, o := range h.pubOut {
			if o == 'f' {
				c.Dist("publisher-queue-full")
			}
		}
	}
	for _, rd := range h.readers {
		if rd.spec.Back {
			c.DistN("back-channel-written", len(rd.backOut))
			c.DistN("back-channel-received", len(rd.backRecs))
		}
	}
	h.checkProperty(c)
	h.checkServerDecode(c)
	if os.Getenv("PIPE_DEBUG") != "" {
		b, _ := json.Marshal(sc)
		fmt.Fprintf(os.Stderr, "== %s %s\n", name, b)
		for _, rd := range h.readers {
			fmt.Fprintf(os.Stderr, "   reader %d %s: callbacks %d arrivals %d decodeErrs %v closeErr %q ctl", rd.idx, rd.spec.Transport, len(rd.recs), len(rd.arrivals), rd.decodeErrs, rd.closeErr)
			for _, ob := range rd.ctl {
				fmt.Fprintf(os.Stderr, " %s[%d..%d k=%d]", ob.op, ob.cs, ob.cd, ob.k)
			}
			fmt.Fprintln(os.Stderr)
		}
		for _, n := range h.notes {
			fmt.Fprintln(os.Stderr, "   note:", n)
		}
		if os.Getenv("PIPE_DEBUG") == "2" {
			for _, rd := range h.readers {
				got := map[int]bool{}
				for _, rc := range rd.recs {
					got[rc.wid] = true
				}
				fmt.Fprintf(os.Stderr, "   reader %d history:", rd.idx)
				for j, w := range h.writes {
					if w.fan[rd.idx] == 'a' {
						p := h.pk[j]
						mark := "+"
						if !got[j] {
							mark = "MISSING"
						}
						fmt.Fprintf(os.Stderr, " %d(m%d/%d seq %d)%s", j, p.media, p.pt, p.seq, mark)
					}
				}
				fmt.Fprintln(os.Stderr)
			}
		}
	}
	if !sc.NoModel {
		c.Add(h.buildCase(name))
	} else {
		c.CountOnly(name, true)
	}
	// distribution
	c.Dist("mode:" + sc.Mode)
	if sc.TLS {
		c.Dist("tls+srtp")
	}
	if sc.ArbSeq {
		c.Dist("arbitrary-seq")
	}
	c.DistN("packets-written", len(h.writes))
	for j, w := range h.writes {
		if w.err != nil && j < len(h.pk) && h.pk[j].mayErr {
			c.Dist("write-over-max-refused")
		}
	}
	for _, rd := range h.readers {
		c.Dist("reader:" + rd.spec.Transport)
		if rd.spec.Raw {
			c.Dist("reader:raw-channels")
		}
		if rd.raw != nil {
			c.DistN("keepalives-sent", int(rd.raw.kaSent.Load()))
			c.DistN("keepalives-answered", int(rd.raw.kaAnsw.Load()))
		}
		c.DistN("callbacks", len(rd.recs))
		for _, ob := range rd.ctl {
			c.Dist("ctl:" + ob.op)
		}
		if rd.faults != nil {
			c.DistN("udp-injected-loss", rd.faults.nLoss)
			c.DistN("udp-injected-dup", rd.faults.nDup)
			c.DistN("udp-injected-reorder", rd.faults.nHeld)
		}
		c.DistN("udp-arrivals", len(rd.arrivals))
	}
	for _, w := range h.writes {
		for _, f := range w.fan {
			switch f {
			case 'a':
				c.Dist("push-no-error")
			case 'f':
				c.Dist("push-queue-full")
			}
		}
	}
	for _, n := range h.notes {
		c.Dist("note")
		if st.runs <= 3 || len(n) > 0 && st.infra < 3 {
			c.Sample(map[string]any{"scenario": name, "note": n})
		}
	}
}

// sweepScenario: every payload size 1..max once, one reliable and one UDP reader.
func sweepScenario(seed uint64, tls bool, transport string) *Scenario {
	sc := &Scenario{Seed: seed, Mode: "exact", TLS: tls, Cap: 256, Medias: [][]int{{96}}, Pace: 16}
	sc.N = sc.maxPayload()
	sc.SizeSweep = true
	sc.Readers = []ReaderSpec{{Transport: transport, Medias: []int{0}, Plan: []Step{{At: 0, Op: "play"}}}}
	return sc
}

// srtpFollowedWrap: TLS+SRTP readers that are playing while every format's sequence number wraps.
func srtpFollowedWrap(seed uint64) *Scenario {
	return &Scenario{Seed: seed, Mode: "exact", TLS: true, Cap: 256, Medias: [][]int{{96, 97}, {98}}, N: 1500, Pace: 2,
		SRTPWrap: true, SeqStart: 65536 - 300,
		Readers: []ReaderSpec{
			{Transport: "tcp", Medias: []int{0, 1}, Plan: []Step{{At: 0, Op: "play"}, {At: 500, Op: "pause"}, {At: 1200, Op: "play"}}},
			{Transport: "udp", Medias: []int{1, 0}, Plan: []Step{{At: 0, Op: "play"}}},
			{Transport: "tcp", Medias: []int{0, 1}, Plan: []Step{{At: 0, Op: "play"}}},
		}}
}

// srtpMissedWrap reproduces the known finding c01-srtp-roc-desync: the reader is told the rollover
// counters in the SETUP response, the sequence number of the format wraps before its PLAY, and every
// packet it is then sent fails SRTP authentication (RFC 3711 index estimation has no starting point).
// arb: the same with arbitrary sequence numbers and a reader that joins late.
func srtpMissedWrap(seed uint64, arb bool) *Scenario {
	sc := &Scenario{Seed: seed, Mode: "exact", TLS: true, Cap: 256, Medias: [][]int{{96}}, N: 900, Pace: 2, NoModel: true,
		Readers: []ReaderSpec{{Transport: "tcp", Medias: []int{0}, Plan: []Step{{At: 10, Op: "setup"}, {At: 400, Op: "play"}}}}}
	sc.ExpectDesync = true
	if arb {
		sc.ArbSeq = true
	} else {
		sc.SRTPWrap = true
		sc.SeqStart = 65536 - 200
	}
	return sc
}

// channelScenarios: explicit / odd / high / omitted interleaved ids in both directions, several medias,
// any SETUP order (hand-written publisher and readers).
func channelScenarios(seed uint64) []*Scenario {
	plan := []Step{{At: 0, Op: "play"}}
	mk := func(order, pubChans []int, readers ...ReaderSpec) *Scenario {
		return &Scenario{Seed: seed, Mode: "exact", Cap: 256, Medias: [][]int{{96}, {97, 98}, {96}}, N: 400, Pace: 2,
			Relay: "tcp", PubRaw: true, PubOrder: order, PubChans: pubChans, Readers: readers}
	}
	return []*Scenario{
		// media 1 on the odd pair 1-2, then media 0 and 2 without a request: 0 and 2 are taken
		mk([]int{1, 0, 2}, []int{1, -1, -1},
			ReaderSpec{Transport: "tcp", Raw: true, Medias: []int{1, 0, 2}, Chans: []int{1, -1, -1}, Plan: plan},
			ReaderSpec{Transport: "tcp", Medias: []int{0, 1, 2}, Plan: plan}),
		// the pair just below, high pairs, the last pair
		mk([]int{2, 1, 0}, []int{5, 3, -1},
			ReaderSpec{Transport: "tcp", Raw: true, Medias: []int{2, 0, 1}, Chans: []int{254, 100, -1}, Plan: plan},
			ReaderSpec{Transport: "tcp", Raw: true, Medias: []int{0, 2}, Chans: []int{3, 1}, Plan: plan}),
		mk([]int{0, 2, 1}, []int{-1, 3, -1},
			ReaderSpec{Transport: "tcp", Raw: true, Medias: []int{1, 2, 0}, Chans: []int{-1, 3, 5}, Plan: plan}),
	}
}

// reorderScenario: heavy reordering / duplication on both UDP hops (publisher → server, server →
// reader): every packet has its own payload, so a parked packet whose buffer is reused shows.
func reorderScenario(seed uint64) *Scenario {
	plan := []Step{{At: 0, Op: "play"}}
	return &Scenario{Seed: seed, Mode: "exact", Cap: 256, Medias: [][]int{{96}, {97, 98}}, N: 800, Pace: 2,
		Relay: "udp", PubCap: 256, PubReorder: 150, PubDup: 30, PubLoss: 10,
		Readers: []ReaderSpec{
			{Transport: "udp", Medias: []int{0, 1}, Plan: plan, Reorder: 150, Dup: 30, Loss: 10},
			{Transport: "tcp", Medias: []int{1, 0}, Plan: plan},
		}}
}

// topSizes: every other write has a total RTP size in [MaxPacketSize-16, MaxPacketSize+4] (payload
// unique per write), the others are small: a write either returns an error or the packet arrives intact
// at every reader, and the packets after it arrive too.  Secure scenarios cross the SRTP overhead.
func topSizes(seed uint64, tls bool, maxPkt int, relay string, transports ...string) *Scenario {
	plan := []Step{{At: 0, Op: "play"}}
	sc := &Scenario{Seed: seed, Mode: "exact", TLS: tls, Cap: 256, MaxPkt: maxPkt, Medias: [][]int{{96}, {97, 98}}, N: 420,
		Pace: 2, SizeTop: true, Relay: relay, PubCap: 256}
	for i, tr := range transports {
		ms := []int{0, 1}
		if i%2 == 1 {
			ms = []int{1, 0}
		}
		sc.Readers = append(sc.Readers, ReaderSpec{Transport: tr, Medias: ms, Plan: plan})
	}
	return sc
}

// countingConn counts the Write calls pkg/conn makes for one message.
type countingConn struct {
	net.Conn
	calls int
	buf   bytes.Buffer
}

func (c *countingConn) Write(b []byte) (int, error) {
	c.calls++
	return c.buf.Write(b)
}

// probeConnWrites (deterministic): conn.WriteInterleavedFrame / WriteResponse / WriteRequest hand one
// complete message to exactly one Write call.
func probeConnWrites(c *corr.Ctx) {
	check := func(what string, size int, write func(cn *conn.Conn) error, want []byte) {
		cc := &countingConn{}
		cn := conn.NewConn(bufio.NewReader(bytes.NewReader(nil)), cc)
		err := write(cn)
		c.CountOnly(fmt.Sprintf("probe/%s/%d", what, size), true)
		if err != nil || cc.calls != 1 || !bytes.Equal(cc.buf.Bytes(), want) {
			c.Violate(corr.Violation{Property: "C01", Key: "c01-split-write", Where: "pkg/conn",
				Clause: "every interleaved frame / response / request is handed to the connection in one Write (the media writer and the response writer share it)",
				Input:  map[string]any{"probe": what, "payload_bytes": size},
				Detail: fmt.Sprintf("%s with %d payload bytes: %d Write calls, %d of %d bytes, error %v", what, size, cc.calls, cc.buf.Len(), len(want), err)})
		}
	}
	for _, n := range []int{0, 1, 2, 100, 1460, 1472, 65535} {
		pl := bytes.Repeat([]byte{0xa5}, n)
		fr := &base.InterleavedFrame{Channel: 6, Payload: pl}
		want, _ := fr.Marshal()
		check("WriteInterleavedFrame", n, func(cn *conn.Conn) error { return cn.WriteInterleavedFrame(fr, make([]byte, n+4)) }, want)
		res := &base.Response{StatusCode: base.StatusOK, Header: base.Header{"CSeq": base.HeaderValue{"7"}}, Body: pl}
		want, _ = res.Marshal()
		check("WriteResponse", n, func(cn *conn.Conn) error { return cn.WriteResponse(res) }, want)
		u, _ := base.ParseURL("rtsp://127.0.0.1:8554/s")
		req := &base.Request{Method: base.GetParameter, URL: u, Header: base.Header{"CSeq": base.HeaderValue{"7"}}, Body: pl}
		want, _ = req.Marshal()
		check("WriteRequest", n, func(cn *conn.Conn) error { return cn.WriteRequest(req) }, want)
	}
}

// keepaliveStorm: hand-written TCP readers fire OPTIONS / GET_PARAMETER every few hundred µs while
// thousands of packets are streamed to them, and parse the byte stream strictly.
func keepaliveStorm(seed uint64, n int) *Scenario {
	return &Scenario{Seed: seed, Mode: "racy", Cap: 256, Medias: [][]int{{96}, {97, 98}}, N: n, Pace: 1, NoModel: n > 10000,
		Readers: []ReaderSpec{
			{Transport: "tcp", Raw: true, Medias: []int{0, 1}, Chans: []int{-1, -1}, KeepaliveUs: 150, Plan: []Step{{At: 0, Op: "play"}}},
			{Transport: "tcp", Raw: true, Medias: []int{1, 0}, Chans: []int{3, -1}, KeepaliveUs: 400,
				Plan: []Step{{At: 0, Op: "play"}, {At: n / 4, Op: "replay"}, {At: n / 2, Op: "pause"}, {At: n/2 + n/10, Op: "play"}}},
			{Transport: "tcp", Medias: []int{0, 1}, Plan: []Step{{At: 0, Op: "play"}}},
		}}
}

// refusedScenarios: a PLAY / PAUSE / RECORD the server refuses (4xx / 5xx from the handler, or 501 from a
// server whose handler has no OnPause / OnPlay) must leave the flow working: what is written AFTER the
// refused request is delivered too (exactly once, in order), in both directions.
func refusedScenarios(seed uint64) []*Scenario {
	readers := func() []ReaderSpec {
		return []ReaderSpec{
			{Transport: "tcp", Medias: []int{0, 1}, Plan: []Step{{At: 0, Op: "play"}, {At: 100, Op: "pause-refused"}, {At: 220, Op: "pause-refused"},
				{At: 300, Op: "pause"}, {At: 340, Op: "play-refused"}, {At: 341, Op: "play"}}},
			{Transport: "udp", Medias: []int{1, 0}, Plan: []Step{{At: 0, Op: "play-refused"}, {At: 1, Op: "play"}, {At: 150, Op: "pause-refused"}}},
		}
	}
	pub := []Step{{At: 60, Op: "pause-refused"}, {At: 200, Op: "pause-refused"}, {At: 201, Op: "pause-refused"}}
	mk := func(relay string, noPause, noPlay bool, rs []ReaderSpec) *Scenario {
		sc := &Scenario{Seed: seed, Mode: "exact", Cap: 64, Medias: [][]int{{96}, {97, 98}}, N: 500, Pace: 2,
			Relay: relay, PubCap: 32, NoPauseHandler: noPause, NoPlayHandler: noPlay, Readers: rs}
		if relay != "" {
			sc.PubSteps = pub
			sc.PubRecordRefused = 1
		}
		return sc
	}
	noPauseReaders := []ReaderSpec{
		{Transport: "tcp", Medias: []int{0, 1}, Plan: []Step{{At: 0, Op: "play"}, {At: 100, Op: "pause-refused"}, {At: 300, Op: "pause-refused"}}},
		{Transport: "udp", Medias: []int{0, 1}, Plan: []Step{{At: 20, Op: "play"}, {At: 200, Op: "pause-refused"}}},
	}
	// play session with a back channel: the client's write queue carries media; a refused PAUSE destroys
	// and rebuilds it, the next burst must arrive
	back := func(tr string) ReaderSpec {
		return ReaderSpec{Transport: tr, Medias: []int{0, 1}, Back: true, Plan: []Step{{At: 0, Op: "play"}, {At: 50, Op: "back"},
			{At: 120, Op: "pause-refused"}, {At: 130, Op: "back"}, {At: 250, Op: "pause-refused"}, {At: 251, Op: "pause-refused"}, {At: 260, Op: "back"},
			{At: 330, Op: "pause"}, {At: 360, Op: "play-refused"}, {At: 361, Op: "play"}, {At: 400, Op: "back"}}}
	}
	bc := mk("", false, false, []ReaderSpec{back("tcp"), back("udp"), readers()[0]})
	bc.BackChannel = true
	bcNoPause := mk("", true, false, []ReaderSpec{
		{Transport: "tcp", Medias: []int{1}, Back: true, Plan: []Step{{At: 0, Op: "play"}, {At: 50, Op: "back"}, {At: 120, Op: "pause-refused"}, {At: 130, Op: "back"}}},
		{Transport: "udp", Medias: []int{0}, Back: true, Plan: []Step{{At: 0, Op: "play"}, {At: 60, Op: "back"}, {At: 140, Op: "pause-refused"}, {At: 150, Op: "back"}}}})
	bcNoPause.BackChannel = true
	return []*Scenario{
		bc, bcNoPause,
		mk("", false, false, readers()),
		mk("tcp", false, false, readers()[:1]),
		mk("udp", false, false, readers()[1:]),
		mk("tcp", true, false, noPauseReaders),
		mk("udp", true, true, []ReaderSpec{{Transport: "tcp", Medias: []int{0}}}), // (nobody can PLAY: the reader never connects)
	}
}

// replayScenario: PLAY again while playing, PAUSE → PLAY → PLAY, PLAY with Range - delivery goes on.
// secureBurst: rtsps, a recording client writes back-to-back bursts (many packets of one format are in its
// queue at once, each must leave as it was encrypted), the server session re-writes them to secure readers.
func secureBurst(seed uint64, relay string) *Scenario {
	return &Scenario{Seed: seed, Mode: "exact", TLS: true, Cap: 512, Medias: [][]int{{96, 97}, {98}}, N: 700, Pace: 2,
		Relay: relay, PubCap: 512, Bursts: [][2]int{{40, 200}, {300, 60}, {420, 150}},
		Readers: []ReaderSpec{
			{Transport: "tcp", Medias: []int{0, 1}, Plan: []Step{{At: 0, Op: "play"}}},
			{Transport: "udp", Medias: []int{1, 0}, Plan: []Step{{At: 0, Op: "play"}}},
		}}
}

// secureBackChannel: rtsps, play sessions whose back channel carries back-to-back bursts towards the server,
// while the stream sends bursts towards the readers.
func secureBackChannel(seed uint64) *Scenario {
	back := func(tr string) ReaderSpec {
		return ReaderSpec{Transport: tr, Medias: []int{0, 1}, Back: true, BackBurst: 100, Plan: []Step{{At: 0, Op: "play"}, {At: 30, Op: "back"},
			{At: 200, Op: "back"}, {At: 330, Op: "pause-refused"}, {At: 340, Op: "back"}}}
	}
	return &Scenario{Seed: seed, Mode: "exact", TLS: true, Cap: 512, Medias: [][]int{{96}, {97, 98}}, N: 500, Pace: 2, BackChannel: true,
		Bursts: [][2]int{{60, 120}, {350, 100}}, Readers: []ReaderSpec{back("tcp"), back("udp")}}
}

func replayScenario(seed uint64, tls bool) *Scenario {
	sc := &Scenario{Seed: seed, Mode: "exact", TLS: tls, Cap: 64, Medias: [][]int{{96}, {97, 98}}, N: 600, Pace: 2,
		Readers: []ReaderSpec{
			{Transport: "udp", Medias: []int{0, 1}, Plan: []Step{{At: 0, Op: "play"}, {At: 120, Op: "replay"},
				{At: 250, Op: "pause"}, {At: 300, Op: "play"}, {At: 301, Op: "replay"}, {At: 420, Op: "replay"}}},
		}}
	if !tls {
		sc.Readers = append(sc.Readers, ReaderSpec{Transport: "tcp", Raw: true, Medias: []int{1, 0}, Chans: []int{-1, -1},
			Plan: []Step{{At: 0, Op: "play"}, {At: 100, Op: "replay"}, {At: 200, Op: "pause"}, {At: 300, Op: "play"},
				{At: 301, Op: "replay"}, {At: 350, Op: "replay"}}})
	}
	return sc
}

// srtpLateJoin: TLS+SRTP, medias with 2-3 formats, every format's sequence number wraps (rollover
// counter 1) BEFORE the readers set up; nothing wraps between their SETUP and their first packet.
func srtpLateJoin(seed uint64, mode string) *Scenario {
	join := []Step{{At: 1300, Op: "play"}}
	return &Scenario{Seed: seed, Mode: mode, TLS: true, Cap: 256, Medias: [][]int{{96, 97}, {98, 99, 100}}, N: 2000, Pace: 2,
		SRTPWrap: true, SeqStart: 65536 - 60,
		Readers: []ReaderSpec{
			{Transport: "tcp", Medias: []int{0, 1}, Plan: join},
			{Transport: "udp", Medias: []int{1, 0}, Plan: join},
			{Transport: "tcp", Medias: []int{1}, Plan: []Step{{At: 1200, Op: "setup"}, {At: 1500, Op: "play"}}},
		}}
}

func Run(c *corr.Ctx) {
	c.Rule("real gortsplib Server + ServerStream (1..3 medias x 1..2 formats) and 1..4 real reading Clients over UDP (with injected loss / duplication / reordering), TCP interleaved, HTTP and WebSocket tunnels, plain and TLS+SRTP; the writer writes N packets (payload 1..max, arbitrary timestamps / markers, consecutive sequence numbers from a random start incl. wrap, arbitrary ones on reliable transports); readers join, PAUSE/PLAY and leave at seeded moments (exact: between writes; racy: concurrently), connections are stalled to fill the write queue; every callback is recorded; the property is evaluated on the recorded history, and the compiled Lean model is run on the logged history (writes with their per-reader push outcome, control operations where their effect was observed, UDP datagram arrivals) and must reproduce every reader's callback list")
	st := &runStats{}
	t0 := time.Now()

	if c.Replay != nil {
		var sc Scenario
		if err := json.Unmarshal(c.Replay, &sc); err != nil {
			c.Note("replay input is not a scenario: " + err.Error())
			return
		}
		for i := 0; i < 5; i++ {
			runScenario(c, &sc, fmt.Sprintf("replay/%d", i), st)
		}
		return
	}

	// corpus first
	files, _ := filepath.Glob("/verif/corpus/C01/*.json")
	sort.Strings(files)
	for _, f := range files {
		b, err := os.ReadFile(f)
		if err != nil {
			continue
		}
		var sc Scenario
		if json.Unmarshal(b, &sc) != nil {
			continue
		}
		for i := 0; i < 2; i++ {
			runScenario(c, &sc, fmt.Sprintf("corpus/%s/%d", filepath.Base(f), i), st)
		}
	}

	probeConnWrites(c)

	// boundary sweep: every payload size, per transport
	sweeps := []struct {
		tls bool
		tr  string
	}{{false, "tcp"}, {false, "udp"}}
	if !c.Quick() {
		sweeps = append(sweeps, []struct {
			tls bool
			tr  string
		}{{true, "tcp"}, {true, "udp"}, {false, "http"}, {false, "ws"}, {true, "http"}, {true, "ws"}}...)
	}
	for _, sw := range sweeps {
		sc := sweepScenario(c.Rng.Uint64(), sw.tls, sw.tr)
		runScenario(c, sc, fmt.Sprintf("sweep/%s/tls=%v", sw.tr, sw.tls), st)
	}

	for i, sc := range channelScenarios(c.Rng.Uint64()) {
		runScenario(c, sc, fmt.Sprintf("channels/%d", i), st)
	}
	runScenario(c, topSizes(c.Rng.Uint64(), true, 0, "", "tcp", "udp"), "top-sizes/tls", st)
	runScenario(c, topSizes(c.Rng.Uint64(), true, 900, "", "tcp", "udp"), "top-sizes/tls-900", st)
	runScenario(c, topSizes(c.Rng.Uint64(), false, 700, "", "tcp", "udp"), "top-sizes/plain-700", st)
	runScenario(c, topSizes(c.Rng.Uint64(), true, 1000, "tcp", "tcp", "udp"), "top-sizes/tls-relay-tcp", st)
	if !c.Quick() {
		runScenario(c, topSizes(c.Rng.Uint64(), true, 0, "udp", "tcp", "udp"), "top-sizes/tls-relay-udp", st)
		runScenario(c, topSizes(c.Rng.Uint64(), true, 600, "", "http", "ws"), "top-sizes/tls-tunnels", st)
		runScenario(c, topSizes(c.Rng.Uint64(), false, 0, "tcp", "http", "tcp"), "top-sizes/plain-relay", st)
	}
	for i, sc := range refusedScenarios(c.Rng.Uint64()) {
		runScenario(c, sc, fmt.Sprintf("refused/%d", i), st)
	}
	runScenario(c, &Scenario{Churn: &ChurnSpec{Seed: c.Rng.Uint64(), Writers: 4, Readers: 8, Cycles: c.N(40, 200)}}, "churn", st)
	runScenario(c, secureBurst(c.Rng.Uint64(), "tcp"), "secure-burst/record-tcp", st)
	runScenario(c, secureBurst(c.Rng.Uint64(), "udp"), "secure-burst/record-udp", st)
	runScenario(c, secureBackChannel(c.Rng.Uint64()), "secure-burst/back-channel", st)
	runScenario(c, keepaliveStorm(c.Rng.Uint64(), c.N(4000, 10000)), "keepalive-storm", st)
	if !c.Quick() {
		runScenario(c, keepaliveStorm(c.Rng.Uint64(), 40000), "keepalive-storm-40k", st)
	}
	runScenario(c, reorderScenario(c.Rng.Uint64()), "udp-reorder-both-hops", st)
	runScenario(c, replayScenario(c.Rng.Uint64(), false), "play-again", st)
	runScenario(c, replayScenario(c.Rng.Uint64(), true), "play-again-tls", st)
	runScenario(c, srtpLateJoin(c.Rng.Uint64(), "exact"), "srtp-join-after-wrap", st)
	runScenario(c, srtpFollowedWrap(c.Rng.Uint64()), "srtp-wrap-followed", st)
	runScenario(c, srtpMissedWrap(c.Rng.Uint64(), false), "srtp-wrap-missed", st)
	runScenario(c, srtpMissedWrap(c.Rng.Uint64(), true), "srtp-arbseq-late-join", st)

	// random scenarios, each a few times (the schedule differs from run to run)
	// (the model's lists make the oracle quadratic in the number of packets: its time is part of the
	// budget, so the pending cases are flushed as we go)
	// the fixed part above takes longer on a loaded machine: the random part gets its own share (at least
	// minRand scenarios, whatever the fixed part took), bounded by the hard limit
	budget := time.Duration(c.N(28, 420)) * time.Second
	hard := time.Duration(c.N(50, 600)) * time.Second
	minRand := c.N(12, 40)
	c.DistN("fixed-part-seconds", int(time.Since(t0).Seconds()))
	for i := 0; (time.Since(t0) < budget || i < minRand) && time.Since(t0) < hard; i++ {
		c.Dist("random-scenarios")
		n, reps := 1000, c.N(2, 3)
		switch {
		case !c.Quick() && i%12 == 0:
			n, reps = 10000, 1
		case !c.Quick() && i%3 == 0:
			n = 3000
		case i%3 == 1:
			n = 200 + c.Rng.IntN(800)
		}
		sc := genScenario(c.Rng, n, !c.Quick() || i%3 == 0)
		for k := 0; k < reps; k++ {
			runScenario(c, sc, fmt.Sprintf("rand/%d/%d", i, k), st)
		}
		if i%8 == 7 || n >= 10000 {
			c.Flush()
		}
	}

	// thorough: 10^5 packets per transport family, property oracle only (the model's lists are quadratic)
	if !c.Quick() {
		for i, tr := range []string{"tcp", "udp", "http", "ws"} {
			sc := genScenario(c.Rng, 100000, true)
			sc.NoModel = true
			sc.TLS = i%2 == 1
			for r := range sc.Readers {
				if r == 0 {
					sc.Readers[r].Transport = tr
					if tr != "udp" {
						sc.Readers[r].Loss, sc.Readers[r].Dup, sc.Readers[r].Reorder = 0, 0, 0
					}
				}
			}
			fixScenario(sc)
			runScenario(c, sc, "long/"+tr, st)
		}
	}
	if st.runs > 4 && st.infra*2 > st.runs {
		panic(fmt.Sprintf("pipe: %d of %d scenarios could not be run (see notes)", st.infra, st.runs))
	}
}

// fixScenario re-establishes the generator's invariants after a manual edit.
func fixScenario(sc *Scenario) {
	for r := range sc.Readers {
		sp := &sc.Readers[r]
		if sp.Transport == "udp" {
			sc.ArbSeq = false
			if sc.TLS {
				sp.Dup, sp.Reorder = 0, 0
			}
		}
	}
}
