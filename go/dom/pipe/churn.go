package pipe

// Churn: writers stream continuously from several goroutines while readers join (PLAY), read and leave
// (TEARDOWN, or PAUSE / PLAY first) concurrently, many times. The run happens in a CHILD process: a fatal
// runtime error of the code under test (e.g. "concurrent map iteration and map write" in the fan-out) cannot
// be recovered - the parent turns the child's death into a violation with the scenario as replay.

import (
	"bytes"
	"encoding/json"
	"fmt"
	"net"
	"os"
	"os/exec"
	"runtime"
	"strings"
	"sync"
	"sync/atomic"
	"time"

	"github.com/bluenviron/gortsplib/v5"
	"github.com/bluenviron/gortsplib/v5/pkg/base"
	"github.com/bluenviron/gortsplib/v5/pkg/description"
	"github.com/bluenviron/gortsplib/v5/pkg/format"
	"github.com/pion/rtp"

	"verifharness/corr"
)

// ChurnSpec is the replayable input of a churn run.
type ChurnSpec struct {
	Seed    uint64 `json:"seed"`
	Writers int    `json:"writers"` // writer goroutines, one format each (2 medias x 2 formats)
	Readers int    `json:"readers"` // reader goroutines (even: TCP, odd: UDP)
	Cycles  int    `json:"cycles"`  // join / read / leave cycles per reader
}

type churnViolation struct {
	Key    string `json:"key"`
	Clause string `json:"clause"`
	Detail string `json:"detail"`
}

type churnResult struct {
	Violations []churnViolation `json:"violations"`
	Cycles     int              `json:"cycles"`
	Callbacks  int              `json:"callbacks"`
	Written    int              `json:"written"`
	QueueFull  int              `json:"queue_full"`
	Infra      []string         `json:"infra"`
}

const churnEnv = "PIPE_CHURN_CHILD"

func init() {
	if v := os.Getenv(churnEnv); v != "" {
		var sp ChurnSpec
		if err := json.Unmarshal([]byte(v), &sp); err != nil {
			fmt.Fprintln(os.Stderr, "churn child: bad spec:", err)
			os.Exit(3)
		}
		res := churnChild(&sp)
		b, _ := json.Marshal(res)
		os.Stdout.Write(append([]byte("CHURN-RESULT "), append(b, '\n')...))
		os.Exit(0)
	}
}

// runChurn starts the child and reports.
func runChurn(c *corr.Ctx, sc *Scenario) {
	sp := sc.Churn
	b, _ := json.Marshal(sp)
	cmd := exec.Command(os.Args[0])
	cmd.Env = append(os.Environ(), churnEnv+"="+string(b))
	var out, errb bytes.Buffer
	cmd.Stdout, cmd.Stderr = &out, &errb
	viol := func(clause, key, detail string) {
		c.Violate(corr.Violation{Property: "C01", Clause: clause, Key: key,
			Where: "ServerStream fan-out while sessions join and leave concurrently", Input: sc, Detail: detail})
	}
	if err := cmd.Start(); err != nil {
		c.Note("churn: cannot start the child: " + err.Error())
		return
	}
	done := make(chan error, 1)
	go func() { done <- cmd.Wait() }()
	var werr error
	select {
	case werr = <-done:
	case <-time.After(120 * time.Second):
		cmd.Process.Kill()
		<-done
		viol("writers and readers make progress", "c01-churn-hang", "the churn run did not finish within 120 s")
		return
	}
	c.Dist("churn-runs")
	var res *churnResult
	for _, l := range strings.Split(out.String(), "\n") {
		if strings.HasPrefix(l, "CHURN-RESULT ") {
			res = &churnResult{}
			if json.Unmarshal([]byte(strings.TrimPrefix(l, "CHURN-RESULT ")), res) != nil {
				res = nil
			}
		}
	}
	if werr != nil || res == nil {
		es := errb.String()
		head := es
		if i := strings.Index(es, "fatal error:"); i >= 0 {
			head = es[i:]
		} else if i := strings.Index(es, "panic:"); i >= 0 {
			head = es[i:]
		}
		lines := strings.Split(head, "\n")
		if len(lines) > 14 {
			lines = lines[:14]
		}
		viol("the process survives concurrent joins, leaves and writes", "c01-churn-crash",
			fmt.Sprintf("the process running %d writers and %d readers x %d cycles died (%v): %s", sp.Writers, sp.Readers, sp.Cycles, werr, strings.Join(lines, " | ")))
		return
	}
	c.DistN("churn-cycles", res.Cycles)
	c.DistN("churn-callbacks", res.Callbacks)
	c.DistN("churn-written", res.Written)
	c.DistN("churn-queue-full", res.QueueFull)
	for _, n := range res.Infra {
		c.Note("churn: " + n)
	}
	for _, v := range res.Violations {
		viol(v.Clause, v.Key, v.Detail)
	}
	c.CountOnly("churn", res.Cycles > 0 && res.Callbacks > 0)
}

// ---------------------------------------------------------------------------------------------
// the child
// ---------------------------------------------------------------------------------------------

type churnHandler struct {
	stream    *gortsplib.ServerStream
	queueFull atomic.Int64
}

func (h *churnHandler) OnDescribe(_ *gortsplib.ServerHandlerOnDescribeCtx) (*base.Response, *gortsplib.ServerStream, error) {
	return &base.Response{StatusCode: base.StatusOK}, h.stream, nil
}

func (h *churnHandler) OnSetup(_ *gortsplib.ServerHandlerOnSetupCtx) (*base.Response, *gortsplib.ServerStream, error) {
	return &base.Response{StatusCode: base.StatusOK}, h.stream, nil
}

func (h *churnHandler) OnPlay(_ *gortsplib.ServerHandlerOnPlayCtx) (*base.Response, error) {
	return &base.Response{StatusCode: base.StatusOK}, nil
}

func (h *churnHandler) OnPause(_ *gortsplib.ServerHandlerOnPauseCtx) (*base.Response, error) {
	return &base.Response{StatusCode: base.StatusOK}, nil
}

func (h *churnHandler) OnStreamWriteError(_ *gortsplib.ServerHandlerOnStreamWriteErrorCtx) {
	h.queueFull.Add(1)
}

func churnPayload(pt uint8, seq uint16) []byte {
	n := 20 + int(seq)%200
	b := make([]byte, n)
	for i := range b {
		b[i] = byte(int(pt)*31 + int(seq)*7 + i)
	}
	return b
}

func churnChild(sp *ChurnSpec) *churnResult {
	res := &churnResult{}
	var mu sync.Mutex
	viol := func(clause, key, detail string) {
		mu.Lock()
		if len(res.Violations) < 6 {
			res.Violations = append(res.Violations, churnViolation{Key: key, Clause: clause, Detail: detail})
		}
		mu.Unlock()
	}
	infra := func(f string, a ...any) {
		mu.Lock()
		if len(res.Infra) < 5 {
			res.Infra = append(res.Infra, fmt.Sprintf(f, a...))
		}
		mu.Unlock()
	}
	port, err := freeUDPPair()
	if err != nil {
		infra("ports: %v", err)
		return res
	}
	h := &churnHandler{}
	srv := &gortsplib.Server{Handler: h, UDPRTPAddress: fmt.Sprintf("127.0.0.1:%d", port),
		UDPRTCPAddress: fmt.Sprintf("127.0.0.1:%d", port+1), WriteQueueSize: 4096, DisableRTCPSenderReports: true}
	l0, err := net.Listen("tcp", "127.0.0.1:0")
	if err != nil {
		infra("listen: %v", err)
		return res
	}
	addr := l0.Addr().String()
	l0.Close()
	srv.RTSPAddress = addr
	if err = srv.Start(); err != nil {
		infra("server: %v", err)
		return res
	}
	defer srv.Close()
	var medias []*description.Media
	var fmts [][]format.Format
	for m := 0; m < 2; m++ {
		var fs []format.Format
		for f := 0; f < 2; f++ {
			g := &format.Generic{PayloadTyp: uint8(96 + 2*m + f), RTPMa: "private/90000"}
			if err = g.Init(); err != nil {
				infra("format: %v", err)
				return res
			}
			fs = append(fs, g)
		}
		medias = append(medias, &description.Media{Type: description.MediaTypeVideo, Formats: fs})
		fmts = append(fmts, fs)
	}
	h.stream = &gortsplib.ServerStream{Server: srv, Desc: &description.Session{Medias: medias}}
	if err = h.stream.Initialize(); err != nil {
		infra("stream: %v", err)
		return res
	}
	defer h.stream.Close()

	var stop atomic.Bool
	var written atomic.Int64
	var wg sync.WaitGroup
	for w := 0; w < sp.Writers; w++ {
		wg.Add(1)
		go func(w int) {
			defer wg.Done()
			m, f := w%2, (w/2)%2
			pt := uint8(96 + 2*m + f)
			for seq := uint16(w * 1000); !stop.Load(); seq++ {
				pkt := &rtp.Packet{Header: rtp.Header{Version: 2, PayloadType: pt, SequenceNumber: seq, Timestamp: uint32(seq) * 90}, Payload: churnPayload(pt, seq)}
				if werr := h.stream.WritePacketRTP(medias[m], pkt); werr != nil {
					infra("writer %d: %v", w, werr)
					return
				}
				written.Add(1)
				if seq%4 == 3 {
					time.Sleep(30 * time.Microsecond)
				} else {
					runtime.Gosched()
				}
			}
		}(w)
	}

	var cycles, callbacks atomic.Int64
	var rwg sync.WaitGroup
	for r := 0; r < sp.Readers; r++ {
		rwg.Add(1)
		go func(r int) {
			defer rwg.Done()
			udp := r%2 == 1
			for cy := 0; cy < sp.Cycles; cy++ {
				churnCycle(sp, r, cy, udp, addr, &callbacks, viol, infra)
				cycles.Add(1)
			}
		}(r)
	}
	rwg.Wait()
	stop.Store(true)
	wg.Wait()
	res.Cycles, res.Callbacks, res.Written, res.QueueFull = int(cycles.Load()), int(callbacks.Load()), int(written.Load()), int(h.queueFull.Load())
	if res.QueueFull > 0 {
		// a refused push is a signalled loss: gaps prove nothing then
		var keep []churnViolation
		for _, v := range res.Violations {
			if v.Key != "c01-churn-gap" {
				keep = append(keep, v)
			}
		}
		res.Violations = keep
	}
	return res
}

type churnRec struct {
	seg int
	pt  uint8
	seq uint16
	ok  bool
}

// churnCycle: one join / read / (PAUSE / PLAY / read) / leave of one reader.
func churnCycle(sp *ChurnSpec, r, cy int, udp bool, addr string, callbacks *atomic.Int64,
	viol func(string, string, string), infra func(string, ...any),
) {
	u, _ := base.ParseURL("rtsp://" + addr + "/s")
	c := &gortsplib.Client{Scheme: u.Scheme, Host: u.Host, ReadTimeout: 20 * time.Second, WriteTimeout: 20 * time.Second,
		OnPacketsLost: func(uint64) {}, OnDecodeError: func(error) {}}
	if udp {
		c.Protocol = new(gortsplib.ProtocolUDP)
	} else {
		c.Protocol = new(gortsplib.ProtocolTCP)
	}
	if err := c.Start(); err != nil {
		infra("reader %d cycle %d start: %v", r, cy, err)
		return
	}
	defer c.Close()
	desc, _, err := c.Describe(u)
	if err != nil {
		infra("reader %d cycle %d describe: %v", r, cy, err)
		return
	}
	if err = c.SetupAll(desc.BaseURL, desc.Medias); err != nil {
		infra("reader %d cycle %d setup: %v", r, cy, err)
		return
	}
	var mu sync.Mutex
	var recs []churnRec
	seg := 0
	c.OnPacketRTPAny(func(_ *description.Media, _ format.Format, pkt *rtp.Packet) {
		mu.Lock()
		recs = append(recs, churnRec{seg: seg, pt: pkt.PayloadType, seq: pkt.SequenceNumber, ok: bytes.Equal(pkt.Payload, churnPayload(pkt.PayloadType, pkt.SequenceNumber))})
		mu.Unlock()
	})
	if _, err = c.Play(nil); err != nil {
		infra("reader %d cycle %d play: %v", r, cy, err)
		return
	}
	time.Sleep(time.Duration(500+((r*7+cy*13)%9)*400) * time.Microsecond)
	if (r+cy)%3 == 0 {
		if _, err = c.Pause(); err != nil {
			infra("reader %d cycle %d pause: %v", r, cy, err)
			return
		}
		mu.Lock()
		seg++
		mu.Unlock()
		if _, err = c.Play(nil); err != nil {
			infra("reader %d cycle %d second play: %v", r, cy, err)
			return
		}
		time.Sleep(time.Duration(400+((r+cy)%5)*300) * time.Microsecond)
	}
	c.Close()
	mu.Lock()
	defer mu.Unlock()
	callbacks.Add(int64(len(recs)))
	who := fmt.Sprintf("reader %d (udp %v) cycle %d", r, udp, cy)
	type key struct {
		seg int
		pt  uint8
	}
	last := map[key]uint16{}
	for i, rc := range recs {
		if !rc.ok || rc.pt < 96 || rc.pt > 99 {
			viol("identical payload, sequence number and payload type", "c01-churn-fields", fmt.Sprintf("%s: callback %d (pt %d seq %d) is not a packet any writer wrote", who, i, rc.pt, rc.seq))
			return
		}
		k := key{rc.seg, rc.pt}
		if p, ok := last[k]; ok {
			d := rc.seq - p
			switch {
			case d == 0 || d >= 0x8000:
				viol("packets arrive in the order written and at most once", "c01-churn-order", fmt.Sprintf("%s: format %d delivers seq %d after %d", who, rc.pt, rc.seq, p))
				return
			case d != 1 && !udp:
				viol("over TCP-based transports no packet is missing between a reader's PLAY and its leave", "c01-churn-gap",
					fmt.Sprintf("%s: format %d delivers seq %d after %d (%d packets missing; server queue 4096)", who, rc.pt, rc.seq, p, d-1))
				return
			}
		}
		last[k] = rc.seq
	}
}
