package ring

import (
	"encoding/json"
	"fmt"
	"os"
	"os/exec"
	"path/filepath"
	"strings"

	"verifharness/corr"
)

// raceTier (thorough only): build this same domain binary with the race detector
// (CGO_ENABLED=1, -race) and run its concurrent part (`VERIF_RING_RACE_CHILD=1`); a detected data
// race makes the child exit with status 66 and is reported as a violation.
func raceTier(c *corr.Ctx) {
	if os.Getenv("VERIF_RING_RACE_CHILD") != "" || c.Quick() {
		return
	}
	exe, err := os.Executable()
	if err != nil {
		c.Note("race tier skipped: " + err.Error())
		return
	}
	goDir := filepath.Join(filepath.Dir(exe), "..", "..", "go")
	var modflag []string
	if _, err := os.Stat(filepath.Join(goDir, "go.mod")); err != nil {
		// isolation mode of ./check (VERIF_REPO): the binary lives in .work/iso-<pid>/bin next to a
		// private go.mod whose `replace` points at the tree under test
		iso := filepath.Join(filepath.Dir(exe), "..", "go.mod")
		goDir = filepath.Join(filepath.Dir(exe), "..", "..", "..", "go")
		if _, err2 := os.Stat(iso); err2 != nil {
			c.Note("race tier skipped: harness module not found next to the binary")
			return
		}
		if _, err2 := os.Stat(filepath.Join(goDir, "go.mod")); err2 != nil {
			c.Note("race tier skipped: harness module not found next to the binary")
			return
		}
		modflag = []string{"-modfile=" + iso}
	}
	bin := filepath.Join(filepath.Dir(exe), "ring_race")
	env := append(os.Environ(), "CGO_ENABLED=1", "GOFLAGS=-mod=mod", "GOPROXY=off")
	args := append([]string{"build"}, modflag...)
	args = append(args, "-race", "-tags", "verif", "-o", bin, "./cmd/ring")
	b := exec.Command("go", args...)
	b.Dir, b.Env = goDir, env
	if out, err := b.CombinedOutput(); err != nil {
		c.Note("race tier skipped: a race-enabled build is not possible here: " + lastLine(string(out)))
		return
	}
	resf := filepath.Join(c.WorkDir, "ring_race.json")
	r := exec.Command(bin, "-seed", fmt.Sprint(c.Seed), "-tier", "thorough", "-out", resf, "-props", "C16", "-work", c.WorkDir)
	r.Env = append(env, "VERIF_RING_RACE_CHILD=1", "GORACE=halt_on_error=0 exitcode=66")
	out, err := r.CombinedOutput()
	races := strings.Count(string(out), "WARNING: DATA RACE")
	if races > 0 {
		i := strings.Index(string(out), "WARNING: DATA RACE")
		report(c, corr.Violation{Property: "C16", Clause: "ring state is only accessed under the mutex (no data race in any interleaving the race detector observed)",
			Key: "race-detected", Where: "pkg/ringbuffer, internal/asyncprocessor", Input: map[string]any{"kind": "race", "seed": c.Seed},
			Detail: trim(string(out)[i:], 3000)})
	} else if err != nil {
		c.Note("race-enabled run failed: " + err.Error() + ": " + lastLine(string(out)))
		return
	}
	var res corr.Result
	if bts, err := os.ReadFile(resf); err == nil && json.Unmarshal(bts, &res) == nil {
		c.DistN("race-build evaluations", res.Evaluations)
		for _, v := range res.Violations {
			report(c, v)
		}
		c.Note(fmt.Sprintf("race-enabled build (-race, CGO) ran %d concurrent cases, %d data races reported", res.Evaluations, races))
	}
}

// raceChild reports whether this process is the race-enabled child (concurrent part only).
func raceChild() bool { return os.Getenv("VERIF_RING_RACE_CHILD") != "" }

func lastLine(s string) string {
	s = strings.TrimSpace(s)
	if i := strings.LastIndex(s, "\n"); i >= 0 {
		s = s[i+1:]
	}
	return trim(s, 300)
}

func trim(s string, n int) string {
	if len(s) > n {
		return s[:n] + "…"
	}
	return s
}
