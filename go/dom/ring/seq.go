// Package ring is the correspondence driver and property oracle of C16 (outbound write queue):
// pkg/ringbuffer and internal/asyncprocessor against Model/Ring.lean, Model/Async.lean.
package ring

import (
	"fmt"
	"sync/atomic"
	"time"

	"github.com/bluenviron/gortsplib/v5/pkg/ringbuffer"

	"verifharness/corr"
)

// SeqOp is one operation of a sequential case.
type SeqOp struct {
	K  string `json:"k"`            // push | pull | close | reset
	ID int    `json:"id,omitempty"` // item pushed (ids are positive and unique inside a case)
}

// SeqCase is the replayable input of a sequential case.
type SeqCase struct {
	Kind string  `json:"kind"` // "seq"
	Size uint64  `json:"size"`
	Ops  []SeqOp `json:"ops"`
}

func stStr(r *ringbuffer.RingBuffer) string {
	ri, wi, closed, slots := r.VerifState()
	occ, h := 0, 0
	for i, s := range slots {
		if s != nil {
			occ++
			x, isInt := s.(int)
			if !isInt {
				x = 1 // Processor callbacks: occupancy pattern only
			}
			h = (h + (i+1)*x) % 1000003
		}
	}
	return fmt.Sprintf("%d %d %s %d %d", ri, wi, corr.B(closed), occ, h)
}

// wouldBlock decides from the implementation's own state whether Pull would reach cond.Wait().
func wouldBlock(r *ringbuffer.RingBuffer) bool {
	ri, _, closed, slots := r.VerifState()
	if closed {
		return false
	}
	if int(ri) < len(slots) && slots[ri] != nil {
		return false
	}
	return true
}

// stuckCount counts time-outs (a blocked Pull / Close / consumer).  Each one costs seconds, so after
// a few of them the remaining blocking-prone cases are skipped (the violation is already recorded).
var stuckCount atomic.Int32

// sawPanic: a ring operation panicked in a sequential case; the Processor / concurrent parts (where a
// panic in the consumer goroutine would kill the process and lose the report) are then skipped.
var sawPanic atomic.Bool

func stuck() { stuckCount.Add(1) }

func tooStuck() bool { return stuckCount.Load() >= 3 }

// report records a violation and counts it; when many have been recorded the driver stops
// generating further cases (the evidence is there, and a badly broken queue makes every case slow).
var nViol atomic.Int64

func report(c *corr.Ctx, v corr.Violation) {
	nViol.Add(1)
	c.Violate(v)
}

func enough() bool { return nViol.Load() >= 200 || tooStuck() || sawPanic.Load() }

func viol(c *corr.Ctx, in any, clause, key, detail string) {
	report(c, corr.Violation{Property: "C16", Clause: clause, Key: key, Where: "pkg/ringbuffer", Input: in, Detail: detail})
}

// seqOracle evaluates the property on the outputs of the implementation (sequential runs):
// the outputs must be those of a bounded FIFO queue.
type seqOracle struct {
	c      *corr.Ctx
	in     any
	size   int
	q      []int // accepted, not yet pulled, not discarded by Close/Reset
	closed bool
	pulled map[int]bool
	gone   map[int]bool // discarded by a Close / Reset
}

func (o *seqOracle) push(id int, ok bool) {
	if ok {
		if len(o.q) >= o.size {
			viol(o.c, o.in, "the queue never holds more than its capacity", "ring-over-capacity",
				fmt.Sprintf("push %d accepted while %d items are held (capacity %d)", id, len(o.q), o.size))
		}
		o.q = append(o.q, id)
	} else if len(o.q) != o.size {
		viol(o.c, o.in, "an item is refused only when the queue holds its capacity", "ring-refused-not-full",
			fmt.Sprintf("push %d refused while %d of %d items are held", id, len(o.q), o.size))
	}
}

func (o *seqOracle) pullItem(id int) {
	switch {
	case o.closed:
		viol(o.c, o.in, "nothing is pulled after Close (until Reset)", "ring-pull-after-close",
			fmt.Sprintf("Pull returned item %d although the ring is closed", id))
	case len(o.q) > 0 && o.q[0] == id:
	case o.pulled[id]:
		viol(o.c, o.in, "each accepted item is pulled at most once", "ring-duplicate", fmt.Sprintf("item %d pulled twice", id))
	case o.gone[id]:
		viol(o.c, o.in, "items discarded by Close/Reset are not pulled", "ring-resurrected", fmt.Sprintf("item %d pulled after it was discarded", id))
	default:
		viol(o.c, o.in, "items are pulled in acceptance order", "ring-order",
			fmt.Sprintf("Pull returned %d, oldest held item is %v", id, o.q))
	}
	o.pulled[id] = true
	for i, x := range o.q {
		if x == id {
			o.q = append(o.q[:i:i], o.q[i+1:]...)
			break
		}
	}
}

func (o *seqOracle) pullClosed() {
	if !o.closed {
		viol(o.c, o.in, "Pull reports closed only after Close", "ring-spurious-closed", "Pull returned false on an open ring")
	}
}

func (o *seqOracle) pullWait() {
	if o.closed || len(o.q) != 0 {
		viol(o.c, o.in, "a held item (or Close) is always observable by the consumer", "ring-stuck",
			fmt.Sprintf("Pull would block although closed=%v and %d items are held", o.closed, len(o.q)))
	}
}

func (o *seqOracle) discard(closed bool) {
	for _, x := range o.q {
		o.gone[x] = true
	}
	o.q = nil
	o.closed = closed
}

// runSeq runs one sequential case on the real RingBuffer.
func runSeq(c *corr.Ctx, sc *SeqCase, name string) {
	cs := corr.Case{Name: name, Nontrivial: len(sc.Ops) > 1}
	add := func(op, impl string) {
		cs.Ops = append(cs.Ops, op)
		cs.Impl = append(cs.Impl, impl)
	}
	r, err := ringbuffer.New(sc.Size)
	if err != nil {
		add(fmt.Sprintf("ring new %d", sc.Size), "err")
		c.Add(cs)
		return
	}
	add(fmt.Sprintf("ring new %d", sc.Size), "ok")
	o := &seqOracle{c: c, in: sc, size: int(sc.Size), pulled: map[int]bool{}, gone: map[int]bool{}}
	guard := func(f func() string) (s string) {
		defer func() {
			if recover() != nil {
				s = "panic"
			}
		}()
		return f()
	}
	for _, op := range sc.Ops {
		if n := len(cs.Impl); n > 0 && cs.Impl[n-1] == "panic" {
			break // the panic left the mutex locked: the ring is unusable
		}
		switch op.K {
		case "push":
			add(fmt.Sprintf("ring push %d", op.ID), guard(func() string {
				ok := r.Push(op.ID)
				o.push(op.ID, ok)
				return fmt.Sprintf("push %s %s", corr.B(ok), stStr(r))
			}))
		case "pull":
			add("ring pull", guard(func() string {
				if sc.Size > 0 && wouldBlock(r) {
					o.pullWait()
					return "wait " + stStr(r)
				}
				v, ok := r.Pull()
				if !ok {
					o.pullClosed()
					return "closed " + stStr(r)
				}
				o.pullItem(v.(int))
				return fmt.Sprintf("item %d %s", v.(int), stStr(r))
			}))
		case "close":
			add("ring close", guard(func() string {
				r.Close()
				o.discard(true)
				return "ok " + stStr(r)
			}))
		case "reset":
			add("ring reset", guard(func() string {
				r.Reset()
				o.discard(false)
				return "ok " + stStr(r)
			}))
		default:
			panic("bad op " + op.K)
		}
	}
	if n := len(cs.Impl); n > 0 && cs.Impl[n-1] == "panic" && sc.Size > 0 {
		sawPanic.Store(true)
		viol(c, sc, "operations on a ring of capacity >= 1 do not panic", "ring-panic", fmt.Sprintf("operation %d panicked", n-2))
	}
	c.Add(cs)
}

// checkBlockingPull: on a ring where Pull must wait, a real Pull (in a goroutine) does not return
// until a Push / Close happens, and then returns promptly with the right value.
func checkBlockingPull(c *corr.Ctx, size uint64, prefill int, wakeByClose bool) {
	if tooStuck() {
		return
	}
	in := map[string]any{"kind": "blocking-pull", "size": size, "prefill": prefill, "wake_by_close": wakeByClose}
	r, err := ringbuffer.New(size)
	if err != nil {
		panic(err)
	}
	// move the cursors: push and pull `prefill` items so the wait happens at an arbitrary index
	for i := 0; i < prefill; i++ {
		r.Push(1000 + i)
		r.Pull()
	}
	type res struct {
		v  any
		ok bool
	}
	ch := make(chan res, 1)
	go func() {
		defer func() {
			if e := recover(); e != nil {
				ch <- res{fmt.Sprintf("panic: %v", e), false}
			}
		}()
		v, ok := r.Pull()
		ch <- res{v, ok}
	}()
	select {
	case x := <-ch:
		viol(c, in, "Pull blocks while the queue is empty and open", "ring-pull-not-blocking", fmt.Sprintf("Pull returned (%v,%v) on an empty open ring", x.v, x.ok))
		return
	case <-time.After(2 * time.Millisecond):
	}
	if wakeByClose {
		r.Close()
	} else {
		r.Push(7)
	}
	select {
	case x := <-ch:
		if n, isInt := x.v.(int); wakeByClose && x.ok || !wakeByClose && (!x.ok || !isInt || n != 7) {
			viol(c, in, "a waiting consumer is woken by a push or a close and sees its effect", "ring-wrong-wakeup", fmt.Sprintf("woken Pull returned (%v,%v)", x.v, x.ok))
		}
	case <-time.After(3 * time.Second):
		stuck()
		viol(c, in, "a waiting consumer is always woken by a push or a close", "ring-lost-wakeup", "Pull still blocked 3 s after Push/Close")
	}
	c.CountOnly(fmt.Sprintf("blocking-pull %d %d %v", size, prefill, wakeByClose), true)
	c.Dist("blocking-pull")
}

// ---- generators -------------------------------------------------------------------------------

var opNames = []string{"push", "pull", "close", "reset"}

// enumerate all op sequences of exactly `length` over the first `nops` operations.
func exhaustive(c *corr.Ctx, size uint64, length, nops int) {
	idx := make([]int, length)
	for {
		sc := &SeqCase{Kind: "seq", Size: size}
		id := 0
		for _, k := range idx {
			op := SeqOp{K: opNames[k]}
			if k == 0 {
				id++
				op.ID = id
			}
			sc.Ops = append(sc.Ops, op)
		}
		runSeq(c, sc, fmt.Sprintf("exh-%d-%d", size, length))
		c.Dist(fmt.Sprintf("exhaustive size=%d len=%d ops=%d", size, length, nops))
		i := length - 1
		for i >= 0 {
			idx[i]++
			if idx[i] < nops {
				break
			}
			idx[i] = 0
			i--
		}
		if i < 0 {
			return
		}
	}
}

func genRandomSeq(c *corr.Ctx, maxLen int) *SeqCase {
	r := c.Rng
	sizes := []uint64{1, 2, 4, 8, 16, 32, 64, 128, 256}
	sc := &SeqCase{Kind: "seq", Size: sizes[r.IntN(len(sizes))]}
	n := 1 + r.IntN(maxLen)
	id := 0
	pushBias := []int{30, 50, 70, 95}[r.IntN(4)]
	closeP := []int{0, 2, 20, 100}[r.IntN(4)] // per mille
	closed := false
	for len(sc.Ops) < n {
		if r.IntN(200) == 0 {
			pushBias = []int{5, 30, 50, 70, 95}[r.IntN(5)] // phase change: fill / drain
		}
		x := r.IntN(1000)
		switch {
		case x < closeP:
			sc.Ops = append(sc.Ops, SeqOp{K: "close"})
			closed = true
		case closed && r.IntN(4) == 0 || r.IntN(2000) == 0:
			sc.Ops = append(sc.Ops, SeqOp{K: "reset"})
			closed = false
		case r.IntN(100) < pushBias:
			id++
			sc.Ops = append(sc.Ops, SeqOp{K: "push", ID: id})
		default:
			sc.Ops = append(sc.Ops, SeqOp{K: "pull"})
		}
	}
	c.Dist(fmt.Sprintf("random size=%d", sc.Size))
	return sc
}

// newSweep: which sizes New accepts.
func newSweep(c *corr.Ctx) {
	try := func(size uint64) {
		if size > 1<<16 && size&(size-1) == 0 {
			return // would allocate the buffer
		}
		cs := corr.Case{Name: "new", Nontrivial: true}
		var r *ringbuffer.RingBuffer
		var err error
		func() {
			defer func() {
				if e := recover(); e != nil {
					err = nil // New got past its size check and panicked while allocating
				}
			}()
			r, err = ringbuffer.New(size)
		}()
		cs.Ops = append(cs.Ops, fmt.Sprintf("ring new %d", size))
		pow2 := size&(size-1) == 0 // includes 0, which New accepts (documented in props/C16.json)
		if err != nil {
			cs.Impl = append(cs.Impl, "err")
			if pow2 {
				viol(c, map[string]any{"kind": "new", "size": size}, "every power-of-two capacity is accepted", "ring-new-rejects", fmt.Sprintf("New(%d) failed", size))
			}
		} else {
			cs.Impl = append(cs.Impl, "ok")
			if !pow2 {
				viol(c, map[string]any{"kind": "new", "size": size}, "only power-of-two capacities are accepted", "ring-new-accepts", fmt.Sprintf("New(%d) succeeded", size))
			}
			_ = r
		}
		c.Add(cs)
		c.Dist("new")
	}
	for s := uint64(0); s <= 1030; s++ {
		try(s)
	}
	// sizes between 2^20 and 2^45 are not probed: if New ever accepted them it would really
	// allocate; above 2^45 elements makeslice panics (recovered) instead
	for k := 0; k < 64; k++ {
		if k > 20 && k < 45 {
			continue
		}
		try(uint64(1)<<k - 1)
		try(uint64(1) << k)
		try(uint64(1)<<k + 1)
	}
	try(^uint64(0))
	for i := 0; i < 200; i++ {
		try(c.Rng.Uint64() | 1<<50)
	}
	// a size-0 ring exists (New accepts 0): Push / Pull on it panic (index out of range, with the
	// mutex still held, so each access gets a fresh ring); Close, Reset and Pull-after-Close work
	runSeq(c, &SeqCase{Kind: "seq", Size: 0, Ops: []SeqOp{{K: "push", ID: 1}}}, "size0-push")
	runSeq(c, &SeqCase{Kind: "seq", Size: 0, Ops: []SeqOp{{K: "pull"}}}, "size0-pull")
	runSeq(c, &SeqCase{Kind: "seq", Size: 0, Ops: []SeqOp{{K: "close"}, {K: "pull"}, {K: "reset"}, {K: "close"}}}, "size0-close")
}
