package ring

import (
	"encoding/json"
	"fmt"
	"os"
	"time"

	"verifharness/corr"
)

// corpus: minimised past failures (see corpus/C16/*.json for the same inputs in replay form).
func corpus(c *corr.Ctx) {
	// pushes after Close wrapped around to readIndex and were pulled, newest first
	runSeq(c, &SeqCase{Kind: "seq", Size: 2, Ops: []SeqOp{{K: "push", ID: 1}, {K: "close"}, {K: "push", ID: 2}, {K: "push", ID: 3}, {K: "push", ID: 4}, {K: "pull"}, {K: "pull"}, {K: "pull"}}}, "corpus-pull-after-close")
	runSeq(c, &SeqCase{Kind: "seq", Size: 1, Ops: []SeqOp{{K: "close"}, {K: "push", ID: 1}, {K: "pull"}}}, "corpus-pull-after-close-1")
	// the same through the Processor: pushes racing with Close were executed out of order
	if sawPanic.Load() {
		return
	}
	runAsyncDet(c, &AsyncCase{Kind: "async", Size: 2, Ops: []AOp{{K: "start"}, {K: "push", ID: 1}, {K: "push", ID: 2}, {K: "closebegin"},
		{K: "push", ID: 3}, {K: "push", ID: 4}, {K: "closeend"}}}, "corpus-async-close-window")
	runAsyncDet(c, &AsyncCase{Kind: "async", Size: 2, Ops: []AOp{{K: "push", ID: 1}, {K: "closebegin"}, {K: "closeend"}, {K: "push", ID: 2}, {K: "push", ID: 3},
		{K: "start"}, {K: "exec"}, {K: "exec"}}}, "corpus-async-start-after-close")
	// the four orderings of internal/asyncprocessor's own tests
	runAsyncDet(c, &AsyncCase{Kind: "async", Size: 8, Ops: []AOp{{K: "closebegin"}, {K: "closeend"}}}, "corpus-close-before-start")
	runAsyncDet(c, &AsyncCase{Kind: "async", Size: 8, Ops: []AOp{{K: "push", ID: 1, Fails: true}, {K: "start"}, {K: "exec"}, {K: "closebegin"}, {K: "closeend"}}}, "corpus-close-after-error")
	runAsyncDet(c, &AsyncCase{Kind: "async", Size: 8, OnErrBlocks: true, Ops: []AOp{{K: "push", ID: 1, Fails: true}, {K: "start"}, {K: "exec"}, {K: "closebegin"}, {K: "closeend"}}}, "corpus-close-during-error")
	runAsyncDet(c, &AsyncCase{Kind: "async", Size: 8, Ops: []AOp{{K: "push", ID: 1}, {K: "start"}, {K: "closebegin"}, {K: "closeend"}}}, "corpus-close-before-error")
	// the held callback fails while Close is waiting for the consumer and OnError blocks until the
	// Processor's context is done: Close cancels that context first, so it must still return
	runAsyncDet(c, &AsyncCase{Kind: "async", Size: 2, OnErrBlocks: true, Ops: []AOp{{K: "start"}, {K: "push", ID: 1, Fails: true}, {K: "push", ID: 2},
		{K: "closebegin"}, {K: "closeend"}}}, "corpus-error-during-close")
}

// guarded runs one case and turns a panic of the code under test (in the calling goroutine) into a
// violation with the case as failing input.
func guarded(c *corr.Ctx, in any, where string, f func()) {
	defer func() {
		if e := recover(); e != nil {
			sawPanic.Store(true)
			report(c, corr.Violation{Property: "C16", Clause: "queue operations do not panic", Key: "panic", Where: where, Input: in,
				Detail: fmt.Sprintf("panic: %v", e)})
		}
	}()
	f()
}

// Run is the domain entry point.
func Run(c *corr.Ctx) {
	c.Rule("sequential: every op sequence over {push,pull,close,reset} of a fixed length for capacities 1,2,4 (exhaustive) + random sequences up to 10^4 ops for capacities 1..256 with fill/drain phases, compared line by line (result + cursors + occupancy) with the Lean model; " +
		"New on sizes 0..1030, 2^k-1, 2^k, 2^k+1, random uint64; blocking Pull woken by Push/Close; " +
		"ping-pong liveness workload (consumer asleep in Pull, 1..8 producers each pushing one item and waiting with a 2 s watchdog until it was pulled; 10^6 rounds quick, 10^7 thorough; bare ring and Processor); " +
		"owner scenarios: real Server + raw RTSP client / library Client over TCP and UDP, every request sequence over {PLAY|RECORD, PAUSE} the state machine allows (client side: also the ones the client must refuse) up to length 3 (thorough 4), after each request N writes must arrive exactly once and in order while active and not at all while paused, and the number of goroutines in Processor.runInner must be exactly the number of active queues (0 after teardown); " +
		"capacity probes: owner x session shape {client record, client play std / std+back channel / back channel only, server session play std / with back channel, server session record, multicast writer} x WriteQueueSize {8,16,32,256} x {TCP, UDP}: the consumer is stalled with a blocking item (verif hook), writes go through the public write path until the first refusal: accepted == capacity of that shape, refusal = Err…WriteQueueFull, everything accepted is delivered once and in order afterwards; " +
		"error-during-close scenarios: an item held in the owner's queue fails while (or just before) the owner closes the queue for PAUSE / TEARDOWN / second PLAY / connection close / Server.Close / Client.Pause / Client.Close, over TCP and UDP, play and record: the action completes within 3 s, no consumer goroutine survives, Client.Close and Server.Close return; " +
		"concurrent (black box): 1..8 producers + consumer + closer on the real RingBuffer and on the real Processor, history checked for linearizability to the bounded FIFO (porcupine) and for the direct clauses; " +
		"deterministic Processor schedules (gated callbacks, injected errors, Close windows; every well-formed schedule of a fixed length over {push, failing push, start, exec, closebegin, closeend} for capacities 1,2 + random ones) compared with the Lean model; non-trivial = more than one operation; distinct = distinct op-line sequences / run configurations")
	if c.Replay != nil {
		replay(c)
		return
	}
	budget := time.Duration(c.N(2, 10)) * time.Second
	if raceChild() {
		// race-enabled child process: concurrent parts only, no oracle
		for i := 0; i < 600 && !tooStuck(); i++ {
			runConcRing(c, genConc(c, "conc", i%20 != 0), budget)
			cc := genConc(c, "aconc", i%20 != 0)
			if i%3 == 0 {
				cc.FailAt = (1+c.Rng.IntN(cc.Producers))*1000000 + 1 + c.Rng.IntN(cc.PerProducer)
			}
			runConcAsync(c, cc, budget)
		}
		for _, size := range []uint64{1, 8} {
			checkBlockingPull(c, size, 1, false)
			checkBlockingPull(c, size, 1, true)
		}
		pingPongs(c, 300000)
		return
	}
	if os.Getenv("VERIF_RING_ONLY") == "owner" { // development aid
		ownerScenarios(c, c.N(3, 4))
		capacityProbes(c)
		errCloseScenarios(c)
		return
	}
	corpus(c)
	newSweep(c)
	stop := func(stage string) bool {
		if !enough() {
			return false
		}
		c.Note(fmt.Sprintf("stopped after the %s: %d violations, %d time-outs, panic seen: %v (recorded above); a queue this broken makes the remaining cases slow or fatal", stage, nViol.Load(), stuckCount.Load(), sawPanic.Load()))
		return true
	}
	// (a) exhaustive
	L := c.N(6, 8)
	for _, size := range []uint64{1, 2, 4} {
		exhaustive(c, size, L, 4)
	}
	if !c.Quick() {
		for _, size := range []uint64{1, 2, 4} {
			exhaustive(c, size, 10, 3) // no reset: longer runs over push/pull/close
		}
		exhaustive(c, 8, 12, 2) // push/pull only, wraps a capacity-8 ring
	} else {
		exhaustive(c, 2, 8, 3)
	}
	c.Exhaustive()
	// (a) random
	for i, n := 0, c.N(150, 3000); i < n && nViol.Load() < 5000; i++ {
		maxLen := 300
		if i%10 == 0 {
			maxLen = 10000
		}
		runSeq(c, genRandomSeq(c, maxLen), "random")
	}
	if stop("sequential part") {
		return
	}
	for _, size := range []uint64{1, 2, 8, 256} {
		for _, pre := range []int{0, 1, 3, 255} {
			in := map[string]any{"kind": "blocking-pull", "size": size, "prefill": pre}
			guarded(c, in, "pkg/ringbuffer", func() { checkBlockingPull(c, size, pre, false) })
			guarded(c, in, "pkg/ringbuffer", func() { checkBlockingPull(c, size, pre, true) })
		}
	}
	if stop("blocking-Pull cases") {
		return
	}
	// liveness: ping-pong rounds (each Push races with the consumer going to sleep)
	pingPongs(c, c.N(1000000, 10000000))
	if stop("ping-pong liveness workload") {
		return
	}
	// (b) concurrent, black box, on the ring (worker goroutines recover panics)
	for i, n := 0, c.N(150, 2000); i < n && !enough(); i++ {
		runConcRing(c, genConc(c, "conc", true), budget)
	}
	for i, n := 0, c.N(6, 60); i < n && !enough(); i++ {
		runConcRing(c, genConc(c, "conc", false), budget)
	}
	if stop("concurrent ring cases") {
		return
	}
	// deterministic Processor schedules: exhaustive small scope, then random
	for _, size := range []int{1, 2} {
		exhaustiveAsync(c, size, c.N(5, 7), false)
	}
	exhaustiveAsync(c, 1, c.N(4, 6), true)
	for i, n := 0, c.N(1500, 20000); i < n && !enough(); i++ {
		ac := genAsyncCase(c)
		guarded(c, ac, "internal/asyncprocessor", func() { runAsyncDet(c, ac, "async-det") })
	}
	if stop("deterministic Processor cases") {
		return
	}
	// (b) concurrent, black box, on the Processor
	for i, n := 0, c.N(150, 2000); i < n && !enough(); i++ {
		cc := genConc(c, "aconc", true)
		if c.Rng.IntN(3) == 0 {
			cc.FailAt = (1+c.Rng.IntN(cc.Producers))*1000000 + 1 + c.Rng.IntN(cc.PerProducer)
		}
		runConcAsync(c, cc, budget)
	}
	for i, n := 0, c.N(6, 60); i < n && !enough(); i++ {
		runConcAsync(c, genConc(c, "aconc", false), budget)
	}
	if stop("concurrent Processor cases") {
		return
	}
	// the queue as its owners use it: real Server + raw / library client, every allowed request sequence
	ownerScenarios(c, c.N(3, 4))
	if stop("owner scenarios") {
		return
	}
	capacityProbes(c)
	if stop("capacity probes") {
		return
	}
	errCloseScenarios(c)
	if stop("error-during-close scenarios") {
		return
	}
	raceTier(c)
}

func replay(c *corr.Ctx) {
	var probe struct {
		Kind string `json:"kind"`
	}
	if err := json.Unmarshal(c.Replay, &probe); err != nil {
		panic(err)
	}
	switch probe.Kind {
	case "seq":
		var sc SeqCase
		if err := json.Unmarshal(c.Replay, &sc); err != nil {
			panic(err)
		}
		runSeq(c, &sc, "replay")
	case "async":
		var ac AsyncCase
		if err := json.Unmarshal(c.Replay, &ac); err != nil {
			panic(err)
		}
		runAsyncDet(c, &ac, "replay")
	case "conc", "aconc":
		var cc ConcCase
		if err := json.Unmarshal(c.Replay, &cc); err != nil {
			panic(err)
		}
		if len(cc.History) > 0 {
			// re-check the recorded history, then run the configuration again a number of times
			h := cc
			checkHistory(c, &h, "replayed-history", 30*time.Second)
		}
		for i := 0; i < 200; i++ {
			cc2 := cc
			cc2.History = nil
			cc2.Seed += uint64(i)
			if cc.Kind == "conc" {
				runConcRing(c, &cc2, 5*time.Second)
			} else {
				runConcAsync(c, &cc2, 5*time.Second)
			}
		}
	case "blocking-pull":
		var b struct {
			Size    uint64 `json:"size"`
			Prefill int    `json:"prefill"`
			Close   bool   `json:"wake_by_close"`
		}
		if err := json.Unmarshal(c.Replay, &b); err != nil {
			panic(err)
		}
		checkBlockingPull(c, b.Size, b.Prefill, b.Close)
	case "errclose":
		var ec ErrCloseCase
		if err := json.Unmarshal(c.Replay, &ec); err != nil {
			panic(err)
		}
		for i := 0; i < 3 && !enough(); i++ {
			q := ec
			runErrClose(c, &q)
		}
	case "capacity":
		var cc CapCase
		if err := json.Unmarshal(c.Replay, &cc); err != nil {
			panic(err)
		}
		runCapacity(c, &cc)
	case "owner":
		var oc OwnerCase
		if err := json.Unmarshal(c.Replay, &oc); err != nil {
			panic(err)
		}
		for i := 0; i < 3 && !enough(); i++ {
			q := oc
			runOwner(c, &q)
		}
	case "pingpong":
		var pp PingPong
		if err := json.Unmarshal(c.Replay, &pp); err != nil {
			panic(err)
		}
		for i := 0; i < 3 && !enough(); i++ {
			q := pp
			runPingPong(c, &q)
		}
	case "new":
		newSweep(c)
	default:
		panic(fmt.Sprintf("unknown replay kind %q", probe.Kind))
	}
}
