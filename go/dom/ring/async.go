package ring

import (
	"context"
	"errors"
	"fmt"
	"math/rand/v2"
	"runtime"
	"sort"
	"sync"
	"sync/atomic"
	"time"

	"github.com/bluenviron/gortsplib/v5"

	"verifharness/corr"
)

// AOp is one harness operation on the real asyncprocessor.Processor.
type AOp struct {
	K     string `json:"k"` // push | start | exec | closebegin | closeend
	ID    int    `json:"id,omitempty"`
	Fails bool   `json:"fails,omitempty"`
}

// AsyncCase is the replayable input of a deterministic processor case: every callback blocks on a
// gate that the harness opens with `exec`, so the schedule of the consumer is fixed by the ops.
type AsyncCase struct {
	Kind        string `json:"kind"` // "async"
	Size        int    `json:"size"`
	OnErrBlocks bool   `json:"on_err_blocks"`
	Ops         []AOp  `json:"ops"`
}

const waitLimit = 3 * time.Second

type asyncRun struct {
	c  *corr.Ctx
	ac *AsyncCase
	p  *gortsplib.VerifAsyncProcessor

	started   chan int      // callback entered
	finished  chan int      // callback about to return
	errEnter  chan struct{} // OnError entered
	gate      chan struct{} // gate of the callback currently held
	gates     map[int]chan struct{}
	mu        sync.Mutex
	executed  []int
	errCalls  int
	pc        string // ns | pull | hold:<id> | err:<id> | exit
	holdID    int
	isStarted bool
	cancelled bool
	closing   bool
	closeRet  chan struct{}
	retFlag   bool
	pending   int // accepted, not yet handed to a callback, not discarded
	accepted  []int
	broken    bool
}

func (a *asyncRun) viol(clause, key, detail string) {
	report(a.c, corr.Violation{Property: "C16", Clause: clause, Key: key, Where: "internal/asyncprocessor", Input: a.ac, Detail: detail})
}

func (a *asyncRun) astStr() string {
	a.mu.Lock()
	n, last, e := len(a.executed), 0, a.errCalls
	if n > 0 {
		last = a.executed[n-1]
	}
	a.mu.Unlock()
	return fmt.Sprintf("cons %s run %s ret %s exec %d %d err %d acc %d ring %s", a.pc, corr.B(a.isStarted), corr.B(a.retFlag), n, last, e, len(a.accepted), stStr(a.p.VerifBuffer()))
}

// waitExit: the consumer must exit now (done is closed); a callback starting instead is recorded.
func (a *asyncRun) waitExit(why string) {
	select {
	case <-a.p.VerifDone():
		a.pc = "exit"
	case id := <-a.started:
		a.pc, a.holdID = fmt.Sprintf("hold:%d", id), id
		a.viol("nothing runs once the queue is closed / an error was reported", "async-ran-instead-of-exit",
			fmt.Sprintf("callback %d started although the consumer had to exit (%s)", id, why))
	case <-time.After(waitLimit):
		a.broken = true
		stuck()
		a.viol("a waiting consumer is always woken by a close; Close joins the consumer", "async-consumer-stuck", "consumer did not exit within 3 s ("+why+")")
	}
}

// quiesce lets the real consumer run until it blocks, using only what the harness has observed.
func (a *asyncRun) quiesce() {
	for i := 0; i < 4 && !a.broken; i++ {
		switch {
		case a.pc == "pull" && a.cancelled:
			a.waitExit("ring closed")
		case a.pc == "pull" && a.pending > 0:
			select {
			case id := <-a.started:
				a.pending--
				a.pc, a.holdID = fmt.Sprintf("hold:%d", id), id
			case <-time.After(waitLimit):
				a.broken = true
				stuck()
				a.viol("a waiting consumer is always woken by a push", "async-lost-wakeup",
					fmt.Sprintf("%d accepted items are queued but no callback started within 3 s", a.pending))
			}
		case len(a.pc) > 4 && a.pc[:4] == "err:" && (!a.ac.OnErrBlocks || a.cancelled):
			a.waitExit("OnError returned")
		default:
			// stable; a callback must not start spontaneously
			select {
			case id := <-a.started:
				a.pc, a.holdID = fmt.Sprintf("hold:%d", id), id
				a.viol("only accepted, not yet executed items run", "async-spurious-run", fmt.Sprintf("callback %d started unexpectedly", id))
			default:
			}
			return
		}
	}
}

func (a *asyncRun) closeProgress() {
	if !a.closing {
		return
	}
	if !a.isStarted || a.pc == "exit" {
		select {
		case <-a.closeRet:
			a.retFlag, a.closing = true, false
		case <-time.After(waitLimit):
			a.broken = true
			stuck()
			a.viol("Close returns once the consumer has exited (or was never started)", "async-close-blocked", "Close still blocked after 3 s")
		}
	} else {
		select {
		case <-a.closeRet:
			a.retFlag, a.closing = true, false
			a.viol("nothing runs after Close has returned", "async-close-early", "Close returned while the consumer is still "+a.pc)
		default:
		}
	}
}

func (a *asyncRun) execHeld() {
	if len(a.pc) < 5 || a.pc[:5] != "hold:" {
		return
	}
	id := a.holdID
	fails := a.gates[id] != nil && a.failing(id)
	select {
	case <-a.gates[id]: // already open: the same callback is being run again
		a.viol("each accepted item is executed at most once", "async-executed-twice", fmt.Sprintf("callback %d was handed to the consumer twice", id))
		a.broken = true
		return
	default:
		close(a.gates[id])
	}
	select {
	case <-a.finished:
	case <-time.After(waitLimit):
		a.broken = true
		stuck()
		return
	}
	if fails {
		select {
		case <-a.errEnter:
			a.pc = fmt.Sprintf("err:%d", id)
		case <-time.After(waitLimit):
			a.broken = true
			stuck()
			a.viol("a processing error is reported exactly once", "async-error-not-reported", fmt.Sprintf("callback %d failed, OnError not called within 5 s", id))
		}
	} else {
		a.pc = "pull"
	}
}

func (a *asyncRun) failing(id int) bool {
	for _, op := range a.ac.Ops {
		if op.K == "push" && op.ID == id {
			return op.Fails
		}
	}
	return false
}

func runAsyncDet(c *corr.Ctx, ac *AsyncCase, name string) {
	a := &asyncRun{c: c, ac: ac, started: make(chan int, 1024), finished: make(chan int, 1024), errEnter: make(chan struct{}, 16),
		gates: map[int]chan struct{}{}, pc: "ns"}
	a.p = &gortsplib.VerifAsyncProcessor{
		BufferSize: ac.Size,
		OnError: func(ctx context.Context, _ error) {
			a.mu.Lock()
			a.errCalls++
			a.mu.Unlock()
			a.errEnter <- struct{}{}
			if ac.OnErrBlocks {
				<-ctx.Done()
			}
		},
	}
	a.p.Initialize()
	cs := corr.Case{Name: name, Nontrivial: len(ac.Ops) > 2}
	add := func(op, impl string) {
		cs.Ops = append(cs.Ops, op)
		cs.Impl = append(cs.Impl, impl)
	}
	add(fmt.Sprintf("async init %d %s", ac.Size, corr.B(ac.OnErrBlocks)), "ok")

	// property oracle state (from the implementation's outputs)
	execAtCloseRet := -1
	checkProps := func(step int) {
		a.mu.Lock()
		ex := append([]int(nil), a.executed...)
		errs := a.errCalls
		a.mu.Unlock()
		if len(ex) > len(a.accepted) {
			a.viol("executed items are a prefix of the accepted items", "async-prefix", fmt.Sprintf("step %d: %d executed, %d accepted", step, len(ex), len(a.accepted)))
		} else {
			for i, id := range ex {
				if a.accepted[i] != id {
					a.viol("items are executed exactly once, in acceptance order", "async-prefix",
						fmt.Sprintf("step %d: executed %v is not a prefix of accepted %v", step, ex, a.accepted))
					break
				}
			}
		}
		if errs > 1 {
			a.viol("a processing error is reported exactly once", "async-error-twice", fmt.Sprintf("step %d: OnError called %d times", step, errs))
		}
		nfail := 0
		for i, id := range ex {
			if a.failing(id) {
				nfail++
				if i != len(ex)-1 {
					a.viol("a processing error stops the queue", "async-ran-after-error", fmt.Sprintf("step %d: callbacks ran after failing callback %d: %v", step, id, ex))
				}
			}
		}
		if nfail != errs {
			a.viol("a processing error is reported exactly once", "async-error-count", fmt.Sprintf("step %d: %d failing callbacks executed, OnError called %d times", step, nfail, errs))
		}
		if a.retFlag && execAtCloseRet < 0 {
			execAtCloseRet = len(ex)
		}
		if execAtCloseRet >= 0 && len(ex) != execAtCloseRet {
			a.viol("nothing runs after Close has returned", "async-ran-after-close", fmt.Sprintf("step %d: %d callbacks had run when Close returned, now %d", step, execAtCloseRet, len(ex)))
		}
	}

	for i, op := range ac.Ops {
		if a.broken {
			break
		}
		switch op.K {
		case "push":
			id := op.ID
			g := make(chan struct{})
			a.gates[id] = g
			fails := op.Fails
			_, _, _, slots := a.p.VerifBuffer().VerifState()
			held := 0
			for _, s := range slots {
				if s != nil {
					held++
				}
			}
			ok := a.p.Push(func() error {
				// sends never block: a consumer gone wild (the same item pulled for ever) must not
				// wedge the harness; the excess executions are still counted in a.executed
				select {
				case a.started <- id:
				default:
				}
				<-g
				a.mu.Lock()
				if len(a.executed) < 100000 {
					a.executed = append(a.executed, id)
				}
				a.mu.Unlock()
				select {
				case a.finished <- id:
				default:
				}
				if fails {
					return errors.New("injected")
				}
				return nil
			})
			if ok {
				a.pending++
				a.accepted = append(a.accepted, id)
			}
			if ok == (held == ac.Size) {
				a.viol("an item is refused only when the queue holds its capacity", "async-refusal",
					fmt.Sprintf("push %d returned %v while %d of %d slots are occupied", id, ok, held, ac.Size))
			}
			a.quiesce()
			a.closeProgress()
			add(fmt.Sprintf("async push %d %s", id, corr.B(fails)), fmt.Sprintf("push %s %s", corr.B(ok), a.astStr()))
		case "start":
			if !a.isStarted {
				a.p.Start()
				a.isStarted = true
				a.pc = "pull"
			}
			a.quiesce()
			a.closeProgress()
			add("async start", "ok "+a.astStr())
		case "exec":
			a.execHeld()
			a.quiesce()
			a.closeProgress()
			add("async exec", "ok "+a.astStr())
		case "closebegin":
			if !a.closing {
				a.closeRet = make(chan struct{})
				a.closing, a.retFlag = true, false
				execAtCloseRet = -1
				cr := a.closeRet
				go func() { a.p.Close(); close(cr) }()
				deadline := time.Now().Add(waitLimit)
				for {
					_, _, closed, _ := a.p.VerifBuffer().VerifState()
					if closed {
						break
					}
					if time.Now().After(deadline) {
						a.broken = true
						stuck()
						a.viol("Close closes the ring", "async-close-no-ring-close", "ring not closed 5 s after Close was called")
						break
					}
					runtime.Gosched()
				}
				a.cancelled = true
				a.pending = 0
			}
			a.quiesce()
			a.closeProgress()
			add("async closebegin", "ok "+a.astStr())
		case "closeend":
			for k := 0; k < 4 && a.closing && !a.broken; k++ {
				a.execHeld()
				a.quiesce()
				a.closeProgress()
			}
			add("async closeend", "ok "+a.astStr())
		default:
			panic("bad async op " + op.K)
		}
		checkProps(i)
	}
	// tidy up: never leave goroutines blocked on gates
	for _, g := range a.gates {
		select {
		case <-g:
		default:
			close(g)
		}
	}
	if !a.broken {
		if !a.closing && !a.retFlag || a.closing {
			if !a.closing {
				a.closeRet = make(chan struct{})
				cr := a.closeRet
				go func() { a.p.Close(); close(cr) }()
			}
			select {
			case <-a.closeRet:
			case <-time.After(waitLimit):
				stuck()
				a.viol("Close returns once the consumer has exited", "async-close-blocked", "Close still blocked at the end of the case")
			}
		}
	}
	c.Add(cs)
}

func genAsyncCase(c *corr.Ctx) *AsyncCase {
	r := c.Rng
	ac := &AsyncCase{Kind: "async", Size: []int{1, 2, 4, 8, 16}[r.IntN(5)], OnErrBlocks: r.IntN(3) == 0}
	n := 3 + r.IntN(40)
	id := 0
	started, closing, closedOnce := false, false, false
	failPct := []int{0, 0, 5, 25}[r.IntN(4)]
	startAt := r.IntN(n)
	if r.IntN(8) == 0 {
		startAt = n + 1 // never started
	}
	closeAt := r.IntN(n + n/2)
	for i := 0; i < n; i++ {
		switch {
		case !started && i >= startAt:
			ac.Ops = append(ac.Ops, AOp{K: "start"})
			started = true
		case !closing && !closedOnce && i >= closeAt:
			ac.Ops = append(ac.Ops, AOp{K: "closebegin"})
			closing = true
		case closing && r.IntN(4) == 0:
			ac.Ops = append(ac.Ops, AOp{K: "closeend"})
			closing, closedOnce = false, true
		case closedOnce && !closing && r.IntN(12) == 0:
			ac.Ops = append(ac.Ops, AOp{K: "closebegin"}) // Close called twice
			closing = true
		case r.IntN(100) < 55:
			id++
			ac.Ops = append(ac.Ops, AOp{K: "push", ID: id, Fails: r.IntN(100) < failPct})
		case r.IntN(10) == 0 && !started:
			ac.Ops = append(ac.Ops, AOp{K: "start"})
			started = true
		default:
			ac.Ops = append(ac.Ops, AOp{K: "exec"})
		}
	}
	if closing {
		ac.Ops = append(ac.Ops, AOp{K: "closeend"})
	}
	c.Dist(fmt.Sprintf("async-det size=%d", ac.Size))
	if ac.OnErrBlocks {
		c.Dist("async-det onerror-blocks")
	}
	return ac
}

// exhaustiveAsync enumerates every well-formed harness schedule of exactly `length` operations over
// {push ok, push failing, start, exec, closebegin, closeend}: all placements of Start, Close (begin /
// end separately, so pushes fall inside the Close window) and an error relative to the pushes.
func exhaustiveAsync(c *corr.Ctx, size int, length int, onErrBlocks bool) {
	kinds := []string{"push", "pushfail", "start", "exec", "closebegin", "closeend"}
	idx := make([]int, length)
	for {
		ac := &AsyncCase{Kind: "async", Size: size, OnErrBlocks: onErrBlocks}
		id := 0
		started, closing, ok := false, false, true
		for _, k := range idx {
			switch kinds[k] {
			case "push":
				id++
				ac.Ops = append(ac.Ops, AOp{K: "push", ID: id})
			case "pushfail":
				id++
				ac.Ops = append(ac.Ops, AOp{K: "push", ID: id, Fails: true})
			case "start":
				if started {
					ok = false
				}
				started = true
				ac.Ops = append(ac.Ops, AOp{K: "start"})
			case "exec":
				ac.Ops = append(ac.Ops, AOp{K: "exec"})
			case "closebegin":
				if closing {
					ok = false
				}
				closing = true
				ac.Ops = append(ac.Ops, AOp{K: "closebegin"})
			case "closeend":
				if !closing {
					ok = false
				}
				closing = false
				ac.Ops = append(ac.Ops, AOp{K: "closeend"})
			}
		}
		if ok && !enough() {
			if closing {
				ac.Ops = append(ac.Ops, AOp{K: "closeend"})
			}
			guarded(c, ac, "internal/asyncprocessor", func() { runAsyncDet(c, ac, fmt.Sprintf("async-exh-%d-%d", size, length)) })
			c.Dist(fmt.Sprintf("async-det exhaustive size=%d len=%d", size, length))
		}
		i := length - 1
		for i >= 0 {
			idx[i]++
			if idx[i] < len(kinds) {
				break
			}
			idx[i] = 0
			i--
		}
		if i < 0 {
			return
		}
	}
}

// ---- concurrent stress on the real Processor ---------------------------------------------------

// runConcAsync: producers push callbacks into a running Processor, a closer calls Close.  The
// consumer's Pull of item x lies between the end of the previous callback and the start of x, so
// the executed order is checked for linearizability with those intervals.
func runConcAsync(c *corr.Ctx, cc *ConcCase, budget time.Duration) {
	var clock atomic.Int64
	var mu sync.Mutex
	var hist []HOp
	var errCalls atomic.Int64
	var ranAfterErr atomic.Int64
	var errSeen atomic.Bool
	p := &gortsplib.VerifAsyncProcessor{
		BufferSize: int(cc.Size),
		OnError: func(_ context.Context, _ error) {
			errCalls.Add(1)
			errSeen.Store(true)
		},
	}
	p.Initialize()
	var consumerOps []HOp // written by the consumer goroutine only; read after Close returned
	prevEnd := clock.Add(1)
	var acceptedN, executedN atomic.Int64
	mkcb := func(id int, rng *rand.Rand) func() error {
		return func() error {
			start := clock.Add(1)
			if errSeen.Load() {
				ranAfterErr.Add(1)
			}
			consumerOps = append(consumerOps, HOp{Client: cc.Producers, Kind: "pull", ID: id, OK: true, Call: prevEnd, Ret: start})
			if cc.YieldPct > 0 && id%7 == 0 {
				runtime.Gosched()
			}
			prevEnd = clock.Add(1)
			executedN.Add(1)
			if id == cc.FailAt {
				return errors.New("injected")
			}
			return nil
		}
	}
	var prodWG, allWG sync.WaitGroup
	closeReturned := make(chan struct{})
	startDelay := int(cc.Seed % 3) // 0: Start first, 1: Start concurrently, 2: Start after some pushes
	if startDelay == 0 {
		p.Start()
	}
	for pr := 0; pr < cc.Producers; pr++ {
		prodWG.Add(1)
		allWG.Add(1)
		go func(pr int) {
			defer allWG.Done()
			rng := rand.New(rand.NewPCG(cc.Seed, uint64(pr+1)))
			var ops []HOp
			push := func(k int) {
				id := (pr+1)*1000000 + k
				maybeYield(rng, cc.YieldPct)
				cb := mkcb(id, rng)
				call := clock.Add(1)
				ok := p.Push(cb)
				ret := clock.Add(1)
				ops = append(ops, HOp{Client: pr, Kind: "push", ID: id, OK: ok, Call: call, Ret: ret})
				if ok {
					acceptedN.Add(1)
				} else {
					runtime.Gosched()
				}
			}
			for k := 1; k <= cc.PerProducer; k++ {
				push(k)
			}
			prodWG.Done()
			if cc.PostClose > 0 {
				<-closeReturned
				for k := 1; k <= cc.PostClose; k++ {
					push(cc.PerProducer + k)
				}
			}
			mu.Lock()
			hist = append(hist, ops...)
			mu.Unlock()
		}(pr)
	}
	if startDelay != 0 {
		if startDelay == 2 {
			for i := 0; i < 20; i++ {
				runtime.Gosched()
			}
		}
		p.Start()
	}
	var closeOp HOp
	hang := false
	allWG.Add(1)
	go func() {
		defer allWG.Done()
		rng := rand.New(rand.NewPCG(cc.Seed, 77))
		switch cc.CloseMode {
		case 0:
			prodWG.Wait()
			deadline := time.Now().Add(4 * time.Second)
			for executedN.Load() < acceptedN.Load() && !errSeen.Load() {
				if time.Now().After(deadline) {
					break
				}
				runtime.Gosched()
			}
		case 1:
			n := rng.IntN(cc.PerProducer*cc.Producers + 1)
			for i := 0; i < n; i++ {
				runtime.Gosched()
			}
		default:
			prodWG.Wait()
		}
		call := clock.Add(1)
		done := make(chan struct{})
		go func() { p.Close(); close(done) }()
		select {
		case <-done:
		case <-time.After(8 * time.Second):
			hang = true
			stuck()
		}
		ret := clock.Add(1)
		closeOp = HOp{Client: cc.Producers + 1, Kind: "close", Call: call, Ret: ret}
		close(closeReturned)
	}()
	allWG.Wait()
	v := func(clause, key, detail string) {
		report(c, corr.Violation{Property: "C16", Clause: clause, Key: key, Where: "internal/asyncprocessor", Input: cc, Detail: detail})
	}
	if hang {
		v("Close joins the consumer and returns", "aconc-close-hang", "Processor.Close did not return within 8 s")
		return
	}
	// Close has returned: the consumer goroutine has exited (done closed) – its log is stable
	time.Sleep(200 * time.Microsecond)
	after := executedN.Load()
	endClock := clock.Load()
	_ = endClock
	for _, op := range consumerOps {
		if op.Ret > closeOp.Ret {
			v("nothing runs after Close has returned", "aconc-ran-after-close", fmt.Sprintf("callback %d started at %d, Close returned at %d", op.ID, op.Ret, closeOp.Ret))
		}
	}
	if int64(len(consumerOps)) != after {
		v("nothing runs after Close has returned", "aconc-ran-after-close", "callbacks still running after Close returned")
	}
	if cc.FailAt != 0 {
		ranFail := false
		for i, op := range consumerOps {
			if op.ID == cc.FailAt {
				ranFail = true
				if i != len(consumerOps)-1 {
					v("a processing error stops the queue", "aconc-ran-after-error", fmt.Sprintf("%d callbacks ran after the failing one", len(consumerOps)-1-i))
				}
			}
		}
		want := int64(0)
		if ranFail {
			want = 1
		}
		if errCalls.Load() != want {
			v("a processing error is reported exactly once", "aconc-error-count", fmt.Sprintf("failing callback ran=%v, OnError calls=%d", ranFail, errCalls.Load()))
		}
	} else if errCalls.Load() != 0 {
		v("OnError is called only for a processing error", "aconc-error-count", fmt.Sprintf("no failing callback, OnError calls=%d", errCalls.Load()))
	}
	if ranAfterErr.Load() != 0 {
		v("a processing error stops the queue", "aconc-ran-after-error", "a callback started after OnError had been entered")
	}
	h := append(hist, consumerOps...)
	h = append(h, closeOp)
	// the consumer stopped pulling at the error: the checker must not demand further pulls; it does
	// not (pulls are only the recorded ones), and items left in the queue are legal for a FIFO.
	sort.Slice(h, func(i, j int) bool { return h[i].Call < h[j].Call })
	cc.History = h
	checkHistory(c, cc, "async-conc", budget)
	c.CountOnly(fmt.Sprintf("aconc %d %d %d %d %d %d %d", cc.Size, cc.Producers, cc.PerProducer, cc.CloseMode, cc.YieldPct, cc.FailAt, cc.Seed), true)
	c.Dist(fmt.Sprintf("async-conc producers=%d", cc.Producers))
	c.Dist(fmt.Sprintf("async-conc start=%d", startDelay))
	if cc.FailAt != 0 {
		c.Dist("async-conc with-error")
	}
	c.DistN("async-conc operations", len(h))
	c.DistN("async-conc executed", len(consumerOps))
	cc.History = nil
}
