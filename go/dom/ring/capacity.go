package ring

import (
	"errors"
	"fmt"
	"strings"
	"time"

	"github.com/pion/rtcp"
	"github.com/pion/rtp"

	"github.com/bluenviron/gortsplib/v5"
	"github.com/bluenviron/gortsplib/v5/pkg/base"
	"github.com/bluenviron/gortsplib/v5/pkg/description"
	"github.com/bluenviron/gortsplib/v5/pkg/format"
	"github.com/bluenviron/gortsplib/v5/pkg/headers"
	"github.com/bluenviron/gortsplib/v5/pkg/liberrors"

	"verifharness/corr"
)

// Capacity probes: every owner creates its queue with a capacity that depends on the session shape
// (client.go / server_session.go createWriter, server_multicast_writer_media.go):
//
//	client record, client play with a back channel set up      -> Client.WriteQueueSize
//	client play without a back channel (RTCP only)             -> 8
//	server session play (with or without back channel)         -> Server.WriteQueueSize
//	server session record (RTCP only)                          -> 8
//	multicast writer                                           -> Server.WriteQueueSize
//
// A probe brings a real session into the shape, stalls the consumer with a blocking item pushed
// through the verif hook (the consumer holds it: the ring is empty, exactly as in the model where a
// capacity-N ring accepts N items while the consumer holds one), writes through the owner's public
// write path until the first refusal and requires: accepted == the capacity above, the refusal is
// the documented Err…WriteQueueFull, and after the stall ends every accepted item arrives exactly
// once and in order.

// CapCase is the replayable input of a capacity probe.
type CapCase struct {
	Kind      string `json:"kind"`      // "capacity"
	Shape     string `json:"shape"`     // see capShapes
	Transport string `json:"transport"` // tcp | udp | multicast
	QueueSize int    `json:"queue_size"`
}

var capShapes = []string{"client-record", "client-play-std", "client-play-std+back", "client-play-back",
	"server-play-std", "server-play-back", "server-record"}

const rtcpOnlyCapacity = 8

func capExpected(cc *CapCase) int {
	switch cc.Shape {
	case "client-play-std", "server-record":
		return rtcpOnlyCapacity
	}
	return cc.QueueSize
}

type capRun struct {
	c   *corr.Ctx
	cc  *CapCase
	bad bool
}

func (r *capRun) viol(clause, key, detail string) {
	r.bad = true
	where := "server_session.go createWriter"
	if strings.HasPrefix(r.cc.Shape, "client") {
		where = "client.go createWriter"
	} else if r.cc.Shape == "multicast" {
		where = "server_multicast_writer_media.go"
	}
	report(r.c, corr.Violation{Property: "C16", Clause: clause, Key: key, Where: where, Input: r.cc, Detail: detail})
}

// probe: stall, fill, check the count and the refusal, release, check delivery.
//
//	push: the hook that pushes a callback into the owner's queue
//	write(seq): the owner's public write path; refusedErr() reports how the refusal was told
//	log: where deliveries are observed
func (r *capRun) probe(push func(func() error) (bool, bool), write func(seq uint16) error, told func() (int64, error), log *pktLog) {
	want := capExpected(r.cc)
	started := make(chan struct{})
	gate := make(chan struct{})
	released := false
	release := func() {
		if !released {
			released = true
			close(gate)
		}
	}
	defer release()
	ok, has := push(func() error {
		close(started)
		<-gate
		return nil
	})
	if !has || !ok {
		r.viol("the owner has a running queue while the session is active", "capacity-no-queue", fmt.Sprintf("stall item: pushed=%v, owner has a queue=%v", ok, has))
		return
	}
	select {
	case <-started:
	case <-time.After(ownerWait):
		r.viol("accepted items are executed (the consumer of the owner's queue runs)", "owner-lost-writes", "the stall item was accepted but not executed within "+ownerWait.String())
		return
	}
	before, _ := log.snapshot()
	told0, _ := told()
	var accepted []uint16
	var refusal error
	seq := uint16(3000)
	for i := 0; i < want+300 && i < 1000; i++ {
		seq++
		err := write(seq)
		if n, e := told(); n != told0 {
			refusal = e
			break
		}
		if err != nil {
			refusal = err
			break
		}
		accepted = append(accepted, seq)
	}
	if len(accepted) != want {
		r.viol("an item is refused only when the queue already holds its configured capacity", "capacity-wrong",
			fmt.Sprintf("%s over %s with WriteQueueSize %d: %d writes were accepted while the consumer was stalled, the queue of this session shape holds %d (first refusal: %v)",
				r.cc.Shape, r.cc.Transport, r.cc.QueueSize, len(accepted), want, refusal))
	}
	if refusal != nil {
		var ec liberrors.ErrClientWriteQueueFull
		var es liberrors.ErrServerWriteQueueFull
		if !errors.As(refusal, &ec) && !errors.As(refusal, &es) {
			r.viol("a refusal is reported to the caller as a write-queue-full error", "capacity-refusal-error",
				fmt.Sprintf("first refused write reported %T: %v", refusal, refusal))
		}
	}
	release()
	got := log.waitRTP(len(before)+len(accepted), 2*ownerWait)
	got = got[len(before):]
	if !equalSeqs(got, accepted) {
		key := "owner-lost-writes"
		if len(got) >= len(accepted) {
			key = "owner-order-or-duplicate"
		}
		r.viol("every accepted write is executed exactly once, in acceptance order", key,
			fmt.Sprintf("%d writes accepted while stalled (%v…), after the stall ended the reader got %d (%v…)", len(accepted), head(accepted), len(got), head(got)))
	}
}

func head(s []uint16) []uint16 {
	if len(s) > 6 {
		return s[:6]
	}
	return s
}

func runCapacity(c *corr.Ctx, cc *CapCase) {
	guarded(c, cc, "createWriter", func() {
		if cc.Shape == "multicast" {
			runCapacityMulticast(c, cc)
		} else {
			runCapacityUnicast(c, cc)
		}
	})
	c.CountOnly(fmt.Sprintf("capacity %s %s %d", cc.Shape, cc.Transport, cc.QueueSize), true)
	c.Dist("capacity " + cc.Shape)
}

func runCapacityUnicast(c *corr.Ctx, cc *CapCase) {
	r := &capRun{c: c, cc: cc}
	waitConsumers(0, ownerWait)
	clientSide := strings.HasPrefix(cc.Shape, "client")
	record := strings.HasSuffix(cc.Shape, "record")
	back := strings.Contains(cc.Shape, "back")
	srvQ, cliQ := 0, 0
	if clientSide {
		cliQ = cc.QueueSize
	} else {
		srvQ = cc.QueueSize
	}
	srv, err := startOwnerServerOpt(cc.Transport, !record, srvQ, back)
	if err != nil {
		c.Note("capacity probe skipped, server did not start: " + err.Error())
		return
	}
	defer srv.close()
	got := &pktLog{}
	cl := &gortsplib.Client{Scheme: "rtsp", Host: srv.addr, ReadTimeout: 5 * time.Second, WriteTimeout: 5 * time.Second,
		WriteQueueSize: cliQ, RequestBackChannels: back, DisableRTCPSenderReports: true,
		OnPacketsLost: func(uint64) {}, OnDecodeError: func(error) {}}
	if cc.Transport == "tcp" {
		cl.Protocol = new(gortsplib.ProtocolTCP)
	} else {
		cl.Protocol = new(gortsplib.ProtocolUDP)
	}
	if err := cl.Start(); err != nil {
		c.Note("capacity probe skipped: " + err.Error())
		return
	}
	defer cl.Close()
	setupFail := func(what string, err error) {
		r.viol("a lifecycle request that is legal in the current state succeeds", "owner-request-failed", what+": "+err.Error())
	}
	u, _ := base.ParseURL("rtsp://" + srv.addr + "/teststream")
	var stdMedia, backMedia *description.Media
	recMedia := ownerMedia()
	if record {
		desc := &description.Session{Medias: []*description.Media{recMedia}}
		if _, err := cl.Announce(u, desc); err != nil {
			setupFail("ANNOUNCE", err)
			return
		}
		if err := cl.SetupAll(u, desc.Medias); err != nil {
			setupFail("SETUP", err)
			return
		}
		cl.OnPacketRTCPAny(func(_ *description.Media, p rtcp.Packet) { got.addRTCPPacket(p) })
		if _, err := cl.Record(); err != nil {
			setupFail("RECORD", err)
			return
		}
	} else {
		desc, _, err := cl.Describe(u)
		if err != nil {
			setupFail("DESCRIBE", err)
			return
		}
		for _, m := range desc.Medias {
			if m.IsBackChannel {
				backMedia = m
			} else {
				stdMedia = m
			}
		}
		if back && backMedia == nil {
			setupFail("DESCRIBE", fmt.Errorf("no back-channel media in the description"))
			return
		}
		var medias []*description.Media
		switch cc.Shape {
		case "client-play-back":
			medias = []*description.Media{backMedia}
		case "client-play-std+back", "server-play-back":
			medias = []*description.Media{stdMedia, backMedia}
		default:
			medias = []*description.Media{stdMedia}
		}
		if err := cl.SetupAll(desc.BaseURL, medias); err != nil {
			setupFail("SETUP", err)
			return
		}
		cl.OnPacketRTPAny(func(_ *description.Media, _ format.Format, p *rtp.Packet) { got.addRTP(p.SequenceNumber) })
		if _, err := cl.Play(nil); err != nil {
			setupFail("PLAY", err)
			return
		}
	}
	ss := srv.h.sess.Load()
	if ss == nil {
		setupFail("PLAY/RECORD", fmt.Errorf("the server handler was not called"))
		return
	}
	none := func() (int64, error) { return 0, nil }
	switch cc.Shape {
	case "client-record":
		r.probe(cl.VerifWriterPush, func(seq uint16) error {
			return cl.WritePacketRTP(recMedia, &rtp.Packet{Header: rtp.Header{Version: 2, PayloadType: 96, SequenceNumber: seq, SSRC: 0x77}, Payload: []byte{5, 1}})
		}, none, srv.h.recv)
	case "client-play-std":
		r.probe(cl.VerifWriterPush, func(seq uint16) error { return cl.WritePacketRTCP(stdMedia, ownerRR(seq)) }, none, srv.h.recv)
	case "client-play-std+back", "client-play-back":
		r.probe(cl.VerifWriterPush, func(seq uint16) error {
			return cl.WritePacketRTP(backMedia, &rtp.Packet{Header: rtp.Header{Version: 2, PayloadType: 8, SequenceNumber: seq, SSRC: 0x78}, Payload: []byte{1, 2, 3, 4}})
		}, none, srv.h.recv)
	case "server-play-std", "server-play-back":
		r.probe(ss.VerifWriterPush, func(seq uint16) error {
			return srv.h.stream.WritePacketRTP(srv.media, &rtp.Packet{Header: rtp.Header{Version: 2, PayloadType: 96, SequenceNumber: seq, SSRC: 0x79}, Payload: []byte{5, 1}})
		}, func() (int64, error) {
			if e := srv.h.lastWriteErr.Load(); e != nil {
				return srv.h.writeErrs.Load(), *e
			}
			return srv.h.writeErrs.Load(), nil
		}, got)
	case "server-record":
		medi := ss.AnnouncedDescription().Medias[0]
		r.probe(ss.VerifWriterPush, func(seq uint16) error { return ss.WritePacketRTCP(medi, ownerRR(seq)) }, none, got)
	}
}

func runCapacityMulticast(c *corr.Ctx, cc *CapCase) {
	r := &capRun{c: c, cc: cc}
	if ownerNoMulticast.Load() {
		return
	}
	waitConsumers(0, ownerWait)
	srv, err := startOwnerServerOpt("multicast", true, cc.QueueSize, false)
	if err != nil {
		c.Note("capacity probe skipped, server did not start: " + err.Error())
		return
	}
	defer srv.close()
	rc, err := dialRaw(srv.addr)
	if err != nil {
		c.Note("capacity probe skipped: " + err.Error())
		return
	}
	defer rc.close()
	th := headers.Transport{Protocol: headers.TransportProtocolUDP, Delivery: new(headers.TransportDeliveryMulticast)}
	res, err := rc.do(base.Setup, "rtsp://"+srv.addr+"/teststream/trackID=0", base.Header{"Transport": th.Marshal()}, nil)
	if err != nil || res.StatusCode != base.StatusOK {
		r.viol("a lifecycle request that is legal in the current state succeeds", "owner-request-failed", fmt.Sprintf("multicast SETUP: %v %v", err, res))
		return
	}
	var rth headers.Transport
	if err := rth.Unmarshal(res.Header["Transport"]); err != nil || rth.Destination2 == nil || rth.Ports == nil {
		r.viol("a lifecycle request that is legal in the current state succeeds", "owner-request-failed", "multicast SETUP: bad Transport header")
		return
	}
	if err := rc.joinMulticast(*rth.Destination2, rth.Ports[0]); err != nil {
		c.Note("multicast capacity probe skipped: " + err.Error())
		ownerNoMulticast.Store(true)
		return
	}
	r.probe(func(cb func() error) (bool, bool) { return srv.h.stream.VerifMulticastWriterPush(srv.media, cb) },
		func(seq uint16) error {
			return srv.h.stream.WritePacketRTP(srv.media, &rtp.Packet{Header: rtp.Header{Version: 2, PayloadType: 96, SequenceNumber: seq, SSRC: 0x7a}, Payload: []byte{5, 1}})
		}, func() (int64, error) { return 0, nil }, rc.log)
}

// capacityProbes: owner × session shape × configured queue size × transport.
func capacityProbes(c *corr.Ctx) {
	sizes := []int{8, 16, 32, 256}
	for _, q := range sizes {
		for _, tr := range []string{"tcp", "udp"} {
			for _, sh := range capShapes {
				if enough() {
					return
				}
				runCapacity(c, &CapCase{Kind: "capacity", Shape: sh, Transport: tr, QueueSize: q})
			}
		}
		if enough() {
			return
		}
		runCapacity(c, &CapCase{Kind: "capacity", Shape: "multicast", Transport: "multicast", QueueSize: q})
	}
}
