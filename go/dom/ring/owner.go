package ring

import (
	"bufio"
	"bytes"
	"fmt"
	"net"
	"os"
	"runtime"
	"strconv"
	"strings"
	"sync"
	"sync/atomic"
	"time"

	"github.com/pion/rtcp"
	"github.com/pion/rtp"

	"github.com/bluenviron/gortsplib/v5"
	"github.com/bluenviron/gortsplib/v5/pkg/base"
	"github.com/bluenviron/gortsplib/v5/pkg/conn"
	"github.com/bluenviron/gortsplib/v5/pkg/description"
	"github.com/bluenviron/gortsplib/v5/pkg/format"
	"github.com/bluenviron/gortsplib/v5/pkg/headers"

	"verifharness/corr"
)

// Owner scenarios: the queue as its owners use it.  server_session.go and client.go create, start
// and destroy their Processor in the PLAY / RECORD / PAUSE handlers; a repeated lifecycle request
// (PLAY on a playing session, PAUSE twice, RECORD after PAUSE, …) must never replace or re-create
// a running queue.  Each scenario runs a real Server and a raw RTSP client (server side) or the
// library Client (client side) through one request sequence and, after every request,
//   - writes N packets through the owner's public write path and requires every accepted write to
//     arrive exactly once and in order at the reader while the session is playing / recording, and
//     nothing to arrive while it is paused;
//   - counts the goroutines that sit in asyncprocessor.(*Processor).runInner: exactly the expected
//     number of consumers while playing / recording, none while paused and none after teardown.

// OwnerCase is the replayable input of an owner scenario.
type OwnerCase struct {
	Kind      string   `json:"kind"`      // "owner"
	Side      string   `json:"side"`      // server-play | server-record | client-play | client-record
	Transport string   `json:"transport"` // udp | tcp | multicast
	Seq       []string `json:"seq"`       // PLAY | PAUSE | RECORD
	// Outcomes[i] of request i: "" / "ok" = the handler accepts; "refuse" = the server handler answers
	// 501 and the connection stays up (nothing may change); "wirefail" = the server cuts the connection
	// instead of answering
	Outcomes []string `json:"outcomes,omitempty"`
	Writes   int      `json:"writes"`
}

func (oc *OwnerCase) outcome(i int) string {
	if i < len(oc.Outcomes) && oc.Outcomes[i] != "" {
		return oc.Outcomes[i]
	}
	return "ok"
}

const ownerWait = 1500 * time.Millisecond

// consumerGoroutines counts the goroutines currently inside Processor.runInner.
func consumerGoroutines() int {
	buf := make([]byte, 1<<20)
	for {
		n := runtime.Stack(buf, true)
		if n < len(buf) {
			buf = buf[:n]
			break
		}
		buf = make([]byte, 2*len(buf))
	}
	return bytes.Count(buf, []byte("asyncprocessor.(*Processor).runInner("))
}

func waitConsumers(want int, d time.Duration) int {
	deadline := time.Now().Add(d)
	for {
		got := consumerGoroutines()
		if got == want || time.Now().After(deadline) {
			return got
		}
		time.Sleep(2 * time.Millisecond)
	}
}

var ownerPortCtr atomic.Int32

// ownerPorts returns an even port; consecutive calls walk through a per-process window.
func ownerPorts() int {
	n := int(ownerPortCtr.Add(1))
	return 20000 + (os.Getpid()%200)*200 + (n%100)*2
}

func listenUDPPair() (*net.UDPConn, *net.UDPConn, int, error) {
	var lastErr error
	for i := 0; i < 200; i++ {
		p := ownerPorts()
		a, err := net.ListenUDP("udp", &net.UDPAddr{IP: net.IPv4(127, 0, 0, 1), Port: p})
		if err != nil {
			lastErr = err
			continue
		}
		b, err := net.ListenUDP("udp", &net.UDPAddr{IP: net.IPv4(127, 0, 0, 1), Port: p + 1})
		if err != nil {
			a.Close()
			lastErr = err
			continue
		}
		return a, b, p, nil
	}
	return nil, nil, 0, lastErr
}

// ---- collected packets -------------------------------------------------------------------------

type pktLog struct {
	mu   sync.Mutex
	rtp  []uint16 // sequence numbers, in arrival order
	rtcp int      // receiver reports seen
}

func (l *pktLog) addRTP(seq uint16) {
	l.mu.Lock()
	l.rtp = append(l.rtp, seq)
	l.mu.Unlock()
}

func (l *pktLog) addRTCP(buf []byte) {
	pkts, err := rtcp.Unmarshal(buf)
	if err != nil {
		return
	}
	for _, p := range pkts {
		l.addRTCPPacket(p)
	}
}

// ownerRTCPMark marks the RTCP packets written by the scenarios (receiver reports whose SSRC is
// ownerRTCPMark<<16 | sequence number); the library's own periodic reports are only counted.
const ownerRTCPMark = 0xC16A

func ownerRR(seq uint16) rtcp.Packet {
	return &rtcp.ReceiverReport{SSRC: ownerRTCPMark<<16 | uint32(seq)}
}

func (l *pktLog) addRTCPPacket(p rtcp.Packet) {
	if rr, ok := p.(*rtcp.ReceiverReport); ok {
		if rr.SSRC>>16 == ownerRTCPMark {
			l.addRTP(uint16(rr.SSRC))
			return
		}
		l.mu.Lock()
		l.rtcp++
		l.mu.Unlock()
	}
}

func (l *pktLog) snapshot() ([]uint16, int) {
	l.mu.Lock()
	defer l.mu.Unlock()
	return append([]uint16(nil), l.rtp...), l.rtcp
}

func (l *pktLog) waitRTP(n int, d time.Duration) []uint16 {
	deadline := time.Now().Add(d)
	for {
		s, _ := l.snapshot()
		if len(s) >= n || time.Now().After(deadline) {
			return s
		}
		time.Sleep(time.Millisecond)
	}
}

func (l *pktLog) waitRTCP(n int, d time.Duration) int {
	deadline := time.Now().Add(d)
	for {
		_, r := l.snapshot()
		if r >= n || time.Now().After(deadline) {
			return r
		}
		time.Sleep(time.Millisecond)
	}
}

// ---- raw RTSP client ---------------------------------------------------------------------------

type rawClient struct {
	nc      net.Conn
	c       *conn.Conn
	wmu     sync.Mutex
	cseq    int
	session string
	resp    chan *base.Response
	log     *pktLog
	udpRTP  *net.UDPConn
	udpRTCP *net.UDPConn
	noRTP   bool // publisher: RTP coming from the server is only its firewall-opening packet
}

func dialRaw(addr string) (*rawClient, error) {
	nc, err := net.DialTimeout("tcp", addr, 3*time.Second)
	if err != nil {
		return nil, err
	}
	rc := &rawClient{nc: nc, c: conn.NewConn(bufio.NewReader(nc), nc), resp: make(chan *base.Response, 16), log: &pktLog{}}
	go func() {
		defer close(rc.resp)
		for {
			v, err := rc.c.Read()
			if err != nil {
				return
			}
			switch x := v.(type) {
			case *base.Response:
				rc.resp <- x
			case *base.InterleavedFrame:
				if x.Channel == 0 {
					var p rtp.Packet
					if p.Unmarshal(x.Payload) == nil {
						rc.log.addRTP(p.SequenceNumber)
					}
				} else if x.Channel == 1 {
					rc.log.addRTCP(append([]byte(nil), x.Payload...))
				}
			}
		}
	}()
	return rc, nil
}

func (rc *rawClient) listenUDP() (int, error) {
	a, b, p, err := listenUDPPair()
	if err != nil {
		return 0, err
	}
	rc.udpRTP, rc.udpRTCP = a, b
	go func() {
		buf := make([]byte, 2048)
		for {
			n, _, err := a.ReadFromUDP(buf)
			if err != nil {
				return
			}
			var p rtp.Packet
			if !rc.noRTP && p.Unmarshal(buf[:n]) == nil {
				rc.log.addRTP(p.SequenceNumber)
			}
		}
	}()
	go func() {
		buf := make([]byte, 2048)
		for {
			n, _, err := b.ReadFromUDP(buf)
			if err != nil {
				return
			}
			rc.log.addRTCP(append([]byte(nil), buf[:n]...))
		}
	}()
	return p, nil
}

var ownerNoMulticast atomic.Bool

// joinMulticast listens on the group the server announced (first interface that can do multicast).
func (rc *rawClient) joinMulticast(dest string, port int) error {
	ifs, err := net.Interfaces()
	if err != nil {
		return err
	}
	var lastErr error = fmt.Errorf("no multicast-capable interface")
	for i := range ifs {
		if ifs[i].Flags&net.FlagMulticast == 0 || ifs[i].Flags&net.FlagUp == 0 {
			continue
		}
		pc, err := net.ListenMulticastUDP("udp4", &ifs[i], &net.UDPAddr{IP: net.ParseIP(dest), Port: port})
		if err != nil {
			lastErr = err
			continue
		}
		rc.udpRTP = pc
		rc.udpRTCP, _ = net.ListenUDP("udp4", &net.UDPAddr{IP: net.IPv4(127, 0, 0, 1), Port: 0})
		go func() {
			buf := make([]byte, 2048)
			for {
				n, _, err := pc.ReadFromUDP(buf)
				if err != nil {
					return
				}
				var p rtp.Packet
				if p.Unmarshal(buf[:n]) == nil {
					rc.log.addRTP(p.SequenceNumber)
				}
			}
		}()
		return nil
	}
	return lastErr
}

func (rc *rawClient) do(method base.Method, u string, hdr base.Header, body []byte) (*base.Response, error) {
	pu, err := base.ParseURL(u)
	if err != nil {
		return nil, err
	}
	rc.cseq++
	h := base.Header{"CSeq": base.HeaderValue{strconv.Itoa(rc.cseq)}}
	for k, v := range hdr {
		h[k] = v
	}
	if rc.session != "" {
		h["Session"] = base.HeaderValue{rc.session}
	}
	rc.wmu.Lock()
	rc.nc.SetWriteDeadline(time.Now().Add(3 * time.Second))
	err = rc.c.WriteRequest(&base.Request{Method: method, URL: pu, Header: h, Body: body})
	rc.wmu.Unlock()
	if err != nil {
		return nil, err
	}
	select {
	case res, ok := <-rc.resp:
		if !ok {
			return nil, fmt.Errorf("connection closed by the server")
		}
		return res, nil
	case <-time.After(3 * time.Second):
		return nil, fmt.Errorf("no response to %s within 3 s", method)
	}
}

func (rc *rawClient) close() {
	rc.nc.Close()
	if rc.udpRTP != nil {
		rc.udpRTP.Close()
		rc.udpRTCP.Close()
	}
}

// ---- server fixture ----------------------------------------------------------------------------

type ownerHandler struct {
	stream       *gortsplib.ServerStream
	recv         *pktLog // what the server read from a publisher
	writeErrs    atomic.Int64
	sessClosed   atomic.Int64
	sess         atomic.Pointer[gortsplib.ServerSession]
	lastWriteErr atomic.Pointer[error]
	next         atomic.Pointer[string] // outcome of the next PLAY / RECORD / PAUSE (consumed by it)
}

// planned applies the outcome planned for this request; handled = do not run the normal handler.
func (h *ownerHandler) planned(sc *gortsplib.ServerConn) (*base.Response, error, bool) {
	o := h.next.Swap(nil)
	if o == nil {
		return nil, nil, false
	}
	switch *o {
	case "refuse":
		return &base.Response{StatusCode: base.StatusNotImplemented}, nil, true
	case "wirefail":
		sc.NetConn().Close()
		return &base.Response{StatusCode: base.StatusBadRequest}, fmt.Errorf("connection cut by the test"), true
	}
	return nil, nil, false
}

func okRes() *base.Response { return &base.Response{StatusCode: base.StatusOK} }

func (h *ownerHandler) OnDescribe(*gortsplib.ServerHandlerOnDescribeCtx) (*base.Response, *gortsplib.ServerStream, error) {
	return okRes(), h.stream, nil
}

func (h *ownerHandler) OnAnnounce(*gortsplib.ServerHandlerOnAnnounceCtx) (*base.Response, error) {
	return okRes(), nil
}

func (h *ownerHandler) OnSetup(ctx *gortsplib.ServerHandlerOnSetupCtx) (*base.Response, *gortsplib.ServerStream, error) {
	if ctx.Session.State() == gortsplib.ServerSessionStatePreRecord {
		return okRes(), nil, nil
	}
	return okRes(), h.stream, nil
}

func (h *ownerHandler) OnPlay(ctx *gortsplib.ServerHandlerOnPlayCtx) (*base.Response, error) {
	if res, err, done := h.planned(ctx.Conn); done {
		return res, err
	}
	ctx.Session.OnPacketRTCPAny(func(_ *description.Media, pkt rtcp.Packet) { h.recv.addRTCPPacket(pkt) })
	ctx.Session.OnPacketRTPAny(func(_ *description.Media, _ format.Format, pkt *rtp.Packet) { h.recv.addRTP(pkt.SequenceNumber) })
	h.sess.Store(ctx.Session)
	return okRes(), nil
}

func (h *ownerHandler) OnRecord(ctx *gortsplib.ServerHandlerOnRecordCtx) (*base.Response, error) {
	if res, err, done := h.planned(ctx.Conn); done {
		return res, err
	}
	ctx.Session.OnPacketRTPAny(func(_ *description.Media, _ format.Format, pkt *rtp.Packet) {
		h.recv.addRTP(pkt.SequenceNumber)
	})
	h.sess.Store(ctx.Session)
	return okRes(), nil
}

func (h *ownerHandler) OnPause(ctx *gortsplib.ServerHandlerOnPauseCtx) (*base.Response, error) {
	if res, err, done := h.planned(ctx.Conn); done {
		return res, err
	}
	return okRes(), nil
}

func (h *ownerHandler) OnStreamWriteError(ctx *gortsplib.ServerHandlerOnStreamWriteErrorCtx) {
	h.lastWriteErr.Store(&ctx.Error)
	h.writeErrs.Add(1)
}

func (h *ownerHandler) OnSessionClose(*gortsplib.ServerHandlerOnSessionCloseCtx) { h.sessClosed.Add(1) }

func (h *ownerHandler) OnPacketsLost(*gortsplib.ServerHandlerOnPacketsLostCtx) {}

func (h *ownerHandler) OnDecodeError(*gortsplib.ServerHandlerOnDecodeErrorCtx) {}

type ownerServer struct {
	s     *gortsplib.Server
	h     *ownerHandler
	addr  string
	media *description.Media
	back  *description.Media
}

func ownerMedia() *description.Media {
	return &description.Media{Type: description.MediaTypeVideo, Formats: []format.Format{&format.H264{PayloadTyp: 96, PacketizationMode: 1}}}
}

func startOwnerServer(transport string, withStream bool) (*ownerServer, error) {
	return startOwnerServerOpt(transport, withStream, 0, false)
}

// startOwnerServerOpt: writeQueue 0 = the library's default; backChannel adds an ONVIF back-channel
// media to the stream.  Sender reports are off: they would travel through the queues under test.
func startOwnerServerOpt(transport string, withStream bool, writeQueue int, backChannel bool) (*ownerServer, error) {
	var lastErr error
	for attempt := 0; attempt < 100; attempt++ {
		h := &ownerHandler{recv: &pktLog{}}
		s := &gortsplib.Server{Handler: h, RTSPAddress: "127.0.0.1:0", WriteQueueSize: writeQueue, DisableRTCPSenderReports: true}
		if writeQueue == 0 {
			s.VerifSetReportPeriods(10*time.Second, 20*time.Millisecond)
		}
		p := ownerPorts()
		if transport == "udp" {
			s.UDPRTPAddress = fmt.Sprintf("127.0.0.1:%d", p)
			s.UDPRTCPAddress = fmt.Sprintf("127.0.0.1:%d", p+1)
		}
		if transport == "multicast" {
			s.MulticastIPRange = fmt.Sprintf("224.%d.0.0/16", 1+os.Getpid()%200)
			s.MulticastRTPPort = p
			s.MulticastRTCPPort = p + 1
		}
		if err := s.Start(); err != nil {
			lastErr = err
			continue
		}
		o := &ownerServer{s: s, h: h, addr: s.NetListener().Addr().String(), media: ownerMedia()}
		if withStream {
			medias := []*description.Media{o.media}
			if backChannel {
				o.back = &description.Media{Type: description.MediaTypeAudio, IsBackChannel: true,
					Formats: []format.Format{&format.G711{PayloadTyp: 8, MULaw: false, SampleRate: 8000, ChannelCount: 1}}}
				medias = append(medias, o.back)
			}
			h.stream = &gortsplib.ServerStream{Server: s, Desc: &description.Session{Medias: medias}}
			if err := h.stream.Initialize(); err != nil {
				s.Close()
				return nil, err
			}
		}
		return o, nil
	}
	return nil, lastErr
}

func (o *ownerServer) close() {
	if o.h.stream != nil {
		o.h.stream.Close()
	}
	o.s.Close()
}

// ---- the oracle --------------------------------------------------------------------------------

type ownerRun struct {
	c     *corr.Ctx
	oc    *OwnerCase
	base  int // consumer goroutines before the scenario
	seq   uint16
	pseq  uint16
	where string
	bad   bool
}

func (r *ownerRun) viol(clause, key, detail string) {
	r.bad = true
	report(r.c, corr.Violation{Property: "C16", Clause: clause, Key: key, Where: r.where, Input: r.oc, Detail: detail})
}

func (r *ownerRun) pkt() *rtp.Packet {
	r.seq++
	return &rtp.Packet{Header: rtp.Header{Version: 2, PayloadType: 96, SequenceNumber: r.seq, Timestamp: uint32(r.seq) * 3000, SSRC: 0x1234},
		Payload: []byte{5, byte(r.seq), byte(r.seq >> 8)}}
}

// checkConsumers: exactly `want` consumer goroutines above the baseline.
func (r *ownerRun) checkConsumers(step int, want int, state string) {
	got := waitConsumers(r.base+want, ownerWait) - r.base
	if got != want {
		r.viol("the owner runs exactly one consumer per active queue and none when paused / torn down (a repeated lifecycle request never replaces or re-creates a running queue)",
			"owner-consumer-count", fmt.Sprintf("after request #%d (%s): %d queue consumer goroutines (asyncprocessor.(*Processor).runInner), expected %d", step, state, got, want))
	}
}

// checkDelivery: write n packets with `write`; active => all accepted ones arrive, once, in order;
// paused => none arrives.  `log` is where arrivals are collected; `told` counts refusals reported.
func (r *ownerRun) checkDelivery(step int, active bool, n int, write func(*rtp.Packet) error, log *pktLog, told func() int64) {
	before, _ := log.snapshot()
	told0 := told()
	var want []uint16
	for i := 0; i < n; i++ {
		p := r.pkt()
		if !active {
			// writes made while paused are dropped by design; they get sequence numbers from a range of
			// their own so that the reader's reorder buffer (UDP) sees no gap in the active phases
			r.seq--
			r.pseq++
			p.SequenceNumber = 40000 + r.pseq
		}
		if err := write(p); err == nil {
			want = append(want, p.SequenceNumber)
		}
	}
	if !active {
		return // stale arrivals are detected by the exact comparison of the next active phase / at the end
	}
	refused := int(told() - told0)
	got := log.waitRTP(len(before)+len(want)-refused, ownerWait)
	got = got[len(before):]
	if refused == 0 {
		if !equalSeqs(got, want) {
			key := "owner-lost-writes"
			if len(got) >= len(want) {
				key = "owner-order-or-duplicate"
			}
			r.viol("every accepted write is executed exactly once, in acceptance order (or refused and the caller told)", key,
				fmt.Sprintf("after request #%d: wrote seq %v (all accepted, no error reported), reader got %v", step, want, got))
		}
		return
	}
	// some writes were refused through OnStreamWriteError: the rest must be an in-order subsequence
	if len(got) != len(want)-refused || !isSubseq(got, want) {
		r.viol("every accepted write is executed exactly once, in acceptance order (or refused and the caller told)", "owner-lost-writes",
			fmt.Sprintf("after request #%d: wrote %v, %d refusals reported, reader got %v", step, want, refused, got))
	}
}

func equalSeqs(a, b []uint16) bool {
	if len(a) != len(b) {
		return false
	}
	for i := range a {
		if a[i] != b[i] {
			return false
		}
	}
	return true
}

func isSubseq(a, b []uint16) bool {
	j := 0
	for _, x := range a {
		for j < len(b) && b[j] != x {
			j++
		}
		if j == len(b) {
			return false
		}
		j++
	}
	return true
}

// noStale: arrivals while paused / after the last phase must be exactly what the active phases wrote.
func (r *ownerRun) noStale(log *pktLog, expected []uint16) {
	time.Sleep(20 * time.Millisecond)
	got, _ := log.snapshot()
	if !equalSeqs(got, expected) {
		r.viol("nothing runs after Close has returned (no write reaches the reader while the session is paused)", "owner-stale-delivery",
			fmt.Sprintf("reader got %v over the whole scenario, the writes made while playing/recording were %v", got, expected))
	}
}

// ---- server side: raw client ----------------------------------------------------------------------

func runOwnerServer(c *corr.Ctx, oc *OwnerCase) {
	r := &ownerRun{c: c, oc: oc, where: "server_session.go", seq: 1000}
	r.base = waitConsumers(0, ownerWait)
	play := oc.Side == "server-play"
	srv, err := startOwnerServer(oc.Transport, play)
	if err != nil {
		c.Note("owner scenario skipped, server did not start: " + err.Error())
		return
	}
	defer func() {
		srv.close()
		if !r.bad {
			r.checkConsumers(len(oc.Seq)+1, 0, "after teardown and Server.Close")
		}
	}()
	rc, err := dialRaw(srv.addr)
	if err != nil {
		c.Note("owner scenario skipped: " + err.Error())
		return
	}
	defer rc.close()
	rc.noRTP = !play
	u := "rtsp://" + srv.addr + "/teststream"
	fail := func(what string, res *base.Response, err error) {
		d := fmt.Sprint(err)
		if res != nil {
			d = fmt.Sprintf("status %d", res.StatusCode)
		}
		r.viol("a lifecycle request that is legal in the current state succeeds", "owner-request-failed", what+": "+d)
	}
	if !play {
		desc := &description.Session{Medias: []*description.Media{srv.media}}
		srv.media.Control = "trackID=0"
		body, _ := desc.Marshal()
		if res, err := rc.do(base.Announce, u, base.Header{"Content-Type": base.HeaderValue{"application/sdp"}}, body); err != nil || res.StatusCode != base.StatusOK {
			fail("ANNOUNCE", res, err)
			return
		}
	}
	th := headers.Transport{Delivery: new(headers.TransportDeliveryUnicast)}
	if !play {
		th.Mode = new(headers.TransportModeRecord)
	}
	switch oc.Transport {
	case "tcp":
		th.Protocol = headers.TransportProtocolTCP
		th.InterleavedIDs = &[2]int{0, 1}
	case "udp":
		p, err := rc.listenUDP()
		if err != nil {
			c.Note("owner scenario skipped: " + err.Error())
			return
		}
		th.Protocol = headers.TransportProtocolUDP
		th.ClientPorts = &[2]int{p, p + 1}
	case "multicast":
		th.Protocol = headers.TransportProtocolUDP
		th.Delivery = new(headers.TransportDeliveryMulticast)
	}
	res, err := rc.do(base.Setup, u+"/trackID=0", base.Header{"Transport": th.Marshal()}, nil)
	if err != nil || res.StatusCode != base.StatusOK {
		fail("SETUP", res, err)
		return
	}
	var sx headers.Session
	if err := sx.Unmarshal(res.Header["Session"]); err != nil {
		fail("SETUP (Session header)", nil, err)
		return
	}
	rc.session = sx.Session
	var expected []uint16
	mcast := oc.Transport == "multicast"
	if mcast {
		// the stream's multicast writer owns the queue: it exists from the first SETUP to the end of the
		// last multicast reader and sends whatever is written, whatever PLAY / PAUSE the reader sends
		var rth headers.Transport
		if err := rth.Unmarshal(res.Header["Transport"]); err != nil || rth.Destination2 == nil || rth.Ports == nil {
			fail("SETUP (multicast Transport header)", nil, fmt.Errorf("%v %v", err, res.Header["Transport"]))
			return
		}
		if err := rc.joinMulticast(*rth.Destination2, rth.Ports[0]); err != nil {
			c.Note("multicast owner scenario skipped: " + err.Error())
			ownerNoMulticast.Store(true)
			return
		}
		r.checkConsumers(0, 1, "SETUP")
		r.checkDelivery(0, true, oc.Writes, func(p *rtp.Packet) error { return srv.h.stream.WritePacketRTP(srv.media, p) }, rc.log, srv.h.writeErrs.Load)
		if r.bad {
			return
		}
		expected, _ = rc.log.snapshot()
	}
	active := false
	for i, req := range oc.Seq {
		method := map[string]base.Method{"PLAY": base.Play, "PAUSE": base.Pause, "RECORD": base.Record}[req]
		out := oc.outcome(i)
		if out != "ok" {
			srv.h.next.Store(&out)
		}
		res, err := rc.do(method, u, nil, nil)
		if out == "wirefail" {
			break // the connection is gone: the session must wind up (checked after Server.Close)
		}
		if out == "refuse" {
			if err != nil || res.StatusCode == base.StatusOK {
				fail(fmt.Sprintf("request #%d %s (to be refused by the handler)", i+1, req), res, err)
				return
			}
		} else {
			if err != nil || res.StatusCode != base.StatusOK {
				fail(fmt.Sprintf("request #%d %s", i+1, req), res, err)
				return
			}
			active = req != "PAUSE" || mcast
		}
		want := 0
		if active {
			want = 1
		}
		r.checkConsumers(i+1, want, req)
		if r.bad {
			return
		}
		if play {
			before, _ := rc.log.snapshot()
			r.checkDelivery(i+1, active, oc.Writes, func(p *rtp.Packet) error { return srv.h.stream.WritePacketRTP(srv.media, p) },
				rc.log, srv.h.writeErrs.Load)
			if active {
				after, _ := rc.log.snapshot()
				expected = append(expected, after[len(before):]...)
			}
		} else {
			// a recording session: the queue carries what ServerSession.WritePacketRTCP is given
			ss := srv.h.sess.Load()
			if ss == nil {
				if !active {
					continue
				}
				r.viol("a lifecycle request that is legal in the current state succeeds", "owner-request-failed", "OnRecord was not called")
				return
			}
			medi := ss.AnnouncedDescription().Medias[0]
			before, _ := rc.log.snapshot()
			r.checkDelivery(i+1, active, oc.Writes, func(p *rtp.Packet) error { return ss.WritePacketRTCP(medi, ownerRR(p.SequenceNumber)) },
				rc.log, func() int64 { return 0 })
			if active {
				after, _ := rc.log.snapshot()
				expected = append(expected, after[len(before):]...)
			}
		}
		if r.bad {
			return
		}
	}
	r.noStale(rc.log, expected)
	rc.do(base.Teardown, u, nil, nil) //nolint:errcheck
}

// ---- client side: library Client against the library Server ---------------------------------------

func runOwnerClient(c *corr.Ctx, oc *OwnerCase) {
	r := &ownerRun{c: c, oc: oc, where: "client.go", seq: 2000}
	r.base = waitConsumers(0, ownerWait)
	back := oc.Side == "client-play-back"
	play := oc.Side == "client-play" || back
	srv, err := startOwnerServerOpt(oc.Transport, play, 0, back)
	if err != nil {
		c.Note("owner scenario skipped, server did not start: " + err.Error())
		return
	}
	got := &pktLog{} // what the client read (play)
	cl := &gortsplib.Client{Scheme: "rtsp", Host: srv.addr, ReadTimeout: 5 * time.Second, WriteTimeout: 5 * time.Second,
		RequestBackChannels: back, DisableRTCPSenderReports: true, OnPacketsLost: func(uint64) {}, OnDecodeError: func(error) {}}
	cl.VerifSetReportPeriods(10*time.Second, 20*time.Millisecond)
	if oc.Transport == "tcp" {
		cl.Protocol = new(gortsplib.ProtocolTCP)
	} else {
		cl.Protocol = new(gortsplib.ProtocolUDP)
	}
	closed := false
	defer func() {
		if !closed && !bounded(cl.Close) {
			stuck()
			r.viol("Close returns", "errclose-hang", "Client.Close did not return within 3 s")
		}
		srv.close()
		if !r.bad {
			r.checkConsumers(len(oc.Seq)+1, 0, "after Client.Close and Server.Close")
		}
	}()
	if err := cl.Start(); err != nil {
		c.Note("owner scenario skipped: " + err.Error())
		return
	}
	u, _ := base.ParseURL("rtsp://" + srv.addr + "/teststream")
	media := ownerMedia()
	var playMedia, backMedia *description.Media
	if play {
		desc, _, err := cl.Describe(u)
		if err != nil {
			r.viol("a lifecycle request that is legal in the current state succeeds", "owner-request-failed", "DESCRIBE: "+err.Error())
			return
		}
		if err := cl.SetupAll(desc.BaseURL, desc.Medias); err != nil {
			r.viol("a lifecycle request that is legal in the current state succeeds", "owner-request-failed", "SETUP: "+err.Error())
			return
		}
		cl.OnPacketRTPAny(func(_ *description.Media, _ format.Format, p *rtp.Packet) { got.addRTP(p.SequenceNumber) })
		playMedia = desc.Medias[0]
		for _, m := range desc.Medias {
			if m.IsBackChannel {
				backMedia = m
			}
		}
		if back && backMedia == nil {
			r.viol("a lifecycle request that is legal in the current state succeeds", "owner-request-failed", "DESCRIBE: no back-channel media")
			return
		}
	} else {
		desc := &description.Session{Medias: []*description.Media{media}}
		if _, err := cl.Announce(u, desc); err != nil {
			r.viol("a lifecycle request that is legal in the current state succeeds", "owner-request-failed", "ANNOUNCE: "+err.Error())
			return
		}
		if err := cl.SetupAll(u, desc.Medias); err != nil {
			r.viol("a lifecycle request that is legal in the current state succeeds", "owner-request-failed", "SETUP: "+err.Error())
			return
		}
	}
	active := false
	var expected []uint16
	for i, req := range oc.Seq {
		var err error
		legal := (req == "PAUSE") == active // PLAY/RECORD only when paused, PAUSE only when active
		out := oc.outcome(i)
		if !legal {
			out = "ok" // refused by the client itself: the request never reaches the server
		}
		if out != "ok" {
			srv.h.next.Store(&out)
		}
		switch req {
		case "PLAY":
			_, err = cl.Play(nil)
		case "RECORD":
			_, err = cl.Record()
		default:
			_, err = cl.Pause()
		}
		if out == "wirefail" {
			break // the connection is gone: Client.Close / Server.Close must wind everything up
		}
		if out == "refuse" {
			// refused by the server handler, connection up: the request fails and NOTHING changes —
			// in particular a client that keeps playing / recording keeps a running queue
			if err == nil {
				r.viol("a lifecycle request refused by the server is reported to the caller", "owner-request-failed", fmt.Sprintf("request #%d %s was answered 501 but the client reported success", i+1, req))
				return
			}
			legal = false
			err = nil
		} else if legal && err != nil {
			r.viol("a lifecycle request that is legal in the current state succeeds", "owner-request-failed", fmt.Sprintf("request #%d %s: %v", i+1, req, err))
			return
		}
		if !legal && err == nil && out != "refuse" {
			r.viol("a lifecycle request in the wrong state is refused by the client and changes nothing", "owner-illegal-accepted",
				fmt.Sprintf("request #%d %s was accepted although the client is %s", i+1, req, map[bool]string{true: "active", false: "paused"}[active]))
			return
		}
		if legal {
			active = req != "PAUSE"
		}
		want := 0
		if active {
			want = 2 // the client's queue and the server session's queue
		}
		r.checkConsumers(i+1, want, req)
		if r.bad {
			return
		}
		if back {
			// a playing client with a back channel: the queue carries the application's RTP
			before, _ := srv.h.recv.snapshot()
			r.checkDelivery(i+1, active, oc.Writes, func(p *rtp.Packet) error {
				p.PayloadType = 8
				return cl.WritePacketRTP(backMedia, p)
			}, srv.h.recv, func() int64 { return 0 })
			if active {
				after, _ := srv.h.recv.snapshot()
				expected = append(expected, after[len(before):]...)
			}
		} else if !play {
			before, _ := srv.h.recv.snapshot()
			r.checkDelivery(i+1, active, oc.Writes, func(p *rtp.Packet) error { return cl.WritePacketRTP(media, p) }, srv.h.recv, func() int64 { return 0 })
			if active {
				after, _ := srv.h.recv.snapshot()
				expected = append(expected, after[len(before):]...)
			}
		} else {
			// a playing client: the queue carries what Client.WritePacketRTCP is given
			before, _ := srv.h.recv.snapshot()
			r.checkDelivery(i+1, active, oc.Writes, func(p *rtp.Packet) error { return cl.WritePacketRTCP(playMedia, ownerRR(p.SequenceNumber)) },
				srv.h.recv, func() int64 { return 0 })
			if active {
				after, _ := srv.h.recv.snapshot()
				expected = append(expected, after[len(before):]...)
			}
		}
		if r.bad {
			return
		}
	}
	r.noStale(srv.h.recv, expected)
	if !bounded(cl.Close) {
		stuck()
		r.viol("Close returns", "errclose-hang", "Client.Close did not return within 3 s")
	}
	closed = true
}

// ---- enumeration ---------------------------------------------------------------------------------

func ownerSeqs(alphabet []string, maxLen int, ok func([]string) bool) [][]string {
	var out [][]string
	var rec func(cur []string)
	rec = func(cur []string) {
		if len(cur) > 0 && ok(cur) {
			out = append(out, append([]string(nil), cur...))
		}
		if len(cur) == maxLen {
			return
		}
		for _, a := range alphabet {
			rec(append(cur, a))
		}
	}
	rec(nil)
	return out
}

func runOwner(c *corr.Ctx, oc *OwnerCase) {
	guarded(c, oc, "server_session.go / client.go", func() {
		if strings.HasPrefix(oc.Side, "server") {
			runOwnerServer(c, oc)
		} else {
			runOwnerClient(c, oc)
		}
	})
	c.CountOnly(fmt.Sprintf("owner %s %s %s", oc.Side, oc.Transport, strings.Join(oc.Seq, ",")), true)
	c.Dist(fmt.Sprintf("owner %s %s", oc.Side, oc.Transport))
	c.DistN("owner requests", len(oc.Seq))
}

// ownerScenarios: every request sequence the state machine allows, up to maxLen, per side and transport.
func ownerScenarios(c *corr.Ctx, maxLen int) {
	// the server accepts PLAY and PAUSE in any order; RECORD only when not recording
	recordLegal := func(s []string) bool {
		rec := false
		for _, x := range s {
			if x == "RECORD" {
				if rec {
					return false
				}
				rec = true
			} else {
				rec = false
			}
		}
		return true
	}
	anySeq := func([]string) bool { return true }
	for _, sq := range ownerSeqs([]string{"PLAY", "PAUSE"}, maxLen, anySeq) {
		if enough() || ownerNoMulticast.Load() {
			break
		}
		runOwner(c, &OwnerCase{Kind: "owner", Side: "server-play", Transport: "multicast", Seq: sq, Writes: 12})
	}
	// outcome axis: one request of the sequence is refused by the handler / cut on the wire
	withOutcomes := func(side, tr string, sq []string, writes int) {
		for pos := range sq {
			for _, o := range []string{"refuse", "wirefail"} {
				if enough() {
					return
				}
				outs := make([]string, len(sq))
				outs[pos] = o
				seq := sq
				if o == "wirefail" {
					seq, outs = sq[:pos+1], outs[:pos+1]
					if pos+1 < len(sq) {
						continue // the same prefix is enumerated on its own
					}
				}
				runOwner(c, &OwnerCase{Kind: "owner", Side: side, Transport: tr, Seq: seq, Outcomes: outs, Writes: writes})
			}
		}
	}
	for _, tr := range []string{"tcp", "udp"} {
		for _, sq := range ownerSeqs([]string{"PLAY", "PAUSE"}, maxLen-1, anySeq) {
			withOutcomes("server-play", tr, sq, 8)
			withOutcomes("client-play-back", tr, sq, 8)
		}
		for _, sq := range ownerSeqs([]string{"RECORD", "PAUSE"}, maxLen-1, recordLegal) {
			withOutcomes("server-record", tr, sq, 6)
			withOutcomes("client-record", tr, sq, 8)
		}
		for _, sq := range ownerSeqs([]string{"PLAY", "PAUSE"}, maxLen, anySeq) {
			if enough() {
				return
			}
			runOwner(c, &OwnerCase{Kind: "owner", Side: "client-play-back", Transport: tr, Seq: sq, Writes: 12})
		}
		for _, sq := range ownerSeqs([]string{"PLAY", "PAUSE"}, maxLen, anySeq) {
			if enough() {
				return
			}
			runOwner(c, &OwnerCase{Kind: "owner", Side: "server-play", Transport: tr, Seq: sq, Writes: 12})
		}
		for _, sq := range ownerSeqs([]string{"RECORD", "PAUSE"}, maxLen, recordLegal) {
			if enough() {
				return
			}
			runOwner(c, &OwnerCase{Kind: "owner", Side: "server-record", Transport: tr, Seq: sq, Writes: 6})
		}
		// the client API refuses requests in the wrong state: those are part of the sequences
		for _, sq := range ownerSeqs([]string{"RECORD", "PAUSE"}, maxLen, anySeq) {
			if enough() {
				return
			}
			runOwner(c, &OwnerCase{Kind: "owner", Side: "client-record", Transport: tr, Seq: sq, Writes: 12})
		}
		for _, sq := range ownerSeqs([]string{"PLAY", "PAUSE"}, maxLen, anySeq) {
			if enough() {
				return
			}
			runOwner(c, &OwnerCase{Kind: "owner", Side: "client-play", Transport: tr, Seq: sq, Writes: 6})
		}
	}
}
