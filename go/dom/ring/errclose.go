package ring

import (
	"errors"
	"fmt"
	"strings"
	"time"

	"github.com/bluenviron/gortsplib/v5"
	"github.com/bluenviron/gortsplib/v5/pkg/base"
	"github.com/bluenviron/gortsplib/v5/pkg/description"
	"github.com/bluenviron/gortsplib/v5/pkg/headers"

	"verifharness/corr"
)

// ERROR-DURING-CLOSE family.  The owners install an OnError handler that forwards a write error to
// their own goroutine (chWriterError) and must give up as soon as the Processor's context is done:
// when the in-flight item fails while the owner is inside destroyWriter() -> Processor.Close(), the
// owner's goroutine is waiting for the consumer and cannot receive the error.  Each scenario holds
// an item in the owner's queue (verif hook: it blocks, then returns an error), issues the closing
// action, and lets the item fail either while the action is in progress ("during") or just before
// it ("before").  Oracle: the action is answered (or the session / connection ends) within a
// bound, every queue consumer goroutine is gone afterwards, the error ends the session at most
// once, Client.Close and Server.Close return.

// ErrCloseCase is the replayable input of such a scenario.
type ErrCloseCase struct {
	Kind      string `json:"kind"`      // "errclose"
	Side      string `json:"side"`      // server-play | server-record | client-play | client-record
	Transport string `json:"transport"` // tcp | udp
	Action    string `json:"action"`    // PAUSE | TEARDOWN | PLAY | CONNCLOSE | SERVERCLOSE | CLOSE
	Order     string `json:"order"`     // during | before
}

const errCloseBound = 3 * time.Second

type errCloseRun struct {
	c   *corr.Ctx
	ec  *ErrCloseCase
	bad bool
}

func (r *errCloseRun) viol(clause, key, detail string) {
	r.bad = true
	where := "server_session.go createWriter/OnError"
	if strings.HasPrefix(r.ec.Side, "client") {
		where = "client.go createWriter/OnError"
	}
	report(r.c, corr.Violation{Property: "C16", Clause: clause, Key: key, Where: where, Input: r.ec, Detail: detail})
}

func (r *errCloseRun) hang(what string) {
	stuck()
	r.viol("a processing error stops the queue and is reported at most once; Close returns even when the error arrives while the owner is closing the queue",
		"errclose-hang", what+fmt.Sprintf(" did not complete within %v (the consumer is blocked in OnError while the owner waits in Processor.Close)", errCloseBound))
}

// bounded runs f in a goroutine and reports whether it finished in time.
func bounded(f func()) bool {
	done := make(chan struct{})
	go func() { f(); close(done) }()
	select {
	case <-done:
		return true
	case <-time.After(errCloseBound):
		return false
	}
}

// failingItem: pushed into the owner's queue; blocks until release(), then fails.
func failingItem(push func(func() error) (bool, bool)) (started chan struct{}, release func(), ok bool) {
	started = make(chan struct{})
	gate := make(chan struct{})
	pushed, has := push(func() error {
		close(started)
		<-gate
		return errors.New("injected write error")
	})
	rel := false
	return started, func() {
		if !rel {
			rel = true
			close(gate)
		}
	}, pushed && has
}

func runErrClose(c *corr.Ctx, ec *ErrCloseCase) {
	guarded(c, ec, "createWriter/OnError", func() {
		if strings.HasPrefix(ec.Side, "server") {
			runErrCloseServer(c, ec)
		} else {
			runErrCloseClient(c, ec)
		}
	})
	c.CountOnly(fmt.Sprintf("errclose %s %s %s %s", ec.Side, ec.Transport, ec.Action, ec.Order), true)
	c.Dist("errclose " + ec.Side + " " + ec.Action)
}

// finish: Server.Close within the bound, no consumer left, the session ended at most once.
func (r *errCloseRun) finish(srv *ownerServer, base int) {
	if !bounded(srv.close) {
		if !r.bad {
			r.hang("Server.Close")
		}
		return
	}
	if r.bad {
		return
	}
	if got := waitConsumers(base, ownerWait) - base; got != 0 {
		r.viol("nothing runs after Close has returned: no queue consumer survives its owner", "owner-consumer-count",
			fmt.Sprintf("%d queue consumer goroutines left after the scenario and Server.Close", got))
	}
	if n := srv.h.sessClosed.Load(); n > 1 {
		r.viol("a processing error is reported exactly once", "errclose-reported-twice", fmt.Sprintf("the session was closed %d times", n))
	}
}

func runErrCloseServer(c *corr.Ctx, ec *ErrCloseCase) {
	r := &errCloseRun{c: c, ec: ec}
	base0 := waitConsumers(0, ownerWait)
	play := ec.Side == "server-play"
	srv, err := startOwnerServer(ec.Transport, play)
	if err != nil {
		c.Note("errclose scenario skipped, server did not start: " + err.Error())
		return
	}
	closed := false
	defer func() {
		if !closed {
			r.finish(srv, base0)
		}
	}()
	rc, err := dialRaw(srv.addr)
	if err != nil {
		c.Note("errclose scenario skipped: " + err.Error())
		return
	}
	defer rc.close()
	rc.noRTP = !play
	u := "rtsp://" + srv.addr + "/teststream"
	fail := func(what string, res *base.Response, err error) {
		d := fmt.Sprint(err)
		if res != nil {
			d = fmt.Sprintf("status %d", res.StatusCode)
		}
		r.viol("a lifecycle request that is legal in the current state succeeds", "owner-request-failed", what+": "+d)
	}
	if !play {
		desc := &description.Session{Medias: []*description.Media{srv.media}}
		srv.media.Control = "trackID=0"
		body, _ := desc.Marshal()
		if res, err := rc.do(base.Announce, u, base.Header{"Content-Type": base.HeaderValue{"application/sdp"}}, body); err != nil || res.StatusCode != base.StatusOK {
			fail("ANNOUNCE", res, err)
			return
		}
	}
	th := headers.Transport{Delivery: new(headers.TransportDeliveryUnicast)}
	if !play {
		th.Mode = new(headers.TransportModeRecord)
	}
	if ec.Transport == "tcp" {
		th.Protocol = headers.TransportProtocolTCP
		th.InterleavedIDs = &[2]int{0, 1}
	} else {
		p, err := rc.listenUDP()
		if err != nil {
			c.Note("errclose scenario skipped: " + err.Error())
			return
		}
		th.Protocol = headers.TransportProtocolUDP
		th.ClientPorts = &[2]int{p, p + 1}
	}
	res, err := rc.do(base.Setup, u+"/trackID=0", base.Header{"Transport": th.Marshal()}, nil)
	if err != nil || res.StatusCode != base.StatusOK {
		fail("SETUP", res, err)
		return
	}
	var sx headers.Session
	if err := sx.Unmarshal(res.Header["Session"]); err != nil {
		fail("SETUP (Session header)", nil, err)
		return
	}
	rc.session = sx.Session
	start := base.Play
	if !play {
		start = base.Record
	}
	if res, err := rc.do(start, u, nil, nil); err != nil || res.StatusCode != base.StatusOK {
		fail(string(start), res, err)
		return
	}
	if got := waitConsumers(base0+1, ownerWait) - base0; got != 1 {
		r.viol("the owner runs exactly one consumer per active queue", "owner-consumer-count", fmt.Sprintf("%d consumers after %s", got, start))
		return
	}
	ss := srv.h.sess.Load()
	if ss == nil {
		fail(string(start), nil, fmt.Errorf("the server handler was not called"))
		return
	}
	started, release, ok := failingItem(ss.VerifWriterPush)
	defer release()
	if !ok {
		r.viol("the owner has a running queue while the session is active", "capacity-no-queue", "the session has no queue after "+string(start))
		return
	}
	select {
	case <-started:
	case <-time.After(ownerWait):
		r.viol("accepted items are executed", "owner-lost-writes", "the held item was accepted but not executed")
		return
	}
	action := func() {
		switch ec.Action {
		case "PAUSE":
			rc.do(base.Pause, u, nil, nil) //nolint:errcheck
		case "TEARDOWN":
			rc.do(base.Teardown, u, nil, nil) //nolint:errcheck
		case "PLAY":
			rc.do(start, u, nil, nil) //nolint:errcheck
		case "CONNCLOSE":
			rc.nc.Close()
		case "SERVERCLOSE":
			srv.close()
		}
	}
	if ec.Order == "before" {
		release()
		time.Sleep(20 * time.Millisecond)
		if !bounded(action) {
			r.hang(ec.Action + " after a write error")
			return
		}
	} else {
		go func() {
			time.Sleep(50 * time.Millisecond) // the owner is now inside Processor.Close, waiting for the consumer
			release()
		}()
		if !bounded(action) {
			r.hang(ec.Action + " with a write failing while the queue is being closed")
			return
		}
	}
	if ec.Action == "SERVERCLOSE" {
		closed = true
		if got := waitConsumers(base0, ownerWait) - base0; got != 0 {
			r.viol("nothing runs after Close has returned: no queue consumer survives its owner", "owner-consumer-count",
				fmt.Sprintf("%d queue consumer goroutines left after Server.Close", got))
		}
		return
	}
	// whatever happened (request answered, or the session ended because of the error): the queue is gone
	if got := waitConsumers(base0, errCloseBound) - base0; got != 0 && ec.Action != "CONNCLOSE" {
		r.viol("a processing error stops the queue; Close joins the consumer", "owner-consumer-count",
			fmt.Sprintf("%d queue consumer goroutines still running %v after %s and the failed write", got, errCloseBound, ec.Action))
	}
}

func runErrCloseClient(c *corr.Ctx, ec *ErrCloseCase) {
	r := &errCloseRun{c: c, ec: ec}
	base0 := waitConsumers(0, ownerWait)
	play := ec.Side == "client-play"
	srv, err := startOwnerServer(ec.Transport, play)
	if err != nil {
		c.Note("errclose scenario skipped, server did not start: " + err.Error())
		return
	}
	defer r.finish(srv, base0)
	cl := &gortsplib.Client{Scheme: "rtsp", Host: srv.addr, ReadTimeout: 5 * time.Second, WriteTimeout: 5 * time.Second,
		DisableRTCPSenderReports: true, OnPacketsLost: func(uint64) {}, OnDecodeError: func(error) {}}
	if ec.Transport == "tcp" {
		cl.Protocol = new(gortsplib.ProtocolTCP)
	} else {
		cl.Protocol = new(gortsplib.ProtocolUDP)
	}
	if err := cl.Start(); err != nil {
		c.Note("errclose scenario skipped: " + err.Error())
		return
	}
	clientClosed := false
	defer func() {
		if !clientClosed && !bounded(cl.Close) && !r.bad {
			r.hang("Client.Close")
		}
	}()
	setupFail := func(what string, err error) {
		r.viol("a lifecycle request that is legal in the current state succeeds", "owner-request-failed", what+": "+err.Error())
	}
	u, _ := base.ParseURL("rtsp://" + srv.addr + "/teststream")
	if play {
		desc, _, err := cl.Describe(u)
		if err != nil {
			setupFail("DESCRIBE", err)
			return
		}
		if err := cl.SetupAll(desc.BaseURL, desc.Medias); err != nil {
			setupFail("SETUP", err)
			return
		}
		if _, err := cl.Play(nil); err != nil {
			setupFail("PLAY", err)
			return
		}
	} else {
		desc := &description.Session{Medias: []*description.Media{ownerMedia()}}
		if _, err := cl.Announce(u, desc); err != nil {
			setupFail("ANNOUNCE", err)
			return
		}
		if err := cl.SetupAll(u, desc.Medias); err != nil {
			setupFail("SETUP", err)
			return
		}
		if _, err := cl.Record(); err != nil {
			setupFail("RECORD", err)
			return
		}
	}
	if got := waitConsumers(base0+2, ownerWait) - base0; got != 2 {
		r.viol("the owner runs exactly one consumer per active queue", "owner-consumer-count", fmt.Sprintf("%d consumers (client + server session) after PLAY/RECORD", got))
		return
	}
	started, release, ok := failingItem(cl.VerifWriterPush)
	defer release()
	if !ok {
		r.viol("the owner has a running queue while the session is active", "capacity-no-queue", "the client has no queue after PLAY/RECORD")
		return
	}
	select {
	case <-started:
	case <-time.After(ownerWait):
		r.viol("accepted items are executed", "owner-lost-writes", "the held item was accepted but not executed")
		return
	}
	action := func() {
		if ec.Action == "PAUSE" {
			cl.Pause() //nolint:errcheck
		} else {
			cl.Close()
			clientClosed = true
		}
	}
	if ec.Order == "before" {
		release()
		time.Sleep(20 * time.Millisecond)
	} else {
		go func() {
			time.Sleep(50 * time.Millisecond)
			release()
		}()
	}
	if !bounded(action) {
		r.hang("Client." + map[bool]string{true: "Pause", false: "Close"}[ec.Action == "PAUSE"] + " with a write failing around the closing of the queue")
		return
	}
}

// errCloseScenarios: side × transport × closing action × order of error and close.
func errCloseScenarios(c *corr.Ctx) {
	for _, tr := range []string{"tcp", "udp"} {
		for _, order := range []string{"during", "before"} {
			for _, side := range []string{"server-play", "server-record"} {
				for _, act := range []string{"PAUSE", "TEARDOWN", "PLAY", "CONNCLOSE", "SERVERCLOSE"} {
					if act == "PLAY" && side == "server-record" {
						continue // RECORD while recording is not allowed by the state machine
					}
					if enough() {
						return
					}
					runErrClose(c, &ErrCloseCase{Kind: "errclose", Side: side, Transport: tr, Action: act, Order: order})
				}
			}
			for _, side := range []string{"client-play", "client-record"} {
				for _, act := range []string{"PAUSE", "CLOSE"} {
					if enough() {
						return
					}
					runErrClose(c, &ErrCloseCase{Kind: "errclose", Side: side, Transport: tr, Action: act, Order: order})
				}
			}
		}
	}
}
