package ring

import (
	"context"
	"fmt"
	"runtime"
	"sync"
	"sync/atomic"
	"time"

	"github.com/bluenviron/gortsplib/v5"
	"github.com/bluenviron/gortsplib/v5/pkg/ringbuffer"

	"verifharness/corr"
)

// PingPong is a liveness workload aimed at lost wake-ups: the consumer sits in Pull; every producer
// pushes ONE item and waits (spinning, with a watchdog) until the consumer has pulled it before it
// pushes the next one, so almost every Push races with the consumer going to sleep in cond.Wait().
// A round whose item was accepted and is not pulled within the watchdog time is a violation.
type PingPong struct {
	Kind        string `json:"kind"`      // "pingpong"
	Processor   bool   `json:"processor"` // through asyncprocessor.Processor instead of the bare ring
	Size        uint64 `json:"size"`
	Producers   int    `json:"producers"`
	Rounds      int    `json:"rounds"`       // per producer
	FailedRound int    `json:"failed_round"` // filled in when a round timed out
	FailedProd  int    `json:"failed_producer"`
}

const pingPongWatchdog = 2 * time.Second

type paddedCounter struct {
	v atomic.Int64
	_ [56]byte
}

func runPingPong(c *corr.Ctx, pp *PingPong) {
	if int(pp.Size) < pp.Producers {
		pp.Size = uint64(pp.Producers) // every producer has at most one item in flight
		for pp.Size&(pp.Size-1) != 0 {
			pp.Size++
		}
	}
	pulled := make([]paddedCounter, pp.Producers)
	var push func(p, k int) bool
	var shutdown func()
	consumerDone := make(chan struct{})
	if pp.Processor {
		proc := &gortsplib.VerifAsyncProcessor{BufferSize: int(pp.Size), OnError: func(context.Context, error) {}}
		proc.Initialize()
		proc.Start()
		push = func(p, k int) bool {
			return proc.Push(func() error {
				pulled[p].v.Store(int64(k))
				return nil
			})
		}
		shutdown = func() {
			done := make(chan struct{})
			go func() { proc.Close(); close(done) }()
			select {
			case <-done:
			case <-time.After(waitLimit):
			}
			close(consumerDone)
		}
	} else {
		r, err := ringbuffer.New(pp.Size)
		if err != nil {
			panic(err)
		}
		go func() {
			defer close(consumerDone)
			for {
				v, ok := r.Pull()
				if !ok {
					return
				}
				id := v.(int)
				pulled[id>>32].v.Store(int64(id & 0xffffffff))
			}
		}()
		push = func(p, k int) bool { return r.Push(p<<32 | k) }
		shutdown = r.Close
	}
	var failed atomic.Bool
	var mu sync.Mutex
	fail := func(p, k int, clause, key, detail string) {
		if failed.Swap(true) {
			return
		}
		mu.Lock()
		defer mu.Unlock()
		in := *pp
		in.FailedRound, in.FailedProd = k, p
		stuck()
		report(c, corr.Violation{Property: "C16", Clause: clause, Key: key, Where: "pkg/ringbuffer", Input: in, Detail: detail})
	}
	var wg sync.WaitGroup
	for p := 0; p < pp.Producers; p++ {
		wg.Add(1)
		go func(p int) {
			defer wg.Done()
			for k := 1; k <= pp.Rounds && !failed.Load(); k++ {
				if !push(p, k) {
					fail(p, k, "an item is refused only when the queue holds its capacity", "ring-refused-not-full",
						fmt.Sprintf("ping-pong: push #%d of producer %d refused although at most %d of %d items are in flight", k, p, pp.Producers-1, pp.Size))
					return
				}
				var start time.Time
				for spins := 1; pulled[p].v.Load() != int64(k); spins++ {
					if spins%32 == 0 {
						runtime.Gosched()
					}
					if spins%8192 == 0 {
						if start.IsZero() {
							start = time.Now()
						} else if time.Since(start) > pingPongWatchdog {
							fail(p, k, "a waiting consumer is always woken by a push", "ring-lost-wakeup",
								fmt.Sprintf("ping-pong: item #%d of producer %d was accepted and not pulled within %v (consumer asleep with a non-empty queue)", k, p, pingPongWatchdog))
							return
						}
						if failed.Load() {
							return
						}
					}
				}
			}
		}(p)
	}
	wg.Wait()
	shutdown()
	select {
	case <-consumerDone:
	case <-time.After(waitLimit):
		if !failed.Load() {
			fail(0, 0, "a waiting consumer is always woken by a close", "ring-lost-wakeup", "ping-pong: consumer did not exit after Close")
		}
	}
	where := "ring"
	if pp.Processor {
		where = "processor"
	}
	c.CountOnly(fmt.Sprintf("pingpong %s %d %d %d", where, pp.Size, pp.Producers, pp.Rounds), true)
	c.Dist(fmt.Sprintf("ping-pong %s producers=%d", where, pp.Producers))
	c.DistN("ping-pong rounds", pp.Producers*pp.Rounds)
}

// pingPongs runs the liveness workloads: about `total` rounds in all.
func pingPongs(c *corr.Ctx, total int) {
	plan := []struct {
		proc      bool
		size      uint64
		producers int
		share     int // per cent of the total
	}{
		{false, 1, 1, 30}, {false, 2, 1, 10}, {false, 256, 1, 10}, {false, 2, 2, 10}, {false, 4, 3, 10},
		{false, 8, 8, 10}, {true, 1, 1, 10}, {true, 8, 4, 10},
	}
	for _, pl := range plan {
		if enough() {
			return
		}
		pp := &PingPong{Kind: "pingpong", Processor: pl.proc, Size: pl.size, Producers: pl.producers,
			Rounds: total * pl.share / 100 / pl.producers}
		runPingPong(c, pp)
	}
}
