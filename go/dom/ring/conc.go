package ring

import (
	"encoding/binary"
	"fmt"
	"math/rand/v2"
	"runtime"
	"sort"
	"sync"
	"sync/atomic"
	"time"

	"github.com/anishathalye/porcupine"

	"github.com/bluenviron/gortsplib/v5/pkg/ringbuffer"

	"verifharness/corr"
)

// HOp is one completed operation of a concurrent history (black-box: invocation and response
// stamps from one atomic counter, so `Ret(a) < Call(b)` implies a really returned before b began).
type HOp struct {
	Client int    `json:"cl"`
	Kind   string `json:"k"`  // push | pull | close
	ID     int    `json:"id"` // push: item pushed; pull: item returned (0 when closed)
	OK     bool   `json:"ok"` // push: accepted; pull: an item was returned (false = closed)
	Call   int64  `json:"c"`
	Ret    int64  `json:"r"`
}

// ConcCase is the input of a concurrent case; History is filled after the run so that a failing
// history can be re-checked by `--replay`.
type ConcCase struct {
	Kind        string `json:"kind"` // "conc" | "aconc"
	Size        uint64 `json:"size"`
	Producers   int    `json:"producers"`
	PerProducer int    `json:"per_producer"`
	CloseMode   int    `json:"close_mode"` // 0 after drain, 1 at a random moment, 2 right after the producers finish
	YieldPct    int    `json:"yield_pct"`
	PostClose   int    `json:"post_close"` // pushes / pulls issued after Close returned
	FailAt      int    `json:"fail_at"`    // aconc: id of the callback that returns an error (0 = none)
	Seed        uint64 `json:"seed"`
	History     []HOp  `json:"history,omitempty"`
}

// ---- the sequential specification handed to the linearizability checker -------------------------

type qIn struct {
	kind byte // 'P' push, 'L' pull, 'C' close
	id   int
}
type qOut struct {
	ok bool
	id int
}

// state: byte 0 = closed flag, then 4 bytes per held item
func fifoModel(capacity int) porcupine.Model {
	return porcupine.Model{
		Init: func() any { return "\x00" },
		Step: func(st, in, out any) (bool, any) {
			s := st.(string)
			i, o := in.(qIn), out.(qOut)
			switch i.kind {
			case 'P':
				n := (len(s) - 1) / 4
				if n < capacity {
					if !o.ok {
						return false, s
					}
					var b [4]byte
					binary.BigEndian.PutUint32(b[:], uint32(i.id))
					return true, s + string(b[:])
				}
				return !o.ok, s
			case 'L':
				if s[0] == 1 {
					return !o.ok, s
				}
				if len(s) == 1 || !o.ok {
					return false, s // would block / spurious closed
				}
				if int(binary.BigEndian.Uint32([]byte(s[1:5]))) != o.id {
					return false, s
				}
				return true, s[:1] + s[5:]
			default: // close
				return true, "\x01"
			}
		},
	}
}

func toPorcupine(h []HOp) []porcupine.Operation {
	ops := make([]porcupine.Operation, 0, len(h))
	for _, op := range h {
		k := byte('P')
		switch op.Kind {
		case "pull":
			k = 'L'
		case "close":
			k = 'C'
		}
		in := qIn{k, 0}
		if k == 'P' {
			in.id = op.ID
		}
		ops = append(ops, porcupine.Operation{ClientId: op.Client, Input: in, Call: op.Call, Output: qOut{op.OK, op.ID}, Return: op.Ret})
	}
	return ops
}

// checkHistory evaluates the concurrent clauses of C16 on a recorded history.
//   - direct clauses (linear time): executed ⊆ accepted, at most once, per-producer order,
//     nothing pulled by a Pull that began after Close returned, no loss when drained before Close
//   - linearizability to the bounded FIFO (porcupine) when the history is small enough
func checkHistory(c *corr.Ctx, cc *ConcCase, where string, budget time.Duration) {
	h := cc.History
	v := func(clause, key, detail string) {
		report(c, corr.Violation{Property: "C16", Clause: clause, Key: key, Where: where, Input: cc, Detail: detail})
	}
	accepted := map[int]HOp{}
	refused := map[int]bool{}
	var closeRet int64 = -1
	var closeCall int64 = -1
	for _, op := range h {
		switch op.Kind {
		case "push":
			if op.OK {
				accepted[op.ID] = op
			} else {
				refused[op.ID] = true
			}
		case "close":
			if closeRet < 0 || op.Ret < closeRet {
				closeRet = op.Ret
			}
			if closeCall < 0 || op.Call < closeCall {
				closeCall = op.Call
			}
		}
	}
	pulls := make([]HOp, 0, len(h))
	for _, op := range h {
		if op.Kind == "pull" {
			pulls = append(pulls, op)
		}
	}
	sort.Slice(pulls, func(i, j int) bool { return pulls[i].Call < pulls[j].Call }) // single consumer: sequential
	seen := map[int]bool{}
	lastPer := map[int]int{}
	for _, p := range pulls {
		if !p.OK {
			if closeCall < 0 || p.Ret < closeCall {
				v("Pull reports closed only after Close", "conc-spurious-closed", fmt.Sprintf("Pull returned closed at %d before any Close began", p.Ret))
			}
			continue
		}
		if closeRet >= 0 && p.Call > closeRet {
			v("nothing is pulled / executed after Close has returned", "conc-pull-after-close",
				fmt.Sprintf("a Pull that began at %d (Close returned at %d) returned item %d", p.Call, closeRet, p.ID))
		}
		a, ok := accepted[p.ID]
		switch {
		case !ok && refused[p.ID]:
			v("a refused item is never executed", "conc-refused-executed", fmt.Sprintf("item %d was refused but pulled", p.ID))
		case !ok:
			v("only pushed items are pulled", "conc-foreign", fmt.Sprintf("item %d was never pushed", p.ID))
		case a.Call > p.Ret:
			v("an item is pulled only after it was pushed", "conc-pulled-before-push", fmt.Sprintf("item %d", p.ID))
		}
		if seen[p.ID] {
			v("each accepted item is executed at most once", "conc-duplicate", fmt.Sprintf("item %d pulled twice", p.ID))
		}
		seen[p.ID] = true
		prod, k := p.ID/1000000, p.ID%1000000
		if last, ok := lastPer[prod]; ok && k <= last {
			v("items of one producer are executed in the order they were accepted", "conc-producer-order",
				fmt.Sprintf("producer %d: item #%d pulled after #%d", prod, k, last))
		}
		lastPer[prod] = k
	}
	// no loss: an accepted item is missing only if a Close may have discarded it
	for id, a := range accepted {
		if seen[id] {
			continue
		}
		if closeCall < 0 {
			v("accepted items are executed unless Close intervened", "conc-lost", fmt.Sprintf("item %d accepted, never pulled, no Close", id))
		} else if cc.CloseMode == 0 && cc.FailAt == 0 && a.Ret < closeCall && len(cc.History) > 0 {
			v("accepted items are executed exactly once when neither Close nor an error intervened", "conc-lost",
				fmt.Sprintf("item %d was accepted (returned at %d) and the queue was drained before Close (called at %d), but it was never pulled", id, a.Ret, closeCall))
		}
	}
	// real-time order across producers: an item whose Push had returned before the Push of an
	// already-pulled item began must not be pulled after it
	{
		var maxCall int64 = -1
		maxID := 0
		for _, p := range pulls {
			a, ok := accepted[p.ID]
			if !p.OK || !ok {
				continue
			}
			if a.Ret < maxCall {
				v("items are executed in acceptance order", "conc-order",
					fmt.Sprintf("item %d (push returned at %d) was pulled after item %d (push began at %d)", p.ID, a.Ret, maxID, maxCall))
				break
			}
			if a.Call > maxCall {
				maxCall, maxID = a.Call, a.ID
			}
		}
	}
	// capacity, from interval counting (exact arguments, valid for histories of any length, applied
	// to operations that end before any Close begins):
	//   a refused Push: at most (accepted pushes begun before it returned) - (pulls returned before it
	//   began) items can have been held -> must be >= capacity;
	//   an accepted Push: at least (accepted pushes returned before it began) - (pulls begun before it
	//   returned) items were held -> must be < capacity
	{
		var maxT int64
		for _, op := range h {
			if op.Ret > maxT {
				maxT = op.Ret
			}
		}
		accCallBefore := make([]int32, maxT+2) // accepted pushes with Call < t
		accRetBefore := make([]int32, maxT+2)  // accepted pushes with Ret < t
		pullCallBefore := make([]int32, maxT+2)
		pullRetBefore := make([]int32, maxT+2)
		for _, op := range h {
			switch {
			case op.Kind == "push" && op.OK:
				accCallBefore[op.Call+1]++
				accRetBefore[op.Ret+1]++
			case op.Kind == "pull" && op.OK:
				pullCallBefore[op.Call+1]++
				pullRetBefore[op.Ret+1]++
			}
		}
		for t := int64(1); t < maxT+2; t++ {
			accCallBefore[t] += accCallBefore[t-1]
			accRetBefore[t] += accRetBefore[t-1]
			pullCallBefore[t] += pullCallBefore[t-1]
			pullRetBefore[t] += pullRetBefore[t-1]
		}
		for _, op := range h {
			if op.Kind != "push" || (closeCall >= 0 && op.Ret > closeCall) {
				continue
			}
			if !op.OK {
				upper := int(accCallBefore[op.Ret]) - int(pullRetBefore[op.Call])
				if upper < int(cc.Size) {
					v("an item is refused only when the queue holds its capacity", "conc-refused-not-full",
						fmt.Sprintf("push %d refused although at most %d of %d items can have been held", op.ID, upper, cc.Size))
					break
				}
			} else {
				lower := int(accRetBefore[op.Call]) - int(pullCallBefore[op.Ret])
				if lower >= int(cc.Size) {
					v("the queue never holds more than its capacity", "conc-over-capacity",
						fmt.Sprintf("push %d accepted although at least %d items (capacity %d) were held", op.ID, lower, cc.Size))
					break
				}
			}
		}
	}
	// linearizability
	if len(h) <= 4000 {
		res := porcupine.CheckOperationsTimeout(fifoModel(int(cc.Size)), toPorcupine(h), budget)
		switch res {
		case porcupine.Illegal:
			v("every concurrent history is linearizable to a bounded FIFO queue", "conc-not-linearizable",
				fmt.Sprintf("history of %d operations (capacity %d, %d producers) has no linearization", len(h), cc.Size, cc.Producers))
			c.Dist(where + " linearizable=no")
		case porcupine.Unknown:
			c.Dist(where + " linearizable=timeout")
		default:
			c.Dist(where + " linearizable=yes")
		}
	} else {
		c.Dist(where + " linearizability-skipped(long)")
	}
}

// recoverConc turns a panic inside a worker goroutine into a violation (the run is then abandoned by
// its time-out if other goroutines depend on the dead one).
func recoverConc(c *corr.Ctx, cc *ConcCase, wg *sync.WaitGroup, isProducer bool) {
	if e := recover(); e != nil {
		sawPanic.Store(true)
		concMu.Lock()
		report(c, corr.Violation{Property: "C16", Clause: "queue operations do not panic", Key: "conc-panic", Where: "pkg/ringbuffer", Input: cc,
			Detail: fmt.Sprintf("panic in a worker goroutine: %v", e)})
		concMu.Unlock()
	}
}

var concMu sync.Mutex

func maybeYield(r *rand.Rand, pct int) {
	if pct > 0 && r.IntN(100) < pct {
		if r.IntN(8) == 0 {
			time.Sleep(time.Duration(r.IntN(50)) * time.Microsecond)
		} else {
			runtime.Gosched()
		}
	}
}

// runConcRing: producers + one consumer + a closer on the real RingBuffer.
func runConcRing(c *corr.Ctx, cc *ConcCase, budget time.Duration) {
	r, err := ringbuffer.New(cc.Size)
	if err != nil {
		panic(err)
	}
	var clock atomic.Int64
	var mu sync.Mutex
	var hist []HOp
	rec := func(ops []HOp) {
		mu.Lock()
		hist = append(hist, ops...)
		mu.Unlock()
	}
	var acceptedN, pulledN atomic.Int64
	var prodWG, allWG sync.WaitGroup
	closeReturned := make(chan struct{})
	stuckCh := make(chan string, 16)

	for p := 0; p < cc.Producers; p++ {
		prodWG.Add(1)
		allWG.Add(1)
		go func(p int) {
			defer allWG.Done()
			defer recoverConc(c, cc, &prodWG, true)
			rng := rand.New(rand.NewPCG(cc.Seed, uint64(p+1)))
			var ops []HOp
			push := func(k int) {
				id := (p+1)*1000000 + k
				maybeYield(rng, cc.YieldPct)
				call := clock.Add(1)
				ok := r.Push(id)
				ret := clock.Add(1)
				ops = append(ops, HOp{Client: p, Kind: "push", ID: id, OK: ok, Call: call, Ret: ret})
				if ok {
					acceptedN.Add(1)
				} else {
					runtime.Gosched()
				}
			}
			for k := 1; k <= cc.PerProducer; k++ {
				push(k)
			}
			prodWG.Done()
			if cc.PostClose > 0 {
				<-closeReturned
				for k := 1; k <= cc.PostClose; k++ {
					push(cc.PerProducer + k)
				}
			}
			rec(ops)
		}(p)
	}
	// consumer
	allWG.Add(1)
	consumerDone := make(chan struct{})
	go func() {
		defer allWG.Done()
		defer close(consumerDone)
		defer recoverConc(c, cc, nil, false)
		rng := rand.New(rand.NewPCG(cc.Seed, 99))
		var ops []HOp
		extra := cc.PostClose
		for {
			maybeYield(rng, cc.YieldPct)
			call := clock.Add(1)
			v, ok := r.Pull()
			ret := clock.Add(1)
			op := HOp{Client: cc.Producers, Kind: "pull", OK: ok, Call: call, Ret: ret}
			if ok {
				op.ID, _ = v.(int) // a non-int (nil) value shows up as id 0 = "never pushed"
				pulledN.Add(1)
			}
			ops = append(ops, op)
			if !ok {
				if extra == 0 {
					break
				}
				extra--
				<-closeReturned
				time.Sleep(50 * time.Microsecond) // let post-close pushes land
			}
		}
		rec(ops)
	}()
	// closer
	allWG.Add(1)
	go func() {
		defer allWG.Done()
		rng := rand.New(rand.NewPCG(cc.Seed, 77))
		switch cc.CloseMode {
		case 0:
			prodWG.Wait()
			deadline := time.Now().Add(4 * time.Second)
			for pulledN.Load() < acceptedN.Load() {
				if time.Now().After(deadline) {
					stuckCh <- fmt.Sprintf("consumer pulled %d of %d accepted items and made no progress for 4 s", pulledN.Load(), acceptedN.Load())
					break
				}
				runtime.Gosched()
			}
		case 1:
			n := rng.IntN(cc.PerProducer*cc.Producers + 1)
			for i := 0; i < n; i++ {
				runtime.Gosched()
			}
		default:
			prodWG.Wait()
		}
		call := clock.Add(1)
		r.Close()
		ret := clock.Add(1)
		close(closeReturned)
		rec([]HOp{{Client: cc.Producers + 1, Kind: "close", Call: call, Ret: ret}})
	}()

	finished := make(chan struct{})
	go func() { allWG.Wait(); close(finished) }()
	select {
	case <-finished:
	case <-time.After(12 * time.Second):
		stuck()
		report(c, corr.Violation{Property: "C16", Clause: "a waiting consumer is always woken by a push or a close", Key: "conc-deadlock",
			Where: "pkg/ringbuffer", Input: cc, Detail: "goroutines still blocked 12 s after the run started"})
		return
	}
	select {
	case s := <-stuckCh:
		stuck()
		report(c, corr.Violation{Property: "C16", Clause: "a waiting consumer is always woken by a push", Key: "conc-lost-wakeup", Where: "pkg/ringbuffer", Input: cc, Detail: s})
	default:
	}
	sort.Slice(hist, func(i, j int) bool { return hist[i].Call < hist[j].Call })
	cc.History = hist
	checkHistory(c, cc, "ring-conc", budget)
	c.CountOnly(fmt.Sprintf("conc %d %d %d %d %d %d", cc.Size, cc.Producers, cc.PerProducer, cc.CloseMode, cc.YieldPct, cc.Seed), true)
	c.Dist(fmt.Sprintf("ring-conc producers=%d", cc.Producers))
	c.Dist(fmt.Sprintf("ring-conc closemode=%d", cc.CloseMode))
	c.DistN("ring-conc operations", len(hist))
	acc, ref := 0, 0
	for _, op := range hist {
		if op.Kind == "push" {
			if op.OK {
				acc++
			} else {
				ref++
			}
		}
	}
	c.DistN("ring-conc accepted", acc)
	c.DistN("ring-conc refused", ref)
	c.DistN("ring-conc pulled", int(pulledN.Load()))
	cc.History = nil
}

func genConc(c *corr.Ctx, kind string, small bool) *ConcCase {
	r := c.Rng
	sizes := []uint64{1, 2, 4, 8, 16, 64, 256}
	cc := &ConcCase{Kind: kind, Size: sizes[r.IntN(len(sizes))], Producers: 1 + r.IntN(8), CloseMode: r.IntN(3),
		YieldPct: []int{0, 10, 50, 90}[r.IntN(4)], Seed: r.Uint64()}
	if small {
		cc.PerProducer = 1 + r.IntN(max(1, 40/cc.Producers))
	} else {
		cc.PerProducer = 50 + r.IntN(2000)
	}
	if r.IntN(2) == 0 {
		cc.PostClose = 1 + r.IntN(int(min(cc.Size, 8))+1)
	}
	return cc
}
