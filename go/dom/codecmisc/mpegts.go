package codecmisc

import (
	"fmt"
	"math/rand/v2"

	"github.com/pion/rtp"

	"github.com/bluenviron/gortsplib/v5/pkg/format/rtpmpegts"

	"verifharness/corr"
	cu "verifharness/dom/codecutil"
)

type tsEnc struct{ e *rtpmpegts.Encoder }

func (x tsEnc) Encode(f cu.Frame) ([]*rtp.Packet, error) { return x.e.Encode(f) }

type tsDec struct{ d *rtpmpegts.Decoder }

func (x tsDec) Decode(p *rtp.Packet) (cu.Frame, error) { return x.d.Decode(p) }
func (x tsDec) State() any                             { return x.d }

func tsPacket(r *rand.Rand) []byte {
	b := lowEntropy(r, 188, []byte{0x47, 0x00, 0xff})
	b[0] = 0x47
	return b
}

// tsGroup draws 1..3·per+2 TS packets, concentrated around multiples of per (= max/188).
func tsGroup(r *rand.Rand, max int) cu.Frame {
	per := max / 188
	var n int
	switch r.IntN(3) {
	case 0:
		n = 1 + r.IntN(per)
	case 1:
		n = (1+r.IntN(3))*per - 1 + r.IntN(3)
	default:
		n = 1 + r.IntN(3*per+2)
	}
	if n < 1 {
		n = 1
	}
	f := make(cu.Frame, n)
	for i := range f {
		f[i] = tsPacket(r)
	}
	return f
}

// MpegTs is the spec of pkg/format/rtpmpegts (stateless decoder; a group that does not fit one
// packet is split into self-contained packets).
var MpegTs = &cu.Spec{
	Name:          "mpegts",
	Fragmenting:   true,
	Stateful:      false,
	GroupSplit:    true,
	MaxFrameBytes: 65536,
	RetainBound:   65536,
	PickMax: func(r *rand.Rand) int {
		switch r.IntN(6) {
		case 0:
			return 1316
		case 1:
			return 1450
		}
		return (1+r.IntN(4))*188 + r.IntN(188)
	},
	Classify: func(error) string { return "err" },
	New: func(_ *rand.Rand, p cu.EncParams) (*cu.Instance, error) {
		e := &rtpmpegts.Encoder{SSRC: &p.SSRC, InitialSequenceNumber: &p.Seq0, PayloadMaxSize: p.Max}
		if err := e.Init(); err != nil {
			return nil, err
		}
		return &cu.Instance{
			PT:  33,
			Enc: tsEnc{e},
			NewDec: func() cu.Decoder {
				d := &rtpmpegts.Decoder{}
				d.Init() //nolint:errcheck
				return tsDec{d}
			},
			GenFrame: func(r *rand.Rand) cu.Frame { return tsGroup(r, p.Max) },
		}, nil
	},
	Hostile: func(r *rand.Rand) []byte {
		n := r.IntN(4) * 188
		switch r.IntN(4) {
		case 0:
			n += r.IntN(188)
		case 1:
			n = 188
		}
		b := lowEntropy(r, n, []byte{0x47, 0x47, 0x00})
		for i := 0; i+188 <= len(b); i += 188 {
			if r.IntN(5) != 0 {
				b[i] = 0x47
			}
		}
		return b
	},
}

// tsSweep: every group size 1..3·per+2 for a few limits.
func tsSweep(c *corr.Ctx) {
	if !(c.Want("C03") || c.Want("C06")) {
		return
	}
	maxes := []int{188, 375, 376, 563, 564, 1316, 1450}
	if c.Quick() {
		maxes = []int{188, 375, 376, 1316}
	}
	for _, max := range maxes {
		per := max / 188
		var fs []cu.Frame
		for n := 1; n <= 3*per+2; n++ {
			f := make(cu.Frame, n)
			for i := range f {
				f[i] = tsPacket(c.Rng)
			}
			fs = append(fs, f)
		}
		for i := 0; i < len(fs); i += 6 {
			j := min(i+6, len(fs))
			part := fs[i:j]
			cu.RoundTrip(c, MpegTs, cu.EncParams{SSRC: 9, Seq0: uint16(65533), Max: max},
				func(*cu.Instance) []cu.Frame { return part }, fmt.Sprintf("mpegts-sweep-%d-%d", max, i))
		}
	}
}
