package codecmisc

import (
	"bytes"
	"errors"
	"fmt"
	"math/rand/v2"

	"github.com/bluenviron/mediacommon/v2/pkg/codecs/jpeg"
	"github.com/pion/rtp"

	"github.com/bluenviron/gortsplib/v5/pkg/format/rtpmjpeg"

	"verifharness/corr"
	cu "verifharness/dom/codecutil"
)

// An M-JPEG frame on the op line is the *parsed* image: unit 0 = type, width (2 bytes), height
// (2 bytes); then the quantisation tables in id order; the last unit = the bytes after the SOS
// header (entropy-coded data, with or without the end-of-image marker).  The harness builds the
// JPEG file for the real encoder from these components with mediacommon's Marshal functions.

type jpegParts struct {
	typ    uint8
	w, h   int
	tables [][]byte
	data   []byte
}

func partsOf(f cu.Frame) (jpegParts, bool) {
	if len(f) < 3 || len(f[0]) != 5 {
		return jpegParts{}, false
	}
	return jpegParts{typ: f[0][0], w: int(f[0][1])<<8 | int(f[0][2]), h: int(f[0][3])<<8 | int(f[0][4]),
		tables: f[1 : len(f)-1], data: f[len(f)-1]}, true
}

func (p jpegParts) frame() cu.Frame {
	f := cu.Frame{{p.typ, byte(p.w >> 8), byte(p.w), byte(p.h >> 8), byte(p.h)}}
	f = append(f, p.tables...)
	return append(f, p.data)
}

// buildJPEG writes the image file; variant bits choose optional segments the encoder must skip
// (APP0, COM, DHT) and whether the tables share one DQT segment.
func buildJPEG(p jpegParts, variant int) []byte {
	buf := jpeg.StartOfImage{}.Marshal(nil)
	if variant&1 != 0 {
		buf = append(buf, 0xFF, 0xE0, 0, 16, 'J', 'F', 'I', 'F', 0, 1, 1, 0, 0, 1, 0, 1, 0, 0)
	}
	if variant&2 != 0 {
		buf = append(buf, 0xFF, jpeg.MarkerComment, 0, 7, 'v', 'e', 'r', 'i', 'f')
	}
	if variant&4 != 0 || len(p.tables) == 1 {
		var dqt jpeg.DefineQuantizationTable
		for i, t := range p.tables {
			dqt.Tables = append(dqt.Tables, jpeg.QuantizationTable{ID: uint8(i), Data: t})
		}
		buf = dqt.Marshal(buf)
	} else {
		for i := len(p.tables) - 1; i >= 0; i-- { // separate segments, highest id first: the encoder sorts by id
			buf = jpeg.DefineQuantizationTable{Tables: []jpeg.QuantizationTable{{ID: uint8(i), Data: p.tables[i]}}}.Marshal(buf)
		}
	}
	buf = jpeg.StartOfFrame1{Type: p.typ, Width: p.w, Height: p.h, QuantizationTableCount: uint8(len(p.tables))}.Marshal(buf)
	if variant&8 != 0 {
		buf = jpeg.DefineHuffmanTable{Codes: make([]byte, 16), Symbols: []byte{1, 2, 3}, TableNumber: 0, TableClass: 0}.Marshal(buf)
	}
	buf = jpeg.StartOfScan{}.Marshal(buf)
	return append(buf, p.data...)
}

// parseJPEG walks the segments of an image the decoder rebuilt, using mediacommon's Unmarshal
// functions, and returns its components.
func parseJPEG(img []byte) (jpegParts, error) {
	var p jpegParts
	if len(img) < 2 || img[0] != 0xFF || img[1] != jpeg.MarkerStartOfImage {
		return p, fmt.Errorf("no SOI")
	}
	img = img[2:]
	sofSeen := false
	for {
		if len(img) < 4 || img[0] != 0xFF {
			return p, fmt.Errorf("bad segment")
		}
		m := img[1]
		l := int(img[2])<<8 | int(img[3])
		if l < 2 || 2+l > len(img) {
			return p, fmt.Errorf("bad segment length")
		}
		body := img[4 : 2+l]
		img = img[2+l:]
		switch m {
		case jpeg.MarkerDefineQuantizationTable:
			var dqt jpeg.DefineQuantizationTable
			if err := dqt.Unmarshal(body); err != nil {
				return p, err
			}
			for i, t := range dqt.Tables {
				if int(t.ID) != len(p.tables) {
					return p, fmt.Errorf("table %d has id %d", i, t.ID)
				}
				p.tables = append(p.tables, t.Data)
			}
		case jpeg.MarkerStartOfFrame1:
			var sof jpeg.StartOfFrame1
			if err := sof.Unmarshal(body); err != nil {
				return p, err
			}
			p.typ, p.w, p.h = sof.Type, sof.Width, sof.Height
			sofSeen = true
		case jpeg.MarkerDefineHuffmanTable:
		case jpeg.MarkerStartOfScan:
			if err := (jpeg.StartOfScan{}).Unmarshal(body); err != nil {
				return p, err
			}
			if !sofSeen {
				return p, fmt.Errorf("no SOF")
			}
			p.data = img
			return p, nil
		default:
			return p, fmt.Errorf("unexpected marker %x", m)
		}
	}
}

func withEOI(d []byte) []byte {
	if len(d) >= 2 && d[len(d)-2] == 0xFF && d[len(d)-1] == jpeg.MarkerEndOfImage {
		return d
	}
	return append(append([]byte{}, d...), 0xFF, jpeg.MarkerEndOfImage)
}

// mjpegEq: same type, dimensions, quantisation tables and entropy-coded data (the decoder
// appends the end-of-image marker when the data does not end with one).
func mjpegEq(in, out cu.Frame) bool {
	a, ok := partsOf(in)
	if !ok || len(out) != 1 {
		return false
	}
	b, err := parseJPEG(out[0])
	if err != nil {
		return false
	}
	if a.typ != b.typ || a.w != b.w || a.h != b.h || len(a.tables) != len(b.tables) {
		return false
	}
	for i := range a.tables {
		if !bytes.Equal(a.tables[i], b.tables[i]) {
			return false
		}
	}
	return bytes.Equal(withEOI(a.data), b.data)
}

type mjpegEnc struct {
	e *rtpmjpeg.Encoder
	r *rand.Rand
}

func (x mjpegEnc) Encode(f cu.Frame) ([]*rtp.Packet, error) {
	p, ok := partsOf(f)
	if !ok {
		return nil, fmt.Errorf("not a parsed image")
	}
	return x.e.Encode(buildJPEG(p, x.r.IntN(16)))
}

type mjpegDec struct{ d *rtpmjpeg.Decoder }

func (x mjpegDec) Decode(p *rtp.Packet) (cu.Frame, error) {
	f, err := x.d.Decode(p)
	if err != nil {
		return nil, err
	}
	return cu.Frame{f}, nil
}
func (x mjpegDec) State() any { return x.d }

// mjpegImage draws a valid image for payload limit max: type 0/1, dimensions multiples of 8 up to
// 2040, 1..2 tables (1 when two do not fit the first packet), data sizes within ±8 of what the
// first packet holds plus k further packets.
func mjpegImage(r *rand.Rand, max int) cu.Frame {
	nt := 1 + r.IntN(2)
	if max < 12+128+1 {
		nt = 1
	}
	p := jpegParts{typ: uint8(r.IntN(2)), w: 8 * (1 + r.IntN(255)), h: 8 * (1 + r.IntN(255))}
	if r.IntN(6) == 0 {
		p.w, p.h = 2040, 8
	}
	for i := 0; i < nt; i++ {
		t := randBytes(r, 64)
		p.tables = append(p.tables, t)
	}
	cap0 := max - 12 - 64*nt
	capN := max - 8
	var n int
	switch r.IntN(4) {
	case 0:
		n = 2 + r.IntN(8)
	case 1:
		n = cap0 - 8 + r.IntN(17)
	case 2:
		n = cap0 + (1+r.IntN(3))*capN - 8 + r.IntN(17)
	default:
		n = 2 + r.IntN(cap0+3*capN)
	}
	if n < 2 {
		n = 2
	}
	p.data = lowEntropy(r, n, []byte{0xFF, 0xD9, 0x00, 0xFF})
	if r.IntN(3) == 0 {
		p.data[n-2], p.data[n-1] = 0xFF, 0xD9
	}
	return p.frame()
}

const mjpegMaxData = 1<<24 + 65536

// Mjpeg is the spec of pkg/format/rtpmjpeg.
var Mjpeg = &cu.Spec{
	Name:           "mjpeg",
	Fragmenting:    true,
	MarkerLast:     true,
	MarkerOnlyLast: true,
	Stateful:       true,
	MaxFrameBytes:  mjpegMaxData + 1024,
	RetainBound:    mjpegMaxData + 128,
	FrameEq:        mjpegEq,
	PickMax: func(r *rand.Rand) int {
		switch r.IntN(8) {
		case 0:
			return 1450
		case 1, 2:
			return 77 + r.IntN(64)
		}
		return 141 + r.IntN(60)
	},
	Classify: func(err error) string {
		switch {
		case errors.Is(err, rtpmjpeg.ErrMorePacketsNeeded):
			return "more"
		case errors.Is(err, rtpmjpeg.ErrNonStartingPacketAndNoPrevious):
			return "nonstart"
		}
		return "err"
	},
	New: func(rg *rand.Rand, p cu.EncParams) (*cu.Instance, error) {
		e := &rtpmjpeg.Encoder{SSRC: &p.SSRC, InitialSequenceNumber: &p.Seq0, PayloadMaxSize: p.Max}
		if err := e.Init(); err != nil {
			return nil, err
		}
		return &cu.Instance{
			PT:  26,
			Enc: mjpegEnc{e, rg},
			NewDec: func() cu.Decoder {
				d := &rtpmjpeg.Decoder{}
				d.Init() //nolint:errcheck
				return mjpegDec{d}
			},
			GenFrame: func(r *rand.Rand) cu.Frame { return mjpegImage(r, p.Max) },
		}, nil
	},
	Hostile: func(r *rand.Rand) []byte {
		if r.IntN(8) == 0 {
			return randBytes(r, r.IntN(10))
		}
		h := make([]byte, 8)
		h[0] = byte(r.IntN(2) * r.IntN(256))
		switch r.IntN(4) { // fragment offset
		case 0, 1:
		case 2:
			h[3] = byte(r.IntN(48))
		default:
			h[1], h[2], h[3] = byte(r.IntN(256)), byte(r.IntN(256)), byte(r.IntN(256))
		}
		h[4] = byte(r.IntN(2))
		if r.IntN(8) == 0 {
			h[4] = byte(r.IntN(256))
		}
		switch r.IntN(6) { // Q
		case 0:
			h[5] = byte(r.IntN(256))
		case 1:
			h[5] = []byte{0, 1, 49, 50, 99, 100, 126, 127, 128}[r.IntN(9)]
		case 2:
			h[5] = byte(1 + r.IntN(99))
		default:
			h[5] = byte(128 + r.IntN(128))
		}
		h[6], h[7] = byte(r.IntN(256)), byte(r.IntN(256))
		if h[5] >= 128 && r.IntN(5) != 0 {
			l := []int{64, 128, 64, 128, 0, 192, 63}[r.IntN(7)]
			h = append(h, byte(r.IntN(8)/7), byte(r.IntN(8)/7), byte(l>>8), byte(l))
			n := l
			if r.IntN(5) == 0 {
				n = r.IntN(l + 1)
			}
			h = append(h, randBytes(r, n)...)
		}
		return append(h, lowEntropy(r, r.IntN(40), []byte{0xFF, 0xD9})...)
	},
}

// mjpegSweep: data sizes around the capacity of the first packet and of the following ones.
func mjpegSweep(c *corr.Ctx) {
	if !(c.Want("C03") || c.Want("C06")) {
		return
	}
	type cfg struct{ max, nt int }
	cfgs := []cfg{{77, 1}, {78, 1}, {100, 1}, {141, 2}, {142, 2}, {160, 2}, {160, 1}}
	if !c.Quick() {
		cfgs = append(cfgs, cfg{1450, 2}, cfg{1450, 1}, cfg{90, 1}, cfg{150, 2}, cfg{255, 2})
	}
	for _, cf := range cfgs {
		cap0 := cf.max - 12 - 64*cf.nt
		capN := cf.max - 8
		var fs []cu.Frame
		for k := 0; k <= 2; k++ {
			for d := -8; d <= 8; d++ {
				n := cap0 + k*capN + d
				if n < 2 {
					continue
				}
				p := jpegParts{typ: uint8(n & 1), w: 8 * (1 + n%255), h: 8 * (1 + (n/3)%255), data: randBytes(c.Rng, n)}
				for i := 0; i < cf.nt; i++ {
					p.tables = append(p.tables, randBytes(c.Rng, 64))
				}
				if d == 0 {
					p.data[n-2], p.data[n-1] = 0xFF, 0xD9
				}
				fs = append(fs, p.frame())
			}
		}
		for i := 0; i < len(fs); i += 8 {
			j := min(i+8, len(fs))
			part := fs[i:j]
			cu.RoundTrip(c, Mjpeg, cu.EncParams{SSRC: 3, Seq0: uint16(65529 + i%9), Max: cf.max},
				func(*cu.Instance) []cu.Frame { return part }, fmt.Sprintf("mjpeg-sweep-%d-%d-%d", cf.max, cf.nt, i))
		}
	}
}

// mjpegCorpus: decoder shapes worth pinning: quantisation by Q factor (tables computed by the
// decoder, including Q = 127 whose scale is negative), a marker on a 0/1-byte image, offsets that
// reach the 24-bit limit.
func mjpegCorpus(c *corr.Ctx) {
	if !c.Want("C08") {
		return
	}
	inst, _ := Mjpeg.New(c.Rng, cu.EncParams{Max: 1450})
	pk := func(seq uint16, m bool, off int, typ, q byte, body []byte) *rtp.Packet {
		pl := append([]byte{0, byte(off >> 16), byte(off >> 8), byte(off), typ, q, 10, 20}, body...)
		return &rtp.Packet{Header: rtp.Header{Version: 2, PayloadType: 26, SequenceNumber: seq, Timestamp: 9000, Marker: m, SSRC: 1}, Payload: pl}
	}
	var pkts []*rtp.Packet
	seq := uint16(0)
	for _, q := range []byte{1, 2, 10, 49, 50, 51, 75, 98, 99, 127, 100, 126, 0} {
		pkts = append(pkts, pk(seq, true, 0, 1, q, []byte{1, 2, 3, 0xFF, 0xD9}))
		seq++
	}
	pkts = append(pkts, pk(seq, true, 0, 0, 50, []byte{1}), pk(seq+1, true, 1, 0, 50, []byte{2}), pk(seq+2, true, 0, 63, 50, nil), pk(seq+3, true, 0, 64, 50, []byte{1, 2}))
	cu.HostileStream(c, Mjpeg, inst, pkts, true, "mjpeg-corpus-qfactor", "tables from the Q factor, short images")
	// consecutive single-packet images with IDENTICAL type, Q and dimensions and scan data of 1..70
	// bytes (distinct contents): a decoder that reuses anything between images of the same parameters
	// (headers, buffers) must still hand out frames that later calls leave alone (added after seeded
	// change C08-r6-2, which was first caught by the correspondence only)
	for _, q := range []byte{50, 99, 127} {
		pkts = pkts[:0]
		for i := 0; i < 24; i++ {
			n := 1 + (i*7)%70
			body := make([]byte, n)
			for j := range body {
				body[j] = byte(0x10 + i)
			}
			pkts = append(pkts, pk(uint16(100+i), true, 0, 1, q, body))
		}
		cu.HostileStream(c, Mjpeg, inst, pkts, true, fmt.Sprintf("mjpeg-same-params-tiny-q%d", q), "consecutive tiny images with identical parameters")
	}
	// fixed c91360e: header-only following fragments (offset = bytes collected, no data)
	pkts = []*rtp.Packet{pk(0, false, 0, 1, 50, []byte{0xAA})}
	for i := 1; i <= 2000; i++ {
		pkts = append(pkts, pk(uint16(i), false, 1, 1, 50, nil))
	}
	cu.HostileStream(c, Mjpeg, inst, pkts, false, "mjpeg-corpus-empty-fragments", "first packet with 1 byte + header-only following fragments")
	pkts = []*rtp.Packet{pk(0, false, 0, 1, 50, []byte{0xAA}), pk(1, false, 1, 1, 50, nil), pk(2, true, 1, 1, 50, []byte{0xBB}), pk(3, false, 0, 1, 50, nil), pk(4, true, 0, 1, 50, []byte{1, 2})}
	cu.HostileStream(c, Mjpeg, inst, pkts, true, "mjpeg-corpus-empty-small", "header-only fragments, compared with the model")
	// fragments whose offsets approach 2^24: accepted while offset = bytes collected
	big := make([]byte, 65000)
	pkts = pkts[:0]
	pkts = append(pkts, pk(0, false, 0, 0, 50, big))
	off := len(big)
	for i := 1; off < 1<<24+200000 && i < 400; i++ {
		pkts = append(pkts, pk(uint16(i), false, off&0xFFFFFF, 0, 50, big))
		off += len(big)
	}
	cu.HostileStream(c, Mjpeg, inst, pkts, false, "mjpeg-corpus-24bit", "fragments up to and beyond the 24-bit offset")
}
