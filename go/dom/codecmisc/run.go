package codecmisc

import (
	"encoding/json"
	"os"
	"path/filepath"
	"sort"

	"verifharness/corr"
	cu "verifharness/dom/codecutil"
)

// Run is the domain entry point.
func Run(c *corr.Ctx) {
	c.Rule("per codec (klv, mpeg1video, mpegts, mjpeg): corpus of recorded / repaired failures first (KLV output aliasing, KLV unbounded growth, KLV multi-item units, MPEG-1 video endless fragments and overflow resynchronisation, M-JPEG Q-factor tables and 24-bit offsets); exhaustive size sweeps around every aggregation / fragmentation threshold for small payload limits; long runs (one Encode call of > 256 packets — thorough: > 65536, M-JPEG scan data up to 2^24 — followed by two more calls); round trips of 1..3 consecutive valid frames (sizes within ±8 of k·limit, limits from the smallest workable value: klv 4, mpeg1video 5, mpegts 188, mjpeg 77; initial sequence numbers incl. wrap inside the run); fault streams (drop / duplicate / swap on 3..8 frame streams); hostile streams (random, grammar-aware, mutated, shuffled, endless fragments); non-trivial = multi-packet or multi-frame or faulted; distinct = distinct op-line sequences")
	specs := []*cu.Spec{Klv, Mpeg1Video, MpegTs, Mjpeg}
	if c.Replay != nil {
		var probe struct {
			Mode string `json:"mode"`
		}
		if json.Unmarshal(c.Replay, &probe) == nil && probe.Mode == "m1v-overflow" {
			m1vOverflowCase(c, "replay")
			return
		}
		for _, s := range specs {
			if cu.Replay(c, s, c.Replay) {
				return
			}
		}
		return
	}
	if os.Getenv("CODECMISC_ONLY") == "longruns" { // development aid: time the long runs alone
		longRuns(c)
		return
	}
	corpusFiles(c, specs)
	klvCorpus(c)
	m1vCorpus(c)
	mjpegCorpus(c)
	klvSweep(c)
	m1vSweep(c)
	tsSweep(c)
	mjpegSweep(c)
	c.Flush()
	longRuns(c)
	for _, s := range specs {
		cu.RunAll(c, s)
	}
}

func corpusDir(prop string) string {
	if d := os.Getenv("VERIF_ROOT"); d != "" {
		return filepath.Join(d, "corpus", prop)
	}
	if exe, err := os.Executable(); err == nil {
		d := filepath.Join(filepath.Dir(exe), "..", "..", "corpus", prop)
		if st, err2 := os.Stat(d); err2 == nil && st.IsDir() {
			return d
		}
	}
	return "/verif/corpus/" + prop
}

// corpusFiles runs the recorded inputs corpus/C0x/misc-*.json (replay inputs of the generic driver
// or of this package) before anything is generated; the larger recorded shapes are built in code
// (klvCorpus, m1vCorpus, mjpegCorpus).
func corpusFiles(c *corr.Ctx, specs []*cu.Spec) {
	for _, prop := range []string{"C03", "C06", "C07", "C08"} {
		if !c.Want(prop) {
			continue
		}
		files, _ := filepath.Glob(filepath.Join(corpusDir(prop), "misc-*.json"))
		sort.Strings(files)
		for _, f := range files {
			raw, err := os.ReadFile(f)
			if err != nil {
				continue
			}
			var probe struct {
				Mode string `json:"mode"`
			}
			ok := false
			if json.Unmarshal(raw, &probe) == nil && probe.Mode == "m1v-overflow" {
				m1vOverflowCase(c, "corpus-"+filepath.Base(f))
				ok = true
			}
			for _, s := range specs {
				if !ok && cu.Replay(c, s, raw) {
					ok = true
				}
			}
			if !ok {
				c.Note("corpus file not understood: " + f)
			}
			c.Dist("corpus-files")
		}
	}
}
