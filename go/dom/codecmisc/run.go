package codecmisc

import (
	"encoding/json"

	"verifharness/corr"
	cu "verifharness/dom/codecutil"
)

// Run is the domain entry point.
func Run(c *corr.Ctx) {
	c.Rule("per codec (klv, mpeg1video, mpegts, mjpeg): corpus of recorded / repaired failures first (KLV output aliasing, KLV unbounded growth, KLV multi-item units, MPEG-1 video endless fragments and overflow resynchronisation, M-JPEG Q-factor tables and 24-bit offsets); exhaustive size sweeps around every aggregation / fragmentation threshold for small payload limits; round trips of 1..3 consecutive valid frames (sizes within ±8 of k·limit, limits from the smallest workable value: klv 4, mpeg1video 5, mpegts 188, mjpeg 77; initial sequence numbers incl. wrap inside the run); fault streams (drop / duplicate / swap on 3..8 frame streams); hostile streams (random, grammar-aware, mutated, shuffled, endless fragments); non-trivial = multi-packet or multi-frame or faulted; distinct = distinct op-line sequences")
	specs := []*cu.Spec{Klv, Mpeg1Video, MpegTs, Mjpeg}
	if c.Replay != nil {
		var probe struct {
			Mode string `json:"mode"`
		}
		if json.Unmarshal(c.Replay, &probe) == nil && probe.Mode == "m1v-overflow" {
			m1vOverflowCase(c, "replay")
			return
		}
		for _, s := range specs {
			if cu.Replay(c, s, c.Replay) {
				return
			}
		}
		return
	}
	klvCorpus(c)
	m1vCorpus(c)
	mjpegCorpus(c)
	klvSweep(c)
	m1vSweep(c)
	tsSweep(c)
	mjpegSweep(c)
	c.Flush()
	for _, s := range specs {
		cu.RunAll(c, s)
	}
}
