package codecmisc

import (
	"errors"
	"fmt"
	"math/rand/v2"

	"github.com/pion/rtp"

	"github.com/bluenviron/gortsplib/v5/pkg/format/rtpklv"

	"verifharness/corr"
	cu "verifharness/dom/codecutil"
)

type klvEnc struct {
	e   *rtpklv.Encoder
	max int
}

// klvLastEarlyCut: the unit encoded last has the shape of the recorded finding
// klv-multi-item-truncated (see klvEarlyCut); read by the spec's KnownKey.
var klvLastEarlyCut bool

func (x klvEnc) Encode(f cu.Frame) ([]*rtp.Packet, error) {
	klvLastEarlyCut = klvEarlyCut(f[0], x.max)
	return x.e.Encode(f[0])
}

// klvEarlyCut classifies the shape of the recorded finding: the unit needs several packets, its
// first packet shows the complete length field of the first KLV item, and the size that item
// declares is positive and reached before the last packet.
func klvEarlyCut(u []byte, max int) bool {
	if max < 17 || len(u) <= max {
		return false
	}
	first := u[:max]
	b := first[16]
	var declared uint64
	switch {
	case b&0x80 == 0:
		declared = 17 + uint64(b)
	default:
		n := int(b & 0x7f)
		if n == 0 || n > 8 || 17+n > len(first) {
			return false
		}
		var v uint64
		for _, c := range first[17 : 17+n] {
			v = v<<8 | uint64(c)
		}
		declared = 17 + uint64(n) + v
		if v > 1<<62 {
			return false // not a positive Go int
		}
	}
	npk := (len(u) + max - 1) / max
	return declared <= uint64((npk-1)*max)
}

type klvDec struct{ d *rtpklv.Decoder }

func (x klvDec) Decode(p *rtp.Packet) (cu.Frame, error) {
	f, err := x.d.Decode(p)
	if err != nil {
		return nil, err
	}
	return cu.Frame{f}, nil
}
func (x klvDec) State() any { return x.d }

var klvPrefix = []byte{0x06, 0x0e, 0x2b, 0x34}

// berLen encodes a BER length; form 0 = shortest, 1..8 = long form with that many bytes
// (possibly non-minimal).
func berLen(n int, form int) []byte {
	if form == 0 {
		if n < 128 {
			return []byte{byte(n)}
		}
		form = 1
		for v := n >> 8; v > 0; v >>= 8 {
			form++
		}
	}
	out := []byte{0x80 | byte(form)}
	for i := form - 1; i >= 0; i-- {
		out = append(out, byte(uint64(n)>>(8*uint(i))))
	}
	return out
}

// klvItem builds one well-formed KLV item (16-byte Universal Label key, BER length, value) of
// exactly `total` bytes when total >= 17 (the smallest item); the length form is drawn at random
// among those that fit.
func klvItem(r *rand.Rand, total int) []byte {
	if total < 17 {
		total = 17
	}
	// choose a length form whose field size leaves a non-negative value length it can express
	for {
		form := 0
		if r.IntN(3) == 0 {
			form = 1 + r.IntN(8)
		}
		var lf int
		if form == 0 {
			// shortest form: field size depends on the value length; solve by trial
			for lf = 1; lf <= 9; lf++ {
				v := total - 16 - lf
				if v >= 0 && len(berLen(v, 0)) == lf {
					break
				}
			}
			if lf > 9 {
				continue
			}
		} else {
			lf = 1 + form
		}
		v := total - 16 - lf
		if v < 0 {
			continue
		}
		if form > 0 && form < 8 && v >= 1<<(8*uint(form)) {
			continue
		}
		key := append(append([]byte{}, klvPrefix...), randBytes(r, 12)...)
		var val []byte
		if r.IntN(4) == 0 {
			// values full of label prefixes: fragments of them look like unit starts
			val = make([]byte, v)
			for i := range val {
				val[i] = klvPrefix[i%4]
			}
		} else {
			val = lowEntropy(r, v, []byte{0x06, 0x0e, 0x2b, 0x34, 0x00, 0x81})
		}
		out := append(key, berLen(v, form)...)
		return append(out, val...)
	}
}

// klvUnit draws a valid KLV unit for payload limit max on which the decoder's early return (size
// declared by the first item reached before the last packet) cannot trigger: one item of any size,
// or several items that fit one packet together.
func klvUnit(r *rand.Rand, max int) []byte {
	if max >= 34 && r.IntN(5) == 0 {
		// several items in one packet
		var u []byte
		for len(u)+17 <= max && (len(u) == 0 || r.IntN(3) != 0) {
			room := max - len(u)
			u = append(u, klvItem(r, 17+r.IntN(room-16))...)
		}
		if len(u) <= max {
			return u
		}
	}
	return klvItem(r, sizesAround(r, max, 0, 17))
}

// klvMultiItem draws a unit of 2..3 items whose first item ends before the last packet begins
// (the shape of the recorded finding klv-multi-item-truncated).
func klvMultiItem(r *rand.Rand, max int) []byte {
	for {
		first := klvItem(r, 17+r.IntN(2*max+8))
		u := append([]byte{}, first...)
		for k := 1 + r.IntN(2); k > 0; k-- {
			u = append(u, klvItem(r, 17+r.IntN(2*max+8))...)
		}
		npk := (len(u) + max - 1) / max
		if npk >= 2 && max >= 17 && len(first) <= (npk-1)*max {
			return u
		}
		if max < 17 {
			return u // the first packet cannot hold a length field: no early return, round trip holds
		}
	}
}

func klvClassify(err error) string {
	switch {
	case errors.Is(err, rtpklv.ErrMorePacketsNeeded):
		return "more"
	case errors.Is(err, rtpklv.ErrNonStartingPacketAndNoPrevious):
		return "nonstart"
	}
	return "err"
}

func klvNew(gen func(r *rand.Rand, max int) []byte) func(r *rand.Rand, p cu.EncParams) (*cu.Instance, error) {
	return func(_ *rand.Rand, p cu.EncParams) (*cu.Instance, error) {
		e := &rtpklv.Encoder{PayloadType: p.PT, SSRC: &p.SSRC, InitialSequenceNumber: &p.Seq0, PayloadMaxSize: p.Max}
		if err := e.Init(); err != nil {
			return nil, err
		}
		return &cu.Instance{
			PT:  p.PT,
			Enc: klvEnc{e, p.Max},
			NewDec: func() cu.Decoder {
				d := &rtpklv.Decoder{}
				d.Init() //nolint:errcheck
				return klvDec{d}
			},
			GenFrame: func(r *rand.Rand) cu.Frame { return cu.Frame{gen(r, p.Max)} },
		}, nil
	}
}

// klvBound: there is no documented maximum KLV unit size; the retained-bytes clause is evaluated
// against a generous 16 MiB + one packet so that only genuinely unbounded growth is reported.
const klvBound = 16<<20 + 65536

// Klv is the spec of pkg/format/rtpklv.
var Klv = &cu.Spec{
	Name:           "klv",
	Fragmenting:    true,
	MarkerLast:     true,
	MarkerOnlyLast: true,
	Stateful:       true,
	MaxFrameBytes:  klvBound,
	RetainBound:    klvBound,
	PickMax: func(r *rand.Rand) int {
		switch r.IntN(8) {
		case 0:
			return 1450
		case 1:
			return 4 + r.IntN(13) // first packet too short for a length field (below 4 it cannot even hold the label prefix)
		}
		return 17 + r.IntN(44)
	},
	Classify: klvClassify,
	New:      klvNew(klvUnit),
	// a round-trip failure on a unit of the recorded shape is the recorded finding; any other
	// failure keeps its generic key
	KnownKey: func(clause, _ string) string {
		if !klvLastEarlyCut {
			return ""
		}
		switch clause {
		case "decoding the encoder's packets returns the original frame", "'more packets needed' before the completing packet":
			return "multi-item-truncated"
		}
		return ""
	},
	Hostile: func(r *rand.Rand) []byte {
		// unit starts with hostile length fields, and continuation-looking payloads
		switch r.IntN(5) {
		case 0:
			return randBytes(r, r.IntN(30))
		case 1:
			return append(append([]byte{}, klvPrefix...), randBytes(r, r.IntN(14))...) // shorter than 17
		}
		p := append(append([]byte{}, klvPrefix...), randBytes(r, 12)...)
		switch r.IntN(5) {
		case 0:
			p = append(p, byte(r.IntN(128)))
		case 1:
			p = append(p, 0x80|byte(r.IntN(12))) // 0, 9..11 are invalid counts
			p = append(p, randBytes(r, r.IntN(10))...)
		case 2:
			p = append(p, 0x88, 0xff, 0xff, 0xff, 0xff, 0xff, 0xff, 0xff, byte(0xd0+r.IntN(48))) // wraps int
		case 3:
			p = append(p, 0x88, 0x7f, 0xff, 0xff, 0xff, 0xff, 0xff, 0xff, byte(0xd0+r.IntN(48)))
		default:
			p = append(p, berLen(r.IntN(60), r.IntN(9))...)
		}
		return append(p, randBytes(r, r.IntN(40))...)
	},
}

// klvMulti is Klv with a generator of units of the recorded finding's shape (Klv.KnownKey
// recognises the shape from the unit itself).
var klvMulti = func() *cu.Spec {
	s := *Klv
	s.New = klvNew(klvMultiItem)
	return &s
}()

// klvCorpus: the recorded failures, run first.
func klvCorpus(c *corr.Ctx) {
	mkUnit := func(b byte, n int) []byte {
		u := append(append([]byte{}, klvPrefix...), 1, 1, 1, 1, 2, 2, 2, 2, 3, 3, 3, 3, byte(n))
		for i := 0; i < n; i++ {
			u = append(u, b)
		}
		return u
	}
	inst, _ := Klv.New(c.Rng, cu.EncParams{PT: 96, Max: 1450})
	if c.Want("C08") {
		// fixed 2611774: two single-packet units; the first result must survive the second call
		pk := func(seq uint16, ts uint32, m bool, pl []byte) *rtp.Packet {
			return &rtp.Packet{Header: rtp.Header{Version: 2, PayloadType: 96, SequenceNumber: seq, Timestamp: ts, Marker: m, SSRC: 1}, Payload: pl}
		}
		cu.HostileStream(c, Klv, inst, []*rtp.Packet{
			pk(1, 100, true, mkUnit('A', 8)), pk(2, 200, true, mkUnit('B', 8)), pk(3, 300, true, mkUnit('C', 40)),
		}, true, "klv-corpus-output-altered", "two single-packet units: the first result was overwritten by the second (fixed)")
		// same through the early-return path (declared size reached, no marker)
		cu.HostileStream(c, Klv, inst, []*rtp.Packet{
			pk(1, 100, false, mkUnit('A', 8)), pk(2, 200, false, mkUnit('B', 8)), pk(3, 300, false, mkUnit('C', 8)),
		}, true, "klv-corpus-output-altered-early", "units completed by their declared size, no marker")
		// finding klv-unbounded: start packet too short for a length field, then same-timestamp
		// continuation packets without marker
		var grow []*rtp.Packet
		grow = append(grow, pk(0, 5, false, append(append([]byte{}, klvPrefix...), 1, 1, 1, 1)))
		big := make([]byte, 60000)
		for i := 1; i <= 300; i++ {
			grow = append(grow, pk(uint16(i), 5, false, big))
		}
		cu.HostileStream(c, Klv, inst, grow, false, "klv-corpus-unbounded", "8-byte unit start + 300 x 60000-byte continuation packets, same timestamp, no marker")
		// a huge declared size has the same effect
		grow = grow[:0]
		grow = append(grow, pk(0, 5, false, append(mkUnit(0, 0)[:16], 0x84, 0x7f, 0xff, 0xff, 0xff)))
		for i := 1; i <= 300; i++ {
			grow = append(grow, pk(uint16(i), 5, false, big))
		}
		cu.HostileStream(c, Klv, inst, grow, false, "klv-corpus-unbounded-declared", "declared size 2 GiB + 300 x 60000-byte continuation packets")
	}
	if c.Want("C03") {
		// finding klv-multi-item-truncated: two 30-byte items at payload limit 20
		unit := append(mkUnit(7, 13), mkUnit(9, 13)...)
		cu.RoundTrip(c, klvMulti, cu.EncParams{PT: 96, SSRC: 1, Seq0: 10, Max: 20}, func(*cu.Instance) []cu.Frame { return []cu.Frame{{unit}} }, "klv-corpus-multi-item")
		for i := 0; i < c.N(20, 2000); i++ {
			max := 17 + c.Rng.IntN(44)
			cu.RoundTrip(c, klvMulti, cu.EncParams{PT: 96, SSRC: c.Rng.Uint32(), Seq0: uint16(c.Rng.IntN(65536)), Max: max},
				func(inst *cu.Instance) []cu.Frame { return []cu.Frame{inst.GenFrame(c.Rng)} }, fmt.Sprintf("klv-multi-item-%d", i))
		}
	}
}

// klvSweep: every single-item unit size 17..3·max+8 for small limits, and the sizes within ±8 of
// k·max for the larger ones.
func klvSweep(c *corr.Ctx) {
	if !(c.Want("C03") || c.Want("C06")) {
		return
	}
	maxes := []int{4, 5, 16, 17, 18, 19, 20, 33, 200}
	if !c.Quick() {
		for m := 6; m <= 64; m++ {
			maxes = append(maxes, m)
		}
		maxes = append(maxes, 1450)
	}
	for _, max := range maxes {
		var sizes []int
		if max <= 64 && !c.Quick() || max <= 20 {
			for n := 17; n <= 3*max+8 || n <= 40; n++ {
				sizes = append(sizes, n)
			}
		} else {
			for k := 1; k <= 3; k++ {
				for d := -8; d <= 8; d++ {
					if n := k*max + d; n >= 17 {
						sizes = append(sizes, n)
					}
				}
			}
		}
		var fs []cu.Frame
		for _, n := range sizes {
			fs = append(fs, cu.Frame{klvItem(c.Rng, n)})
		}
		// several frames per encoder/decoder pair, in chunks of 12
		for i := 0; i < len(fs); i += 12 {
			j := min(i+12, len(fs))
			part := fs[i:j]
			cu.RoundTrip(c, Klv, cu.EncParams{PT: 96, SSRC: 7, Seq0: uint16(65530 + (i % 7)), Max: max},
				func(*cu.Instance) []cu.Frame { return part }, fmt.Sprintf("klv-sweep-%d-%d", max, i))
		}
	}
}
