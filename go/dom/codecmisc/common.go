// Package codecmisc: correspondence specs of the KLV, MPEG-1/2 video, MPEG-TS and M-JPEG payload
// formats (pkg/format/rtpklv, rtpmpeg1video, rtpmpegts, rtpmjpeg) for the shared codec driver.
package codecmisc

import (
	"math/rand/v2"
)

// sizesAround draws a byte length concentrated within ±8 of k·unit + off for k = 1..3, otherwise
// small or uniformly up to 3·unit.
func sizesAround(r *rand.Rand, unit, off, lo int) int {
	if unit < 1 {
		unit = 1
	}
	n := 0
	switch r.IntN(5) {
	case 0:
		n = lo + r.IntN(unit)
	case 1, 2:
		k := 1 + r.IntN(3)
		n = k*unit + off - 8 + r.IntN(17)
	case 3:
		n = lo + r.IntN(3*unit+1)
	default:
		n = lo + r.IntN(8)
	}
	if n < lo {
		n = lo
	}
	return n
}

func randBytes(r *rand.Rand, n int) []byte {
	b := make([]byte, n)
	for i := range b {
		b[i] = byte(r.IntN(256))
	}
	return b
}

// lowEntropy draws bytes from a small alphabet so that byte patterns the decoders look for
// (start codes, label prefixes, end-of-image markers) appear by accident.
func lowEntropy(r *rand.Rand, n int, alphabet []byte) []byte {
	b := make([]byte, n)
	for i := range b {
		if r.IntN(4) == 0 {
			b[i] = byte(r.IntN(256))
		} else {
			b[i] = alphabet[r.IntN(len(alphabet))]
		}
	}
	return b
}
