package codecmisc

import (
	"bytes"
	"errors"
	"fmt"
	"math/rand/v2"

	"github.com/pion/rtp"

	"github.com/bluenviron/gortsplib/v5/pkg/format/rtpmpeg1video"

	"verifharness/corr"
	cu "verifharness/dom/codecutil"
)

type m1vEnc struct{ e *rtpmpeg1video.Encoder }

func (x m1vEnc) Encode(f cu.Frame) ([]*rtp.Packet, error) { return x.e.Encode(f[0]) }

type m1vDec struct{ d *rtpmpeg1video.Decoder }

func (x m1vDec) Decode(p *rtp.Packet) (cu.Frame, error) {
	f, err := x.d.Decode(p)
	if err != nil {
		return nil, err
	}
	return cu.Frame{f}, nil
}
func (x m1vDec) State() any { return x.d }

const m1vMaxFrame = 1 << 20

// m1vValid is the ValidFrame predicate of the MPEG-1/2 video packetiser (the documented
// precondition of Encode): the frame splits — at every `00 00 01` found from the 5th byte of a
// slice on — into slices of at least 4 bytes, picture slices (4th byte 0) have at least 6, and
// the frame is at most 1 MiB.
func m1vValid(frame []byte) bool {
	if len(frame) > m1vMaxFrame {
		return false
	}
	for {
		if len(frame) < 4 {
			return false
		}
		var slice []byte
		end := bytes.Index(frame[4:], []byte{0, 0, 1})
		if end >= 0 {
			slice, frame = frame[:end+4], frame[end+4:]
		} else {
			slice, frame = frame, nil
		}
		if slice[3] == 0 && len(slice) < 6 {
			return false
		}
		if frame == nil {
			return true
		}
	}
}

// m1vSlice builds one slice: start code, start code value, body.
func m1vSlice(r *rand.Rand, code byte, n int, accidental bool) []byte {
	if n < 4 {
		n = 4
	}
	if code == 0 && n < 6 {
		n = 6
	}
	s := []byte{0, 0, 1, code}
	var body []byte
	if accidental {
		body = lowEntropy(r, n-4, []byte{0, 0, 0, 1, 0xB8}) // accidental start codes
	} else {
		body = randBytes(r, n-4)
		for i := 0; i+2 < len(body); i++ { // no start code inside
			if body[i] == 0 && body[i+1] == 0 && body[i+2] == 1 {
				body[i+2] = 2
			}
		}
		if len(body) > 0 && body[len(body)-1] == 0 { // nor across the boundary
			body[len(body)-1] = 0x80
		}
	}
	return append(s, body...)
}

// m1vFrame draws a valid frame: [sequence header] [GOP header] picture header, 1..k slices; slice
// sizes concentrate around the aggregation limit (max-4) and its multiples.
func m1vFrame(r *rand.Rand, max int) []byte {
	for {
		var f []byte
		acc := r.IntN(6) == 0
		if r.IntN(4) == 0 {
			f = append(f, m1vSlice(r, 0xB3, 4+r.IntN(12), acc)...)
		}
		if r.IntN(3) == 0 {
			f = append(f, m1vSlice(r, 0xB8, 4+r.IntN(6), acc)...)
		}
		if r.IntN(8) != 0 {
			f = append(f, m1vSlice(r, 0x00, 6+r.IntN(4), acc)...)
		}
		k := 1 + r.IntN(4)
		for i := 0; i < k; i++ {
			var n int
			switch r.IntN(3) {
			case 0:
				n = sizesAround(r, max-4, 0, 4) // alone: aggregated / exactly fits / fragmented
			case 1:
				n = 4 + r.IntN(max) // several of these aggregate
			default:
				n = sizesAround(r, (max-4+1)/2, 0, 4)
			}
			f = append(f, m1vSlice(r, byte(1+r.IntN(0xAF)), n, acc)...)
		}
		if r.IntN(10) == 0 && len(f) > 6 {
			f = f[3:] // the packetiser does not require the first slice to begin with a start code
		}
		if m1vValid(f) {
			return f
		}
	}
}

// Mpeg1Video is the spec of pkg/format/rtpmpeg1video.
var Mpeg1Video = &cu.Spec{
	Name:           "mpeg1video",
	Fragmenting:    true,
	MarkerLast:     true,
	MarkerOnlyLast: true,
	Stateful:       true,
	MaxFrameBytes:  m1vMaxFrame,
	RetainBound:    m1vMaxFrame + 65536,
	PickMax: func(r *rand.Rand) int {
		switch r.IntN(8) {
		case 0:
			return 1450
		case 1:
			return 5 + r.IntN(4)
		}
		return 9 + r.IntN(52)
	},
	Classify: func(err error) string {
		switch {
		case errors.Is(err, rtpmpeg1video.ErrMorePacketsNeeded):
			return "more"
		case errors.Is(err, rtpmpeg1video.ErrNonStartingPacketAndNoPrevious):
			return "nonstart"
		}
		return "err"
	},
	New: func(_ *rand.Rand, p cu.EncParams) (*cu.Instance, error) {
		e := &rtpmpeg1video.Encoder{SSRC: &p.SSRC, InitialSequenceNumber: &p.Seq0, PayloadMaxSize: p.Max}
		if err := e.Init(); err != nil {
			return nil, err
		}
		return &cu.Instance{
			PT:  32,
			Enc: m1vEnc{e},
			NewDec: func() cu.Decoder {
				d := &rtpmpeg1video.Decoder{}
				d.Init() //nolint:errcheck
				return m1vDec{d}
			},
			GenFrame: func(r *rand.Rand) cu.Frame { return cu.Frame{m1vFrame(r, p.Max)} },
		}, nil
	},
	Hostile: func(r *rand.Rand) []byte {
		if r.IntN(6) == 0 {
			return randBytes(r, r.IntN(6))
		}
		h := []byte{byte(r.IntN(4)), byte(r.IntN(256)), byte(r.IntN(4)<<3 | r.IntN(8)), 0}
		switch r.IntN(8) {
		case 0:
			h[0] |= byte(1 << (2 + r.IntN(6))) // MBZ / T
		case 1:
			h[2] |= byte(0x40 << r.IntN(2)) // N / AN
		case 2:
			h[2] |= 1 << 5 // begin of sequence
		}
		n := r.IntN(30)
		if r.IntN(4) == 0 {
			n = 0
		}
		return append(h, lowEntropy(r, n, []byte{0, 0, 1, 0xB8})...)
	},
}

func m1vPkt(seq uint16, marker bool, b, e byte, body []byte) *rtp.Packet {
	pl := append([]byte{0, 0, b<<4 | e<<3, 0}, body...)
	return &rtp.Packet{Header: rtp.Header{Version: 2, PayloadType: 32, SequenceNumber: seq, Timestamp: 9000, Marker: marker, SSRC: 1}, Payload: pl}
}

// m1vCorpus: the recorded failure shapes (repaired in f36684c / e33085a / 85f0949), run first.
func m1vCorpus(c *corr.Ctx) {
	if !c.Want("C08") && !c.Want("C07") {
		return
	}
	inst, _ := Mpeg1Video.New(c.Rng, cu.EncParams{Max: 1450})
	body := make([]byte, 1400)
	if c.Want("C08") {
		// start + endless middle fragments with consecutive sequence numbers
		n := c.N(3000, 200000)
		pkts := []*rtp.Packet{m1vPkt(0, false, 1, 0, body)}
		for i := 1; i <= n; i++ {
			pkts = append(pkts, m1vPkt(uint16(i), false, 0, 0, body))
		}
		cu.HostileStream(c, Mpeg1Video, inst, pkts, false, "mpeg1video-corpus-unbounded", "start + endless middle fragments")
		// slices up to the limit, then fragments up to the limit, then complete slices again
		pkts = pkts[:0]
		seq := uint16(0)
		big := make([]byte, 60000)
		for i := 0; i < 17; i++ {
			pkts = append(pkts, m1vPkt(seq, false, 1, 1, big))
			seq++
		}
		pkts = append(pkts, m1vPkt(seq, false, 1, 0, big))
		seq++
		for i := 0; i < 20; i++ {
			pkts = append(pkts, m1vPkt(seq, false, 0, 0, big))
			seq++
		}
		for i := 0; i < 20; i++ {
			pkts = append(pkts, m1vPkt(seq, false, 1, 1, big))
			seq++
		}
		cu.HostileStream(c, Mpeg1Video, inst, pkts, false, "mpeg1video-corpus-side-by-side", "full slice buffer next to a growing fragment list")
		// fixed 07ef6d1: header-only packets (4-byte payload) as following fragments / complete slices
		pkts = []*rtp.Packet{m1vPkt(0, false, 1, 0, []byte{9})}
		for i := 1; i <= 2000; i++ {
			pkts = append(pkts, m1vPkt(uint16(i), false, 0, 0, nil))
		}
		cu.HostileStream(c, Mpeg1Video, inst, pkts, false, "mpeg1video-corpus-empty-fragments", "start fragment + header-only middle fragments")
		pkts = pkts[:0]
		for i := 0; i < 2000; i++ {
			pkts = append(pkts, m1vPkt(uint16(i), false, 1, 1, nil))
		}
		cu.HostileStream(c, Mpeg1Video, inst, pkts, false, "mpeg1video-corpus-empty-slices", "header-only complete-slice packets without marker")
		pkts = []*rtp.Packet{m1vPkt(0, false, 1, 0, []byte{9}), m1vPkt(1, false, 0, 0, nil), m1vPkt(2, false, 0, 0, []byte{8}), m1vPkt(3, false, 1, 1, nil),
			m1vPkt(4, false, 1, 0, nil), m1vPkt(5, false, 0, 1, nil), m1vPkt(6, true, 1, 1, []byte{0, 0, 1, 7})}
		cu.HostileStream(c, Mpeg1Video, inst, pkts, true, "mpeg1video-corpus-empty-small", "header-only packets in every position")
		// the same shapes, small, compared with the model step by step
		small := make([]byte, 40)
		pkts = []*rtp.Packet{m1vPkt(5, false, 1, 1, small), m1vPkt(6, false, 1, 0, small), m1vPkt(7, false, 0, 0, small),
			m1vPkt(8, false, 1, 1, small), m1vPkt(8, false, 0, 0, small), m1vPkt(9, true, 0, 1, small), m1vPkt(10, true, 1, 1, append([]byte{0, 0, 1, 1}, small...))}
		cu.HostileStream(c, Mpeg1Video, inst, pkts, true, "mpeg1video-corpus-small", "complete slice amid fragments")
	}
	if c.Want("C07") {
		// two frames above half the maximum: the first loses its marker packet, the second is
		// intact and overflows while its last slice is being collected; the third must come back intact
		m1vOverflowCase(c, "mpeg1video-corpus-overflow-resync")
	}
}

// m1vOverflowCase feeds three frames (600 KiB, 600 KiB, small) through the real encoder, drops the
// last packet of the first (so that its 600 KiB slice stays buffered: the second frame then exceeds the
// maximum while its big slice is being collected) and checks C07 on the third (its predecessor arrives
// intact).  The model
// is not consulted (megabytes of hex); the property oracle is.
func m1vOverflowCase(c *corr.Ctx, name string) {
	ssrc, seq0 := uint32(1), uint16(65000)
	e := &rtpmpeg1video.Encoder{SSRC: &ssrc, InitialSequenceNumber: &seq0, PayloadMaxSize: 1450}
	e.Init() //nolint:errcheck
	d := &rtpmpeg1video.Decoder{}
	d.Init() //nolint:errcheck
	// picture header, one 600 KiB slice, optionally one small slice (sent alone in the last packet)
	bigFrame := func(b byte, tail bool) []byte {
		f := []byte{0, 0, 1, 0, 0x12, 0x08}
		f = append(f, 0, 0, 1, 1)
		for i := 0; i < 600*1024; i++ {
			f = append(f, b)
		}
		if tail {
			f = append(f, 0, 0, 1, 2)
			for i := 0; i < 1440; i++ {
				f = append(f, b)
			}
		}
		return f
	}
	// f0's last packet (the small slice, with the marker) is dropped: its 600 KiB slice stays buffered;
	// f1 ends with its 600 KiB slice, whose end fragment carries the marker
	f0, f1 := bigFrame(0x11, true), bigFrame(0x22, false)
	f2 := append([]byte{0, 0, 1, 0, 0x12, 0x08, 0, 0, 1, 1}, bytes.Repeat([]byte{0x33}, 3000)...)
	var got []byte
	ts := uint32(1000)
	for fi, f := range [][]byte{f0, f1, f2} {
		pkts, err := e.Encode(f)
		if err != nil {
			c.Violate(corr.Violation{Property: "C03", Clause: "encoder accepts every valid frame", Key: "mpeg1video-enc-error", Where: "pkg/format/rtpmpeg1video", Input: map[string]any{"mode": "m1v-overflow"}, Detail: err.Error()})
			return
		}
		if fi == 0 {
			pkts = pkts[:len(pkts)-1]
		}
		for _, p := range pkts {
			p.Timestamp = ts
			out, err := d.Decode(p)
			if err == nil && fi == 2 {
				got = out
			}
		}
		ts += 3000
	}
	c.CountOnly(name, true)
	if !bytes.Equal(got, f2) {
		c.Violate(corr.Violation{Property: "C07", Clause: "a frame whose packets (and whose predecessor's packets) all arrive in order is returned intact exactly once, no later than the first packet of the following frame",
			Key: "mpeg1video-resync", Where: "pkg/format/rtpmpeg1video", Input: map[string]any{"mode": "m1v-overflow"},
			Detail: fmt.Sprintf("third frame (%d bytes) after two 600 KiB frames, the first without its last packet: decoder returned %d bytes", len(f2), len(got))})
	}
	if r := cu.Retained(d); r != 0 {
		c.Violate(corr.Violation{Property: "C07", Clause: "a decoder never remains desynchronised", Key: "mpeg1video-resync", Where: "pkg/format/rtpmpeg1video", Input: map[string]any{"mode": "m1v-overflow"},
			Detail: fmt.Sprintf("%d bytes still buffered after an intact frame", r)})
	}
}

// m1vSweep: single-slice frames of every size around the limit, and two-slice frames around it.
func m1vSweep(c *corr.Ctx) {
	if !(c.Want("C03") || c.Want("C06")) {
		return
	}
	maxes := []int{5, 6, 9, 12, 30}
	if !c.Quick() {
		for m := 7; m <= 48; m++ {
			maxes = append(maxes, m)
		}
		maxes = append(maxes, 1450)
	}
	for _, max := range maxes {
		var fs []cu.Frame
		avail := max - 4
		for k := 1; k <= 3; k++ {
			for d := -8; d <= 8; d++ {
				n := k*avail + d
				if n >= 4 {
					fs = append(fs, cu.Frame{m1vSlice(c.Rng, 0x01, n, false)})
				}
			}
		}
		// pairs of slices whose total is around the aggregation limit
		for a := 4; a <= avail+2 && a <= 40; a++ {
			for d := -2; d <= 2; d++ {
				b := avail - a + d
				if b >= 4 {
					f := append(m1vSlice(c.Rng, 0x01, a, false), m1vSlice(c.Rng, 0x02, b, false)...)
					if m1vValid(f) {
						fs = append(fs, cu.Frame{f})
					}
				}
			}
		}
		for i := 0; i < len(fs); i += 10 {
			j := min(i+10, len(fs))
			part := fs[i:j]
			cu.RoundTrip(c, Mpeg1Video, cu.EncParams{SSRC: 7, Seq0: uint16(65531 + (i % 5)), Max: max},
				func(*cu.Instance) []cu.Frame { return part }, fmt.Sprintf("mpeg1video-sweep-%d-%d", max, i))
		}
	}
}
