package codecmisc

import (
	"fmt"

	"verifharness/corr"
	cu "verifharness/dom/codecutil"
)

// longRuns: one Encode call that yields more than 256 (thorough tier: also more than 65536)
// packets, followed by two further calls through the same encoder / decoder pair: counters narrower
// than the 16-bit sequence number must not leak into the numbering (the generic C06 clause tracks
// the expected sequence number across the frames of a case), and the C03 round trip must hold for
// the long unit and for what follows it.  Smallest workable payload limits.
func longRuns(c *corr.Ctx) {
	if !(c.Want("C03") || c.Want("C06")) {
		return
	}
	rg := c.Rng
	pick := func(i int) (n int, huge bool) {
		if !c.Quick() && i == 0 { // one per codec: the models' list appends make these quadratic
			return 65537 + rg.IntN(300), true
		}
		return 257 + rg.IntN(600), false
	}
	params := func(max int) cu.EncParams {
		return cu.EncParams{PT: 96, SSRC: rg.Uint32(), Seq0: uint16(rg.IntN(65536)), Max: max}
	}
	// KLV: one item of n·max bytes (minus a few) at limits 4..6
	for i := 0; i < c.N(2, 24); i++ {
		n, _ := pick(i)
		max := 4 + rg.IntN(3)
		cu.RoundTrip(c, Klv, params(max), func(*cu.Instance) []cu.Frame {
			return []cu.Frame{{klvItem(rg, n*max-rg.IntN(max))}, {klvItem(rg, 17+rg.IntN(3*max))}, {klvItem(rg, 300*max)}}
		}, fmt.Sprintf("klv-longrun-%d", i))
	}
	c.Flush()
	// MPEG-1 video: (a) one slice fragmented into n packets at limits 5..7 (1..3 data bytes per
	// packet), (b) n four-byte slices at limit 8..11, each alone in an aggregated packet
	for i := 0; i < c.N(2, 24); i++ {
		n, _ := pick(i)
		var first []byte
		var max int
		if i%2 == 0 {
			max = 5 + rg.IntN(3)
			first = m1vSlice(rg, 0x01, n*(max-4)-rg.IntN(max-4), false)
		} else {
			max = 8 + rg.IntN(4)
			for k := 0; k < n; k++ {
				first = append(first, 0, 0, 1, byte(1+k%0xAF))
			}
		}
		if !m1vValid(first) {
			continue
		}
		cu.RoundTrip(c, Mpeg1Video, params(max), func(inst *cu.Instance) []cu.Frame {
			return []cu.Frame{{first}, inst.GenFrame(rg), {m1vSlice(rg, 0x02, 300*(max-4), false)}}
		}, fmt.Sprintf("mpeg1video-longrun-%d", i))
	}
	c.Flush()
	// MPEG-TS: n TS packets at limits 188..375 (one TS packet per RTP packet); more than 65536 TS
	// packets would be 12 MiB per operation line and are left out
	for i := 0; i < c.N(1, 6); i++ {
		n := 257 + rg.IntN(200)
		max := 188 + rg.IntN(188)
		grp := func(k int) cu.Frame {
			f := make(cu.Frame, k)
			for j := range f {
				f[j] = tsPacket(rg)
			}
			return f
		}
		cu.RoundTrip(c, MpegTs, params(max), func(*cu.Instance) []cu.Frame {
			return []cu.Frame{grp(n), grp(1 + rg.IntN(3)), grp(300)}
		}, fmt.Sprintf("mpegts-longrun-%d", i))
		c.Flush()
	}
	// M-JPEG: large scan data at the smallest limits (77 with one table: 1 data byte in the first
	// packet, 69 in the others): more than 256 packets; fragment offsets crossing 65535; thorough
	// tier: more than 65536 packets, and scan data approaching the 2^24 offset limit at limit 1450
	img := func(n, nt int) cu.Frame {
		p := jpegParts{typ: uint8(n & 1), w: 8 * (1 + n%255), h: 8 * (1 + (n/7)%255), data: randBytes(rg, n)}
		for k := 0; k < nt; k++ {
			p.tables = append(p.tables, randBytes(rg, 64))
		}
		return p.frame()
	}
	type lr struct{ max, nt, n int }
	runs := []lr{{77 + rg.IntN(3), 1, 1 + 69*(260+rg.IntN(300))}, {141 + rg.IntN(3), 2, 65536 + rg.IntN(3000)}}
	if !c.Quick() {
		// the model's `retained` walks every buffered byte after every packet, so a compared case
		// costs bytes x packets: 4 MiB at limit 1450 (offsets up to 2^22) is what fits the budget
		runs = append(runs, lr{1450, 2, 1<<22 - rg.IntN(2000)}, lr{200, 2, 70000 + rg.IntN(70000)})
	}
	for i, r := range runs {
		cu.RoundTrip(c, Mjpeg, params(r.max), func(*cu.Instance) []cu.Frame {
			return []cu.Frame{img(r.n, r.nt), img(2+rg.IntN(3*r.max), r.nt), img(300*(r.max-8), r.nt)}
		}, fmt.Sprintf("mjpeg-longrun-%d", i))
		c.Flush()
	}
	// beyond what the Lean oracle can follow in the time budget, on the real code only (property
	// oracle: C06 numbering / size / marker across the calls, C03 round trip): M-JPEG with more than
	// 65536 packets in one call, M-JPEG scan data of 2^24 bytes and just below (fragment offsets up to
	// the 24-bit limit), MPEG-TS groups of more than 65536 TS packets
	if !c.Quick() {
		longRunImplOnly(c, Mjpeg, params(77), []cu.Frame{img(1+69*65540, 1), img(50, 1), img(300*69, 1)}, "mjpeg-longrun-65540-packets")
		longRunImplOnly(c, Mjpeg, params(1450), []cu.Frame{img(1<<24, 2), img(5000, 2), img(1<<24-rg.IntN(3000), 1)}, "mjpeg-longrun-2^24")
		g := make(cu.Frame, 65537+rg.IntN(100))
		one := tsPacket(rg)
		for j := range g {
			g[j] = one
		}
		longRunImplOnly(c, MpegTs, params(188+rg.IntN(188)), []cu.Frame{g, {tsPacket(rg)}, g[:300]}, "mpegts-longrun-65537-packets")
	}
}

// longRunImplOnly runs consecutive frames through one real encoder / decoder pair and evaluates
// the C06 and C03 clauses on the implementation's packets, without recording operation lines for
// the model (cases whose operation lines would be tens of megabytes).
func longRunImplOnly(c *corr.Ctx, s *cu.Spec, p cu.EncParams, frames []cu.Frame, name string) {
	inst, err := s.New(c.Rng, p)
	if err != nil {
		return
	}
	viol := func(prop, clause, key, detail string) {
		c.Violate(corr.Violation{Property: prop, Clause: clause, Key: s.Name + "-" + key, Where: "pkg/format/rtp" + s.Name,
			Input: map[string]any{"mode": "longrun-impl-only", "codec": s.Name, "case": name, "params": p}, Detail: detail})
	}
	dec := inst.NewDec()
	next := p.Seq0
	for fi, f := range frames {
		pkts, err := inst.Enc.Encode(f)
		if err != nil {
			viol("C03", "encoder accepts every valid frame", "enc-error", fmt.Sprintf("frame %d: %v", fi, err))
			return
		}
		var got cu.Frame
		for i, pk := range pkts {
			last := i == len(pkts)-1
			if len(pk.Payload) > p.Max {
				viol("C06", "payload no larger than the configured maximum", "enc-size", fmt.Sprintf("frame %d packet %d: %d > %d", fi, i, len(pk.Payload), p.Max))
			}
			if pk.SequenceNumber != next {
				viol("C06", "sequence numbers increase by exactly one modulo 2^16 from the initial value", "enc-seq",
					fmt.Sprintf("frame %d packet %d of %d: seq %d, expected %d", fi, i, len(pkts), pk.SequenceNumber, next))
			}
			next = pk.SequenceNumber + 1
			if pk.PayloadType != inst.PT || pk.SSRC != p.SSRC {
				viol("C06", "configured (or format-mandated) payload type", "enc-pt", fmt.Sprintf("frame %d packet %d", fi, i))
			}
			if s.MarkerLast && pk.Marker != last {
				viol("C06", "marker set on the packet that completes a frame", "enc-marker", fmt.Sprintf("frame %d packet %d of %d: marker %v", fi, i, len(pkts), pk.Marker))
			}
			out, derr := dec.Decode(pk)
			switch {
			case s.GroupSplit:
				if derr != nil {
					viol("C03", "decoding the encoder's packets returns the original frame", "roundtrip", fmt.Sprintf("frame %d packet %d: %v", fi, i, derr))
				}
				got = append(got, out...)
			case last:
				if derr != nil {
					viol("C03", "decoding the encoder's packets returns the original frame", "roundtrip", fmt.Sprintf("frame %d: %v at the last packet", fi, derr))
				}
				got = out
			default:
				if derr == nil || s.Classify(derr) != "more" {
					viol("C03", "'more packets needed' before the completing packet", "roundtrip-early", fmt.Sprintf("frame %d packet %d of %d: %v", fi, i, len(pkts), derr))
				}
			}
		}
		eq := false
		if s.FrameEq != nil {
			eq = got != nil && s.FrameEq(f, got)
		} else if len(got) == len(f) {
			eq = true
			for i := range f {
				if string(f[i]) != string(got[i]) {
					eq = false
				}
			}
		}
		if !eq {
			viol("C03", "decoding the encoder's packets returns the original frame", "roundtrip", fmt.Sprintf("frame %d of %s differs", fi, name))
		}
		c.Dist(fmt.Sprintf("%s.longrun-impl-only-pkts>=%d", s.Name, (len(pkts)/1000)*1000))
	}
	c.CountOnly(name, true)
}
