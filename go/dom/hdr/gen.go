package hdr

import (
	"encoding/base64"
	"fmt"
	"strings"

	"github.com/bluenviron/gortsplib/v5/pkg/headers"
)

var headerNames = []string{"transport", "transports", "session", "rtpinfo", "range", "authenticate", "authorization", "keymgmt"}

func (d *driver) genValue(header string) *Input {
	g := d.g
	in := &Input{Kind: "value", Header: header}
	switch header {
	case "transport":
		v := g.transport(false)
		in.Transport = &v
	case "transports":
		n := 1 + g.r.IntN(3)
		for i := 0; i < n; i++ {
			in.Transports = append(in.Transports, g.transport(true))
		}
	case "session":
		v := g.session()
		in.Session = &v
	case "rtpinfo":
		in.RTPInfo = g.rtpInfo()
	case "range":
		v := g.rangeV()
		in.Range = &v
	case "authenticate":
		v := g.authenticate()
		in.Authenticate = &v
	case "authorization":
		v := g.authorization()
		in.Authorization = &v
	case "keymgmt":
		v := g.keyMgmt()
		in.KeyMgmt = &v
	case "mikey":
		v := g.message()
		in.Mikey = &v
	}
	return in
}

func (d *driver) values() {
	n := d.c.N(700, 40000)
	for _, h := range append(append([]string{}, headerNames...), "mikey") {
		for i := 0; i < n; i++ {
			d.run(d.genValue(h), fmt.Sprintf("value-%s-%d", h, i))
		}
	}
}

// marshalOf gives the implementation's text of a generated value (seed material for mutation).
func (d *driver) marshalOf(header string) string {
	in := d.genValue(header)
	switch header {
	case "transport":
		return in.Transport.Go().Marshal()[0]
	case "transports":
		var hs headers.Transports
		for i := range in.Transports {
			hs = append(hs, in.Transports[i].Go())
		}
		return hs.Marshal()[0]
	case "session":
		return headers.Session{Session: string(in.Session.Session), Timeout: in.Session.Timeout}.Marshal()[0]
	case "rtpinfo":
		var h headers.RTPInfo
		for _, e := range in.RTPInfo {
			h = append(h, &headers.RTPInfoEntry{URL: string(e.URL), SequenceNumber: e.Seq, Timestamp: e.TS})
		}
		return h.Marshal()[0]
	case "range":
		return in.Range.Go().Marshal()[0]
	case "authenticate":
		return in.Authenticate.Go().Marshal()[0]
	case "authorization":
		return in.Authorization.Go().Marshal()[0]
	case "keymgmt":
		v, err := headers.KeyMgmt{URL: string(in.KeyMgmt.URL), MikeyMessage: in.KeyMgmt.Msg.Go()}.Marshal()
		if err != nil {
			return ""
		}
		return v[0]
	}
	return ""
}

// ---- element pools ---------------------------------------------------------------------------

type pool struct {
	sep      string
	prefixes []string   // method words etc.
	valid    []string   // elements that parse
	invalid  []string   // elements that make Unmarshal fail
	groups   [][]string // elements that write the same field (conflicts)
}

var pools = map[string]*pool{
	"transport": {
		sep: ";",
		valid: []string{"RTP/AVP", "RTP/AVP/UDP", "RTP/AVP/TCP", "RTP/SAVP", "RTP/SAVP/UDP", "RTP/SAVP/TCP", "unicast", "multicast",
			"source=10.0.0.1", "source=", "source=\"a;b\"", "destination=host", "destination=", "interleaved=0-1", "interleaved=4", "interleaved=2147483647",
			"ttl=127", "ttl=0", "ttl=4294967295", "port=1-2", "port=65535", "client_port=3456-3457", "client_port=0", "server_port=5000-5001",
			"ssrc=1A2B3C4D", "ssrc=abc", "ssrc= 12", "ssrc=", "ssrc=zz", "ssrc=123456789", "ssrc=0000000001", "mode=play", "mode=PLAY", "mode=\"PLAY\"", "mode=record", "mode=receive",
			"mode=rece\xc4\xb0ve", "mode=RECE\xc4\xb0VE", "mode=Record", "foo=bar", "foo", "=x", "", "RTP/AVP=1", "unicast=2", "x=\"y\""},
		invalid: []string{"interleaved=y", "interleaved=1-2-3", "interleaved=-1", "interleaved=2147483648", "interleaved=1-", "interleaved=", "interleaved=+1", "interleaved=1_0",
			"ttl=x", "ttl=4294967296", "ttl=", "ttl=-1", "port=a-b", "port=", "client_port=1-x", "client_port=99999999999999999999", "server_port=--",
			"mode=zzz", "mode=", "mode=pla", "mode=playy", "mode=p\xc4\xb0ay", "mode=\xe2\x84\xaa", "source=\"unterminated"},
		groups: [][]string{{"RTP/AVP", "RTP/AVP/UDP", "RTP/AVP/TCP", "RTP/SAVP", "RTP/SAVP/UDP", "RTP/SAVP/TCP"}, {"unicast", "multicast"}},
	},
	"session": {
		sep:     ";",
		valid:   []string{"timeout=60", "timeout=0", "timeout=4294967295", "timeout=\"30\"", "foo=bar", "foo", "", " timeout=5", "Timeout=5"},
		invalid: []string{"timeout=x", "timeout=", "timeout", "timeout=4294967296", "timeout=-1", "timeout= 5", "timeout=\"unterminated"},
	},
	"rtpinfo": {
		sep: ";",
		valid: []string{"url=rtsp://127.0.0.1/test.mkv/track1", "url=", "url", "url=\"a;b,c\"", "seq=35243", "seq=0", "seq=65535", "rtptime=717574556", "rtptime=4294967295", "rtptime=0",
			"foo=bar", "", "ssrc=1"},
		invalid: []string{"seq=x", "seq=65536", "seq=", "seq=-1", "rtptime=y", "rtptime=4294967296", "rtptime=", "url=\"unterminated"},
	},
	"range": {
		sep: ";",
		valid: []string{"npt=1-2", "npt=0-", "npt=1.001-", "npt=00:00:01.5-00:01:00", "npt=1:2:3.25-", "npt=.5-", "npt=5.-", "npt=0.0000000004-", "npt=1.1179999999999999-",
			"npt=12345.678-99999.999", "npt=18446744073709551615:0:1-", "npt=0:18446744073709551615:1-", "npt=3074457345618258603:0:0-",
			"smpte=0:00:01-", "smpte=10:07:00-10:07:33:05.01", "smpte=0:0:0:7-", "smpte=0:0:0:7.1.2-", "smpte=18446744073709551615:0:0-", "smpte=1:18446744073709551615:5-",
			"clock=20060102T150405Z-", "clock=19961108T142300Z-19961108T143520Z", "clock=20000229T235959Z-", "clock=20060102T150405.5Z-", "clock=20060102T150405,123456789123Z-",
			"time=20060102T150405Z", "time=00000101T000000Z", "time=99991231T235959Z", "foo=bar", "", "npt", "npt=\"1-2\""},
		invalid: []string{"npt=x-", "npt=1", "npt=1-2-3", "npt=-", "npt=1:2:3:4-", "npt=a:1-", "npt=1:b:1-", "npt=1-x", "npt=1..2-", "npt=.-", "npt=1 -", "npt=1,5-",
			"smpte=1-", "smpte=0:00-", "smpte=0:0:0:0:0-", "smpte=a:0:0-", "smpte=0:0:0:x-", "smpte=0:0:0:1.x-", "smpte=0:0:0:4294967296-", "smpte=18446744073709551616:0:0-", "smpte=0:0:1-0:0",
			"clock=20060102T150405-", "clock=2006-", "clock=20061302T150405Z-", "clock=20060230T150405Z-", "clock=19000229T000000Z-", "clock=20060102T240000Z-", "clock=20060102T156000Z-",
			"clock=20060102T150460Z-", "clock=20060102T150405.Z-", "clock=20060102T150405Z-x", "clock=20060100T150405Z-", "clock=20060102t150405Z-", "clock=20060102T150405z-",
			"clock=20060102T1504051Z-", "clock= 20060102T150405Z-", "time=y", "time=", "time=20060102T150405", "time=20060431T000000Z"},
		groups: [][]string{{"npt=1-2", "smpte=0:00:01-", "clock=20060102T150405Z-", "npt=3-"}, {"time=20060102T150405Z", "time=19700101T000000Z"}},
	},
	"authenticate": {
		sep:      ",",
		prefixes: []string{"Basic ", "Digest ", "Digest  ", "digest ", "Basic", "Bearer ", "", " Digest "},
		valid: []string{"realm=\"4419b63f5e51\"", "realm=", "realm", "realm=a b", "nonce=\"8b84a3b789283a8bea8da7fa7d41f08b\"", "nonce=", "opaque=\"\"", "opaque=x", "stale=\"FALSE\"", "stale=true",
			"algorithm=\"MD5\"", "algorithm=md5", "algorithm=SHA-256", "algorithm=\"sha-256\"", "foo=bar", "", " realm=\"x\"", "realm=\"a,b\""},
		invalid: []string{"algorithm=x", "algorithm=", "algorithm=MD", "algorithm=SHA256", "algorithm=\"sha-512\"", "realm=\"unterminated"},
	},
	"authorization": {
		sep:      ",",
		prefixes: []string{"Digest ", "Basic ", "Digest  ", "digest ", "Digest", "Bearer ", ""},
		valid: []string{"username=\"aa\"", "username=", "realm=\"bb\"", "nonce=\"cc\"", "uri=\"dd\"", "uri=\"rtsp://h/p?a=b,c\"", "response=\"ee\"", "opaque=\"ff\"", "algorithm=\"MD5\"", "algorithm=sha-256",
			"foo=bar", "", "response"},
		invalid: []string{"algorithm=x", "algorithm=", "nonce=\"unterminated"},
	},
	"keymgmt": {
		sep:     ";",
		valid:   []string{"prot=mikey", "prot=\"mikey\"", "uri=\"rtsp://127.0.0.1:8554/stream\"", "uri=", "uri", "foo=bar", ""},
		invalid: []string{"prot=x", "prot=", "prot", "prot=MIKEY", "data=!!", "data=", "data", "data=AQ==", "data=\"AQAFAA==\"", "data=\"unterminated"},
	},
}

func init() {
	pools["transports"] = pools["transport"]
}

func (d *driver) dataElement() string {
	g := d.g
	v := g.message()
	b, err := v.Go().Marshal()
	if err != nil {
		return "data=x"
	}
	if g.r.IntN(3) == 0 {
		b = d.mutateBytes(b)
	}
	s := base64.StdEncoding.EncodeToString(b)
	switch g.r.IntN(6) {
	case 0:
		return "data=" + s // unquoted: '=' padding is part of the value
	case 1:
		return "data=\"" + strings.TrimRight(s, "=") + "\""
	case 2:
		if len(s) > 4 {
			return "data=\"" + s[:4] + "\r\n" + s[4:] + "\""
		}
	}
	return "data=\"" + s + "\""
}

// fromPool assembles a header value from pool elements.
func (d *driver) fromPool(header string, mode int) string {
	g := d.g
	p := pools[header]
	var els []string
	pickFrom := func(xs []string) string { return xs[g.r.IntN(len(xs))] }
	switch mode {
	case 0: // mostly valid
		n := 1 + g.r.IntN(6)
		for i := 0; i < n; i++ {
			els = append(els, pickFrom(p.valid))
		}
		if g.r.IntN(4) == 0 && len(p.invalid) > 0 {
			els = append(els, pickFrom(p.invalid))
		}
	case 1: // two keys that write the same field
		if len(p.groups) > 0 {
			gr := p.groups[g.r.IntN(len(p.groups))]
			els = append(els, pickFrom(gr), pickFrom(gr))
			if g.r.IntN(2) == 0 {
				gr2 := p.groups[g.r.IntN(len(p.groups))]
				els = append(els, pickFrom(gr2), pickFrom(gr2))
			}
		} else {
			a := pickFrom(p.valid)
			els = append(els, a, a)
		}
		for i := g.r.IntN(3); i > 0; i-- {
			els = append(els, pickFrom(p.valid))
		}
	case 2: // two (or more) invalid fields
		els = append(els, pickFrom(p.invalid), pickFrom(p.invalid))
		for i := g.r.IntN(3); i > 0; i-- {
			els = append(els, pickFrom(p.valid))
		}
		if g.r.IntN(3) == 0 {
			els = append(els, pickFrom(p.invalid))
		}
	}
	switch header {
	case "transport", "transports":
		if g.r.IntN(5) != 0 {
			els = append(els, pickFrom(p.groups[0]))
		}
	case "rtpinfo":
		if g.r.IntN(5) != 0 {
			els = append(els, "url=rtsp://h/"+string(rune('a'+g.r.IntN(3))))
		}
	case "range":
		if g.r.IntN(5) != 0 && mode != 1 {
			els = append(els, pickFrom(p.groups[0]))
		}
	case "authenticate":
		if g.r.IntN(5) != 0 {
			els = append(els, "realm=\"r\"", "nonce=\"n\"")
		}
	case "authorization":
		if g.r.IntN(5) != 0 {
			els = append(els, "username=\"u\"", "realm=\"r\"", "nonce=\"n\"", "uri=\"x\"", "response=\"y\"")
		}
	case "keymgmt":
		if g.r.IntN(5) != 0 {
			els = append(els, "prot=mikey", "uri=\"rtsp://h/s\"", d.dataElement())
		}
	}
	g.r.Shuffle(len(els), func(i, j int) { els[i], els[j] = els[j], els[i] })
	sep := p.sep
	var sb strings.Builder
	if len(p.prefixes) > 0 {
		if g.r.IntN(6) == 0 {
			sb.WriteString(pickFrom(p.prefixes))
		} else {
			sb.WriteString(p.prefixes[g.r.IntN(2)])
		}
	}
	if header == "session" {
		sb.WriteString(string(g.text(8, "")))
		if g.r.IntN(8) != 0 {
			sb.WriteString(";")
		}
		if g.r.IntN(4) == 0 {
			sb.WriteString("  ")
		}
	}
	for i, e := range els {
		if i > 0 {
			sb.WriteString(sep)
			for k := g.pick(0, 0, 1, 1, 2); k > 0; k-- {
				sb.WriteByte(' ')
			}
		}
		sb.WriteString(e)
	}
	s := sb.String()
	if (header == "transports" || header == "rtpinfo") && g.r.IntN(2) == 0 {
		s = s + "," + g.pickS(" ", "", "  ") + d.fromPool(header, g.r.IntN(3))
	}
	return s
}

func (g gen) pickS(xs ...string) string { return xs[g.r.IntN(len(xs))] }

var interesting = []byte(";=,\" -:.\t0123456789azAZ/_+TZ\r\n\x00\x7f\x80\xc4\xb0\xe2\x84\xaa\xff")

func (d *driver) mutateBytes(b []byte) []byte {
	g := d.g
	b = append([]byte{}, b...)
	for k := 1 + g.r.IntN(3); k > 0; k-- {
		switch op := g.r.IntN(7); {
		case op == 0 && len(b) > 0: // replace
			b[g.r.IntN(len(b))] = interesting[g.r.IntN(len(interesting))]
		case op == 1 && len(b) > 0: // random byte
			b[g.r.IntN(len(b))] = byte(g.r.IntN(256))
		case op == 2 && len(b) > 0: // delete
			i := g.r.IntN(len(b))
			b = append(b[:i], b[i+1:]...)
		case op == 3: // insert
			i := g.r.IntN(len(b) + 1)
			b = append(b[:i], append([]byte{interesting[g.r.IntN(len(interesting))]}, b[i:]...)...)
		case op == 4 && len(b) > 0: // truncate
			b = b[:g.r.IntN(len(b))]
		case op == 5 && len(b) > 0: // bit flip
			b[g.r.IntN(len(b))] ^= 1 << g.r.IntN(8)
		case op == 6 && len(b) > 0: // increment / decrement (length fields)
			i := g.r.IntN(len(b))
			if g.r.IntN(2) == 0 {
				b[i]++
			} else {
				b[i]--
			}
		}
	}
	return b
}

// mutateFields: duplicate, swap, drop or append an element of a separated list.
func (d *driver) mutateFields(s string, sep string, header string) string {
	g := d.g
	els := strings.Split(s, sep)
	switch g.r.IntN(5) {
	case 0:
		i := g.r.IntN(len(els))
		j := g.r.IntN(len(els) + 1)
		els = append(els[:j], append([]string{els[i]}, els[j:]...)...)
	case 1:
		i, j := g.r.IntN(len(els)), g.r.IntN(len(els))
		els[i], els[j] = els[j], els[i]
	case 2:
		if len(els) > 1 {
			i := g.r.IntN(len(els))
			els = append(els[:i], els[i+1:]...)
		}
	case 3:
		p := pools[header]
		if len(p.invalid) > 0 {
			els = append(els, p.invalid[g.r.IntN(len(p.invalid))])
		}
	case 4:
		p := pools[header]
		j := g.r.IntN(len(els) + 1)
		els = append(els[:j], append([]string{p.valid[g.r.IntN(len(p.valid))]}, els[j:]...)...)
	}
	return strings.Join(els, sep)
}

func (d *driver) genString(header string) *Input {
	g := d.g
	in := &Input{Kind: "string", Header: header}
	var s string
	switch m := g.r.IntN(20); {
	case m < 5:
		s = d.fromPool(header, 0)
		d.c.Dist("gen.pool-mostly-valid")
	case m < 8:
		s = d.fromPool(header, 1)
		d.c.Dist("gen.two-keys-same-field")
	case m < 11:
		s = d.fromPool(header, 2)
		d.c.Dist("gen.two-invalid-fields")
	case m < 14:
		s = string(d.mutateBytes([]byte(d.marshalOf(header))))
		d.c.Dist("gen.marshal-byte-mutation")
	case m < 17:
		s = d.mutateFields(d.marshalOf(header), pools[header].sep, header)
		d.c.Dist("gen.marshal-field-mutation")
	case m < 18:
		s = string(d.mutateBytes([]byte(d.fromPool(header, g.r.IntN(3)))))
		d.c.Dist("gen.pool-byte-mutation")
	case m < 19:
		n := g.r.IntN(24)
		b := make([]byte, n)
		for i := range b {
			b[i] = interesting[g.r.IntN(len(interesting))]
		}
		s = string(b)
		d.c.Dist("gen.random-bytes")
	default:
		// header value with zero or several strings
		d.c.Dist("gen.value-count")
		if g.r.IntN(2) == 0 {
			return in
		}
		in.Strs = []S{S(d.fromPool(header, 0)), S(d.fromPool(header, 0))}
		return in
	}
	in.Strs = []S{S(s)}
	return in
}

func (d *driver) strings() {
	n := d.c.N(1500, 80000)
	for _, h := range headerNames {
		for i := 0; i < n; i++ {
			d.run(d.genString(h), fmt.Sprintf("string-%s-%d", h, i))
		}
	}
	// MIKEY byte strings
	for i := 0; i < n; i++ {
		g := d.g
		var b []byte
		switch g.r.IntN(8) {
		case 0:
			b = []byte(g.bytesN(g.r.IntN(40)))
		case 1:
			// header-only prefixes with chosen lengths
			b = append([]byte{1, 0, byte(g.pick(0, 1, 5, 10, 11, 20, 2)), 0, 1, 2, 3, 4, byte(g.r.IntN(3)), 0}, []byte(g.bytesN(g.r.IntN(30)))...)
		default:
			v := g.message()
			m, err := v.Go().Marshal()
			if err != nil {
				continue
			}
			b = m
			if g.r.IntN(6) != 0 {
				b = d.mutateBytes(b)
			}
			if g.r.IntN(6) == 0 {
				b = append(b, []byte(g.bytesN(1+g.r.IntN(3)))...) // trailing padding
			}
			if g.r.IntN(8) == 0 {
				b = append(b, 0, byte(g.r.IntN(256)))
			}
		}
		d.run(&Input{Kind: "bytes", Header: "mikey", Strs: []S{S(b)}}, fmt.Sprintf("bytes-mikey-%d", i))
	}
}

func (d *driver) aux() {
	g := d.g
	n := d.c.N(800, 30000)
	for i := 0; i < n; i++ {
		// tokenizer
		h := headerNames[g.r.IntN(len(headerNames))]
		s := d.fromPool(h, g.r.IntN(3))
		if g.r.IntN(3) == 0 {
			s = string(d.mutateBytes([]byte(s)))
		}
		d.run(&Input{Kind: "aux", Header: "kv", Sep: g.pick(';', ','), Strs: []S{S(s)}}, fmt.Sprintf("aux-kv-%d", i))
		// base64
		b := []byte(g.bytesN(g.r.IntN(10)))
		e := base64.StdEncoding.EncodeToString(b)
		switch g.r.IntN(4) {
		case 0:
			e = string(d.mutateBytes([]byte(e)))
		case 1:
			e = strings.TrimRight(e, "=")
		case 2:
			e = string(b)
		}
		d.run(&Input{Kind: "aux", Header: "b64", Strs: []S{S(e)}}, fmt.Sprintf("aux-b64-%d", i))
		// lower
		t := g.pickS("play", "record", "receive", "md5", "sha-256")
		v := t
		switch g.r.IntN(5) {
		case 0:
			v = strings.ToUpper(t)
		case 1:
			v = strings.ReplaceAll(strings.ReplaceAll(t, "i", "İ"), "k", "K")
		case 2:
			v = string(d.mutateBytes([]byte(strings.ToUpper(t))))
		case 3:
			v = strings.Title(t) //nolint
		}
		d.run(&Input{Kind: "aux", Header: "lower", Strs: []S{S(v), S(t)}}, fmt.Sprintf("aux-lower-%d", i))
		// float seconds
		var f string
		switch g.r.IntN(6) {
		case 0:
			f = fmt.Sprintf("%d.%03d", g.r.IntN(1000000), g.r.IntN(1000))
		case 1:
			f = fmt.Sprintf("%d.%09d", g.r.IntN(1000000), g.r.IntN(1000000000))
		case 2:
			f = fmt.Sprintf("%d.%09d%s", g.r.IntN(100000), g.r.IntN(1000000000), g.pickS("0", "1", "24", "2499999", "75", "7500001", "9", "99999999", "00000001"))
		case 3:
			f = g.pickS("", ".", "1.", ".5", "1..2", "1e3", "0x1p-2", "inf", "nan", "+1", "-1", "1_0", "abc", "1,5", " 1", "1 ", "999999", "1000000", "0000001.5", "1.2.3")
		case 4:
			f = string(d.mutateBytes([]byte(fmt.Sprintf("%d.%03d", g.r.IntN(100000), g.r.IntN(1000)))))
		default:
			f = exactDecimal(g.nptNs())
		}
		d.run(&Input{Kind: "aux", Header: "float", Strs: []S{S(f)}}, fmt.Sprintf("aux-float-%d", i))
		// UTC
		u := g.civil().Go().Format("20060102T150405Z")
		switch g.r.IntN(5) {
		case 0:
			u = string(d.mutateBytes([]byte(u)))
		case 1:
			u = u[:15] + g.pickS(".5", ",25", ".123456789", ".1234567891", ".", ",", ".a", ".5.5") + "Z"
		case 2:
			u = fmt.Sprintf("%04d%02d%02dT%02d%02d%02dZ", g.r.IntN(10000), g.r.IntN(14), g.r.IntN(33), g.r.IntN(25), g.r.IntN(61), g.r.IntN(61))
		}
		d.run(&Input{Kind: "aux", Header: "utc", Strs: []S{S(u)}}, fmt.Sprintf("aux-utc-%d", i))
	}
}

// sweeps: boundary values and (thorough tier) long enumerations.
func (d *driver) sweeps() {
	// every combination of profile/protocol/delivery/mode presence
	for prof := 0; prof < 2; prof++ {
		for proto := 0; proto < 2; proto++ {
			for del := -1; del < 2; del++ {
				for mode := -1; mode < 2; mode++ {
					v := TransportV{Profile: prof, Protocol: proto}
					if del >= 0 {
						x := del
						v.Delivery = &x
					}
					if mode >= 0 {
						x := mode
						v.Mode = &x
					}
					d.run(&Input{Kind: "value", Header: "transport", Transport: &v}, "sweep-transport-combos")
				}
			}
		}
	}
	// numeric boundaries as texts
	for _, f := range []string{"interleaved", "port", "client_port", "server_port"} {
		for _, val := range []string{"0", "1", "65535", "65536", "2147483646", "2147483647", "2147483648", "4294967295", "0-0", "2147483647-2147483647", "2147483647-2147483648", "00001-00002"} {
			d.run(&Input{Kind: "string", Header: "transport", Strs: []S{S("RTP/AVP;" + f + "=" + val)}}, "sweep-ports")
		}
	}
	for _, val := range []string{"0", "4294967295", "4294967296", "18446744073709551615", "18446744073709551616", "007"} {
		d.run(&Input{Kind: "string", Header: "transport", Strs: []S{S("RTP/AVP;ttl=" + val)}}, "sweep-ttl")
		d.run(&Input{Kind: "string", Header: "session", Strs: []S{S("abc;timeout=" + val)}}, "sweep-timeout")
		d.run(&Input{Kind: "string", Header: "rtpinfo", Strs: []S{S("url=a;rtptime=" + val + ";seq=" + val)}}, "sweep-rtpinfo")
	}
	for n := 0; n <= 10; n++ {
		d.run(&Input{Kind: "string", Header: "transport", Strs: []S{S("RTP/AVP;ssrc=" + strings.Repeat("f", n))}}, "sweep-ssrc-len")
		d.run(&Input{Kind: "string", Header: "transport", Strs: []S{S("RTP/AVP;ssrc= " + strings.Repeat("A", n))}}, "sweep-ssrc-len")
	}
	// every day of a leap year, a common year and the century years
	for _, y := range []int{1900, 2000, 2023, 2024} {
		for m := 1; m <= 12; m++ {
			for day := 0; day <= 32; day++ {
				d.run(&Input{Kind: "aux", Header: "utc", Strs: []S{S(fmt.Sprintf("%04d%02d%02dT000000Z", y, m, day))}}, "sweep-utc-days")
			}
		}
	}
	// NPT millisecond sweep: round trip on the implementation for every ms value in a window; the
	// model is compared on a stride.
	limit := d.c.N(20000, 5000000)
	stride := d.c.N(7, 101)
	for ms := 0; ms < limit; ms++ {
		ns := int64(ms) * 1000000
		in := &Input{Kind: "value", Header: "range", Range: &RangeV{Kind: "npt", NptStart: ns}}
		if ms%stride == 0 {
			d.run(in, "sweep-npt-ms")
			continue
		}
		h := in.Range.Go()
		text := h.Marshal()[0]
		back := unmarshalImpl("range", []string{text})
		if back.err != "" || back.enc != encRange(&h) {
			d.viol("parsing the marshalled form yields an equal value", "hdr-roundtrip-range", in, fmt.Sprintf("Marshal = %q; Unmarshal = %s", text, back.class()))
		}
		d.c.CountOnly(fmt.Sprintf("npt-ms-%d", ms), true)
	}
	d.enumerations()
	d.c.Dist("sweeps")
	d.c.Exhaustive()
}

// enumerations: exhaustive small scopes.
func (d *driver) enumerations() {
	// (1) the tokenizer on every string over a six-letter alphabet up to a length bound
	alpha := []byte("a=;\" ,")
	maxLen := d.c.N(5, 7)
	var rec func(prefix []byte)
	rec = func(prefix []byte) {
		for _, sep := range []int{';', ','} {
			d.run(&Input{Kind: "aux", Header: "kv", Sep: sep, Strs: []S{S(prefix)}}, "enum-kv")
		}
		if len(prefix) == maxLen {
			return
		}
		for _, c := range alpha {
			rec(append(append([]byte{}, prefix...), c))
		}
	}
	rec(nil)
	d.c.Dist("enum.kv-strings")
	// (2) every ordered pair of pool elements of every header (conflicts and double failures in both orders)
	for _, h := range headerNames {
		if h == "transports" {
			continue
		}
		p := pools[h]
		els := append(append([]string{}, p.valid...), p.invalid...)
		prefix := ""
		if len(p.prefixes) > 0 {
			prefix = p.prefixes[0]
		}
		if h == "session" {
			prefix = "id;"
		}
		if h == "authorization" {
			prefix = "Digest "
		}
		for _, a := range els {
			for _, b := range els {
				d.run(&Input{Kind: "string", Header: h, Strs: []S{S(prefix + a + p.sep + b)}}, "enum-pairs-"+h)
			}
		}
		if !d.c.Quick() && (h == "transport" || h == "range") {
			for _, a := range els {
				for _, b := range els {
					for _, c := range p.invalid {
						d.run(&Input{Kind: "string", Header: h, Strs: []S{S(prefix + a + p.sep + " " + b + p.sep + c)}}, "enum-triples-"+h)
					}
				}
			}
		}
	}
	d.c.Dist("enum.pool-pairs")
	// (3) MIKEY: every single-byte change of one well-formed message
	msg := MessageV{Version: 1, CSBID: 0x01020304, CS: []CSEntryV{{PolicyNo: 0, SSRC: 0xAABBCCDD, ROC: 0}}, Payloads: []PayloadV{
		{Kind: "T", TSValue: 0x0102030405060708}, {Kind: "R", Data: S("0123456789abcdef")},
		{Kind: "S", PolicyNo: 0, Params: []ParamV{{Type: 0, Value: "\x01"}, {Type: 1, Value: "\x10"}}},
		{Kind: "K", Subs: []KeyDataV{{Type: 2, KV: 1, KeyData: "keykeykeykeykeyk", SPI: "spi!"}, {Type: 2, KV: 0, KeyData: "k2"}}}}}
	base, err := msg.Go().Marshal()
	if err == nil {
		vals := []int{0, 1, 2, 5, 10, 11, 16, 20, 32, 33, 0x7f, 0x80, 0xff}
		if !d.c.Quick() {
			vals = vals[:0]
			for v := 0; v < 256; v++ {
				vals = append(vals, v)
			}
		}
		for i := range base {
			for _, v := range vals {
				b := append([]byte{}, base...)
				b[i] = byte(v)
				d.run(&Input{Kind: "bytes", Header: "mikey", Strs: []S{S(b)}}, "enum-mikey-byte")
			}
		}
		for n := 0; n <= len(base); n++ {
			d.run(&Input{Kind: "bytes", Header: "mikey", Strs: []S{S(base[:n])}}, "enum-mikey-prefix")
			d.run(&Input{Kind: "bytes", Header: "mikey", Strs: []S{S(append(append([]byte{}, base...), make([]byte, n%4)...))}}, "enum-mikey-pad")
		}
	}
	// (3b) length-field boundaries (well-formed just below the limit, truncating above it) and
	// unsupported type bytes
	big := func(n int) S { return S(strings.Repeat("k", n)) }
	for _, n := range []int{65530, 65531, 65532, 65535, 65536, 65540} {
		k := MessageV{Version: 1, Payloads: []PayloadV{{Kind: "K", Subs: []KeyDataV{{Type: 2, KV: 0, KeyData: big(n)}}}}}
		kind := "loose"
		if n+4 <= 65535 {
			kind = "value"
		}
		d.run(&Input{Kind: kind, Header: "mikey", Mikey: &k}, "boundary-kemac-len")
	}
	for _, n := range []int{15, 16, 255, 256, 300} {
		r := MessageV{Version: 1, Payloads: []PayloadV{{Kind: "R", Data: big(n)}}}
		kind := "loose"
		if n >= 16 && n <= 255 {
			kind = "value"
		}
		d.run(&Input{Kind: kind, Header: "mikey", Mikey: &r}, "boundary-rand-len")
	}
	for _, n := range []int{255, 256} {
		sp := MessageV{Version: 1, Payloads: []PayloadV{{Kind: "S", Params: []ParamV{{Type: 1, Value: big(n)}}}}}
		kind := "loose"
		if n <= 255 {
			kind = "value"
		}
		d.run(&Input{Kind: kind, Header: "mikey", Mikey: &sp}, "boundary-sp-len")
		var cs []CSEntryV
		for i := 0; i < n; i++ {
			cs = append(cs, CSEntryV{PolicyNo: uint8(i), SSRC: uint32(i), ROC: 1})
		}
		d.run(&Input{Kind: kind, Header: "mikey", Mikey: &MessageV{Version: 1, CS: cs}}, "boundary-cs-count")
	}
	var many []ParamV
	for i := 0; i < 256; i++ {
		many = append(many, ParamV{Type: uint8(i), Value: big(254)})
	}
	d.run(&Input{Kind: "loose", Header: "mikey", Mikey: &MessageV{Version: 1, Payloads: []PayloadV{{Kind: "S", Params: many}}}}, "boundary-sp-total")
	d.run(&Input{Kind: "value", Header: "mikey", Mikey: &MessageV{Version: 1, Payloads: []PayloadV{{Kind: "S", Params: many[:255]}}}}, "boundary-sp-total")
	for i := 0; i < d.c.N(200, 5000); i++ {
		v := d.g.message()
		switch d.g.r.IntN(8) {
		case 0:
			v.Version = uint8(d.g.r.IntN(4))
		case 1:
			v.DataType = uint8(d.g.r.IntN(3))
		case 2:
			v.V = true
		case 3:
			v.PRFFunc = uint8(d.g.r.IntN(256))
		case 4:
			v.MapType = uint8(d.g.r.IntN(3))
		default:
			if len(v.Payloads) > 0 {
				p := &v.Payloads[d.g.r.IntN(len(v.Payloads))]
				p.EncrAlg, p.MacAlg, p.TSType, p.ProtType = uint8(d.g.r.IntN(2)), uint8(d.g.r.IntN(2)), uint8(d.g.r.IntN(2)), uint8(d.g.r.IntN(2))
				for j := range p.Subs {
					p.Subs[j].Type = uint8(d.g.pick(2, 2, 0, 1, 15, 18))
					p.Subs[j].KV = uint8(d.g.pick(0, 1, 2, 15, 17))
				}
			}
		}
		d.run(&Input{Kind: "loose", Header: "mikey", Mikey: &v}, "loose-mikey")
	}
	d.c.Dist("enum.mikey-bytes")
	// (4) base64: every string up to length 5 over a small alphabet
	b64 := []byte("AQ=\n!/")
	var rec2 func(prefix []byte)
	rec2 = func(prefix []byte) {
		d.run(&Input{Kind: "aux", Header: "b64", Strs: []S{S(prefix)}}, "enum-b64")
		if len(prefix) == d.c.N(4, 6) {
			return
		}
		for _, c := range b64 {
			rec2(append(append([]byte{}, prefix...), c))
		}
	}
	rec2(nil)
	d.c.Dist("enum.b64-strings")
}
