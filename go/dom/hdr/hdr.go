package hdr

import (
	"bytes"
	"encoding/base64"
	"encoding/json"
	"fmt"
	"math"
	"math/big"
	"os"
	"path/filepath"
	"sort"
	"strconv"
	"strings"
	"time"
	"unicode"

	"github.com/bluenviron/gortsplib/v5/pkg/base"
	"github.com/bluenviron/gortsplib/v5/pkg/headers"
	"github.com/bluenviron/gortsplib/v5/pkg/mikey"

	"verifharness/corr"
)

const prop = "C09"

// Input is the replayable input of one case.
type Input struct {
	Kind   string `json:"kind"`           // string | value | bytes (MIKEY wire bytes) | loose (MIKEY value, not nec. well-formed) | aux
	Header string `json:"header"`         // transport | transports | session | rtpinfo | range | authenticate | authorization | keymgmt | mikey | kv | b64 | lower | float | utc
	Strs   []S    `json:"strs,omitempty"` // string cases: the header value (a list of strings); aux: arguments
	Sep    int    `json:"sep,omitempty"`

	Transport     *TransportV     `json:"transport,omitempty"`
	Transports    []TransportV    `json:"transports,omitempty"`
	Session       *SessionV       `json:"session,omitempty"`
	RTPInfo       []RTPInfoEntryV `json:"rtpinfo,omitempty"`
	Range         *RangeV         `json:"range,omitempty"`
	Authenticate  *AuthenticateV  `json:"authenticate,omitempty"`
	Authorization *AuthorizationV `json:"authorization,omitempty"`
	KeyMgmt       *KeyMgmtV       `json:"keymgmt,omitempty"`
	Mikey         *MessageV       `json:"mikey,omitempty"`
}

// repeats is how many times every string is parsed by the implementation (fresh maps each time).
const repeats = 16

type driver struct {
	c *corr.Ctx
	g gen
}

func (d *driver) viol(clause, key string, in *Input, detail string) {
	d.c.Violate(corr.Violation{Property: prop, Clause: clause, Key: key, Where: "pkg/headers, pkg/mikey", Input: in, Detail: detail})
}

// parseOut is what one Unmarshal call of the implementation produced.
type parseOut struct {
	enc   string // canonical value text when err == nil
	err   string // error text ("" = ok); compared only between runs of the implementation itself
	panic string
}

func (p parseOut) line() string {
	if p.err != "" {
		return "err"
	}
	return "ok " + p.enc
}

func (p parseOut) class() string {
	if p.panic != "" {
		return "panic: " + p.panic
	}
	if p.err != "" {
		return "error: " + p.err
	}
	return "ok " + p.enc
}

func guard(f func() (string, error)) (out parseOut) {
	defer func() {
		if r := recover(); r != nil {
			out = parseOut{panic: fmt.Sprint(r), err: "panic"}
		}
	}()
	enc, err := f()
	if err != nil {
		return parseOut{err: err.Error()}
	}
	return parseOut{enc: enc}
}

// unmarshalImpl runs the real Unmarshal of the named header on a fresh value.
func unmarshalImpl(header string, v base.HeaderValue) parseOut {
	return guard(func() (string, error) {
		switch header {
		case "transport":
			var h headers.Transport
			err := h.Unmarshal(v)
			return encTransport(&h), err
		case "transports":
			var h headers.Transports
			err := h.Unmarshal(v)
			if err != nil {
				return "", err
			}
			return encTransports(h), nil
		case "session":
			var h headers.Session
			err := h.Unmarshal(v)
			return encSession(&h), err
		case "rtpinfo":
			var h headers.RTPInfo
			err := h.Unmarshal(v)
			if err != nil {
				return "", err
			}
			return encRTPInfo(h), nil
		case "range":
			var h headers.Range
			err := h.Unmarshal(v)
			if err != nil {
				return "", err
			}
			return encRange(&h), nil
		case "authenticate":
			var h headers.Authenticate
			err := h.Unmarshal(v)
			return encAuthenticate(&h), err
		case "authorization":
			var h headers.Authorization
			err := h.Unmarshal(v)
			return encAuthorization(&h), err
		case "keymgmt":
			var h headers.KeyMgmt
			err := h.Unmarshal(v)
			if err != nil {
				return "", err
			}
			return encKeyMgmt(&h), nil
		}
		panic("unknown header " + header)
	})
}

func strsOf(in *Input) base.HeaderValue {
	v := base.HeaderValue{}
	for _, s := range in.Strs {
		v = append(v, string(s))
	}
	return v
}

func hexArgs(v base.HeaderValue) string {
	var sb strings.Builder
	for _, s := range v {
		sb.WriteByte(' ')
		sb.WriteString(hx(s))
	}
	return sb.String()
}

// runString: one arbitrary header value.  Determinism witness on the implementation (16 parses, all
// results equal, no panic) and model == implementation (value fields / error-vs-ok).
func (d *driver) runString(in *Input, name string) {
	v := strsOf(in)
	first := unmarshalImpl(in.Header, v)
	if first.panic != "" {
		d.viol("parsing any string never panics", "hdr-panic-"+in.Header, in, first.panic)
	}
	for i := 1; i < repeats; i++ {
		o := unmarshalImpl(in.Header, v)
		if o.class() != first.class() {
			d.viol("the same input always produces the same value or the same failure, independent of map iteration order",
				"hdr-nondeterministic-parse", in, fmt.Sprintf("%s: run 0: %s; run %d: %s", in.Header, first.class(), i, o.class()))
			break
		}
	}
	if first.err != "" {
		d.c.Dist(in.Header + ".string.err")
	} else {
		d.c.Dist(in.Header + ".string.ok")
	}
	if !modelled(in.Header, v) {
		d.c.Dist(in.Header + ".string.outside-model-domain")
		d.c.CountOnly(name+hexArgs(v), true)
		return
	}
	d.c.Add(corr.Case{Name: name, Ops: []string{"hdr " + in.Header + ".u" + hexArgs(v)}, Impl: []string{first.line()}, Nontrivial: true})
}

// modelled reports whether the header value lies in the domain on which the model claims exact
// agreement with the Go standard library (see Model/Headers/Range.lean: NPT seconds are compared
// only for plain decimals below 10^6 s away from the float rounding boundary).  The decision uses
// the implementation's own tokenizer, never the model.
func modelled(header string, v base.HeaderValue) bool {
	if header != "range" || len(v) != 1 {
		return true
	}
	_, kvs, err := headers.VerifKeyValParse(v[0], ';')
	if err != nil {
		return true
	}
	npt, ok := kvs["npt"]
	if !ok {
		return true
	}
	for _, a := range strings.Split(npt, "-") {
		for _, p := range strings.Split(a, ":") {
			if !nptSafe(p) {
				return false
			}
		}
	}
	return true
}

func nptSafe(p string) bool {
	if p == "" {
		return true
	}
	plain := true
	for i := 0; i < len(p); i++ {
		c := p[i]
		if !strings.ContainsRune("0123456789+-._abcdefinptxyABCDEFINPTXY", rune(c)) || c >= 0x80 {
			return true // strconv.ParseFloat certainly rejects it
		}
		if !(c >= '0' && c <= '9') && c != '.' {
			plain = false
		}
	}
	if !plain {
		return false
	}
	parts := strings.Split(p, ".")
	if len(parts) > 2 {
		return true // rejected
	}
	ip := strings.TrimLeft(parts[0], "0")
	if len(ip) > 6 {
		return false
	}
	if len(parts) == 2 && len(parts[1]) > 9 {
		f := parts[1][9:] + "00"
		two, _ := strconv.Atoi(f[:2])
		if two >= 25 && two < 75 {
			return false
		}
	}
	return true
}

// ---- well-formed values --------------------------------------------------------------------------

// valueCase: Unmarshal(Marshal(v)) == v on the real code, Marshal pure, model text == implementation
// text, model parse == implementation parse.
func (d *driver) valueCase(in *Input, name string, marshal func() (string, error), want string, valueTokens string, compareText bool) {
	var text, text2 string
	var err error
	out := guard(func() (string, error) {
		text, err = marshal()
		if err != nil {
			return "", err
		}
		text2, err = marshal()
		return "", err
	})
	if out.panic != "" || out.err != "" {
		d.viol("marshalling a well-formed value succeeds", "hdr-marshal-fails-"+in.Header, in, out.class())
		return
	}
	if text != text2 {
		d.viol("marshalling is a pure function of the value", "hdr-marshal-impure-"+in.Header, in, fmt.Sprintf("%q vs %q", text, text2))
	}
	back := unmarshalImpl(in.Header, base.HeaderValue{text})
	if back.panic != "" {
		d.viol("parsing any string never panics", "hdr-panic-"+in.Header, in, back.panic)
	} else if back.err != "" {
		d.viol("parsing the marshalled form yields an equal value", "hdr-roundtrip-"+in.Header, in, fmt.Sprintf("Marshal = %q; Unmarshal fails: %s", text, back.err))
	} else if back.enc != want {
		d.viol("parsing the marshalled form yields an equal value", "hdr-roundtrip-"+in.Header, in, fmt.Sprintf("Marshal = %q; Unmarshal = %s; value = %s", text, back.enc, want))
	}
	d.c.Dist(in.Header + ".value")
	cs := corr.Case{Name: name, Nontrivial: true}
	if compareText {
		cs.Ops = append(cs.Ops, "hdr "+in.Header+".m "+valueTokens)
		cs.Impl = append(cs.Impl, hx(text))
	}
	cs.Ops = append(cs.Ops, "hdr "+in.Header+".u "+hx(text))
	cs.Impl = append(cs.Impl, back.line())
	d.c.Add(cs)
}

func (d *driver) runValue(in *Input, name string) {
	switch in.Header {
	case "transport":
		h := in.Transport.Go()
		want := encTransport(&h)
		d.valueCase(in, name, func() (string, error) { return h.Marshal()[0], nil }, want, want, true)
	case "transports":
		var hs headers.Transports
		for i := range in.Transports {
			hs = append(hs, in.Transports[i].Go())
		}
		want := encTransports(hs)
		d.valueCase(in, name, func() (string, error) { return hs.Marshal()[0], nil }, want, want, true)
	case "session":
		h := headers.Session{Session: string(in.Session.Session), Timeout: in.Session.Timeout}
		want := encSession(&h)
		d.valueCase(in, name, func() (string, error) { return h.Marshal()[0], nil }, want, want, true)
	case "rtpinfo":
		var h headers.RTPInfo
		for _, e := range in.RTPInfo {
			h = append(h, &headers.RTPInfoEntry{URL: string(e.URL), SequenceNumber: e.Seq, Timestamp: e.TS})
		}
		want := encRTPInfo(h)
		d.valueCase(in, name, func() (string, error) { return h.Marshal()[0], nil }, want, want, true)
	case "range":
		h := in.Range.Go()
		want := encRange(&h)
		text := h.Marshal()[0]
		// Go prints NPT seconds through float64; the text is compared with the model's exact decimal
		// only when Go's text IS the exact decimal (all but a few values per million); otherwise the
		// oracle checks the assumption the round-trip theorem rests on: the printed decimal lies
		// within half a nanosecond of the value.
		exact := true
		if in.Range.Kind == "npt" {
			exact = nptTextExact(text, in.Range)
			if !exact {
				d.c.Dist("range.npt-text-inexact")
			}
			if msg := nptTextNear(text, in.Range); msg != "" {
				d.viol("parsing the marshalled form yields an equal value", "hdr-npt-text-far", in, msg)
			}
		}
		d.valueCase(in, name, func() (string, error) { return h.Marshal()[0], nil }, want, want, exact)
	case "authenticate":
		h := in.Authenticate.Go()
		want := encAuthenticate(&h)
		d.valueCase(in, name, func() (string, error) { return h.Marshal()[0], nil }, want, want, true)
	case "authorization":
		h := in.Authorization.Go()
		want := encAuthorization(&h)
		d.valueCase(in, name, func() (string, error) { return h.Marshal()[0], nil }, want, want, true)
	case "keymgmt":
		h := headers.KeyMgmt{URL: string(in.KeyMgmt.URL), MikeyMessage: in.KeyMgmt.Msg.Go()}
		want := encKeyMgmt(&h)
		d.valueCase(in, name, func() (string, error) {
			v, err := h.Marshal()
			if err != nil {
				return "", err
			}
			return v[0], nil
		}, want, want, true)
	case "mikey":
		d.runMikeyValue(in, name)
	}
}

func exactDecimal(ns int64) string {
	s := fmt.Sprintf("%d.%09d", ns/1000000000, ns%1000000000)
	s = strings.TrimRight(s, "0")
	return strings.TrimSuffix(s, ".")
}

func nptTimes(r *RangeV) []int64 {
	ts := []int64{r.NptStart}
	if r.NptEnd != nil {
		ts = append(ts, *r.NptEnd)
	}
	return ts
}

func nptTexts(text string) []string {
	text = strings.TrimPrefix(text, "npt=")
	if i := strings.IndexByte(text, ';'); i >= 0 {
		text = text[:i]
	}
	return strings.Split(text, "-")
}

func nptTextExact(text string, r *RangeV) bool {
	parts := nptTexts(text)
	for i, ns := range nptTimes(r) {
		if i >= len(parts) || parts[i] != exactDecimal(ns) {
			return false
		}
	}
	return true
}

// nptTextNear: every printed time is a plain decimal within 0.25 ns of the value (exact rational
// arithmetic; 0.25 rather than 0.5 because the model leaves the band [0.25, 0.75) unmodelled).
func nptTextNear(text string, r *RangeV) string {
	parts := nptTexts(text)
	for i, ns := range nptTimes(r) {
		if i >= len(parts) {
			return "missing time in " + text
		}
		v, ok := new(big.Rat).SetString(parts[i])
		if !ok || strings.ContainsAny(parts[i], "eE+-/") {
			return fmt.Sprintf("printed time %q is not a plain decimal", parts[i])
		}
		diff := new(big.Rat).Sub(new(big.Rat).Mul(v, big.NewRat(1000000000, 1)), new(big.Rat).SetInt64(ns))
		if diff.Abs(diff).Cmp(big.NewRat(1, 4)) >= 0 {
			return fmt.Sprintf("printed time %q is %s ns away from %d ns", parts[i], diff.FloatString(3), ns)
		}
	}
	return ""
}

// ---- MIKEY ---------------------------------------------------------------------------------------

func mikeyUnmarshal(b []byte) parseOut {
	return guard(func() (string, error) {
		var m mikey.Message
		err := m.Unmarshal(b)
		if err != nil {
			return "", err
		}
		return encMessage(&m), nil
	})
}

func (d *driver) runMikeyValue(in *Input, name string) {
	m := in.Mikey.Go()
	want := encMessage(m)
	var b1, b2 []byte
	out := guard(func() (string, error) {
		var err error
		b1, err = m.Marshal()
		if err != nil {
			return "", err
		}
		b2, err = m.Marshal()
		return "", err
	})
	if out.panic != "" || out.err != "" {
		d.viol("marshalling a well-formed value succeeds", "hdr-marshal-fails-mikey", in, out.class())
		return
	}
	if !bytes.Equal(b1, b2) {
		d.viol("marshalling is a pure function of the value", "hdr-marshal-impure-mikey", in, "two calls differ")
	}
	back := mikeyUnmarshal(b1)
	if back.panic != "" {
		d.viol("parsing any string never panics", "hdr-panic-mikey", in, back.panic)
	} else if back.err != "" || back.enc != want {
		d.viol("parsing the marshalled form yields an equal value", "hdr-roundtrip-mikey", in, fmt.Sprintf("Marshal = %x; Unmarshal = %s; value = %s", b1, back.class(), want))
	}
	d.c.Dist("mikey.value")
	d.c.Add(corr.Case{Name: name, Nontrivial: true,
		Ops:  []string{"hdr mikey.m " + want, "hdr mikey.u " + hx(string(b1))},
		Impl: []string{hx(string(b1)), back.line()}})
}

// runMikeyLoose: a message that need not be well-formed (lengths beyond their wire fields, unsupported
// type bytes): Marshal and Unmarshal of the implementation against the model, no round-trip claim.
func (d *driver) runMikeyLoose(in *Input, name string) {
	m := in.Mikey.Go()
	var b1 []byte
	out := guard(func() (string, error) {
		var err error
		b1, err = m.Marshal()
		return "", err
	})
	if out.panic != "" {
		// Marshal of an arbitrary struct value is outside the property (it speaks of well-formed values);
		// still worth knowing
		d.c.Dist("mikey.loose.marshal-panic")
		return
	}
	if out.err != "" {
		d.c.Dist("mikey.loose.marshal-error")
		return
	}
	back := mikeyUnmarshal(b1)
	if back.panic != "" {
		d.viol("parsing any string never panics", "hdr-panic-mikey", in, back.panic)
	}
	d.c.Dist("mikey.loose")
	d.c.Add(corr.Case{Name: name, Nontrivial: true,
		Ops:  []string{"hdr mikey.m " + encMessage(m), "hdr mikey.u " + hx(string(b1))},
		Impl: []string{hx(string(b1)), back.line()}})
}

func (d *driver) runMikeyBytes(in *Input, name string) {
	b := []byte(in.Strs[0])
	first := mikeyUnmarshal(b)
	if first.panic != "" {
		d.viol("parsing any string never panics", "hdr-panic-mikey", in, first.panic)
	}
	for i := 1; i < 4; i++ {
		if o := mikeyUnmarshal(b); o.class() != first.class() {
			d.viol("the same input always produces the same value or the same failure", "hdr-nondeterministic-parse", in, "mikey: "+first.class()+" vs "+o.class())
		}
	}
	if first.err != "" {
		d.c.Dist("mikey.bytes.err")
	} else {
		d.c.Dist("mikey.bytes.ok")
	}
	d.c.Add(corr.Case{Name: name, Nontrivial: true, Ops: []string{"hdr mikey.u " + hx(string(b))}, Impl: []string{first.line()}})
}

// ---- auxiliary ops: the standard-library models and the tokenizer --------------------------------

func (d *driver) runAux(in *Input, name string) {
	arg := func(i int) string {
		if i < len(in.Strs) {
			return string(in.Strs[i])
		}
		return ""
	}
	switch in.Header {
	case "kv":
		s, sep := arg(0), byte(in.Sep)
		var first string
		for i := 0; i < repeats; i++ {
			out := guard(func() (string, error) {
				keys, kvs, err := headers.VerifKeyValParse(s, sep)
				if err != nil {
					return "", err
				}
				if len(keys) != len(kvs) {
					return "", fmt.Errorf("verif: %d keys but %d map entries", len(keys), len(kvs))
				}
				f := []string{fmt.Sprint(len(keys))}
				for _, k := range keys {
					f = append(f, encS(k), encS(kvs[k]))
				}
				return strings.Join(f, " "), nil
			})
			if out.panic != "" {
				d.viol("parsing any string never panics", "hdr-panic-kv", in, out.panic)
			}
			if strings.HasPrefix(out.err, "verif:") {
				d.viol("key list and map agree", "hdr-kv-keys", in, out.err)
			}
			if i == 0 {
				first = out.class()
				d.c.Add(corr.Case{Name: name, Nontrivial: true, Ops: []string{fmt.Sprintf("hdr kv.u %d %s", sep, hx(s))}, Impl: []string{out.line()}})
			} else if out.class() != first {
				d.viol("the same input always produces the same value or the same failure", "hdr-nondeterministic-parse", in, "kv: "+first+" vs "+out.class())
			}
		}
		d.c.Dist("aux.kv")
	case "b64":
		s := arg(0)
		dec, err := base64.StdEncoding.DecodeString(s)
		line := "err"
		if err == nil {
			line = "ok " + hx(string(dec))
		}
		d.c.Add(corr.Case{Name: name, Nontrivial: true,
			Ops:  []string{"hdr b64.d " + hx(s), "hdr b64.e " + hx(s)},
			Impl: []string{line, hx(base64.StdEncoding.EncodeToString([]byte(s)))}})
		d.c.Dist("aux.b64")
	case "lower":
		v, t := arg(0), arg(1)
		d.c.Add(corr.Case{Name: name, Nontrivial: true, Ops: []string{"hdr lower.eq " + hx(v) + " " + hx(t)}, Impl: []string{corr.B(strings.ToLower(v) == t)}})
		d.c.Dist("aux.lower")
	case "float":
		s := arg(0)
		if !nptSafe(s) {
			d.c.Dist("aux.float.outside-model-domain")
			d.c.CountOnly(name+s, true)
			return
		}
		f, err := strconv.ParseFloat(s, 64)
		line := "err"
		if err == nil {
			line = fmt.Sprintf("ok %d", int64(time.Duration(math.Round(f*float64(time.Second)))))
		}
		d.c.Add(corr.Case{Name: name, Nontrivial: true, Ops: []string{"hdr float.ns " + hx(s)}, Impl: []string{line}})
		d.c.Dist("aux.float")
	case "utc":
		s := arg(0)
		t, err := time.Parse("20060102T150405Z", s)
		line := "err"
		if err == nil {
			line = "ok " + encCivil(t)
		}
		d.c.Add(corr.Case{Name: name, Nontrivial: true, Ops: []string{"hdr utc.p " + hx(s)}, Impl: []string{line}})
		d.c.Dist("aux.utc")
	}
}

func (d *driver) run(in *Input, name string) {
	switch in.Kind {
	case "string":
		d.runString(in, name)
	case "value":
		d.runValue(in, name)
	case "bytes":
		d.runMikeyBytes(in, name)
	case "loose":
		d.runMikeyLoose(in, name)
	case "aux":
		d.runAux(in, name)
	}
}

// checkRuneTable: the fact `lowerEq` (Model/Headers/Basic.lean) rests on – U+0130 and U+212A are the
// only non-ASCII runes whose lower case is ASCII.
func (d *driver) checkRuneTable() {
	var got []string
	for r := rune(0x80); r <= unicode.MaxRune; r++ {
		if l := unicode.ToLower(r); l < 0x80 {
			got = append(got, fmt.Sprintf("U+%04X->%q", r, l))
		}
	}
	if strings.Join(got, " ") != `U+0130->'i' U+212A->'k'` {
		d.c.Violate(corr.Violation{Property: prop, Clause: "model assumption about unicode.ToLower", Key: "hdr-rune-table", Where: "unicode tables of the running Go",
			Input: got, Detail: "non-ASCII runes with ASCII lower case: " + strings.Join(got, " ")})
	}
}

// corpus: failing inputs of the defects that were repaired (known-findings.txt `fixed:` lines) and
// other minimised cases; they run first so that a regression is reported again.
func (d *driver) corpus() {
	str := func(header string, strs ...string) *Input {
		in := &Input{Kind: "string", Header: header}
		for _, s := range strs {
			in.Strs = append(in.Strs, S(s))
		}
		return in
	}
	for i, in := range []*Input{
		str("transport", "RTP/AVP;RTP/AVP/TCP;unicast;multicast"),
		str("transport", "RTP/AVP;ttl=x;interleaved=y"),
		str("transport", "RTP/AVP;mode=zzz;port=1-2-3;client_port=;server_port=a"),
		str("range", "npt=1-2;smpte=0:00:01-;clock=20060102T150405Z-"),
		str("range", "npt=x-;time=y;clock=z"),
		str("rtpinfo", "url=a;seq=x;rtptime=y"),
		str("keymgmt", "prot=x;data=!!"),
		str("range", "npt=1.001-"),
		str("authorization", "Basic dXNlcjpteTpwYXNz"),
	} {
		// the map-order defects showed up in roughly one run out of ten: repeat the corpus strings
		for k := 0; k < 8; k++ {
			d.run(in, fmt.Sprintf("corpus-%d", i))
		}
	}
	ns := int64(1001000000)
	d.run(&Input{Kind: "value", Header: "range", Range: &RangeV{Kind: "npt", NptStart: ns}}, "corpus-npt-1.001")
	d.run(&Input{Kind: "value", Header: "range", Range: &RangeV{Kind: "npt", NptStart: 1118000000}}, "corpus-npt-1.118-inexact-text")
	d.run(&Input{Kind: "value", Header: "authorization", Authorization: &AuthorizationV{Method: 0, Username: "user", BasicPass: "my:pass"}}, "corpus-basic-colon")
	// corpus files
	files, _ := filepath.Glob(filepath.Join(corpusDir(), "*.json"))
	sort.Strings(files)
	for _, f := range files {
		b, err := os.ReadFile(f)
		if err != nil {
			continue
		}
		var in Input
		if json.Unmarshal(b, &in) == nil && in.Kind != "" {
			d.run(&in, "corpus-"+filepath.Base(f))
			d.c.Dist("corpus-file")
		}
	}
}

func corpusDir() string {
	if d := os.Getenv("VERIF_ROOT"); d != "" {
		return filepath.Join(d, "corpus", prop)
	}
	return "/verif/corpus/" + prop
}

// Run is the domain entry point.
func Run(c *corr.Ctx) {
	c.Rule("per header: well-formed values drawn from the header's grammar (all profile/protocol/delivery combinations, optional fields, " +
		"boundary ports/ttl/ssrc, NPT with ms/us/ns resolution, SMPTE, UTC incl. leap days, 1..4 RTP-Info entries, Basic/Digest, MIKEY with every " +
		"payload kind) -> Marshal twice, Unmarshal, compare, and compare with the model; strings: marshalled texts mutated (byte edits, field " +
		"duplication/swap/conflicting or invalid fields), fields drawn from per-header pools of valid/invalid/conflicting elements, random bytes; " +
		"each parsed 16 times by the implementation; exhaustive small scopes: the tokenizer on every string over {a = ; \" space ,} up to length 5 (7 thorough), " +
		"every ordered pair (thorough: triples) of pool elements per header, every single-byte change / prefix of one MIKEY message, base64 over a 6-letter alphabet, " +
		"every day of 4 years, NPT millisecond sweep; a case is non-trivial always; distinct = distinct op lines")
	d := &driver{c: c, g: gen{c.Rng}}
	if c.Replay != nil {
		var in Input
		if err := json.Unmarshal(c.Replay, &in); err != nil {
			panic(err)
		}
		for k := 0; k < 8; k++ {
			d.run(&in, "replay")
		}
		return
	}
	d.checkRuneTable()
	d.corpus()
	d.values()
	d.strings()
	d.aux()
	d.sweeps()
}
