package hdr

import (
	"math/rand/v2"
	"time"

	"github.com/bluenviron/gortsplib/v5/pkg/headers"
	"github.com/bluenviron/gortsplib/v5/pkg/mikey"
)

// Replayable, JSON-friendly images of the header values (the generators draw these from each
// header's WellFormed predicate – the same predicates as in lean/Rtsp/Props/C09.lean).

type TransportV struct {
	Profile     int     `json:"profile"`
	Protocol    int     `json:"protocol"`
	Delivery    *int    `json:"delivery,omitempty"`
	Source      *S      `json:"source,omitempty"`
	Destination *S      `json:"destination,omitempty"`
	Interleaved *[2]int `json:"interleaved,omitempty"`
	TTL         *uint   `json:"ttl,omitempty"`
	Ports       *[2]int `json:"ports,omitempty"`
	ClientPorts *[2]int `json:"client_ports,omitempty"`
	ServerPorts *[2]int `json:"server_ports,omitempty"`
	SSRC        *uint32 `json:"ssrc,omitempty"`
	Mode        *int    `json:"mode,omitempty"`
}

func sp(s *S) *string {
	if s == nil {
		return nil
	}
	t := string(*s)
	return &t
}

func (v *TransportV) Go() headers.Transport {
	h := headers.Transport{Profile: headers.TransportProfile(v.Profile), Protocol: headers.TransportProtocol(v.Protocol),
		Source2: sp(v.Source), Destination2: sp(v.Destination), InterleavedIDs: v.Interleaved, TTL: v.TTL, Ports: v.Ports,
		ClientPorts: v.ClientPorts, ServerPorts: v.ServerPorts, SSRC: v.SSRC}
	if v.Delivery != nil {
		d := headers.TransportDelivery(*v.Delivery)
		h.Delivery = &d
	}
	if v.Mode != nil {
		m := headers.TransportMode(*v.Mode)
		h.Mode = &m
	}
	return h
}

type SessionV struct {
	Session S     `json:"session"`
	Timeout *uint `json:"timeout,omitempty"`
}

type RTPInfoEntryV struct {
	URL S       `json:"url"`
	Seq *uint16 `json:"seq,omitempty"`
	TS  *uint32 `json:"ts,omitempty"`
}

type CivilV struct {
	Y, Mo, D, H, Mi, S, Ns int
}

func (c *CivilV) Go() time.Time {
	return time.Date(c.Y, time.Month(c.Mo), c.D, c.H, c.Mi, c.S, c.Ns, time.UTC)
}

type SmpteV struct {
	Ns       int64 `json:"ns"`
	Frame    uint  `json:"frame"`
	Subframe uint  `json:"subframe"`
}

type RangeV struct {
	Kind       string  `json:"kind"` // smpte | npt | clock
	SmpteStart *SmpteV `json:"smpte_start,omitempty"`
	SmpteEnd   *SmpteV `json:"smpte_end,omitempty"`
	NptStart   int64   `json:"npt_start,omitempty"`
	NptEnd     *int64  `json:"npt_end,omitempty"`
	UTCStart   *CivilV `json:"utc_start,omitempty"`
	UTCEnd     *CivilV `json:"utc_end,omitempty"`
	Time       *CivilV `json:"time,omitempty"`
}

func (v *RangeV) Go() headers.Range {
	var h headers.Range
	switch v.Kind {
	case "smpte":
		r := &headers.RangeSMPTE{Start: headers.RangeSMPTETime{Time: time.Duration(v.SmpteStart.Ns), Frame: v.SmpteStart.Frame, Subframe: v.SmpteStart.Subframe}}
		if v.SmpteEnd != nil {
			r.End = &headers.RangeSMPTETime{Time: time.Duration(v.SmpteEnd.Ns), Frame: v.SmpteEnd.Frame, Subframe: v.SmpteEnd.Subframe}
		}
		h.Value = r
	case "npt":
		r := &headers.RangeNPT{Start: time.Duration(v.NptStart)}
		if v.NptEnd != nil {
			d := time.Duration(*v.NptEnd)
			r.End = &d
		}
		h.Value = r
	default:
		r := &headers.RangeUTC{Start: v.UTCStart.Go()}
		if v.UTCEnd != nil {
			t := v.UTCEnd.Go()
			r.End = &t
		}
		h.Value = r
	}
	if v.Time != nil {
		t := v.Time.Go()
		h.Time = &t
	}
	return h
}

type AuthenticateV struct {
	Method    int  `json:"method"`
	Realm     S    `json:"realm"`
	Nonce     S    `json:"nonce"`
	Opaque    *S   `json:"opaque,omitempty"`
	Stale     *S   `json:"stale,omitempty"`
	Algorithm *int `json:"algorithm,omitempty"`
}

func alg(a *int) *headers.AuthAlgorithm {
	if a == nil {
		return nil
	}
	x := headers.AuthAlgorithm(*a)
	return &x
}

func (v *AuthenticateV) Go() headers.Authenticate {
	return headers.Authenticate{Method: headers.AuthMethod(v.Method), Realm: string(v.Realm), Nonce: string(v.Nonce),
		Opaque: sp(v.Opaque), Stale: sp(v.Stale), Algorithm: alg(v.Algorithm)}
}

type AuthorizationV struct {
	Method    int  `json:"method"`
	Username  S    `json:"username"`
	BasicPass S    `json:"basic_pass"`
	Realm     S    `json:"realm"`
	Nonce     S    `json:"nonce"`
	URI       S    `json:"uri"`
	Response  S    `json:"response"`
	Opaque    *S   `json:"opaque,omitempty"`
	Algorithm *int `json:"algorithm,omitempty"`
}

func (v *AuthorizationV) Go() headers.Authorization {
	return headers.Authorization{Method: headers.AuthMethod(v.Method), Username: string(v.Username), BasicPass: string(v.BasicPass),
		Realm: string(v.Realm), Nonce: string(v.Nonce), URI: string(v.URI), Response: string(v.Response), Opaque: sp(v.Opaque), Algorithm: alg(v.Algorithm)}
}

type KeyDataV struct {
	Type    uint8 `json:"type"`
	KV      uint8 `json:"kv"`
	KeyData S     `json:"key_data"`
	SPI     S     `json:"spi"`
}

type ParamV struct {
	Type  uint8 `json:"type"`
	Value S     `json:"value"`
}

type PayloadV struct {
	Kind     string     `json:"kind"` // K | T | S | R
	EncrAlg  uint8      `json:"encr_alg,omitempty"`
	MacAlg   uint8      `json:"mac_alg,omitempty"`
	Subs     []KeyDataV `json:"subs,omitempty"`
	TSType   uint8      `json:"ts_type,omitempty"`
	TSValue  uint64     `json:"ts_value,omitempty"`
	PolicyNo uint8      `json:"policy_no,omitempty"`
	ProtType uint8      `json:"prot_type,omitempty"`
	Params   []ParamV   `json:"params,omitempty"`
	Data     S          `json:"data,omitempty"`
}

type CSEntryV struct {
	PolicyNo uint8  `json:"policy_no"`
	SSRC     uint32 `json:"ssrc"`
	ROC      uint32 `json:"roc"`
}

type MessageV struct {
	Version  uint8      `json:"version"`
	DataType uint8      `json:"data_type"`
	V        bool       `json:"v"`
	PRFFunc  uint8      `json:"prf_func"`
	CSBID    uint32     `json:"csb_id"`
	MapType  uint8      `json:"map_type"`
	CS       []CSEntryV `json:"cs"`
	Payloads []PayloadV `json:"payloads"`
}

func (v *MessageV) Go() *mikey.Message {
	m := &mikey.Message{Header: mikey.Header{Version: v.Version, DataType: mikey.DataType(v.DataType), V: v.V, PRFFunc: v.PRFFunc,
		CSBID: v.CSBID, CSIDMapType: mikey.CSIDMapType(v.MapType)}}
	for _, e := range v.CS {
		m.Header.CSIDMapInfo = append(m.Header.CSIDMapInfo, mikey.SRTPIDEntry{PolicyNo: e.PolicyNo, SSRC: e.SSRC, ROC: e.ROC})
	}
	for _, p := range v.Payloads {
		switch p.Kind {
		case "K":
			k := &mikey.PayloadKEMAC{EncrAlg: mikey.PayloadKEMACEncrAlg(p.EncrAlg), MacAlg: mikey.PayloadKEMACMacAlg(p.MacAlg)}
			for _, s := range p.Subs {
				k.SubPayloads = append(k.SubPayloads, &mikey.SubPayloadKeyData{Type: mikey.SubPayloadKeyDataType(s.Type),
					KV: mikey.SubPayloadKeyDataKV(s.KV), KeyData: []byte(s.KeyData), SPI: []byte(s.SPI)})
			}
			m.Payloads = append(m.Payloads, k)
		case "T":
			m.Payloads = append(m.Payloads, &mikey.PayloadT{TSType: p.TSType, TSValue: p.TSValue})
		case "S":
			s := &mikey.PayloadSP{PolicyNo: p.PolicyNo, ProtType: mikey.PayloadSPProtType(p.ProtType)}
			for _, pp := range p.Params {
				s.PolicyParams = append(s.PolicyParams, mikey.PayloadSPPolicyParam{Type: mikey.PayloadSPPolicyParamType(pp.Type), Value: []byte(pp.Value)})
			}
			m.Payloads = append(m.Payloads, s)
		default:
			m.Payloads = append(m.Payloads, &mikey.PayloadRAND{Data: []byte(p.Data)})
		}
	}
	return m
}

type KeyMgmtV struct {
	URL S        `json:"url"`
	Msg MessageV `json:"msg"`
}

// ---- generators (well-formed values) ------------------------------------------------------------

type gen struct{ r *rand.Rand }

func (g gen) pick(xs ...int) int { return xs[g.r.IntN(len(xs))] }

// text draws a string over a byte alphabet; `forbid` bytes are skipped.
func (g gen) text(maxLen int, forbid string) S {
	n := g.r.IntN(maxLen + 1)
	alpha := "abcXYZ019 =:;,./-_\"'@%+?&\\\t"
	b := make([]byte, 0, n)
	for len(b) < n {
		var c byte
		switch g.r.IntN(12) {
		case 0:
			c = byte(g.r.IntN(256))
		case 1:
			c = byte(0x80 + g.r.IntN(128))
		default:
			c = alpha[g.r.IntN(len(alpha))]
		}
		if c == '\n' || c == '\r' {
			continue
		}
		skip := false
		for i := 0; i < len(forbid); i++ {
			if forbid[i] == c {
				skip = true
			}
		}
		if !skip {
			b = append(b, c)
		}
	}
	return S(b)
}

// value of an unquoted `key=value` element: not empty, no separator, does not start with a quote
func (g gen) unquoted(forbid string) S {
	for {
		s := g.text(12, forbid)
		if len(s) > 0 && s[0] != '"' {
			return s
		}
	}
}

func (g gen) port31() int {
	switch g.r.IntN(8) {
	case 0:
		return 0
	case 1:
		return 65535
	case 2:
		return 1<<31 - 1
	case 3:
		return g.r.IntN(1 << 31)
	default:
		return g.r.IntN(65536)
	}
}

func (g gen) u32() uint32 {
	switch g.r.IntN(6) {
	case 0:
		return 0
	case 1:
		return 1<<32 - 1
	case 2:
		return uint32(g.r.IntN(256))
	default:
		return g.r.Uint32()
	}
}

func (g gen) pair() *[2]int {
	if g.r.IntN(3) == 0 {
		p := g.port31()
		if p < 1<<31-1 {
			return &[2]int{p, p + 1}
		}
	}
	return &[2]int{g.port31(), g.port31()}
}

// transport draws a well-formed Transport; `noComma` additionally keeps ',' out of the host fields
// (the Transports header splits on ',').
func (g gen) transport(noComma bool) TransportV {
	forbid := ";"
	if noComma {
		forbid = ";,"
	}
	v := TransportV{Profile: g.r.IntN(2), Protocol: g.r.IntN(2)}
	opt := func() bool { return g.r.IntN(3) == 0 }
	if g.r.IntN(2) == 0 {
		d := g.r.IntN(2)
		v.Delivery = &d
	}
	if opt() {
		s := g.unquoted(forbid)
		v.Source = &s
	}
	if opt() {
		s := g.unquoted(forbid)
		v.Destination = &s
	}
	if opt() {
		v.Interleaved = g.pair()
	}
	if opt() {
		t := uint(g.u32())
		v.TTL = &t
	}
	if opt() {
		v.Ports = g.pair()
	}
	if opt() {
		v.ClientPorts = g.pair()
	}
	if opt() {
		v.ServerPorts = g.pair()
	}
	if opt() {
		s := g.u32()
		v.SSRC = &s
	}
	if opt() {
		m := g.r.IntN(2)
		v.Mode = &m
	}
	return v
}

func (g gen) session() SessionV {
	v := SessionV{Session: g.text(16, ";")}
	if g.r.IntN(2) == 0 {
		t := uint(g.u32())
		v.Timeout = &t
	}
	return v
}

func (g gen) rtpInfo() []RTPInfoEntryV {
	n := 1 + g.r.IntN(4)
	var es []RTPInfoEntryV
	for i := 0; i < n; i++ {
		var u S
		for {
			u = g.text(20, ";,")
			if len(u) == 0 || u[0] != '"' {
				break
			}
		}
		if g.r.IntN(3) == 0 {
			u = S("rtsp://127.0.0.1/test.mkv/track" + string(rune('0'+i)))
		}
		e := RTPInfoEntryV{URL: u}
		if g.r.IntN(3) != 0 {
			s := uint16(g.pick(0, 65535, g.r.IntN(65536)))
			e.Seq = &s
		}
		if g.r.IntN(3) != 0 {
			t := g.u32()
			e.TS = &t
		}
		es = append(es, e)
	}
	return es
}

func (g gen) civil() *CivilV {
	c := &CivilV{Y: g.pick(0, 1, 1969, 1970, 2000, 2024, 2100, 9999, g.r.IntN(10000)), Mo: 1 + g.r.IntN(12),
		H: g.pick(0, 23, g.r.IntN(24)), Mi: g.pick(0, 59, g.r.IntN(60)), S: g.pick(0, 59, g.r.IntN(60))}
	dim := time.Date(c.Y, time.Month(c.Mo)+1, 0, 0, 0, 0, 0, time.UTC).Day()
	c.D = g.pick(1, dim, 1+g.r.IntN(dim))
	if g.r.IntN(6) == 0 {
		c.Mo, c.D = 2, 28
		if c.Y%4 == 0 && (c.Y%100 != 0 || c.Y%400 == 0) {
			c.D = 29
		}
	}
	return c
}

// nptNs draws a non-negative duration below 10^15 ns; mostly with millisecond resolution (the
// resolution named by the property), sometimes with micro- or nanosecond resolution.
func (g gen) nptNs() int64 {
	var ms int64
	switch g.r.IntN(6) {
	case 0:
		ms = int64(g.r.IntN(5000))
	case 1:
		ms = int64(g.r.IntN(100000)) * 1000
	case 2:
		ms = g.r.Int64N(1000000000)
	case 3:
		ms = 999999999 - int64(g.r.IntN(1000))
	default:
		ms = g.r.Int64N(100000000)
	}
	ns := ms * 1000000
	switch g.r.IntN(10) {
	case 0:
		ns += int64(g.r.IntN(1000)) * 1000
	case 1:
		ns += int64(g.r.IntN(1000000))
	}
	return ns
}

func (g gen) smpte() *SmpteV {
	s := &SmpteV{Ns: int64(g.pick(0, 59, 60, 3599, 3600, 86399, 360000, g.r.IntN(9000000))) * 1000000000}
	switch g.r.IntN(4) {
	case 0:
		s.Frame = uint(g.pick(1, 9, 10, 29, 1<<32-1))
	case 1:
		s.Frame = uint(g.pick(0, 7, 25))
		s.Subframe = uint(g.pick(1, 9, 10, 99, 1<<32-1))
	}
	return s
}

func (g gen) rangeV() RangeV {
	var v RangeV
	switch g.r.IntN(4) {
	case 0:
		v.Kind = "smpte"
		v.SmpteStart = g.smpte()
		if g.r.IntN(2) == 0 {
			v.SmpteEnd = g.smpte()
		}
	case 1:
		v.Kind = "clock"
		v.UTCStart = g.civil()
		if g.r.IntN(2) == 0 {
			v.UTCEnd = g.civil()
		}
	default:
		v.Kind = "npt"
		v.NptStart = g.nptNs()
		if g.r.IntN(2) == 0 {
			e := g.nptNs()
			v.NptEnd = &e
		}
	}
	if g.r.IntN(3) == 0 {
		v.Time = g.civil()
	}
	return v
}

func (g gen) optQ() *S {
	if g.r.IntN(2) == 0 {
		return nil
	}
	s := g.text(12, "\"")
	return &s
}

func (g gen) optAlg() *int {
	if g.r.IntN(2) == 0 {
		return nil
	}
	a := g.r.IntN(2)
	return &a
}

func (g gen) authenticate() AuthenticateV {
	if g.r.IntN(3) == 0 {
		return AuthenticateV{Method: 0, Realm: g.text(12, "\"")}
	}
	return AuthenticateV{Method: 1, Realm: g.text(12, "\""), Nonce: g.text(20, "\""), Opaque: g.optQ(), Stale: g.optQ(), Algorithm: g.optAlg()}
}

func (g gen) authorization() AuthorizationV {
	if g.r.IntN(3) == 0 {
		return AuthorizationV{Method: 0, Username: g.text(10, ":"), BasicPass: g.text(14, "")}
	}
	return AuthorizationV{Method: 1, Username: g.text(10, "\""), Realm: g.text(10, "\""), Nonce: g.text(16, "\""), URI: g.text(24, "\""),
		Response: g.text(32, "\""), Opaque: g.optQ(), Algorithm: g.optAlg()}
}

func (g gen) bytesN(n int) S {
	b := make([]byte, n)
	for i := range b {
		b[i] = byte(g.r.IntN(256))
	}
	return S(b)
}

func (g gen) payload(kind int) PayloadV {
	switch kind {
	case 0:
		p := PayloadV{Kind: "K"}
		n := 1 + g.r.IntN(3)
		for i := 0; i < n; i++ {
			k := KeyDataV{Type: 2, KV: uint8(g.r.IntN(2)), KeyData: g.bytesN(g.pick(0, 1, 16, 30, 46, g.r.IntN(80)))}
			if k.KV == 1 {
				k.SPI = g.bytesN(g.pick(0, 1, 4, 255, g.r.IntN(20)))
			}
			p.Subs = append(p.Subs, k)
		}
		return p
	case 1:
		return PayloadV{Kind: "T", TSValue: g.r.Uint64()}
	case 2:
		p := PayloadV{Kind: "S", PolicyNo: uint8(g.r.IntN(256))}
		n := g.r.IntN(8)
		for i := 0; i < n; i++ {
			p.Params = append(p.Params, ParamV{Type: uint8(g.pick(g.r.IntN(13), g.r.IntN(256))), Value: g.bytesN(g.pick(0, 1, 1, 1, 2, 255, g.r.IntN(8)))})
		}
		return p
	default:
		return PayloadV{Kind: "R", Data: g.bytesN(g.pick(16, 16, 17, 32, 255, 16+g.r.IntN(240)))}
	}
}

func (g gen) message() MessageV {
	m := MessageV{Version: 1, CSBID: g.u32()}
	n := g.pick(0, 1, 1, 2, 3, g.r.IntN(6))
	if g.r.IntN(40) == 0 {
		n = 255
	}
	for i := 0; i < n; i++ {
		m.CS = append(m.CS, CSEntryV{PolicyNo: uint8(g.r.IntN(256)), SSRC: g.u32(), ROC: g.u32()})
	}
	if g.r.IntN(3) == 0 {
		// the shape used by the library: T, RAND, SP, KEMAC
		for _, k := range []int{1, 3, 2, 0} {
			m.Payloads = append(m.Payloads, g.payload(k))
		}
		return m
	}
	np := g.r.IntN(6)
	for i := 0; i < np; i++ {
		m.Payloads = append(m.Payloads, g.payload(g.r.IntN(4)))
	}
	return m
}

func (g gen) keyMgmt() KeyMgmtV {
	u := g.text(24, "\"")
	if g.r.IntN(2) == 0 {
		u = "rtsp://127.0.0.1:8554/stream/trackID=0"
	}
	return KeyMgmtV{URL: u, Msg: g.message()}
}
