// Package hdr is the correspondence driver and property oracle of C09 (RTSP header codecs round-trip
// and parse deterministically): pkg/headers/{keyval,transport,transports,session,range,rtp_info,
// authenticate,authorization,key_mgmt}.go and pkg/mikey against lean/Rtsp/Model/Headers/*.lean and
// lean/Rtsp/Model/Mikey.lean.
package hdr

import (
	"encoding/hex"
	"encoding/json"
	"fmt"
	"strings"
	"time"

	"github.com/bluenviron/gortsplib/v5/pkg/headers"
	"github.com/bluenviron/gortsplib/v5/pkg/mikey"
)

// S is a Go string that is transported as hex in replay files (it may hold any bytes).
type S string

func (s S) MarshalJSON() ([]byte, error) {
	return json.Marshal(map[string]string{"hex": hex.EncodeToString([]byte(s)), "text": strings.ToValidUTF8(string(s), "?")})
}

func (s *S) UnmarshalJSON(b []byte) error {
	var m map[string]string
	if err := json.Unmarshal(b, &m); err != nil {
		var t string
		if err2 := json.Unmarshal(b, &t); err2 != nil {
			return err
		}
		*s = S(t)
		return nil
	}
	d, err := hex.DecodeString(m["hex"])
	if err != nil {
		return err
	}
	*s = S(d)
	return nil
}

// ---- canonical value text (the format of lean/Rtsp/Drv/Hdr.lean) -------------------------------

func hx(s string) string {
	if len(s) == 0 {
		return "-"
	}
	return hex.EncodeToString([]byte(s))
}

func encS(s string) string { return "s" + hex.EncodeToString([]byte(s)) }

func encOptS(s *string) string {
	if s == nil {
		return "-"
	}
	return encS(*s)
}

func encPair(p *[2]int) string {
	if p == nil {
		return "-"
	}
	return fmt.Sprintf("%d,%d", p[0], p[1])
}

func encTransport(h *headers.Transport) string {
	f := []string{"T", fmt.Sprint(int(h.Profile)), fmt.Sprint(int(h.Protocol))}
	if h.Delivery == nil {
		f = append(f, "-")
	} else {
		f = append(f, fmt.Sprint(int(*h.Delivery)))
	}
	f = append(f, encOptS(h.Source2), encOptS(h.Destination2), encPair(h.InterleavedIDs))
	if h.TTL == nil {
		f = append(f, "-")
	} else {
		f = append(f, fmt.Sprint(*h.TTL))
	}
	f = append(f, encPair(h.Ports), encPair(h.ClientPorts), encPair(h.ServerPorts))
	if h.SSRC == nil {
		f = append(f, "-")
	} else {
		f = append(f, fmt.Sprint(*h.SSRC))
	}
	if h.Mode == nil {
		f = append(f, "-")
	} else {
		f = append(f, fmt.Sprint(int(*h.Mode)))
	}
	return strings.Join(f, " ")
}

func encTransports(ts headers.Transports) string {
	f := []string{fmt.Sprint(len(ts))}
	for i := range ts {
		f = append(f, encTransport(&ts[i]))
	}
	return strings.Join(f, " ")
}

func encSession(h *headers.Session) string {
	t := "-"
	if h.Timeout != nil {
		t = fmt.Sprint(*h.Timeout)
	}
	return "S " + encS(h.Session) + " " + t
}

func encRTPInfo(h headers.RTPInfo) string {
	f := []string{"I", fmt.Sprint(len(h))}
	for _, e := range h {
		s, t := "-", "-"
		if e.SequenceNumber != nil {
			s = fmt.Sprint(*e.SequenceNumber)
		}
		if e.Timestamp != nil {
			t = fmt.Sprint(*e.Timestamp)
		}
		f = append(f, encS(e.URL), s, t)
	}
	return strings.Join(f, " ")
}

func encCivil(t time.Time) string {
	t = t.UTC()
	return fmt.Sprintf("%d,%d,%d,%d,%d,%d,%d", t.Year(), int(t.Month()), t.Day(), t.Hour(), t.Minute(), t.Second(), t.Nanosecond())
}

func encOptCivil(t *time.Time) string {
	if t == nil {
		return "-"
	}
	return encCivil(*t)
}

func encSmpte(t headers.RangeSMPTETime) string {
	return fmt.Sprintf("%d,%d,%d", int64(t.Time), t.Frame, t.Subframe)
}

func encRange(h *headers.Range) string {
	var f []string
	switch v := h.Value.(type) {
	case *headers.RangeSMPTE:
		e := "-"
		if v.End != nil {
			e = encSmpte(*v.End)
		}
		f = []string{"R", "smpte", encSmpte(v.Start), e}
	case *headers.RangeNPT:
		e := "-"
		if v.End != nil {
			e = fmt.Sprint(int64(*v.End))
		}
		f = []string{"R", "npt", fmt.Sprint(int64(v.Start)), e}
	case *headers.RangeUTC:
		f = []string{"R", "clock", encCivil(v.Start), encOptCivil(v.End)}
	default:
		f = []string{"R", "nil", "-", "-"}
	}
	f = append(f, encOptCivil(h.Time))
	return strings.Join(f, " ")
}

func encAlg(a *headers.AuthAlgorithm) string {
	if a == nil {
		return "-"
	}
	return fmt.Sprint(int(*a))
}

func encAuthenticate(h *headers.Authenticate) string {
	return strings.Join([]string{"A", fmt.Sprint(int(h.Method)), encS(h.Realm), encS(h.Nonce), encOptS(h.Opaque), encOptS(h.Stale), encAlg(h.Algorithm)}, " ")
}

func encAuthorization(h *headers.Authorization) string {
	return strings.Join([]string{"Z", fmt.Sprint(int(h.Method)), encS(h.Username), encS(h.BasicPass), encS(h.Realm), encS(h.Nonce),
		encS(h.URI), encS(h.Response), encOptS(h.Opaque), encAlg(h.Algorithm)}, " ")
}

func b01(b bool) string {
	if b {
		return "1"
	}
	return "0"
}

func encMessage(m *mikey.Message) string {
	h := m.Header
	f := []string{"M", fmt.Sprint(h.Version), fmt.Sprint(uint8(h.DataType)), b01(h.V), fmt.Sprint(h.PRFFunc), fmt.Sprint(h.CSBID),
		fmt.Sprint(uint8(h.CSIDMapType)), fmt.Sprint(len(h.CSIDMapInfo))}
	for _, e := range h.CSIDMapInfo {
		f = append(f, fmt.Sprint(e.PolicyNo), fmt.Sprint(e.SSRC), fmt.Sprint(e.ROC))
	}
	f = append(f, fmt.Sprint(len(m.Payloads)))
	for _, p := range m.Payloads {
		switch p := p.(type) {
		case *mikey.PayloadKEMAC:
			f = append(f, "K", fmt.Sprint(uint8(p.EncrAlg)), fmt.Sprint(uint8(p.MacAlg)), fmt.Sprint(len(p.SubPayloads)))
			for _, sp := range p.SubPayloads {
				f = append(f, fmt.Sprint(uint8(sp.Type)), fmt.Sprint(uint8(sp.KV)), hx(string(sp.KeyData)), hx(string(sp.SPI)))
			}
		case *mikey.PayloadT:
			f = append(f, "T", fmt.Sprint(p.TSType), fmt.Sprint(p.TSValue))
		case *mikey.PayloadSP:
			f = append(f, "S", fmt.Sprint(p.PolicyNo), fmt.Sprint(uint8(p.ProtType)), fmt.Sprint(len(p.PolicyParams)))
			for _, pp := range p.PolicyParams {
				f = append(f, fmt.Sprint(uint8(pp.Type)), hx(string(pp.Value)))
			}
		case *mikey.PayloadRAND:
			f = append(f, "R", hx(string(p.Data)))
		default:
			f = append(f, "?")
		}
	}
	return strings.Join(f, " ")
}

func encKeyMgmt(h *headers.KeyMgmt) string {
	if h.MikeyMessage == nil {
		return "K " + encS(h.URL) + " nil"
	}
	return "K " + encS(h.URL) + " " + encMessage(h.MikeyMessage)
}
