// Package corr is the shared machinery of the correspondence harness: a domain driver generates
// cases (operation lines + the real implementation's output lines), the Lean oracle is run on the
// same operation lines, and the two output streams are compared line by line.  A domain driver
// may also evaluate the property itself on the implementation's outputs (property oracle) and
// report violations with the concrete input.
package corr

import (
	"bufio"
	"bytes"
	"crypto/sha256"
	"encoding/hex"
	"fmt"
	"math/rand/v2"
	"os"
	"os/exec"
	"runtime/debug"
	"sort"
	"strings"
	"time"
)

// Case is one correspondence case: operation lines and what the implementation answered.
type Case struct {
	Name       string   `json:"name"`
	Ops        []string `json:"ops"`
	Impl       []string `json:"impl"`
	Nontrivial bool     `json:"nontrivial"`
}

// Disagreement is a case on which model and implementation differ.
type Disagreement struct {
	Case  string   `json:"case"`
	Ops   []string `json:"ops"`
	Line  int      `json:"line"`
	Op    string   `json:"op"`
	Impl  string   `json:"impl"`
	Model string   `json:"model"`
}

// Violation is a failure of the property itself on the implementation (or on the model).
type Violation struct {
	Property string `json:"property"`
	Clause   string `json:"clause"`
	Key      string `json:"key"` // matched against known-findings.txt
	Where    string `json:"where"`
	Input    any    `json:"input"`
	Detail   string `json:"detail"`
}

// Result is what one domain run reports.
type Result struct {
	Domain             string         `json:"domain"`
	Seed               uint64         `json:"seed"`
	Tier               string         `json:"tier"`
	Evaluations        int            `json:"evaluations"`
	DistinctNontrivial int            `json:"distinct_nontrivial"`
	Rule               string         `json:"rule"`
	Distribution       map[string]int `json:"distribution"`
	Samples            []any          `json:"samples"`
	Disagreements      []Disagreement `json:"disagreements"`
	DisagreementCount  int            `json:"disagreement_count"`
	Violations         []Violation    `json:"violations"`
	ViolationCount     int            `json:"violation_count"`
	Notes              []string       `json:"notes,omitempty"`
	OracleLines        int            `json:"oracle_lines"`
	Exhaustive         bool           `json:"exhaustive,omitempty"`
}

// Ctx is handed to a domain driver.
type Ctx struct {
	Rng      *rand.Rand
	Seed     uint64
	Tier     string // quick | thorough
	Props    map[string]bool // properties being checked (nil = all)
	Oracle   string
	Replay   []byte // non-nil: replay this input (raw JSON of Violation.Input / Disagreement)
	WorkDir  string

	// Abort is set by Main: flush, write the result and exit (used when the code under test hangs).
	Abort func()

	inGuard bool
	res     Result
	cases   []Case
	seen    map[[32]byte]bool
	maxKeep int
}

func NewCtx(domain string, seed uint64, tier, oracle, workDir string) *Ctx {
	return &Ctx{
		Rng: rand.New(rand.NewPCG(seed, 0x9e3779b97f4a7c15^uint64(len(domain)))), Seed: seed, Tier: tier,
		Oracle: oracle, WorkDir: workDir,
		res:  Result{Domain: domain, Seed: seed, Tier: tier, Distribution: map[string]int{}},
		seen: map[[32]byte]bool{}, maxKeep: 5,
	}
}

// Quick reports whether the quick tier is selected.
func (c *Ctx) Quick() bool { return c.Tier != "thorough" }

// N picks a budget by tier.
func (c *Ctx) N(quick, thorough int) int {
	if c.Quick() {
		return quick
	}
	return thorough
}

func (c *Ctx) Want(prop string) bool { return c.Props == nil || c.Props[prop] }

func (c *Ctx) Rule(s string)        { c.res.Rule = s }
func (c *Ctx) Note(s string)        { c.res.Notes = append(c.res.Notes, s) }
func (c *Ctx) Dist(k string)        { c.res.Distribution[k]++ }
func (c *Ctx) DistN(k string, n int) { c.res.Distribution[k] += n }
func (c *Ctx) Exhaustive()          { c.res.Exhaustive = true }

// Sample records an example case for the evidence (first few only).
func (c *Ctx) Sample(v any) {
	if len(c.res.Samples) < c.maxKeep {
		c.res.Samples = append(c.res.Samples, v)
	}
}

// Add registers a case for comparison with the oracle.
func (c *Ctx) Add(cs Case) {
	if len(cs.Ops) != len(cs.Impl) {
		panic(fmt.Sprintf("case %s: %d ops vs %d impl lines", cs.Name, len(cs.Ops), len(cs.Impl)))
	}
	c.res.Evaluations++
	if cs.Nontrivial {
		h := sha256.Sum256([]byte(strings.Join(cs.Ops, "\n")))
		if !c.seen[h] {
			c.seen[h] = true
			c.res.DistinctNontrivial++
		}
	}
	if len(c.res.Samples) < c.maxKeep && cs.Nontrivial {
		c.res.Samples = append(c.res.Samples, map[string]any{"case": cs.Name, "ops": trunc(cs.Ops, 12), "impl": trunc(cs.Impl, 12)})
	}
	c.cases = append(c.cases, cs)
	if len(c.cases) >= 20000 && !c.inGuard { // never run the oracle on the watchdog's clock
		c.Flush()
	}
}

// CountOnly registers an evaluated case that has no oracle lines (property-oracle-only cases).
func (c *Ctx) CountOnly(key string, nontrivial bool) {
	c.res.Evaluations++
	if nontrivial {
		h := sha256.Sum256([]byte(key))
		if !c.seen[h] {
			c.seen[h] = true
			c.res.DistinctNontrivial++
		}
	}
}

func trunc(xs []string, n int) []string {
	out := append([]string{}, xs...) // never alias the case's own lines
	if len(out) > n {
		out = append(append([]string{}, xs[:n]...), fmt.Sprintf("… (%d more)", len(xs)-n))
	}
	for i, s := range out {
		if len(s) > 300 {
			out[i] = s[:300] + "…"
		}
	}
	return out
}

// Violate records a property violation.
func (c *Ctx) Violate(v Violation) {
	c.res.ViolationCount++
	for _, o := range c.res.Violations {
		if o.Key == v.Key && o.Property == v.Property {
			return // keep one witness per key
		}
	}
	if len(c.res.Violations) < 20 {
		c.res.Violations = append(c.res.Violations, v)
	}
}

// Flush runs the oracle over the pending cases and records disagreements.
func (c *Ctx) Flush() {
	if len(c.cases) == 0 {
		return
	}
	var in bytes.Buffer
	for _, cs := range c.cases {
		for _, op := range cs.Ops {
			if strings.ContainsAny(op, "\n\r") {
				panic("op contains newline: " + op)
			}
			in.WriteString(op)
			in.WriteByte('\n')
		}
	}
	cmd := exec.Command(c.Oracle)
	cmd.Stdin = &in
	var out bytes.Buffer
	cmd.Stdout = &out
	cmd.Stderr = os.Stderr
	if err := cmd.Run(); err != nil {
		// the oracle crashed: find the first case it cannot process
		c.res.Notes = append(c.res.Notes, "oracle failed: "+err.Error())
	}
	sc := bufio.NewScanner(&out)
	sc.Buffer(make([]byte, 1<<20), 1<<28)
	for _, cs := range c.cases {
		bad := false
		for i := range cs.Ops {
			model := "<no output>"
			if sc.Scan() {
				model = sc.Text()
			}
			c.res.OracleLines++
			if !bad && model != cs.Impl[i] {
				bad = true
				c.res.DisagreementCount++
				if len(c.res.Disagreements) < 10 {
					c.res.Disagreements = append(c.res.Disagreements, Disagreement{
						Case: cs.Name, Ops: cs.Ops, Line: i, Op: cs.Ops[i], Impl: cs.Impl[i], Model: model,
					})
				}
			}
		}
	}
	c.cases = c.cases[:0]
}

// Finish flushes and returns the result.
func (c *Ctx) Finish() *Result {
	c.Flush()
	keys := make([]string, 0, len(c.res.Distribution))
	for k := range c.res.Distribution {
		keys = append(keys, k)
	}
	sort.Strings(keys)
	return &c.res
}

// Hex encodes bytes for the line protocol ("-" = empty).
func Hex(b []byte) string {
	if len(b) == 0 {
		return "-"
	}
	return hex.EncodeToString(b)
}

// Ints renders a list of ints for the line protocol ("-" = empty).
func Ints[T ~int | ~uint16 | ~uint32 | ~uint64 | ~int64 | ~uint8](xs []T) string {
	if len(xs) == 0 {
		return "-"
	}
	var sb strings.Builder
	for i, x := range xs {
		if i > 0 {
			sb.WriteByte(',')
		}
		fmt.Fprintf(&sb, "%d", x)
	}
	return sb.String()
}

func B(b bool) string {
	if b {
		return "1"
	}
	return "0"
}


// Guard runs one case of the real code under a watchdog.  A case that does not return within
// limit is a hang of the code under test: it is recorded as a violation (key <where>-hang) with the
// case input as replay, and the run ends there (the stuck goroutine cannot be stopped).  A panic
// escaping the case is recorded likewise (key <where>-panic).
func (c *Ctx) Guard(prop, where string, input any, limit time.Duration, fn func()) {
	done := make(chan any, 1)
	c.inGuard = true
	defer func() {
		c.inGuard = false
		if len(c.cases) >= 5000 {
			c.Flush()
		}
	}()
	go func() {
		defer func() {
			if x := recover(); x != nil {
				done <- fmt.Sprintf("%v\n%s", x, debug.Stack())
				return
			}
			done <- nil
		}()
		fn()
	}()
	select {
	case x := <-done:
		if x != nil {
			c.Violate(Violation{Property: prop, Clause: "no input makes the code panic", Key: where + "-panic", Where: where, Input: input, Detail: fmt.Sprint(x)})
		}
	case <-time.After(limit):
		c.Violate(Violation{Property: prop, Clause: "no input makes the code hang", Key: where + "-hang", Where: where, Input: input,
			Detail: fmt.Sprintf("case did not return within %v", limit)})
		c.cases = nil // the hung case may be half recorded
		if c.Abort != nil {
			c.Abort()
		}
	}
}
