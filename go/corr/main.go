package corr

import (
	"encoding/json"
	"flag"
	"fmt"
	"os"
	"strings"
)

// Main is the entry point shared by all cmd/<domain> binaries.
//
//	-seed N -tier quick|thorough -oracle PATH -out FILE [-props C03,C06] [-replay FILE] [-work DIR]
func Main(domain string, run func(*Ctx)) {
	seed := flag.Uint64("seed", 1, "PRNG seed")
	tier := flag.String("tier", "quick", "quick|thorough")
	oracle := flag.String("oracle", "", "path of the Lean oracle executable for this domain")
	out := flag.String("out", "", "result JSON path (stdout if empty)")
	props := flag.String("props", "", "comma-separated property ids being checked (empty = all)")
	replay := flag.String("replay", "", "replay input file (JSON: the `input` of a violation)")
	work := flag.String("work", "", "scratch directory")
	flag.Parse()
	ctx := NewCtx(domain, *seed, *tier, *oracle, *work)
	if *props != "" {
		ctx.Props = map[string]bool{}
		for _, p := range strings.Split(*props, ",") {
			ctx.Props[p] = true
		}
	}
	if *replay != "" {
		b, err := os.ReadFile(*replay)
		if err != nil {
			fmt.Fprintln(os.Stderr, err)
			os.Exit(2)
		}
		ctx.Replay = b
	}
	finish := func() {
		res := ctx.Finish()
		b, _ := json.MarshalIndent(res, "", " ")
		if *out == "" {
			os.Stdout.Write(b)
			fmt.Println()
		} else if err := os.WriteFile(*out, b, 0o644); err != nil {
			fmt.Fprintln(os.Stderr, err)
			os.Exit(2)
		}
	}
	ctx.Abort = func() { finish(); os.Exit(0) }
	run(ctx)
	finish()
}
