package main

import (
	"verifharness/corr"
	"verifharness/dom/codecbasic"
)

func main() { corr.Main("codec_basic", codecbasic.Run) }
