package main

import (
	"verifharness/corr"
	"verifharness/dom/auth"
)

func main() { corr.Main("auth", auth.Run) }
