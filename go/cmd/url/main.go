package main

import (
	"verifharness/corr"
	"verifharness/dom/url"
)

func main() { corr.Main("url", url.Run) }
