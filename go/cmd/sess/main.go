package main

import (
	"verifharness/corr"
	"verifharness/dom/sess"
)

func main() { corr.Main("sess", sess.Run) }
