package main

import (
	"verifharness/corr"
	"verifharness/dom/peer"
)

func main() { corr.Main("peer", peer.Run) }
