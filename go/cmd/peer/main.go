package main

import (
	"os"

	"verifharness/corr"
	"verifharness/dom/peer"
)

func main() {
	// scenarios run in child processes of the same binary: a crash of the library under test is
	// attributed to the scenario that was running and the run goes on
	if len(os.Args) > 1 && os.Args[1] == "-peerchild" {
		peer.ChildMain()
		return
	}
	corr.Main("peer", peer.Run)
}
