package main

import (
	"verifharness/corr"
	"verifharness/dom/sdp"
)

func main() { corr.Main("sdp", sdp.Run) }
