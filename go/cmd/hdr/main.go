package main

import (
	"verifharness/corr"
	"verifharness/dom/hdr"
)

func main() { corr.Main("hdr", hdr.Run) }
