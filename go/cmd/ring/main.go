package main

import (
	"verifharness/corr"
	"verifharness/dom/ring"
)

func main() { corr.Main("ring", ring.Run) }
