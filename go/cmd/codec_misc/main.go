package main

import (
	"verifharness/corr"
	"verifharness/dom/codecmisc"
)

func main() { corr.Main("codec_misc", codecmisc.Run) }
