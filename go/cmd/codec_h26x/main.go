package main

import (
	"verifharness/corr"
	"verifharness/dom/codech26x"
)

func main() { corr.Main("codec_h26x", codech26x.Run) }
