package main

import (
	"os"

	"verifharness/corr"
	"verifharness/dom/hclient"
)

func main() {
	if os.Getenv("HCLIENT_CHILD") != "" {
		hclient.ChildMain()
		return
	}
	corr.Main("hclient", hclient.Run)
}
