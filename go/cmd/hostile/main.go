package main

import (
	"verifharness/corr"
	"verifharness/dom/hostile"
)

func main() { corr.Main("hostile", hostile.Run) }
