package main

import (
	"verifharness/corr"
	"verifharness/dom/codecav1vp"
)

func main() { corr.Main("codec_av1vp", codecav1vp.Run) }
