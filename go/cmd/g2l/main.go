// Command g2l translates a small, pure subset of Go (fixed-width integer and boolean code:
// straight-line statements, if / else, return, arithmetic, bit operations, conversions, min / max,
// len of a free variable, calls between translated functions) from /repo's current working tree
// into Lean 4 definitions over Lean's fixed-width integer types (UInt8..UInt64, Int8..Int64), whose
// arithmetic wraps exactly as Go's does.  The output, lean/Rtsp/Generated/Trans/<Module>.lean, is
// regenerated on every run of a check; the bridge theorems in lean/Rtsp/Props/Bridge/*.lean prove
// that the hand-written models (over Nat / Int) agree with these regenerated definitions, so that
// the property theorems are re-checked against what the arithmetic of the code says now.
//
// Spec (/verif/trans/<module>.json):
//
//	{"module":"Recv","package":"pkg/rtpreceiver","items":[
//	  {"name":"packetCount","kind":"func","func":"packetCount"},
//	  {"name":"decode","kind":"func","func":"globalDecoderTrackData.decode"},
//	  {"name":"relPos","kind":"assign","func":"Receiver.reorder","lhs":"relPos","nth":0},
//	  {"name":"cyc","kind":"ifcond","func":"Receiver.ProcessPacket2","contains":"diff <","nth":0}]}
//
// kinds: func   – a whole function or method.  Parameters of the Lean definition: the Go parameters,
//
//	         then every receiver field (or other selector chain) the body reads, in order of
//	         first appearance.  Result: the Go results followed by the receiver fields the body
//	         assigns, in order of first assignment (a tuple when there is more than one).
//	assign – the right-hand side of the nth assignment (in source order) whose left-hand side
//	         prints as `lhs`, inside `func`; parameters are its free variables in order of first
//	         appearance (selector chains flattened: pkt.SequenceNumber -> pkt_SequenceNumber;
//	         len(x) -> len_x : Int64).
//	ifcond – the condition of the nth `if` inside `func` whose printed condition contains `contains`.
//	return – result `index` of the nth return statement inside `func`.
//	expr   – the nth sub-expression inside `func` whose source text is exactly `text` (spaces ignored).
//
// Semantics notes (trusted base of the translator): Go `int` / `uint` are 64-bit (amd64 / arm64);
// signed `/` and `%` truncate in both languages; a shift is accepted only with a constant count
// smaller than the operand width (where Go and Lean agree); Go panics on division by zero where the
// Lean definition returns 0 – divisors are shown non-zero in the bridge theorems' hypotheses.
// Anything outside the subset is an error (exit 3 after writing what could be translated): the tie
// is reported broken rather than guessed.
package main

import (
	"bytes"
	"encoding/json"
	"flag"
	"fmt"
	"go/ast"
	"go/constant"
	"go/importer"
	"go/parser"
	"go/printer"
	"go/token"
	"go/types"
	"os"
	"path/filepath"
	"sort"
	"strings"
)

type Item struct {
	Name     string `json:"name"`
	Kind     string `json:"kind"`
	Func     string `json:"func"`
	LHS      string `json:"lhs,omitempty"`
	Contains string `json:"contains,omitempty"`
	Text     string `json:"text,omitempty"`
	Nth      int    `json:"nth,omitempty"`
	Index    int    `json:"index,omitempty"`
	Doc      string `json:"doc,omitempty"`
}

type Spec struct {
	Module  string `json:"module"`
	Package string `json:"package"`
	Items   []Item `json:"items"`
}

type param struct{ name, typ string }

type tr struct {
	fset   *token.FileSet
	info   *types.Info
	params []param
	seen   map[string]bool
	names  map[types.Object]string
	used   map[string]types.Object
	known  map[string]string // Go function name -> Lean def name (same module, already translated)
	recv   types.Object
	outs   []string // assigned receiver fields (flattened), in order
	outTy  map[string]string
}

type unsupported struct{ msg string }

func (t *tr) fail(n ast.Node, format string, a ...any) {
	pos := ""
	if n != nil {
		p := t.fset.Position(n.Pos())
		pos = fmt.Sprintf("%s:%d: ", filepath.Base(p.Filename), p.Line)
	}
	panic(unsupported{pos + fmt.Sprintf(format, a...)})
}

func leanType(ty types.Type) (string, bool) {
	b, ok := ty.Underlying().(*types.Basic)
	if !ok {
		return "", false
	}
	switch b.Kind() {
	case types.Bool, types.UntypedBool:
		return "Bool", true
	case types.Int, types.Int64:
		return "Int64", true
	case types.Int8:
		return "Int8", true
	case types.Int16:
		return "Int16", true
	case types.Int32:
		return "Int32", true
	case types.Uint, types.Uint64, types.Uintptr:
		return "UInt64", true
	case types.Uint8:
		return "UInt8", true
	case types.Uint16:
		return "UInt16", true
	case types.Uint32:
		return "UInt32", true
	}
	return "", false
}

func width(lt string) int {
	switch lt {
	case "Int8", "UInt8":
		return 8
	case "Int16", "UInt16":
		return 16
	case "Int32", "UInt32":
		return 32
	}
	return 64
}

func signed(lt string) bool { return strings.HasPrefix(lt, "Int") }

func (t *tr) src(n ast.Node) string {
	var b bytes.Buffer
	printer.Fprint(&b, t.fset, n)
	return b.String()
}

func flat(s string) string {
	r := strings.NewReplacer(".", "_", "(", "_", ")", "", "[", "_", "]", "", " ", "")
	return r.Replace(s)
}

func (t *tr) addParam(name, typ string) {
	if !t.seen[name] {
		t.seen[name] = true
		t.params = append(t.params, param{name, typ})
	}
}

// local variable / parameter name by object identity (Go block scoping: a shadowing declaration gets
// a fresh Lean name)
func (t *tr) objName(o types.Object) string {
	if n, ok := t.names[o]; ok {
		return n
	}
	n := o.Name()
	if prev, ok := t.used[n]; ok && prev != o {
		for i := 2; ; i++ {
			c := fmt.Sprintf("%s_%d", n, i)
			if _, ok := t.used[c]; !ok {
				n = c
				break
			}
		}
	}
	t.used[n] = o
	t.names[o] = n
	return n
}

func (t *tr) lit(v constant.Value, lt string, n ast.Node) string {
	if lt == "Bool" {
		if constant.BoolVal(v) {
			return "true"
		}
		return "false"
	}
	iv := constant.ToInt(v)
	if iv.Kind() != constant.Int {
		t.fail(n, "non-integer constant %s", v)
	}
	s := iv.ExactString()
	if strings.HasPrefix(s, "-") {
		return fmt.Sprintf("(%s : %s)", s, lt)
	}
	return fmt.Sprintf("(%s : %s)", s, lt)
}

// selector chain rooted at a variable (x.a.b), printed
func (t *tr) chain(e ast.Expr) (string, bool) {
	switch x := e.(type) {
	case *ast.Ident:
		if _, ok := t.info.Uses[x].(*types.Var); ok {
			return x.Name, true
		}
		if _, ok := t.info.Defs[x].(*types.Var); ok {
			return x.Name, true
		}
	case *ast.SelectorExpr:
		if r, ok := t.chain(x.X); ok {
			if sel := t.info.Selections[x]; sel != nil && sel.Kind() == types.FieldVal {
				return r + "." + x.Sel.Name, true
			}
		}
	}
	return "", false
}

func (t *tr) conv(x string, from, to string) string {
	if from == to {
		return x
	}
	if from == "Bool" || to == "Bool" {
		panic(unsupported{"conversion involving bool"})
	}
	// change width inside the source's signedness, then reinterpret
	mid := from
	if width(from) != width(to) {
		if signed(from) {
			mid = fmt.Sprintf("Int%d", width(to))
		} else {
			mid = fmt.Sprintf("UInt%d", width(to))
		}
		x = fmt.Sprintf("(%s).to%s", x, mid)
	}
	if mid != to {
		x = fmt.Sprintf("(%s).to%s", x, to)
	}
	return x
}

func (t *tr) expr(e ast.Expr) (string, string) {
	tv, ok := t.info.Types[e]
	if !ok {
		if id, isId := e.(*ast.Ident); isId {
			if o := t.info.Uses[id]; o != nil {
				tv = types.TypeAndValue{Type: o.Type()}
				ok = true
			}
		}
	}
	if !ok {
		t.fail(e, "no type for %s", t.src(e))
	}
	lt, okT := leanType(tv.Type)
	if tv.Value != nil {
		if !okT {
			// untyped constant that was never converted (e.g. a shift count): caller handles
			if b, isB := tv.Type.Underlying().(*types.Basic); isB && b.Info()&types.IsUntyped != 0 {
				return constant.ToInt(tv.Value).ExactString(), "untyped"
			}
			t.fail(e, "constant of unsupported type %s", tv.Type)
		}
		return t.lit(tv.Value, lt, e), lt
	}
	switch x := e.(type) {
	case *ast.ParenExpr:
		return t.expr(x.X)
	case *ast.Ident, *ast.SelectorExpr:
		if !okT {
			t.fail(e, "variable %s of unsupported type %s", t.src(e), tv.Type)
		}
		if id, isId := e.(*ast.Ident); isId {
			o := t.info.Uses[id]
			if o == nil {
				o = t.info.Defs[id]
			}
			if v, isV := o.(*types.Var); isV && !v.IsField() {
				if v.Parent() != nil && v.Parent() == v.Pkg().Scope() {
					t.fail(e, "package-level variable %s", id.Name)
				}
				n := t.objName(o)
				if _, declared := t.names[o]; declared && t.seen["\x00local:"+n] {
					return n, lt
				}
				t.addParam(n, lt)
				return n, lt
			}
			t.fail(e, "identifier %s is not a variable", id.Name)
		}
		c, isChain := t.chain(e)
		if !isChain {
			t.fail(e, "unsupported selector %s", t.src(e))
		}
		n := flat(c)
		if !t.seen["\x00local:"+n] {
			t.addParam(n, lt)
		}
		return n, lt
	case *ast.IndexExpr:
		// element of an array / slice variable at a constant index: a free variable (header[2] -> header_2)
		c, isChain := t.chain(x.X)
		itv := t.info.Types[x.Index]
		if !isChain || itv.Value == nil || !okT {
			t.fail(e, "index expression %s (only variable[constant] of an integer element type)", t.src(e))
		}
		n := flat(c) + "_" + constant.ToInt(itv.Value).ExactString()
		t.addParam(n, lt)
		return n, lt
	case *ast.UnaryExpr:
		a, at := t.expr(x.X)
		switch x.Op {
		case token.SUB:
			return fmt.Sprintf("(-%s)", a), at
		case token.NOT:
			return fmt.Sprintf("(!%s)", a), "Bool"
		case token.XOR:
			return fmt.Sprintf("(~~~%s)", a), at
		case token.ADD:
			return a, at
		}
		t.fail(e, "unary %s", x.Op)
	case *ast.BinaryExpr:
		if x.Op == token.SHL || x.Op == token.SHR {
			a, at := t.expr(x.X)
			ctv := t.info.Types[x.Y]
			if ctv.Value == nil {
				t.fail(e, "shift by a non-constant count")
			}
			c, exact := constant.Int64Val(constant.ToInt(ctv.Value))
			if !exact || c < 0 || int(c) >= width(at) {
				t.fail(e, "shift count %v not smaller than the operand width", ctv.Value)
			}
			op := "<<<"
			if x.Op == token.SHR {
				op = ">>>"
			}
			return fmt.Sprintf("(%s %s (%d : %s))", a, op, c, at), at
		}
		a, at := t.expr(x.X)
		b, bt := t.expr(x.Y)
		if at != bt {
			t.fail(e, "operand types differ: %s vs %s in %s", at, bt, t.src(e))
		}
		switch x.Op {
		case token.ADD, token.SUB, token.MUL, token.QUO, token.REM:
			return fmt.Sprintf("(%s %s %s)", a, x.Op.String(), b), at
		case token.AND:
			return fmt.Sprintf("(%s &&& %s)", a, b), at
		case token.OR:
			return fmt.Sprintf("(%s ||| %s)", a, b), at
		case token.XOR:
			return fmt.Sprintf("(%s ^^^ %s)", a, b), at
		case token.AND_NOT:
			return fmt.Sprintf("(%s &&& ~~~%s)", a, b), at
		case token.LAND:
			return fmt.Sprintf("(%s && %s)", a, b), "Bool"
		case token.LOR:
			return fmt.Sprintf("(%s || %s)", a, b), "Bool"
		case token.EQL:
			return fmt.Sprintf("(%s == %s)", a, b), "Bool"
		case token.NEQ:
			return fmt.Sprintf("(%s != %s)", a, b), "Bool"
		case token.LSS:
			return fmt.Sprintf("(decide (%s < %s))", a, b), "Bool"
		case token.LEQ:
			return fmt.Sprintf("(decide (%s ≤ %s))", a, b), "Bool"
		case token.GTR:
			return fmt.Sprintf("(decide (%s > %s))", a, b), "Bool"
		case token.GEQ:
			return fmt.Sprintf("(decide (%s ≥ %s))", a, b), "Bool"
		}
		t.fail(e, "binary %s", x.Op)
	case *ast.CallExpr:
		// conversion
		if ftv, ok := t.info.Types[x.Fun]; ok && ftv.IsType() {
			to, okTo := leanType(ftv.Type)
			if !okTo || len(x.Args) != 1 {
				t.fail(e, "conversion to unsupported type %s", ftv.Type)
			}
			a, at := t.expr(x.Args[0])
			return t.conv(a, at, to), to
		}
		if id, isId := x.Fun.(*ast.Ident); isId {
			if _, isBuiltin := t.info.Uses[id].(*types.Builtin); isBuiltin {
				switch id.Name {
				case "len":
					c, isChain := t.chain(x.Args[0])
					if !isChain {
						t.fail(e, "len of a non-variable")
					}
					n := "len_" + flat(c)
					t.addParam(n, "Int64")
					return n, "Int64"
				case "min", "max":
					if len(x.Args) != 2 {
						t.fail(e, "%s with %d arguments", id.Name, len(x.Args))
					}
					a, at := t.expr(x.Args[0])
					b, bt := t.expr(x.Args[1])
					if at != bt {
						t.fail(e, "operand types differ in %s", id.Name)
					}
					return fmt.Sprintf("(%s %s %s)", id.Name, a, b), at
				}
				t.fail(e, "builtin %s", id.Name)
			}
			if ln, ok := t.known[id.Name]; ok {
				if !okT {
					t.fail(e, "call result type %s", tv.Type)
				}
				s := "(" + ln
				for _, a := range x.Args {
					as, _ := t.expr(a)
					s += " " + as
				}
				return s + ")", lt
			}
		}
		t.fail(e, "call %s", t.src(x.Fun))
	}
	t.fail(e, "expression %T", e)
	return "", ""
}

func (t *tr) lhsName(e ast.Expr, define bool) (string, string) {
	ty := t.info.TypeOf(e)
	lt, ok := leanType(ty)
	if !ok {
		t.fail(e, "assignment to %s of unsupported type %s", t.src(e), ty)
	}
	if id, isId := e.(*ast.Ident); isId {
		o := t.info.Defs[id]
		if o == nil {
			o = t.info.Uses[id]
		}
		n := t.objName(o)
		t.seen["\x00local:"+n] = true
		return n, lt
	}
	c, isChain := t.chain(e)
	if !isChain {
		t.fail(e, "assignment to %s", t.src(e))
	}
	n := flat(c)
	t.seen["\x00local:"+n] = true
	found := false
	for _, o := range t.outs {
		if o == n {
			found = true
		}
	}
	if !found {
		t.outs = append(t.outs, n)
		t.outTy[n] = lt
	}
	return n, lt
}

var opOf = map[token.Token]token.Token{token.ADD_ASSIGN: token.ADD, token.SUB_ASSIGN: token.SUB, token.MUL_ASSIGN: token.MUL,
	token.QUO_ASSIGN: token.QUO, token.REM_ASSIGN: token.REM, token.AND_ASSIGN: token.AND, token.OR_ASSIGN: token.OR, token.XOR_ASSIGN: token.XOR}

func indent(s string, n int) string {
	pad := strings.Repeat(" ", n)
	return pad + strings.ReplaceAll(s, "\n", "\n"+pad)
}

// stmts translates a statement list in tail position; ret builds the result tuple
func (t *tr) stmts(list []ast.Stmt, nres int) string {
	if len(list) == 0 {
		if nres != 0 {
			panic(unsupported{"control reaches the end of a function with results"})
		}
		return t.result(nil)
	}
	s, rest := list[0], list[1:]
	switch x := s.(type) {
	case *ast.AssignStmt:
		if len(x.Lhs) != 1 || len(x.Rhs) != 1 {
			t.fail(s, "multiple assignment")
		}
		var val string
		if x.Tok == token.DEFINE || x.Tok == token.ASSIGN {
			v, vt := t.expr(x.Rhs[0])
			_, lt := func() (string, string) { ty, _ := leanType(t.info.TypeOf(x.Lhs[0])); return "", ty }()
			if vt == "untyped" {
				v = fmt.Sprintf("(%s : %s)", v, lt)
			}
			val = v
		} else if op, ok := opOf[x.Tok]; ok {
			be := &ast.BinaryExpr{X: x.Lhs[0], Op: op, Y: x.Rhs[0]}
			// types of the synthetic node: operands carry their own types
			a, at := t.expr(x.Lhs[0])
			b, bt := t.expr(x.Rhs[0])
			if at != bt {
				t.fail(s, "operand types differ in %s", t.src(s))
			}
			_ = be
			sym := map[token.Token]string{token.ADD: "+", token.SUB: "-", token.MUL: "*", token.QUO: "/", token.REM: "%", token.AND: "&&&", token.OR: "|||", token.XOR: "^^^"}[op]
			val = fmt.Sprintf("(%s %s %s)", a, sym, b)
		} else {
			t.fail(s, "assignment operator %s", x.Tok)
		}
		n, lt := t.lhsName(x.Lhs[0], x.Tok == token.DEFINE)
		return fmt.Sprintf("let %s : %s := %s\n%s", n, lt, val, t.stmts(rest, nres))
	case *ast.IncDecStmt:
		a, at := t.expr(x.X)
		op := "+"
		if x.Tok == token.DEC {
			op = "-"
		}
		n, lt := t.lhsName(x.X, false)
		return fmt.Sprintf("let %s : %s := (%s %s (1 : %s))\n%s", n, lt, a, op, at, t.stmts(rest, nres))
	case *ast.DeclStmt:
		gd, ok := x.Decl.(*ast.GenDecl)
		if !ok || gd.Tok != token.VAR {
			t.fail(s, "declaration")
		}
		out := ""
		for _, sp := range gd.Specs {
			vs := sp.(*ast.ValueSpec)
			for i, id := range vs.Names {
				n, lt := t.lhsName(id, true)
				v := fmt.Sprintf("(0 : %s)", lt)
				if lt == "Bool" {
					v = "false"
				}
				if i < len(vs.Values) {
					v, _ = t.expr(vs.Values[i])
				}
				out += fmt.Sprintf("let %s : %s := %s\n", n, lt, v)
			}
		}
		return out + t.stmts(rest, nres)
	case *ast.IfStmt:
		if x.Init != nil {
			t.fail(s, "if with an init statement")
		}
		c, _ := t.expr(x.Cond)
		// the branches see copies of the local-variable bookkeeping
		save := func() (map[string]bool, []string) {
			m := map[string]bool{}
			for k, v := range t.seen {
				m[k] = v
			}
			return m, append([]string(nil), t.outs...)
		}
		seen0, _ := save()
		thenT := t.stmts(append(append([]ast.Stmt(nil), x.Body.List...), rest...), nres)
		seen1 := t.seen
		t.seen = seen0
		for k := range seen1 { // parameters discovered in the branch stay parameters
			if !strings.HasPrefix(k, "\x00local:") {
				t.seen[k] = true
			}
		}
		var elseList []ast.Stmt
		switch el := x.Else.(type) {
		case nil:
		case *ast.BlockStmt:
			elseList = el.List
		case *ast.IfStmt:
			elseList = []ast.Stmt{el}
		}
		elseT := t.stmts(append(append([]ast.Stmt(nil), elseList...), rest...), nres)
		return fmt.Sprintf("if %s then\n%s\nelse\n%s", c, indent(thenT, 2), indent(elseT, 2))
	case *ast.ReturnStmt:
		if len(x.Results) != nres {
			t.fail(s, "return with %d values, expected %d", len(x.Results), nres)
		}
		return t.result(x.Results)
	case *ast.BlockStmt:
		return t.stmts(append(append([]ast.Stmt(nil), x.List...), rest...), nres)
	case *ast.EmptyStmt:
		return t.stmts(rest, nres)
	}
	t.fail(s, "statement %T", s)
	return ""
}

const outsMark = "\x01OUTS\x01"

func (t *tr) result(res []ast.Expr) string {
	var parts []string
	for _, r := range res {
		v, _ := t.expr(r)
		parts = append(parts, v)
	}
	// assigned receiver fields are appended after the whole body is known
	return "(" + strings.Join(append(parts, outsMark), ", ") + ")"
}

type pkgInfo struct {
	fset  *token.FileSet
	info  *types.Info
	funcs map[string]*ast.FuncDecl
}

var imp types.Importer
var sharedFset = token.NewFileSet()

func loadPkg(repo, dir string) (*pkgInfo, error) {
	abs := filepath.Join(repo, dir)
	pkgs, err := parser.ParseDir(sharedFset, abs, func(fi os.FileInfo) bool {
		return !strings.HasSuffix(fi.Name(), "_test.go") && !strings.HasPrefix(fi.Name(), "verif_")
	}, 0)
	if err != nil {
		return nil, err
	}
	for name, p := range pkgs {
		if strings.HasSuffix(name, "_test") {
			continue
		}
		var files []*ast.File
		var fnames []string
		for fn := range p.Files {
			fnames = append(fnames, fn)
		}
		sort.Strings(fnames)
		for _, fn := range fnames {
			files = append(files, p.Files[fn])
		}
		info := &types.Info{Types: map[ast.Expr]types.TypeAndValue{}, Uses: map[*ast.Ident]types.Object{},
			Defs: map[*ast.Ident]types.Object{}, Selections: map[*ast.SelectorExpr]*types.Selection{}}
		var firstErr error
		conf := types.Config{Importer: imp, Error: func(e error) {
			if firstErr == nil {
				firstErr = e
			}
		}}
		conf.Check(name, sharedFset, files, info)
		if firstErr != nil {
			return nil, fmt.Errorf("type check of %s: %v", dir, firstErr)
		}
		pi := &pkgInfo{fset: sharedFset, info: info, funcs: map[string]*ast.FuncDecl{}}
		for _, f := range files {
			for _, d := range f.Decls {
				fd, ok := d.(*ast.FuncDecl)
				if !ok || fd.Body == nil {
					continue
				}
				key := fd.Name.Name
				if fd.Recv != nil && len(fd.Recv.List) == 1 {
					rt := fd.Recv.List[0].Type
					if st, ok := rt.(*ast.StarExpr); ok {
						rt = st.X
					}
					if id, ok := rt.(*ast.Ident); ok {
						key = id.Name + "." + key
					}
				}
				pi.funcs[key] = fd
			}
		}
		return pi, nil
	}
	return nil, fmt.Errorf("no package in %s", dir)
}

func translate(pi *pkgInfo, it Item, known map[string]string) (def string, err error) {
	defer func() {
		if r := recover(); r != nil {
			if u, ok := r.(unsupported); ok {
				err = fmt.Errorf("%s", u.msg)
				return
			}
			panic(r)
		}
	}()
	fd := pi.funcs[it.Func]
	if fd == nil {
		return "", fmt.Errorf("function %s not found", it.Func)
	}
	t := &tr{fset: pi.fset, info: pi.info, seen: map[string]bool{}, names: map[types.Object]string{}, used: map[string]types.Object{}, known: known, outTy: map[string]string{}}
	var body, resType, origin string
	switch it.Kind {
	case "func":
		for _, fl := range fd.Type.Params.List {
			lt, ok := leanType(pi.info.TypeOf(fl.Type))
			if !ok {
				return "", fmt.Errorf("parameter of unsupported type %s", t.src(fl.Type))
			}
			for _, id := range fl.Names {
				n := t.objName(pi.info.Defs[id])
				t.addParam(n, lt)
				t.seen["\x00local:"+n] = false
			}
		}
		var rts []string
		nres := 0
		if fd.Type.Results != nil {
			for _, fl := range fd.Type.Results.List {
				lt, ok := leanType(pi.info.TypeOf(fl.Type))
				if !ok {
					return "", fmt.Errorf("result of unsupported type %s", t.src(fl.Type))
				}
				k := len(fl.Names)
				if k == 0 {
					k = 1
				}
				for i := 0; i < k; i++ {
					rts = append(rts, lt)
					nres++
				}
			}
		}
		body = t.stmts(fd.Body.List, nres)
		outsVals := strings.Join(t.outs, ", ")
		for _, o := range t.outs {
			rts = append(rts, t.outTy[o])
			t.addParam(o, t.outTy[o]) // a field assigned on some paths only is returned unchanged on the others
		}
		if outsVals == "" {
			body = strings.ReplaceAll(body, ", "+outsMark, "")
			body = strings.ReplaceAll(body, outsMark, "")
		} else {
			body = strings.ReplaceAll(body, outsMark, outsVals)
		}
		if len(rts) == 0 {
			return "", fmt.Errorf("function has neither results nor assigned fields")
		}
		resType = strings.Join(rts, " × ")
		origin = "func " + it.Func
	case "assign", "ifcond", "return", "expr":
		var target ast.Expr
		count := 0
		ast.Inspect(fd.Body, func(n ast.Node) bool {
			if target != nil {
				return false
			}
			if ex, isExpr := n.(ast.Expr); isExpr && it.Kind == "expr" {
				if strings.Join(strings.Fields(t.src(ex)), "") == strings.Join(strings.Fields(it.Text), "") {
					if count == it.Nth {
						target = ex
					}
					count++
				}
			}
			switch x := n.(type) {
			case *ast.AssignStmt:
				if it.Kind == "assign" && len(x.Lhs) >= 1 && len(x.Rhs) == len(x.Lhs) {
					for i := range x.Lhs {
						if t.src(x.Lhs[i]) == it.LHS {
							if count == it.Nth {
								target = x.Rhs[i]
							}
							count++
						}
					}
				}
			case *ast.IfStmt:
				if it.Kind == "ifcond" && strings.Contains(t.src(x.Cond), it.Contains) {
					if count == it.Nth {
						target = x.Cond
					}
					count++
				}
			case *ast.ReturnStmt:
				if it.Kind == "return" && it.Index < len(x.Results) {
					if count == it.Nth {
						target = x.Results[it.Index]
					}
					count++
				}
			}
			return true
		})
		if target == nil {
			return "", fmt.Errorf("%s target not found in %s (lhs=%q contains=%q nth=%d)", it.Kind, it.Func, it.LHS, it.Contains, it.Nth)
		}
		v, vt := t.expr(target)
		if vt == "untyped" {
			return "", fmt.Errorf("untyped constant expression")
		}
		body, resType = v, vt
		origin = fmt.Sprintf("%s in %s: `%s`", it.Kind, it.Func, strings.Join(strings.Fields(t.src(target)), " "))
	default:
		return "", fmt.Errorf("unknown kind %s", it.Kind)
	}
	var ps []string
	for _, p := range t.params {
		ps = append(ps, fmt.Sprintf("(%s : %s)", p.name, p.typ))
	}
	doc := origin
	if it.Doc != "" {
		doc += " — " + it.Doc
	}
	doc = strings.ReplaceAll(doc, "-/", "- /")
	return fmt.Sprintf("/-- %s -/\ndef %s %s : %s :=\n%s\n", doc, it.Name, strings.Join(ps, " "), resType, indent(body, 2)), nil
}

func main() {
	repo := flag.String("repo", "/repo", "gortsplib tree")
	specDir := flag.String("spec", "/verif/trans", "directory of *.json specs")
	out := flag.String("out", "/verif/lean/Rtsp/Generated/Trans", "output directory")
	jsonOut := flag.String("json", "", "summary file")
	only := flag.String("modules", "", "comma-separated module names to translate (default: all specs)")
	flag.Parse()
	abs, _ := filepath.Abs(*repo)
	*specDir, _ = filepath.Abs(*specDir)
	*out, _ = filepath.Abs(*out)
	if *jsonOut != "" {
		*jsonOut, _ = filepath.Abs(*jsonOut)
	}
	// the source importer resolves imports relative to the current directory's module
	os.Chdir(abs)
	imp = importer.ForCompiler(sharedFset, "source", nil)
	os.MkdirAll(*out, 0o755)
	specs, _ := filepath.Glob(filepath.Join(*specDir, "*.json"))
	sort.Strings(specs)
	summary := map[string]any{}
	var errs []string
	mods := map[string]map[string]string{}
	pkgCache := map[string]*pkgInfo{}
	for _, sf := range specs {
		var sp Spec
		b, _ := os.ReadFile(sf)
		if err := json.Unmarshal(b, &sp); err != nil {
			errs = append(errs, fmt.Sprintf("%s: %v", filepath.Base(sf), err))
			continue
		}
		if *only != "" && !strings.Contains(","+*only+",", ","+sp.Module+",") {
			continue
		}
		var buf bytes.Buffer
		fmt.Fprintf(&buf, "/- GENERATED by /verif/go/cmd/g2l from /repo's working tree (spec: trans/%s). Do not edit. -/\nnamespace Rtsp.Trans.%s\n\n", filepath.Base(sf), sp.Module)
		pi := pkgCache[sp.Package]
		var err error
		if pi == nil {
			pi, err = loadPkg(abs, sp.Package)
			pkgCache[sp.Package] = pi
		}
		mods[sp.Module] = map[string]string{}
		if err != nil {
			errs = append(errs, fmt.Sprintf("%s.*: %v", sp.Module, err))
		} else {
			known := map[string]string{}
			for _, it := range sp.Items {
				def, err := translate(pi, it, known)
				if err != nil {
					errs = append(errs, fmt.Sprintf("%s.%s: %v", sp.Module, it.Name, err))
					continue
				}
				buf.WriteString(def + "\n")
				mods[sp.Module][it.Name] = def
				if it.Kind == "func" && !strings.Contains(it.Func, ".") {
					known[it.Func] = it.Name
				}
			}
		}
		fmt.Fprintf(&buf, "end Rtsp.Trans.%s\n", sp.Module)
		path := filepath.Join(*out, sp.Module+".lean")
		old, _ := os.ReadFile(path)
		if !bytes.Equal(old, buf.Bytes()) {
			os.WriteFile(path, buf.Bytes(), 0o644)
		}
	}
	summary["translated"] = mods
	summary["errors"] = errs
	if *jsonOut != "" {
		b, _ := json.MarshalIndent(summary, "", " ")
		os.WriteFile(*jsonOut, b, 0o644)
	}
	for _, e := range errs {
		fmt.Fprintln(os.Stderr, "g2l:", e)
	}
	if len(errs) > 0 {
		os.Exit(3)
	}
}
