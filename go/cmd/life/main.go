package main

import (
	"os"

	"verifharness/corr"
	"verifharness/dom/life"
)

func main() {
	// scenarios run in child processes of the same binary (leaks are measured per process)
	if len(os.Args) > 1 && os.Args[1] == "-child" {
		life.ChildMain()
		return
	}
	corr.Main("life", life.Run)
}
