// Command extract regenerates /verif/lean/Rtsp/Generated/Facts/<Module>.lean from /repo's current
// working tree.  Each /verif/facts/<module>.json lists the facts to extract:
//
//	{"module":"Recv","facts":[
//	  {"name":"defaultBufferSize","kind":"regex","file":"pkg/rtpreceiver/receiver.go",
//	   "pattern":"rr\\.BufferSize = (\\d+)","type":"Nat"},
//	  {"name":"maxPacketSize","kind":"const","file":"constants.go","const":"udpMaxPayloadSize","type":"Nat"}]}
//
// kinds: const  – package-level constant (same-directory constants may be referenced);
//        regex  – capture group 1 of a regular expression over the file text, evaluated as a Go
//                 integer expression (type Nat/Int), kept verbatim (type String) or "true" (Bool);
//                 the pattern must match exactly `count` times (default 1) and all matches must
//                 capture the same text;
//        count  – number of matches of the pattern (Nat);
//        present – whether the pattern matches (Bool).
//
// file: path relative to /repo, or "mod:<module path>/<file>" resolved through /repo/go.mod into
// the module cache.  A fact that cannot be extracted is an error (exit 3): the tie is broken.
package main

import (
	"encoding/json"
	"flag"
	"fmt"
	"go/ast"
	"go/constant"
	"go/parser"
	"go/token"
	"os"
	"path/filepath"
	"regexp"
	"sort"
	"strings"
)

type Fact struct {
	Name    string `json:"name"`
	Kind    string `json:"kind"`
	File    string `json:"file"`
	Const   string `json:"const,omitempty"`
	Pattern string `json:"pattern,omitempty"`
	Type    string `json:"type"`
	Count   int    `json:"count,omitempty"`
	Doc     string `json:"doc,omitempty"`
}

type Spec struct {
	Module string `json:"module"`
	Facts  []Fact `json:"facts"`
}

var repo string

func modCacheDir() string {
	if d := os.Getenv("GOMODCACHE"); d != "" {
		return d
	}
	if d := os.Getenv("GOPATH"); d != "" {
		return filepath.Join(d, "pkg", "mod")
	}
	home, _ := os.UserHomeDir()
	return filepath.Join(home, "go", "pkg", "mod")
}

func resolve(file string) (string, error) {
	if !strings.HasPrefix(file, "mod:") {
		return filepath.Join(repo, file), nil
	}
	rest := strings.TrimPrefix(file, "mod:")
	gomod, err := os.ReadFile(filepath.Join(repo, "go.mod"))
	if err != nil {
		return "", err
	}
	for _, line := range strings.Split(string(gomod), "\n") {
		f := strings.Fields(line)
		if len(f) >= 2 && strings.HasPrefix(rest, f[0]+"/") && strings.HasPrefix(f[1], "v") {
			esc := ""
			for _, r := range f[0] {
				if r >= 'A' && r <= 'Z' {
					esc += "!" + string(r+32)
				} else {
					esc += string(r)
				}
			}
			return filepath.Join(modCacheDir(), esc+"@"+f[1], strings.TrimPrefix(rest, f[0]+"/")), nil
		}
	}
	return "", fmt.Errorf("module for %s not found in go.mod", rest)
}

// constant evaluator over the package-level constants of one directory
type pkgConsts struct {
	decls map[string]ast.Expr
	iota  map[string]int
	memo  map[string]constant.Value
}

func loadConsts(dir string) (*pkgConsts, error) {
	pc := &pkgConsts{decls: map[string]ast.Expr{}, iota: map[string]int{}, memo: map[string]constant.Value{}}
	ents, err := os.ReadDir(dir)
	if err != nil {
		return nil, err
	}
	fset := token.NewFileSet()
	for _, e := range ents {
		if !strings.HasSuffix(e.Name(), ".go") || strings.HasSuffix(e.Name(), "_test.go") {
			continue
		}
		f, err := parser.ParseFile(fset, filepath.Join(dir, e.Name()), nil, 0)
		if err != nil {
			return nil, err
		}
		for _, d := range f.Decls {
			gd, ok := d.(*ast.GenDecl)
			if !ok || gd.Tok != token.CONST {
				continue
			}
			var lastVals []ast.Expr
			for i, sp := range gd.Specs {
				vs := sp.(*ast.ValueSpec)
				vals := vs.Values
				if len(vals) == 0 {
					vals = lastVals
				} else {
					lastVals = vals
				}
				for j, n := range vs.Names {
					if j < len(vals) {
						pc.decls[n.Name] = vals[j]
						pc.iota[n.Name] = i
					}
				}
			}
		}
	}
	return pc, nil
}

func (pc *pkgConsts) eval(e ast.Expr, iota int) (constant.Value, error) {
	switch x := e.(type) {
	case *ast.BasicLit:
		v := constant.MakeFromLiteral(x.Value, x.Kind, 0)
		if v.Kind() == constant.Unknown {
			return nil, fmt.Errorf("bad literal %s", x.Value)
		}
		return v, nil
	case *ast.ParenExpr:
		return pc.eval(x.X, iota)
	case *ast.Ident:
		if x.Name == "iota" {
			return constant.MakeInt64(int64(iota)), nil
		}
		if v, ok := pc.memo[x.Name]; ok {
			return v, nil
		}
		d, ok := pc.decls[x.Name]
		if !ok {
			return nil, fmt.Errorf("unknown constant %s", x.Name)
		}
		v, err := pc.eval(d, pc.iota[x.Name])
		if err == nil {
			pc.memo[x.Name] = v
		}
		return v, err
	case *ast.UnaryExpr:
		v, err := pc.eval(x.X, iota)
		if err != nil {
			return nil, err
		}
		return constant.UnaryOp(x.Op, v, 0), nil
	case *ast.BinaryExpr:
		a, err := pc.eval(x.X, iota)
		if err != nil {
			return nil, err
		}
		b, err := pc.eval(x.Y, iota)
		if err != nil {
			return nil, err
		}
		switch x.Op {
		case token.SHL, token.SHR:
			n, _ := constant.Uint64Val(b)
			return constant.Shift(a, x.Op, uint(n)), nil
		case token.QUO:
			if a.Kind() == constant.Int && b.Kind() == constant.Int {
				return constant.BinaryOp(a, token.QUO_ASSIGN, b), nil
			}
		}
		return constant.BinaryOp(a, x.Op, b), nil
	case *ast.CallExpr: // conversions such as uint64(x), time.Duration(x)
		if len(x.Args) == 1 {
			return pc.eval(x.Args[0], iota)
		}
	case *ast.SelectorExpr: // time.Second etc.
		if id, ok := x.X.(*ast.Ident); ok && id.Name == "time" {
			switch x.Sel.Name {
			case "Nanosecond":
				return constant.MakeInt64(1), nil
			case "Microsecond":
				return constant.MakeInt64(1000), nil
			case "Millisecond":
				return constant.MakeInt64(1000000), nil
			case "Second":
				return constant.MakeInt64(1000000000), nil
			case "Minute":
				return constant.MakeInt64(60000000000), nil
			}
		}
	}
	return nil, fmt.Errorf("unsupported constant expression %T", e)
}

func leanLit(v string, typ string) (string, error) {
	switch typ {
	case "Nat":
		if strings.HasPrefix(v, "-") {
			return "", fmt.Errorf("negative value %s for Nat", v)
		}
		return v, nil
	case "Int":
		if strings.HasPrefix(v, "-") {
			return "(" + v + ")", nil
		}
		return v, nil
	case "String":
		return fmt.Sprintf("%q", v), nil
	case "Bool":
		if v == "true" || v == "false" {
			return v, nil
		}
	}
	return "", fmt.Errorf("cannot render %q as %s", v, typ)
}

func evalIntExpr(pc *pkgConsts, src string) (string, error) {
	e, err := parser.ParseExpr(src)
	if err != nil {
		return "", err
	}
	v, err := pc.eval(e, 0)
	if err != nil {
		return "", err
	}
	if v.Kind() != constant.Int {
		return "", fmt.Errorf("%s is not an integer constant", src)
	}
	return v.ExactString(), nil
}

func extractOne(f Fact, cache map[string]*pkgConsts) (string, error) {
	path, err := resolve(f.File)
	if err != nil {
		return "", err
	}
	dir := filepath.Dir(path)
	pc := cache[dir]
	if pc == nil {
		pc, err = loadConsts(dir)
		if err != nil {
			return "", err
		}
		cache[dir] = pc
	}
	switch f.Kind {
	case "const":
		v, err := pc.eval(&ast.Ident{Name: f.Const}, 0)
		if err != nil {
			return "", err
		}
		if f.Type == "String" {
			return leanLit(constant.StringVal(v), "String")
		}
		return leanLit(v.ExactString(), f.Type)
	case "regex", "count", "present":
		src, err := os.ReadFile(path)
		if err != nil {
			return "", err
		}
		re, err := regexp.Compile(f.Pattern)
		if err != nil {
			return "", err
		}
		ms := re.FindAllStringSubmatch(string(src), -1)
		switch f.Kind {
		case "count":
			return fmt.Sprint(len(ms)), nil
		case "present":
			return fmt.Sprint(len(ms) > 0), nil
		}
		want := f.Count
		if want == 0 {
			want = 1
		}
		if len(ms) != want {
			return "", fmt.Errorf("pattern %q matched %d times in %s, expected %d", f.Pattern, len(ms), f.File, want)
		}
		for _, m := range ms {
			if len(m) < 2 || m[1] != ms[0][1] {
				return "", fmt.Errorf("pattern %q: matches capture different text", f.Pattern)
			}
		}
		switch f.Type {
		case "Nat", "Int":
			v, err := evalIntExpr(pc, ms[0][1])
			if err != nil {
				return "", err
			}
			return leanLit(v, f.Type)
		default:
			return leanLit(ms[0][1], f.Type)
		}
	}
	return "", fmt.Errorf("unknown kind %q", f.Kind)
}

func main() {
	flag.StringVar(&repo, "repo", "/repo", "repository root")
	specDir := flag.String("specs", "/verif/facts", "directory of fact specs")
	outDir := flag.String("out", "/verif/lean/Rtsp/Generated/Facts", "output directory for Lean files")
	jsonOut := flag.String("json", "", "also write all facts as JSON here")
	flag.Parse()
	specs, _ := filepath.Glob(filepath.Join(*specDir, "*.json"))
	sort.Strings(specs)
	all := map[string]map[string]string{}
	var errs []string
	cache := map[string]*pkgConsts{}
	os.MkdirAll(*outDir, 0o755)
	for _, sp := range specs {
		b, err := os.ReadFile(sp)
		if err != nil {
			errs = append(errs, err.Error())
			continue
		}
		var s Spec
		if err := json.Unmarshal(b, &s); err != nil {
			errs = append(errs, sp+": "+err.Error())
			continue
		}
		var sb strings.Builder
		fmt.Fprintf(&sb, "/- GENERATED by /verif/go/cmd/extract from /repo's working tree (spec: facts/%s). Do not edit. -/\nnamespace Rtsp.Facts.%s\n\n", filepath.Base(sp), s.Module)
		all[s.Module] = map[string]string{}
		for _, f := range s.Facts {
			v, err := extractOne(f, cache)
			if err != nil {
				errs = append(errs, fmt.Sprintf("%s.%s: %v", s.Module, f.Name, err))
				continue
			}
			all[s.Module][f.Name] = v
			where := f.Const
			if where == "" {
				where = f.Pattern
			}
			fmt.Fprintf(&sb, "/-- %s : %s -/\ndef %s : %s := %s\n\n", f.File, strings.ReplaceAll(where, "-/", "- /"), f.Name, f.Type, v)
		}
		fmt.Fprintf(&sb, "end Rtsp.Facts.%s\n", s.Module)
		out := filepath.Join(*outDir, s.Module+".lean")
		old, _ := os.ReadFile(out)
		if string(old) != sb.String() {
			if err := os.WriteFile(out, []byte(sb.String()), 0o644); err != nil {
				errs = append(errs, err.Error())
			}
		}
	}
	if *jsonOut != "" {
		b, _ := json.MarshalIndent(map[string]any{"facts": all, "errors": errs}, "", " ")
		os.WriteFile(*jsonOut, b, 0o644)
	}
	if len(errs) > 0 {
		for _, e := range errs {
			fmt.Fprintln(os.Stderr, "extract:", e)
		}
		os.Exit(3)
	}
}
