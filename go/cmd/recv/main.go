package main

import (
	"verifharness/corr"
	"verifharness/dom/recv"
)

func main() { corr.Main("recv", recv.Run) }
