package main

import (
	"verifharness/corr"
	timedom "verifharness/dom/time"
)

func main() { corr.Main("time", timedom.Run) }
