package main

import (
	"fmt"
	"io"
	"net"
	"time"

	"github.com/bluenviron/gortsplib/v5"
)

func main() {
	s := &gortsplib.Server{RTSPAddress: "127.0.0.1:0", IdleTimeout: time.Second}
	if err := s.Start(); err != nil {
		panic(err)
	}
	c, err := net.Dial("tcp", s.NetListener().Addr().String())
	if err != nil {
		panic(err)
	}
	io.WriteString(c, "GET / HTTP/1.1\r\nHost: x\r\nConnection: Upgrade\r\nUpgrade: websocket\r\nSec-WebSocket-Protocol: rtsp.onvif.org\r\nSec-WebSocket-Version: 13\r\nSec-WebSocket-Key: dGhlIHNhbXBsZSBub25jZQ==\r\n\r\nEXTRA")
	buf := make([]byte, 1000)
	c.SetReadDeadline(time.Now().Add(2 * time.Second))
	n, err := c.Read(buf)
	fmt.Printf("client read: %q %v\n", buf[:n], err)
	time.Sleep(500 * time.Millisecond)
	fmt.Println("server process still alive")
	s.Close()
}
