package main

import (
	"bufio"
	"fmt"
	"io"
	"net"
	"runtime"
	"strings"
	"time"

	"github.com/bluenviron/gortsplib/v5"
	"github.com/bluenviron/gortsplib/v5/pkg/base"
	"github.com/bluenviron/gortsplib/v5/pkg/description"
	"github.com/bluenviron/gortsplib/v5/pkg/format"
)

type handler struct {
	stream *gortsplib.ServerStream
}

func (h *handler) OnConnOpen(ctx *gortsplib.ServerHandlerOnConnOpenCtx)   { fmt.Println("conn open") }
func (h *handler) OnConnClose(ctx *gortsplib.ServerHandlerOnConnCloseCtx) { fmt.Println("conn close", ctx.Error) }
func (h *handler) OnSessionOpen(ctx *gortsplib.ServerHandlerOnSessionOpenCtx) {
	fmt.Println("session open")
}
func (h *handler) OnSessionClose(ctx *gortsplib.ServerHandlerOnSessionCloseCtx) {
	fmt.Println("session close", ctx.Error)
}
func (h *handler) OnDescribe(ctx *gortsplib.ServerHandlerOnDescribeCtx) (*base.Response, *gortsplib.ServerStream, error) {
	return &base.Response{StatusCode: base.StatusOK}, h.stream, nil
}
func (h *handler) OnSetup(ctx *gortsplib.ServerHandlerOnSetupCtx) (*base.Response, *gortsplib.ServerStream, error) {
	if ctx.Session.State() == gortsplib.ServerSessionStatePreRecord {
		return &base.Response{StatusCode: base.StatusOK}, nil, nil
	}
	return &base.Response{StatusCode: base.StatusOK}, h.stream, nil
}
func (h *handler) OnPlay(ctx *gortsplib.ServerHandlerOnPlayCtx) (*base.Response, error) {
	return &base.Response{StatusCode: base.StatusOK}, nil
}
func (h *handler) OnAnnounce(ctx *gortsplib.ServerHandlerOnAnnounceCtx) (*base.Response, error) {
	return &base.Response{StatusCode: base.StatusOK}, nil
}
func (h *handler) OnRecord(ctx *gortsplib.ServerHandlerOnRecordCtx) (*base.Response, error) {
	return &base.Response{StatusCode: base.StatusOK}, nil
}

func main() {
	h := &handler{}
	s := &gortsplib.Server{
		Handler:        h,
		RTSPAddress:    "127.0.0.1:18554",
		UDPRTPAddress:  "127.0.0.1:18000",
		UDPRTCPAddress: "127.0.0.1:18001",
		ReadTimeout:    500 * time.Millisecond,
		IdleTimeout:    1 * time.Second,
	}
	if err := s.Start(); err != nil {
		panic(err)
	}
	desc := &description.Session{Medias: []*description.Media{
		{Type: description.MediaTypeVideo, Formats: []format.Format{&format.H264{PayloadTyp: 96, PacketizationMode: 1}}},
		{Type: description.MediaTypeAudio, Formats: []format.Format{&format.G711{PayloadTyp: 0, MULaw: true, SampleRate: 8000, ChannelCount: 1}}},
	}}
	h.stream = &gortsplib.ServerStream{Server: s, Desc: desc}
	if err := h.stream.Initialize(); err != nil {
		panic(err)
	}
	base0 := runtime.NumGoroutine()
	fmt.Println("goroutines", base0, s.VerifLedger())

	// slowloris probe: connect, send nothing / 3 bytes
	for _, pre := range []string{"", "OPT", "GET ", "OPTIONS rtsp://x/ RTSP/1.0\r\n"} {
		c, err := net.Dial("tcp", "127.0.0.1:18554")
		if err != nil {
			panic(err)
		}
		io.WriteString(c, pre)
		t0 := time.Now()
		c.SetReadDeadline(time.Now().Add(8 * time.Second))
		_, err = bufio.NewReader(c).ReadByte()
		fmt.Printf("prefix %q: read returned after %v: %v; ledger %+v\n", pre, time.Since(t0).Round(time.Millisecond), err, s.VerifLedger())
		c.Close()
	}
	time.Sleep(500 * time.Millisecond)
	fmt.Println("goroutines", runtime.NumGoroutine(), s.VerifLedger())

	// a full raw conversation
	c, _ := net.Dial("tcp", "127.0.0.1:18554")
	br := bufio.NewReader(c)
	send := func(s string) {
		io.WriteString(c, s)
		c.SetReadDeadline(time.Now().Add(3 * time.Second))
		var lines []string
		cl := 0
		for {
			l, err := br.ReadString('\n')
			if err != nil {
				fmt.Println("ERR", err)
				return
			}
			l = strings.TrimRight(l, "\r\n")
			if l == "" {
				break
			}
			fmt.Sscanf(l, "Content-Length: %d", &cl)
			lines = append(lines, l)
		}
		io.CopyN(io.Discard, br, int64(cl))
		fmt.Println("<<", strings.Join(lines, " | "))
	}
	send("OPTIONS rtsp://127.0.0.1:18554/s RTSP/1.0\r\nCSeq: 1\r\n\r\n")
	send("DESCRIBE rtsp://127.0.0.1:18554/s RTSP/1.0\r\nCSeq: 2\r\n\r\n")
	send("SETUP rtsp://127.0.0.1:18554/s/trackID=0 RTSP/1.0\r\nCSeq: 3\r\nTransport: RTP/AVP;unicast;client_port=35000-35001\r\n\r\n")
	fmt.Println(s.VerifLedger())
	fmt.Println(h.stream.VerifReaders())
	send("PLAY rtsp://127.0.0.1:18554/s RTSP/1.0\r\nCSeq: 4\r\nSession: x\r\n\r\n")
	time.Sleep(200 * time.Millisecond)
	fmt.Println(s.VerifLedger())
	fmt.Println(h.stream.VerifReaders())
	c.Close()
	for i := 0; i < 8; i++ {
		time.Sleep(500 * time.Millisecond)
		r, a, m := h.stream.VerifReaders()
		fmt.Println(i, s.VerifLedger(), r, a, m, runtime.NumGoroutine())
	}
	s.Close()
}
