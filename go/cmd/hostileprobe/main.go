package main

import (
	"bufio"
	"fmt"
	"io"
	"net"
	"os"
	"runtime"
	"strings"
	"time"

	"github.com/bluenviron/gortsplib/v5"
	"github.com/bluenviron/gortsplib/v5/pkg/base"
	"github.com/bluenviron/gortsplib/v5/pkg/description"
	"github.com/bluenviron/gortsplib/v5/pkg/format"
)

type handler struct {
	stream *gortsplib.ServerStream
}

func (h *handler) OnConnOpen(ctx *gortsplib.ServerHandlerOnConnOpenCtx)   { fmt.Println("conn open") }
func (h *handler) OnConnClose(ctx *gortsplib.ServerHandlerOnConnCloseCtx) { fmt.Println("conn close", ctx.Error) }
func (h *handler) OnSessionOpen(ctx *gortsplib.ServerHandlerOnSessionOpenCtx) {
	fmt.Println("session open")
}
func (h *handler) OnSessionClose(ctx *gortsplib.ServerHandlerOnSessionCloseCtx) {
	fmt.Println("session close", ctx.Error)
}
func (h *handler) OnDescribe(ctx *gortsplib.ServerHandlerOnDescribeCtx) (*base.Response, *gortsplib.ServerStream, error) {
	return &base.Response{StatusCode: base.StatusOK}, h.stream, nil
}
func (h *handler) OnSetup(ctx *gortsplib.ServerHandlerOnSetupCtx) (*base.Response, *gortsplib.ServerStream, error) {
	if ctx.Session.State() == gortsplib.ServerSessionStatePreRecord {
		return &base.Response{StatusCode: base.StatusOK}, nil, nil
	}
	return &base.Response{StatusCode: base.StatusOK}, h.stream, nil
}
func (h *handler) OnPlay(ctx *gortsplib.ServerHandlerOnPlayCtx) (*base.Response, error) {
	return &base.Response{StatusCode: base.StatusOK}, nil
}
func (h *handler) OnAnnounce(ctx *gortsplib.ServerHandlerOnAnnounceCtx) (*base.Response, error) {
	return &base.Response{StatusCode: base.StatusOK}, nil
}
func (h *handler) OnRecord(ctx *gortsplib.ServerHandlerOnRecordCtx) (*base.Response, error) {
	return &base.Response{StatusCode: base.StatusOK}, nil
}

func main() {
	h := &handler{}
	s := &gortsplib.Server{
		Handler:        h,
		RTSPAddress:    "127.0.0.1:18554",
		UDPRTPAddress:  "127.0.0.1:18000",
		UDPRTCPAddress: "127.0.0.1:18001",
		ReadTimeout:    500 * time.Millisecond,
		IdleTimeout:    1 * time.Second,
	}
	if err := s.Start(); err != nil {
		panic(err)
	}
	desc := &description.Session{Medias: []*description.Media{
		{Type: description.MediaTypeVideo, Formats: []format.Format{&format.H264{PayloadTyp: 96, PacketizationMode: 1}}},
		{Type: description.MediaTypeAudio, Formats: []format.Format{&format.G711{PayloadTyp: 0, MULaw: true, SampleRate: 8000, ChannelCount: 1}}},
	}}
	h.stream = &gortsplib.ServerStream{Server: s, Desc: desc}
	if err := h.stream.Initialize(); err != nil {
		panic(err)
	}
	base0 := runtime.NumGoroutine()
	fmt.Println("goroutines", base0, s.VerifLedger())

	// a full raw conversation
	c, _ := net.Dial("tcp", "127.0.0.1:18554")
	br := bufio.NewReader(c)
	sid := ""
	send := func(s string) {
		io.WriteString(c, s)
		c.SetReadDeadline(time.Now().Add(3 * time.Second))
		var lines []string
		cl := 0
		for {
			l, err := br.ReadString('\n')
			if err != nil {
				fmt.Println("ERR", err)
				return
			}
			l = strings.TrimRight(l, "\r\n")
			if l == "" {
				break
			}
			fmt.Sscanf(l, "Content-Length: %d", &cl)
			lines = append(lines, l)
			if strings.HasPrefix(l, "Session: ") {
				sid = strings.Split(l[9:], ";")[0]
			}
		}
		io.CopyN(io.Discard, br, int64(cl))
		fmt.Println("<<", strings.Join(lines, " | "))
	}
	sdp := "v=0\r\no=- 0 0 IN IP4 127.0.0.1\r\ns=x\r\nc=IN IP4 0.0.0.0\r\nt=0 0\r\nm=video 0 RTP/AVP 96\r\na=rtpmap:96 H264/90000\r\na=fmtp:96 packetization-mode=1\r\na=control:trackID=0\r\n"
	send(fmt.Sprintf("ANNOUNCE rtsp://127.0.0.1:18554/pub RTSP/1.0\r\nCSeq: 1\r\nContent-Type: application/sdp\r\nContent-Length: %d\r\n\r\n%s", len(sdp), sdp))
	send("SETUP rtsp://127.0.0.1:18554/pub/trackID=0 RTSP/1.0\r\nCSeq: 2\r\nTransport: RTP/AVP;unicast;client_port=" + os.Args[1] + ";mode=record\r\n\r\n")
	send("RECORD rtsp://127.0.0.1:18554/pub RTSP/1.0\r\nCSeq: 3\r\nSession: " + sid + "\r\n\r\n")
	c.Close()
	for i := 0; i < 10; i++ {
		time.Sleep(500 * time.Millisecond)
		fmt.Println(i, s.VerifLedger(), runtime.NumGoroutine())
	}
	s.Close()
}
