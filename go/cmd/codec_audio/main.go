package main

import (
	"verifharness/corr"
	"verifharness/dom/codecaudio"
)

func main() { corr.Main("codec_audio", codecaudio.Run) }
