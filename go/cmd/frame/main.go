package main

import (
	"verifharness/corr"
	"verifharness/dom/frame"
)

func main() { corr.Main("frame", frame.Run) }
