package main

import (
	"verifharness/corr"
	"verifharness/dom/sec"
)

func main() { corr.Main("sec", sec.Run) }
