package main

import (
	"verifharness/corr"
	"verifharness/dom/pipe"
)

func main() { corr.Main("pipe", pipe.Run) }
