package main

import (
	"verifharness/corr"
	"verifharness/dom/size"
)

func main() { corr.Main("size", size.Run) }
