#!/bin/bash
# Run once after a fresh restore, offline: builds the Lean modules and oracle executables named in
# props/*.json and the Go harness binaries.  Nothing is fetched.
set -e
cd "$(dirname "$0")"
export GOFLAGS=-mod=mod GOPROXY=off
unset GOSUMDB GOTOOLCHAIN || true
mkdir -p .work/bin evidence replays
(cd go && go build -o ../.work/bin/extract ./cmd/extract && ../.work/bin/extract -repo /repo || true)
targets=$(python3 - <<'PY'
import json,glob
t=set()
for f in glob.glob('props/C*.json'):
    c=json.load(open(f))
    t.update(c.get('lean',[]))
    t.update('oracle_'+d['oracle'] for d in c.get('domains',[]) if d.get('oracle'))
print(' '.join(sorted(t)))
PY
)
(cd lean && lake build $targets)
(cd go && for d in cmd/*/; do n=$(basename $d); [ "$n" = extract ] && continue; go build -tags verif -o ../.work/bin/$n ./cmd/$n || true; done)
echo setup done
