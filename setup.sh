#!/bin/bash
# Run once after a fresh restore, offline: builds the Lean modules and oracle executables named in
# props/*.json and the Go harness binaries.  Nothing is fetched.  A target that fails to build does
# not stop the others: the check of the property it belongs to reports it.
cd "$(dirname "$0")"
export GOFLAGS=-mod=mod GOPROXY=off
unset GOSUMDB GOTOOLCHAIN || true
mkdir -p .work/bin evidence replays
(cd go && go build -o ../.work/bin/extract ./cmd/extract && ../.work/bin/extract -repo /repo) || echo "setup: extractor reported a problem"
(cd go && go build -o ../.work/bin/g2l ./cmd/g2l && ../.work/bin/g2l -repo /repo -spec /verif/trans -out /verif/lean/Rtsp/Generated/Trans) || echo "setup: translator reported a problem"
targets=$(python3 - <<'PY'
import json,glob
t=set()
for f in glob.glob('props/C*.json'):
    c=json.load(open(f))
    if not c.get('theorems'):
        continue
    t.update(c.get('lean',[]))
    t.update('oracle_'+d['oracle'] for d in c.get('domains',[]) if d.get('oracle'))
print(' '.join(sorted(t)))
PY
)
(cd lean && lake build $targets) || {
  echo "setup: building all targets together failed; building them one by one"
  for t in $targets; do (cd lean && lake build $t) || echo "setup: target $t failed to build"; done
}
(cd go && for d in cmd/*/; do n=$(basename $d); [ "$n" = extract ] && continue; [ "$n" = g2l ] && continue; go build -tags verif -o ../.work/bin/$n ./cmd/$n || echo "setup: go cmd $n failed to build"; done)
echo setup done
exit 0
