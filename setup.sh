#!/bin/bash
# Run once after a fresh restore, offline: builds the Lean library + oracle executables and the Go harness.
set -e
cd "$(dirname "$0")"
export GOFLAGS=-mod=mod GOPROXY=off
unset GOSUMDB GOTOOLCHAIN || true
mkdir -p .work/bin evidence replays
(cd go && cp /repo/go.sum . 2>/dev/null || true; go build -o ../.work/bin/extract ./cmd/extract && ../.work/bin/extract -repo /repo || true)
(cd lean && lake build)
(cd go && for d in cmd/*/; do n=$(basename $d); [ "$n" = extract ] && continue; go build -tags verif -o ../.work/bin/$n ./cmd/$n || true; done)
echo setup done
